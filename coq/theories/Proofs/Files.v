(* Proofs/Files.v — C11: pins, option parsing, de-duplication, finite facts about the regenerated template lists
   (decided on the symbolic runs of Proofs/FilesSym.v) and their lifting to every naming / service / proto. *)
From Coq Require Import Permutation.
From GV Require Import Base.Str Model.Case Gen.C11Gen Model.Files Proofs.FilesSym.

(* ------------------------------------------------------------------ T0 pins: the literals the model was written against *)
Lemma pins_generator :
  get_filename_consts = [".j2"; "%namespace"; "%name_%version"; "%version"; "%name"; "%sub"; "/"; "service"; "%service";
                         "service"; "proto"; "%proto"; "proto"; "/+"; "/"]
  /\ render_template_consts = ["gapic_metadata.json.j2"; "%namespace/%name/"; "%service"; "%proto"; "%sub"; "%proto"; "%service";
                               "transport"; "async_client"; "grpc"; "rest_asyncio"; "rest_base"; "rest"]
  /\ desired_transport_consts = ["__init__"; "base"; "README"]
  /\ get_file_consts = ["py.typed"; "__init__.py"]
  /\ get_response_consts = ["/"; "_"; "__init__.py.j2"]
  /\ sample_template_name = "sample.py.j2".
Proof. repeat split. Qed.

Lemma pins_naming_options :
  naming_build_consts = ["Naming"; "."; "."; ", "; "^((?P<namespace>[a-z0-9_.]+)\.)?(?P<name>[a-z0-9_]+)";
                         "\.(?P<version>v[0-9]+(p[0-9]+)?((alpha|beta)[0-9]*)?)"; "namespace"; "namespace"; ""; "name"; "namespace";
                         "."; "name"; "version"; ""; "All protos must have the same proto package up to and including the version.";
                         " "; "_"; " "; " "; "."; "."]
  /\ options_build_consts = ["Options"; ","; "true"; "="; "="; "DEFAULT"; "templates"; ".."; "templates"; "retry-config";
                             "service-yaml"; "type"; "samples"; "autogen-snippets"; "True"; "True"; "true"; "T"; "t"; "TRUE";
                             "old-naming"; "proto-plus-deps"; ""; "+"; "name"; ""; "namespace"; "warehouse-package-name"; "";
                             "lazy-import"; "add-iam-methods"; "metadata"; "transport"; "grpc"; "+"; "rest-numeric-enums";
                             "Unrecognized option: `python-gapic-"; "`."]
  /\ gapic_prefix = "python-gapic-"
  /\ invalid_module_extra = ["metadata"; "request"; "retry"; "timeout"; "transport"]
  /\ package_exprs = ["'.'.join(os.path.commonprefix([p.package.split('.') for p in req.proto_file if p.name in req.file_to_generate]))";
                      "'.'.join(os.path.commonprefix([p.split('.') for p in sorted(proto_packages)]))"]
  /\ sanitize_consts = ["."; "-"; "."; "_"; "-"; "_"; "_"]
  /\ sanitize_tests = ["'.' in name or '-' in name";
                       "name in invalid_module_names or to_snake_case(name) in invalid_module_names or full_path in visited_names";
                       "full_path in visited_names"]
  /\ file_to_generate_exprs = ["in_package(fd.package)"; "proto.file_to_generate"]
  /\ in_package_src = "not package or proto_package == package or proto_package.startswith(package + '.')"
  /\ subpackage_elts = ["p.meta.address.subpackage[level]"]
  /\ opt_split_first = true
  /\ forallb (fun k => negb (starts_with gapic_prefix k)) opt_flags = true
  /\ forallb (fun k => mem_str k consumed_keys) opt_flags = true
  /\ forallb (fun k => negb (ends_with "_" k)) invalid_module_names = true.
Proof. repeat split. Qed.

(* ------------------------------------------------------------------ de-duplication: response names are unique *)
Lemma mem_str_cons x y l : mem_str x (y :: l) = String.eqb x y || mem_str x l.
Proof. reflexivity. Qed.
Lemma dedup_acc_spec l : forall seen,
  NoDup (dedup_acc seen l) /\
  (forall x, In x (dedup_acc seen l) <-> In x l /\ mem_str x seen = false).
Proof.
  induction l as [|y l IH]; intros seen; cbn [dedup_acc].
  - split; [constructor | intros x; simpl; tauto].
  - destruct (mem_str y seen) eqn:Ey.
    + destruct (IH seen) as [ND Hin]. split; [assumption|].
      intros x. rewrite Hin. simpl. split; [tauto|]. intros [[->|H] Hs]; [congruence|tauto].
    + destruct (IH (y :: seen)) as [ND Hin]. split.
      * constructor; [|assumption]. rewrite Hin. intros [_ H]. rewrite mem_str_cons, String.eqb_refl in H. discriminate.
      * intros x. cbn [In]. rewrite Hin, mem_str_cons. split.
        -- intros [<-|[H1 H2]]; [split; [now left|exact Ey]|]. apply orb_false_iff in H2 as [_ H2]. tauto.
        -- intros [[<-|H1] H2]; [now left|]. destruct (String.eqb x y) eqn:E.
           ++ apply String.eqb_eq in E. subst. now left.
           ++ right. split; [assumption|]. exact H2.
Qed.
Lemma dedup_nodup l : NoDup (dedup l).
Proof. apply dedup_acc_spec. Qed.
Lemma dedup_in l x : In x (dedup l) <-> In x l.
Proof. unfold dedup. rewrite (proj2 (dedup_acc_spec l [])). simpl. tauto. Qed.

(* names_unique: whatever the templates, the API and the options, the candidate names of the response are pairwise distinct *)
Lemma names_unique templates a o names : candidates templates a o = Ok names -> NoDup names.
Proof.
  unfold candidates, bind. destruct (instances templates a o); [|discriminate].
  intro H. inversion H. apply dedup_nodup.
Qed.
(* and so are the names of any response that passes the T1 comparison with them *)
Lemma filter_nodup {A} (f : A -> bool) l : NoDup l -> NoDup (filter f l).
Proof.
  induction l as [|x l IH]; intro H; simpl; [constructor|]. inversion H; subst.
  destruct (f x); [constructor; [rewrite filter_In; tauto | auto] | auto].
Qed.
Lemma list_eqb_string_eq a : forall b, list_eqb String.eqb a b = true -> a = b.
Proof.
  induction a as [|x a IH]; intros [|y b] H; simpl in H; try discriminate; [reflexivity|].
  apply andb_true_iff in H as [H1 H2]. apply String.eqb_eq in H1. apply IH in H2. now subst.
Qed.
Lemma response_unique cands actual : NoDup cands -> response_ok cands actual = true -> NoDup actual.
Proof.
  intros ND H. unfold response_ok in H. apply andb_true_iff in H as [H _].
  apply list_eqb_string_eq in H. rewrite H. now apply filter_nodup.
Qed.

(* ------------------------------------------------------------------ Options.build: unknown options are ignored *)
Lemma bind_ok {A B} (r : res A) (f : A -> res B) b : bind r f = Ok b -> exists a, r = Ok a /\ f a = Ok b.
Proof. destruct r; simpl; [eauto|discriminate]. Qed.

Definition unknown_option_gen (first : bool) (raw : string) : bool :=
  match split_eq first (strip_ws raw) with
  | [k] | [k; _] => negb (mem_str k opt_flags) && negb (starts_with gapic_prefix k)
  | _ => false
  end.
Definition unknown_option : string -> bool := unknown_option_gen opt_split_first.
Lemma unknown_parse first raw : unknown_option_gen first raw = true -> parse_opt_gen first raw = Ok [].
Proof.
  unfold unknown_option_gen, parse_opt_gen.
  destruct (split_eq first (strip_ws raw)) as [|k [|v [|w l]]]; try discriminate; intro H;
    apply andb_true_iff in H as [H1 H2]; apply negb_true_iff in H1, H2; rewrite H1;
    unfold starts_with in H2; destruct (strip_prefix gapic_prefix k); try discriminate; reflexivity.
Qed.
Lemma parse_opts_app first l1 : forall l2,
  parse_opts_gen first (l1 ++ l2) =
  bind (parse_opts_gen first l1) (fun a => bind (parse_opts_gen first l2) (fun b => Ok (a ++ b)%list)).
Proof.
  induction l1 as [|x l1 IH]; intros l2; simpl.
  - destruct (parse_opts_gen first l2); reflexivity.
  - destruct (parse_opt_gen first x) as [a|e]; simpl; [|reflexivity]. rewrite IH.
    destruct (parse_opts_gen first l1) as [b|e]; simpl; [|reflexivity].
    destruct (parse_opts_gen first l2) as [c|e]; simpl; [|reflexivity]. now rewrite app_assoc.
Qed.
Lemma parse_opts_ignore first l1 raw l2 : unknown_option_gen first raw = true ->
  parse_opts_gen first (l1 ++ raw :: l2) = parse_opts_gen first (l1 ++ l2).
Proof.
  intro H. rewrite !parse_opts_app. simpl. rewrite (unknown_parse first raw H). simpl.
  destruct (parse_opts_gen first l1); simpl; [|reflexivity]. destruct (parse_opts_gen first l2); reflexivity.
Qed.

(* split_on c (sjoin c l) = l for pieces that do not contain c *)
Lemma srev_acc_app s : forall acc, srev_acc s acc = srev_acc s "" ++ acc.
Proof.
  induction s as [|c s IH]; intros acc; simpl; [reflexivity|].
  rewrite (IH (String c acc)), (IH (String c "")). now rewrite sapp_assoc.
Qed.
Lemma srev_cons c s : srev (String c s) = srev s ++ String c "".
Proof. unfold srev. simpl. apply srev_acc_app. Qed.
Lemma split_acc_piece c x : contains c x = false -> forall acc rest,
  split_on_acc c (x ++ String c rest) acc = (srev acc ++ x) :: split_on_acc c rest ""
  /\ split_on_acc c x acc = [srev acc ++ x].
Proof.
  induction x as [|a x IH]; intros H acc rest.
  - simpl. rewrite Ascii.eqb_refl. now rewrite sapp_nil_r.
  - simpl in H. apply orb_false_iff in H as [Ha Hx]. simpl. rewrite Ha.
    destruct (IH Hx (String a acc) rest) as [E1 E2]. rewrite E1, E2, srev_cons, !sapp_assoc. simpl. split; reflexivity.
Qed.
Lemma split_join c l : l <> [] -> Forall (fun x => contains c x = false) l -> split_on c (sjoin (String c "") l) = l.
Proof.
  unfold split_on. induction l as [|x l IH]; intros Hne Hall; [congruence|].
  inversion Hall as [|? ? Hx Hl]; subst. destruct l as [|y l].
  - simpl. now rewrite (proj2 (split_acc_piece c x Hx "" "")).
  - change (sjoin (String c "") (x :: y :: l)) with (x ++ String c "" ++ sjoin (String c "") (y :: l)).
    simpl append. rewrite (proj1 (split_acc_piece c x Hx "" _)). simpl. f_equal. apply IH; [discriminate|assumption].
Qed.

(* unknown_options_ignored, on the option string itself: removing an unknown option (one that Options.build can unpack and whose
   key is neither a flag of the generator nor prefixed python-gapic-) anywhere in the comma separated list changes nothing.
   Stated for the code as it is (opt_split_first regenerated from /repo) through the generic lemma. *)
Lemma unknown_options_ignored_gen first l1 raw l2 :
  Forall (fun x => contains ","%char x = false) (l1 ++ raw :: l2) -> (l1 ++ l2)%list <> [] -> unknown_option_gen first raw = true ->
  options_build_gen first (sjoin "," (l1 ++ raw :: l2)) = options_build_gen first (sjoin "," (l1 ++ l2)).
Proof.
  intros Hc Hne Hu. unfold options_build_gen.
  rewrite (split_join ","%char (l1 ++ raw :: l2)); [|destruct l1; discriminate|assumption].
  rewrite (split_join ","%char (l1 ++ l2)); [|assumption|].
  - now rewrite parse_opts_ignore.
  - apply Forall_app in Hc as [H1 H2]. inversion H2; subst. apply Forall_app. split; assumption.
Qed.
Lemma unknown_options_ignored l1 raw l2 :
  Forall (fun x => contains ","%char x = false) (l1 ++ raw :: l2) -> (l1 ++ l2)%list <> [] -> unknown_option raw = true ->
  options_build (sjoin "," (l1 ++ raw :: l2)) = options_build (sjoin "," (l1 ++ l2)).
Proof. exact (unknown_options_ignored_gen opt_split_first l1 raw l2). Qed.
Lemma unknown_option_alone_gen first raw : contains ","%char raw = false -> unknown_option_gen first raw = true ->
  options_build_gen first raw = options_build_gen first "".
Proof.
  intros Hc Hu. unfold options_build_gen. unfold split_on.
  rewrite (proj2 (split_acc_piece ","%char raw Hc "" "")). simpl parse_opts_gen. rewrite (unknown_parse first raw Hu).
  destruct first; reflexivity.
Qed.
Lemma unknown_option_alone raw : contains ","%char raw = false -> unknown_option raw = true -> options_build raw = options_build "".
Proof. exact (unknown_option_alone_gen opt_split_first raw). Qed.

(* every option whose KEY (the text before the first "=", blanks stripped) is neither a flag of the generator nor prefixed
   python-gapic- is such an unknown option, whatever its value — values containing "=" included (the code splits once) *)
Definition neq_eq (c : ascii) : bool := negb (Ascii.eqb c "="%char).
Definition key_of (raw : string) : string := stake_while neq_eq (strip_ws raw).
Definition unknown_key (raw : string) : bool :=
  negb (mem_str (key_of raw) opt_flags) && negb (starts_with gapic_prefix (key_of raw)).
Lemma split_on_acc_head c s : forall acc, exists tl,
  split_on_acc c s acc = (srev acc ++ stake_while (fun a => negb (Ascii.eqb a c)) s) :: tl.
Proof.
  induction s as [|a s IH]; intros acc; cbn [split_on_acc stake_while].
  - exists []. now rewrite sapp_nil_r.
  - destruct (Ascii.eqb a c); cbn [negb].
    + eexists. now rewrite sapp_nil_r.
    + destruct (IH (String a acc)) as [tl E]. exists tl. rewrite E, srev_cons, sapp_assoc. reflexivity.
Qed.
Lemma split_first_shape s : split_first "="%char s = [stake_while neq_eq s] \/ exists v, split_first "="%char s = [stake_while neq_eq s; v].
Proof.
  unfold split_first, split_on. destruct (split_on_acc_head "="%char s "") as [tl E]. rewrite E. cbn [srev srev_acc append].
  destruct tl as [|y tl]; [left; reflexivity | right; eexists; reflexivity].
Qed.
Lemma unknown_key_option raw : unknown_key raw = true -> unknown_option_gen true raw = true.
Proof.
  unfold unknown_key, unknown_option_gen, key_of, split_eq. intro H.
  destruct (split_first_shape (strip_ws raw)) as [E|[v E]]; rewrite E; exact H.
Qed.
Lemma unknown_key_ignored l1 raw l2 :
  Forall (fun x => contains ","%char x = false) (l1 ++ raw :: l2) -> (l1 ++ l2)%list <> [] -> unknown_key raw = true ->
  options_build (sjoin "," (l1 ++ raw :: l2)) = options_build (sjoin "," (l1 ++ l2)).
Proof.
  intros Hc Hne Hk. change options_build with (options_build_gen true).
  apply unknown_options_ignored_gen; auto using unknown_key_option.
Qed.
Lemma unknown_key_alone raw : contains ","%char raw = false -> unknown_key raw = true -> options_build raw = options_build "".
Proof.
  intros Hc Hk. change options_build with (options_build_gen true). apply unknown_option_alone_gen; auto using unknown_key_option.
Qed.

Example unknown_option_examples :
  unknown_key "foo=bar" = true /\ unknown_key " Mgoogle/api/x.proto=pkg=alias " = true /\ unknown_key "foo=a=b" = true
  /\ unknown_key "" = true /\ unknown_key "=" = true /\ unknown_key "metadata" = false /\ unknown_key "transport=a=b" = false
  /\ unknown_key "python-gapic-name=x" = false
  /\ options_build "transport=rest,foo=a=b,metadata" = options_build "transport=rest,metadata"
  /\ on_ok (options_build "transport=a=b") (fun o => sl_eqb (o_transport o) ["a=b"]) = true.
Proof. vm_compute. repeat split. Qed.

(* ------------------------------------------------------------------ finite facts about the template lists *)
Definition tpl_lists : list (list string) := [client_templates default_templates; client_templates ads_templates].
Definition in_lists (tpl : string) : Prop := In tpl (client_templates default_templates) \/ In tpl (client_templates ads_templates).

(* private templates never reach rendering, whatever the API *)
Lemma private_skipped templates tpl : In tpl (client_templates templates) -> is_private tpl = false /\ is_sample_template tpl = false.
Proof.
  unfold client_templates. rewrite filter_In. intros [_ H]. apply andb_true_iff in H as [H1 H2].
  apply negb_true_iff in H1, H2. tauto.
Qed.

Definition tpl_norm_ok (tpl : string) : bool :=
  forallb (fun f => match sym_filename f tpl with Some r => sym_norm NStart r | None => false end) all_flags.
Lemma templates_norm_ok : forallb (forallb tpl_norm_ok) tpl_lists = true.
Proof. vm_compute. reflexivity. Qed.

Lemma forallb_two {A} (P : A -> bool) (l1 l2 : list A) : forallb (forallb P) [l1; l2] = forallb P l1 && (forallb P l2 && true).
Proof. reflexivity. Qed.
Lemma in_lists_forallb (P : string -> bool) : forallb (forallb P) tpl_lists = true -> forall tpl, in_lists tpl -> P tpl = true.
Proof.
  intro H. unfold tpl_lists in H. rewrite forallb_two in H.
  apply andb_true_iff in H as [H1 H2]. apply andb_true_iff in H2 as [H2 _].
  intros tpl [Hin|Hin].
  - rewrite forallb_forall in H1. exact (H1 tpl Hin).
  - rewrite forallb_forall in H2. exact (H2 tpl Hin).
Qed.

(* names_relative_normalised for one rendering: every template of either tree, every valuation of words *)
Lemma get_filename_normalised tpl sg f :
  in_lists tpl -> val_ok sg f -> normalised (get_filename tpl (ctx_of_val sg f)) = true.
Proof.
  intros Hin Hv. pose proof (in_lists_forallb _ templates_norm_ok tpl Hin) as H.
  unfold tpl_norm_ok in H. rewrite forallb_forall in H. specialize (H f (all_flags_complete f)).
  destruct (sym_filename f tpl) as [r|] eqn:E; [|discriminate].
  destruct (get_filename_sound sg f tpl r Hv E) as [-> Hg]. unfold normalised. now apply sym_norm_sound.
Qed.

(* ------------------------------------------------------------------ lifting to the rendered instances of an API *)
Definition word (s : string) : Prop := is_wordb s = true.
Record wf_rapi (a : rapi) (old : bool) : Prop := {
  wf_name : word (ra_name a);
  wf_ver : ra_version a = "" \/ word (ra_version a);
  wf_ns : ra_ns a = "" \/ pathok (ra_ns a) = true;
  wf_nv : ra_nv a = ra_name a ++ (if is_empty (ra_version a) then "" else (if old then "." else "_") ++ ra_version a);
  wf_protos : Forall (fun u => word (u_module u) /\ Forall word (u_sub u) /\ Forall word (u_services u)) (ra_protos a) }.
Definition inst_wf (i : inst) : Prop :=
  Forall word (i_view i) /\ (forall s, i_service i = Some s -> word s) /\ (forall p, i_proto i = Some p -> word p).

Definition opt_str (o : option string) : string := match o with Some s => s | None => "" end.
Definition is_some {A} (o : option A) : bool := match o with Some _ => true | None => false end.
Definition val_of (a : rapi) (i : inst) : valuation :=
  fun v => match v with
           | VNs => ra_ns a | VName => ra_name a | VVer => ra_version a | VSub => sjoin "/" (i_view i)
           | VSvc => opt_str (i_service i) | VProto => opt_str (i_proto i)
           end.
Definition flags_of (a : rapi) (old : bool) (i : inst) : flags :=
  {| fl_ns := nonempty (ra_ns a); fl_ver := nonempty (ra_version a);
     fl_sub := match i_view i with [] => false | _ => true end; fl_old := old;
     fl_svc := is_some (i_service i); fl_proto := is_some (i_proto i) |}.

Lemma opt_val_nonempty s : opt_val (nonempty s) s = s.
Proof. destruct s; reflexivity. Qed.

Lemma ctx_of_val_inst a old i : wf_rapi a old ->
  ctx_of a (i_view i) (i_service i) (i_proto i) = ctx_of_val (val_of a i) (flags_of a old i).
Proof.
  intros W. unfold ctx_of, ctx_of_val, flags_of. cbn [fl_ns fl_ver fl_sub fl_old fl_svc fl_proto val_of].
  rewrite !opt_val_nonempty. f_equal.
  - rewrite (wf_nv a old W). unfold nv_atoms. cbn [fl_ver fl_old conc val_of].
    unfold nonempty. destruct (ra_version a) as [|c v] eqn:Ev; simpl; rewrite ?Ev.
    + reflexivity.
    + destruct old; simpl; now rewrite sapp_nil_r.
  - destruct (i_view i); reflexivity.
  - destruct (i_service i); reflexivity.
  - destruct (i_proto i); reflexivity.
Qed.

Lemma val_ok_inst a old i : wf_rapi a old -> inst_wf i -> val_ok (val_of a i) (flags_of a old i).
Proof.
  intros W (Hv & Hs & Hp). unfold val_ok, flags_of. cbn [fl_ns fl_ver fl_sub fl_svc fl_proto val_of]. repeat split.
  - apply is_wordb_pathok, (wf_name a old W).
  - intro H. destruct (wf_ns a old W) as [E|E]; [rewrite E in H; discriminate | exact E].
  - intro H. destruct (wf_ver a old W) as [E|E]; [rewrite E in H; discriminate | now apply is_wordb_pathok].
  - intro H. apply wds_join; [destruct (i_view i); [discriminate|discriminate] | exact Hv].
  - intro H. destruct (i_service i) as [s|]; [|discriminate]. apply is_wordb_pathok, Hs. reflexivity.
  - intro H. destruct (i_proto i) as [s|]; [|discriminate]. apply is_wordb_pathok, Hp. reflexivity.
Qed.

Lemma inst_name_normalised a old i :
  in_lists (i_tpl i) -> wf_rapi a old -> inst_wf i -> normalised (inst_name a i) = true.
Proof.
  intros Hin W Hi. unfold inst_name. rewrite (ctx_of_val_inst a old i W).
  apply get_filename_normalised; [assumption | now apply val_ok_inst].
Qed.

(* ---- invariants of render ---- *)
Lemma collect_forall {A} (P : A -> Prop) (l : list (res (list A))) : forall r,
  (forall rx, In (Ok rx) l -> Forall P rx) -> collect l = Ok r -> Forall P r.
Proof.
  induction l as [|x l IH]; intros r Hl H; simpl in H.
  - inversion H. constructor.
  - apply bind_ok in H as (a & -> & H). apply bind_ok in H as (b & Hb & H). inversion H; subst.
    apply Forall_app. split; [apply Hl; now left | apply IH; [intros; apply Hl; now right | assumption]].
Qed.

Lemma sinsert_in x y l : In x (sinsert y l) <-> x = y \/ In x l.
Proof.
  induction l as [|z l IH]; simpl; [intuition|].
  destruct (String.leb y z); simpl; [intuition | rewrite IH; intuition].
Qed.
Lemma ssort_in x l : In x (ssort l) <-> In x l.
Proof. induction l as [|y l IH]; simpl; [tauto|]. rewrite sinsert_in, IH. intuition. Qed.

Lemma protos_of_incl a view u : In u (protos_of a view) -> In u (ra_protos a) /\ is_prefix_list view (u_sub u) = true.
Proof. unfold protos_of. rewrite filter_In. tauto. Qed.

Lemma skipn_in {A} n (l : list A) x : In x (skipn n l) -> In x l.
Proof. revert l. induction n as [|n IH]; intros l H; [exact H|]. destruct l; [exact H|]. right. now apply IH. Qed.
Lemma sub_names_word a old view n : wf_rapi a old -> In n (sub_names a view) -> word n.
Proof.
  intros W H. unfold sub_names in H. apply in_flat_map in H as (u & Hu & H).
  apply protos_of_incl in Hu as [Hu _].
  pose proof (wf_protos a old W) as Hp. rewrite Forall_forall in Hp. destruct (Hp u Hu) as (_ & Hsub & _).
  destruct (_ && _); [|contradiction].
  destruct (skipn (List.length view) (u_sub u)) as [|x l] eqn:E; [contradiction|].
  destruct H as [<-|[]]. rewrite Forall_forall in Hsub. apply Hsub. apply (skipn_in (List.length view)). rewrite E. now left.
Qed.

Lemma subviews_word a old view v : wf_rapi a old -> Forall word view -> In v (subviews a view) -> Forall word v.
Proof.
  intros W Hv H. unfold subviews in H. apply in_map_iff in H as (n & <- & Hn).
  apply (proj1 (ssort_in _ _)) in Hn. apply (proj1 (dedup_in _ _)) in Hn. apply Forall_app. split; [assumption|]. constructor; [|constructor].
  exact (sub_names_word a old view n W Hn).
Qed.

Lemma kind_insts_inv a o old tpl view skip : wf_rapi a old -> Forall word view ->
  Forall (fun i => i_tpl i = tpl /\ inst_wf i) (kind_insts a o tpl view skip).
Proof.
  intros W Hv. pose proof (wf_protos a old W) as Hp. rewrite Forall_forall in Hp.
  unfold kind_insts. destruct (occurs "%proto" tpl); [|destruct (occurs "%service" tpl)].
  - apply Forall_forall. intros i Hi. apply in_map_iff in Hi as (u & <- & Hu).
    apply filter_In in Hu as [Hu _]. apply protos_of_incl in Hu as [Hu _]. destruct (Hp u Hu) as (Hm & _ & _).
    split; [reflexivity|]. repeat split; cbn; [assumption | discriminate | intros p E; inversion E; now subst].
  - apply Forall_forall. intros i Hi. apply in_map_iff in Hi as ([s sub] & <- & Hs).
    apply filter_In in Hs as [Hs _]. unfold services_of in Hs. apply in_flat_map in Hs as (u & Hu & Hs).
    apply in_rev, protos_of_incl in Hu as [Hu _]. destruct (Hp u Hu) as (_ & _ & Hsv).
    apply in_map_iff in Hs as (s' & E & Hs'). inversion E; subst. rewrite Forall_forall in Hsv.
    split; [reflexivity|]. repeat split; cbn; [assumption | intros p E'; inversion E'; subst; now apply Hsv | discriminate].
  - constructor; [|constructor]. split; [reflexivity|]. repeat split; cbn; [assumption | discriminate | discriminate].
Qed.

Lemma render_inv a o old tpl : wf_rapi a old -> forall fuel view l,
  Forall word view -> render fuel a o tpl view = Ok l -> Forall (fun i => i_tpl i = tpl /\ inst_wf i) l.
Proof.
  intros W. induction fuel as [|f IH]; intros view l Hv H; [discriminate|].
  cbn [render] in H. destruct (negb (ggate o tpl)); [inversion H; constructor|].
  apply bind_ok in H as (below & Hb & H). inversion H; subst. apply Forall_app. split.
  - eapply collect_forall; [|exact Hb]. intros rx Hin. apply in_map_iff in Hin as (v & Hr & Hin).
    apply (IH v); [|assumption]. destruct (occurs "%sub" tpl); [|contradiction]. eapply subviews_word; eauto.
  - eapply kind_insts_inv; eauto.
Qed.

Lemma instances_inv templates a o old l : wf_rapi a old -> instances templates a o = Ok l ->
  Forall (fun i => In (i_tpl i) (client_templates templates) /\ inst_wf i) l.
Proof.
  intros W H. unfold instances in H. destruct (existsb _ _); [discriminate|].
  eapply collect_forall; [|exact H]. intros rx Hin. apply in_map_iff in Hin as (t & Hr & Ht).
  eapply Forall_impl; [|eapply (render_inv a o old t W); [constructor|exact Hr]].
  intros i [<- Hi]. split; assumption.
Qed.

(* names_relative_normalised: every candidate name of the response, for either template tree, every well-formed API
   and every option set, is relative and normalised *)
Lemma names_relative_normalised templates a o old names :
  templates = default_templates \/ templates = ads_templates -> wf_rapi a old ->
  candidates templates a o = Ok names -> Forall (fun n => normalised n = true) names.
Proof.
  intros Ht W H. unfold candidates in H. apply bind_ok in H as (l & Hl & H). inversion H; subst names.
  apply Forall_forall. intros n Hn. apply (proj1 (dedup_in _ _)) in Hn. apply in_map_iff in Hn as (i & <- & Hi).
  pose proof (instances_inv templates a o old l W Hl) as Hinv. rewrite Forall_forall in Hinv.
  destruct (Hinv i Hi) as [Hin Hw]. apply (inst_name_normalised a old i); [|assumption|assumption].
  destruct Ht as [->| ->]; [left|right]; assumption.
Qed.

(* ------------------------------------------------------------------ rootedness *)
Definition ns_atoms (f : flags) : list atom := if fl_ns f then [Var VNs; Ch "/"%char] else [].
Definition root_atoms (f : flags) : list atom := (ns_atoms f ++ nv_atoms f)%list.
Definition alias_atoms (f : flags) : list atom := (ns_atoms f ++ [Var VName])%list.
Definition root_tpl (tpl : string) : bool := starts_with "%namespace/%name_%version/" tpl.
Definition alias_tpl (tpl : string) : bool := starts_with "%namespace/%name/" tpl.
Definition pkg_base (f : flags) (tpl : string) : option (list atom) :=
  if root_tpl tpl then Some (root_atoms f) else if alias_tpl tpl then Some (alias_atoms f) else None.

Fixpoint strip_atoms (p a : list atom) : option (list atom) :=
  match p, a with
  | [], _ => Some a
  | x :: p', y :: a' => if atom_eqb x y then strip_atoms p' a' else None
  | _, [] => None
  end.
Lemma strip_atoms_sound p : forall a rest, strip_atoms p a = Some rest -> a = (p ++ rest)%list.
Proof.
  induction p as [|x p IH]; intros a rest H; simpl in H; [now inversion H|].
  destruct a as [|y a]; [discriminate|]. destruct (atom_eqb x y) eqn:E; [|discriminate].
  apply atom_eqb_eq in E. subst y. simpl. f_equal. now apply IH.
Qed.

Definition tpl_rooted_ok (tpl : string) : bool :=
  forallb (fun f => match pkg_base f tpl, sym_filename f tpl with
                    | Some base, Some r => match strip_atoms base r with Some (Ch c :: _) => is_slash c | _ => false end
                    | None, Some _ => true
                    | _, None => false
                    end) all_flags.
Lemma default_rooted_ok : forallb tpl_rooted_ok (client_templates default_templates) = true.
Proof. vm_compute. reflexivity. Qed.
(* every per-proto template and every per-service template of the default tree is a package template, or documentation / tests *)
Lemma iterated_templates_placed :
  forallb (fun t => negb (occurs "%proto" t) || root_tpl t) (client_templates default_templates) = true /\
  forallb (fun t => negb (occurs "%service" t) || root_tpl t || starts_with "docs/" t || starts_with "tests/" t)
          (client_templates default_templates) = true.
Proof. vm_compute. split; reflexivity. Qed.

(* python_sources_rooted (one rendering): a template below %namespace/%name_%version/ is written below
   <namespace>/<name>_<version>/ (just <name> when unversioned), one below %namespace/%name/ below <namespace>/<name>/ *)
Lemma get_filename_rooted tpl sg f base :
  In tpl (client_templates default_templates) -> val_ok sg f -> pkg_base f tpl = Some base ->
  exists rest r, sym_filename f tpl = Some r /\ r = (base ++ Ch "/"%char :: rest)%list /\ good sg r /\
                 get_filename tpl (ctx_of_val sg f) = conc sg base ++ "/" ++ conc sg rest.
Proof.
  intros Hin Hv Hb. pose proof default_rooted_ok as H. rewrite forallb_forall in H. specialize (H tpl Hin).
  unfold tpl_rooted_ok in H. rewrite forallb_forall in H. specialize (H f (all_flags_complete f)). rewrite Hb in H.
  destruct (sym_filename f tpl) as [r|] eqn:E; [|discriminate].
  destruct (strip_atoms base r) as [[|[c|v] rest]|] eqn:Es; try discriminate.
  apply strip_atoms_sound in Es. unfold is_slash in H. apply Ascii.eqb_eq in H. subst c.
  destruct (get_filename_sound sg f tpl r Hv E) as [Hn Hg]. exists rest, r. repeat split; try assumption.
  rewrite Hn, Es, conc_app. reflexivity.
Qed.

(* ------------------------------------------------------------------ APIs whose proto sub-packages are at most one level deep *)
Definition shallow (a : rapi) : Prop := Forall (fun u => List.length (u_sub u) <= 1) (ra_protos a).

Lemma flat_map_nil {A B} (f : A -> list B) l : (forall x, In x l -> f x = []) -> flat_map f l = [].
Proof. induction l as [|x l IH]; intro H; simpl; [reflexivity|]. rewrite (H x), IH; auto; [intros; apply H; now right | now left]. Qed.

Lemma subviews_deep a v : shallow a -> v <> [] -> subviews a v = [].
Proof.
  intros Hs Hv. unfold subviews, sub_names. rewrite flat_map_nil; [reflexivity|].
  intros u Hu. apply protos_of_incl in Hu as [Hu _]. unfold shallow in Hs. rewrite Forall_forall in Hs. specialize (Hs u Hu).
  destruct (Nat.ltb (List.length v) (List.length (u_sub u))) eqn:E; [|reflexivity].
  apply Nat.ltb_lt in E. destruct v; [congruence|]. simpl in E. lia.
Qed.

Lemma collect_map_ok {A B} (g : A -> res (list B)) (h : A -> list B) l :
  (forall x, In x l -> g x = Ok (h x)) -> collect (map g l) = Ok (flat_map h l).
Proof.
  induction l as [|x l IH]; intro H; simpl; [reflexivity|].
  rewrite (H x) by now left. simpl. rewrite IH by (intros; apply H; now right). reflexivity.
Qed.

Definition subs_of (a : rapi) (tpl : string) : list (list string) := if occurs "%sub" tpl then subviews a [] else [].
Definition tpl_insts (a : rapi) (o : ropts) (tpl : string) : list inst :=
  if ggate o tpl then
    (flat_map (fun v => kind_insts a o tpl v false) (subs_of a tpl)
     ++ kind_insts a o tpl [] (match subs_of a tpl with [] => false | _ => true end))%list
  else [].

Lemma subviews_top_nonempty a v : In v (subviews a []) -> exists n, v = [n] /\ In n (sub_names a []).
Proof.
  unfold subviews. intro H. apply in_map_iff in H as (n & <- & Hn).
  apply (proj1 (ssort_in _ _)) in Hn. apply (proj1 (dedup_in _ _)) in Hn. exists n. split; [reflexivity|assumption].
Qed.

Lemma render_S f a o tpl view :
  render (S f) a o tpl view =
  if negb (ggate o tpl) then Ok [] else
  bind (collect (map (render f a o tpl) (if occurs "%sub" tpl then subviews a view else [])))
       (fun below => Ok (below ++ kind_insts a o tpl view
                                  (match (if occurs "%sub" tpl then subviews a view else []) with [] => false | _ => true end))%list).
Proof. reflexivity. Qed.

Lemma render_shallow a o tpl k : shallow a -> render (S (S k)) a o tpl [] = Ok (tpl_insts a o tpl).
Proof.
  intro Hs. unfold tpl_insts. rewrite render_S. destruct (ggate o tpl) eqn:G; [|reflexivity]. cbn [negb].
  fold (subs_of a tpl).
  rewrite (collect_map_ok _ (fun v => kind_insts a o tpl v false)); [reflexivity|].
  intros v Hv. assert (Hne : v <> []).
  { unfold subs_of in Hv. destruct (occurs "%sub" tpl); [|contradiction].
    apply subviews_top_nonempty in Hv as (n & -> & _). discriminate. }
  rewrite render_S, G. cbn [negb]. rewrite (subviews_deep a v Hs Hne).
  destruct (occurs "%sub" tpl); reflexivity.
Qed.

Lemma instances_shallow templates a o l : shallow a -> instances templates a o = Ok l ->
  l = flat_map (tpl_insts a o) (client_templates templates).
Proof.
  intros Hs H. unfold instances in H. destruct (existsb _ _); [discriminate|].
  rewrite (collect_map_ok _ (tpl_insts a o)) in H; [now inversion H|].
  intros t _. apply render_shallow, Hs.
Qed.

(* ---- membership ---- *)
Definition plain_tpl (tpl : string) : bool := negb (occurs "%proto" tpl) && negb (occurs "%service" tpl).
Definition service_tpl (tpl : string) : bool := negb (occurs "%proto" tpl) && occurs "%service" tpl.
Definition mk_inst (tpl : string) (view : list string) (s p : option string) : inst :=
  {| i_tpl := tpl; i_view := view; i_service := s; i_proto := p |}.

Lemma plain_kind a o tpl view skip : plain_tpl tpl = true -> kind_insts a o tpl view skip = [mk_inst tpl view None None].
Proof.
  unfold plain_tpl, kind_insts. intro H. apply andb_true_iff in H as [H1 H2]. apply negb_true_iff in H1, H2. now rewrite H1, H2.
Qed.

(* a plain template that passes the global gates is rendered for the top view, and for every sub-package view when it has %sub *)
Lemma plain_in a o tpl view : plain_tpl tpl = true -> ggate o tpl = true ->
  view = [] \/ (occurs "%sub" tpl = true /\ In view (subviews a [])) -> In (mk_inst tpl view None None) (tpl_insts a o tpl).
Proof.
  intros Hp Hg Hv. unfold tpl_insts. rewrite Hg. apply in_or_app. destruct Hv as [->|[Hs Hv]].
  - right. rewrite plain_kind by assumption. now left.
  - left. apply in_flat_map. exists view. split; [unfold subs_of; now rewrite Hs|]. rewrite plain_kind by assumption. now left.
Qed.

Lemma is_prefix_list_refl l : is_prefix_list l l = true.
Proof. induction l; simpl; [reflexivity|]. now rewrite String.eqb_refl. Qed.
Lemma sl_eqb_refl l : list_eqb String.eqb l l = true.
Proof. induction l; simpl; [reflexivity|]. now rewrite String.eqb_refl. Qed.
Lemma sl_eqb_eq a b : list_eqb String.eqb a b = true -> a = b.
Proof. apply list_eqb_string_eq. Qed.

(* the view a target proto is rendered in *)
Lemma unit_view a u : shallow a -> In u (ra_protos a) ->
  (u_sub u = [] \/ In (u_sub u) (subviews a [])) /\ In u (protos_of a (u_sub u)).
Proof.
  intros Hs Hu. split.
  - unfold shallow in Hs. rewrite Forall_forall in Hs. specialize (Hs u Hu).
    destruct (u_sub u) as [|n [|m l]] eqn:E; [now left| |simpl in Hs; lia]. right.
    unfold subviews. apply in_map_iff. exists n. split; [reflexivity|].
    apply ssort_in, dedup_in. unfold sub_names. apply in_flat_map. exists u. split.
    + unfold protos_of. apply filter_In. split; [assumption|reflexivity].
    + rewrite E. simpl. now left.
  - unfold protos_of. apply filter_In. split; [assumption | apply is_prefix_list_refl].
Qed.

(* a per-service template with %sub that passes the gates is rendered once for every service of every target proto, in the
   view of that proto *)
Lemma service_in a o tpl u s : shallow a -> service_tpl tpl = true -> occurs "%sub" tpl = true ->
  ggate o tpl = true -> sgate o tpl = true -> In u (ra_protos a) -> In s (u_services u) ->
  In (mk_inst tpl (u_sub u) (Some s) None) (tpl_insts a o tpl).
Proof.
  intros Hs Hk Hsub Hg Hsg Hu Hsv. destruct (unit_view a u Hs Hu) as [Hview Hin].
  unfold service_tpl in Hk. apply andb_true_iff in Hk as [K1 K2]. apply negb_true_iff in K1.
  assert (Hsvc : In (s, u_sub u) (services_of a (u_sub u))).
  { unfold services_of. apply in_flat_map. exists u. split; [now apply -> in_rev|]. apply in_map_iff. exists s. auto. }
  unfold tpl_insts. rewrite Hg. apply in_or_app. destruct Hview as [E|Hv].
  - right. unfold kind_insts. rewrite K1, K2. rewrite E in *. apply in_map_iff. exists (s, []). split; [reflexivity|].
    apply filter_In. split; [assumption|]. cbn [snd]. rewrite Hsg. simpl. now rewrite andb_false_r.
  - left. apply in_flat_map. exists (u_sub u). split; [unfold subs_of; now rewrite Hsub|].
    unfold kind_insts. rewrite K1, K2. apply in_map_iff. exists (s, u_sub u). split; [reflexivity|].
    apply filter_In. split; [assumption|]. now rewrite Hsg.
Qed.

Lemma proto_in a o tpl u : shallow a -> occurs "%proto" tpl = true -> occurs "%sub" tpl = true ->
  ggate o tpl = true -> In u (ra_protos a) -> In (mk_inst tpl (u_sub u) None (Some (u_module u))) (tpl_insts a o tpl).
Proof.
  intros Hs Hk Hsub Hg Hu. destruct (unit_view a u Hs Hu) as [Hview Hin].
  unfold tpl_insts. rewrite Hg. apply in_or_app. destruct Hview as [E|Hv].
  - right. unfold kind_insts. rewrite Hk. apply in_map_iff. exists u. split; [now rewrite E|].
    apply filter_In. split; [now rewrite E in Hin|]. rewrite E. simpl. now rewrite andb_false_r.
  - left. apply in_flat_map. exists (u_sub u). split; [unfold subs_of; now rewrite Hsub|].
    unfold kind_insts. rewrite Hk. apply in_map_iff. exists u. split; [reflexivity|]. apply filter_In. split; [assumption|reflexivity].
Qed.

(* what membership tells about an instance (templates with %sub) *)
Lemma sub_names_nil_all a : sub_names a [] = [] -> forall u, In u (ra_protos a) -> u_sub u = [].
Proof.
  intros H u Hu. destruct (u_sub u) as [|n l] eqn:E; [reflexivity|]. exfalso.
  assert (Hin : In n (sub_names a [])).
  { unfold sub_names. apply in_flat_map. exists u. split; [unfold protos_of; apply filter_In; split; [assumption|reflexivity]|].
    rewrite E. simpl. now left. }
  rewrite H in Hin. contradiction.
Qed.
Lemma subviews_nil_all a : subviews a [] = [] -> forall u, In u (ra_protos a) -> u_sub u = [].
Proof.
  intro H. apply sub_names_nil_all. unfold subviews in H. apply map_eq_nil in H.
  destruct (sub_names a []) as [|n l] eqn:E; [reflexivity|]. exfalso.
  assert (Hin : In n (ssort (dedup (n :: l)))) by (apply ssort_in, dedup_in; now left).
  rewrite H in Hin. contradiction.
Qed.
Lemma prefix_shallow_eq n sub : is_prefix_list [n] sub = true -> List.length sub <= 1 -> sub = [n].
Proof.
  destruct sub as [|m [|k l]]; simpl; intros H L; try discriminate; [|lia].
  rewrite andb_true_r in H. apply String.eqb_eq in H. now subst.
Qed.

Definition top_skip (a : rapi) (tpl : string) : bool := match subs_of a tpl with [] => false | _ => true end.
Lemma tpl_insts_split a o tpl i : In i (tpl_insts a o tpl) ->
  ggate o tpl = true /\
  exists view skip, In i (kind_insts a o tpl view skip) /\
                    ((view = [] /\ skip = top_skip a tpl) \/ (In view (subs_of a tpl) /\ skip = false)).
Proof.
  unfold tpl_insts. destruct (ggate o tpl); [|contradiction]. intro H. split; [reflexivity|].
  apply in_app_or in H as [H|H].
  - apply in_flat_map in H as (v & Hv & H). exists v, false. auto.
  - exists [], (top_skip a tpl). auto.
Qed.

Lemma kind_insts_basic a o tpl view skip i : In i (kind_insts a o tpl view skip) -> i_tpl i = tpl /\ i_view i = view.
Proof.
  unfold kind_insts. destruct (occurs "%proto" tpl); [|destruct (occurs "%service" tpl)]; intro H.
  - apply in_map_iff in H as (u & <- & _). auto.
  - apply in_map_iff in H as (u & <- & _). auto.
  - destruct H as [<-|[]]. auto.
Qed.

Lemma tpl_insts_view a o tpl i : In i (tpl_insts a o tpl) ->
  i_tpl i = tpl /\ ggate o tpl = true /\ (i_view i = [] \/ (occurs "%sub" tpl = true /\ In (i_view i) (subviews a []))).
Proof.
  intro H. apply tpl_insts_split in H as (G & view & skip & Hk & Hv).
  apply kind_insts_basic in Hk as [E1 E2]. repeat split; try assumption. rewrite E2.
  destruct Hv as [[-> _]|[Hv _]]; [now left|]. right. unfold subs_of in Hv. destruct (occurs "%sub" tpl); [auto|contradiction].
Qed.

Lemma tpl_insts_plain a o tpl i : plain_tpl tpl = true -> In i (tpl_insts a o tpl) -> i_service i = None /\ i_proto i = None.
Proof.
  intros Hp H. apply tpl_insts_split in H as (_ & view & skip & Hk & _). rewrite plain_kind in Hk by assumption.
  destruct Hk as [<-|[]]. auto.
Qed.

(* under the filter of a block, a unit belongs to exactly the block's view *)
Lemma unit_sub_view a tpl view skip sub : shallow a -> occurs "%sub" tpl = true ->
  (exists u, In u (ra_protos a) /\ u_sub u = sub) -> is_prefix_list view sub = true ->
  ((view = [] /\ skip = top_skip a tpl) \/ (In view (subs_of a tpl) /\ skip = false)) ->
  negb (skip && negb (list_eqb String.eqb sub view)) = true -> sub = view.
Proof.
  intros Hs Hsub (u & Hu & Eu) Hp Hv Hf.
  assert (Hl : List.length sub <= 1).
  { rewrite <- Eu. unfold shallow in Hs. rewrite Forall_forall in Hs. apply Hs, Hu. }
  unfold top_skip, subs_of in Hv. rewrite Hsub in Hv. destruct Hv as [[-> ->]|[Hv ->]].
  - destruct (subviews a []) eqn:E.
    + rewrite <- Eu. apply (subviews_nil_all a E u Hu).
    + simpl in Hf. apply negb_true_iff, negb_false_iff in Hf. now apply sl_eqb_eq.
  - apply subviews_top_nonempty in Hv as (n & -> & _). now apply prefix_shallow_eq.
Qed.

Lemma tpl_insts_service a o tpl i : shallow a -> service_tpl tpl = true -> occurs "%sub" tpl = true ->
  In i (tpl_insts a o tpl) ->
  exists s u, i_service i = Some s /\ i_proto i = None /\ In u (ra_protos a) /\ In s (u_services u) /\
              u_sub u = i_view i /\ sgate o tpl = true.
Proof.
  intros Hs Hk Hsub H. apply tpl_insts_split in H as (_ & view & skip & Hi & Hv).
  unfold service_tpl in Hk. apply andb_true_iff in Hk as [K1 K2]. apply negb_true_iff in K1.
  unfold kind_insts in Hi. rewrite K1, K2 in Hi. apply in_map_iff in Hi as ([s sub] & <- & Hsv).
  apply filter_In in Hsv as [Hsv Hf]. cbn [snd fst] in *. apply andb_true_iff in Hf as [Hf Hg].
  unfold services_of in Hsv. apply in_flat_map in Hsv as (u & Hu & Hsv). apply in_rev, protos_of_incl in Hu as [Hu Hp].
  apply in_map_iff in Hsv as (s' & E & Hs'). inversion E; subst s' sub.
  exists s, u. cbn. repeat split; auto. eapply (unit_sub_view a tpl view skip); eauto.
Qed.

Lemma tpl_insts_proto a o tpl i : shallow a -> occurs "%proto" tpl = true -> occurs "%sub" tpl = true ->
  In i (tpl_insts a o tpl) ->
  exists u, In u (ra_protos a) /\ i_proto i = Some (u_module u) /\ i_service i = None /\ u_sub u = i_view i.
Proof.
  intros Hs Hk Hsub H. apply tpl_insts_split in H as (_ & view & skip & Hi & Hv).
  unfold kind_insts in Hi. rewrite Hk in Hi. apply in_map_iff in Hi as (u & <- & Hu).
  apply filter_In in Hu as [Hu Hf]. apply protos_of_incl in Hu as [Hu Hp].
  exists u. cbn. repeat split; auto. eapply (unit_sub_view a tpl view skip); eauto.
Qed.

(* ------------------------------------------------------------------ __init__.py completeness *)
Fixpoint slash_splits (t : list atom) : list (list atom) :=
  match t with
  | [] => []
  | x :: t' => ((match x with Ch c => if is_slash c then [[]] else [] | Var _ => [] end) ++ map (cons x) (slash_splits t'))%list
  end.
Lemma slash_splits_in t1 t2 : In t1 (slash_splits (t1 ++ Ch "/"%char :: t2)).
Proof.
  induction t1 as [|x t1 IH]; simpl; [now left|]. apply in_or_app. right. now apply in_map.
Qed.

Fixpoint no_var (v : var) (t : list atom) : bool :=
  match t with [] => true | Ch _ :: t' => no_var v t' | Var w :: t' => negb (var_eqb v w) && no_var v t' end.
Lemma var_eqb_refl v : var_eqb v v = true.
Proof. destruct v; reflexivity. Qed.
Lemma no_var_in v t : no_var v t = true -> ~ In (Var v) t.
Proof.
  induction t as [|[c|w] t IH]; simpl; intros H Hin; [assumption| |].
  - destruct Hin as [E|Hin]; [discriminate | now apply IH].
  - apply andb_true_iff in H as [H1 H2]. destruct Hin as [E|Hin]; [|now apply IH].
    inversion E; subst. rewrite var_eqb_refl in H1. discriminate.
Qed.
Lemma no_var_app v t1 t2 : no_var v (t1 ++ t2) = no_var v t1 && no_var v t2.
Proof. induction t1 as [|[c|w] t1 IH]; simpl; [reflexivity|assumption|]. now rewrite IH, andb_assoc. Qed.

Lemma conc_ext sg sg' t : (forall v, In (Var v) t -> sg v = sg' v) -> conc sg t = conc sg' t.
Proof.
  induction t as [|[c|v] t IH]; intro H; simpl; [reflexivity| |].
  - f_equal. apply IH. intros v Hv. apply H. now right.
  - rewrite (H v) by now left. f_equal. apply IH. intros w Hw. apply H. now right.
Qed.

Definition slash : ascii := "/"%char.
Lemma app_slash_split w : contains slash w = false -> forall r x y,
  w ++ r = x ++ String slash y -> exists x', x = w ++ x' /\ r = x' ++ String slash y.
Proof.
  induction w as [|a w IH]; intros Hw r x y H; [exists x; auto|].
  cbn [contains] in Hw. apply orb_false_iff in Hw as [Ha Hw].
  destruct x as [|b x].
  - simpl in H. inversion H; subst. rewrite Ascii.eqb_refl in Ha. discriminate.
  - simpl in H. inversion H; subst. destruct (IH Hw r x y H2) as (x' & -> & ->). exists x'. auto.
Qed.
Lemma conc_split_slash sg : forall t x y,
  (forall v, In (Var v) t -> contains slash (sg v) = false) -> conc sg t = x ++ String slash y ->
  exists t1 t2, t = (t1 ++ Ch slash :: t2)%list /\ conc sg t1 = x /\ conc sg t2 = y.
Proof.
  induction t as [|[c|v] t IH]; intros x y Hv H.
  - destruct x; discriminate.
  - destruct x as [|b x]; simpl in H; inversion H; subst.
    + exists [], t. auto.
    + destruct (IH x y (fun v Hin => Hv v (or_intror Hin)) H2) as (t1 & t2 & -> & <- & <-).
      exists (Ch b :: t1), t2. auto.
  - simpl in H. destruct (app_slash_split (sg v) (Hv v (or_introl eq_refl)) _ _ _ H) as (x' & -> & H').
    destruct (IH x' y (fun w Hin => Hv w (or_intror Hin)) H') as (t1 & t2 & -> & <- & <-).
    exists (Var v :: t1), t2. auto.
Qed.

Definition noctx (f : flags) : flags :=
  {| fl_ns := fl_ns f; fl_ver := fl_ver f; fl_sub := fl_sub f; fl_old := fl_old f; fl_svc := false; fl_proto := false |}.
Definition topctx (f : flags) : flags :=
  {| fl_ns := fl_ns f; fl_ver := fl_ver f; fl_sub := false; fl_old := fl_old f; fl_svc := false; fl_proto := false |}.
Definition gate_opts (m u : bool) : ropts :=
  {| ro_metadata := m; ro_transport := []; ro_unversioned_disabled := u; ro_rest_async := false |}.
Definition ggate_le (tpl tpl' : string) : bool :=
  forallb (fun m => forallb (fun u => implb (ggate (gate_opts m u) tpl) (ggate (gate_opts m u) tpl')) [true; false]) [true; false].
Lemma bool_in_tf (b : bool) : In b [true; false].
Proof. destruct b; simpl; auto. Qed.
Lemma ggate_le_sound tpl tpl' o : ggate_le tpl tpl' = true -> ggate o tpl = true -> ggate o tpl' = true.
Proof.
  intros H G. unfold ggate_le in H. rewrite forallb_forall in H.
  specialize (H (ro_metadata o) (bool_in_tf _)). rewrite forallb_forall in H.
  specialize (H (ro_unversioned_disabled o) (bool_in_tf _)).
  change (ggate (gate_opts (ro_metadata o) (ro_unversioned_disabled o)) tpl) with (ggate o tpl) in H.
  change (ggate (gate_opts (ro_metadata o) (ro_unversioned_disabled o)) tpl') with (ggate o tpl') in H.
  rewrite G in H. exact H.
Qed.
Definition sgate_always (t : string) : bool :=
  (negb (occurs "transport" t) || occurs "__init__" t || occurs "base" t || occurs "README" t)
  && negb (occurs "async_client" t) && negb (occurs "rest_asyncio" t) && negb (occurs "rest_base" t).
Lemma sgate_always_sound t o : sgate_always t = true -> sgate o t = true.
Proof.
  unfold sgate_always, sgate, desired_transport. intro H.
  repeat (apply andb_true_iff in H as [H ?]).
  repeat match goal with Hn : negb _ = true |- _ => apply negb_true_iff in Hn; rewrite Hn end.
  cbn [andb orb]. rewrite !orb_false_r. apply negb_true_iff.
  destruct (occurs "transport" t); [|reflexivity]. cbn [negb orb] in H. cbn [andb]. apply negb_false_iff.
  cbn [app existsb]. rewrite !orb_assoc. apply orb_true_iff. left. rewrite <- !orb_assoc in H. rewrite <- !orb_assoc. exact H.
Qed.

Definition opt_atoms_eqb (o : option (list atom)) (t : list atom) : bool :=
  match o with Some r => list_eqb atom_eqb r t | None => false end.
Definition sym_table (f : flags) : list (string * option (list atom)) :=
  map (fun t => (t, sym_filename f t)) (client_templates default_templates).
Definition consistent (f : flags) (tpl : string) : bool :=
  Bool.eqb (fl_svc f) (service_tpl tpl) && Bool.eqb (fl_proto f) (occurs "%proto" tpl).
Definition init_text : list atom := atoms_of "/__init__.py".

(* explicit conditionals: vm_compute is strict, so the cheap discriminating test comes first *)
Definition wit_same (f : flags) (tpl : string) (target : list atom) (e : string * option (list atom)) : bool :=
  if opt_atoms_eqb (snd e) target then
    plain_tpl (fst e) && (negb (fl_sub f) || occurs "%sub" (fst e)) && no_var VSvc target && no_var VProto target
    && ggate_le tpl (fst e)
  else false.
Definition wit_top (tpl : string) (target : list atom) (e : string * option (list atom)) : bool :=
  if opt_atoms_eqb (snd e) target then
    plain_tpl (fst e) && no_var VSvc target && no_var VProto target && no_var VSub target && ggate_le tpl (fst e)
  else false.
Definition wit_svc (f : flags) (tpl : string) (target : list atom) (e : string * option (list atom)) : bool :=
  if opt_atoms_eqb (snd e) target then
    service_tpl tpl && service_tpl (fst e) && occurs "%sub" tpl && occurs "%sub" (fst e) && sgate_always (fst e)
    && fl_svc f && negb (fl_proto f) && ggate_le tpl (fst e)
  else false.

Definition init_ok_entry (f : flags) (tf tn tt : list (string * option (list atom))) (e : string * option (list atom)) : bool :=
  let tpl := fst e in
  if negb (consistent f tpl) then true else
  match pkg_base f tpl with
  | None => true
  | Some base =>
      match snd e with
      | None => false
      | Some r =>
          match strip_atoms base r with
          | None => false
          | Some rest =>
              no_var VNs rest &&
              forallb (fun t1 =>
                         let target := (base ++ t1 ++ init_text)%list in
                         if existsb (wit_same f tpl target) tn then true
                         else if existsb (wit_top tpl target) tt then true
                         else existsb (wit_svc f tpl target) tf)
                      (slash_splits rest)
          end
      end
  end.
Definition init_ok_f (f : flags) : bool :=
  let tf := sym_table f in let tn := sym_table (noctx f) in let tt := sym_table (topctx f) in
  forallb (init_ok_entry f tf tn tt) tf.
Lemma default_init_ok : forallb init_ok_f all_flags = true.
Proof. vm_compute. reflexivity. Qed.

(* what one entry of the finite check gives, with the tables kept abstract *)
Lemma init_entry_extract f tf tn tt tpl r base rest t1 t2 :
  init_ok_entry f tf tn tt (tpl, Some r) = true -> consistent f tpl = true -> pkg_base f tpl = Some base ->
  strip_atoms base r = Some rest -> rest = (t1 ++ Ch slash :: t2)%list ->
  no_var VNs rest = true /\
  ((exists e', In e' tn /\ wit_same f tpl (base ++ t1 ++ init_text)%list e' = true)
   \/ (exists e', In e' tt /\ wit_top tpl (base ++ t1 ++ init_text)%list e' = true)
   \/ (exists e', In e' tf /\ wit_svc f tpl (base ++ t1 ++ init_text)%list e' = true)).
Proof.
  intros H C Hb Hs Er. unfold init_ok_entry in H. cbn [fst snd] in H. rewrite C, Hb, Hs in H. cbn [negb] in H.
  apply andb_true_iff in H as [Hn Hall]. split; [exact Hn|].
  rewrite forallb_forall in Hall. specialize (Hall t1). rewrite Er in Hall. specialize (Hall (slash_splits_in t1 t2)).
  destruct (existsb (wit_same f tpl (base ++ t1 ++ init_text)%list) tn) eqn:W1.
  - left. apply existsb_exists in W1. exact W1.
  - destruct (existsb (wit_top tpl (base ++ t1 ++ init_text)%list) tt) eqn:W2.
    + right. left. apply existsb_exists in W2. exact W2.
    + right. right. apply existsb_exists in Hall. exact Hall.
Qed.
Lemma sym_table_in f e : In e (sym_table f) -> In (fst e) (client_templates default_templates) /\ snd e = sym_filename f (fst e).
Proof. unfold sym_table. intro H. apply in_map_iff in H as (t & <- & Ht). auto. Qed.
Lemma sym_table_entry f tpl : In tpl (client_templates default_templates) -> In (tpl, sym_filename f tpl) (sym_table f).
Proof. unfold sym_table. intro H. apply in_map_iff. exists tpl. auto. Qed.
(* keep the tables folded: the kernel must not enumerate them when it re-checks the proofs below *)
Global Opaque sym_table.
Lemma init_table_entry f e : In e (sym_table f) -> init_ok_entry f (sym_table f) (sym_table (noctx f)) (sym_table (topctx f)) e = true.
Proof.
  intro H. pose proof default_init_ok as F. rewrite forallb_forall in F. specialize (F f (all_flags_complete f)).
  unfold init_ok_f in F. rewrite forallb_forall in F. exact (F e H).
Qed.


Lemma kind_insts_kind a o tpl view skip i : In i (kind_insts a o tpl view skip) ->
  is_some (i_service i) = service_tpl tpl /\ is_some (i_proto i) = occurs "%proto" tpl.
Proof.
  unfold kind_insts, service_tpl. destruct (occurs "%proto" tpl); [|destruct (occurs "%service" tpl)]; intro H.
  - apply in_map_iff in H as (u & <- & _). auto.
  - apply in_map_iff in H as (u & <- & _). auto.
  - destruct H as [<-|[]]. auto.
Qed.
Lemma tpl_insts_kind a o tpl i : In i (tpl_insts a o tpl) ->
  is_some (i_service i) = service_tpl tpl /\ is_some (i_proto i) = occurs "%proto" tpl.
Proof. intro H. apply tpl_insts_split in H as (_ & view & skip & Hk & _). eapply kind_insts_kind; eauto. Qed.

Definition ns_prefix (a : rapi) : string := if is_empty (ra_ns a) then "" else ra_ns a ++ "/".
Definition root_of (a : rapi) : string := ns_prefix a ++ ra_nv a.
Definition alias_of (a : rapi) : string := ns_prefix a ++ ra_name a.
Definition pkg_base_str (a : rapi) (tpl : string) : option string :=
  if root_tpl tpl then Some (root_of a) else if alias_tpl tpl then Some (alias_of a) else None.

Lemma conc_ns_atoms a old i : conc (val_of a i) (ns_atoms (flags_of a old i)) = ns_prefix a.
Proof.
  unfold ns_atoms, ns_prefix, flags_of, nonempty. cbn [fl_ns]. destruct (ra_ns a) eqn:E; cbn; rewrite ?E; reflexivity.
Qed.
Lemma conc_nv_atoms a old i : wf_rapi a old -> conc (val_of a i) (nv_atoms (flags_of a old i)) = ra_nv a.
Proof.
  intro W. rewrite (wf_nv a old W). unfold nv_atoms, flags_of, nonempty. cbn [fl_ver fl_old].
  destruct (ra_version a) as [|c v] eqn:Ev; cbn; rewrite ?Ev; [now rewrite sapp_nil_r|].
  destruct old; cbn; now rewrite sapp_nil_r.
Qed.
Lemma pkg_base_conc a old i tpl base_s : wf_rapi a old -> pkg_base_str a tpl = Some base_s ->
  exists base, pkg_base (flags_of a old i) tpl = Some base /\ conc (val_of a i) base = base_s.
Proof.
  intros W H. unfold pkg_base_str in H. unfold pkg_base.
  destruct (root_tpl tpl); [|destruct (alias_tpl tpl); [|discriminate]]; inversion H; subst base_s.
  - exists (root_atoms (flags_of a old i)). split; [reflexivity|]. unfold root_atoms, root_of.
    now rewrite conc_app, conc_ns_atoms, conc_nv_atoms.
  - exists (alias_atoms (flags_of a old i)). split; [reflexivity|]. unfold alias_atoms, alias_of.
    rewrite conc_app, conc_ns_atoms. cbn. now rewrite sapp_nil_r.
Qed.

Lemma word_char_slash c : word_char c = true -> Ascii.eqb c slash = false.
Proof. intro H. apply word_char_not_slash in H. exact H. Qed.
Lemma word_no_slash w : sall word_char w = true -> contains slash w = false.
Proof.
  induction w as [|c w IH]; intro H; [reflexivity|]. cbn [sall contains] in *. apply andb_true_iff in H as [Hc Hw].
  rewrite (word_char_slash c Hc). cbn [orb]. auto.
Qed.
Lemma is_wordb_no_slash w : is_wordb w = true -> contains slash w = false.
Proof. unfold is_wordb. intro H. apply andb_true_iff in H as [_ H]. now apply word_no_slash. Qed.

Lemma vals_slashfree a old i : wf_rapi a old -> inst_wf i -> List.length (i_view i) <= 1 ->
  forall v, v <> VNs -> contains slash (val_of a i v) = false.
Proof.
  intros W (Hview & Hsvc & Hproto) Hlen v Hv. destruct v; cbn [val_of]; try congruence.
  - apply is_wordb_no_slash, (wf_name a old W).
  - destruct (wf_ver a old W) as [->|H]; [reflexivity | now apply is_wordb_no_slash].
  - destruct (i_view i) as [|n [|m l]]; [reflexivity| |simpl in Hlen; lia]. cbn. inversion Hview; subst. now apply is_wordb_no_slash.
  - destruct (i_service i) as [s|]; [|reflexivity]. cbn. apply is_wordb_no_slash, Hsvc. reflexivity.
  - destruct (i_proto i) as [s|]; [|reflexivity]. cbn. apply is_wordb_no_slash, Hproto. reflexivity.
Qed.

Lemma sapp_inv_head a : forall b c, a ++ b = a ++ c -> b = c.
Proof. induction a as [|x a IH]; intros b c H; simpl in H; [assumption|]. inversion H. auto. Qed.

Lemma inst_name_sym a old i r : wf_rapi a old -> inst_wf i -> sym_filename (flags_of a old i) (i_tpl i) = Some r ->
  inst_name a i = conc (val_of a i) r.
Proof.
  intros W Hw E. unfold inst_name. rewrite (ctx_of_val_inst a old i W).
  exact (proj1 (get_filename_sound _ _ _ r (val_ok_inst a old i W Hw) E)).
Qed.

Lemma opt_atoms_eqb_eq o t : opt_atoms_eqb o t = true -> o = Some t.
Proof. destruct o as [r|]; simpl; [|discriminate]. intro H. apply atoms_eqb_eq in H. now subst. Qed.

Lemma shallow_view_len a v : In v (subviews a []) -> List.length v <= 1.
Proof. intro H. apply subviews_top_nonempty in H as (n & -> & _). simpl. lia. Qed.

(* init_complete: every directory at or below the package root (and below the unversioned alias package) that holds an emitted
   file of the package templates also holds an emitted __init__.py — for every well-formed API with proto sub-packages at
   most one level deep and every option set *)
Lemma init_complete a o old l : wf_rapi a old -> shallow a -> instances default_templates a o = Ok l ->
  forall i, In i l -> forall base_s, pkg_base_str a (i_tpl i) = Some base_s ->
  forall x y, inst_name a i = base_s ++ x ++ String slash y ->
  exists i', In i' l /\ inst_name a i' = base_s ++ x ++ "/__init__.py".
Proof.
  intros W Hs Hl i Hi base_s Hb x y Hname.
  pose proof (instances_inv _ a o old l W Hl) as Hinv. rewrite Forall_forall in Hinv.
  pose proof (instances_shallow _ a o l Hs Hl) as El.
  assert (Hi' := Hi). rewrite El in Hi'. apply in_flat_map in Hi' as (tpl & Htpl & Hti).
  destruct (tpl_insts_view a o tpl i Hti) as (Et & G & Hview).
  destruct (tpl_insts_kind a o tpl i Hti) as (Ks & Kp).
  destruct (Hinv i Hi) as [_ Hwf].
  assert (Hlen : List.length (i_view i) <= 1).
  { destruct Hview as [->|[_ Hv]]; [simpl; lia | now apply shallow_view_len in Hv]. }
  rewrite Et in Hb. destruct (pkg_base_conc a old i tpl base_s W Hb) as (base & Hpb & Hbase).
  assert (C : consistent (flags_of a old i) tpl = true).
  { unfold consistent, flags_of. cbn [fl_svc fl_proto]. rewrite Ks, Kp, !eqb_reflx. reflexivity. }
  pose proof (init_table_entry (flags_of a old i) _ (sym_table_entry (flags_of a old i) tpl Htpl)) as Hent.
  destruct (sym_filename (flags_of a old i) tpl) as [r|] eqn:E.
  2:{ exfalso. unfold init_ok_entry in Hent. cbn [fst snd] in Hent. rewrite C, Hpb in Hent. discriminate. }
  destruct (strip_atoms base r) as [rest|] eqn:Es.
  2:{ exfalso. unfold init_ok_entry in Hent. cbn [fst snd] in Hent. rewrite C, Hpb, Es in Hent. discriminate. }
  assert (Hnons : no_var VNs rest = true).
  { unfold init_ok_entry in Hent. cbn [fst snd] in Hent. rewrite C, Hpb, Es in Hent. cbn [negb] in Hent.
    apply andb_true_iff in Hent as [Hn _]. exact Hn. }
  assert (Es' := Es). apply strip_atoms_sound in Es'.
  assert (Hn : inst_name a i = conc (val_of a i) r) by (apply (inst_name_sym a old i r W Hwf); now rewrite Et).
  rewrite Hn, Es', conc_app, Hbase in Hname. apply sapp_inv_head in Hname.
  destruct (conc_split_slash (val_of a i) rest x y) as (t1 & t2 & Er & Ex & Ey); [|exact Hname|].
  { intros v Hv. apply (vals_slashfree a old i W Hwf Hlen). intros ->. exact (no_var_in VNs rest Hnons Hv). }
  destruct (init_entry_extract _ _ _ _ tpl r base rest t1 t2 Hent C Hpb Es Er) as [_ Hwit]. clear Hent.
  set (target := (base ++ t1 ++ init_text)%list) in *.
  assert (Htarget : conc (val_of a i) target = base_s ++ x ++ "/__init__.py").
  { unfold target. rewrite !conc_app, Hbase, Ex. unfold init_text. now rewrite conc_atoms_of. }
  (* common: an instance with the view / service of i but another template, whose symbolic name is the target *)
  assert (Finish : forall i', In i' l -> sym_filename (flags_of a old i') (i_tpl i') = Some target ->
                   (forall v, In (Var v) target -> val_of a i' v = val_of a i v) ->
                   exists i'', In i'' l /\ inst_name a i'' = base_s ++ x ++ "/__init__.py").
  { intros i' Hin Hsym Hext. exists i'. split; [assumption|].
    rewrite (inst_name_sym a old i' target W (proj2 (Hinv i' Hin)) Hsym), <- Htarget. now apply conc_ext. }
  destruct Hwit as [(e' & He' & Hw)|[(e' & He' & Hw)|(e' & He' & Hw)]];
    apply sym_table_in in He' as [Htpl' Hsnd]; destruct e' as [tpl' r']; cbn [fst snd] in Htpl', Hsnd.
  - (* an __init__ template rendered for the same view *)
    unfold wit_same in Hw. cbn [fst snd] in Hw.
    destruct (opt_atoms_eqb r' target) eqn:Eq; [|discriminate]. apply opt_atoms_eqb_eq in Eq. rewrite Hsnd in Eq.
    apply andb_true_iff in Hw as [Hw Hle]. apply andb_true_iff in Hw as [Hw Hnp]. apply andb_true_iff in Hw as [Hw Hnsv].
    apply andb_true_iff in Hw as [Hp Hsubc].
    apply (Finish (mk_inst tpl' (i_view i) None None)).
    + rewrite El. apply in_flat_map. exists tpl'. split; [exact Htpl'|].
      apply plain_in; [exact Hp | exact (ggate_le_sound tpl tpl' o Hle G) |].
      destruct Hview as [E0|[_ Hv]]; [left; exact E0|]. right. split; [|exact Hv].
      destruct (i_view i) as [|n vl] eqn:Ev; [apply subviews_top_nonempty in Hv as (? & ? & _); discriminate|].
      unfold flags_of in Hsubc. cbn [fl_sub] in Hsubc. rewrite Ev in Hsubc. exact Hsubc.
    + exact Eq.
    + intros v Hv. destruct v; try reflexivity.
      * exfalso. exact (no_var_in VSvc target Hnsv Hv).
      * exfalso. exact (no_var_in VProto target Hnp Hv).
  - (* an __init__ template rendered for the top view (directories above the sub-package) *)
    unfold wit_top in Hw. cbn [fst snd] in Hw.
    destruct (opt_atoms_eqb r' target) eqn:Eq; [|discriminate]. apply opt_atoms_eqb_eq in Eq. rewrite Hsnd in Eq.
    apply andb_true_iff in Hw as [Hw Hle]. apply andb_true_iff in Hw as [Hw Hnsub]. apply andb_true_iff in Hw as [Hw Hnp].
    apply andb_true_iff in Hw as [Hp Hnsv].
    apply (Finish (mk_inst tpl' [] None None)).
    + rewrite El. apply in_flat_map. exists tpl'. split; [exact Htpl'|].
      apply plain_in; [exact Hp | exact (ggate_le_sound tpl tpl' o Hle G) | now left].
    + exact Eq.
    + intros v Hv. destruct v; try reflexivity.
      * exfalso. exact (no_var_in VSub target Hnsub Hv).
      * exfalso. exact (no_var_in VSvc target Hnsv Hv).
      * exfalso. exact (no_var_in VProto target Hnp Hv).
  - (* an __init__ template rendered for the same service *)
    unfold wit_svc in Hw. cbn [fst snd] in Hw.
    destruct (opt_atoms_eqb r' target) eqn:Eq; [|discriminate]. apply opt_atoms_eqb_eq in Eq. rewrite Hsnd in Eq.
    apply andb_true_iff in Hw as [Hw Hle]. apply andb_true_iff in Hw as [Hw Hfp]. apply andb_true_iff in Hw as [Hw Hfs].
    apply andb_true_iff in Hw as [Hw Hsa]. apply andb_true_iff in Hw as [Hw Hsub']. apply andb_true_iff in Hw as [Hw Hsub].
    apply andb_true_iff in Hw as [Hst Hst'].
    destruct (tpl_insts_service a o tpl i Hs Hst Hsub Hti) as (s & u & Esv & Epr & Hu & Hsu & Eview & Hsg).
    apply (Finish (mk_inst tpl' (u_sub u) (Some s) None)).
    + rewrite El. apply in_flat_map. exists tpl'. split; [exact Htpl'|].
      apply service_in; [exact Hs | exact Hst' | exact Hsub' | exact (ggate_le_sound tpl tpl' o Hle G)
                        | exact (sgate_always_sound tpl' o Hsa) | exact Hu | exact Hsu].
    + replace (flags_of a old (mk_inst tpl' (u_sub u) (Some s) None)) with (flags_of a old i); [exact Eq|].
      unfold flags_of. cbn [i_view i_service i_proto mk_inst]. now rewrite Eview, Esv, Epr.
    + intros v _. unfold val_of. cbn [i_view i_service i_proto mk_inst]. now rewrite Eview, Esv, Epr.
Qed.

(* ------------------------------------------------------------------ rootedness, lifted *)
Lemma python_sources_rooted a o old l : wf_rapi a old -> instances default_templates a o = Ok l ->
  forall i, In i l -> forall base_s, pkg_base_str a (i_tpl i) = Some base_s ->
  exists rest, inst_name a i = base_s ++ "/" ++ rest.
Proof.
  intros W Hl i Hi base_s Hb.
  pose proof (instances_inv _ a o old l W Hl) as Hinv. rewrite Forall_forall in Hinv. destruct (Hinv i Hi) as [Htpl Hwf].
  destruct (pkg_base_conc a old i (i_tpl i) base_s W Hb) as (base & Hpb & Hbase).
  destruct (get_filename_rooted (i_tpl i) (val_of a i) (flags_of a old i) base Htpl (val_ok_inst a old i W Hwf) Hpb)
    as (rest & r & _ & _ & _ & Hn).
  exists (conc (val_of a i) rest). unfold inst_name. rewrite (ctx_of_val_inst a old i W), Hn, Hbase. reflexivity.
Qed.

(* ------------------------------------------------------------------ one types module per target proto, one package per service *)
Definition types_tpl : string := "%namespace/%name_%version/%sub/types/%proto.py.j2".
Definition service_pkg_tpls : list string :=
  ["%namespace/%name_%version/%sub/services/%service/__init__.py.j2";
   "%namespace/%name_%version/%sub/services/%service/client.py.j2";
   "%namespace/%name_%version/%sub/services/%service/transports/__init__.py.j2";
   "%namespace/%name_%version/%sub/services/%service/transports/base.py.j2"].

Lemma mem_str_in x l : mem_str x l = true -> In x l.
Proof. unfold mem_str. rewrite existsb_exists. intros (y & Hy & E). apply String.eqb_eq in E. now subst. Qed.

Lemma types_tpl_facts :
  In types_tpl (client_templates default_templates) /\ occurs "%proto" types_tpl = true /\ occurs "%sub" types_tpl = true
  /\ (forall o, ggate o types_tpl = true)
  /\ forallb (fun t => negb (occurs "%proto" t) || String.eqb t types_tpl) (client_templates default_templates) = true.
Proof.
  split; [apply mem_str_in; vm_compute; reflexivity|]. split; [vm_compute; reflexivity|]. split; [vm_compute; reflexivity|].
  split; [|vm_compute; reflexivity]. intros [m t u r]. destruct m, u; vm_compute; reflexivity.
Qed.
Lemma service_pkg_facts :
  forallb (fun t => mem_str t (client_templates default_templates) && service_tpl t && occurs "%sub" t && sgate_always t
                    && ggate_le "" t) service_pkg_tpls = true.
Proof. vm_compute. reflexivity. Qed.

Lemma inst_eta i : i = mk_inst (i_tpl i) (i_view i) (i_service i) (i_proto i).
Proof. destruct i; reflexivity. Qed.

Lemma in_instances_tpl templates a o l i : shallow a -> instances templates a o = Ok l -> In i l ->
  In (i_tpl i) (client_templates templates) /\ In i (tpl_insts a o (i_tpl i)).
Proof.
  intros Hs Hl Hi. rewrite (instances_shallow _ a o l Hs Hl) in Hi. apply in_flat_map in Hi as (tpl & Ht & Hi).
  destruct (tpl_insts_view a o tpl i Hi) as (<- & _). auto.
Qed.

(* ---- rendering for sub-package views of ANY depth ---- *)
Lemma collect_ok_all {A} (l : list (res (list A))) r : collect l = Ok r -> forall x, In x l -> exists rx, x = Ok rx.
Proof.
  revert r. induction l as [|y l IH]; intros r H x Hx; [contradiction|]. simpl in H.
  apply bind_ok in H as (a & -> & H). apply bind_ok in H as (b & Hb & _).
  destruct Hx as [<-|Hx]; [eauto | eapply IH; eauto].
Qed.
Lemma collect_in {A} (l : list (res (list A))) : forall r, collect l = Ok r -> forall rx x, In (Ok rx) l -> In x rx -> In x r.
Proof.
  induction l as [|y l IH]; intros r H rx x Hl Hx; [contradiction|]. simpl in H.
  apply bind_ok in H as (a & -> & H). apply bind_ok in H as (b & Hb & H). inversion H; subst r.
  apply in_or_app. destruct Hl as [E|Hl]; [left; inversion E; now subst | right; eapply IH; eauto].
Qed.
Lemma collect_in_inv {A} (l : list (res (list A))) : forall r, collect l = Ok r -> forall x, In x r -> exists rx, In (Ok rx) l /\ In x rx.
Proof.
  induction l as [|y l IH]; intros r H x Hx; simpl in H; [inversion H; subst; contradiction|].
  apply bind_ok in H as (a & -> & H). apply bind_ok in H as (b & Hb & H). inversion H; subst r.
  apply in_app_or in Hx as [Hx|Hx]; [exists a; split; [now left|assumption]|].
  destruct (IH b Hb x Hx) as (rx & Hl & Hr). exists rx. split; [now right|assumption].
Qed.

Lemma prefix_split view : forall sub, is_prefix_list view sub = true -> exists rest, sub = (view ++ rest)%list.
Proof.
  induction view as [|x view IH]; intros sub H; [exists sub; reflexivity|].
  destruct sub as [|y sub]; [discriminate|]. simpl in H. apply andb_true_iff in H as [E H]. apply String.eqb_eq in E. subst y.
  destruct (IH sub H) as [rest ->]. exists rest. reflexivity.
Qed.
Lemma is_prefix_app view rest : is_prefix_list view (view ++ rest) = true.
Proof. induction view; simpl; [reflexivity|]. now rewrite String.eqb_refl. Qed.
Lemma skipn_app_len {A} (l r : list A) : skipn (List.length l) (l ++ r) = r.
Proof. induction l; simpl; auto. Qed.
Lemma firstn_app_len {A} (l r : list A) : firstn (List.length l) (l ++ r) = l.
Proof. induction l; simpl; [reflexivity|]. now f_equal. Qed.

(* a unit strictly below a view makes the next segment of its sub-package a sub-view *)
Lemma below_subview a view u n rest : In u (ra_protos a) -> u_sub u = (view ++ n :: rest)%list -> In (view ++ [n])%list (subviews a view).
Proof.
  intros Hu E. unfold subviews. apply in_map_iff. exists n. split; [reflexivity|].
  apply ssort_in, dedup_in. unfold sub_names. apply in_flat_map. exists u. split.
  - unfold protos_of. apply filter_In. split; [assumption|]. rewrite E. apply is_prefix_app.
  - rewrite E, firstn_app_len, skipn_app_len, sl_eqb_refl, app_length. simpl.
    replace (Nat.ltb (List.length view) (List.length view + S (List.length rest))) with true by (symmetry; apply Nat.ltb_lt; lia).
    simpl. now left.
Qed.
(* conversely, when a view has no sub-views every unit with that prefix is exactly in the view *)
Lemma no_subviews_exact a view u : subviews a view = [] -> In u (ra_protos a) -> is_prefix_list view (u_sub u) = true -> u_sub u = view.
Proof.
  intros Hn Hu Hp. destruct (prefix_split view _ Hp) as [[|n rest] E]; [now rewrite E, app_nil_r|].
  exfalso. pose proof (below_subview a view u n rest Hu E) as H. rewrite Hn in H. contradiction.
Qed.
Lemma filter_exact a view skip u : skip = (match subviews a view with [] => false | _ => true end) ->
  In u (ra_protos a) -> is_prefix_list view (u_sub u) = true ->
  negb (skip && negb (list_eqb String.eqb (u_sub u) view)) = true -> u_sub u = view.
Proof.
  intros Hs Hu Hp Hf. destruct (subviews a view) eqn:E.
  - now apply (no_subviews_exact a view u E).
  - subst skip. simpl in Hf. apply negb_true_iff, negb_false_iff in Hf. now apply sl_eqb_eq.
Qed.

Lemma render_inv_tpl a o tpl : forall fuel view l, render fuel a o tpl view = Ok l -> Forall (fun i => i_tpl i = tpl) l.
Proof.
  induction fuel as [|f IH]; intros view l H; [discriminate|].
  rewrite render_S in H. destruct (negb (ggate o tpl)); [inversion H; constructor|].
  apply bind_ok in H as (below & Hb & H). inversion H; subst l. apply Forall_app. split.
  - eapply collect_forall; [|exact Hb]. intros rx Hin. apply in_map_iff in Hin as (v & Hr & _). exact (IH v rx Hr).
  - apply Forall_forall. intros i Hi. now apply kind_insts_basic in Hi.
Qed.

Definition unit_inst (tpl : string) (u : unit_) : inst := mk_inst tpl (u_sub u) None (Some (u_module u)).
Definition svc_inst (tpl : string) (u : unit_) (s : string) : inst := mk_inst tpl (u_sub u) (Some s) None.

Lemma render_S_sub f a o tpl view : occurs "%sub" tpl = true -> ggate o tpl = true ->
  render (S f) a o tpl view =
  bind (collect (map (render f a o tpl) (subviews a view)))
       (fun below => Ok (below ++ kind_insts a o tpl view (match subviews a view with [] => false | _ => true end))%list).
Proof. intros Hs Hg. rewrite render_S, Hs, Hg. reflexivity. Qed.

(* completeness: whatever the depth, a unit below the view is rendered in its own sub-package *)
Lemma render_units_in a o tpl (kind : unit_ -> list inst) :
  occurs "%sub" tpl = true -> ggate o tpl = true ->
  (forall view skip u, In u (ra_protos a) -> u_sub u = view -> incl (kind u) (kind_insts a o tpl view skip)) ->
  forall fuel view l u, render fuel a o tpl view = Ok l -> In u (ra_protos a) -> is_prefix_list view (u_sub u) = true ->
  incl (kind u) l.
Proof.
  intros Hsub Hg Hkind. induction fuel as [|f IH]; intros view l u H Hu Hp; [discriminate|].
  rewrite (render_S_sub f a o tpl view Hsub Hg) in H. apply bind_ok in H as (below & Hb & H). inversion H; subst l.
  destruct (prefix_split view _ Hp) as [[|n rest] E].
  - rewrite app_nil_r in E. apply incl_appr. now apply Hkind.
  - apply incl_appl. pose proof (below_subview a view u n rest Hu E) as Hv.
    assert (Hin : In (render f a o tpl (view ++ [n])) (map (render f a o tpl) (subviews a view))) by now apply in_map.
    destruct (collect_ok_all _ _ Hb _ Hin) as [rx Erx]. intros x Hx.
    apply (collect_in _ _ Hb rx x); [now rewrite <- Erx|].
    apply (IH (view ++ [n])%list rx u Erx Hu); [|assumption]. rewrite E.
    replace (view ++ n :: rest)%list with ((view ++ [n]) ++ rest)%list by (rewrite <- app_assoc; reflexivity). apply is_prefix_app.
Qed.
(* soundness: every instance comes from a block of some view *)
Lemma render_blocks a o tpl : occurs "%sub" tpl = true ->
  forall fuel view l i, render fuel a o tpl view = Ok l -> In i l ->
  ggate o tpl = true /\ exists v, In i (kind_insts a o tpl v (match subviews a v with [] => false | _ => true end)).
Proof.
  intros Hsub. induction fuel as [|f IH]; intros view l i H Hi; [discriminate|].
  rewrite render_S in H. destruct (ggate o tpl) eqn:Hg; cbn [negb] in H; [|inversion H; subst; contradiction].
  rewrite Hsub in H. apply bind_ok in H as (below & Hb & H). inversion H; subst l.
  apply in_app_or in Hi as [Hi|Hi]; [|split; [reflexivity|eauto]].
  destruct (collect_in_inv _ _ Hb i Hi) as (rx & Hl & Hr). apply in_map_iff in Hl as (v & Ev & _). exact (IH v rx i Ev Hr).
Qed.

Lemma instances_in templates a o l : instances templates a o = Ok l -> forall tpl rx,
  In tpl (client_templates templates) -> render (2 + max_sub_len a) a o tpl [] = Ok rx -> incl rx l.
Proof.
  intros H tpl rx Ht Hr x Hx. unfold instances in H. destruct (existsb _ _); [discriminate|].
  apply (collect_in _ _ H rx x); [|assumption]. rewrite <- Hr. apply in_map_iff. exists tpl. auto.
Qed.
Lemma instances_ok_tpl templates a o l : instances templates a o = Ok l -> forall tpl,
  In tpl (client_templates templates) -> exists rx, render (2 + max_sub_len a) a o tpl [] = Ok rx.
Proof.
  intros H tpl Ht. unfold instances in H. destruct (existsb _ _); [discriminate|].
  apply (collect_ok_all _ _ H). apply in_map_iff. exists tpl. auto.
Qed.
Lemma instances_in_inv templates a o l i : instances templates a o = Ok l -> In i l ->
  exists tpl rx, In tpl (client_templates templates) /\ render (2 + max_sub_len a) a o tpl [] = Ok rx /\ In i rx.
Proof.
  intros H Hi. unfold instances in H. destruct (existsb _ _); [discriminate|].
  destruct (collect_in_inv _ _ H i Hi) as (rx & Hl & Hr). apply in_map_iff in Hl as (tpl & E & Ht). eauto.
Qed.

(* exactly the target protos get a types module, for proto sub-packages of any depth: each target proto has an instance of the
   types template in its own sub-package, and every instance of a per-proto template is one of these *)
Lemma one_types_module_per_target_proto a o l : instances default_templates a o = Ok l ->
  (forall u, In u (ra_protos a) -> In (unit_inst types_tpl u) l) /\
  (forall i, In i l -> i_proto i <> None -> exists u, In u (ra_protos a) /\ i = unit_inst types_tpl u).
Proof.
  intros Hl. destruct types_tpl_facts as (Hin & Hp & Hsub & Hg & Honly). split.
  - intros u Hu. destruct (instances_ok_tpl _ a o l Hl types_tpl Hin) as [rx Hr].
    apply (instances_in _ a o l Hl types_tpl rx Hin Hr).
    apply (render_units_in a o types_tpl (fun u => [unit_inst types_tpl u]) Hsub (Hg o)) with (fuel := 2 + max_sub_len a) (view := []) (u := u);
      [|assumption|assumption|reflexivity|now left].
    intros view skip u0 Hu0 E x [<-|[]]. unfold kind_insts. rewrite Hp. apply in_map_iff. exists u0. split; [unfold unit_inst, mk_inst; now rewrite E|].
    apply filter_In. split; [unfold protos_of; apply filter_In; split; [assumption|rewrite E; apply is_prefix_list_refl]|].
    rewrite E, sl_eqb_refl. simpl. now rewrite andb_false_r.
  - intros i Hi Hnone. destruct (instances_in_inv _ a o l i Hl Hi) as (tpl & rx & Ht & Hr & Hx).
    destruct (occurs "%proto" tpl) eqn:Kp.
    + rewrite forallb_forall in Honly. specialize (Honly _ Ht). rewrite Kp in Honly. cbn [negb orb] in Honly.
      apply String.eqb_eq in Honly. subst tpl.
      destruct (render_blocks a o types_tpl Hsub _ _ _ i Hr Hx) as (_ & v & Hk).
      unfold kind_insts in Hk. rewrite Hp in Hk. apply in_map_iff in Hk as (u & <- & Hu). apply filter_In in Hu as [Hu Hf].
      apply protos_of_incl in Hu as [Hu Hpre]. exists u. split; [assumption|].
      rewrite <- (filter_exact a v _ u eq_refl Hu Hpre Hf). reflexivity.
    + exfalso. apply Hnone. clear - Hr Hx Kp. revert rx Hr Hx. generalize (2 + max_sub_len a) as fuel. generalize (@nil string) as view.
      intros view fuel. revert view. induction fuel as [|f IH]; intros view rx Hr Hx; [discriminate|].
      rewrite render_S in Hr. destruct (negb (ggate o tpl)); [inversion Hr; subst; contradiction|].
      apply bind_ok in Hr as (below & Hb & Hr). inversion Hr; subst rx. apply in_app_or in Hx as [Hx|Hx].
      * destruct (collect_in_inv _ _ Hb i Hx) as (r0 & Hl0 & Hr0). apply in_map_iff in Hl0 as (v & Ev & _). exact (IH v r0 Ev Hr0).
      * destruct (kind_insts_kind a o tpl view _ i Hx) as [_ K]. rewrite Kp in K. destruct (i_proto i); [discriminate|reflexivity].
Qed.

(* every service of every target proto gets its package (__init__.py, client.py, transports/__init__.py, transports/base.py), in
   the proto's sub-package of any depth and for every option set; and a per-service template with %sub is only ever rendered
   for a service of a target proto, in that proto's sub-package *)
Lemma one_package_per_service a o l : instances default_templates a o = Ok l ->
  (forall tpl u s, In tpl service_pkg_tpls -> In u (ra_protos a) -> In s (u_services u) -> In (svc_inst tpl u s) l) /\
  (forall i, In i l -> service_tpl (i_tpl i) = true -> occurs "%sub" (i_tpl i) = true ->
             exists u s, In u (ra_protos a) /\ In s (u_services u) /\ i = svc_inst (i_tpl i) u s).
Proof.
  intros Hl. split.
  - intros tpl u s Ht Hu Hsv. pose proof service_pkg_facts as F. rewrite forallb_forall in F. specialize (F tpl Ht).
    apply andb_true_iff in F as [F Hle]. apply andb_true_iff in F as [F Hsa]. apply andb_true_iff in F as [F Hsub].
    apply andb_true_iff in F as [Hmem Hst]. apply mem_str_in in Hmem.
    assert (Hg : ggate o tpl = true).
    { apply (ggate_le_sound "" tpl o Hle). destruct o as [m t u0 r]. destruct m, u0; reflexivity. }
    destruct (instances_ok_tpl _ a o l Hl tpl Hmem) as [rx Hr]. apply (instances_in _ a o l Hl tpl rx Hmem Hr).
    apply (render_units_in a o tpl (fun u => map (svc_inst tpl u) (u_services u)) Hsub Hg) with (fuel := 2 + max_sub_len a) (view := []) (u := u);
      [|assumption|assumption|reflexivity|now apply in_map].
    intros view skip u0 Hu0 E x Hx. apply in_map_iff in Hx as (s0 & <- & Hs0).
    unfold service_tpl in Hst. apply andb_true_iff in Hst as [K1 K2]. apply negb_true_iff in K1.
    unfold kind_insts. rewrite K1, K2. apply in_map_iff. exists (s0, view). split; [unfold svc_inst, mk_inst; now rewrite E|].
    apply filter_In. split.
    + unfold services_of. apply in_flat_map. exists u0. split.
      * apply -> in_rev. unfold protos_of. apply filter_In. split; [assumption|rewrite E; apply is_prefix_list_refl].
      * rewrite <- E. apply in_map_iff. exists s0. auto.
    + cbn [snd]. rewrite sl_eqb_refl, (sgate_always_sound tpl o Hsa). simpl. now rewrite andb_false_r.
  - intros i Hi Hst Hsub. destruct (instances_in_inv _ a o l i Hl Hi) as (tpl & rx & Ht & Hr & Hx).
    assert (Et : i_tpl i = tpl).
    { pose proof (render_inv_tpl a o tpl _ _ _ Hr) as Hall. rewrite Forall_forall in Hall. now apply Hall. }
    rewrite Et in *. destruct (render_blocks a o tpl Hsub _ _ _ i Hr Hx) as (_ & v & Hk).
    unfold service_tpl in Hst. apply andb_true_iff in Hst as [K1 K2]. apply negb_true_iff in K1.
    unfold kind_insts in Hk. rewrite K1, K2 in Hk. apply in_map_iff in Hk as ([s sub] & <- & Hsv).
    apply filter_In in Hsv as [Hsv Hf]. cbn [snd fst] in *. apply andb_true_iff in Hf as [Hf _].
    unfold services_of in Hsv. apply in_flat_map in Hsv as (u & Hu & Hsv). apply in_rev, protos_of_incl in Hu as [Hu Hpre].
    apply in_map_iff in Hsv as (s' & E & Hs'). inversion E; subst s' sub.
    exists u, s. repeat split; auto. unfold svc_inst. now rewrite (filter_exact a v _ u eq_refl Hu Hpre Hf).
Qed.

(* the name of a types module, for every well-formed API: <root>/[<sub>/]types/<module>.py *)
Definition types_atoms (f : flags) : list atom :=
  (root_atoms f ++ [Ch slash] ++ (if fl_sub f then [Var VSub; Ch slash] else []) ++ atoms_of "types/" ++ [Var VProto] ++ atoms_of ".py")%list.
Lemma types_sym_ok :
  forallb (fun f => negb (fl_proto f) || fl_svc f || opt_atoms_eqb (sym_filename f types_tpl) (types_atoms f)) all_flags = true.
Proof. vm_compute. reflexivity. Qed.
Global Opaque sym_filename.
Lemma types_sym f : fl_proto f = true -> fl_svc f = false -> sym_filename f types_tpl = Some (types_atoms f).
Proof.
  intros Hp Hs. pose proof types_sym_ok as F. rewrite forallb_forall in F. specialize (F f (all_flags_complete f)).
  rewrite Hp, Hs in F. cbn [negb orb] in F. now apply opt_atoms_eqb_eq.
Qed.
Lemma types_module_name a old sub m : wf_rapi a old -> Forall word sub -> word m ->
  inst_name a (mk_inst types_tpl sub None (Some m)) =
  root_of a ++ "/" ++ (match sub with [] => "" | _ => sjoin "/" sub ++ "/" end) ++ "types/" ++ m ++ ".py".
Proof.
  intros W Hsub Hm.
  assert (Hwf : inst_wf (mk_inst types_tpl sub None (Some m))).
  { repeat split; cbn; [assumption | discriminate | intros p E; inversion E; now subst]. }
  rewrite (inst_name_sym a old _ _ W Hwf (types_sym (flags_of a old (mk_inst types_tpl sub None (Some m))) eq_refl eq_refl)).
  unfold types_atoms, root_atoms. rewrite !conc_app, conc_ns_atoms, (conc_nv_atoms a old _ W), !conc_atoms_of.
  unfold root_of, flags_of. cbn [fl_sub mk_inst i_view].
  destruct sub as [|n sub']; cbn [conc val_of mk_inst i_view i_proto opt_str];
    rewrite ?sapp_assoc; cbn [append]; rewrite ?sapp_nil_r, ?sapp_assoc; reflexivity.
Qed.

(* ------------------------------------------------------------------ dependency files *)
Definition target_package (files : list pfile) (to_generate : list string) : string :=
  common_segments (map pf_package (filter (fun f => mem_str (pf_name f) to_generate) files)).
(* in_pkg is membership in the package tree, not a textual prefix *)
Lemma in_pkg_spec package p : in_pkg package p = true ->
  package = "" \/ p = package \/ exists rest, p = package ++ "." ++ rest.
Proof.
  unfold in_pkg. intro H. apply orb_true_iff in H as [H|H]; [apply orb_true_iff in H as [H|H]|].
  - left. destruct package; [reflexivity|discriminate].
  - right. left. now apply String.eqb_eq.
  - right. right. unfold starts_with in H. destruct (strip_prefix (package ++ ".") p) as [r|] eqn:E; [|discriminate].
    apply strip_prefix_sound in E. exists r. now rewrite E, sapp_assoc.
Qed.
(* nothing_for_dependency_files: every proto that gets a module stems from a request file whose package is the target package
   or one of its sub-packages; files of any other package (dependencies) contribute nothing *)
Lemma nothing_for_dependency_files files to_generate o a : build_rapi files to_generate o = Ok a ->
  forall u, In u (ra_protos a) ->
  exists f, In f (sanitize_all [] files) /\ u_module u = proto_module (pf_name f) /\
            (target_package files to_generate = "" \/ pf_package f = target_package files to_generate
             \/ exists rest, pf_package f = target_package files to_generate ++ "." ++ rest).
Proof.
  unfold build_rapi, target_package. cbv zeta. intros H u Hu. apply bind_ok in H as (n & _ & H). inversion H; subst a. clear H.
  cbn [ra_protos] in Hu. apply in_map_iff in Hu as (f & <- & Hf). apply filter_In in Hf as [Hf Hp].
  exists f. split; [assumption|]. split; [reflexivity|]. now apply in_pkg_spec.
Qed.
(* the former witness of the textual-prefix defect: the dependency of package a.b.v1beta1 gets nothing *)
Example dependency_example :
  exists names,
    generate default_templates [mkPF "a/b/v1beta1/dep.proto" "a.b.v1beta1" []; mkPF "a/b/v1/top.proto" "a.b.v1" ["Top"]]
             ["a/b/v1/top.proto"] "" false false = Ok (names, 1) /\
    mem_str "a/b_v1/types/top.py" names = true /\ mem_str "a/b_v1/types/dep.py" names = false /\
    existsb (fun n => occurs "dep" n) names = false.
Proof. eexists. split; [vm_compute; reflexivity|]. vm_compute. repeat split. Qed.

(* proto sub-packages nested two levels deep (the former witness of the subpackage[0] defect): every proto gets its types
   module and every directory its __init__.py.  The general theorems above are proved for depth <= 1 (hypothesis shallow);
   deeper nestings are covered by this example, by T1 and by the oracle. *)
Definition nested_api : rapi :=
  {| ra_ns := "a"; ra_name := "b"; ra_version := "v1"; ra_nv := "b_v1";
     ra_protos := [mkU "top" [] ["top_svc"]; mkU "mid" ["sub"] []; mkU "low" ["sub"; "deep"] ["low_svc"]] |}.
Definition plain_opts : ropts := {| ro_metadata := false; ro_transport := ["grpc"]; ro_unversioned_disabled := false; ro_rest_async := false |}.
Example nested_example :
  wf_rapi nested_api false /\
  exists names, candidates default_templates nested_api plain_opts = Ok names /\
    forallb (fun n => mem_str n names)
            ["a/b_v1/types/top.py"; "a/b_v1/sub/types/mid.py"; "a/b_v1/sub/deep/types/low.py"; "a/b_v1/__init__.py";
             "a/b_v1/sub/__init__.py"; "a/b_v1/sub/deep/__init__.py"; "a/b_v1/sub/deep/types/__init__.py";
             "a/b_v1/sub/deep/services/low_svc/transports/__init__.py"; "a/b_v1/sub/types/__init__.py"] = true /\
    mem_str "a/b_v1/sub/sub/__init__.py" names = false /\ mem_str "a/b_v1/types/low.py" names = false
    /\ forallb normalised names = true.
Proof.
  split.
  - constructor; try (vm_compute; reflexivity); [right; vm_compute; reflexivity | right; vm_compute; reflexivity|].
    repeat constructor; vm_compute; reflexivity.
  - eexists. split; [vm_compute; reflexivity|]. vm_compute. repeat split.
Qed.

(* ------------------------------------------------------------------ non-vacuity: a non-trivial API satisfying every hypothesis *)
Definition example_api : rapi :=
  {| ra_ns := "google/cloud"; ra_name := "big_query"; ra_version := "v1beta1"; ra_nv := "big_query_v1beta1";
     ra_protos := [mkU "library" [] ["library_admin"; "iam"]; mkU "camel_case_2fa" [] []; mkU "extra" ["sub"] ["aux_2b"]] |}.
Definition example_opts : ropts :=
  {| ro_metadata := true; ro_transport := ["grpc"; "rest"]; ro_unversioned_disabled := false; ro_rest_async := false |}.
Lemma example_ok :
  wf_rapi example_api false /\ shallow example_api /\
  exists names, candidates default_templates example_api example_opts = Ok names /\
    In "google/cloud/big_query_v1beta1/sub/types/extra.py" names /\
    In "google/cloud/big_query_v1beta1/sub/services/aux_2b/transports/__init__.py" names /\
    In "google/cloud/big_query_v1beta1/services/iam/transports/rest.py" names /\
    In "google/cloud/big_query/__init__.py" names /\ List.length names = 85.
Proof.
  split; [|split].
  - constructor; try (vm_compute; reflexivity); [right; vm_compute; reflexivity | right; vm_compute; reflexivity|].
    repeat constructor; vm_compute; reflexivity.
  - repeat constructor; simpl; lia.
  - eexists. split; [vm_compute; reflexivity|]. repeat split; try (apply mem_str_in; vm_compute; reflexivity).
Qed.
