(* Proofs/WrapWidth.v — C20: the width bound of gapic.utils.lines.wrap, stated on the pieces the result is
   assembled from; and the inputs on which the faithful model (like the code) damages the text. *)
From GV Require Import Base.Str Model.FixWs Model.Wrap Proofs.RxLemmas Proofs.FixWs Proofs.Words Proofs.TwWrap Proofs.Wrap.
Local Open Scope list_scope.
Local Open Scope nat_scope.

(* one filled token: its lines respect [width], except a line that is the indentation plus one unbreakable chunk *)
Definition part_ok (width indent : nat) (part : string) : Prop :=
  exists token ls, part = sjoin nl1 ls /\
    forall l, In l ls ->
      line_ok width (rep indent sp) (rep indent sp ++ rep (sub_indent_level (strip token)) sp)%string
              (split_chunks (munge token)) l.

Lemma fill_tokens_width width indent : forall tokens parts,
  fill_tokens width indent tokens = Some (Some parts) -> Forall (part_ok width indent) parts.
Proof.
  induction tokens as [|t tokens IH]; intros parts H; cbn [fill_tokens] in H.
  - inversion H. constructor.
  - destruct (tw_wrap width (rep indent sp) (rep indent sp ++ rep (sub_indent_level (strip t)) sp) t) as [[ls|]|] eqn:E;
      try discriminate.
    destruct (fill_tokens width indent tokens) as [[more|]|] eqn:E2; try discriminate.
    inversion H; subst. constructor; [|now apply IH].
    exists t, ls. split; [reflexivity|]. now apply tw_wrap_width_bound.
Qed.

(* the first line: either the comment's own first line, which fits in width - offset, or the first line textwrap
   made of it for that width *)
Definition first_ok (text1 : string) (width offset : nat) (first : string) : Prop :=
  (first = first0_of text1 /\ String.length first <= width - offset) \/
  (exists l0, first = (l0 ++ nl1)%string /\
     line_ok (width - offset) "" "" (split_chunks (munge (first0_of text1))) l0).

Lemma wrap_head_first_ok text1 width offset first text2 :
  wrap_head text1 width offset = (Ok first, text2) -> first_ok text1 width offset first.
Proof.
  unfold wrap_head. destruct (width - offset <? String.length (first0_of text1)) eqn:E.
  - destruct (tw_wrap (width - offset) "" "" (first0_of text1)) as [[[|l0 ls]|]|] eqn:Et; intro H; inversion H.
    right. exists l0. split; [reflexivity|]. eapply tw_wrap_width_bound; [exact Et | now left].
  - intro H. inversion H; subst. left. split; [reflexivity|]. now apply Nat.ltb_ge in E.
Qed.

(* PARTIAL with respect to "no line of the result exceeds the width except for a single unbreakable word": the bound is
   proved for the first line and for every line of every filled token, of which the result is the concatenation
   first ++ "\n".join(parts) stripped of final newlines; not re-expressed over result.split("\n") (missing: wrapped
   lines contain no newline, and rstrip("\n") only removes empty last lines). *)
Theorem wrap_width_bound_partial text width offset indent out :
  is_empty (wrap_prologue text) = false -> wrap text width offset indent = Ok out ->
  exists first text2, wrap_head (repl_nlsp (wrap_prologue text)) width offset = (Ok first, text2) /\
    first_ok (repl_nlsp (wrap_prologue text)) width offset first /\
    (out = strip first \/
     exists parts, out = rstrip_nl (first ++ sjoin nl1 parts) /\ Forall (part_ok width indent) parts).
Proof.
  intros Hne H. unfold wrap in H. destruct (is_empty text) eqn:Et.
  { destruct text; [|discriminate]. discriminate Hne. }
  rewrite Hne in H.
  destruct (wrap_head (repl_nlsp (wrap_prologue text)) width offset) as [r text2] eqn:E.
  destruct r; try discriminate. exists s, text2. split; [reflexivity|].
  split; [eapply wrap_head_first_ok; eauto|].
  unfold wrap_tail in H. destruct (is_empty (sdrop _ _)); [left; now inversion H|].
  destruct (fill_tokens _ _ _) as [[parts|]|] eqn:Ef; try discriminate.
  right. exists parts. split; [now inversion H | eapply fill_tokens_width; eauto].
Qed.

(* when the prologue leaves nothing (the comment is blank), the result is the empty string *)
Lemma wrap_blank text width offset indent :
  is_empty (wrap_prologue text) = true -> wrap text width offset indent = Ok ""%string.
Proof. intro H. unfold wrap. destruct (is_empty text); [reflexivity|]. now rewrite H. Qed.
