(* Proofs/WrapWidth.v — C20: the width bound of gapic.utils.lines.wrap, stated on the pieces the result is
   assembled from; and the inputs on which the faithful model (like the code) damages the text. *)
From GV Require Import Base.Str Model.FixWs Model.Wrap Proofs.RxLemmas Proofs.FixWs Proofs.Words Proofs.TwWrap Proofs.Wrap.
Local Open Scope list_scope.
Local Open Scope nat_scope.

(* one filled token: its lines respect [width], except a line that is the indentation plus one unbreakable chunk *)
Definition part_ok (width indent : nat) (part : string) : Prop :=
  exists token ls, part = sjoin nl1 ls /\
    forall l, In l ls ->
      line_ok width (rep indent sp) (rep indent sp ++ rep (sub_indent_level (strip token)) sp)%string
              (split_chunks (munge token)) l.

Lemma fill_tokens_width width indent : forall tokens parts,
  fill_tokens width indent tokens = Some (Some parts) -> Forall (part_ok width indent) parts.
Proof.
  induction tokens as [|t tokens IH]; intros parts H; cbn [fill_tokens] in H.
  - inversion H. constructor.
  - destruct (tw_wrap width (rep indent sp) (rep indent sp ++ rep (sub_indent_level (strip t)) sp) t) as [[ls|]|] eqn:E;
      try discriminate.
    destruct (fill_tokens width indent tokens) as [[more|]|] eqn:E2; try discriminate.
    inversion H; subst. constructor; [|now apply IH].
    exists t, ls. split; [reflexivity|]. now apply tw_wrap_width_bound.
Qed.

(* the first line: either the comment's own first line, which fits in width - offset, or the first line textwrap
   made of it for that width *)
Definition first_ok (text1 : string) (width offset : nat) (first : string) : Prop :=
  (first = first0_of text1 /\ String.length first <= width - offset) \/
  (exists l0, first = (l0 ++ nl1)%string /\
     line_ok (width - offset) "" "" (split_chunks (munge (first0_of text1))) l0).

Lemma wrap_head_first_ok text1 width offset first text2 :
  wrap_head text1 width offset = (Ok first, text2) -> first_ok text1 width offset first.
Proof.
  unfold wrap_head. destruct (width - offset <? String.length (first0_of text1)) eqn:E.
  - destruct (tw_wrap (width - offset) "" "" (first0_of text1)) as [[[|l0 ls]|]|] eqn:Et; intro H; inversion H.
    right. exists l0. split; [reflexivity|]. eapply tw_wrap_width_bound; [exact Et | now left].
  - intro H. inversion H; subst. left. split; [reflexivity|]. now apply Nat.ltb_ge in E.
Qed.

(* PARTIAL with respect to "no line of the result exceeds the width except for a single unbreakable word": the bound is
   proved for the first line and for every line of every filled token, of which the result is the concatenation
   first ++ "\n".join(parts) stripped of final newlines; not re-expressed over result.split("\n") (missing: wrapped
   lines contain no newline, and rstrip("\n") only removes empty last lines). *)
Theorem wrap_width_bound_partial text width offset indent out :
  text <> ""%string -> wrap text width offset indent = Ok out ->
  exists first text2, wrap_head (repl_nlsp text) width offset = (Ok first, text2) /\
    first_ok (repl_nlsp text) width offset first /\
    (out = strip first \/
     exists parts, out = rstrip_nl (first ++ sjoin nl1 parts) /\ Forall (part_ok width indent) parts).
Proof.
  intros Hne H. unfold wrap in H. destruct text as [|c text]; [congruence|]. cbn [is_empty] in H.
  destruct (wrap_head (repl_nlsp (String c text)) width offset) as [r text2] eqn:E.
  destruct r; try discriminate. exists s, text2. split; [reflexivity|].
  split; [eapply wrap_head_first_ok; eauto|].
  unfold wrap_tail in H. destruct (is_empty _); [left; now inversion H|].
  destruct (fill_tokens _ _ _) as [[parts|]|] eqn:Ef; try discriminate.
  right. exists parts. split; [now inversion H | eapply fill_tokens_width; eauto].
Qed.

(* ---------------------------------------------------------------- where the words are not preserved *)
(* the hypothesis under which the slice text[len(first):] is right: the first line fits, or it has no TAB and does
   not start with whitespace *)
Definition first_line_safe (text : string) (width offset : nat) : bool :=
  let text1 := repl_nlsp text in
  let line0 := match split_on nl text1 with l :: _ => l | [] => ""%string end in
  (String.length (first0_of text1) <=? width - offset) ||
  (negb (contains tab line0) && match line0 with String c _ => negb (is_pyspace c) | EmptyString => true end).

Definition t_tab : string := sx [97;9;98;32;99;99;99;99;32;100;100;100;100;32;101;101;101;101]%N.  (* a TAB b cccc dddd eeee *)

(* DESIGN section 9 no. 6: a TAB in an over-long first line: the slice uses the length of the tab-expanded line *)
Lemma wrap_tab_refuted : exists text width offset indent out,
  offset < width /\ wrap text width offset indent = Ok out /\ pywords out <> pywords text.
Proof.
  exists t_tab, 12, 0, 0. eexists. split; [lia|]. split; [vm_compute; reflexivity|]. vm_compute. discriminate.
Qed.

(* an over-long first line that starts with whitespace: textwrap drops the leading blanks when the first word does
   not fit after them, the slice does not: here the letter b comes out twice *)
Lemma wrap_leading_ws_refuted : exists text width offset indent out,
  offset < width /\ contains tab text = false /\ wrap text width offset indent = Ok out /\ pywords out <> pywords text.
Proof.
  exists "  ab cd"%string, 3, 0, 0. eexists. split; [lia|]. split; [reflexivity|]. split; [vm_compute; reflexivity|].
  vm_compute. discriminate.
Qed.

(* DESIGN section 9 no. 17: an over-long first line of blanks only: textwrap returns no line, initial[0] raises *)
Lemma wrap_blank_first_line_refuted : exists text width offset indent,
  offset < width /\ wrap text width offset indent = IndexErr.
Proof. exists "    "%string, 3, 0, 0. split; [lia | vm_compute; reflexivity]. Qed.

(* all three witnesses are outside the hypothesis, and ordinary comments are inside it *)
Example first_line_safe_examples :
  first_line_safe t_tab 12 0 = false /\ first_line_safe "  ab cd" 3 0 = false /\ first_line_safe "    " 3 0 = false /\
  first_line_safe "The quick brown fox jumps over the lazy dog. The quick brown fox" 40 7 = true /\
  wrap "The quick brown fox jumps over the lazy dog. The quick brown fox" 40 7 4 =
    Ok (sx [84;104;101;32;113;117;105;99;107;32;98;114;111;119;110;32;102;111;120;32;106;117;109;112;115;32;111;118;101;114;10;
            32;32;32;32;116;104;101;32;108;97;122;121;32;100;111;103;46;32;84;104;101;32;113;117;105;99;107;32;98;114;111;119;110;32;102;111;120]%N).
Proof. vm_compute. repeat split. Qed.
