(* Proofs/Paging.v — C07: lemmas about Model/Paging.v *)
From GV Require Import Base.Str Model.Paging.
Open Scope list_scope.

(* ================================================================== (i) classification *)

Lemma uniq_inj (s : shape) f g : uniq s -> In f s -> In g s -> fname f = fname g -> f = g.
Proof.
  unfold uniq. induction s as [|a s IH]; intros Hu Hf Hg E; [inversion Hf|].
  cbn [map] in Hu. inversion Hu as [|x l Hnotin Hnd]; subst.
  destruct Hf as [Hf|Hf], Hg as [Hg|Hg]; subst.
  - reflexivity.
  - exfalso. apply Hnotin. rewrite E. now apply in_map.
  - exfalso. apply Hnotin. rewrite <- E. now apply in_map.
  - now apply IH.
Qed.

Lemma lookup_sound n s f : lookup n s = Some f -> In f s /\ fname f = n.
Proof.
  unfold lookup. intros H. apply find_some in H. destruct H as [Hin He].
  split; [exact Hin|]. now apply String.eqb_eq in He.
Qed.

Lemma lookup_complete n s f : uniq s -> In f s -> fname f = n -> lookup n s = Some f.
Proof.
  intros Hu Hin Hn. destruct (lookup n s) as [g|] eqn:E.
  - apply lookup_sound in E. destruct E as [Hg Hgn].
    f_equal. apply (uniq_inj s); auto. congruence.
  - exfalso. unfold lookup in E.
    pose proof (find_none _ _ E f Hin) as H. cbn in H. rewrite Hn, String.eqb_refl in H. discriminate.
Qed.

Lemma has_lookup s n p : uniq s -> (has s n p <-> exists f, lookup n s = Some f /\ p f = true).
Proof.
  intros Hu. split.
  - intros (f & Hin & Hn & Hp). exists f. split; [now apply lookup_complete|exact Hp].
  - intros (f & Hl & Hp). apply lookup_sound in Hl. destruct Hl. now exists f.
Qed.

Lemma find_split {A} (p : A -> bool) l x :
  find p l = Some x -> exists l1 l2, l = l1 ++ x :: l2 /\ p x = true /\ Forall (fun y => p y = false) l1.
Proof.
  induction l as [|a l IH]; intros H; [discriminate|]. cbn in H.
  destruct (p a) eqn:E.
  - inversion H; subst. exists [], l. repeat split; auto.
  - destruct (IH H) as (l1 & l2 & -> & Hp & Hall). exists (a :: l1), l2. repeat split; auto.
Qed.

Lemma find_some_iff_exists {A} (p : A -> bool) l : (exists x, find p l = Some x) <-> exists x, In x l /\ p x = true.
Proof.
  split.
  - intros (x & H). apply find_some in H. now exists x.
  - intros (x & Hin & Hp). destruct (find p l) as [y|] eqn:E; [now exists y|].
    pose proof (find_none _ _ E x Hin). congruence.
Qed.

Lemma sing_str_eq f : token_ok f = sing_str f.
Proof. unfold token_ok, sing_str. apply andb_comm. Qed.
Lemma sing_int_eq f : negb (frep f) && is_int f = sing_int f.
Proof. unfold sing_int. apply andb_comm. Qed.
Lemma legacy_size_eq f : negb (frep f) && size_type_ok f = legacy_size f.
Proof.
  unfold legacy_size, sing_int, sing_wrapper32, size_type_ok, is_int.
  destruct (fty f), (frep f); cbn; try reflexivity; now rewrite ?andb_true_r, ?andb_false_r.
Qed.

(* ---- the sentence of the property, decided ---- *)
Lemma hasb_iff s n p : hasb s n p = true <-> has s n p.
Proof.
  unfold hasb, has. rewrite existsb_exists. split.
  - intros (f & Hin & H). apply andb_true_iff in H. destruct H as [Hn Hp].
    apply String.eqb_eq in Hn. now exists f.
  - intros (f & Hin & Hn & Hp). exists f. split; [exact Hin|].
    apply andb_true_iff. split; [now apply String.eqb_eq|exact Hp].
Qed.

Lemma existsb_frep_iff s : existsb frep s = true <-> has_repeated s.
Proof. unfold has_repeated. now rewrite existsb_exists. Qed.

Lemma spec_pagedb_iff req resp : spec_pagedb req resp = true <-> spec_paged req resp.
Proof.
  unfold spec_pagedb, spec_paged.
  rewrite !andb_true_iff, orb_true_iff, !hasb_iff, existsb_frep_iff. tauto.
Qed.

(* The code decides exactly the property's sentence, for all shapes. *)
Lemma paged_iff_spec req resp :
  uniq req -> uniq resp ->
  ((exists f, paged_result_field req resp = Some f) <-> spec_paged req resp).
Proof.
  intros Hq Hr. unfold paged_result_field, spec_paged, has_page_size, has_max_results.
  rewrite (has_lookup req "page_token" sing_str Hq), (has_lookup resp "next_page_token" sing_str Hr),
          (has_lookup req "page_size" sing_int Hq), (has_lookup req "max_results" legacy_size Hq).
  unfold has_repeated. rewrite <- (find_some_iff_exists frep resp). fold (first_repeated resp).
  destruct (lookup "page_token" req) as [t|].
  2:{ split; [intros (f & H); discriminate | intros ((f & H & _) & _); discriminate]. }
  rewrite (sing_str_eq t). destruct (sing_str t) eqn:Et; cbn [negb].
  2:{ split; [intros (f & H); discriminate | intros ((f & H & Hs) & _); inversion H; subst; congruence]. }
  destruct (lookup "next_page_token" resp) as [n|].
  2:{ split; [intros (f & H); discriminate | intros (_ & _ & (f & H & _) & _); discriminate]. }
  rewrite (sing_str_eq n). destruct (sing_str n) eqn:En; cbn [negb].
  2:{ split; [intros (f & H); discriminate | intros (_ & _ & (f & H & Hs) & _); inversion H; subst; congruence]. }
  assert (Hsize : (match lookup "page_size" req with Some f => negb (frep f) && is_int f | None => false end
                   || match lookup "max_results" req with Some f => negb (frep f) && size_type_ok f | None => false end) = true
                  <-> ((exists f, lookup "page_size" req = Some f /\ sing_int f = true) \/
                       (exists f, lookup "max_results" req = Some f /\ legacy_size f = true))).
  { rewrite orb_true_iff. split.
    - intros [H|H].
      + left. destruct (lookup "page_size" req) as [f|]; [|discriminate]. exists f. now rewrite <- sing_int_eq.
      + right. destruct (lookup "max_results" req) as [f|]; [|discriminate]. exists f. now rewrite <- legacy_size_eq.
    - intros [(f & H & Hs)|(f & H & Hs)]; rewrite H; [left; now rewrite sing_int_eq|right; now rewrite legacy_size_eq]. }
  destruct (_ || _) eqn:Eb.
  - split.
    + intros H. split; [eauto|]. split; [now apply Hsize|]. split; [eauto|exact H].
    + intros (_ & _ & _ & H). exact H.
  - split; [intros (f & H); discriminate|].
    intros (_ & Hs & _). apply Hsize in Hs. discriminate.
Qed.

(* when a method is paged, the item field is the first repeated field of the response, in declaration order *)
Lemma paged_field_first_repeated req resp f :
  paged_result_field req resp = Some f ->
  exists before after, resp = before ++ f :: after /\ frep f = true /\ Forall (fun g => frep g = false) before.
Proof.
  unfold paged_result_field. intros H.
  destruct (lookup "page_token" req) as [t|]; [|discriminate].
  destruct (negb (token_ok t)); [discriminate|].
  destruct (lookup "next_page_token" resp) as [n|]; [|discriminate].
  destruct (negb (token_ok n)); [discriminate|].
  destruct (has_page_size req || has_max_results req); [|discriminate].
  now apply find_split.
Qed.

(* ---- presence is irrelevant: declaring any field proto3-optional, or putting it in a oneof, changes nothing ---- *)
Lemma lookup_erase n s : lookup n (erase_presence s) = option_map plain (lookup n s).
Proof.
  unfold lookup, erase_presence. induction s as [|a s IH]; [reflexivity|]. cbn.
  destruct (String.eqb (fname a) n); [reflexivity|exact IH].
Qed.

Lemma find_frep_erase s : find frep (erase_presence s) = option_map plain (find frep s).
Proof.
  unfold erase_presence. induction s as [|a s IH]; [reflexivity|]. cbn. destruct (frep a); [reflexivity|exact IH].
Qed.

Lemma presence_irrelevant req resp :
  paged_result_field (erase_presence req) (erase_presence resp) = option_map plain (paged_result_field req resp).
Proof.
  unfold paged_result_field, has_page_size, has_max_results, first_repeated.
  rewrite !lookup_erase, find_frep_erase.
  destruct (lookup "page_token" req) as [t|]; [|reflexivity]. cbn [option_map].
  change (token_ok (plain t)) with (token_ok t). destruct (negb (token_ok t)); [reflexivity|].
  destruct (lookup "next_page_token" resp) as [n|]; [|reflexivity]. cbn [option_map].
  change (token_ok (plain n)) with (token_ok n). destruct (negb (token_ok n)); [reflexivity|].
  assert (H1 : match option_map plain (lookup "page_size" req) with Some f => negb (frep f) && is_int f | None => false end
               = match lookup "page_size" req with Some f => negb (frep f) && is_int f | None => false end)
    by (destruct (lookup "page_size" req); reflexivity).
  assert (H2 : match option_map plain (lookup "max_results" req) with Some f => negb (frep f) && size_type_ok f | None => false end
               = match lookup "max_results" req with Some f => negb (frep f) && size_type_ok f | None => false end)
    by (destruct (lookup "max_results" req); reflexivity).
  rewrite H1, H2. destruct (_ || _); reflexivity.
Qed.

(* ---- the former gaps between the code and the sentence (DESIGN section 9 no. 18, plus the label), closed by
   /repo commit 40fb15d: the three shapes are now decided as the sentence says ---- *)
Definition book : field := mkField "books" (TMsg "google.example.library.v1" "Book") true false PPlain.
Definition str (n : string) : field := mkField n TStr false false PPlain.
Definition resp_std : shape := [book; str "next_page_token"].
Definition req_wrapper_page_size : shape :=
  [str "parent"; mkField "page_size" (TMsg "google.protobuf" "Int32Value") false false PPlain; str "page_token"].
Definition req_shadowed_page_size : shape :=
  [str "max_results"; mkField "page_size" TInt false false PPlain; str "page_token"].
Definition req_repeated_token : shape :=
  [mkField "page_size" TInt false false PPlain; mkField "page_token" TStr true false PPlain].
Example former_gaps_closed :
  paged_result_field req_wrapper_page_size resp_std = None /\
  option_map fname (paged_result_field req_shadowed_page_size resp_std) = Some "books" /\
  paged_result_field req_repeated_token resp_std = None.
Proof. repeat split. Qed.

Definition req_conventional_plain : shape :=
  [mkField "parent" TStr false false PPlain; mkField "page_size" TInt false false PPlain; mkField "page_token" TStr false false PPlain].
(* the Compute shape, and tokens in a real oneof: paginated, item field unchanged *)
Definition req_optional_tokens : shape :=
  [str "parent"; mkField "page_size" TInt false false POptional; mkField "page_token" TStr false false POptional].
Definition resp_optional_token : shape := [book; mkField "next_page_token" TStr false false POptional].
Definition req_oneof_token : shape :=
  [str "parent"; mkField "page_size" TInt false false PPlain; mkField "page_token" TStr false false (POneof "position");
   mkField "cursor" TStr false false (POneof "position")].
Example optional_and_oneof_tokens_paged :
  option_map fname (paged_result_field req_optional_tokens resp_optional_token) = Some "books" /\
  option_map fname (paged_result_field req_oneof_token resp_std) = Some "books" /\
  option_map fname (paged_result_field req_conventional_plain [book; mkField "next_page_token" TStr false false (POneof "next")]) = Some "books".
Proof. repeat split. Qed.


(* non-vacuity: a conventional List method whose response declares its repeated fields out of field-number order;
   unique names, paged by the sentence, item field = the first repeated field in declaration order *)
Definition req_conventional : shape :=
  [str "parent"; mkField "page_size" TInt false false PPlain; str "page_token"; str "filter"].
Definition resp_two_repeated : shape :=
  [mkField "total_size" TInt false false PPlain; mkField "labels" (TMsg "p" "LabelsEntry") true true PPlain; book;
   str "next_page_token"; mkField "unreachable" TStr true false PPlain].
Example conventional_paged :
  uniq req_conventional /\ uniq resp_two_repeated /\
  spec_paged req_conventional resp_two_repeated /\
  option_map fname (paged_result_field req_conventional resp_two_repeated) = Some "labels".
Proof.
  split; [|split; [|split]].
  - unfold uniq. cbn. repeat constructor; cbn; intuition discriminate.
  - unfold uniq. cbn. repeat constructor; cbn; intuition discriminate.
  - apply spec_pagedb_iff. vm_compute. reflexivity.
  - vm_compute. reflexivity.
Qed.

(* ================================================================== (ii) the pager loop *)

Lemma is_empty_iff s : is_empty s = true <-> s = "".
Proof. destruct s; cbn; split; intros H; congruence. Qed.
Lemma is_empty_false_iff s : is_empty s = false <-> s <> "".
Proof. destruct s; cbn; split; intros H; congruence. Qed.

Section PagerProofs.
  Variables (item attrs fields opts : Type).
  Notation page := (page item attrs).
  Notation call := (call fields opts).
  Notation pstate := (pstate item attrs fields opts).

  (* the follow-up call made after page [p], for a pager constructed from call [c] *)
  Definition threaded (c : call) (p : page) : call := mkCall (p_token p) (c_fields c) (c_opts c).

  Lemma run_sound : forall (script : list page) (st : pstate) sts,
    run st script = Some sts ->
    exists init last rest,
      splits_at_first_empty (st_resp st :: script) init last rest /\
      yielded_pages sts = init ++ [last] /\
      map st_call sts = st_call st :: map (threaded (st_call st)) init.
  Proof.
    induction script as [|answer script IH]; intros st sts H; cbn [run] in H.
    - destruct (is_empty (p_token (st_resp st))) eqn:E; [|discriminate].
      inversion H; subst. exists [], (st_resp st), []. repeat split; auto. now apply is_empty_iff.
    - destruct (is_empty (p_token (st_resp st))) eqn:E.
      + inversion H; subst. exists [], (st_resp st), (answer :: script). repeat split; auto. now apply is_empty_iff.
      + destruct (run (step answer st) script) as [sts'|] eqn:R; [|discriminate].
        inversion H; subst. destruct (IH _ _ R) as (init & last & rest & (Hs & Hall & Hl) & Hy & Hc).
        cbn [step st_resp st_call] in *.
        exists (st_resp st :: init), last, rest. repeat split.
        * cbn. now rewrite Hs.
        * constructor; [now apply is_empty_false_iff|exact Hall].
        * exact Hl.
        * unfold yielded_pages in *. cbn [map app]. now rewrite Hy.
        * cbn [map]. rewrite Hc. reflexivity.
  Qed.

  Lemma run_complete : forall (init : list page) (st : pstate) script last rest,
    splits_at_first_empty (st_resp st :: script) init last rest ->
    exists sts, run st script = Some sts.
  Proof.
    induction init as [|p init IH]; intros st script last rest (Hs & Hall & Hl).
    - cbn in Hs. inversion Hs; subst. exists [st].
      destruct rest; cbn [run]; rewrite (proj2 (is_empty_iff _) Hl); reflexivity.
    - cbn in Hs. inversion Hs as [[Hp Hscript]]. inversion Hall as [|x l Hne Hall']; subst.
      destruct init as [|q init].
      + cbn in *. destruct (IH (step last st) rest last rest) as (sts & R).
        { repeat split; auto. }
        exists (st :: sts). cbn [run]. rewrite (proj2 (is_empty_false_iff _) Hne). now rewrite R.
      + cbn in *. destruct (IH (step q st) (init ++ last :: rest) last rest) as (sts & R).
        { repeat split; auto. }
        exists (st :: sts). cbn [run]. rewrite (proj2 (is_empty_false_iff _) Hne). now rewrite R.
  Qed.

  Lemma run_none_iff : forall (script : list page) (st : pstate),
    run st script = None <-> Forall nonempty_token (st_resp st :: script).
  Proof.
    induction script as [|answer script IH]; intros st; cbn [run].
    - destruct (is_empty (p_token (st_resp st))) eqn:E.
      + split; [discriminate|]. intros H. inversion H; subst. apply is_empty_iff in E. contradiction.
      + split; [|reflexivity]. intros _. constructor; [now apply is_empty_false_iff|constructor].
    - destruct (is_empty (p_token (st_resp st))) eqn:E.
      + split; [discriminate|]. intros H. inversion H; subst. apply is_empty_iff in E. contradiction.
      + specialize (IH (step answer st)). cbn [step st_resp] in IH.
        destruct (run (step answer st) script) as [sts|].
        * split; [discriminate|]. intros H. inversion H; subst. apply IH in H3. discriminate.
        * split; [|reflexivity]. intros _. constructor; [now apply is_empty_false_iff|]. now apply IH.
  Qed.

  Lemma split_unique : forall (h i1 : list page) l1 r1 i2 l2 r2,
    splits_at_first_empty h i1 l1 r1 -> splits_at_first_empty h i2 l2 r2 -> i1 = i2 /\ l1 = l2 /\ r1 = r2.
  Proof.
    intros h i1. revert h. induction i1 as [|p i1 IH]; intros h l1 r1 i2 l2 r2 (H1 & A1 & E1) (H2 & A2 & E2).
    - destruct i2 as [|q i2].
      + cbn in *. subst h. inversion H2. auto.
      + cbn in *. subst h. inversion H2; subst. inversion A2; subst. contradiction.
    - destruct i2 as [|q i2].
      + cbn in *. subst h. inversion H2; subst. inversion A1; subst. contradiction.
      + cbn in *. subst h. inversion H2; subst. inversion A1; inversion A2; subst.
        destruct (IH (i1 ++ l1 :: r1) l1 r1 i2 l2 r2) as (-> & -> & ->); repeat split; auto.
  Qed.

  Lemma first_empty_exists : forall h : list page,
    Exists (fun p => p_token p = "") h -> exists init last rest, splits_at_first_empty h init last rest.
  Proof.
    induction h as [|p h IH]; intros H; [inversion H|].
    destruct (is_empty (p_token p)) eqn:E.
    - exists [], p, h. repeat split; auto. now apply is_empty_iff.
    - inversion H as [x l Hp|x l Hex]; subst.
      + apply is_empty_false_iff in E. contradiction.
      + destruct (IH Hex) as (init & last & rest & Hs & Hall & Hl).
        exists (p :: init), last, rest. repeat split; auto.
        * cbn. now rewrite Hs.
        * constructor; [now apply is_empty_false_iff|exact Hall].
  Qed.

  Lemma last_opt_app {A} (l : list A) x : last_opt (l ++ [x]) = Some x.
  Proof. induction l as [|a l IH]; [reflexivity|]. cbn [app]. destruct (l ++ [x]) eqn:E; [destruct l; discriminate|]. exact IH. Qed.

  Lemma last_opt_map {A B} (f : A -> B) l : last_opt (map f l) = option_map f (last_opt l).
  Proof.
    induction l as [|a l IH]; [reflexivity|]. destruct l as [|b l]; [reflexivity|].
    cbn [map] in *. exact IH.
  Qed.

  Lemma items_async_sync (ps : list page) : items_async ps = items_sync ps.
  Proof.
    unfold items_sync. induction ps as [|p ps IH]; [reflexivity|]. cbn [items_async map concat]. rewrite IH.
    generalize (concat (map p_items ps)). induction (p_items p) as [|x l IHl]; intros r; [reflexivity|].
    cbn. now rewrite IHl.
  Qed.

  (* sync and asyncio pagers agree *)
  Lemma sync_async_agree (c : call) (p0 : page) (script : list page) : iterate true c p0 script = iterate false c p0 script.
  Proof. unfold iterate. destruct (run _ script); [|reflexivity]. now rewrite items_async_sync. Qed.

  (* the whole sentence about iteration, for every history and every request *)
  Lemma pager_behaviour (b : bool) (c : call) (p0 : page) (script : list page) o :
    iterate b c p0 script = Some o ->
    exists init last rest,
      splits_at_first_empty (p0 :: script) init last rest /\
      o_pages o = init ++ [last] /\
      o_items o = concat (map p_items (init ++ [last])) /\
      o_calls o = c :: map (threaded c) init /\
      o_final o = Some last.
  Proof.
    assert (Hb : iterate b c p0 script = iterate false c p0 script) by (destruct b; [apply sync_async_agree|reflexivity]).
    rewrite Hb. unfold iterate. destruct (run (mkState c p0) script) as [sts|] eqn:R; [|discriminate].
    intros H. inversion H; subst; clear H. cbn [o_pages o_items o_calls o_final].
    destruct (run_sound _ _ _ R) as (init & last & rest & Hs & Hy & Hc). cbn [st_resp st_call] in *.
    exists init, last, rest.
    split; [exact Hs|]. split; [exact Hy|]. split; [|split].
    - unfold items_sync. now rewrite Hy.
    - unfold followup_calls. destruct sts as [|s0 sts]; [destruct init; discriminate|].
      cbn [map] in Hc. inversion Hc. reflexivity.
    - rewrite <- last_opt_map. change (map pager_attrs sts) with (yielded_pages sts). rewrite Hy. apply last_opt_app.
  Qed.

  (* conversely: whenever the history contains a page with an empty token the iteration is defined *)
  Lemma pager_terminates (b : bool) (c : call) (p0 : page) (script : list page) :
    Exists (fun p => p_token p = "") (p0 :: script) -> exists o, iterate b c p0 script = Some o.
  Proof.
    intros H. destruct (first_empty_exists _ H) as (init & last & rest & Hs).
    destruct (run_complete init (mkState c p0) script last rest Hs) as (sts & R).
    unfold iterate. rewrite R. eexists. reflexivity.
  Qed.

  Lemma pager_undefined_iff (b : bool) (c : call) (p0 : page) (script : list page) :
    iterate b c p0 script = None <-> Forall nonempty_token (p0 :: script).
  Proof.
    rewrite <- (run_none_iff script (mkState c p0)). unfold iterate.
    destruct (run (mkState c p0) script); split; intros H; congruence.
  Qed.

  (* named consequences *)
  Lemma pager_items (b : bool) (c : call) (p0 : page) (script : list page) o init last rest :
    iterate b c p0 script = Some o -> splits_at_first_empty (p0 :: script) init last rest ->
    o_items o = concat (map p_items (init ++ [last])).
  Proof.
    intros H Hs. destruct (pager_behaviour b c p0 script o H) as (i & l & r & Hs' & _ & Hi & _).
    destruct (split_unique _ _ _ _ _ _ _ Hs Hs') as (-> & -> & ->). exact Hi.
  Qed.

  Lemma requests_threaded (b : bool) (c : call) (p0 : page) (script : list page) o init last rest :
    iterate b c p0 script = Some o -> splits_at_first_empty (p0 :: script) init last rest ->
    o_calls o = c :: map (fun p => mkCall (p_token p) (c_fields c) (c_opts c)) init.
  Proof.
    intros H Hs. destruct (pager_behaviour b c p0 script o H) as (i & l & r & Hs' & _ & _ & Hc & _).
    destruct (split_unique _ _ _ _ _ _ _ Hs Hs') as (-> & -> & ->). exact Hc.
  Qed.

  Lemma stops_at_first_empty (b : bool) (c : call) (p0 : page) (script : list page) o init last rest :
    iterate b c p0 script = Some o -> splits_at_first_empty (p0 :: script) init last rest ->
    o_pages o = init ++ [last] /\ length (o_calls o) = S (length init).
  Proof.
    intros H Hs. destruct (pager_behaviour b c p0 script o H) as (i & l & r & Hs' & Hp & _ & Hc & _).
    destruct (split_unique _ _ _ _ _ _ _ Hs Hs') as (-> & -> & ->). split; [exact Hp|].
    rewrite Hc. cbn. now rewrite map_length.
  Qed.

  Lemma attrs_of_last_page (b : bool) (c : call) (p0 : page) (script : list page) o init last rest :
    iterate b c p0 script = Some o -> splits_at_first_empty (p0 :: script) init last rest ->
    o_final o = Some last.
  Proof.
    intros H Hs. destruct (pager_behaviour b c p0 script o H) as (i & l & r & Hs' & _ & _ & _ & Hf).
    destruct (split_unique _ _ _ _ _ _ _ Hs Hs') as (-> & -> & ->). exact Hf.
  Qed.

  (* breaking out while holding page number b <= length init: exactly b follow-up calls have been made, each threaded
     from the page before it, and attribute lookup reaches page b *)
  Lemma early_break_behaviour (bb : bool) (c : call) (p0 : page) (script : list page) o init last rest b :
    iterate bb c p0 script = Some o -> splits_at_first_empty (p0 :: script) init last rest ->
    b <= length init ->
    exists o', stop_after b o = Some o' /\
      o_pages o' = firstn (S b) (init ++ [last]) /\
      o_calls o' = c :: map (fun p => mkCall (p_token p) (c_fields c) (c_opts c)) (firstn b init) /\
      o_final o' = nth_error (init ++ [last]) b /\
      o_items o' = concat (map p_items (firstn (S b) (init ++ [last]))).
  Proof.
    intros H Hs Hb. destruct (pager_behaviour bb c p0 script o H) as (i & l & r & Hs' & Hp & _ & Hc & _).
    destruct (split_unique _ _ _ _ _ _ _ Hs Hs') as (-> & -> & ->).
    unfold stop_after. rewrite Hp.
    destruct (nth_error (i ++ [l]) b) as [pb|] eqn:En.
    - eexists. split; [reflexivity|]. cbn [o_pages o_calls o_final o_items]. repeat split.
      rewrite Hc. cbn [firstn]. f_equal. fold (threaded c). now rewrite firstn_map.
    - exfalso. apply nth_error_None in En. rewrite app_length in En. cbn in En. lia.
  Qed.

  (* every call of a listing carries the fields and the options of the request the caller passed *)
  Lemma calls_keep_original_request (b : bool) (c : call) (p0 : page) (script : list page) o :
    iterate b c p0 script = Some o ->
    hd_error (o_calls o) = Some c /\
    Forall (fun x => c_fields x = c_fields c /\ c_opts x = c_opts c) (o_calls o).
  Proof.
    intros H. destruct (pager_behaviour b c p0 script o H) as (i & l & r & _ & _ & _ & Hc & _). rewrite Hc.
    split; [reflexivity|]. constructor; [auto|]. apply Forall_forall. intros x Hx. apply in_map_iff in Hx.
    destruct Hx as (p & <- & _). cbn. auto.
  Qed.

  (* the caller's request is not an output of iteration: after draining a pager the caller holds what it passed, so a
     second listing made with it starts again from the caller's own page_token and fields *)
  Lemma caller_request_unchanged (b : bool) (r : call) (p0 : page) (script : list page) (q0 : page) (script2 : list page) o2 :
    snd (list_and_drain b r p0 script) = r /\
    (fst (list_and_drain b (snd (list_and_drain b r p0 script)) q0 script2) = Some o2 ->
     hd_error (o_calls o2) = Some r /\ Forall (fun x => c_fields x = c_fields r /\ c_opts x = c_opts r) (o_calls o2)).
  Proof. split; [reflexivity|]. cbn. apply calls_keep_original_request. Qed.

  (* while iterating, attribute lookup always reaches the page that was yielded last *)
  Lemma attrs_at_each_yield (st : pstate) script sts :
    run st script = Some sts -> map pager_attrs sts = yielded_pages sts.
  Proof. reflexivity. Qed.
End PagerProofs.

(* non-vacuity: three pages, an empty intermediate page, pages after the first empty token are never fetched *)
Definition ex_p (items : list string) (tok : string) : page string string := mkPage items tok "attrs".
Definition ex_script : list (page string string) :=
  [ex_p [] "t2"; ex_p ["c"] ""; ex_p ["never"] "t9"; ex_p [] ""].
Example pager_example :
  splits_at_first_empty (ex_p ["a"; "b"] "t1" :: ex_script) [ex_p ["a"; "b"] "t1"; ex_p [] "t2"] (ex_p ["c"] "") [ex_p ["never"] "t9"; ex_p [] ""]
  /\ option_map o_items (iterate true (mkCall "" "parent=p" "timeout=3") (ex_p ["a"; "b"] "t1") ex_script) = Some ["a"; "b"; "c"]
  /\ option_map o_calls (iterate false (mkCall "" "parent=p" "timeout=3") (ex_p ["a"; "b"] "t1") ex_script)
     = Some [mkCall "" "parent=p" "timeout=3"; mkCall "t1" "parent=p" "timeout=3"; mkCall "t2" "parent=p" "timeout=3"].
Proof.
  repeat split.
  - repeat constructor; discriminate.
Qed.

Example early_break_example :
  1 <= length [ex_p ["a"; "b"] "t1"; ex_p [] "t2"] /\
  option_map (fun o => (o_calls o, o_final o))
    (match iterate true (mkCall "" "parent=p" "timeout=3") (ex_p ["a"; "b"] "t1") ex_script with
     | Some o => stop_after 1 o | None => None end)
  = Some ([mkCall "" "parent=p" "timeout=3"; mkCall "t1" "parent=p" "timeout=3"], Some (ex_p [] "t2")).
Proof. split; [cbn; lia|reflexivity]. Qed.

(* ================================================================== (iii) emitted classes and wrapping *)

(* exactly the paged methods get pager classes and are wrapped, sync and asyncio alike *)
Lemma wrap_iff_paged (b : bool) (m : rpc) :
  (exists w, client_wrap b m = Some w) <-> (exists f, paged_result_field (r_req m) (r_resp m) = Some f).
Proof.
  unfold client_wrap. destruct (paged_result_field (r_req m) (r_resp m)) as [f|].
  - split; intros _; eexists; reflexivity.
  - split; intros (x & H); discriminate.
Qed.

(* ... which, with paged_iff_spec, says when a client method returns a pager in terms of the two shapes *)
Lemma wrap_iff_spec_paged (b : bool) (m : rpc) :
  uniq (r_req m) -> uniq (r_resp m) ->
  ((exists w, client_wrap b m = Some w) <-> spec_paged (r_req m) (r_resp m)).
Proof. intros Hq Hr. rewrite wrap_iff_paged. now apply paged_iff_spec. Qed.

Lemma pagers_module_classes (with_async : bool) (ms : list rpc) :
  length (pagers_module with_async ms) =
  (if with_async then 2 else 1) * length (filter (fun m => is_paged (r_req m) (r_resp m)) ms).
Proof.
  induction ms as [|m ms IH]; [now destruct with_async|].
  cbn [pagers_module filter]. unfold is_paged at 1.
  destruct (paged_result_field (r_req m) (r_resp m)); [|exact IH].
  destruct with_async; cbn [length app] in *; rewrite IH; lia.
Qed.
