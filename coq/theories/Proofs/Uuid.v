(* Proofs/Uuid.v — C18: lemmas about Model/Uuid.v *)
From GV Require Import Base.Str Model.Uuid.
Open Scope list_scope.

(* ================================================================== generic *)
Lemma mem_str_iff x l : mem_str x l = true <-> In x l.
Proof.
  unfold mem_str. rewrite existsb_exists. split.
  - intros (y & Hin & E). apply String.eqb_eq in E. now subst.
  - intros H. exists x. split; [exact H|apply String.eqb_refl].
Qed.

Lemma assoc_upsert_same {A} k (v : A) l : assoc k (upsert k v l) = Some v.
Proof.
  induction l as [|[k' v'] l IH]; cbn.
  - now rewrite String.eqb_refl.
  - destruct (String.eqb k k') eqn:E; cbn; rewrite ?String.eqb_refl; [reflexivity|]. rewrite E. exact IH.
Qed.

Lemma assoc_upsert_other {A} k k' (v : A) l : k <> k' -> assoc k (upsert k' v l) = assoc k l.
Proof.
  intros Hne. induction l as [|[k2 v2] l IH]; cbn.
  - destruct (String.eqb k k') eqn:E; [apply String.eqb_eq in E; contradiction|reflexivity].
  - destruct (String.eqb k' k2) eqn:E2; cbn.
    + apply String.eqb_eq in E2. subst k2.
      destruct (String.eqb k k') eqn:E; [apply String.eqb_eq in E; contradiction|reflexivity].
    + destruct (String.eqb k k2); [reflexivity|exact IH].
Qed.

Lemma upsert_nonempty {A} k (v : A) l : upsert k v l <> [].
Proof. destruct l as [|[k' v'] l]; cbn; [discriminate|]. destruct (String.eqb k k'); discriminate. Qed.

Lemma find_by_name_sound {A} (nm : A -> string) n l x :
  find (fun y => String.eqb (nm y) n) l = Some x -> In x l /\ nm x = n.
Proof. intros H. apply find_some in H. destruct H as [Hin E]. apply String.eqb_eq in E. auto. Qed.

Lemma uniq_by_name {A} (nm : A -> string) l x y :
  NoDup (map nm l) -> In x l -> In y l -> nm x = nm y -> x = y.
Proof.
  induction l as [|a l IH]; intros Hu Hx Hy E; [inversion Hx|].
  cbn [map] in Hu. inversion Hu as [|h t Hnotin Hnd]; subst.
  destruct Hx as [Hx|Hx], Hy as [Hy|Hy]; subst.
  - reflexivity.
  - exfalso. apply Hnotin. rewrite E. now apply in_map.
  - exfalso. apply Hnotin. rewrite <- E. now apply in_map.
  - now apply IH.
Qed.

Lemma find_by_name_complete {A} (nm : A -> string) n l x :
  NoDup (map nm l) -> In x l -> nm x = n -> find (fun y => String.eqb (nm y) n) l = Some x.
Proof.
  intros Hu Hin Hn. destruct (find _ l) as [y|] eqn:E.
  - apply find_by_name_sound in E. destruct E as [Hy Hyn]. f_equal. apply (uniq_by_name nm l); auto. congruence.
  - exfalso. pose proof (find_none _ _ E x Hin) as H. cbn in H. rewrite Hn, String.eqb_refl in H. discriminate.
Qed.

Lemma find_by_name_none {A} (nm : A -> string) n l :
  find (fun y => String.eqb (nm y) n) l = None <-> forall x, In x l -> nm x <> n.
Proof.
  split.
  - intros E x Hin Hn. pose proof (find_none _ _ E x Hin) as H. cbn in H. rewrite Hn, String.eqb_refl in H. discriminate.
  - intros H. destruct (find _ l) as [y|] eqn:E; [|reflexivity].
    apply find_by_name_sound in E. destruct E as [Hin Hn]. exfalso. exact (H y Hin Hn).
Qed.

Lemma flat_map_nil_iff {A B} (f : A -> list B) l : flat_map f l = [] <-> Forall (fun x => f x = []) l.
Proof.
  induction l as [|a l IH]; cbn; [split; auto|].
  split.
  - intros H. apply app_eq_nil in H. destruct H as [Ha Hl]. constructor; [exact Ha|now apply IH].
  - intros H. inversion H; subst. rewrite H2. cbn. now apply IH.
Qed.

(* ================================================================== (i) validation *)

Lemma field_errors_nil_iff fs name :
  fields_uniq fs -> (field_errors fs name = [] <-> spec_valid_field fs name).
Proof.
  intros Hu. unfold field_errors, spec_valid_field, find_field.
  destruct (find _ fs) as [f|] eqn:E.
  - pose proof (find_by_name_sound rf_name name fs f E) as [Hin Hn]. split.
    + intros H. exists f. destruct (rf_string f), (rf_repeated f), (rf_required f), (rf_uuid4 f); cbn in H; try discriminate.
      repeat split; auto.
    + intros (g & Hg & Hgn & Hs & Hrep & Hr & Hu4).
      assert (g = f) by (apply (uniq_by_name rf_name fs); auto; congruence). subst g.
      rewrite Hs, Hrep, Hr, Hu4. reflexivity.
  - split; [discriminate|]. intros (g & Hg & Hgn & _).
    exfalso. exact (proj1 (find_by_name_none rf_name name fs) E g Hg Hgn).
Qed.

Lemma check_one_ok_iff methods seen s :
  methods_wf methods ->
  (check_one methods seen s = StepOk <-> ~ In (s_selector s) seen /\ valid_setting spec_valid_field methods s).
Proof.
  intros (Hnd & Hfu). unfold check_one, valid_setting, find_method.
  destruct (mem_str (s_selector s) seen) eqn:Em.
  { apply mem_str_iff in Em. split; [discriminate|]. intros (H & _). contradiction. }
  assert (Hns : ~ In (s_selector s) seen) by (intros H; apply mem_str_iff in H; congruence).
  destruct (find _ methods) as [m|] eqn:Ef.
  2:{ split; [discriminate|]. intros (_ & m & Hin & Hsel & _).
      exfalso. exact (proj1 (find_by_name_none m_selector _ methods) Ef m Hin Hsel). }
  pose proof (find_by_name_sound m_selector _ methods m Ef) as [Hin Hsel].
  assert (Honly : forall m', In m' methods -> m_selector m' = s_selector s -> m' = m).
  { intros m' Hin' Hsel'. apply (uniq_by_name m_selector methods); auto. congruence. }
  destruct (s_fields s) as [|n0 ns] eqn:Efs.
  { split; [|reflexivity]. intros _. split; [exact Hns|]. exists m. split; [exact Hin|]. split; [exact Hsel|]. intros Hc. contradiction. }
  destruct (m_cstream m) eqn:Ec; cbn [orb].
  { split; [discriminate|]. intros (_ & m' & Hin' & Hsel' & H). rewrite (Honly m' Hin' Hsel') in H.
    specialize (H ltac:(discriminate)). destruct H as (H1 & _). congruence. }
  destruct (m_sstream m) eqn:Es.
  { split; [discriminate|]. intros (_ & m' & Hin' & Hsel' & H). rewrite (Honly m' Hin' Hsel') in H.
    specialize (H ltac:(discriminate)). destruct H as (_ & H1 & _). congruence. }
  destruct (m_input m) as [fs|] eqn:Ei.
  2:{ split; [discriminate|]. intros (_ & m' & Hin' & Hsel' & H). rewrite (Honly m' Hin' Hsel') in H.
      specialize (H ltac:(discriminate)). destruct H as (_ & _ & fs & H1 & _). congruence. }
  pose proof (Hfu m fs Hin Ei) as Hfs.
  destruct (flat_map (field_errors fs) (n0 :: ns)) as [|e es] eqn:Eflat.
  - split; [|reflexivity]. intros _. split; [exact Hns|]. exists m. split; [exact Hin|]. split; [exact Hsel|].
    intros _. split; [exact Ec|]. split; [exact Es|].
    exists fs. split; [exact Ei|]. apply flat_map_nil_iff in Eflat.
    eapply Forall_impl; [|exact Eflat]. intros a Ha. now apply field_errors_nil_iff.
  - split; [discriminate|]. intros (_ & m' & Hin' & Hsel' & H). rewrite (Honly m' Hin' Hsel') in H.
    specialize (H ltac:(discriminate)). destruct H as (_ & _ & fs' & Hfs' & Hall).
    rewrite Ei in Hfs'. inversion Hfs'; subst fs'.
    assert (flat_map (field_errors fs) (n0 :: ns) = []).
    { apply flat_map_nil_iff. eapply Forall_impl; [|exact Hall]. intros a Ha. now apply field_errors_nil_iff. }
    congruence.
Qed.

Fixpoint all_ok (methods : list mdesc) (seen : list string) (settings : list setting) : Prop :=
  match settings with
  | [] => True
  | s :: rest => check_one methods seen s = StepOk /\ all_ok methods (s_selector s :: seen) rest
  end.

Lemma aux_grows methods : forall settings seen errs r,
  enforce_aux methods seen errs settings = Some r -> errs <> [] -> r <> [].
Proof.
  induction settings as [|s rest IH]; intros seen errs r H Hne; cbn in H.
  - inversion H; subst. exact Hne.
  - destruct (check_one methods seen s); try discriminate.
    + eapply IH; eauto.
    + eapply IH; eauto. apply upsert_nonempty.
Qed.

Lemma aux_nil_iff methods : forall settings seen errs,
  enforce_aux methods seen errs settings = Some [] <-> errs = [] /\ all_ok methods seen settings.
Proof.
  induction settings as [|s rest IH]; intros seen errs; cbn.
  - split; [intros H; inversion H; auto|intros (-> & _); reflexivity].
  - destruct (check_one methods seen s) eqn:E.
    + rewrite IH. tauto.
    + split.
      * intros H. exfalso. eapply aux_grows; eauto. apply upsert_nonempty.
      * intros (_ & H & _). discriminate.
    + split; [discriminate|]. intros (_ & H & _). discriminate.
Qed.

Lemma all_ok_iff methods : methods_wf methods -> forall settings seen,
  all_ok methods seen settings <->
  (NoDup (map s_selector settings) /\ (forall s, In s settings -> ~ In (s_selector s) seen) /\
   Forall (valid_setting spec_valid_field methods) settings).
Proof.
  intros Hwf. induction settings as [|s rest IH]; intros seen; cbn [all_ok map].
  - split; [intros _; repeat split; [constructor|intros s H; inversion H|constructor]|auto].
  - rewrite (check_one_ok_iff methods seen s Hwf), IH. split.
    + intros ((Hns & Hv) & Hnd & Hseen & Hall). repeat split.
      * constructor; [|exact Hnd]. intros Hin. apply in_map_iff in Hin. destruct Hin as (s' & Hs' & Hin').
        apply (Hseen s' Hin'). left. now symmetry.
      * intros s' [<-|Hin'] Hc; [contradiction|]. apply (Hseen s' Hin'). now right.
      * constructor; assumption.
    + intros (Hnd & Hseen & Hall). inversion Hnd as [|x l Hnotin Hnd']; subst. inversion Hall as [|x l Hv Hall']; subst.
      repeat split; auto.
      * apply Hseen. now left.
      * intros s' Hin' [Hc|Hc].
        -- apply Hnotin. rewrite Hc. now apply in_map.
        -- apply (Hseen s'); [now right|exact Hc].
Qed.

(* the property's sentence, for all method tables and settings lists: accepted exactly when there is no duplicate
   selector and every entry names an existing method and, when it lists fields, a unary one whose listed fields are
   top-level, singular strings, not REQUIRED and annotated UUID4 *)
Lemma validation_iff_spec methods settings :
  methods_wf methods -> (enforce methods settings = Accepted <-> spec_valid methods settings).
Proof.
  intros Hwf. unfold enforce, spec_valid, valid_settings.
  assert (H : enforce_aux methods [] [] settings = Some [] <-> all_ok methods [] settings).
  { rewrite aux_nil_iff. tauto. }
  rewrite (all_ok_iff methods Hwf settings []) in H.
  destruct (enforce_aux methods [] [] settings) as [[|e es]|] eqn:E.
  - split; [|reflexivity]. intros _. destruct (proj1 H eq_refl) as (Hnd & _ & Hall). auto.
  - split; [discriminate|]. intros (Hnd & Hall). assert (Some (e :: es) = Some []) by (apply H; repeat split; auto). discriminate.
  - split; [discriminate|]. intros (Hnd & Hall). assert (@None (list (string * serr)) = Some []) by (apply H; repeat split; auto). discriminate.
Qed.

(* ---- rejections ---- *)
Lemma violates_not_ok methods seen s : methods_wf methods -> violates methods s -> check_one methods seen s <> StepOk.
Proof.
  intros Hwf Hv Hok. apply (check_one_ok_iff methods seen s Hwf) in Hok. destruct Hok as (_ & m & Hin & Hsel & H).
  destruct Hwf as (Hnd & _).
  destruct Hv as [Hv|(m' & Hin' & Hsel' & Hne & Hv)]; [exact (Hv m Hin Hsel)|].
  assert (m' = m) by (apply (uniq_by_name m_selector methods); auto; congruence). subst m'.
  destruct (H Hne) as (Hc & Hs & fs & Hfs & Hall).
  destruct Hv as [Hv|[Hv|(fs' & name & Hfs' & Hname & Hbad)]]; try congruence.
  rewrite Hfs in Hfs'. inversion Hfs'; subst fs'.
  rewrite Forall_forall in Hall. exact (Hbad (Hall name Hname)).
Qed.

Lemma aux_keeps_key methods : forall settings seen errs r k e,
  enforce_aux methods seen errs settings = Some r -> assoc k errs = Some e -> exists e', assoc k r = Some e'.
Proof.
  induction settings as [|s rest IH]; intros seen errs r k e H Hk; cbn in H.
  - inversion H; subst. eauto.
  - destruct (check_one methods seen s) as [|e1|]; try discriminate.
    + eapply IH; eauto.
    + destruct (String.eqb k (s_selector s)) eqn:E.
      * apply String.eqb_eq in E. subst k. eapply IH; [exact H|apply assoc_upsert_same].
      * eapply IH; [exact H|]. rewrite assoc_upsert_other; [exact Hk|]. intros Hc. subst k. rewrite String.eqb_refl in E. discriminate.
Qed.

Lemma aux_reports_violation methods : methods_wf methods -> forall settings seen errs r s,
  enforce_aux methods seen errs settings = Some r -> In s settings -> violates methods s ->
  exists e, assoc (s_selector s) r = Some e.
Proof.
  intros Hwf. induction settings as [|s0 rest IH]; intros seen errs r s H Hin Hv; [inversion Hin|].
  cbn in H. destruct Hin as [->|Hin].
  - pose proof (violates_not_ok methods seen s Hwf Hv) as Hnok.
    destruct (check_one methods seen s) as [|e1|]; try discriminate; [contradiction|].
    eapply aux_keeps_key; [exact H|apply assoc_upsert_same].
  - destruct (check_one methods seen s0); try discriminate; eapply IH; eauto.
Qed.

Lemma enforce_cases methods settings :
  (enforce methods settings = Crashed /\ enforce_aux methods [] [] settings = None) \/
  (enforce methods settings = Accepted /\ enforce_aux methods [] [] settings = Some []) \/
  (exists r, r <> [] /\ enforce methods settings = Rejected r /\ enforce_aux methods [] [] settings = Some r).
Proof.
  unfold enforce. destruct (enforce_aux methods [] [] settings) as [[|e es]|]; auto.
  right. right. exists (e :: es). repeat split; auto. discriminate.
Qed.

(* an entry with one violation is always rejected, and the report names its selector *)
Lemma each_single_violation_rejected methods settings s :
  methods_wf methods -> In s settings -> violates methods s ->
  enforce methods settings = Crashed \/
  exists errs e, enforce methods settings = Rejected errs /\ assoc (s_selector s) errs = Some e.
Proof.
  intros Hwf Hin Hv. destruct (enforce_cases methods settings) as [(Hc & _)|[(Ha & Haux)|(r & Hne & Hr & Haux)]].
  - now left.
  - destruct (aux_reports_violation methods Hwf settings [] [] [] s Haux Hin Hv) as (e & He). discriminate.
  - right. destruct (aux_reports_violation methods Hwf settings [] [] r s Haux Hin Hv) as (e & He). exists r, e. auto.
Qed.

(* ---- selective generation: the table is a sub-table, so nothing that names no method of the proto gets through ---- *)
Lemma NoDup_map_filter {A} (f : A -> string) (p : A -> bool) l : NoDup (map f l) -> NoDup (map f (filter p l)).
Proof.
  induction l as [|a l IH]; intros H; cbn; [constructor|]. cbn in H. inversion H as [|x t Hnotin Hnd]; subst.
  destruct (p a); [|now apply IH]. cbn. constructor; [|now apply IH].
  intros Hin. apply Hnotin. apply in_map_iff in Hin. destruct Hin as (y & Hy & Hyin).
  apply filter_In in Hyin. destruct Hyin as [Hyin _]. rewrite <- Hy. now apply in_map.
Qed.

Lemma visible_sub allow internal methods m : In m (visible_methods allow internal methods) -> In m methods.
Proof.
  unfold visible_methods. destruct allow; [auto|]. destruct internal; [auto|]. intros H. apply filter_In in H. tauto.
Qed.

Lemma visible_wf allow internal methods : methods_wf methods -> methods_wf (visible_methods allow internal methods).
Proof.
  intros (Hnd & Hfu). split.
  - unfold visible_methods. destruct allow; [exact Hnd|]. destruct internal; [exact Hnd|]. now apply NoDup_map_filter.
  - intros m fs Hin Hfs. apply (Hfu m fs); [|exact Hfs]. eapply visible_sub; eauto.
Qed.

(* a selector that names no method of the proto is rejected whatever the allow-list and its mode *)
Lemma unknown_selector_rejected_selective allow internal methods settings s :
  methods_wf methods -> In s settings -> (forall m, In m methods -> m_selector m <> s_selector s) ->
  let table := visible_methods allow internal methods in
  enforce table settings = Crashed \/
  exists errs e, enforce table settings = Rejected errs /\ assoc (s_selector s) errs = Some e.
Proof.
  intros Hwf Hin Hno table. apply each_single_violation_rejected; [now apply visible_wf|exact Hin|].
  left. intros m Hm. apply Hno. eapply visible_sub; eauto.
Qed.

(* ---- package layout: every view validates against the whole API ---- *)
(* whatever the package layout, an entry with a violation makes EVERY view fail: generation cannot succeed *)
Lemma violation_rejected_in_every_layout view ms settings s :
  methods_wf (full_table ms) -> In s settings -> violates (full_table ms) s ->
  enforce (view_table view ms) settings = Crashed \/
  exists errs e, enforce (view_table view ms) settings = Rejected errs /\ assoc (s_selector s) errs = Some e.
Proof. intros Hwf Hin Hv. unfold view_table. now apply each_single_violation_rejected. Qed.

(* ... and settings that are valid for the API are accepted by every view, wherever its services live *)
Lemma valid_accepted_in_every_layout view ms settings :
  methods_wf (full_table ms) -> spec_valid (full_table ms) settings ->
  enforce (view_table view ms) settings = Accepted.
Proof. intros Hwf Hv. unfold view_table. now apply validation_iff_spec. Qed.

Lemma generation_accepts_iff ms settings :
  generation_accepts ms settings = true <->
  forall v, In v (evaluated_views ms) -> enforce (view_table v ms) settings = Accepted.
Proof.
  unfold generation_accepts, view_outcomes. rewrite forallb_forall. split.
  - intros H v Hv.
    assert (Hin : In (enforce (view_table v ms) settings) (map (fun v0 => enforce (view_table v0 ms) settings) (evaluated_views ms)))
      by (apply in_map_iff; exists v; auto).
    apply H in Hin. destruct (enforce (view_table v ms) settings); [reflexivity|discriminate|discriminate].
  - intros H o Ho. apply in_map_iff in Ho. destruct Ho as (v & <- & Hv). now rewrite (H v Hv).
Qed.

(* so: with at least one service, a violating entry or a duplicate selector never gets through, in any layout *)
Lemma violation_never_generated ms settings s m0 :
  methods_wf (full_table ms) -> In m0 ms -> In s settings -> violates (full_table ms) s ->
  generation_accepts ms settings = false.
Proof.
  intros Hwf Hm0 Hin Hv. destruct (generation_accepts ms settings) eqn:E; [|reflexivity].
  rewrite generation_accepts_iff in E. specialize (E (lm_sub m0) (in_map lm_sub ms m0 Hm0)).
  destruct (violation_rejected_in_every_layout (lm_sub m0) ms settings s Hwf Hin Hv) as [H|(errs & e & H & _)]; congruence.
Qed.

Lemma generation_accepts_iff_spec ms settings m0 :
  methods_wf (full_table ms) -> In m0 ms ->
  (generation_accepts ms settings = true <-> spec_valid (full_table ms) settings).
Proof.
  intros Hwf Hm0. rewrite generation_accepts_iff. split.
  - intros H. apply (validation_iff_spec (full_table ms) settings Hwf). exact (H (lm_sub m0) (in_map lm_sub ms m0 Hm0)).
  - intros H v _. now apply valid_accepted_in_every_layout.
Qed.

Lemma dup_persist methods sel : forall settings seen errs r,
  In sel seen -> assoc sel errs = Some SDuplicate ->
  enforce_aux methods seen errs settings = Some r -> assoc sel r = Some SDuplicate.
Proof.
  induction settings as [|s rest IH]; intros seen errs r Hseen Hk H; cbn in H.
  - inversion H; subst. exact Hk.
  - destruct (String.eqb sel (s_selector s)) eqn:E.
    + apply String.eqb_eq in E. unfold check_one in H. rewrite <- E in H.
      rewrite (proj2 (mem_str_iff sel seen) Hseen) in H.
      eapply IH; [| |exact H]; [right; exact Hseen|apply assoc_upsert_same].
    + assert (Hne : sel <> s_selector s) by (intros Hc; rewrite Hc, String.eqb_refl in E; discriminate).
      destruct (check_one methods seen s); try discriminate.
      * eapply IH; [| |exact H]; [right; exact Hseen|exact Hk].
      * eapply IH; [| |exact H]; [right; exact Hseen|now rewrite assoc_upsert_other].
Qed.

Lemma dup_found methods sel : forall settings seen errs r s2,
  In sel seen -> In s2 settings -> s_selector s2 = sel ->
  enforce_aux methods seen errs settings = Some r -> assoc sel r = Some SDuplicate.
Proof.
  induction settings as [|s rest IH]; intros seen errs r s2 Hseen Hin Hsel H; [inversion Hin|].
  cbn in H. destruct Hin as [->|Hin].
  - unfold check_one in H. rewrite Hsel in H. rewrite (proj2 (mem_str_iff sel seen) Hseen) in H.
    eapply dup_persist; [| |exact H]; [right; exact Hseen|apply assoc_upsert_same].
  - destruct (check_one methods seen s); try discriminate; (eapply IH; [| | |exact H]; [right; exact Hseen|exact Hin|exact Hsel]).
Qed.

Lemma dup_aux methods : forall l1 seen errs r s1 l2 s2 l3,
  s_selector s1 = s_selector s2 ->
  enforce_aux methods seen errs (l1 ++ s1 :: l2 ++ s2 :: l3) = Some r ->
  assoc (s_selector s1) r = Some SDuplicate.
Proof.
  induction l1 as [|s rest IH]; intros seen errs r s1 l2 s2 l3 Hsel H; cbn in H.
  - destruct (check_one methods seen s1); try discriminate;
      (eapply dup_found; [| | |exact H]; [left; reflexivity|apply in_or_app; right; left; reflexivity|symmetry; exact Hsel]).
  - destruct (check_one methods seen s); try discriminate; eapply IH; eauto.
Qed.

(* a selector that occurs twice is reported as a duplicate, whatever else the list contains *)
Lemma duplicates_rejected methods l1 s1 l2 s2 l3 :
  s_selector s1 = s_selector s2 ->
  let settings := l1 ++ s1 :: l2 ++ s2 :: l3 in
  enforce methods settings = Crashed \/
  exists errs, enforce methods settings = Rejected errs /\ assoc (s_selector s1) errs = Some SDuplicate.
Proof.
  intros Hsel settings. destruct (enforce_cases methods settings) as [(Hc & _)|[(Ha & Haux)|(r & Hne & Hr & Haux)]].
  - now left.
  - pose proof (dup_aux methods l1 [] [] [] s1 l2 s2 l3 Hsel Haux) as H. discriminate.
  - right. exists r. split; [exact Hr|]. exact (dup_aux methods l1 [] [] r s1 l2 s2 l3 Hsel Haux).
Qed.

(* ================================================================== (ii) population *)

Lemma setting_for_sound sel : forall settings s, setting_for sel settings = Some s -> In s settings /\ s_selector s = sel.
Proof.
  induction settings as [|s0 rest IH]; intros s H; cbn in H; [discriminate|].
  destruct (setting_for sel rest) as [s'|] eqn:E.
  - inversion H; subst. destruct (IH s eq_refl). split; [now right|assumption].
  - destruct (String.eqb (s_selector s0) sel) eqn:E2; [|discriminate]. inversion H; subst.
    apply String.eqb_eq in E2. split; [now left|assumption].
Qed.

Lemma emit_fields_defined fs : forall names, Forall (spec_valid_field fs) names -> exists bs, emit_fields fs names = Some bs.
Proof.
  induction names as [|n names IH]; intros H; [now exists []|].
  inversion H as [|x l Hn Hrest]; subst. destruct (IH Hrest) as (bs & Hbs).
  destruct Hn as (f & Hin & Hname & _).
  cbn. unfold emit_block, find_field.
  destruct (find _ fs) as [g|] eqn:E.
  - rewrite Hbs. eexists. reflexivity.
  - exfalso. exact (proj1 (find_by_name_none rf_name n fs) E f Hin Hname).
Qed.

(* after acceptance the template always has a field to look at: the blocks of every method are defined *)
Lemma accepted_blocks_defined (b : bool) methods settings m :
  methods_wf methods -> enforce methods settings = Accepted -> In m methods ->
  exists bs, client_blocks b m settings = Some bs.
Proof.
  intros Hwf Hacc Hin. apply (validation_iff_spec methods settings Hwf) in Hacc. destruct Hacc as (_ & Hall).
  unfold client_blocks. destruct (setting_for (m_selector m) settings) as [s|] eqn:E; [|now exists []].
  apply setting_for_sound in E. destruct E as [Hs Hsel].
  rewrite Forall_forall in Hall. destruct (Hall s Hs) as (m' & Hin' & Hsel' & H).
  assert (m' = m) by (destruct Hwf as (Hnd & _); apply (uniq_by_name m_selector methods); auto; congruence). subst m'.
  destruct (s_fields s) as [|n ns] eqn:Ef; [now exists []|].
  destruct H as (_ & _ & fs & Hfs & Hvalid); [discriminate|]. rewrite Hfs. now apply emit_fields_defined.
Qed.

(* sync (also serving REST) and asyncio clients get the same blocks *)
Lemma paths_agree m settings : client_blocks true m settings = client_blocks false m settings.
Proof. reflexivity. Qed.

Lemma emit_block_guard fs n b f st :
  emit_block fs n = Some b -> find_field n fs = Some f ->
  b_field b = n /\ guard_holds (b_guard b) st = left_unset_or_empty f st.
Proof.
  unfold emit_block. intros H Hf. rewrite Hf in H. inversion H; subst. cbn.
  pose proof (find_by_name_sound rf_name n fs f Hf) as [_ Hn].
  unfold left_unset_or_empty. rewrite Hn. destruct (rf_optional f); auto.
Qed.

Lemma assoc_assign_other fs n u st g : g <> n -> assoc g (assign fs n u st) = assoc g st.
Proof. intros H. unfold assign. destruct (find_field n fs); now apply assoc_upsert_other. Qed.

Lemma emit_fields_cons fs n names bs :
  emit_fields fs (n :: names) = Some bs -> exists b bs', bs = b :: bs' /\ emit_block fs n = Some b /\ emit_fields fs names = Some bs'.
Proof.
  cbn. destruct (emit_block fs n) as [b|]; [|discriminate]. destruct (emit_fields fs names) as [bs'|]; [|discriminate].
  intros H. inversion H; subst. eauto.
Qed.

Lemma emit_block_found fs n b : emit_block fs n = Some b -> exists f, find_field n fs = Some f.
Proof. unfold emit_block. destruct (find_field n fs) as [f|]; [eauto|discriminate]. Qed.

(* a field the caller provided, and every field that is not auto-populated, is never altered *)
Lemma never_alters_provided fs : forall names bs us st st' us' g,
  emit_fields fs names = Some bs -> exec fs bs us st = Some (st', us') ->
  (~ In g names \/ exists f, find_field g fs = Some f /\ left_unset_or_empty f st = false) ->
  assoc g st' = assoc g st.
Proof.
  induction names as [|n names IH]; intros bs us st st' us' g He Hx Hg.
  - cbn in He. inversion He; subst. cbn in Hx. inversion Hx; subst. reflexivity.
  - destruct (emit_fields_cons fs n names bs He) as (b & bs' & -> & Hb & Hbs'). cbn [exec] in Hx.
    destruct (emit_block_found fs n b Hb) as (fn & Hfn).
    destruct (emit_block_guard fs n b fn st Hb Hfn) as (Hbf & Hguard).
    destruct (guard_holds (b_guard b) st) eqn:Eg.
    + destruct us as [|u us1]; [discriminate|].
      assert (Hgn : g <> n).
      { intros ->. destruct Hg as [Hg|(f & Hf & Hl)]; [apply Hg; now left|].
        rewrite Hfn in Hf. inversion Hf; subst f. congruence. }
      rewrite Hbf in Hx.
      rewrite (IH bs' us1 (assign fs n u st) st' us' g Hbs' Hx).
      * now apply assoc_assign_other.
      * destruct Hg as [Hg|(f & Hf & Hl)]; [left; intros Hc; apply Hg; now right|].
        right. exists f. split; [exact Hf|]. unfold left_unset_or_empty in *.
        pose proof (find_by_name_sound rf_name g fs f Hf) as [_ Hfn']. rewrite Hfn' in *.
        now rewrite (assoc_assign_other fs n u st g Hgn).
    + apply (IH bs' us st st' us' g Hbs' Hx).
      destruct Hg as [Hg|Hg]; [left; intros Hc; apply Hg; now right|now right].
Qed.

Lemma exec_suffix fs : forall bs us st st' us', exec fs bs us st = Some (st', us') -> exists used, us = used ++ us'.
Proof.
  induction bs as [|b bs IH]; intros us st st' us' H; cbn in H.
  - inversion H; subst. now exists [].
  - destruct (guard_holds (b_guard b) st).
    + destruct us as [|u us1]; [discriminate|]. destruct (IH _ _ _ _ H) as (used & ->). now exists (u :: used).
    + eauto.
Qed.

Lemma exec_defined fs : forall bs us st, length bs <= length us -> exists r, exec fs bs us st = Some r.
Proof.
  induction bs as [|b bs IH]; intros us st Hlen; cbn; [eauto|].
  destruct (guard_holds (b_guard b) st).
  - destruct us as [|u us1]; [cbn in Hlen; lia|]. apply IH. cbn in Hlen. lia.
  - apply IH. cbn in Hlen. lia.
Qed.

(* a listed singular field that the caller left unset (or empty, when it has no presence) leaves with a value drawn
   from the uuid stream; otherwise it leaves as it came *)
Lemma populate_iff_unset_or_empty fs : forall names bs us st st' us' n f,
  emit_fields fs names = Some bs -> exec fs bs us st = Some (st', us') ->
  Forall (fun u => u <> "") us ->
  In n names -> find_field n fs = Some f -> rf_repeated f = false ->
  (left_unset_or_empty f st = true -> exists u, In u us /\ assoc n st' = Some (VStr u))
  /\ (left_unset_or_empty f st = false -> assoc n st' = assoc n st).
Proof.
  induction names as [|n0 names IH]; intros bs us st st' us' n f He Hx Hne Hin Hf Hrep; [inversion Hin|].
  assert (Hkeep : left_unset_or_empty f st = false -> assoc n st' = assoc n st).
  { intros Hl. eapply never_alters_provided; eauto. }
  assert (Hpop : left_unset_or_empty f st = true -> exists u, In u us /\ assoc n st' = Some (VStr u)).
  { intros Hl.
    pose proof (find_by_name_sound rf_name n fs f Hf) as [_ Hfname].
    destruct (String.eqb n n0) eqn:En.
    - apply String.eqb_eq in En. subst n0.
      destruct (emit_fields_cons fs n names bs He) as (b & bs' & -> & Hb & Hbs'). cbn [exec] in Hx.
      destruct (emit_block_guard fs n b f st Hb Hf) as (Hbf & Hguard).
      rewrite Hguard, Hl in Hx. destruct us as [|u us1]; [discriminate|]. rewrite Hbf in Hx.
      exists u. split; [now left|].
      assert (Hval : assoc n (assign fs n u st) = Some (VStr u)).
      { unfold assign. rewrite Hf, Hrep. apply assoc_upsert_same. }
      rewrite <- Hval. eapply never_alters_provided; [exact Hbs'|exact Hx|].
      right. exists f. split; [exact Hf|]. unfold left_unset_or_empty. rewrite Hfname, Hval.
      inversion Hne as [|x l Hu _]; subst. cbn. destruct u; [contradiction|]. cbn. now destruct (rf_optional f).
    - assert (Hnn : n <> n0) by (intros ->; rewrite String.eqb_refl in En; discriminate).
      assert (Hin' : In n names) by (destruct Hin as [Hc|Hc]; [congruence|exact Hc]).
      destruct (emit_fields_cons fs n0 names bs He) as (b & bs' & -> & Hb & Hbs'). cbn [exec] in Hx.
      destruct (emit_block_found fs n0 b Hb) as (f0 & Hf0).
      destruct (emit_block_guard fs n0 b f0 st Hb Hf0) as (Hbf & Hguard).
      destruct (guard_holds (b_guard b) st).
      + destruct us as [|u us1]; [discriminate|]. rewrite Hbf in Hx. inversion Hne as [|x l Hu1 Hne1]; subst x l.
        destruct (IH bs' us1 (assign fs n0 u st) st' us' n f Hbs' Hx Hne1 Hin' Hf Hrep) as (Hp & _).
        destruct Hp as (u' & Hu' & Hv).
        * unfold left_unset_or_empty in *. rewrite Hfname in *. now rewrite (assoc_assign_other fs n0 u st n Hnn).
        * exists u'. split; [now right|exact Hv].
      + destruct (IH bs' us st st' us' n f Hbs' Hx Hne Hin' Hf Hrep) as (Hp & _). now apply Hp. }
  split; assumption.
Qed.

(* ================================================================== examples and the gap *)
Definition f_name := mkRField "name" true true false false false.
Definition f_req_id := mkRField "request_id" true false true false false.
Definition f_opt_id := mkRField "opt_id" true false true true false.
Definition f_count := mkRField "count" false false true false false.
Definition f_plain := mkRField "note" true false false false false.
Definition f_rep := mkRField "request_ids" true false true false true.
Definition ex_fields : list rfield := [f_name; f_req_id; f_opt_id; f_count; f_plain; f_rep].
Definition ex_methods : list mdesc :=
  [mkMethod "pkg.Lib.CreateBook" false false (Some ex_fields);
   mkMethod "pkg.Lib.WatchBooks" false true (Some ex_fields);
   mkMethod "pkg.Lib.GetBook" false false (Some [f_name])].
Definition ex_settings : list setting :=
  [mkSetting "pkg.Lib.CreateBook" ["request_id"; "opt_id"]; mkSetting "pkg.Lib.GetBook" []].

Lemma ex_methods_wf : methods_wf ex_methods.
Proof.
  split.
  - cbn. repeat constructor; cbn; intuition discriminate.
  - intros m fs Hin Hfs. cbn in Hin.
    destruct Hin as [<-|[<-|[<-|[]]]]; cbn in Hfs; inversion Hfs; subst; unfold fields_uniq; cbn;
      repeat constructor; cbn; intuition discriminate.
Qed.

(* non-vacuity of validation_iff / accepted_blocks_defined / the population lemmas *)
Example ex_accepted :
  methods_wf ex_methods /\ enforce ex_methods ex_settings = Accepted /\
  client_blocks false (mkMethod "pkg.Lib.CreateBook" false false (Some ex_fields)) ex_settings
    = Some [mkBlock (GNotTruthy "request_id") "request_id"; mkBlock (GNotIn "opt_id") "opt_id"].
Proof. split; [exact ex_methods_wf|]. split; reflexivity. Qed.

(* each single violation, on a concrete table *)
Example ex_violations :
  violates ex_methods (mkSetting "pkg.Lib.Missing" []) /\
  violates ex_methods (mkSetting "pkg.Lib.WatchBooks" ["request_id"]) /\
  violates ex_methods (mkSetting "pkg.Lib.CreateBook" ["name"]) /\
  violates ex_methods (mkSetting "pkg.Lib.CreateBook" ["count"]) /\
  violates ex_methods (mkSetting "pkg.Lib.CreateBook" ["note"]) /\
  violates ex_methods (mkSetting "pkg.Lib.CreateBook" ["book.request_id"]) /\
  enforce ex_methods [mkSetting "pkg.Lib.CreateBook" ["request_id"; "name"; "count"; "nested.id"]]
    = Rejected [("pkg.Lib.CreateBook", SFields [("name", FRequired); ("name", FNotUuid4); ("count", FNotString); ("nested.id", FNotFound)])] /\
  enforce ex_methods [mkSetting "pkg.Lib.CreateBook" ["name"]; mkSetting "pkg.Lib.GetBook" []; mkSetting "pkg.Lib.CreateBook" []]
    = Rejected [("pkg.Lib.CreateBook", SDuplicate)].
Proof.
  assert (Hbad : forall n, In n ["name"; "count"; "note"; "book.request_id"] -> ~ spec_valid_field ex_fields n).
  { intros n Hn (f & Hin & Hname & Hs & Hrep & Hr & Hu). cbn in Hin.
    destruct Hin as [<-|[<-|[<-|[<-|[<-|[<-|[]]]]]]]; cbn in *;
      repeat (destruct Hn as [<-|Hn]; try discriminate); try contradiction. }
  repeat split.
  - left. intros m Hin. cbn in Hin. destruct Hin as [<-|[<-|[<-|[]]]]; discriminate.
  - right. eexists. split; [right; left; reflexivity|]. split; [reflexivity|]. split; [discriminate|]. right. left. reflexivity.
  - right. eexists. split; [left; reflexivity|]. split; [reflexivity|]. split; [discriminate|]. right. right.
    exists ex_fields, "name". split; [reflexivity|]. split; [now left|]. apply Hbad. cbn. auto.
  - right. eexists. split; [left; reflexivity|]. split; [reflexivity|]. split; [discriminate|]. right. right.
    exists ex_fields, "count". split; [reflexivity|]. split; [now left|]. apply Hbad. cbn. auto.
  - right. eexists. split; [left; reflexivity|]. split; [reflexivity|]. split; [discriminate|]. right. right.
    exists ex_fields, "note". split; [reflexivity|]. split; [now left|]. apply Hbad. cbn. auto.
  - right. eexists. split; [left; reflexivity|]. split; [reflexivity|]. split; [discriminate|]. right. right.
    exists ex_fields, "book.request_id". split; [reflexivity|]. split; [now left|]. apply Hbad. cbn. auto.
Qed.

Example ex_population_hyps :
  Forall (fun u : string => u <> "") ["u1"; "u2"] /\
  find_field "request_id" ex_fields = Some f_req_id /\ rf_repeated f_req_id = false /\
  left_unset_or_empty f_req_id [("name", VStr "x")] = true /\
  left_unset_or_empty f_req_id [("request_id", VStr "mine")] = false /\
  left_unset_or_empty f_opt_id [("opt_id", VStr "")] = false.
Proof. repeat split; repeat constructor; discriminate. Qed.

Example ex_population :
  let fs := ex_fields in
  let bs := [mkBlock (GNotTruthy "request_id") "request_id"; mkBlock (GNotIn "opt_id") "opt_id"] in
  emit_fields fs ["request_id"; "opt_id"] = Some bs /\
  (* nothing set: both populated, in order *)
  exec fs bs ["u1"; "u2"] [("name", VStr "x")] = Some ([("name", VStr "x"); ("request_id", VStr "u1"); ("opt_id", VStr "u2")], []) /\
  (* plain field empty = unset; optional field set to the empty string is provided *)
  exec fs bs ["u1"; "u2"] [("request_id", VStr ""); ("opt_id", VStr "")] = Some ([("request_id", VStr "u1"); ("opt_id", VStr "")], ["u2"]) /\
  (* provided values are kept and no uuid is drawn *)
  exec fs bs ["u1"; "u2"] [("request_id", VStr "mine"); ("opt_id", VStr "too")] = Some ([("request_id", VStr "mine"); ("opt_id", VStr "too")], ["u1"; "u2"]).
Proof. repeat split. Qed.

(* the former gap (a REPEATED string field annotated UUID4 used to pass validation and receive the characters of the
   uuid), closed by /repo commit 0fe08e8: the former witness is rejected *)
Definition rep_methods : list mdesc := [mkMethod "pkg.Lib.CreateBook" false false (Some [f_name; f_rep])].
Definition rep_settings : list setting := [mkSetting "pkg.Lib.CreateBook" ["request_ids"]].
Example former_gap_closed :
  enforce rep_methods rep_settings = Rejected [("pkg.Lib.CreateBook", SFields [("request_ids", FNotString)])].
Proof. reflexivity. Qed.

(* every field of an accepted entry is singular: the population lemma's hypothesis is met after acceptance *)
Lemma accepted_fields_singular methods settings s m fs n f :
  methods_wf methods -> enforce methods settings = Accepted -> In s settings -> In m methods ->
  m_selector m = s_selector s -> m_input m = Some fs -> In n (s_fields s) -> find_field n fs = Some f ->
  rf_repeated f = false /\ rf_string f = true /\ rf_required f = false /\ rf_uuid4 f = true.
Proof.
  intros Hwf Hacc Hs Hm Hsel Hfs Hn Hf. pose proof Hwf as (Hnd & Hfu).
  apply (validation_iff_spec methods settings Hwf) in Hacc. destruct Hacc as (_ & Hall).
  rewrite Forall_forall in Hall. destruct (Hall s Hs) as (m' & Hin' & Hsel' & H).
  assert (m' = m) by (apply (uniq_by_name m_selector methods); auto; congruence). subst m'.
  destruct H as (_ & _ & fs' & Hfs' & Hvalid); [intros Hc; rewrite Hc in Hn; inversion Hn|].
  rewrite Hfs in Hfs'. inversion Hfs'; subst fs'.
  rewrite Forall_forall in Hvalid. destruct (Hvalid n Hn) as (g & Hg & Hgn & Hs1 & Hrep & Hr & Hu).
  pose proof (find_by_name_sound rf_name n fs f Hf) as [Hfin Hfn].
  assert (g = f) by (apply (uniq_by_name rf_name fs); [exact (Hfu m fs Hm Hfs)|exact Hg|exact Hfin|congruence]). subst g. auto.
Qed.

(* what the unchanged code does with an entry naming an existing method that the allow-list omits (pruning mode) *)
Example pruned_method_not_found :
  enforce (visible_methods ["pkg.Lib.GetBook"] false ex_methods) [mkSetting "pkg.Lib.CreateBook" ["request_id"]]
    = Rejected [("pkg.Lib.CreateBook", SMethodNotFound)] /\
  enforce (visible_methods ["pkg.Lib.GetBook"] true ex_methods) [mkSetting "pkg.Lib.CreateBook" ["request_id"]] = Accepted /\
  enforce (visible_methods ["pkg.Lib.GetBook"] true ex_methods) [mkSetting "pkg.Lib.CreateBooks" ["request_id"]]
    = Rejected [("pkg.Lib.CreateBooks", SMethodNotFound)].
Proof. repeat split. Qed.

(* ---- package layout: the former gap (a sub-package view rejected valid settings naming a method outside its own
   sub-package with "Method was not found."), closed by /repo commit efe4cb8 ---- *)
Definition layout_mixed : list lmethod :=
  [mkLMethod [] (mkMethod "pkg.Lib.CreateBook" false false (Some [f_name; f_req_id]));
   mkLMethod ["admin"] (mkMethod "pkg.admin.Admin.CreateThing" false false (Some [f_name; f_opt_id]))].

Lemma layout_mixed_wf : methods_wf (full_table layout_mixed).
Proof.
  split.
  - cbn. repeat constructor; cbn; intuition discriminate.
  - intros m fs Hin Hfs. cbn in Hin. destruct Hin as [<-|[<-|[]]]; cbn in Hfs; inversion Hfs; subst;
      unfold fields_uniq; cbn; repeat constructor; cbn; intuition discriminate.
Qed.

(* non-vacuity of the layout lemmas, and the former witness: settings naming the top-level method are accepted by the
   admin view too; a misspelt selector and a REQUIRED field are rejected by every view *)
Example layout_example :
  methods_wf (full_table layout_mixed) /\
  spec_valid (full_table layout_mixed) [mkSetting "pkg.Lib.CreateBook" ["request_id"]] /\
  view_outcomes layout_mixed [mkSetting "pkg.Lib.CreateBook" ["request_id"]] = [Accepted; Accepted] /\
  own_methods ["admin"] layout_mixed = [mkMethod "pkg.admin.Admin.CreateThing" false false (Some [f_name; f_opt_id])] /\
  view_outcomes layout_mixed [mkSetting "pkg.Lib.CreateBooks" ["request_id"]]
    = [Rejected [("pkg.Lib.CreateBooks", SMethodNotFound)]; Rejected [("pkg.Lib.CreateBooks", SMethodNotFound)]] /\
  view_outcomes layout_mixed [mkSetting "pkg.Lib.CreateBook" ["name"]]
    = [Rejected [("pkg.Lib.CreateBook", SFields [("name", FRequired); ("name", FNotUuid4)])];
       Rejected [("pkg.Lib.CreateBook", SFields [("name", FRequired); ("name", FNotUuid4)])]].
Proof.
  split; [exact layout_mixed_wf|]. split; [|repeat split].
  apply (validation_iff_spec _ _ layout_mixed_wf). reflexivity.
Qed.
