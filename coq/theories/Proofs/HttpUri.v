(* Proofs/HttpUri.v — C04: the URI half of wire_names_original.
   Tokenizer/printer round trip for uri templates, split/join round trip for dotted names, and the statement that
   the URL produced from the CONVERTED template (suffixed variable names) is the original template's literal text
   with every variable replaced by the value found under the original dotted name. *)
From GV Require Import Base.Str Gen.Kw Model.Reserved Model.Case Model.HttpValues Model.Http Proofs.Http.
Local Open Scope list_scope.

(* ------------------------------------------------------------------ reversal *)
Lemma srev_acc_spec s : forall a b, srev_acc (srev_acc s a) b = srev_acc a (s ++ b)%string.
Proof. induction s as [|c s IH]; intros a b; simpl; [reflexivity|]. rewrite IH. reflexivity. Qed.

Lemma srev_involutive s : srev (srev s) = s.
Proof. unfold srev. rewrite srev_acc_spec. simpl. apply sapp_nil_r. Qed.

Lemma srev_acc_app s : forall acc, srev_acc s acc = (srev s ++ acc)%string.
Proof.
  unfold srev. induction s as [|c s IH]; intros acc; simpl; [reflexivity|].
  rewrite IH. rewrite (IH (String c "")). rewrite sapp_assoc. reflexivity.
Qed.

Lemma srev_cons c s : srev (String c s) = (srev s ++ String c "")%string.
Proof. unfold srev at 1. simpl. apply srev_acc_app. Qed.

Lemma is_empty_srev s : is_empty (srev s) = is_empty s.
Proof.
  destruct s as [|c s]; [reflexivity|]. rewrite srev_cons. simpl.
  destruct (srev s); reflexivity.
Qed.

(* srev (srev x ++ acc) = srev acc ++ x *)
Lemma srev_app_srev x : forall acc, srev (srev x ++ acc)%string = (srev acc ++ x)%string.
Proof.
  induction x as [|c x IH]; intros acc; simpl.
  - now rewrite sapp_nil_r.
  - rewrite srev_cons. rewrite sapp_assoc. simpl. rewrite IH. rewrite srev_cons.
    rewrite sapp_assoc. reflexivity.
Qed.

(* ------------------------------------------------------------------ the tokenizer on printed tokens *)
Lemma utoks_lit s : forall rest lit,
  contains "{"%char s = false ->
  utoks_aux (s ++ rest)%string lit None = utoks_aux rest (srev s ++ lit)%string None.
Proof.
  induction s as [|a s IH]; intros rest lit H; [reflexivity|].
  simpl in H. apply orb_false_iff in H. destruct H as [Ha Hs].
  simpl. rewrite Ha. rewrite IH by exact Hs. rewrite srev_cons, sapp_assoc. reflexivity.
Qed.

Lemma utoks_brace c : forall rest lit acc,
  contains "}"%char c = false ->
  utoks_aux (c ++ String "}"%char rest)%string lit (Some acc)
  = mk_var (srev (srev c ++ acc)%string) :: utoks_aux rest EmptyString None.
Proof.
  induction c as [|a c IH]; intros rest lit acc H.
  - simpl. reflexivity.
  - simpl in H. apply orb_false_iff in H. destruct H as [Ha Hc].
    simpl. rewrite Ha. rewrite IH by exact Hc. rewrite srev_cons, sapp_assoc. reflexivity.
Qed.

Lemma cut_eq_acc_none n : forall acc,
  contains "="%char n = false -> cut_eq_acc n acc = (srev (srev n ++ acc)%string, None).
Proof.
  induction n as [|a n IH]; intros acc H; [reflexivity|].
  simpl in H. apply orb_false_iff in H. destruct H as [Ha Hn].
  simpl. rewrite Ha. rewrite IH by exact Hn. rewrite srev_cons, sapp_assoc. reflexivity.
Qed.

Lemma cut_eq_acc_some n : forall t acc,
  contains "="%char n = false ->
  cut_eq_acc (n ++ String "="%char t)%string acc = (srev (srev n ++ acc)%string, Some t).
Proof.
  induction n as [|a n IH]; intros t acc H; [reflexivity|].
  simpl in H. apply orb_false_iff in H. destruct H as [Ha Hn].
  simpl. rewrite Ha. rewrite IH by exact Hn. rewrite srev_cons, sapp_assoc. reflexivity.
Qed.

Lemma mk_var_none n : contains "="%char n = false -> mk_var n = UVar n None.
Proof.
  intros H. unfold mk_var, cut_eq. rewrite cut_eq_acc_none by exact H.
  rewrite sapp_nil_r, srev_involutive. reflexivity.
Qed.

Lemma mk_var_some n t : contains "="%char n = false -> mk_var (n ++ String "="%char t)%string = UVar n (Some t).
Proof.
  intros H. unfold mk_var, cut_eq. rewrite cut_eq_acc_some by exact H.
  rewrite sapp_nil_r, srev_involutive. reflexivity.
Qed.

Lemma utoks_render ts : forall lit,
  printable ts = true -> (is_empty lit = false -> starts_lit ts = false) ->
  utoks_aux (render_uri ts) lit None = flush lit ts.
Proof.
  induction ts as [|t ts IH]; intros lit Hp Hl; [reflexivity|].
  destruct t as [s|n tm].
  - (* a literal: the accumulator must be empty *)
    simpl in Hp. repeat (apply andb_true_iff in Hp; destruct Hp as [Hp ?]).
    apply negb_true_iff in Hp. apply negb_true_iff in H1.
    assert (El : lit = EmptyString).
    { destruct lit; [reflexivity|]. specialize (Hl eq_refl). discriminate. }
    subst lit. unfold render_uri. simpl map. simpl sconcat. fold (render_uri ts).
    rewrite utoks_lit by exact H1. rewrite sapp_nil_r.
    rewrite IH; [| exact H | intros _; destruct ts as [|[s'|n' tm'] ts']; [reflexivity | discriminate | reflexivity]].
    unfold flush. rewrite is_empty_srev, Hp. simpl. rewrite srev_involutive. reflexivity.
  - simpl in Hp. apply andb_true_iff in Hp. destruct Hp as [Hv Hp].
    unfold var_printable in Hv. apply andb_true_iff in Hv. destruct Hv as [Hv Ht].
    apply andb_true_iff in Hv. destruct Hv as [Heq Hcb].
    apply negb_true_iff in Heq. apply negb_true_iff in Hcb.
    unfold render_uri. simpl map. simpl sconcat. fold (render_uri ts).
    destruct tm as [tm|]; simpl render_tok.
    + apply negb_true_iff in Ht.
      assert (E : (String "{" (n ++ String "=" (tm ++ "}")) ++ render_uri ts)%string
                  = String "{"%char ((n ++ String "="%char tm) ++ String "}"%char (render_uri ts))%string).
      { simpl. f_equal. rewrite !sapp_assoc. simpl. rewrite sapp_assoc. reflexivity. }
      rewrite E. simpl utoks_aux.
      rewrite utoks_brace.
      * rewrite sapp_nil_r, srev_involutive, mk_var_some by exact Heq.
        rewrite IH; [reflexivity | exact Hp | intros E'; discriminate].
      * rewrite contains_app. simpl. rewrite Hcb, Ht. reflexivity.
    + assert (E : (String "{" (n ++ "}") ++ render_uri ts)%string
                  = String "{"%char (n ++ String "}"%char (render_uri ts))%string).
      { simpl. f_equal. rewrite sapp_assoc. reflexivity. }
      rewrite E. simpl utoks_aux.
      rewrite utoks_brace by exact Hcb.
      rewrite sapp_nil_r, srev_involutive, mk_var_none by exact Heq.
      rewrite IH; [reflexivity | exact Hp | intros E'; discriminate].
Qed.

(* the emitted uri string tokenizes to the converted tokens *)
Lemma utoks_convert_uri u :
  printable (map fix_tok (utoks u)) = true -> utoks (convert_uri u) = map fix_tok (utoks u).
Proof.
  intros H. unfold convert_uri, utoks at 1. rewrite utoks_render; [reflexivity | exact H | intros E; discriminate].
Qed.

(* ------------------------------------------------------------------ split / join round trip for dotted names *)
Lemma contains_srev_acc c s : forall a, contains c (srev_acc s a) = contains c s || contains c a.
Proof.
  induction s as [|x s IH]; intros a; simpl; [reflexivity|]. rewrite IH. simpl.
  destruct (Ascii.eqb x c), (contains c s), (contains c a); reflexivity.
Qed.
Lemma contains_srev c s : contains c (srev s) = contains c s.
Proof. unfold srev. rewrite contains_srev_acc. simpl. apply orb_false_r. Qed.

Lemma split_on_acc_nosep c x : forall acc,
  contains c x = false -> split_on_acc c x acc = [srev (srev x ++ acc)%string].
Proof.
  induction x as [|a x IH]; intros acc H; [reflexivity|].
  simpl in H. apply orb_false_iff in H. destruct H as [Ha Hx].
  simpl. rewrite Ha. rewrite IH by exact Hx. rewrite srev_cons, sapp_assoc. reflexivity.
Qed.
Lemma split_on_acc_sep c x : forall rest acc,
  contains c x = false ->
  split_on_acc c (x ++ String c rest)%string acc = srev (srev x ++ acc)%string :: split_on_acc c rest EmptyString.
Proof.
  induction x as [|a x IH]; intros rest acc H.
  - simpl. rewrite Ascii.eqb_refl. reflexivity.
  - simpl in H. apply orb_false_iff in H. destruct H as [Ha Hx].
    simpl. rewrite Ha. rewrite IH by exact Hx. rewrite srev_cons, sapp_assoc. reflexivity.
Qed.

Lemma split_join c l :
  l <> [] -> Forall (fun x => contains c x = false) l -> split_on c (sjoin (s1 c) l) = l.
Proof.
  unfold split_on. induction l as [|x l IH]; intros Hne Hf; [congruence|].
  inversion Hf as [|? ? Hx Hl]; subst. destruct l as [|y l].
  - simpl. rewrite split_on_acc_nosep by exact Hx. rewrite sapp_nil_r, srev_involutive. reflexivity.
  - change (sjoin (s1 c) (x :: y :: l)) with (x ++ String c (sjoin (s1 c) (y :: l)))%string.
    rewrite split_on_acc_sep by exact Hx. rewrite sapp_nil_r, srev_involutive.
    rewrite IH; [reflexivity | discriminate | exact Hl].
Qed.

Lemma split_on_acc_elems c s : forall acc,
  contains c acc = false -> Forall (fun x => contains c x = false) (split_on_acc c s acc).
Proof.
  induction s as [|a s IH]; intros acc H; simpl.
  - constructor; [|constructor]. now rewrite contains_srev.
  - destruct (Ascii.eqb a c) eqn:E.
    + constructor; [now rewrite contains_srev | apply IH; reflexivity].
    + apply IH. simpl. now rewrite E.
Qed.
Lemma split_on_acc_nonempty c s : forall acc, split_on_acc c s acc <> [].
Proof. induction s as [|a s IH]; intros acc; simpl; [discriminate|]. destruct (Ascii.eqb a c); [discriminate | apply IH]. Qed.

Lemma field_attr_dot x : contains "."%char (field_attr x) = contains "."%char x.
Proof. unfold field_attr. destruct (reserved x); [|reflexivity]. rewrite contains_app. simpl. apply orb_false_r. Qed.

(* the components of the converted name are the suffixed components of the original name *)
Lemma dotted_fix_path n : dotted (fix_path n) = map field_attr (dotted n).
Proof.
  unfold dotted, fix_path. change "."%string with (s1 "."%char). apply split_join.
  - unfold split_on. pose proof (split_on_acc_nonempty "."%char n EmptyString) as H.
    destruct (split_on_acc "."%char n EmptyString); [congruence | discriminate].
  - apply Forall_forall. intros x Hx. apply in_map_iff in Hx. destruct Hx as [y [<- Hy]].
    rewrite field_attr_dot.
    pose proof (split_on_acc_elems "."%char n EmptyString eq_refl) as H.
    rewrite Forall_forall in H. apply H. exact Hy.
Qed.

(* ------------------------------------------------------------------ the URL carries no (suffixed) name *)
Lemma lookup_fix_path r n : lookup r (fix_path n) = lookup_by r (dotted n).
Proof. unfold lookup, lookup_by. now rewrite dotted_fix_path. Qed.

Lemma expand_fix ts r : expand (map fix_tok ts) r = expand_orig ts r.
Proof.
  unfold expand, expand_orig. rewrite map_map. f_equal. apply map_ext. intros [s|n tm]; simpl; [reflexivity|].
  now rewrite lookup_fix_path.
Qed.

Lemma uri_names_original_l u r :
  printable (map fix_tok (utoks u)) = true ->
  expand (utoks (convert_uri u)) r = expand_orig (utoks u) r.
Proof. intros H. rewrite utoks_convert_uri by exact H. apply expand_fix. Qed.

Lemma app_us_inj a : forall b, (a ++ "_")%string = (b ++ "_")%string -> a = b.
Proof.
  induction a as [|x a IH]; intros b H.
  - destruct b as [|y b]; [reflexivity|]. simpl in H. inversion H as [[Hy Hb]].
    destruct b; discriminate.
  - destruct b as [|y b]; simpl in H.
    + inversion H as [[Hx Ha]]. destruct a; discriminate.
    + inversion H as [[Hx Ha]]. f_equal. now apply IH.
Qed.

Lemma reserved_suffix_clash a : reserved a = true -> suffix_clash (a ++ "_")%string = true.
Proof.
  unfold reserved, mem_str, suffix_clash. intros H. apply existsb_exists in H. destruct H as [w [Hw E]].
  apply String.eqb_eq in E. subst w. apply existsb_exists. exists a. split; [exact Hw | apply String.eqb_refl].
Qed.

Lemma field_attr_inj a b :
  suffix_clash a = false -> suffix_clash b = false -> field_attr a = field_attr b -> a = b.
Proof.
  unfold field_attr. intros Ha Hb H.
  destruct (reserved a) eqn:Ra, (reserved b) eqn:Rb.
  - now apply app_us_inj.
  - subst b. rewrite (reserved_suffix_clash _ Ra) in Hb. discriminate.
  - subst a. rewrite (reserved_suffix_clash _ Rb) in Ha. discriminate.
  - exact H.
Qed.

Lemma var_exact_orig cs : forall p,
  forallb (fun c => negb (suffix_clash c)) cs = true -> path_clash_free p = true ->
  var_exact (map field_attr cs) p = path_eqb p (map F cs).
Proof.
  induction cs as [|c cs IH]; intros p Hc Hp.
  - destruct p as [|[n|k] p]; reflexivity.
  - destruct p as [|[n|k] p]; try reflexivity.
    simpl in Hc, Hp. apply andb_true_iff in Hc. destruct Hc as [Hc1 Hc2].
    apply andb_true_iff in Hp. destruct Hp as [Hp1 Hp2].
    apply negb_true_iff in Hc1. apply negb_true_iff in Hp1.
    simpl. rewrite IH by assumption.
    destruct (String.eqb (field_attr c) (field_attr n)) eqn:E.
    + apply String.eqb_eq in E. apply field_attr_inj in E; [|assumption|assumption]. subst c.
      unfold path_eqb. simpl. now rewrite String.eqb_refl.
    + unfold path_eqb. simpl. fold (path_eqb p (map F cs)).
      destruct (String.eqb n c) eqn:E2; [|reflexivity]. apply String.eqb_eq in E2. subst. now rewrite String.eqb_refl in E.
Qed.

Lemma find_ext_in {A} (f g : A -> bool) l : (forall x, In x l -> f x = g x) -> find f l = find g l.
Proof.
  induction l as [|a l IH]; intros H; [reflexivity|]. simpl. rewrite (H a (or_introl eq_refl)).
  destruct (g a); [reflexivity|]. apply IH. intros x Hx. apply H. now right.
Qed.

Lemma uri_names_proto_l u r :
  printable (map fix_tok (utoks u)) = true -> names_clash_free (utoks u) = true -> req_clash_free r = true ->
  expand (utoks (convert_uri u)) r = expand_proto (utoks u) r.
Proof.
  intros Hp Hn Hr. rewrite uri_names_original_l by exact Hp.
  unfold expand_orig, expand_proto. f_equal. apply map_ext_in. intros [s|n tm] Ht; [reflexivity|].
  unfold names_clash_free in Hn. rewrite forallb_forall in Hn. specialize (Hn _ Ht). simpl in Hn.
  unfold lookup_by, lookup_proto, var_path, dotted in *.
  rewrite (find_ext_in _ (fun l => path_eqb (lpath l) (map F (split_on "."%char n)))); [reflexivity|].
  intros l Hl. unfold req_clash_free in Hr. rewrite forallb_forall in Hr.
  apply var_exact_orig; [exact Hn | apply Hr; exact Hl].
Qed.

(* non-vacuity: a template with a nested reserved-word variable, a literal with a dot and a verb *)
Example ex_uri_hyps :
  printable (map fix_tok (utoks "/v1.1/{name=items/*}/{sub.class=things/*}:one")) = true /\
  names_clash_free (utoks "/v1.1/{name=items/*}/{sub.class=things/*}:one") = true /\
  req_clash_free [mkLeaf [F "name"] (VS "items/i1") false; mkLeaf [F "sub"; F "class"] (VS "things/t1") false] = true /\
  expand (utoks (convert_uri "/v1.1/{name=items/*}/{sub.class=things/*}:one"))
         [mkLeaf [F "name"] (VS "items/i1") false; mkLeaf [F "sub"; F "class"] (VS "things/t1") false]
  = "/v1.1/items/i1/things/t1:one"%string.
Proof. repeat split; vm_compute; reflexivity. Qed.

(* the clash the hypothesis excludes is real: fields "class" and "class_" share the attribute class_ *)
Example ex_suffix_clash : field_attr "class" = field_attr "class_" /\ suffix_clash "class_" = true.
Proof. split; vm_compute; reflexivity. Qed.

(* ------------------------------------------------------------------ the statement about a request that was sent *)
Lemma filter_map_In {A B} (f : A -> option B) l b : In b (filter_map f l) -> exists a, In a l /\ f a = Some b.
Proof.
  induction l as [|a l IH]; simpl; [intros []|]. destruct (f a) eqn:E.
  - intros [<-|H]; [exists a; auto|]. destruct (IH H) as [a' [Ha' E']]. exists a'. auto.
  - intros H. destruct (IH H) as [a' [Ha' E']]. exists a'. auto.
Qed.

Lemma wire_names_uri_l numeric m r v u q bd :
  run numeric m r = Sent v u q bd ->
  exists ru verb uri, In ru (m_rule m :: m_more m) /\ r_pat ru = PVerb verb uri /\ v = verb /\
    (printable (map fix_tok (utoks uri)) = true -> names_clash_free (utoks uri) = true -> req_clash_free r = true ->
     u = expand_proto (utoks uri) r).
Proof.
  intros H. apply run_sent in H. destruct H as [t [Ht [-> [-> _]]]].
  destruct (first_matching_binding_l _ _ _ _ Ht) as [b [Hn [_ [Hm [Hu _]]]]].
  apply nth_error_In in Hn. unfold http_options in Hn. apply filter_map_In in Hn.
  destruct Hn as [ru [Hin Hp]]. unfold try_parse in Hp.
  destruct (r_pat ru) as [| |verb uri] eqn:Er; try discriminate.
  destruct (is_empty uri); [discriminate|]. inversion Hp; subst b. clear Hp.
  exists ru, verb, uri. repeat split; auto.
  intros H1 H2 H3. rewrite Hu. simpl. now apply uri_names_proto_l.
Qed.
