(* Proofs/RxLemmas.v — C20: what a success / a failure of the backtracking combinators of
   Model/FixWs.v means, and basic facts on strings used by Proofs/FixWs.v and Proofs/Wrap.v. *)
From GV Require Import Base.Str Model.FixWs.

(* ---- strings ---- *)
Lemma app_nil_inv (a b : string) : a ++ b = "" -> a = "" /\ b = "".
Proof. destruct a; simpl; intro H; [auto | discriminate]. Qed.

Lemma length_app (a b : string) : String.length (a ++ b) = String.length a + String.length b.
Proof. induction a as [|x a IH]; simpl; [reflexivity | now rewrite IH]. Qed.

Lemma sall_app p a b : sall p (a ++ b) = sall p a && sall p b.
Proof. induction a as [|x a IH]; simpl; [reflexivity|]. rewrite IH. now rewrite andb_assoc. Qed.

Lemma app_inv_head_s (a b c : string) : a ++ b = a ++ c -> b = c.
Proof. induction a as [|x a IH]; simpl; intro H; [exact H|]. inversion H. auto. Qed.

Lemma take_drop_while p s : s = stake_while p s ++ sdrop_while p s.
Proof. induction s as [|c s IH]; simpl; [reflexivity|]. destruct (p c); simpl; [now rewrite <- IH | reflexivity]. Qed.

Lemma sall_take_while p s : sall p (stake_while p s) = true.
Proof. induction s as [|c s IH]; simpl; [reflexivity|]. destruct (p c) eqn:E; simpl; [now rewrite E | reflexivity]. Qed.

(* "the text does not start with a character of class p" *)
Definition nohead (p : ascii -> bool) (s : string) : Prop :=
  match s with EmptyString => True | String c _ => p c = false end.

Lemma nohead_drop_while p s : nohead p (sdrop_while p s).
Proof. induction s as [|c s IH]; simpl; [exact I|]. destruct (p c) eqn:E; simpl; auto. Qed.

(* a maximal run is unique *)
Lemma run_unique p : forall W1 r1 W2 r2,
  sall p W1 = true -> sall p W2 = true -> nohead p r1 -> nohead p r2 ->
  W1 ++ r1 = W2 ++ r2 -> W1 = W2 /\ r1 = r2.
Proof.
  induction W1 as [|c W1 IH]; intros r1 W2 r2 H1 H2 N1 N2 E.
  - destruct W2 as [|d W2]; [auto|]. simpl in *. subst r1. simpl in N1.
    apply andb_true_iff in H2 as [H2 _]. congruence.
  - destruct W2 as [|d W2]; simpl in *.
    + subst r2. simpl in N2. apply andb_true_iff in H1 as [H1 _]. congruence.
    + inversion E; subst. apply andb_true_iff in H1 as [_ H1]. apply andb_true_iff in H2 as [_ H2].
      destruct (IH r1 W2 r2 H1 H2 N1 N2 H3) as [-> ->]. auto.
Qed.

(* ---- combinators ---- *)
Section Inv.
  Variable R : Type.
  Implicit Types (k : string -> option R) (x : R).

  Lemma star_some p k : forall s x, star p k s = Some x ->
    exists a b, s = a ++ b /\ sall p a = true /\ k b = Some x.
  Proof.
    induction s as [|c s IH]; intros x H; simpl in H.
    - exists "", "". auto.
    - destruct (p c) eqn:E.
      + destruct (star p k s) as [y|] eqn:Es.
        * inversion H; subst. destruct (IH x eq_refl) as (a & b & -> & Ha & Hk).
          exists (String c a), b. simpl. rewrite E. auto.
        * exists "", (String c s). auto.
      + exists "", (String c s). auto.
  Qed.

  Lemma star_none p k : forall s, star p k s = None ->
    forall a b, s = a ++ b -> sall p a = true -> k b = None.
  Proof.
    induction s as [|c s IH]; intros H a b E Ha; simpl in H.
    - symmetry in E. apply app_nil_inv in E as [-> ->]. exact H.
    - destruct a as [|d a]; simpl in E.
      + subst b. destruct (p c); [destruct (star p k s); [discriminate | exact H] | exact H].
      + inversion E; subst. simpl in Ha. apply andb_true_iff in Ha as [Hd Ha]. rewrite Hd in H.
        destruct (star p k (a ++ b)) eqn:Es; [discriminate|]. eapply IH; eauto.
  Qed.

  Lemma plus_some p k s x : plus p k s = Some x ->
    exists c a b, s = String c (a ++ b) /\ p c = true /\ sall p a = true /\ k b = Some x.
  Proof.
    destruct s as [|c s]; simpl; [discriminate|]. destruct (p c) eqn:E; [|discriminate].
    intro H. apply star_some in H as (a & b & -> & Ha & Hk). exists c, a, b. auto.
  Qed.

  Lemma plus_none p k c a b : plus p k (String c (a ++ b)) = None ->
    p c = true -> sall p a = true -> k b = None.
  Proof. simpl. intros H Hc Ha. rewrite Hc in H. eapply star_none; eauto. Qed.

  Lemma plus_nohead p k c s : p c = false -> plus p k (String c s) = None.
  Proof. simpl. now intros ->. Qed.

  Lemma lit_some a k s x : lit a k s = Some x -> exists s', s = String a s' /\ k s' = Some x.
  Proof.
    destruct s as [|c s]; simpl; [discriminate|]. destruct (Ascii.eqb c a) eqn:E; [|discriminate].
    apply Ascii.eqb_eq in E. subst. eauto.
  Qed.

  Lemma lit_eq a k s : lit a k (String a s) = k s.
  Proof. simpl. now rewrite Ascii.eqb_refl. Qed.

  Lemma cls_some p (k : ascii -> string -> option R) s x : cls p k s = Some x ->
    exists c s', s = String c s' /\ p c = true /\ k c s' = Some x.
  Proof. destruct s as [|c s]; simpl; [discriminate|]. destruct (p c) eqn:E; [|discriminate]. eauto. Qed.

  Lemma alts_some l (k : string -> string -> option R) s x : alts l k s = Some x ->
    exists w rest, In w l /\ s = w ++ rest /\ k w rest = Some x.
  Proof.
    induction l as [|w l IH]; simpl; [discriminate|].
    destruct (strip_prefix w s) as [rest|] eqn:E.
    - destruct (k w rest) as [y|] eqn:Ek.
      + intro H; inversion H; subst. apply strip_prefix_sound in E. exists w, rest. auto.
      + intro H. destruct (IH H) as (w' & r' & ? & ? & ?). exists w', r'. auto.
    - intro H. destruct (IH H) as (w' & r' & ? & ? & ?). exists w', r'. auto.
  Qed.

  Lemma alts_none l (k : string -> string -> option R) s : alts l k s = None ->
    forall w rest, In w l -> s = w ++ rest -> k w rest = None.
  Proof.
    induction l as [|w l IH]; simpl; intros H w' rest Hin E; [contradiction|].
    destruct (strip_prefix w s) as [r0|] eqn:Es.
    - destruct (k w r0) eqn:Ek; [discriminate|].
      destruct Hin as [<- | Hin]; [|eauto].
      subst s. rewrite strip_prefix_app in Es. inversion Es; subst. exact Ek.
    - destruct Hin as [<- | Hin]; [|eauto].
      subst s. rewrite strip_prefix_app in Es. discriminate.
  Qed.

  Lemma plus4_unfold (k : nat -> string -> option R) n s' :
    plus4 n k (String sp (String sp (String sp (String sp s')))) =
    match plus4 (S n) k s' with Some r => Some r | None => k (S n) s' end.
  Proof. reflexivity. Qed.

  Lemma plus4_some (k : nat -> string -> option R) : forall s n x, plus4 n k s = Some x ->
    exists j rest, s = rep (4 * S j) sp ++ rest /\ k (n + S j) rest = Some x.
  Proof.
    fix IH 1. intros s n x H.
    destruct s as [|c1 [|c2 [|c3 [|c4 s']]]]; try discriminate H.
    cbn [plus4] in H.
    destruct (Ascii.eqb c1 sp && Ascii.eqb c2 sp && Ascii.eqb c3 sp && Ascii.eqb c4 sp) eqn:E; [|discriminate].
    apply andb_true_iff in E as [E E4]. apply andb_true_iff in E as [E E3]. apply andb_true_iff in E as [E1 E2].
    apply Ascii.eqb_eq in E1, E2, E3, E4. subst.
    destruct (plus4 (S n) k s') as [y|] eqn:Ep.
    - inversion H; subst. apply IH in Ep as (j & rest & -> & Hk).
      exists (S j), rest. split.
      + replace (4 * S (S j)) with (4 + 4 * S j) by lia. reflexivity.
      + replace (n + S (S j)) with (S n + S j) by lia. exact Hk.
    - exists 0, s'. split; [reflexivity|]. now replace (n + 1) with (S n) by lia.
  Qed.

  Lemma plus4_none (k : nat -> string -> option R) : forall j s n rest, plus4 n k s = None ->
    s = rep (4 * S j) sp ++ rest -> k (n + S j) rest = None.
  Proof.
    induction j as [|j IH]; intros s n rest H E.
    - subst s. change (rep (4 * 1) sp ++ rest) with (String sp (String sp (String sp (String sp rest)))) in H.
      rewrite plus4_unfold in H. destruct (plus4 (S n) k rest); [discriminate|].
      now replace (n + 1) with (S n) by lia.
    - subst s. replace (4 * S (S j)) with (4 + 4 * S j) in H by lia.
      change (rep (4 + 4 * S j) sp ++ rest) with (String sp (String sp (String sp (String sp (rep (4 * S j) sp ++ rest))))) in H.
      rewrite plus4_unfold in H. destruct (plus4 (S n) k (rep (4 * S j) sp ++ rest)) eqn:Ep; [discriminate|].
      replace (n + S (S j)) with (S n + S j) by lia. eapply IH; eauto.
  Qed.
End Inv.
