(* Proofs/C20Pins.v — C20, T0: the literals Model/FixWs.v and Model/Wrap.v were written against, compared with
   what the harness regenerates from /repo on every run (Gen/C20Lit.v).  Boolean comparisons (always compile); the
   harness evaluates each one inside coqc on every run and records it as a T0 obligation, so that a changed literal
   is reported as such and the theorems about the models stay checked.  In Coq strings a backslash is an ordinary
   character, so the expected values below are the raw regex sources. *)
From GV Require Import Base.Str Gen.C20Lit Model.FixWs Model.Wrap.

Definition pairs_eqb := list_eqb (pair_eqb String.eqb String.eqb).

Definition pin_fw_subs : bool := pairs_eqb fw_subs
  [ ("[ ]+\n", s1 nl);
    ("\s+\n\s*\n\s*\n(class|def|@|#|_)", "\n\n\n\1");
    ("\s+\n\s*\n((    )+)(\w|_|@|#)", "\n\n\1\3") ].

Definition pin_numbered_list_regex : bool := String.eqb numbered_list_regex "^\d+\. ".

Definition pin_wrap_subs : bool := pairs_eqb wrap_subs [ (":\n([^\n])", ":\n\n\1") ].

Definition pin_wrap_textwrap_wrap_call : bool := pairs_eqb wrap_tw_wrap_kwargs
  [("break_long_words", "False"); ("break_on_hyphens", "False"); ("width", "width - offset")].

Definition pin_wrap_textwrap_fill_call : bool := pairs_eqb wrap_tw_fill_kwargs
  [("break_long_words", "False"); ("break_on_hyphens", "False"); ("initial_indent", "' ' * indent");
   ("subsequent_indent", "' ' * indent + ' ' * get_subsequent_line_indentation_level(token.strip())");
   ("text", "token"); ("width", "width")].

Definition pin_wrap_numbers : bool := list_eqb String.eqb wrap_numbers ["0"; "0.75"; "1"].

Definition pin_rst : bool := String.eqb rst_search_re "[|*`_[\]]" &&
  pairs_eqb rst_wrap_kwargs [("indent", "indent"); ("offset", "indent + 3"); ("width", "width - indent")].

(* the prologue of wrap: expandtabs() without argument, then lstrip of exactly the characters of is_lblank *)
Fixpoint upto (n : nat) : list N := match n with O => [] | S n' => (upto n' ++ [N.of_nat n'])%list end.
Definition pin_wrap_prologue : bool :=
  match wrap_prologue_calls with
  | [[]; [blanks]] =>
      String.eqb blanks (sx [32;9;11;12;13;28;29;30;31]%N) &&
      forallb (fun n => Bool.eqb (is_lblank (chr n)) (contains (chr n) blanks)) (upto 256)
  | _ => false
  end.

(* the tail of rst: one literal replace (the terminator by its escaped form = esc3), the two endswith tests in order, and
   what is appended *)
Definition pin_rst_tail : bool :=
  pairs_eqb rst_replaces [(String dq (String dq (String dq "")), esc3)] &&
  list_eqb String.eqb rst_endswith [s1 bs; s1 dq] &&
  list_eqb String.eqb rst_appends ["'\n' + ' ' * indent"; "' '"; "'.'"].

(* on the tree the models were written against, every pin holds *)
Definition all_pins : list (string * bool) :=
  [("fix_whitespace: the three re.sub patterns and replacement templates, in order", pin_fw_subs);
   ("lines.NUMBERED_LIST_REGEX", pin_numbered_list_regex);
   ("wrap: the colon re.sub pattern and template", pin_wrap_subs);
   ("wrap: keyword arguments of the textwrap.wrap call", pin_wrap_textwrap_wrap_call);
   ("wrap: keyword arguments of the textwrap.fill call", pin_wrap_textwrap_fill_call);
   ("wrap: numeric constants (0, 0.75, 1)", pin_wrap_numbers);
   ("rst: the re.search pattern and the arguments of the wrap call", pin_rst);
   ("wrap: the prologue text.expandtabs().lstrip(blanks), blanks = the class is_lblank of the model", pin_wrap_prologue);
   ("rst: the literal replace, the endswith tests and the appended strings of its tail", pin_rst_tail)].
