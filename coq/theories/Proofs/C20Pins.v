(* Proofs/C20Pins.v — C20, T0: the literals Model/FixWs.v and Model/Wrap.v were written against, compared with
   what the harness regenerates from /repo on every run (Gen/C20Lit.v).  Boolean comparisons (always compile); the
   harness evaluates each one inside coqc on every run and records it as a T0 obligation, so that a changed literal
   is reported as such and the theorems about the models stay checked.  In Coq strings a backslash is an ordinary
   character, so the expected values below are the raw regex sources. *)
From GV Require Import Base.Str Gen.C20Lit.

Definition pairs_eqb := list_eqb (pair_eqb String.eqb String.eqb).

Definition pin_fw_subs : bool := pairs_eqb fw_subs
  [ ("[ ]+\n", s1 nl);
    ("\s+\n\s*\n\s*\n(class|def|@|#|_)", "\n\n\n\1");
    ("\s+\n\s*\n((    )+)(\w|_|@|#)", "\n\n\1\3") ].

Definition pin_numbered_list_regex : bool := String.eqb numbered_list_regex "^\d+\. ".

Definition pin_wrap_subs : bool := pairs_eqb wrap_subs [ (":\n([^\n])", ":\n\n\1") ].

Definition pin_wrap_textwrap_wrap_call : bool := pairs_eqb wrap_tw_wrap_kwargs
  [("break_long_words", "False"); ("break_on_hyphens", "False"); ("width", "width - offset")].

Definition pin_wrap_textwrap_fill_call : bool := pairs_eqb wrap_tw_fill_kwargs
  [("break_long_words", "False"); ("break_on_hyphens", "False"); ("initial_indent", "' ' * indent");
   ("subsequent_indent", "' ' * indent + ' ' * get_subsequent_line_indentation_level(token.strip())");
   ("text", "token"); ("width", "width")].

Definition pin_wrap_numbers : bool := list_eqb String.eqb wrap_numbers ["0"; "0.75"; "1"].

Definition pin_rst : bool := String.eqb rst_search_re "[|*`_[\]]" &&
  pairs_eqb rst_wrap_kwargs [("indent", "indent"); ("offset", "indent + 3"); ("width", "width - indent")].

(* on the tree the models were written against, every pin holds *)
Definition all_pins : list (string * bool) :=
  [("fix_whitespace: the three re.sub patterns and replacement templates, in order", pin_fw_subs);
   ("lines.NUMBERED_LIST_REGEX", pin_numbered_list_regex);
   ("wrap: the colon re.sub pattern and template", pin_wrap_subs);
   ("wrap: keyword arguments of the textwrap.wrap call", pin_wrap_textwrap_wrap_call);
   ("wrap: keyword arguments of the textwrap.fill call", pin_wrap_textwrap_fill_call);
   ("wrap: numeric constants (0, 0.75, 1)", pin_wrap_numbers);
   ("rst: the re.search pattern and the arguments of the wrap call", pin_rst)].
