(* Proofs/C20Pins.v — C20, T0: the literals Model/FixWs.v and Model/Wrap.v were written against, compared with
   what the harness regenerates from /repo on every run (Gen/C20Lit.v).  In Coq strings a backslash is an
   ordinary character, so the right-hand sides below are the raw regex sources. *)
From GV Require Import Base.Str Gen.C20Lit.

Lemma pin_fw_subs : fw_subs =
  [ ("[ ]+\n", s1 nl);
    ("\s+\n\s*\n\s*\n(class|def|@|#|_)", "\n\n\n\1");
    ("\s+\n\s*\n((    )+)(\w|_|@|#)", "\n\n\1\3") ].
Proof. reflexivity. Qed.

Lemma pin_numbered_list_regex : numbered_list_regex = "^\d+\. ".
Proof. reflexivity. Qed.

Lemma pin_wrap_subs : wrap_subs = [ (":\n([^\n])", ":\n\n\1") ].
Proof. reflexivity. Qed.

Lemma pin_wrap_textwrap_calls :
  wrap_tw_wrap_kwargs = [("break_long_words", "False"); ("break_on_hyphens", "False"); ("width", "width - offset")] /\
  wrap_tw_fill_kwargs = [("break_long_words", "False"); ("break_on_hyphens", "False"); ("initial_indent", "' ' * indent");
                         ("subsequent_indent", "' ' * indent + ' ' * get_subsequent_line_indentation_level(token.strip())");
                         ("text", "token"); ("width", "width")] /\
  wrap_numbers = ["0"; "0.75"; "1"].
Proof. repeat split; reflexivity. Qed.

Lemma pin_rst : rst_search_re = "[|*`_[\]]" /\
  rst_wrap_kwargs = [("indent", "indent"); ("offset", "indent + 3"); ("width", "width - indent")].
Proof. split; reflexivity. Qed.
