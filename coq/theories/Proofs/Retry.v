(* Proofs/Retry.v — lemmas about Model/Retry.v (C09). *)
From Coq Require Import QArith Qminmax Lqa Lia.
From GV Require Import Base.Str Gen.RetryGen Model.Retry.
Open Scope string_scope.
Open Scope Q_scope.

(* ------------------------------------------------------------------ pins (T0): what the model was written against *)
Example pin_template_sync : TEMPLATE_SYNC =
  [("initial", "method.retry.initial_backoff", ["method.retry"; "method.retry.initial_backoff"]);
   ("maximum", "method.retry.max_backoff", ["method.retry"; "method.retry.max_backoff"]);
   ("multiplier", "method.retry.backoff_multiplier", ["method.retry"; "method.retry.backoff_multiplier"]);
   ("deadline", "method.timeout", ["method.retry"]);
   ("default_timeout", "method.timeout", [])].
Proof. reflexivity. Qed.
Example pin_template_async : TEMPLATE_ASYNC = TEMPLATE_SYNC.
Proof. reflexivity. Qed.
Example pin_api_core_defaults : DEFAULT_INITIAL = 1 /\ DEFAULT_MAXIMUM = 60 # 1 /\ DEFAULT_MULTIPLIER = 2 # 1.
Proof. repeat split. Qed.

(* ------------------------------------------------------------------ selector *)
Lemma selector_matches_spec : forall service method n,
  selector_matches service method n = true <-> n = mkName (Some service) (Some method).
Proof.
  intros service method [s m]. unfold selector_matches. simpl. split.
  - intro H. apply andb_true_iff in H. destruct H as [H1 H2].
    destruct s as [s|]; [|discriminate]. destruct m as [m|]; [|discriminate]. simpl in *.
    apply String.eqb_eq in H1. apply String.eqb_eq in H2. now subst.
  - intro H. inversion H. subst. simpl. now rewrite !String.eqb_refl.
Qed.

Lemma names_method_spec : forall service method mc,
  names_method service method mc = true <-> In (mkName (Some service) (Some method)) (mc_names mc).
Proof.
  intros service method mc. unfold names_method. rewrite existsb_exists. split.
  - intros [n [Hin Hm]]. apply selector_matches_spec in Hm. now subst.
  - intro H. exists (mkName (Some service) (Some method)). split; [exact H|]. now apply selector_matches_spec.
Qed.

Definition service_wide (service : string) (n : name_sel) : Prop :=
  n = mkName (Some service) None \/ n = mkName (Some service) (Some "").

Lemma service_wide_matches_spec : forall service n,
  service_wide_matches service n = true <-> service_wide service n.
Proof.
  intros service [s m]. unfold service_wide_matches, service_wide. simpl. split.
  - intro H. apply andb_true_iff in H. destruct H as [H1 H2].
    destruct s as [s|]; [|discriminate]. simpl in H1. apply String.eqb_eq in H1. subst s.
    destruct m as [m|]; [|now left]. right. destruct m; [reflexivity|discriminate].
  - intros [H|H]; inversion H; subst; simpl; now rewrite String.eqb_refl.
Qed.

Lemma names_service_spec : forall service mc,
  names_service service mc = true <-> exists n, In n (mc_names mc) /\ service_wide service n.
Proof.
  intros service mc. unfold names_service. rewrite existsb_exists. split.
  - intros [n [Hin Hm]]. exists n. split; [exact Hin|]. now apply service_wide_matches_spec.
  - intros [n [Hin Hm]]. exists n. split; [exact Hin|]. now apply service_wide_matches_spec.
Qed.

(* find returns the FIRST element of the list that satisfies the test *)
Lemma find_first_spec : forall (A : Type) (f : A -> bool) (l : list A) (x : A),
  find f l = Some x <->
  exists pre post, l = (pre ++ x :: post)%list /\ f x = true /\ (forall c, In c pre -> f c = false).
Proof.
  intros A f l x. split.
  - induction l as [|c l IH]; simpl; [discriminate|].
    destruct (f c) eqn:E.
    + intro H. inversion H. subst. exists [], l. repeat split; [exact E | intros c' []].
    + intro H. destruct (IH H) as [pre [post [E1 [E2 E3]]]]. exists (c :: pre), post. repeat split.
      * simpl. now rewrite E1.
      * exact E2.
      * intros c' [Hc|Hc]; [now subst c' | now apply E3].
  - intros [pre [post [E1 [E2 E3]]]]. subst l.
    induction pre as [|c pre IH]; simpl.
    + now rewrite E2.
    + rewrite (E3 c (or_introl eq_refl)). apply IH. intros c' Hc. apply E3. now right.
Qed.

Lemma find_none_iff : forall (A : Type) (f : A -> bool) (l : list A),
  find f l = None <-> (forall c, In c l -> f c = false).
Proof.
  intros A f l. split.
  - intros H c Hc. exact (find_none f l H c Hc).
  - intro H. induction l as [|c l IH]; simpl; [reflexivity|].
    rewrite (H c (or_introl eq_refl)). apply IH. intros c' Hc. apply H. now right.
Qed.

Definition names_exactly (service method : string) (mc : method_config) : Prop :=
  In (mkName (Some service) (Some method)) (mc_names mc).
Definition names_whole_service (service : string) (mc : method_config) : Prop :=
  exists n, In n (mc_names mc) /\ service_wide service n.

Lemma names_method_false : forall service method mc,
  names_method service method mc = false <-> ~ names_exactly service method mc.
Proof.
  intros. unfold names_exactly. rewrite <- names_method_spec.
  destruct (names_method service method mc); split; intro H.
  - discriminate.
  - exfalso. apply H. reflexivity.
  - intro K. discriminate.
  - reflexivity.
Qed.

Lemma names_service_false : forall service mc,
  names_service service mc = false <-> ~ names_whole_service service mc.
Proof.
  intros. unfold names_whole_service. rewrite <- names_service_spec.
  destruct (names_service service mc); split; intro H.
  - discriminate.
  - exfalso. apply H. reflexivity.
  - intro K. discriminate.
  - reflexivity.
Qed.

(* first stage: the first entry of the list that names the method exactly *)
Lemma selector_first_match : forall cfg service method mc,
  lookup_exact cfg service method = Some mc <->
  exists pre post, cfg = (pre ++ mc :: post)%list /\ names_exactly service method mc /\
                   (forall c, In c pre -> ~ names_exactly service method c).
Proof.
  intros cfg service method mc. unfold lookup_exact. rewrite find_first_spec. split;
    intros [pre [post [E1 [E2 E3]]]]; exists pre, post; repeat split; try exact E1.
  - now apply names_method_spec.
  - intros c Hc. apply names_method_false. now apply E3.
  - now apply names_method_spec.
  - intros c Hc. apply names_method_false. now apply E3.
Qed.

(* the two-stage lookup: an exact name anywhere in the list beats every service-wide name; without one, the first
   entry that names the whole service applies *)
Lemma selector_exact_then_service : forall cfg service method mc,
  lookup cfg service method = Some mc <->
  (exists pre post, cfg = (pre ++ mc :: post)%list /\ names_exactly service method mc /\
                    (forall c, In c pre -> ~ names_exactly service method c))
  \/
  ((forall c, In c cfg -> ~ names_exactly service method c) /\
   exists pre post, cfg = (pre ++ mc :: post)%list /\ names_whole_service service mc /\
                    (forall c, In c pre -> ~ names_whole_service service c)).
Proof.
  intros cfg service method mc. unfold lookup.
  destruct (lookup_exact cfg service method) as [mc'|] eqn:E.
  - split.
    + intro H. inversion H. subst mc'. left. now apply selector_first_match.
    + intros [H|[H _]].
      * apply selector_first_match in H. congruence.
      * exfalso. apply selector_first_match in E. destruct E as [pre [post [E1 [E2 _]]]].
        apply (H mc'); [subst cfg; apply in_or_app; right; now left | exact E2].
  - unfold lookup_exact in E. rewrite find_none_iff in E.
    unfold lookup_service. rewrite find_first_spec. split.
    + intros [pre [post [E1 [E2 E3]]]]. right. split.
      * intros c Hc. apply names_method_false. now apply E.
      * exists pre, post. repeat split; [exact E1 | now apply names_service_spec |].
        intros c Hc. apply names_service_false. now apply E3.
    + intros [[pre [post [E1 [E2 _]]]]|[_ [pre [post [E1 [E2 E3]]]]]].
      * exfalso. apply names_method_spec in E2. rewrite (E mc) in E2; [discriminate|].
        subst cfg. apply in_or_app. right. now left.
      * exists pre, post. repeat split; [exact E1 | now apply names_service_spec |].
        intros c Hc. apply names_service_false. now apply E3.
Qed.

Lemma lookup_none : forall cfg service method,
  lookup cfg service method = None <->
  (forall c, In c cfg -> ~ names_exactly service method c /\ ~ names_whole_service service c).
Proof.
  intros cfg service method. unfold lookup, lookup_exact, lookup_service. split.
  - destruct (find (names_method service method) cfg) eqn:E; [discriminate|].
    intros H c Hc. rewrite find_none_iff in E, H. split.
    + apply names_method_false. now apply E.
    + apply names_service_false. now apply H.
  - intro H.
    assert (E : find (names_method service method) cfg = None).
    { apply find_none_iff. intros c Hc. apply names_method_false. now apply H. }
    rewrite E. apply find_none_iff. intros c Hc. apply names_service_false. now apply H.
Qed.

(* a service-wide entry applies to every method of the service that no entry names exactly *)
Lemma service_wide_entry_applies : forall cfg service method mc,
  (forall c, In c cfg -> ~ names_exactly service method c) ->
  In mc cfg -> names_whole_service service mc ->
  exists mc', lookup cfg service method = Some mc' /\ names_whole_service service mc'.
Proof.
  intros cfg service method mc Hno Hin Hw.
  destruct (lookup cfg service method) as [mc'|] eqn:E.
  - exists mc'. split; [reflexivity|]. apply selector_exact_then_service in E.
    destruct E as [[pre [post [E1 [E2 _]]]]|[_ [pre [post [_ [E2 _]]]]]]; [|exact E2].
    exfalso. apply (Hno mc'); [subst cfg; apply in_or_app; right; now left | exact E2].
  - exfalso. rewrite lookup_none in E. destruct (E mc Hin) as [_ K]. now apply K.
Qed.

(* ------------------------------------------------------------------ _to_float *)
(* positional value of a run of digits *)
Fixpoint dec_value (s : string) : Z :=
  match s with
  | EmptyString => 0%Z
  | String c s' => ((Z.of_N (ord c) - 48) * 10 ^ Z.of_nat (String.length s') + dec_value s')%Z
  end.

Lemma parse_digits_positional : forall s acc,
  sall is_digit s = true ->
  parse_digits s acc = Some (acc * 10 ^ Z.of_nat (String.length s) + dec_value s)%Z.
Proof.
  induction s as [|c s IH]; intros acc H.
  - simpl. f_equal. ring.
  - cbn [sall] in H. apply andb_true_iff in H. destruct H as [Hc Hs].
    cbn [parse_digits dec_value String.length]. unfold digit_of. rewrite Hc.
    rewrite (IH _ Hs). f_equal.
    rewrite Nat2Z.inj_succ, Z.pow_succ_r by lia. ring.
Qed.

Lemma parse_digits_nondigit : forall a c b acc,
  is_digit c = false -> parse_digits (a ++ String c b) acc = None \/ sall is_digit a = false.
Proof.
  induction a as [|x a IH]; intros c b acc H; simpl.
  - left. unfold digit_of. now rewrite H.
  - unfold digit_of. destruct (is_digit x) eqn:E; simpl; [|now right].
    apply IH. exact H.
Qed.

Lemma drop_last_snoc : forall s c, drop_last (s ++ String c EmptyString) = s.
Proof.
  induction s as [|x s IH]; intro c; simpl; [reflexivity|].
  rewrite IH. destruct (s ++ String c "")%string eqn:E; [|reflexivity].
  destruct s; discriminate.
Qed.

Lemma last_char_snoc : forall s c, last_char (s ++ String c EmptyString) = Some c.
Proof.
  induction s as [|x s IH]; intro c; simpl; [reflexivity|].
  rewrite IH. destruct (s ++ String c "")%string eqn:E; [|reflexivity].
  destruct s; discriminate.
Qed.

Lemma digits_no_dot : forall s, sall is_digit s = true -> contains "."%char s = false.
Proof.
  induction s as [|c s IH]; simpl; intro H; [reflexivity|].
  apply andb_true_iff in H. destruct H as [Hc Hs]. rewrite (IH Hs), orb_false_r.
  destruct (Ascii.eqb c ".") eqn:E; [|reflexivity].
  apply Ascii.eqb_eq in E. subst c. discriminate.
Qed.

Lemma split_dot_app : forall ip fp, contains "."%char ip = false -> split_dot (ip ++ "." ++ fp) = (ip, Some fp).
Proof.
  induction ip as [|c ip IH]; intros fp H; simpl in *; [reflexivity|].
  apply orb_false_iff in H. destruct H as [Hc Hi]. rewrite Hc. now rewrite (IH fp Hi).
Qed.

Lemma split_dot_nodot : forall s, contains "."%char s = false -> split_dot s = (s, None).
Proof.
  induction s as [|c s IH]; simpl; intro H; [reflexivity|].
  apply orb_false_iff in H. destruct H as [Hc Hi]. rewrite Hc. now rewrite (IH Hi).
Qed.

Lemma pow10_Z : forall n, Zpos (pow10 n) = (10 ^ Z.of_nat n)%Z.
Proof.
  induction n as [|n IH]; [reflexivity|].
  cbn [pow10]. rewrite Pos2Z.inj_mul, IH, Nat2Z.inj_succ, Z.pow_succ_r by lia. reflexivity.
Qed.

(* a digit is neither a sign nor the letter n *)
Lemma digit_not_sign : forall c, is_digit c = true -> c <> "-"%char /\ c <> "+"%char /\ c <> "n"%char.
Proof. intros c H. repeat split; intro E; subst c; discriminate. Qed.

Lemma parse_decimal_unsigned : forall s,
  (forall s', s <> String "-" s') -> (forall s', s <> String "+" s') -> parse_decimal s = parse_unsigned s.
Proof.
  intros s H1 H2. unfold parse_decimal. destruct s as [|c s]; [reflexivity|].
  destruct c as [[] [] [] [] [] [] [] []]; try reflexivity.
  - exfalso. now apply (H2 s).
  - exfalso. now apply (H1 s).
Qed.

Lemma starts_digit_or_dot : forall ip rest c0,
  sall is_digit ip = true -> (c0 = "-"%char \/ c0 = "+"%char) -> forall s', (ip ++ "." ++ rest)%string <> String c0 s'.
Proof.
  intros ip rest c0 H Hc s' E. destruct ip as [|c ip]; simpl in *.
  - inversion E. destruct Hc; subst; discriminate.
  - apply andb_true_iff in H. destruct H as [Hd _]. inversion E. subst c0.
    apply digit_not_sign in Hd. destruct Hd as [A [B _]]. destruct Hc; contradiction.
Qed.

(* the literal  ip . fp  followed by the unit letter: the value is  ip + fp / 10^|fp|  exactly *)
Lemma to_float_exact : forall ip fp,
  sall is_digit ip = true -> sall is_digit fp = true -> (ip <> "" \/ fp <> "") ->
  exists q, to_float (ip ++ "." ++ fp ++ "s") = Some q /\
            q == inject_Z (dec_value ip) + inject_Z (dec_value fp) / inject_Z (10 ^ Z.of_nat (String.length fp)).
Proof.
  intros ip fp Hi Hf Hne.
  replace (ip ++ "." ++ fp ++ "s")%string with ((ip ++ "." ++ fp) ++ "s")%string
    by (rewrite !sapp_assoc; reflexivity).
  unfold to_float. rewrite last_char_snoc, drop_last_snoc.
  rewrite parse_decimal_unsigned
    by (intros s'; apply starts_digit_or_dot; [exact Hi | (now left) || (now right)]).
  unfold parse_unsigned. rewrite (split_dot_app ip fp (digits_no_dot ip Hi)).
  assert (Hemp : is_empty ip && is_empty fp = false).
  { destruct Hne as [H|H]; destruct ip, fp; simpl; try reflexivity; now contradiction H. }
  rewrite Hemp.
  rewrite (parse_digits_positional ip 0 Hi), (parse_digits_positional fp 0 Hf). simpl Z.mul. simpl Z.add.
  eexists. split; [reflexivity|].
  rewrite Qmake_Qdiv. rewrite pow10_Z.
  set (P := (10 ^ Z.of_nat (String.length fp))%Z).
  assert (HP : ~ inject_Z P == 0).
  { unfold P. intro K. unfold Qeq in K. simpl in K. rewrite Z.mul_1_r in K.
    pose proof (Z.pow_pos_nonneg 10 (Z.of_nat (String.length fp))). lia. }
  rewrite inject_Z_plus, inject_Z_mult. field. exact HP.
Qed.

Lemma to_float_exact_int : forall ip,
  sall is_digit ip = true -> ip <> "" -> to_float (ip ++ "s") = Some (inject_Z (dec_value ip)).
Proof.
  intros ip Hi Hne. unfold to_float. rewrite last_char_snoc, drop_last_snoc.
  rewrite parse_decimal_unsigned.
  - unfold parse_unsigned. rewrite (split_dot_nodot ip (digits_no_dot ip Hi)).
    destruct ip; [now contradiction Hne|]. cbn [is_empty].
    rewrite (parse_digits_positional _ 0 Hi). reflexivity.
  - intros s' E. subst ip. simpl in Hi. discriminate.
  - intros s' E. subst ip. simpl in Hi. discriminate.
Qed.

(* the nanosecond form *)
Lemma to_float_exact_nanos : forall ip,
  sall is_digit ip = true -> ip <> "" -> to_float (ip ++ "n") = Some (dec_value ip # 1000000000).
Proof.
  intros ip Hi Hne. unfold to_float. rewrite last_char_snoc, drop_last_snoc.
  unfold parse_int. destruct ip as [|c ip]; [now contradiction Hne|].
  assert (Hd : is_digit c = true) by (simpl in Hi; now apply andb_true_iff in Hi).
  destruct (digit_not_sign c Hd) as [A [B _]].
  destruct c as [[] [] [] [] [] [] [] []]; try (now contradiction A); try (now contradiction B);
    cbn [is_empty]; rewrite (parse_digits_positional _ 0 Hi); reflexivity.
Qed.

Example to_float_examples :
  to_float "0.5s" = Some (5 # 10) /\ to_float "1.250s" = Some (1250 # 1000) /\ to_float "60s" = Some (60 # 1)
  /\ to_float "500000000n" = Some (500000000 # 1000000000) /\ to_float "s" = None /\ to_float "" = None
  /\ sall is_digit "1" = true /\ sall is_digit "250" = true /\ dec_value "250" = 250%Z.
Proof. repeat split. Qed.

(* ------------------------------------------------------------------ the status-code table *)
Definition ERR_CODES : list string := filter (fun c => negb (String.eqb c "OK")) STATUS_CODES.

(* finite, re-evaluated over the regenerated tables: the class printed for a code catches exactly that code *)
Lemma class_table_exact :
  forallb (fun code => forallb (fun c =>
     Bool.eqb (match class_of_code code with Some k => class_accepts k c | None => false end) (String.eqb code c))
     ERR_CODES) ERR_CODES = true.
Proof. vm_compute. reflexivity. Qed.

Lemma class_table_point : forall code c, In code ERR_CODES -> In c ERR_CODES ->
  exists k, class_of_code code = Some k /\ class_accepts k c = String.eqb code c.
Proof.
  intros code c H1 H2. pose proof class_table_exact as T.
  rewrite forallb_forall in T. specialize (T code H1). rewrite forallb_forall in T.
  pose proof (T c H2) as Tc. pose proof (T code H1) as Tcode. clear T.
  destruct (class_of_code code) as [k|].
  - exists k. split; [reflexivity|]. now apply Bool.eqb_prop in Tc.
  - rewrite String.eqb_refl in Tcode. discriminate.
Qed.

(* the code as it is: the entry OK is printed as the base class, which catches every error *)
Lemma ok_code_catches_everything :
  exists k, class_of_code "OK" = Some k /\ forallb (fun c => class_accepts k c) ERR_CODES = true.
Proof. eexists. split; [reflexivity|]. vm_compute. reflexivity. Qed.

Lemma insert_sorted_In : forall x y l, In x (insert_sorted y l) <-> x = y \/ In x l.
Proof.
  intros x y l. induction l as [|z l IH]; simpl.
  - split; intros [H|H]; auto.
  - destruct (String.eqb y z) eqn:E.
    + apply String.eqb_eq in E. subst z. simpl. split; intros H; [now right|]. destruct H as [H|H]; [left; now symmetry | exact H].
    + destruct (String.ltb y z); simpl.
      * split; intros [H|H]; auto.
      * rewrite IH. split; intros H.
        -- destruct H as [H|[H|H]]; auto.
        -- destruct H as [H|[H|H]]; auto.
Qed.

Lemma sort_set_In : forall x l, In x (sort_set l) <-> In x l.
Proof.
  intros x l. induction l as [|y l IH]; simpl; [reflexivity|].
  rewrite insert_sorted_In, IH. split; intros [H|H]; auto.
Qed.

Lemma classes_of_ok : forall codes,
  Forall (fun c => In c ERR_CODES) codes ->
  exists ks, classes_of codes = inr ks /\
             (forall k, In k ks <-> exists code, In code codes /\ class_of_code code = Some k).
Proof.
  induction codes as [|c codes IH]; intro F.
  - exists []. split; [reflexivity|]. intro k. split; [intros [] | intros [code [[] _]]].
  - inversion F as [|? ? Hc Hr]; subst. destruct (IH Hr) as [ks [E S]].
    destruct (class_table_point c c Hc Hc) as [k [Ek _]].
    exists (k :: ks). split.
    + simpl. now rewrite Ek, E.
    + intro k'. simpl. rewrite S. split.
      * intros [H|[code [H1 H2]]]; [subst k'; exists c; auto | exists code; auto].
      * intros [code [[H|H] H2]]; [subst code; left; congruence | right; exists code; auto].
Qed.

Lemma accepts_spec : forall ks c, accepts ks c = true <-> exists k, In k ks /\ class_accepts k c = true.
Proof. intros ks c. unfold accepts. now rewrite existsb_exists. Qed.

Lemma predicate_exact : forall codes,
  Forall (fun c => In c ERR_CODES) codes ->
  exists ks, classes_of codes = inr ks /\
             forall c, In c ERR_CODES -> accepts (sort_set ks) c = mem_str c codes.
Proof.
  intros codes F. destruct (classes_of_ok codes F) as [ks [E S]]. exists ks. split; [exact E|].
  intros c Hc. apply Bool.eq_iff_eq_true. rewrite accepts_spec. unfold mem_str. rewrite existsb_exists. split.
  - intros [k [Hk A]]. rewrite sort_set_In in Hk. rewrite S in Hk. destruct Hk as [code [Hin Hcls]].
    rewrite Forall_forall in F.
    destruct (class_table_point code c (F code Hin) Hc) as [k' [Ek' Ak']].
    rewrite Hcls in Ek'. inversion Ek'. subst k'. rewrite A in Ak'.
    symmetry in Ak'. apply String.eqb_eq in Ak'. subst code.
    exists c. split; [exact Hin | apply String.eqb_refl].
  - intros [code [Hin Heq]]. apply String.eqb_eq in Heq. subst code.
    destruct (class_table_point c c Hc Hc) as [k [Ek Ak]].
    exists k. split.
    + rewrite sort_set_In. rewrite S. exists c. auto.
    + rewrite Ak. apply String.eqb_refl.
Qed.

(* the row printed for an entry with a retry policy, seen through api_core's defaults *)
Lemma table_spec : forall mc rp t ib mb,
  mc_retry mc = Some rp ->
  parse_timeout (mc_timeout mc) = inr t ->
  duration_or_zero (rp_initial rp) = inr ib ->
  duration_or_zero (rp_max rp) = inr mb ->
  Forall (fun c => In c ERR_CODES) (rp_codes rp) ->
  exists er, emit_entry (Some mc) = GenOk (mkE (Some er) t) /\
    let p := effective er in
    let m := match rp_multiplier rp with Some m => m | None => 0 end in
    (if Qeq_bool ib 0 then r_initial p = DEFAULT_INITIAL else r_initial p = ib) /\
    (if Qeq_bool mb 0 then r_maximum p = DEFAULT_MAXIMUM else r_maximum p = mb) /\
    (if Qeq_bool m 0 then r_multiplier p = DEFAULT_MULTIPLIER else r_multiplier p = m) /\
    r_deadline p = t /\ e_timeout (mkE (Some er) t) = t /\
    (forall c, In c ERR_CODES -> accepts (r_classes p) c = mem_str c (rp_codes rp)).
Proof.
  intros mc rp t ib mb R T I M F.
  destruct (predicate_exact (rp_codes rp) F) as [ks [E A]].
  eexists. split.
  - unfold emit_entry, entry_info. rewrite T, R. unfold parse_policy. rewrite I, M, E. reflexivity.
  - unfold effective, render_retry, truthy. simpl.
    repeat split; try reflexivity.
    + destruct (Qeq_bool ib 0); reflexivity.
    + destruct (Qeq_bool mb 0); reflexivity.
    + destruct (Qeq_bool (match rp_multiplier rp with Some m => m | None => 0 end) 0); reflexivity.
    + exact A.
Qed.

Lemma table_no_policy : forall mc t,
  mc_retry mc = None -> parse_timeout (mc_timeout mc) = inr t -> emit_entry (Some mc) = GenOk (mkE None t).
Proof. intros mc t R T. unfold emit_entry, entry_info. now rewrite T, R. Qed.

(* ------------------------------------------------------------------ the retry loop *)
Fixpoint qsum (l : list Q) : Q := match l with [] => 0 | x :: r => x + qsum r end.

Inductive terminal := TOk | TSurface (c : string).
Definition term_reply (t : terminal) : reply := match t with TOk => Ok | TSurface c => Err c end.
Definition term_final (t : terminal) : final := match t with TOk => FOk | TSurface c => FSurfaced c end.

Section LoopFacts.
  Variable jitter : nat -> Q -> Q.
  Hypothesis jitter_bounds : forall i d, 0 <= d -> 0 <= jitter i d /\ jitter i d <= d.
  Variable p : retry_params.
  Hypothesis init_nonneg : 0 <= r_initial p.
  Hypothesis max_nonneg : 0 <= r_maximum p.
  Hypothesis mult_nonneg : 0 <= r_multiplier p.

  Lemma delay_nonneg : forall i, 0 <= delay_at p i.
  Proof.
    induction i as [|i IH]; simpl.
    - apply Q.min_glb; assumption.
    - apply Q.min_glb; [|assumption]. now apply Qmult_le_0_compat.
  Qed.

  Lemma delay_le_max : forall i, delay_at p i <= r_maximum p.
  Proof. destruct i; simpl; apply Q.le_min_r. Qed.

  (* sum of the delay bounds of draws i .. i+n-1 *)
  Fixpoint sum_from (i n : nat) : Q :=
    match n with O => 0 | S n' => delay_at p i + sum_from (S i) n' end.

  Lemma sum_from_nonneg : forall n i, 0 <= sum_from i n.
  Proof.
    induction n as [|n IH]; intro i; simpl; [lra|].
    pose proof (delay_nonneg i). pose proof (IH (S i)). lra.
  Qed.

  Lemma loop_within_deadline : forall codes t term tail i now,
    Forall (fun c => accepts (r_classes p) c = true) codes ->
    match term with TSurface c => accepts (r_classes p) c = false | TOk => True end ->
    (forall D, r_deadline p = Some D -> now + sum_from i (length codes) <= D) ->
    let tr := loop jitter p t (map Err codes ++ term_reply term :: tail)%list i (delay_at p i) now in
    t_attempts tr = S (length codes) /\ t_final tr = term_final term /\
    length (t_sleeps tr) = length codes /\ length (t_timeouts tr) = S (length codes).
  Proof.
    induction codes as [|c codes IH]; intros t term tail i now F Ht HD.
    - destruct term as [|c]; simpl.
      + repeat split.
      + rewrite Ht. repeat split.
    - inversion F as [|? ? Hc Hr]; subst.
      cbn [map app loop]. rewrite Hc.
      set (s := jitter i (delay_at p i)).
      destruct (jitter_bounds i (delay_at p i) (delay_nonneg i)) as [S0 S1]. fold s in S0, S1.
      assert (Hover : match r_deadline p with Some D => negb (Qle_bool (now + s) D) | None => false end = false).
      { destruct (r_deadline p) as [D|] eqn:ED; [|reflexivity].
        specialize (HD D eq_refl). cbn [length sum_from] in HD.
        pose proof (sum_from_nonneg (length codes) (S i)).
        apply negb_false_iff. apply Qle_bool_iff. lra. }
      rewrite Hover.
      specialize (IH t term tail (S i) (now + s) Hr Ht).
      assert (HD' : forall D, r_deadline p = Some D -> now + s + sum_from (S i) (length codes) <= D).
      { intros D ED. specialize (HD D ED). cbn [length sum_from] in HD. lra. }
      specialize (IH HD'). cbn [delay_at] in IH. cbv zeta in IH.
      destruct IH as [A [B [C E]]].
      cbv zeta. cbn [cons_attempt cons_sleep t_attempts t_final t_sleeps t_timeouts length].
      rewrite A, B, C, E. repeat split.
  Qed.

  (* every requested sleep lies between zero and the bound of its draw *)
  Fixpoint bounded_from (i : nat) (sl : list Q) : Prop :=
    match sl with
    | [] => True
    | s :: r => (0 <= s /\ s <= delay_at p i) /\ bounded_from (S i) r
    end.

  Lemma sleep_bounds_loop : forall script t i now,
    bounded_from i (t_sleeps (loop jitter p t script i (delay_at p i) now)).
  Proof.
    induction script as [|r script IH]; intros t i now; [exact I|].
    destruct r as [|c]; [exact I|].
    cbn [loop]. destruct (accepts (r_classes p) c); [|exact I].
    destruct (match r_deadline p with Some D => negb (Qle_bool (now + jitter i (delay_at p i)) D) | None => false end);
      [exact I|].
    cbn [cons_attempt cons_sleep t_sleeps bounded_from]. split.
    - apply jitter_bounds. apply delay_nonneg.
    - apply (IH t (S i)).
  Qed.

  (* the client never starts a sleep that would end after the overall deadline *)
  Lemma deadline_respected_loop : forall script t i delay now D,
    r_deadline p = Some D -> now <= D ->
    now + qsum (t_sleeps (loop jitter p t script i delay now)) <= D.
  Proof.
    induction script as [|r script IH]; intros t i delay now D ED H; [simpl; lra|].
    destruct r as [|c]; [simpl; lra|].
    cbn [loop]. destruct (accepts (r_classes p) c); [|simpl; lra].
    rewrite ED. destruct (Qle_bool (now + jitter i delay) D) eqn:E; cbn [negb]; [|simpl; lra].
    apply Qle_bool_iff in E.
    cbn [cons_attempt cons_sleep t_sleeps qsum].
    specialize (IH t (S i) (Qmin (delay * r_multiplier p) (r_maximum p)) (now + jitter i delay) D ED E). lra.
  Qed.

  Lemma attempt_timeout_some : forall T e, 0 <= e ->
    exists x, attempt_timeout (Some T) e = Some x /\ x <= T /\ (e == 0 -> x == T).
  Proof.
    intros T e He. unfold attempt_timeout. destruct (Qle_bool 1 (T - e)); eexists; (split; [reflexivity|]); split; try lra; try (intro Z; lra).
  Qed.

  Lemma timeouts_bounded_loop : forall script T i now, 0 <= now ->
    Forall (fun o => exists x, o = Some x /\ x <= T) (t_timeouts (loop jitter p (Some T) script i (delay_at p i) now)).
  Proof.
    induction script as [|r script IH]; intros T i now Hn; [constructor|].
    destruct (attempt_timeout_some T now Hn) as [x [Ex [Lx _]]].
    destruct r as [|c]; cbn [loop cons_attempt t_timeouts stop].
    - constructor; [|constructor]. exists x. auto.
    - constructor; [exists x; auto|].
      destruct (accepts (r_classes p) c); [|constructor].
      destruct (match r_deadline p with Some D => negb (Qle_bool (now + jitter i (delay_at p i)) D) | None => false end);
        [constructor|].
      cbn [cons_sleep t_timeouts]. apply (IH T (S i)).
      destruct (jitter_bounds i (delay_at p i) (delay_nonneg i)) as [S0 _]. lra.
  Qed.

  Lemma timeouts_none_loop : forall script i delay now,
    Forall (fun o => o = None) (t_timeouts (loop jitter p None script i delay now)).
  Proof.
    induction script as [|r script IH]; intros i delay now; [constructor|].
    destruct r as [|c]; cbn [loop cons_attempt t_timeouts stop attempt_timeout].
    - constructor; [reflexivity|constructor].
    - constructor; [reflexivity|].
      destruct (accepts (r_classes p) c); [|constructor].
      destruct (match r_deadline p with Some D => negb (Qle_bool (now + jitter i delay) D) | None => false end);
        [constructor|].
      cbn [cons_sleep t_timeouts]. apply IH.
  Qed.

  (* with a multiplier of at least one the bound of the i-th draw is min(initial * multiplier^i, maximum) *)
  Lemma delay_closed_form : 1 <= r_multiplier p ->
    forall i, delay_at p i == Qmin (r_initial p * qpow (r_multiplier p) i) (r_maximum p).
  Proof.
    intros Hm. induction i as [|i IH].
    - simpl. now rewrite Qmult_1_r.
    - cbn [delay_at qpow]. rewrite IH.
      set (a := r_initial p * qpow (r_multiplier p) i).
      assert (Ea : r_initial p * (r_multiplier p * qpow (r_multiplier p) i) == a * r_multiplier p) by (unfold a; ring).
      rewrite Ea.
      set (m := r_multiplier p) in *. set (M := r_maximum p) in *.
      destruct (Q.min_spec a M) as [[L E]|[L E]]; rewrite E.
      + reflexivity.
      + assert (X1 : M <= M * m) by nra.
        assert (X2 : M <= a * m) by nra.
        rewrite (Q.min_r (M * m) M X1). rewrite (Q.min_r (a * m) M X2). reflexivity.
  Qed.
End LoopFacts.

(* an rpc generated as an internal method keeps the defaults of its service-config entry *)
Lemma internal_methods_keep_defaults : forall internal cfg service method,
  row_of internal cfg service method = emit cfg service method /\
  row_of internal cfg service method = row_of false cfg service method.
Proof. intros. split; reflexivity. Qed.

(* ------------------------------------------------------------------ at the level of one client call *)
Section CallFacts.
  Variable jitter : nat -> Q -> Q.
  Hypothesis jitter_bounds : forall i d, 0 <= d -> 0 <= jitter i d /\ jitter i d <= d.

  (* retryable^k then OK (or then a status that is not retryable), the worst-case waits fitting in the overall
     deadline: k+1 attempts, k sleeps, and the outcome is that of the last reply *)
  Lemma attempts_spec : forall p t codes term tail,
    0 <= r_initial p -> 0 <= r_maximum p -> 0 <= r_multiplier p ->
    Forall (fun c => accepts (r_classes p) c = true) codes ->
    match term with TSurface c => accepts (r_classes p) c = false | TOk => True end ->
    (forall D, r_deadline p = Some D -> sum_from p 0 (length codes) <= D) ->
    let tr := run jitter (Some p) t (map Err codes ++ term_reply term :: tail)%list in
    t_attempts tr = S (length codes) /\ t_final tr = term_final term /\
    length (t_sleeps tr) = length codes /\ length (t_timeouts tr) = S (length codes).
  Proof.
    intros p t codes term tail Hi Hm Hk F Ht HD. unfold run.
    change (Qmin (r_initial p) (r_maximum p)) with (delay_at p 0).
    apply (loop_within_deadline jitter jitter_bounds p Hi Hm Hk codes t term tail 0%nat 0 F Ht).
    intros D ED. specialize (HD D ED). lra.
  Qed.

  (* any other error surfaces after one attempt, whatever follows in the script *)
  Lemma non_retryable_single_attempt : forall p t c tail,
    accepts (r_classes p) c = false ->
    let tr := run jitter (Some p) t (Err c :: tail) in
    t_attempts tr = 1%nat /\ t_final tr = FSurfaced c /\ t_sleeps tr = [].
  Proof. intros p t c tail H. simpl. rewrite H. repeat split. Qed.

  Lemma sleep_bounds : forall p t script,
    0 <= r_initial p -> 0 <= r_maximum p -> 0 <= r_multiplier p ->
    bounded_from p 0 (t_sleeps (run jitter (Some p) t script)) /\
    (forall i, 0 <= delay_at p i /\ delay_at p i <= r_maximum p) /\
    (1 <= r_multiplier p -> forall i, delay_at p i == Qmin (r_initial p * qpow (r_multiplier p) i) (r_maximum p)).
  Proof.
    intros p t script Hi Hm Hk. repeat split.
    - unfold run. change (Qmin (r_initial p) (r_maximum p)) with (delay_at p 0).
      apply (sleep_bounds_loop jitter jitter_bounds p Hi Hm Hk).
    - now apply delay_nonneg.
    - apply delay_le_max.
    - intros H1 i. now apply delay_closed_form.
  Qed.

  (* the entry's timeout as overall retry deadline: the waits never add up to more than it *)
  Lemma deadline_respected : forall p t script D,
    r_deadline p = Some D -> 0 <= D -> qsum (t_sleeps (run jitter (Some p) t script)) <= D.
  Proof.
    intros p t script D ED H. unfold run.
    pose proof (deadline_respected_loop jitter p script t 0%nat (Qmin (r_initial p) (r_maximum p)) 0 D ED H). lra.
  Qed.

  (* the entry's timeout as call deadline: first attempt exactly, later attempts never more *)
  Lemma call_deadline : forall r T rep script,
    (exists x, hd_error (t_timeouts (run jitter r (Some T) (rep :: script))) = Some (Some x) /\ x == T) /\
    (forall p, r = Some p -> 0 <= r_initial p -> 0 <= r_maximum p -> 0 <= r_multiplier p ->
       Forall (fun o => exists x, o = Some x /\ x <= T) (t_timeouts (run jitter r (Some T) (rep :: script)))).
  Proof.
    intros r T rep script. split.
    - assert (Z0 : 0 <= 0) by lra.
      destruct (attempt_timeout_some T 0 Z0) as [x [Ex [_ Hx]]].
      exists x. split; [|apply Hx; reflexivity].
      destruct r as [p|]; destruct rep as [|c]; cbn [run single loop cons_attempt t_timeouts hd_error]; now rewrite Ex.
    - intros p Ep Hi Hm Hk. subst r. unfold run.
      change (Qmin (r_initial p) (r_maximum p)) with (delay_at p 0).
      apply (timeouts_bounded_loop jitter jitter_bounds p Hi Hm Hk). lra.
  Qed.

  Lemma unnamed_method_single_attempt_no_deadline : forall cfg service method rep script,
    (forall c, In c cfg -> ~ names_exactly service method c /\ ~ names_whole_service service c) ->
    emit cfg service method = GenOk (mkE None None) /\
    let tr := call jitter (mkE None None) UseDefault UseDefault (rep :: script) in
    t_attempts tr = 1%nat /\ t_timeouts tr = [None] /\ t_sleeps tr = [] /\
    t_final tr = match rep with Ok => FOk | Err c => FSurfaced c end.
  Proof.
    intros cfg service method rep script H. split.
    - unfold emit. apply lookup_none in H. now rewrite H.
    - destruct rep; simpl; repeat split.
  Qed.

  Lemma explicit_overrides_default : forall row row' r t script,
    call jitter row (Given r) (Given t) script = call jitter row' (Given r) (Given t) script /\
    call jitter row (Given r) (Given t) script = run jitter r t script /\
    call jitter row (Given r) UseDefault script = run jitter r (e_timeout row) script /\
    call jitter row UseDefault (Given t) script = run jitter (option_map effective (e_retry row)) t script /\
    (forall rep rest, script = rep :: rest ->
       t_attempts (call jitter row (Given None) (Given t) script) = 1%nat /\
       t_timeouts (call jitter row (Given None) (Given t) script) = [attempt_timeout t 0]).
  Proof.
    intros row row' r t script.
    split; [reflexivity|]. split; [reflexivity|]. split; [reflexivity|]. split; [reflexivity|].
    intros rep rest E. subst script. destruct rep; split; reflexivity.
  Qed.
  (* every page request of a listing behaves as a single call with the caller's arguments; with an explicit timeout T
     the first attempt of EVERY page carries T, whatever the configuration says *)
  Lemma listing_every_page : forall row retry timeout scripts i s,
    nth_error scripts i = Some s ->
    nth_error (listing jitter row retry timeout scripts) i = Some (call jitter row retry timeout s).
  Proof. intros. unfold listing. now apply map_nth_error. Qed.

  Lemma listing_explicit_timeout : forall row row' retry T scripts i rep rest,
    nth_error scripts i = Some (rep :: rest) ->
    exists tr x, nth_error (listing jitter row retry (Given (Some T)) scripts) i = Some tr /\
                 nth_error (listing jitter row' retry (Given (Some T)) scripts) i = Some (call jitter row' retry (Given (Some T)) (rep :: rest)) /\
                 hd_error (t_timeouts tr) = Some (Some x) /\ x == T.
  Proof.
    intros row row' retry T scripts i rep rest H.
    destruct (call_deadline (match retry with UseDefault => option_map effective (e_retry row) | Given r => r end) T rep rest)
      as [[x [Hx Ex]] _].
    exists (call jitter row retry (Given (Some T)) (rep :: rest)), x. repeat split.
    - now apply listing_every_page.
    - now apply listing_every_page.
    - exact Hx.
    - exact Ex.
  Qed.

  (* on every surface and for both shapes the attempt's timeout is what bounds connecting AND reading: the first attempt
     is bounded by the timeout exactly, later attempts never by more, and no attempt goes out unbounded *)
  Lemma deadline_on_every_surface : forall s sh r T rep script,
    (exists h x, hd_error (wire s sh (run jitter r (Some T) (rep :: script))) = Some h /\
                 read_deadline h = Some x /\ connect_deadline h = Some x /\ x == T) /\
    (forall p, r = Some p -> 0 <= r_initial p -> 0 <= r_maximum p -> 0 <= r_multiplier p ->
       Forall (fun h => exists x, read_deadline h = Some x /\ connect_deadline h = Some x /\ x <= T)
              (wire s sh (run jitter r (Some T) (rep :: script)))).
  Proof.
    intros s sh r T rep script. destruct (call_deadline r T rep script) as [[x [Hx Ex]] HB]. split.
    - unfold wire. destruct (t_timeouts (run jitter r (Some T) (rep :: script))) as [|o l]; [discriminate|].
      cbn [hd_error] in Hx. injection Hx as Ho. subst o.
      exists (hand_down s sh (Some x)), x. cbn [map hd_error hand_down read_deadline connect_deadline]. auto.
    - intros p Ep Hi Hm Hk. specialize (HB p Ep Hi Hm Hk). unfold wire.
      apply Forall_forall. intros h Hin. apply in_map_iff in Hin. destruct Hin as [o [Eh Ho]].
      rewrite Forall_forall in HB. destruct (HB o Ho) as [y [Ey Ly]].
      subst o h. exists y. cbn [hand_down read_deadline connect_deadline]. auto.
  Qed.
End CallFacts.

(* ------------------------------------------------------------------ non-vacuity *)
Definition ex_cfg : list method_config :=
  [ mkMC [mkName (Some "p.v1.Alpha") (Some "GetA"); mkName (Some "p.v1.Alpha") (Some "ListB")] (Some "60s")
         (Some (mkPolicy (Some "0.5s") (Some "1.250s") (Some (13 # 10)) ["UNAVAILABLE"; "DEADLINE_EXCEEDED"]));
    mkMC [mkName (Some "p.v1.Alpha") (Some "GetA")] (Some "5s") None;
    mkMC [mkName (Some "p.v1.Beta") None] (Some "9s") None ].
Definition ex_params : retry_params := mkRP (1 # 2) (5 # 4) (13 # 10) ["DeadlineExceeded"; "ServiceUnavailable"] (Some (60 # 1)).
Definition jitter_max (i : nat) (d : Q) : Q := d.

Lemma jitter_max_bounds : forall i d, 0 <= d -> 0 <= jitter_max i d /\ jitter_max i d <= d.
Proof. intros i d H. unfold jitter_max. split; lra. Qed.

Example ex_hypotheses :
  (* the first entry that names the method applies; the second entry for GetA is shadowed *)
  emit ex_cfg "p.v1.Alpha" "GetA" =
    GenOk (mkE (Some (mkER (Some (5 # 10)) (Some (1250 # 1000)) (Some (13 # 10)) ["DeadlineExceeded"; "ServiceUnavailable"] (Some (60 # 1))))
               (Some (60 # 1)))
  /\ emit ex_cfg "p.v1.Alpha" "Other" = GenOk (mkE None None)
  (* the entry that names the whole service Beta applies to each of its methods *)
  /\ emit ex_cfg "p.v1.Beta" "Anything" = GenOk (mkE None (Some (9 # 1)))
  /\ Forall (fun c => In c ERR_CODES) ["UNAVAILABLE"; "DEADLINE_EXCEEDED"]
  /\ 0 <= r_initial ex_params /\ 0 <= r_maximum ex_params /\ 1 <= r_multiplier ex_params
  /\ Forall (fun c => accepts (r_classes ex_params) c = true) ["UNAVAILABLE"; "DEADLINE_EXCEEDED"; "UNAVAILABLE"]
  /\ accepts (r_classes ex_params) "ABORTED" = false
  /\ sum_from ex_params 0 3 <= 60 # 1
  /\ t_attempts (run jitter_max (Some ex_params) (Some (60 # 1)) [Err "UNAVAILABLE"; Err "DEADLINE_EXCEEDED"; Err "UNAVAILABLE"; Ok]) = 4%nat.
Proof.
  repeat split; try (vm_compute; discriminate).
  repeat constructor; vm_compute; tauto.
  repeat constructor.
Qed.

(* hypotheses of to_float_exact and table_spec on concrete objects *)
Example ex_table_hypotheses :
  let mc := mkMC [mkName (Some "p.v1.Alpha") (Some "GetA")] (Some "60s")
                 (Some (mkPolicy (Some "0.5s") (Some "1.250s") (Some (13 # 10)) ["UNAVAILABLE"; "DEADLINE_EXCEEDED"])) in
  parse_timeout (mc_timeout mc) = inr (Some (60 # 1))
  /\ duration_or_zero (Some "0.5s") = inr (5 # 10) /\ duration_or_zero (Some "1.250s") = inr (1250 # 1000)
  /\ Forall (fun c => In c ERR_CODES) ["UNAVAILABLE"; "DEADLINE_EXCEEDED"]
  /\ length ERR_CODES = 16%nat
  /\ sall is_digit "1" = true /\ sall is_digit "250" = true /\ dec_value "250" = 250%Z /\ "1"%string <> ""%string
  /\ to_float "1.250s" = Some (1250 # 1000).
Proof.
  repeat split; try reflexivity; try discriminate.
  repeat constructor; vm_compute; tauto.
Qed.

Example ex_server_stream_over_rest :
  list_eqb handed_eqb
    (wire SRest ServerStreaming
          (run jitter_max (Some ex_params) (Some (15 # 2)) [Err "UNAVAILABLE"; Err "UNAVAILABLE"; Ok]))
    [Scalar (Some (15 # 2)); Scalar (Some (7 # 1)); Scalar (Some (127 # 20))] = true
  /\ map read_deadline [Pair (Some (15 # 2)) None] = [None].
Proof. split; [vm_compute; reflexivity|reflexivity]. Qed.
