(* Proofs/Lro.v — lemmas about Model/Lro.v (C08). *)
From Coq Require Import Permutation.
From GV Require Import Base.Str Model.Lro.

(* ------------------------------------------------------------------ small facts *)
Lemma is_empty_true (s : string) : is_empty s = true <-> s = "".
Proof. destruct s; simpl; split; intro H; try reflexivity; discriminate. Qed.

Lemma is_empty_false (s : string) : is_empty s = false <-> s <> "".
Proof. destruct s; simpl; split; intro H; try discriminate; try reflexivity; now contradiction H. Qed.

Lemma mem_str_In (x : string) (l : list string) : mem_str x l = true <-> In x l.
Proof.
  unfold mem_str. rewrite existsb_exists. split.
  - intros [y [Hy E]]. apply String.eqb_eq in E. now subst y.
  - intro H. exists x. split; [exact H | apply String.eqb_refl].
Qed.

Lemma contains_dot_app_r (a b : string) : contains dot (a ++ "." ++ b) = true.
Proof. rewrite contains_app. simpl. now rewrite orb_true_r. Qed.

(* ------------------------------------------------------------------ Address.resolve *)
Lemma lro_resolve_spec : forall pkg sel,
  (contains dot sel = false -> resolve pkg sel = pkg ++ "." ++ sel /\ starts_with (pkg ++ ".") (resolve pkg sel) = true) /\
  (contains dot sel = true -> resolve pkg sel = sel) /\
  contains dot (resolve pkg sel) = true /\
  resolve pkg (resolve pkg sel) = resolve pkg sel.
Proof.
  intros pkg sel. unfold resolve.
  destruct (contains dot sel) eqn:E.
  - repeat split; try discriminate; try reflexivity; try exact E. now rewrite E.
  - assert (C : contains dot (pkg ++ "." ++ sel) = true) by apply contains_dot_app_r.
    repeat split; try discriminate; try exact C.
    + unfold starts_with. replace (pkg ++ "." ++ sel) with ((pkg ++ ".") ++ sel) by apply sapp_assoc.
      now rewrite strip_prefix_app.
    + now rewrite C.
Qed.

(* two relative selectors resolve to the same key only when they are the same selector *)
Lemma sapp_inj_l (p a b : string) : p ++ a = p ++ b -> a = b.
Proof. induction p as [|c p IH]; simpl; intro H; [exact H|]. inversion H. now apply IH. Qed.

Lemma resolve_relative_injective : forall pkg a b,
  contains dot a = false -> contains dot b = false -> resolve pkg a = resolve pkg b -> a = b.
Proof.
  intros pkg a b Ha Hb. unfold resolve. rewrite Ha, Hb. intro H.
  apply sapp_inj_l in H. simpl in H. now inversion H.
Qed.

(* ------------------------------------------------------------------ the lookup sees every file of the request *)
Lemma lro_lookup_total : forall files key,
  known files key = true <-> exists f, In f files /\ In key (f_messages f).
Proof.
  intros files key. unfold known, universe. rewrite mem_str_In, in_flat_map. reflexivity.
Qed.

(* nor does the ORDER in which the request lists the files: a file that follows the service's file counts like one that
   precedes it (protoc lists a dependency imported only by a later file after the service's file) *)
Lemma lro_lookup_order_independent : forall files files' key,
  Permutation files files' -> known files key = known files' key.
Proof.
  intros files files' key P. apply Bool.eq_iff_eq_true. rewrite !lro_lookup_total. split.
  - intros [f [Hf Hk]]. exists f. split; [now apply (Permutation_in f P) | exact Hk].
  - intros [f [Hf Hk]]. exists f. split; [now apply (Permutation_in f (Permutation_sym P)) | exact Hk].
Qed.

Lemma decide_order_independent : forall files files' pkg m,
  Permutation files files' -> decide files pkg m = decide files' pkg m.
Proof.
  intros files files' pkg m P. unfold decide, resolve_lro.
  assert (K : forall k, known files k = known files' k) by (intro k; now apply lro_lookup_order_independent).
  destruct (ends_with OPERATION_SUFFIX (m_output m)); [|reflexivity].
  destruct (m_opinfo m) as [oi|]; [|reflexivity].
  now rewrite !K.
Qed.

(* the import list of the file that declares the service plays no role *)
Lemma lro_lookup_ignores_imports : forall files key (service_file f : file),
  In service_file files -> In f files -> In key (f_messages f) ->
  known files key = true /\
  (forall deps', known (map (fun g => mkFile (f_name g) (f_package g) deps' (f_messages g)) files) key = true).
Proof.
  intros files key sf f _ Hf Hk. split.
  - apply lro_lookup_total. now exists f.
  - intro deps'. apply lro_lookup_total.
    exists (mkFile (f_name f) (f_package f) deps' (f_messages f)). split; [|exact Hk].
    apply in_map_iff. now exists f.
Qed.

(* ------------------------------------------------------------------ _resolve_lro_type *)
(* the as-written reading wins whenever it names a message -- also when the package-relative reading names one too;
   the package-relative reading is used only when the as-written one is unknown; with neither, the as-written key stays *)
Lemma lro_resolve_fallback_spec : forall files pkg sel,
  (known files (resolve pkg sel) = true -> resolve_lro files pkg sel = resolve pkg sel) /\
  (known files (resolve pkg sel) = false -> known files (relative_key pkg sel) = true ->
     resolve_lro files pkg sel = relative_key pkg sel) /\
  (known files (resolve pkg sel) = false -> known files (relative_key pkg sel) = false ->
     resolve_lro files pkg sel = resolve pkg sel) /\
  (contains dot sel = false -> resolve_lro files pkg sel = relative_key pkg sel) /\
  (known files (resolve_lro files pkg sel) = known files (resolve pkg sel) || known files (relative_key pkg sel)).
Proof.
  intros files pkg sel. unfold resolve_lro.
  destruct (known files (resolve pkg sel)) eqn:K1; destruct (known files (relative_key pkg sel)) eqn:K2;
    repeat split; intros; try discriminate; try reflexivity; try (now rewrite K1); try (now rewrite K2);
    try (unfold resolve in *; match goal with H : contains dot sel = false |- _ => rewrite H in *; try reflexivity end).
Qed.

(* both readings name a message: the as-written one is chosen *)
Lemma lro_as_written_wins : forall files pkg sel,
  contains dot sel = true -> known files sel = true -> known files (relative_key pkg sel) = true ->
  resolve_lro files pkg sel = sel.
Proof.
  intros files pkg sel D K1 K2. unfold resolve_lro, resolve. rewrite D, K1. reflexivity.
Qed.

(* ------------------------------------------------------------------ the decision table *)
Lemma ends_with_operation : ends_with OPERATION_SUFFIX OPERATION_TYPE = true.
Proof. reflexivity. Qed.

Section Decision.
  Variable files : list file.
  Variable pkg : string.

  Lemma decide_plain : forall m, ends_with OPERATION_SUFFIX (m_output m) = false -> decide files pkg m = Plain.
  Proof. intros m H. unfold decide. now rewrite H. Qed.

  Lemma decide_raw : forall m,
    ends_with OPERATION_SUFFIX (m_output m) = true -> m_opinfo m = None -> decide files pkg m = Raw.
  Proof. intros m H N. unfold decide. now rewrite H, N. Qed.

  Lemma missing_type_rejected : forall m oi async,
    ends_with OPERATION_SUFFIX (m_output m) = true -> m_opinfo m = Some oi ->
    (oi_response oi = "" \/ oi_metadata oi = "") ->
    decide files pkg m = Rejected ErrMissingType /\ client_output async (decide files pkg m) = None.
  Proof.
    intros m oi async H S E. unfold decide. rewrite H, S.
    assert (X : is_empty (oi_response oi) || is_empty (oi_metadata oi) = true).
    { destruct E as [E|E]; rewrite E; simpl; [reflexivity | apply orb_true_r]. }
    rewrite X. now split.
  Qed.

  Lemma decide_named : forall m oi,
    ends_with OPERATION_SUFFIX (m_output m) = true -> m_opinfo m = Some oi ->
    oi_response oi <> "" -> oi_metadata oi <> "" ->
    let rk := resolve_lro files pkg (oi_response oi) in
    let mk := resolve_lro files pkg (oi_metadata oi) in
    (known files rk = true -> known files mk = true -> decide files pkg m = Lro rk mk) /\
    (known files rk = false -> decide files pkg m = Rejected (ErrUnknownType rk)) /\
    (known files rk = true -> known files mk = false -> decide files pkg m = Rejected (ErrUnknownType mk)).
  Proof.
    intros m oi H S R M rk mk. unfold decide. rewrite H, S.
    apply is_empty_false in R. apply is_empty_false in M. rewrite R, M. simpl.
    fold rk mk. repeat split.
    - intros K1 K2. now rewrite K1, K2.
    - intros K1. now rewrite K1.
    - intros K1 K2. now rewrite K1, K2.
  Qed.

  (* the three-way table of the property, for a method whose output type is google.longrunning.Operation *)
  Lemma lro_decision : forall m,
    m_output m = OPERATION_TYPE ->
    (m_opinfo m = None -> decide files pkg m = Raw) /\
    (forall oi, m_opinfo m = Some oi ->
       ((oi_response oi = "" \/ oi_metadata oi = "") -> decide files pkg m = Rejected ErrMissingType) /\
       (oi_response oi <> "" -> oi_metadata oi <> "" ->
          let rk := resolve_lro files pkg (oi_response oi) in
          let mk := resolve_lro files pkg (oi_metadata oi) in
          (known files rk = true -> known files mk = true -> decide files pkg m = Lro rk mk) /\
          (known files rk = false -> decide files pkg m = Rejected (ErrUnknownType rk)) /\
          (known files rk = true -> known files mk = false -> decide files pkg m = Rejected (ErrUnknownType mk)))).
  Proof.
    intros m O.
    assert (H : ends_with OPERATION_SUFFIX (m_output m) = true) by (rewrite O; apply ends_with_operation).
    split.
    - now apply decide_raw.
    - intros oi S. split.
      + intro E. now apply (missing_type_rejected m oi false H S E).
      + intros R M. now apply decide_named.
  Qed.

  (* converse: whatever is accepted as an LRO carries two names of messages of the request *)
  Lemma lro_accepted_sound : forall m r mt,
    decide files pkg m = Lro r mt ->
    exists oi, m_opinfo m = Some oi /\ oi_response oi <> "" /\ oi_metadata oi <> "" /\
               r = resolve_lro files pkg (oi_response oi) /\ mt = resolve_lro files pkg (oi_metadata oi) /\
               In r (universe files) /\ In mt (universe files).
  Proof.
    intros m r mt. unfold decide.
    destruct (ends_with OPERATION_SUFFIX (m_output m)); [|discriminate].
    destruct (m_opinfo m) as [oi|]; [|discriminate].
    destruct (is_empty (oi_response oi)) eqn:E1; [discriminate|].
    destruct (is_empty (oi_metadata oi)) eqn:E2; [discriminate|]. simpl.
    destruct (known files (resolve_lro files pkg (oi_response oi))) eqn:K1; [|discriminate]. simpl.
    destruct (known files (resolve_lro files pkg (oi_metadata oi))) eqn:K2; [|discriminate]. simpl.
    intro H. inversion H. subst.
    exists oi. repeat split; try (now apply is_empty_false).
    - now apply mem_str_In.
    - now apply mem_str_In.
  Qed.

  (* rejection happens only for the two stated reasons; an unknown type is unknown under BOTH readings and the key
     reported is the as-written one *)
  Lemma lro_rejected_sound : forall m e,
    decide files pkg m = Rejected e ->
    exists oi, m_opinfo m = Some oi /\
      match e with
      | ErrMissingType => oi_response oi = "" \/ oi_metadata oi = ""
      | ErrUnknownType k =>
          exists sel, (sel = oi_response oi \/ sel = oi_metadata oi) /\ k = resolve pkg sel /\
                      known files (resolve pkg sel) = false /\ known files (relative_key pkg sel) = false
      end.
  Proof.
    intros m e. unfold decide.
    destruct (ends_with OPERATION_SUFFIX (m_output m)); [|discriminate].
    destruct (m_opinfo m) as [oi|]; [|discriminate].
    destruct (is_empty (oi_response oi)) eqn:E1; simpl.
    { intro H. inversion H. exists oi. split; [reflexivity|]. left. now apply is_empty_true. }
    destruct (is_empty (oi_metadata oi)) eqn:E2; simpl.
    { intro H. inversion H. exists oi. split; [reflexivity|]. right. now apply is_empty_true. }
    assert (U : forall sel, known files (resolve_lro files pkg sel) = false ->
                resolve_lro files pkg sel = resolve pkg sel /\ known files (resolve pkg sel) = false /\
                known files (relative_key pkg sel) = false).
    { intros sel. unfold resolve_lro.
      destruct (known files (resolve pkg sel)) eqn:A; [intro X; congruence|].
      destruct (known files (relative_key pkg sel)) eqn:B; [intro X; congruence|]. auto. }
    destruct (known files (resolve_lro files pkg (oi_response oi))) eqn:K1; simpl.
    - destruct (known files (resolve_lro files pkg (oi_metadata oi))) eqn:K2; simpl; [discriminate|].
      intro H. inversion H. exists oi. split; [reflexivity|].
      destruct (U _ K2) as [Q1 [Q2 Q3]]. exists (oi_metadata oi). repeat split; auto.
    - intro H. inversion H. exists oi. split; [reflexivity|].
      destruct (U _ K1) as [Q1 [Q2 Q3]]. exists (oi_response oi). repeat split; auto.
  Qed.

  (* a dotted name that exists relative to the package (a nested message) and not as written is accepted *)
  Lemma nested_relative_name_accepted : forall m oi,
    ends_with OPERATION_SUFFIX (m_output m) = true -> m_opinfo m = Some oi ->
    oi_response oi <> "" -> oi_metadata oi <> "" ->
    known files (resolve pkg (oi_response oi)) = false -> known files (relative_key pkg (oi_response oi)) = true ->
    known files (resolve pkg (oi_metadata oi)) = false -> known files (relative_key pkg (oi_metadata oi)) = true ->
    decide files pkg m = Lro (relative_key pkg (oi_response oi)) (relative_key pkg (oi_metadata oi)).
  Proof.
    intros m oi H S R M A1 A2 B1 B2.
    destruct (decide_named m oi H S R M) as [D _].
    destruct (lro_resolve_fallback_spec files pkg (oi_response oi)) as [_ [F1 _]].
    destruct (lro_resolve_fallback_spec files pkg (oi_metadata oi)) as [_ [F2 _]].
    rewrite (F1 A1 A2), (F2 B1 B2) in D. apply D; assumption.
  Qed.
End Decision.

(* each long-running rpc is decided on ITS OWN annotation: two rpcs that share the response type and name different
   metadata types get futures with the same result type and different metadata types, whatever their order *)
Lemma lro_shared_response_distinct_metadata : forall files pkg m1 m2 oi1 oi2 r1 mt1 r2 mt2,
  m_opinfo m1 = Some oi1 -> m_opinfo m2 = Some oi2 ->
  oi_response oi1 = oi_response oi2 ->
  decide files pkg m1 = Lro r1 mt1 -> decide files pkg m2 = Lro r2 mt2 ->
  r1 = r2 /\
  mt1 = resolve_lro files pkg (oi_metadata oi1) /\ mt2 = resolve_lro files pkg (oi_metadata oi2) /\
  (resolve_lro files pkg (oi_metadata oi1) <> resolve_lro files pkg (oi_metadata oi2) -> mt1 <> mt2).
Proof.
  intros files pkg m1 m2 oi1 oi2 r1 mt1 r2 mt2 O1 O2 E D1 D2.
  destruct (lro_accepted_sound files pkg m1 r1 mt1 D1) as [o1 [A1 [_ [_ [R1 [M1 _]]]]]].
  destruct (lro_accepted_sound files pkg m2 r2 mt2 D2) as [o2 [A2 [_ [_ [R2 [M2 _]]]]]].
  rewrite O1 in A1. inversion A1. subst o1. rewrite O2 in A2. inversion A2. subst o2.
  repeat split; try assumption.
  - rewrite R1, R2, E. reflexivity.
  - intros N K. apply N. congruence.
Qed.

Example ex_shared_response :
  let files := [mkFile "a/b.proto" "a.b" [] ["a.b.Book"; "a.b.CreateMeta"; "a.b.UpdateMeta"]] in
  decide files "a.b" (mkMethod "Create" OPERATION_TYPE (Some (mkOp "Book" "CreateMeta"))) = Lro "a.b.Book" "a.b.CreateMeta" /\
  decide files "a.b" (mkMethod "Update" OPERATION_TYPE (Some (mkOp "Book" "UpdateMeta"))) = Lro "a.b.Book" "a.b.UpdateMeta".
Proof. split; reflexivity. Qed.

(* ------------------------------------------------------------------ the future *)
Definition not_done (o : operation) : Prop := o_done o = false.

(* a history not_done^k . done : the first snapshot is the method's own reply, the others are GetOperation replies *)
Lemma poll_history : forall (nd : list operation) (fin : operation) (calls : nat),
  Forall not_done nd -> o_done fin = true ->
  match (nd ++ [fin])%list with
  | [] => False
  | initial :: replies => poll initial replies calls = (fin, calls + length nd, true)
  end.
Proof.
  induction nd as [|o nd IH]; intros fin calls ND D; simpl.
  - rewrite D. now rewrite Nat.add_0_r.
  - inversion ND as [|? ? Ho Hnd]; subst. unfold not_done in Ho.
    specialize (IH fin (S calls) Hnd D).
    destruct (nd ++ [fin])%list as [|i rs] eqn:E; [contradiction|].
    simpl. rewrite Ho. rewrite IH. f_equal. f_equal. lia.
Qed.

(* the server never finishes within the scripted replies: reported as exhaustion, never as a value *)
Lemma poll_exhausted : forall (nd : list operation) (initial : operation) (calls : nat),
  not_done initial -> Forall not_done nd ->
  exists last, poll initial nd calls = (last, calls + length nd, false).
Proof.
  induction nd as [|o nd IH]; intros initial calls I ND; simpl; unfold not_done in I; rewrite I.
  - exists initial. now rewrite Nat.add_0_r.
  - inversion ND as [|? ? Ho Hnd]; subst.
    destruct (IH o (S calls) Ho Hnd) as [l Hl]. exists l. rewrite Hl. f_equal. f_equal. lia.
Qed.

Lemma from_any_typed : forall ty url payload,
  type_name url = Some ty -> from_any ty (mkAny url payload) = Returned (Instance ty payload).
Proof. intros ty url payload H. unfold from_any. simpl. rewrite H. now rewrite String.eqb_refl. Qed.

Lemma from_any_mismatch : forall ty other url payload,
  type_name url = Some other -> other <> ty -> from_any ty (mkAny url payload) = Raised (ETypeError ty).
Proof.
  intros ty other url payload H N. unfold from_any. simpl. rewrite H.
  destruct (String.eqb other ty) eqn:E; [apply String.eqb_eq in E; contradiction | reflexivity].
Qed.

(* result and metadata of the future built by the emitted code are instances of the annotated types, for every
   history not_done^k . done(response | error); the number of GetOperation calls is k *)
Lemma future_types : forall files pkg m r mt async,
  decide files pkg m = Lro r mt ->
  forall (nd : list operation) (fin : operation),
  Forall not_done nd -> o_done fin = true ->
  match (nd ++ [fin])%list with
  | [] => False
  | initial :: replies =>
      let ob := run_future (emit_wrap async r mt) initial replies in
      ob_get_operation_calls ob = length nd /\
      (forall url payload, o_result fin = Response (mkAny url payload) -> type_name url = Some r ->
         ob_result ob = Returned (Instance r payload)) /\
      (forall code msg, o_result fin = Failed code msg ->
         ob_result ob = Raised (if async then EApiError msg else EStatus code msg)) /\
      (forall url payload, o_metadata fin = Some (mkAny url payload) -> type_name url = Some mt ->
         ob_metadata ob = Returned (Instance mt payload)) /\
      (o_metadata fin = None -> ob_metadata ob = Returned PyNone) /\
      In r (universe files) /\ In mt (universe files)
  end.
Proof.
  intros files pkg m r mt async D nd fin ND F.
  pose proof (poll_history nd fin 0 ND F) as P.
  destruct (nd ++ [fin])%list as [|initial replies]; [exact P|].
  unfold run_future. rewrite P. simpl.
  destruct (lro_accepted_sound files pkg m r mt D) as [oi [_ [_ [_ [_ [_ [Ir Im]]]]]]].
  repeat split; try assumption.
  - intros url payload R T. unfold settle. rewrite R. simpl. now apply from_any_typed.
  - intros code msg R. unfold settle. rewrite R. now destruct async.
  - intros url payload M T. unfold metadata_of. rewrite M. simpl. now apply from_any_typed.
  - intros M. unfold metadata_of. now rewrite M.
Qed.

(* the type arguments matter: a reply packed with any other type is refused, it is never handed out mistyped *)
Lemma future_other_type_refused : forall async r mt (nd : list operation) (fin : operation) url payload other,
  Forall not_done nd -> o_done fin = true ->
  o_result fin = Response (mkAny url payload) -> type_name url = Some other -> other <> r ->
  match (nd ++ [fin])%list with
  | [] => False
  | initial :: replies => ob_result (run_future (emit_wrap async r mt) initial replies) = Raised (ETypeError r)
  end.
Proof.
  intros async r mt nd fin url payload other ND F R T N.
  pose proof (poll_history nd fin 0 ND F) as P.
  destruct (nd ++ [fin])%list as [|initial replies]; [exact P|].
  unfold run_future. rewrite P. simpl. unfold settle. rewrite R. simpl.
  now apply (from_any_mismatch r other).
Qed.

(* ------------------------------------------------------------------ the transport offers the operations client *)
(* iff some method of the service is an LRO -- whether that method is public or internal plays no role *)
Lemma ops_client_iff_some_lro : forall ms,
  has_operations_client ms = true <-> exists m r mt, In m ms /\ sm_decision m = Lro r mt.
Proof.
  intro ms. unfold has_operations_client. rewrite existsb_exists. split.
  - intros [m [Hin H]]. destruct (sm_decision m) as [| |r mt|e] eqn:E; try discriminate. now exists m, r, mt.
  - intros [m [r [mt [Hin E]]]]. exists m. split; [exact Hin|]. now rewrite E.
Qed.

Lemma ops_client_ignores_visibility : forall ms f,
  has_operations_client (map (fun m => mkSM (f m) (sm_decision m)) ms) = has_operations_client ms.
Proof.
  intros ms f. unfold has_operations_client. induction ms as [|m ms IH]; simpl; [reflexivity|]. now rewrite IH.
Qed.

(* every method that hands out a future finds the client expression of its wrapping defined on the transport *)
Lemma future_has_operations_client : forall ms m async w,
  In m ms -> client_output async (sm_decision m) = Some (ReturnsFuture w) -> has_operations_client ms = true.
Proof.
  intros ms m async w Hin H. apply ops_client_iff_some_lro.
  destruct (sm_decision m) as [| |r mt|e] eqn:E; simpl in H; try discriminate. now exists m, r, mt.
Qed.

Example ex_internal_lro :
  has_operations_client [mkSM false Plain; mkSM true (Lro "a.R" "a.M")] = true /\
  has_operations_client [mkSM false Plain; mkSM true Raw] = false /\
  client_output true (Lro "a.R" "a.M") = Some (ReturnsFuture (emit_wrap true "a.R" "a.M")).
Proof. repeat split. Qed.

(* ------------------------------------------------------------------ http_options of the REST operations client *)
Lemma usable_In : forall bs b, In b (usable bs) <-> In (Some b) bs.
Proof.
  induction bs as [|o bs IH]; intro b; simpl; [reflexivity|].
  destruct o as [b'|]; simpl; rewrite IH; split.
  - intros [H|H]; [left; now subst | now right].
  - intros [H|H]; [left; now inversion H | now right].
  - intro H. now right.
  - intros [H|H]; [discriminate | exact H].
Qed.

(* every binding of every Operations rule -- the primary one and each additional one -- is printed under the rule's
   selector; nothing else is printed *)
Lemma ops_http_options_complete : forall rules sel pb,
  (exists bs, In (sel, bs) (ops_http_options rules) /\ In pb bs) <->
  (exists r b, In r rules /\ hr_selector r = sel /\ starts_with OPERATIONS_PREFIX sel = true /\
               In (Some b) (hr_bindings r) /\ pb = print_binding b).
Proof.
  intros rules sel pb. unfold ops_http_options. split.
  - intros [bs [Hin Hpb]]. apply in_map_iff in Hin. destruct Hin as [r [E Hr]]. inversion E. subst sel bs.
    apply filter_In in Hr. destruct Hr as [Hr Hs]. apply in_map_iff in Hpb. destruct Hpb as [b [Eb Hb]].
    exists r, b. repeat split; auto. now apply usable_In.
  - intros [r [b [Hr [Es [Hs [Hb Epb]]]]]]. subst sel pb.
    exists (map print_binding (usable (hr_bindings r))). split.
    + apply in_map_iff. exists r. split; [reflexivity|]. apply filter_In. split; [exact Hr | exact Hs].
    + apply in_map. now apply usable_In.
Qed.

(* one entry per rule, in the order of the rules; bindings in their order: primary first *)
Lemma ops_http_options_order : forall rules,
  map fst (ops_http_options rules) = map hr_selector (filter is_operations_rule rules) /\
  (forall r, In r rules -> is_operations_rule r = true ->
     In (hr_selector r, map print_binding (usable (hr_bindings r))) (ops_http_options rules)).
Proof.
  intro rules. unfold ops_http_options. split.
  - rewrite map_map. reflexivity.
  - intros r Hr Hs. apply in_map_iff. exists r. split; [reflexivity|]. now apply filter_In.
Qed.

(* distinct selectors in the YAML give distinct keys: no entry can shadow another in the printed dict *)
Lemma filter_NoDup_map : forall (A B : Type) (f : A -> B) (p : A -> bool) (l : list A),
  NoDup (map f l) -> NoDup (map f (filter p l)).
Proof.
  intros A B f p l. induction l as [|x l IH]; simpl; intro H; [constructor|].
  inversion H as [|? ? Hx Hl]; subst. destruct (p x); simpl; [|now apply IH].
  constructor; [|now apply IH]. intro K. apply Hx. apply in_map_iff in K. destruct K as [y [E Hy]].
  apply in_map_iff. exists y. split; [exact E|]. apply filter_In in Hy. tauto.
Qed.

Lemma ops_http_options_keys_distinct : forall rules,
  NoDup (map hr_selector rules) -> NoDup (map fst (ops_http_options rules)).
Proof.
  intros rules H. destruct (ops_http_options_order rules) as [E _]. rewrite E. now apply filter_NoDup_map.
Qed.

(* the path prefix is the version segment of the package, whatever it is called *)
Lemma last_segment_nodot : forall v, contains dot v = false -> last_segment v = v.
Proof. intros v H. destruct v as [|c v]; [reflexivity|]. cbn [last_segment]. now rewrite H. Qed.

Lemma ops_path_prefix_spec : forall p v,
  contains dot v = false ->
  ops_path_prefix (p ++ "." ++ v) = v /\ ops_path_prefix v = v /\
  forall name, default_poll_path (p ++ "." ++ v) name = "/" ++ v ++ "/" ++ name.
Proof.
  intros p v H.
  assert (A : last_segment (p ++ "." ++ v) = v).
  { induction p as [|c p IH].
    - change ("" ++ "." ++ v)%string with (String dot v). cbn [last_segment contains].
      rewrite Ascii.eqb_refl. simpl. now apply last_segment_nodot.
    - change ((String c p) ++ "." ++ v)%string with (String c (p ++ "." ++ v)). cbn [last_segment].
      assert (C : contains dot (String c (p ++ "." ++ v)) = true).
      { cbn [contains]. rewrite contains_dot_app_r. apply orb_true_r. }
      rewrite C. exact IH. }
  unfold default_poll_path, ops_path_prefix. repeat split.
  - exact A.
  - now apply last_segment_nodot.
  - intro name. now rewrite A.
Qed.

Example ex_path_prefix :
  ops_path_prefix "acme.jobs.v2" = "v2" /\ ops_path_prefix "google.cloud.batchy.v1beta1" = "v1beta1" /\ ops_path_prefix "simple" = "simple" /\
  default_poll_path "acme.jobs.v2" "projects/p/operations/op-1" = "/v2/projects/p/operations/op-1".
Proof. repeat split. Qed.

Example ex_ops_http_options :
  let get := mkHR "google.longrunning.Operations.GetOperation"
               [Some (mkB "get" "/v1/{name=projects/*/operations/*}" ""); Some (mkB "get" "/v1/{name=organizations/*/operations/*}" "");
                None; Some (mkB "get" "/v1/{name=folders/*/operations/*}" "")] in
  let cancel := mkHR "google.longrunning.Operations.CancelOperation" [Some (mkB "post" "/v1/{name=projects/*/operations/*}:cancel" "*")] in
  let other := mkHR "google.cloud.location.Locations.GetLocation" [Some (mkB "get" "/v1/{name=projects/*/locations/*}" "")] in
  ops_http_options [get; other; cancel] =
    [("google.longrunning.Operations.GetOperation",
      [mkPB "get" "/v1/{name=projects/*/operations/*}" None; mkPB "get" "/v1/{name=organizations/*/operations/*}" None;
       mkPB "get" "/v1/{name=folders/*/operations/*}" None]);
     ("google.longrunning.Operations.CancelOperation", [mkPB "post" "/v1/{name=projects/*/operations/*}:cancel" (Some "*")])]
  /\ NoDup (map hr_selector [get; other; cancel]).
Proof. split; [reflexivity|]. repeat constructor; simpl; intuition discriminate. Qed.

(* ------------------------------------------------------------------ non-vacuity *)
Definition ex_files : list file :=
  [ mkFile "google/example/lro/v1/svc.proto" "google.example.lro.v1" ["google/longrunning/operations.proto"]
           ["google.example.lro.v1.StartRequest"; "google.example.lro.v1.LocalMeta"];
    mkFile "google/longrunning/operations.proto" "google.longrunning" [] ["google.longrunning.Operation"];
    (* defined after the service file and imported by nobody *)
    mkFile "google/example/lro/v1/types.proto" "google.example.lro.v1" [] ["google.example.lro.v1.OtherResp"] ].
Definition ex_method : method := mkMethod "Start" OPERATION_TYPE (Some (mkOp "OtherResp" "google.example.lro.v1.LocalMeta")).
Definition ex_nd : list operation :=
  [ mkOperation false None NoResult;
    mkOperation false (Some (mkAny "type.googleapis.com/google.example.lro.v1.LocalMeta" "m1")) NoResult ].
Definition ex_fin : operation :=
  mkOperation true (Some (mkAny "type.googleapis.com/google.example.lro.v1.LocalMeta" "m2"))
              (Response (mkAny "type.googleapis.com/google.example.lro.v1.OtherResp" "r")).

Example ex_hypotheses :
  decide ex_files "google.example.lro.v1" ex_method = Lro "google.example.lro.v1.OtherResp" "google.example.lro.v1.LocalMeta"
  /\ Forall not_done ex_nd /\ o_done ex_fin = true
  /\ type_name "type.googleapis.com/google.example.lro.v1.OtherResp" = Some "google.example.lro.v1.OtherResp"
  /\ run_future (emit_wrap false "google.example.lro.v1.OtherResp" "google.example.lro.v1.LocalMeta")
                (mkOperation false None NoResult) (tl ex_nd ++ [ex_fin])%list
     = mkObs (Returned (Instance "google.example.lro.v1.OtherResp" "r"))
             (Returned (Instance "google.example.lro.v1.LocalMeta" "m2")) 2
  /\ decide ex_files "google.example.lro.v1" (mkMethod "Start" OPERATION_TYPE None) = Raw
  /\ decide ex_files "google.example.lro.v1" (mkMethod "Start" OPERATION_TYPE (Some (mkOp "" "LocalMeta"))) = Rejected ErrMissingType
  /\ decide ex_files "google.example.lro.v1" (mkMethod "Start" OPERATION_TYPE (Some (mkOp "Nope" "LocalMeta")))
     = Rejected (ErrUnknownType "google.example.lro.v1.Nope").
Proof.
  repeat split; try reflexivity.
  repeat constructor.
Qed.

(* the former finding, now accepted: Outer.Inner inside the method's own package; and precedence when a top-level
   package Outer with a message Inner exists as well: the name as written wins *)
Example nested_relative_example :
  let f1 := [mkFile "a/b.proto" "a.b" [] ["a.b.Outer"; "a.b.Outer.Inner"]] in
  let f2 := (mkFile "outer.proto" "Outer" [] ["Outer.Inner"] :: f1)%list in
  let m := mkMethod "Start" OPERATION_TYPE (Some (mkOp "Outer.Inner" "Outer.Inner")) in
  decide f1 "a.b" m = Lro "a.b.Outer.Inner" "a.b.Outer.Inner" /\
  decide f2 "a.b" m = Lro "Outer.Inner" "Outer.Inner" /\
  known f1 (resolve "a.b" "Outer.Inner") = false /\ known f1 (relative_key "a.b" "Outer.Inner") = true /\
  decide f1 "a.b" (mkMethod "Start" OPERATION_TYPE (Some (mkOp "Outer.Nope" "Outer.Inner"))) = Rejected (ErrUnknownType "Outer.Nope").
Proof. repeat split. Qed.
