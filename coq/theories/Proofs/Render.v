(* Proofs/Render.v — finite facts about template gating over the regenerated template list *)
From GV Require Import Base.Str Gen.Templates Model.Render.

Lemma closed_supported_b : forallb (fun o => implb (supported o) (imports_closed o && registry_backed o)) all_opts = true.
Proof. vm_compute. reflexivity. Qed.

Lemma implb_elim a b : implb a b = true -> a = true -> b = true.
Proof. destruct a, b; auto; discriminate. Qed.

Lemma all_opts_complete o : In o all_opts \/ (o_grpc o = false /\ o_rest o = false).
Proof. destruct o as [[] [] []]; simpl; auto 10. Qed.

Lemma imports_closed_supported o : supported o = true -> imports_closed o = true /\ registry_backed o = true.
Proof.
  intro H. destruct (all_opts_complete o) as [I | [G R]].
  - pose proof closed_supported_b as F. rewrite forallb_forall in F. apply F in I.
    pose proof (implb_elim _ _ I H) as J. now apply andb_true_iff in J.
  - unfold supported in H. rewrite G, R in H. discriminate.
Qed.

(* the registry offers exactly the requested transports, gRPC first *)
Lemma registry_spec o : o_rest_async o = false ->
  (forall k, In k (registry o) <-> ((k = "grpc" \/ k = "grpc_asyncio") /\ o_grpc o = true) \/ (k = "rest" /\ o_rest o = true))
  /\ default_transport o = (if o_grpc o then Some "grpc" else if o_rest o then Some "rest" else None).
Proof.
  intro A. destruct o as [[] [] []]; simpl in *; try discriminate; split; try reflexivity; intro k; split; intro H;
    repeat match goal with
           | H : _ \/ _ |- _ => destruct H
           | H : _ /\ _ |- _ => destruct H
           | H : False |- _ => contradiction
           end; subst; auto; try discriminate; intuition.
Qed.

(* one sync client always; the asyncio client iff gRPC is requested (or the experimental async REST) *)
Lemma clients_b : forallb (fun o => implb (o_grpc o || o_rest o)
                                      (mem_str "client" (emitted_modules o) &&
                                       Bool.eqb (mem_str "async_client" (emitted_modules o)) (o_grpc o || o_rest_async o))) all_opts = true.
Proof. vm_compute. reflexivity. Qed.

Lemma clients_spec o : o_grpc o || o_rest o = true ->
  mem_str "client" (emitted_modules o) = true /\
  mem_str "async_client" (emitted_modules o) = (o_grpc o || o_rest_async o).
Proof.
  intro H. destruct (all_opts_complete o) as [I | [G R]].
  - pose proof clients_b as F. rewrite forallb_forall in F. apply F in I.
    pose proof (implb_elim _ _ I H) as J.
    apply andb_true_iff in J as [I1 I2]. split; [exact I1|]. now apply Bool.eqb_prop in I2.
  - rewrite G, R in H. discriminate.
Qed.

(* exactly the requested transport modules are emitted *)
Lemma transport_modules_b : forallb (fun o => implb (supported o)
   (Bool.eqb (mem_str "transports/grpc" (emitted_modules o)) (o_grpc o) &&
    Bool.eqb (mem_str "transports/grpc_asyncio" (emitted_modules o)) (o_grpc o) &&
    Bool.eqb (mem_str "transports/rest" (emitted_modules o)) (o_rest o) &&
    Bool.eqb (mem_str "transports/rest_base" (emitted_modules o)) (o_rest o) &&
    negb (mem_str "transports/rest_asyncio" (emitted_modules o)) &&
    mem_str "transports/base" (emitted_modules o) && mem_str "transports/__init__" (emitted_modules o))) all_opts = true.
Proof. vm_compute. reflexivity. Qed.

(* the experimental async REST flag without gRPC: the asyncio client is emitted and imports a module that is not *)
Lemma async_rest_without_grpc_refuted :
  exists o, o_grpc o || o_rest o = true /\ imports_closed o = false.
Proof. exists {| o_grpc := false; o_rest := true; o_rest_async := true |}. split; vm_compute; reflexivity. Qed.
