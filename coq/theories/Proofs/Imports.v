(* Proofs/Imports.v -- in-package imports are decided by package segments and resolve to the emitted types modules *)
From GV Require Import Base.Str Model.Files Proofs.Files Model.Imports.

Lemma is_prefix_list_iff a b : is_prefix_list a b = true <-> exists rest, b = (a ++ rest)%list.
Proof.
  revert b. induction a as [|x a IH]; intros b; simpl.
  - split; [intros _; exists b; reflexivity | reflexivity].
  - destruct b as [|y b].
    + split; [discriminate | intros [r Hr]; discriminate].
    + rewrite andb_true_iff, String.eqb_eq, IH. split.
      * intros [-> [r ->]]. exists r. reflexivity.
      * intros [r Hr]. injection Hr as -> ->. split; [reflexivity | exists r; reflexivity].
Qed.

Theorem in_api_segmentwise n a :
  in_api n a = true <-> api_pkg n = [] \/ exists rest, a_pkg a = (api_pkg n ++ rest)%list.
Proof.
  unfold in_api. destruct (api_pkg n) as [|x l] eqn:E.
  - split; [left; reflexivity | reflexivity].
  - rewrite is_prefix_list_iff. split.
    + intros H. right. exact H.
    + intros [H|H]; [discriminate | exact H].
Qed.

Theorem in_api_textual_refuted :
  exists n a, in_api_textual n a = true /\ in_api n a = false.
Proof.
  exists {| api_pkg := ["foo"; "v1"]; mod_ns := []; vmod := "foo_v1"; ppdeps := [] |},
         {| a_pkg := ["foo"; "v1beta1"]; a_mod := "x" |}.
  split; vm_compute; reflexivity.
Qed.

Lemma subpackage_app n a rest : a_pkg a = (api_pkg n ++ rest)%list -> subpackage n a = rest.
Proof.
  unfold subpackage. intros ->. induction (api_pkg n) as [|x l IH]; simpl; [reflexivity | exact IH].
Qed.

Lemma sjoin_app_ne sep a b : a <> [] -> b <> [] -> sjoin sep (a ++ b) = (sjoin sep a ++ sep ++ sjoin sep b)%string.
Proof.
  intros Ha Hb. induction a as [|x a IH]; [congruence|].
  destruct a as [|y a].
  - simpl. destruct b as [|z b]; [congruence|]. reflexivity.
  - change ((x :: y :: a) ++ b)%list with (x :: (y :: a) ++ b)%list.
    assert (E : forall l, l <> [] -> sjoin sep (x :: l) = (x ++ sep ++ sjoin sep l)%string).
    { intros l Hl. destruct l; [congruence | reflexivity]. }
    rewrite E by (destruct a; discriminate). rewrite IH by discriminate.
    rewrite (E (y :: a)) by discriminate. repeat rewrite sapp_assoc. reflexivity.
Qed.

(* the file an in-package import resolves to: <namespace>/<name_version>/<sub-package>/types/<module>.py *)
Theorem in_api_import_file n a :
  in_api n a = true ->
  import_file n a =
    (sjoin "/" (mod_ns n ++ [vmod n]) ++ "/" ++
     (match subpackage n a with [] => "" | sub => sjoin "/" sub ++ "/" end) ++ "types/" ++ a_mod a ++ ".py")%string.
Proof.
  intros H. unfold import_file, import_of. rewrite H. cbn [fst snd].
  assert (E0 : (mod_ns n ++ [vmod n] ++ subpackage n a ++ ["types"])%list
               = ((mod_ns n ++ [vmod n]) ++ (subpackage n a ++ ["types"]))%list).
  { rewrite <- List.app_assoc. reflexivity. }
  rewrite E0. clear E0.
  rewrite sjoin_app_ne; [| destruct (mod_ns n); discriminate | destruct (subpackage n a); discriminate].
  destruct (subpackage n a) as [|s sub] eqn:E.
  - cbn [app sjoin]. repeat rewrite sapp_assoc. reflexivity.
  - rewrite (sjoin_app_ne "/" (s :: sub) ["types"]) by discriminate. cbn [sjoin]. repeat rewrite sapp_assoc. reflexivity.
Qed.

(* ... which is where the generator places the types module of that proto file (C11 model) *)
Theorem in_api_import_targets_emitted_types_module ra old n u a :
  wf_rapi ra old -> In u (ra_protos ra) ->
  root_of ra = sjoin "/" (mod_ns n ++ [vmod n]) ->
  a_pkg a = (api_pkg n ++ u_sub u)%list -> a_mod a = u_module u ->
  import_file n a = inst_name ra (mk_inst types_tpl (u_sub u) None (Some (u_module u))).
Proof.
  intros Hwf Hin Hroot Hpkg Hmod.
  assert (Hapi : in_api n a = true).
  { apply in_api_segmentwise. right. exists (u_sub u). exact Hpkg. }
  rewrite in_api_import_file by exact Hapi.
  rewrite (subpackage_app n a (u_sub u) Hpkg), Hmod, <- Hroot.
  pose proof (wf_protos ra old Hwf) as Hp. rewrite Forall_forall in Hp. destruct (Hp u Hin) as [Hm [Hs _]].
  rewrite (types_module_name ra old (u_sub u) (u_module u) Hwf Hs Hm).
  destruct (u_sub u); reflexivity.
Qed.

(* a dependency that is not a proto-plus library is imported as <package>.<module>_pb2 *)
Theorem dependency_import n a :
  in_api n a = false -> existsb (list_eqb String.eqb (a_pkg a)) (ppdeps n) = false ->
  import_of n a = (a_pkg a, (a_mod a ++ "_pb2")%string).
Proof. intros H1 H2. unfold import_of, is_proto_plus. rewrite H1, H2. reflexivity. Qed.

