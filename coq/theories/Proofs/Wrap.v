(* Proofs/Wrap.v — C20: gapic.utils.lines.wrap (Model/Wrap.v).
   Proved for every input: whatever lies after the first-line slice is re-flowed without dropping,
   duplicating or reordering a word (wrap_tail_words).  The slice itself is where the model (like the
   code) loses text: witnesses below (TAB, leading whitespace, blank first line). *)
From GV Require Import Base.Str Model.FixWs Model.Wrap Proofs.RxLemmas Proofs.FixWs Proofs.Words Proofs.TwWrap.
Local Open Scope list_scope.
Local Open Scope nat_scope.

(* ---------------------------------------------------------------- words and concatenation *)
Lemma pw_acc_split : forall a c b cur, ws c = true ->
  pw_acc cur (a ++ String c b)%string = pw_acc cur a ++ pw_acc "" b.
Proof.
  induction a as [|x a IH]; intros c b cur Hc; cbn [append pw_acc].
  - now rewrite Hc.
  - destruct (ws x); [rewrite IH by exact Hc; now rewrite app_assoc | now apply IH].
Qed.

Lemma pywords_sep_app f X : pywords ((f ++ nl1) ++ X)%string = pywords (f ++ nl1)%string ++ pywords X.
Proof.
  unfold pywords. rewrite sapp_assoc. unfold nl1, s1. cbn [append].
  rewrite !pw_acc_split by reflexivity. cbn [pw_acc]. now rewrite app_nil_r.
Qed.

Definition ends_nl (t : string) : Prop := exists t', t = (t' ++ nl1)%string.

Lemma pywords_sjoin parts : pywords (sjoin nl1 parts) = flat_map pywords parts.
Proof.
  induction parts as [|x parts IH]; [reflexivity|].
  destruct parts as [|y parts]; [cbn [sjoin flat_map]; now rewrite app_nil_r|].
  change (sjoin nl1 (x :: y :: parts)) with (x ++ nl1 ++ sjoin nl1 (y :: parts))%string.
  rewrite <- sapp_assoc, pywords_sep_app, IH. cbn [flat_map]. f_equal. apply (pywords_trail nl1). reflexivity.
Qed.

Lemma pywords_sconcat tokens : Forall ends_nl tokens -> pywords (sconcat tokens) = flat_map pywords tokens.
Proof.
  induction 1 as [|t tokens (t' & ->) _ IH]; [reflexivity|].
  cbn [sconcat flat_map]. now rewrite pywords_sep_app, IH.
Qed.

(* ---------------------------------------------------------------- rstrip / strip keep the words *)
Lemma rstrip_p_decomp p s : exists W, s = (rstrip_p p s ++ W)%string /\ sall p W = true.
Proof.
  induction s as [|c s (W & E & HW)]; [exists ""%string; auto|]. cbn [rstrip_p].
  destruct (is_empty (rstrip_p p s) && p c) eqn:B.
  - apply andb_true_iff in B as [B1 B2]. destruct (rstrip_p p s); [|discriminate]. cbn [append] in E.
    exists (String c s). split; [reflexivity|]. simpl. rewrite B2. now subst.
  - exists W. split; [cbn [append]; now rewrite <- E | exact HW].
Qed.

Lemma pywords_rstrip_nl s : pywords (rstrip_nl s) = pywords s.
Proof.
  unfold rstrip_nl. destruct (rstrip_p_decomp (fun c => Ascii.eqb c nl) s) as (W & E & HW).
  rewrite E at 2. symmetry. apply pywords_trail.
  clear E. induction W as [|c W IH]; [reflexivity|]. simpl in *. apply andb_true_iff in HW as [Hc HW].
  apply Ascii.eqb_eq in Hc. subst c. now rewrite IH.
Qed.

Lemma pywords_rstrip_ws s : pywords (rstrip_ws s) = pywords s.
Proof.
  destruct (rstrip_decomp s) as (W & E & HW). rewrite E at 2. symmetry. now apply pywords_trail.
Qed.

Lemma pywords_strip s : pywords (strip s) = pywords s.
Proof.
  unfold strip. rewrite pywords_rstrip_ws. rewrite (take_drop_while ws s) at 2.
  symmetry. apply pywords_lead, sall_take_while.
Qed.

(* ---------------------------------------------------------------- split("\n") *)
Lemma srev_acc_app : forall s a, srev_acc s a = (srev s ++ a)%string.
Proof.
  unfold srev. induction s as [|c s IH]; intro a; [reflexivity|]. cbn [srev_acc].
  rewrite IH. rewrite (IH (String c "")). now rewrite sapp_assoc.
Qed.

Lemma srev_cons c s : srev (String c s) = (srev s ++ s1 c)%string.
Proof. unfold srev at 1. cbn [srev_acc]. apply srev_acc_app. Qed.

Lemma split_lines_concat : forall s acc,
  sconcat (map (fun l => l ++ nl1)%string (split_on_acc nl s acc)) = (srev acc ++ s ++ nl1)%string.
Proof.
  induction s as [|c s IH]; intro acc; cbn [split_on_acc].
  - cbn [map sconcat]. now rewrite sapp_nil_r.
  - destruct (Ascii.eqb c nl) eqn:E.
    + apply Ascii.eqb_eq in E. subst c. cbn [map sconcat]. rewrite IH. unfold nl1, s1.
      rewrite !sapp_assoc. reflexivity.
    + rewrite IH, srev_cons. unfold s1. rewrite !sapp_assoc. reflexivity.
Qed.

Lemma split_on_concat s : sconcat (map (fun l => l ++ nl1)%string (split_on nl s)) = (s ++ nl1)%string.
Proof. unfold split_on. now rewrite split_lines_concat. Qed.

(* ---------------------------------------------------------------- tokenisation *)
Lemma tokenize_spec width : forall lines token acc,
  sconcat (tokenize width lines token acc) =
    (sconcat acc ++ token ++ sconcat (map (fun l => l ++ nl1)%string lines))%string /\
  (Forall ends_nl acc -> (token = ""%string \/ ends_nl token) -> Forall ends_nl (tokenize width lines token acc)).
Proof.
  induction lines as [|line rest IH]; intros token acc.
  - cbn [tokenize map sconcat]. destruct token as [|c token].
    + cbn [is_empty]. split; [now rewrite sapp_nil_r|auto].
    + cbn [is_empty]. split.
      * rewrite sconcat_app. cbn [sconcat]. now rewrite !sapp_nil_r.
      * intros Ha [Ht|Ht]; [discriminate|]. apply Forall_app. auto.
  - cbn [tokenize].
    set (flush_ := (is_list_item (strip line) || is_empty line) && negb (is_empty token)).
    set (acc1 := if flush_ then acc ++ [token] else acc).
    set (token1 := if flush_ then ""%string else token).
    assert (H1 : (sconcat acc1 ++ token1)%string = (sconcat acc ++ token)%string).
    { unfold acc1, token1. destruct flush_; [|reflexivity]. rewrite sconcat_app. cbn [sconcat]. now rewrite !sapp_nil_r. }
    assert (H2 : Forall ends_nl acc -> (token = ""%string \/ ends_nl token) -> Forall ends_nl acc1).
    { intros Ha Ht. unfold acc1. destruct flush_ eqn:F; [|exact Ha]. apply Forall_app. split; [exact Ha|].
      constructor; [|constructor]. destruct Ht as [->|Ht]; [|exact Ht].
      unfold flush_ in F. cbn [is_empty negb] in F. now rewrite andb_false_r in F. }
    assert (H3 : ends_nl (token1 ++ line ++ nl1)%string) by (exists (token1 ++ line)%string; now rewrite sapp_assoc).
    destruct ((4 * String.length line <? 3 * width) || ends_with_c ":" line).
    + destruct (IH ""%string (acc1 ++ [(token1 ++ line ++ nl1)%string])) as [E F]. split.
      * rewrite E. rewrite sconcat_app. cbn [sconcat map append]. rewrite !sapp_nil_r.
        rewrite <- (sapp_assoc (sconcat acc) token). rewrite <- H1. now rewrite !sapp_assoc.
      * intros Ha Ht. apply F; [|now left]. apply Forall_app. split; [now apply H2|]. constructor; [exact H3|constructor].
    + destruct (IH (token1 ++ line ++ nl1)%string acc1) as [E F]. split.
      * rewrite E. cbn [sconcat map]. rewrite <- (sapp_assoc (sconcat acc) token). rewrite <- H1. now rewrite !sapp_assoc.
      * intros Ha Ht. apply F; [now apply H2 | now right].
Qed.

(* ---------------------------------------------------------------- fill of every token *)
Lemma fill_tokens_words width indent : forall tokens parts,
  fill_tokens width indent tokens = Some (Some parts) -> flat_map pywords parts = flat_map pywords tokens.
Proof.
  induction tokens as [|t tokens IH]; intros parts H; cbn [fill_tokens] in H.
  - inversion H. reflexivity.
  - destruct (tw_wrap width (rep indent sp) (rep indent sp ++ rep (sub_indent_level (strip t)) sp) t) as [[ls|]|] eqn:E;
      try discriminate.
    destruct (fill_tokens width indent tokens) as [[more|]|] eqn:E2; try discriminate.
    inversion H; subst. cbn [flat_map]. rewrite (IH more eq_refl). f_equal.
    eapply tw_wrap_words_preserved; [| |exact E].
    + apply sall_ws_rep_sp.
    + rewrite sall_app, !sall_ws_rep_sp. reflexivity.
Qed.

Lemma fill_tokens_total width indent tokens : fill_tokens width indent tokens <> Some None.
Proof.
  induction tokens as [|t tokens IH]; cbn [fill_tokens]; [discriminate|].
  destruct (tw_wrap width (rep indent sp) (rep indent sp ++ rep (sub_indent_level (strip t)) sp) t) as [[ls|]|] eqn:E.
  - destruct (fill_tokens width indent tokens) as [[more|]|]; try discriminate. congruence.
  - exfalso. eapply tw_wrap_total; eauto.
  - discriminate.
Qed.

(* ---------------------------------------------------------------- the tail of wrap keeps the words *)
Theorem wrap_tail_words first text2 width indent out :
  ends_nl first -> wrap_tail first text2 width indent = Ok out ->
  pywords out = pywords first ++ pywords (sdrop (String.length first) (colon_sub text2)).
Proof.
  intros (f & ->) H. unfold wrap_tail in H.
  set (text3 := sdrop (String.length (f ++ nl1)%string) (colon_sub text2)) in *.
  destruct (is_empty text3) eqn:Ee.
  - inversion H; subst. destruct text3; [|discriminate]. rewrite app_nil_r. apply pywords_strip.
  - set (new_line := match text3 with String c _ => if Ascii.eqb c nl then nl1 else ""%string | _ => ""%string end) in *.
    set (text4 := (new_line ++ strip text3)%string) in *.
    destruct (fill_tokens width indent (tokenize width (split_on nl text4) "" [])) as [[parts|]|] eqn:E; try discriminate.
    inversion H; subst. clear H.
    rewrite pywords_rstrip_nl, pywords_sep_app. f_equal.
    rewrite pywords_sjoin, (fill_tokens_words _ _ _ _ E).
    destruct (tokenize_spec width (split_on nl text4) ""%string []) as [Ec Ef].
    rewrite <- pywords_sconcat by (apply Ef; [constructor | now left]).
    rewrite Ec. cbn [sconcat append]. rewrite split_on_concat.
    rewrite (pywords_trail nl1) by reflexivity.
    unfold text4. rewrite pywords_lead; [apply pywords_strip|].
    unfold new_line. destruct text3 as [|c ?]; [reflexivity|]. destruct (Ascii.eqb c nl); reflexivity.
Qed.

(* what wrap_head returns as the first line always ends in a newline *)
Lemma wrap_head_ends_nl text1 width offset first text2 :
  wrap_head text1 width offset = (Ok first, text2) -> ends_nl first.
Proof.
  unfold wrap_head. destruct (width - offset <? String.length (first0_of text1)).
  - destruct (tw_wrap (width - offset) "" "" (first0_of text1)) as [[[|l0 ls]|]|]; intro H; inversion H. now exists l0.
  - intro H. inversion H. unfold first0_of.
    set (line0 := match split_on nl text2 with [] => ""%string | l :: _ => l end).
    destruct (ends_with_c ":" line0).
    + exists (line0 ++ nl1)%string. now rewrite sapp_assoc.
    + exists line0. now rewrite sapp_nil_r.
Qed.

(* wrap never runs out of fuel *)
Theorem wrap_total text width offset indent : wrap text width offset indent <> OutOfFuel.
Proof.
  unfold wrap. destruct (is_empty text); [discriminate|].
  destruct (is_empty (wrap_prologue text)); [discriminate|].
  destruct (wrap_head (repl_nlsp (wrap_prologue text)) width offset) as [r text2] eqn:E.
  assert (Hr : r <> OutOfFuel).
  { unfold wrap_head in E. destruct (width - offset <? String.length (first0_of (repl_nlsp (wrap_prologue text)))); [|inversion E; discriminate].
    destruct (tw_wrap (width - offset) "" "" (first0_of (repl_nlsp (wrap_prologue text)))) as [[[|l0 ls]|]|] eqn:Et; inversion E; try discriminate.
    exfalso. eapply tw_wrap_total; eauto. }
  destruct r; try congruence; try discriminate.
  unfold wrap_tail. destruct (is_empty _); [discriminate|].
  destruct (fill_tokens _ _ _) as [[parts|]|] eqn:Ef; try discriminate.
  exfalso. eapply fill_tokens_total; eauto.
Qed.

(* the prologue (expandtabs, then lstrip of every blank but the newline) keeps the words *)
Lemma lblank_ws c : is_lblank c = true -> ws c = true.
Proof. unfold is_lblank. intro H. now apply andb_true_iff in H as [H _]. Qed.

Lemma wrap_prologue_words text : pywords (wrap_prologue text) = pywords text.
Proof.
  unfold wrap_prologue. rewrite <- (weq_pywords _ _ (expandtabs_weq text 0)).
  rewrite (take_drop_while is_lblank (expandtabs 0 text)) at 2.
  symmetry. apply pywords_lead.
  generalize (expandtabs 0 text). intro s. induction s as [|c s IH]; [reflexivity|]. simpl.
  destruct (is_lblank c) eqn:E; [|reflexivity]. simpl. now rewrite (lblank_ws c E), IH.
Qed.

(* the whole of wrap, relative to the slice: the words of the output are those of the first line kept plus those of the
   text after the slice *)
Lemma wrap_words_via_slice text width offset indent out :
  is_empty (wrap_prologue text) = false -> wrap text width offset indent = Ok out ->
  exists first text2, wrap_head (repl_nlsp (wrap_prologue text)) width offset = (Ok first, text2) /\
    pywords out = pywords first ++ pywords (sdrop (String.length first) (colon_sub text2)).
Proof.
  intros Hne H. unfold wrap in H. destruct (is_empty text) eqn:Et.
  { destruct text; [|discriminate]. discriminate Hne. }
  rewrite Hne in H.
  destruct (wrap_head (repl_nlsp (wrap_prologue text)) width offset) as [r text2] eqn:E.
  destruct r; try discriminate. exists s, text2. split; [reflexivity|].
  eapply wrap_tail_words; [eapply wrap_head_ends_nl; eauto | exact H].
Qed.
