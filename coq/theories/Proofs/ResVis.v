From GV Require Import Base.Str Model.Selective Proofs.Selective.
From GV Require Import Model.ResVis.

Lemma vnext_in_universe sch roots a : incl (vnext sch a) (vuniverse sch roots).
Proof.
  unfold vnext, vuniverse. intros x Hx. apply in_or_app. right.
  induction sch as [|m r IH]; simpl in *; [contradiction|].
  destruct (String.eqb (vm_name m) a); apply in_or_app; [now left | right; now apply IH].
Qed.

(* the search never runs out of fuel *)
Lemma vclosure_total sch roots : exists r, vclosure sch roots = Some r.
Proof.
  unfold vclosure. apply (dfs_total (vnext sch) (vuniverse sch roots)).
  - intro a. apply vnext_in_universe.
  - constructor.
  - apply incl_nil_l.
  - unfold vuniverse. apply incl_appl, incl_refl.
  - simpl. lia.
Qed.

Lemma reach_closed next (r : list addr) :
  (forall a b, In a r -> In b (next a) -> In b r) ->
  forall a x, reach next a x -> In a r -> In x r.
Proof.
  intros Hc a x H. induction H as [a|a b c Hab IH Hbc]; intro Ha; [assumption|].
  apply (Hc b c); [now apply IH | assumption].
Qed.

(* the result is exactly the set of messages reachable from the roots through message-typed fields *)
Lemma vclosure_spec sch roots r : vclosure sch roots = Some r ->
  forall x, In x r <-> exists t, In t roots /\ reach (vnext sch) t x.
Proof.
  unfold vclosure. intro H. intro x. split.
  - intro Hx. destruct (dfs_sound _ _ _ _ _ H x Hx) as [[]|E]; exact E.
  - intros (t & Ht & Hr). destruct (dfs_mono _ _ _ _ _ H) as [_ Hin].
    eapply reach_closed; [| exact Hr | now apply Hin].
    eapply dfs_closed; [exact H|]. intros a b [].
Qed.

Lemma in_flat_map_iff {A B} (f : A -> list B) l y : In y (flat_map f l) <-> exists x, In x l /\ In y (f x).
Proof. apply in_flat_map. Qed.

(* which helpers a service gets *)
Theorem visible_spec sch tbl roots hs : visible sch tbl roots = Some hs ->
  forall h, In h hs <->
    exists t a m, In t roots /\ reach (vnext sch) t a /\ vfind sch a = Some m /\ In h (helpers_of tbl m).
Proof.
  unfold visible. destruct (vclosure sch roots) as [r|] eqn:E; [|discriminate].
  intro H. inversion H; subst. clear H. intro h. rewrite in_flat_map. split.
  - intros (a & Ha & Hh). destruct (vfind sch a) as [m|] eqn:F; [|contradiction].
    apply (vclosure_spec _ _ _ E) in Ha as (t & Ht & Hr). exists t, a, m. auto.
  - intros (t & a & m & Ht & Hr & F & Hh). exists a. split.
    + apply (vclosure_spec _ _ _ E). eauto.
    + now rewrite F.
Qed.

Theorem visible_total sch tbl roots : exists hs, visible sch tbl roots = Some hs.
Proof. unfold visible. destruct (vclosure_total sch roots) as [r ->]. eauto. Qed.

Lemma helpers_of_spec tbl m t p : In (t, p) (helpers_of tbl m) <->
  vm_res m = Some (t, p) \/ (In t (vm_refs m) /\ assoc t tbl = Some p).
Proof.
  unfold helpers_of. rewrite in_app_iff, in_flat_map. split.
  - intros [H | (t' & Ht & H)].
    + left. destruct (vm_res m) as [[a b]|]; simpl in H; [destruct H as [H|[]]; now inversion H | contradiction].
    + right. destruct (assoc t' tbl) as [p'|] eqn:A; [|contradiction]. destruct H as [H|[]]. inversion H; subst. auto.
  - intros [H | [Ht A]].
    + left. rewrite H. now left.
    + right. exists t. split; [assumption|]. rewrite A. now left.
Qed.

Example visible_example :
  let sch := [ mkV "GetReq" ["Wrapper"] ["x.com/Vault"] None;
               mkV "Wrapper" ["Book"; "Wrapper"] [] None;
               mkV "Book" [] [] (Some ("x.com/Book", "shelves/{shelf}/books/{book}"));
               mkV "Unrelated" [] [] (Some ("x.com/Other", "others/{other}")) ] in
  visible sch [("x.com/Vault", "vaults/{vault}")] ["GetReq"]
  = Some [("x.com/Book", "shelves/{shelf}/books/{book}"); ("x.com/Vault", "vaults/{vault}")]
  /\ helper_sig ("x.com/KeyRing", "keyRings/{key_ring=**}") = ("key_ring_path", "keyRings/{key_ring}").
Proof. vm_compute. split; reflexivity. Qed.

(* keyed by the whole address it is the search of the model ... *)
Lemma dfs_by_id next n : forall todo seen, dfs_by next (fun a => a) n todo seen = dfs next n todo seen.
Proof.
  induction n as [|n IH]; intros todo; induction todo as [|a rest IHt]; intros seen; cbn [dfs_by dfs]; try reflexivity.
  - rewrite map_id. unfold mem. destruct (mem_str a seen); [apply IHt | reflexivity].
  - rewrite map_id. unfold mem. destruct (mem_str a seen); [apply IHt | apply IH].
Qed.

Theorem visible_by_address sch tbl roots : visible_by (fun a => a) sch tbl roots = visible sch tbl roots.
Proof. unfold visible_by, visible, vclosure. rewrite dfs_by_id. reflexivity. Qed.

(* ... keyed by the short name it loses a resource that the specification says is visible *)
Theorem visible_by_short_name_refuted :
  exists sch tbl roots h,
    (exists t a m, In t roots /\ reach (vnext sch) t a /\ vfind sch a = Some m /\ In h (helpers_of tbl m)) /\
    (forall hs, visible_by short_name sch tbl roots = Some hs -> ~ In h hs).
Proof.
  exists [ mkV "Catalog" ["Tome"; "Rack"] [] None;
           mkV "Tome" ["Tome.Details"] [] None;
           mkV "Tome.Details" [] [] None;
           mkV "Rack" ["Rack.Details"] [] None;
           mkV "Rack.Details" ["Curator"] [] None;
           mkV "Curator" [] [] (Some ("x.com/Curator", "curators/{curator}")) ],
         [], ["Catalog"], ("x.com/Curator", "curators/{curator}").
  split.
  - exists "Catalog", "Curator", (mkV "Curator" [] [] (Some ("x.com/Curator", "curators/{curator}"))).
    split; [simpl; tauto|]. split.
    + apply (reach_step _ "Catalog" "Rack.Details" "Curator");
        [apply (reach_step _ "Catalog" "Rack" "Rack.Details");
           [apply (reach_step _ "Catalog" "Catalog" "Rack"); [apply reach_refl|]|]|]; vm_compute; tauto.
    + split; [reflexivity | cbn; tauto].
  - intros hs H. vm_compute in H. injection H as <-. cbn. tauto.
Qed.
