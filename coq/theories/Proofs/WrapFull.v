(* Proofs/WrapFull.v — C20: after the fix (tabs expanded, leading blanks dropped up front) the first-line slice of wrap is
   aligned with the text also when the first line has to be broken by textwrap; hence wrap keeps the words of EVERY comment. *)
From GV Require Import Base.Str Model.FixWs Model.Wrap Proofs.RxLemmas Proofs.FixWs Proofs.FixWsIdem Proofs.Words Proofs.TwWrap
  Proofs.Wrap Proofs.WrapWidth Proofs.WrapFit.
Local Open Scope list_scope.
Local Open Scope nat_scope.

Definition twf (c : ascii) : ascii := if is_twspace c then sp else c.

(* ---------------------------------------------------------------- strings *)
Lemma string_snoc (s : string) : s <> ""%string -> exists s' c, s = (s' ++ s1 c)%string.
Proof.
  induction s as [|a s IH]; [congruence|]. intros _. destruct s as [|b s].
  - exists ""%string, a. reflexivity.
  - destruct (IH ltac:(discriminate)) as (s' & c & E). exists (String a s'), c. cbn [append]. now rewrite <- E.
Qed.

Lemma snoc_inj : forall (x y : string) c d, (x ++ s1 c)%string = (y ++ s1 d)%string -> x = y /\ c = d.
Proof.
  induction x as [|a x IH]; intros [|b y] c d E; cbn [append s1] in E.
  - inversion E. auto.
  - inversion E as [[E1 E2]]. destruct y; discriminate.
  - inversion E as [[E1 E2]]. destruct x; discriminate.
  - inversion E as [[E1 E2]]. destruct (IH _ _ _ E2) as [-> ->]. auto.
Qed.

Lemma app_split_s : forall (a b c d : string), (a ++ b)%string = (c ++ d)%string -> String.length a <= String.length c ->
  exists m, c = (a ++ m)%string /\ b = (m ++ d)%string.
Proof.
  induction a as [|x a IH]; intros b c d E L; [exists c; auto|].
  destruct c as [|y c]; [simpl in L; lia|]. cbn [append] in E. inversion E as [[E1 E2]]. subst y.
  destruct (IH b c d E2) as (m & -> & ->); [simpl in L; lia|]. exists m. auto.
Qed.

Lemma smap_app f a b : smap f (a ++ b)%string = (smap f a ++ smap f b)%string.
Proof. induction a as [|x a IH]; [reflexivity|]. cbn [append smap]. now rewrite IH. Qed.

Lemma smap_length f s : String.length (smap f s) = String.length s.
Proof. induction s as [|x s IH]; [reflexivity|]. simpl. now rewrite IH. Qed.

Lemma smap_split_inv f : forall x y s, smap f s = (x ++ y)%string ->
  exists a b, s = (a ++ b)%string /\ smap f a = x /\ smap f b = y.
Proof.
  induction x as [|c x IH]; intros y s E; [exists ""%string, s; auto|].
  destruct s as [|d s]; [discriminate|]. cbn [smap append] in E. inversion E as [[E1 E2]].
  destruct (IH y s E2) as (a & b & -> & Ha & Hb). exists (String d a), b. cbn [smap append]. rewrite Ha. auto.
Qed.

(* without TAB, munging is character by character *)
Lemma expandtabs_notab : forall s col, contains tab s = false -> expandtabs col s = s.
Proof.
  induction s as [|c s IH]; intros col H; [reflexivity|]. cbn [contains] in H. apply orb_false_iff in H as [Hc H].
  cbn [expandtabs]. rewrite Hc. destruct (Ascii.eqb c nl || Ascii.eqb c (chr 13)); now rewrite IH.
Qed.

Lemma munge_notab s : contains tab s = false -> munge s = smap twf s.
Proof. intro H. unfold munge. now rewrite expandtabs_notab. Qed.

Lemma twf_ws c : ws (twf c) = true -> ws c = true.
Proof. unfold twf. destruct (is_twspace c) eqn:E; [intros _; now apply twspace_pyspace | auto]. Qed.

(* ---------------------------------------------------------------- chunk boundaries *)
Lemma altk_adjacent_kinds : forall pre k p z post, altk k (pre ++ p :: z :: post) ->
  exists k', homog k' p /\ homog (negb k') z.
Proof.
  induction pre as [|y pre IH]; intros k p z post H.
  - destruct H as [Hp [Hz _]]. eauto.
  - destruct H as [_ H]. eapply IH; eauto.
Qed.

Lemma homog_last k x' c : homog k (x' ++ s1 c)%string -> is_twspace c = k.
Proof.
  intros [_ H]. rewrite sall_app in H. apply andb_true_iff in H as [_ H]. simpl in H. rewrite andb_true_r in H.
  now apply Bool.eqb_prop in H.
Qed.

Lemma homog_first k c z' : homog k (String c z') -> is_twspace c = k.
Proof. intros [_ H]. simpl in H. apply andb_true_iff in H as [H _]. now apply Bool.eqb_prop in H. Qed.

(* at a boundary between two chunks the whitespace kind changes *)
Lemma boundary_kinds k P Qs : altk k (P ++ Qs) -> P <> [] -> Qs <> [] ->
  exists u cu cv v, sconcat P = (u ++ s1 cu)%string /\ sconcat Qs = String cv v /\ is_twspace cu <> is_twspace cv.
Proof.
  intros Halt HP HQ. destruct (exists_last HP) as (P' & p & ->). destruct Qs as [|z Q']; [congruence|].
  rewrite <- app_assoc in Halt. cbn [app] in Halt.
  destruct (altk_adjacent_kinds _ _ _ _ _ Halt) as (k' & Hp & Hz).
  destruct (string_snoc p (proj1 Hp)) as (p' & cu & ->).
  destruct z as [|cv z']; [destruct Hz as [Hz _]; congruence|].
  exists (sconcat P' ++ p')%string, cu, cv, (z' ++ sconcat Q')%string.
  split; [rewrite sconcat_app; cbn [sconcat]; now rewrite sapp_nil_r, sapp_assoc|].
  split; [reflexivity|]. rewrite (homog_last _ _ _ Hp), (homog_first _ _ _ Hz). now destruct k'.
Qed.

(* ---------------------------------------------------------------- the first line textwrap makes *)
Lemma wrap_chunks_prefix W ii si : forall fuel lines chunks out,
  wrap_chunks fuel W ii si lines chunks = Some out -> exists more, out = lines ++ more.
Proof.
  induction fuel as [|fuel IH]; intros lines chunks out H.
  - destruct chunks; [|discriminate]. inversion H. exists []. now rewrite app_nil_r.
  - destruct chunks as [|c rest]; [inversion H; exists []; now rewrite app_nil_r|].
    cbn [wrap_chunks] in H.
    destruct (wrap_step W (if is_nil lines then ii else si) (is_nil lines) (c :: rest)) as [line chunks'].
    apply IH in H as (more & ->). destruct line; [|eauto]. rewrite <- app_assoc. eauto.
Qed.

(* the first wrapped line of a text that starts with a non-blank character: some first chunks, after which a blank chunk
   was dropped, or after which the next chunk did not fit *)
Lemma tw_first_line W s l0 ls c0 s' :
  s = String c0 s' -> ws c0 = false -> contains tab s = false ->
  tw_wrap W "" "" s = Some (Some (l0 :: ls)) ->
  exists k cur3 t chunks', altk k (cur3 ++ t ++ chunks') /\ sconcat (cur3 ++ t ++ chunks') = smap twf s /\
    l0 = sconcat cur3 /\ cur3 <> [] /\
    ((t = [] /\ exists l x, cur3 = l ++ [x] /\ is_blank x = false) \/ (exists b, t = [b] /\ is_blank b = true)).
Proof.
  intros Es Hc0 Htab H. unfold tw_wrap in H. destruct (W =? 0); [discriminate|]. inversion H as [H1]. clear H.
  rewrite (munge_notab s Htab) in H1.
  destruct (split_chunks_alt (smap twf s)) as (k & Halt).
  pose proof (split_chunks_concat (smap twf s)) as Hcat.
  set (ch := split_chunks (smap twf s)) in *.
  destruct ch as [|c1 ch'] eqn:Ech.
  { rewrite Es in Hcat. discriminate Hcat. }
  cbn [List.length wrap_chunks is_nil] in H1.
  destruct (wrap_step W "" true (c1 :: ch')) as [line chunks'] eqn:Est.
  pose proof Est as Esp. apply wrap_step_spec in Esp as (d & cur3 & t & Ec & Hd & Ht & Hl & _ & _).
  destruct Hd as [-> | (Hf & _)]; [|discriminate]. cbn [app] in Ec.
  assert (Hne : cur3 <> []).
  { intros ->. cbn [app] in Ec.
    destruct Ht as [[-> [_ | (l & x & Hx & _)]] | (b & -> & Hb)].
    - (* nothing consumed: impossible *)
      apply wrap_step_decreases in Est; [|discriminate]. cbn [app] in Ec. rewrite <- Ec in Est. lia.
    - destruct l; discriminate.
    - cbn [app] in Ec. inversion Ec as [[E1' E2']]. rewrite E1' in *. cbn [sconcat] in Hcat.
      destruct Halt as [[Hb0 _] _]. destruct b as [|cb b']; [congruence|].
      rewrite Es in Hcat. cbn [smap append] in Hcat. inversion Hcat as [[E1 E2]]. simpl in Hb. apply andb_true_iff in Hb as [Hb _].
      rewrite E1 in Hb. apply twf_ws in Hb. congruence. }
  exists k, cur3, t, chunks'. rewrite <- Ec. split; [exact Halt|]. split; [exact Hcat|].
  assert (Hline : line = Some (sconcat cur3)) by (rewrite Hl; destruct cur3; [congruence|reflexivity]).
  rewrite Hline in H1. apply wrap_chunks_prefix in H1 as (more & Hm). cbn [app] in Hm. inversion Hm. subst.
  split; [reflexivity|]. split; [exact Hne|].
  destruct Ht as [[-> [Hc | Hx]] | Hb]; [congruence | left; auto | right; auto].
Qed.

(* ---------------------------------------------------------------- the slice after a prefix of the first line *)
Lemma colon_sub_ws_head w B : ws w = true -> colon_sub (String w B) = String w (colon_sub B).
Proof.
  intro H. cbn [colon_sub]. destruct (Ascii.eqb w ":") eqn:E; [|reflexivity].
  apply Ascii.eqb_eq in E. subst w. discriminate H.
Qed.

Lemma sdrop_app_cons A w X : sdrop (S (String.length A)) (A ++ String w X)%string = X.
Proof. induction A as [|c A IH]; [reflexivity|]. exact IH. Qed.

Lemma pywords_split_ws A w X : ws w = true -> pywords (A ++ String w X)%string = pywords A ++ pywords X.
Proof. intro H. unfold pywords. now apply pw_acc_split. Qed.

Lemma slice_after_prefix A Z : sall nonl A = true ->
  (Z = ""%string \/ exists w B, Z = String w B /\ ws w = true) ->
  pywords A ++ pywords (sdrop (S (String.length A)) (colon_sub (A ++ Z))) = pywords (A ++ Z)%string.
Proof.
  intros HA [-> | (w & B & -> & Hw)].
  - rewrite (colon_sub_prefix A "" HA).
    assert (E : (if ends_with_c ":" A then (A ++ colon_sub "")%string else (A ++ colon_sub "")%string) = A)
      by (cbn [colon_sub]; rewrite sapp_nil_r; now destruct (ends_with_c ":" A)).
    rewrite E, sapp_nil_r. rewrite sdrop_short by lia. now rewrite app_nil_r.
  - rewrite (pywords_split_ws A w B Hw). rewrite (colon_sub_prefix A (String w B) HA).
    assert (G : pywords A ++ pywords (sdrop (S (String.length A)) (A ++ colon_sub (String w B))) = pywords A ++ pywords B).
    { rewrite (colon_sub_ws_head w B Hw), sdrop_app_cons. f_equal. apply weq_pywords, colon_sub_weq. }
    destruct (ends_with_c ":" A); [|exact G].
    destruct B as [|c r']; [exact G|].
    destruct (Ascii.eqb w nl && negb (Ascii.eqb c nl)) eqn:E; [|exact G].
    rewrite sdrop_app_cons. f_equal.
    change (String nl (String c (colon_sub r'))) with (nl1 ++ String c (colon_sub r'))%string.
    rewrite pywords_lead by reflexivity. apply weq_pywords, weq_cons, colon_sub_weq.
Qed.

Lemma repl_first_nl_weq s : repl_first_nl s ≃ s.
Proof.
  induction s as [|c s IH]; [apply weq_refl|]. cbn [repl_first_nl].
  destruct (Ascii.eqb c nl) eqn:E; [|now apply weq_cons].
  apply Ascii.eqb_eq in E. subst c.
  apply (weq_app (s1 sp) (s1 nl) s s); [|apply weq_refl]. apply weq_sep; apply sepc_s1; reflexivity.
Qed.

Lemma repl_first_nl_prefix : forall a rest, sall nonl a = true -> repl_first_nl (a ++ rest) = (a ++ repl_first_nl rest)%string.
Proof.
  induction a as [|c a IH]; intros rest H; [reflexivity|]. simpl in H. apply andb_true_iff in H as [Hc H].
  cbn [append repl_first_nl]. unfold nonl in Hc. destruct (Ascii.eqb c nl); [discriminate|]. now rewrite IH.
Qed.

Lemma contains_take_while c p s : contains c s = false -> contains c (stake_while p s) = false.
Proof.
  induction s as [|x s IH]; [reflexivity|]. cbn [contains stake_while]. intro H. apply orb_false_iff in H as [Hx H].
  destruct (p x); [|reflexivity]. cbn [contains]. now rewrite Hx, IH.
Qed.

(* ---------------------------------------------------------------- an over-long first line *)
Lemma over_slice_words text1 W l0 ls text2 :
  contains tab text1 = false -> nohead is_lblank text1 ->
  tw_wrap W "" "" (first0_of text1) = Some (Some (l0 :: ls)) ->
  (text2 = text1 \/ text2 = repl_first_nl text1) ->
  pywords (l0 ++ nl1)%string ++ pywords (sdrop (String.length (l0 ++ nl1)%string) (colon_sub text2)) = pywords text1.
Proof.
  intros Htab Hhead Htw Ht2.
  unfold first0_of in Htw. rewrite first_line_is in Htw.
  set (line0 := stake_while nonl text1) in *. set (rest := sdrop_while nonl text1).
  assert (Et : text1 = (line0 ++ rest)%string) by apply take_drop_while.
  assert (Hl : sall nonl line0 = true) by apply sall_take_while.
  assert (Hr : nohead nonl rest) by apply nohead_drop_while.
  set (colon := ends_with_c ":" line0) in *.
  set (NL := (nl1 ++ (if colon then nl1 else ""))%string) in *.
  (* the first line is not empty and starts with a non-blank character *)
  destruct line0 as [|c0 line0'] eqn:El0.
  { exfalso. unfold NL, colon in Htw. destruct W as [|W']; [discriminate Htw|]. vm_compute in Htw. discriminate Htw. }
  rewrite <- El0 in *.
  assert (Hc0 : ws c0 = false).
  { rewrite Et, El0 in Hhead. cbn [append nohead] in Hhead. rewrite El0 in Hl. simpl in Hl. apply andb_true_iff in Hl as [Hn _].
    unfold is_lblank in Hhead. unfold nonl in Hn. destruct (ws c0); [|reflexivity]. rewrite Hn in Hhead. discriminate. }
  assert (Htab0 : contains tab (line0 ++ NL)%string = false).
  { rewrite contains_app. unfold line0. rewrite (contains_take_while tab nonl text1 Htab). unfold NL. destruct colon; reflexivity. }
  assert (Es : (line0 ++ NL)%string = String c0 (line0' ++ NL)) by now rewrite El0.
  destruct (tw_first_line W _ l0 ls c0 _ Es Hc0 Htab0 Htw) as (k & cur3 & t & chunks' & Halt & Hcat & Hl0 & Hne & Hlast).
  rewrite smap_app in Hcat. rewrite sconcat_app in Hcat. rewrite <- Hl0 in Hcat.
  set (tail := sconcat (t ++ chunks')) in *.
  set (SP := smap twf NL) in *.
  assert (HSP : exists SP', SP = (SP' ++ s1 sp)%string /\ (colon = true -> SP' = s1 sp) /\ (colon = false -> SP' = ""%string)).
  { unfold SP, NL. destruct colon; [exists (s1 sp) | exists ""%string]; repeat split; auto; discriminate. }
  destruct HSP as (SP' & ESP & HSPt & HSPf).
  (* T1: the text after the first wrapped line starts with a blank *)
  assert (T1 : exists cw tail', tail = String cw tail' /\ ws cw = true).
  { destruct Hlast as [[-> (l & x & Ex & Hx)] | (b & -> & Hb)].
    - destruct chunks' as [|y rest'].
      + exfalso. unfold tail in Hcat. cbn [app sconcat] in Hcat. rewrite sapp_nil_r in Hcat.
        assert (Hin : In x (cur3 ++ [] ++ [])) by (rewrite Ex; apply in_or_app; left; apply in_or_app; right; now left).
        destruct (altk_homog _ k x Halt Hin) as [Hh | Hh].
        * apply homog_true_sepc, sepc_blank in Hh. congruence.
        * destruct (string_snoc x (proj1 Hh)) as (x' & cx & Exx). rewrite Exx in Hh. apply homog_last in Hh.
          rewrite Hl0, Ex, sconcat_app in Hcat. cbn [sconcat] in Hcat. rewrite sapp_nil_r, Exx, ESP in Hcat.
          rewrite <- !sapp_assoc in Hcat. apply snoc_inj in Hcat as [_ Hcx]. subst cx. discriminate Hh.
      + assert (Hy : homog true y).
        { rewrite Ex in Halt. cbn [app] in Halt. rewrite <- app_assoc in Halt. cbn [app] in Halt.
          apply altk_adjacent in Halt as [Hh | Hh]; [|exact Hh].
          apply homog_true_sepc, sepc_blank in Hh. congruence. }
        unfold tail. cbn [app sconcat]. destruct y as [|cy y']; [destruct Hy; congruence|].
        exists cy, (y' ++ sconcat rest')%string. split; [reflexivity|]. apply twspace_pyspace. now apply (homog_first true cy y').
    - assert (Hbn : b <> ""%string).
      { eapply altk_nonempty; [exact Halt|]. apply in_or_app. right. apply in_or_app. left. now left. }
      unfold tail. cbn [app sconcat]. destruct b as [|cb b']; [congruence|].
      exists cb, (b' ++ sconcat chunks')%string. split; [reflexivity|]. simpl in Hb. now apply andb_true_iff in Hb as [Hb _]. }
  destruct T1 as (cw & tail' & Etail & Hcw).
  (* T2: the first wrapped line ends inside the comment's first line *)
  assert (T2 : String.length l0 <= String.length (smap twf line0)).
  { pose proof (f_equal String.length Hcat) as L. rewrite !length_app, Etail, ESP, length_app in L. cbn [String.length s1] in L.
    destruct colon eqn:Ecol.
    - rewrite (HSPt eq_refl) in *. cbn [String.length s1] in L.
      destruct tail' as [|c2 tail'']; [|cbn [String.length] in L; lia].
      exfalso.
      assert (HQ : t ++ chunks' <> []) by (intro E0; unfold tail in Etail; rewrite E0 in Etail; discriminate).
      destruct (boundary_kinds k cur3 (t ++ chunks') Halt Hne HQ) as (u & cu & cv & v & Eu & Ev & Hk).
      fold tail in Ev. rewrite Etail in Ev. inversion Ev; subst cv v.
      rewrite Etail, ESP in Hcat. rewrite <- sapp_assoc in Hcat. change (String cw "") with (s1 cw) in Hcat.
      apply snoc_inj in Hcat as [Hc1 Hc2]. subst cw.
      rewrite Hl0, Eu in Hc1. apply snoc_inj in Hc1 as [_ Hcu]. subst cu. now apply Hk.
    - rewrite (HSPf eq_refl) in *. cbn [String.length append] in L. lia. }
  destruct (app_split_s l0 tail (smap twf line0) SP Hcat T2) as (mid & Emid & Etl).
  destruct (smap_split_inv twf l0 mid line0 Emid) as (A & A' & EA & HAl & HAm).
  (* the text seen from the slice point *)
  set (rest2 := if string_dec text2 text1 then rest else repl_first_nl rest).
  assert (E2 : text2 = (A ++ (A' ++ rest2))%string /\ (rest2 = ""%string \/ exists w r, rest2 = String w r /\ ws w = true)).
  { unfold rest2. destruct (string_dec text2 text1) as [E|E].
    - split; [rewrite E, Et, EA; now rewrite sapp_assoc|].
      destruct rest as [|w r]; [now left|]. right. exists w, r. split; [reflexivity|].
      simpl in Hr. unfold nonl in Hr. destruct (Ascii.eqb w nl) eqn:Ew; [|discriminate]. apply Ascii.eqb_eq in Ew. now subst w.
    - destruct Ht2 as [Ht2|Ht2]; [congruence|]. split.
      + rewrite Ht2, Et, (repl_first_nl_prefix line0 rest Hl), EA. now rewrite sapp_assoc.
      + destruct rest as [|w r]; [now left|]. right. cbn [repl_first_nl].
        simpl in Hr. unfold nonl in Hr. destruct (Ascii.eqb w nl) eqn:Ew; [|discriminate]. exists sp, r. auto. }
  destruct E2 as [E2 Hrest2].
  assert (HZ : (A' ++ rest2)%string = ""%string \/ exists w B, (A' ++ rest2)%string = String w B /\ ws w = true).
  { destruct A' as [|a' A''].
    - cbn [append]. destruct Hrest2 as [->|(w & r & -> & Hw)]; [now left | right; eauto].
    - right. exists a', (A'' ++ rest2)%string. split; [reflexivity|].
      rewrite <- HAm in Etl. cbn [smap append] in Etl. rewrite Etail in Etl. injection Etl as E1 _. rewrite E1 in Hcw. now apply twf_ws. }
  assert (HA : sall nonl A = true) by (rewrite EA, sall_app in Hl; now apply andb_true_iff in Hl as [Hl _]).
  assert (Elen : String.length (l0 ++ nl1)%string = S (String.length A)).
  { rewrite length_app, <- HAl, smap_length. cbn. lia. }
  rewrite Elen, E2. rewrite (pywords_trail nl1) by reflexivity.
  rewrite <- HAl. assert (Hw : smap twf A ≃ A) by apply smap_tw_weq. rewrite (weq_pywords _ _ Hw).
  rewrite (slice_after_prefix A (A' ++ rest2) HA HZ).
  rewrite <- E2. destruct Ht2 as [->| ->]; [reflexivity | apply weq_pywords, repl_first_nl_weq].
Qed.

(* ---------------------------------------------------------------- what the prologue guarantees *)
Lemma contains_rep_sp_tab n : contains tab (rep n sp) = false.
Proof. induction n as [|n IH]; [reflexivity|]. simpl. exact IH. Qed.

Lemma expandtabs_out_notab : forall s col, contains tab (expandtabs col s) = false.
Proof.
  induction s as [|c s IH]; intro col; [reflexivity|]. cbn [expandtabs].
  destruct (Ascii.eqb c tab) eqn:Et.
  - rewrite contains_app, contains_rep_sp_tab. apply IH.
  - destruct (Ascii.eqb c nl || Ascii.eqb c (chr 13)); cbn [contains]; now rewrite Et, IH.
Qed.

Lemma contains_drop_while c p s : contains c s = false -> contains c (sdrop_while p s) = false.
Proof.
  induction s as [|x s IH]; [reflexivity|]. cbn [contains sdrop_while]. intro H. apply orb_false_iff in H as [Hx H].
  destruct (p x); [now apply IH|]. cbn [contains]. now rewrite Hx, H.
Qed.

Lemma repl_nlsp_notab s : contains tab s = false -> contains tab (repl_nlsp s) = false.
Proof.
  remember (String.length s) as n eqn:En. revert s En.
  induction n as [n IH] using lt_wf_ind. intros s En H.
  destruct s as [|c s]; [reflexivity|]. cbn [contains] in H. apply orb_false_iff in H as [Hc H].
  assert (IHs : contains tab (repl_nlsp s) = false) by (eapply IH; [|reflexivity|exact H]; subst n; simpl; lia).
  cbn [repl_nlsp]. destruct (Ascii.eqb c nl) eqn:Ec; [|cbn [contains]; now rewrite Hc, IHs].
  destruct s as [|d s']; [cbn [contains]; now rewrite Hc|].
  destruct (Ascii.eqb d sp); [|cbn [contains]; now rewrite Hc, IHs].
  cbn [contains] in *. apply orb_false_iff in H as [_ H].
  replace (Ascii.eqb nl tab) with false by reflexivity. cbn [orb].
  eapply IH; [|reflexivity|exact H]. subst n. simpl. lia.
Qed.

Lemma repl_nlsp_head p s : nohead p s -> nohead p (repl_nlsp s).
Proof.
  destruct s as [|c s]; [auto|]. cbn [nohead repl_nlsp]. intro H.
  destruct (Ascii.eqb c nl) eqn:Ec; [|exact H]. apply Ascii.eqb_eq in Ec. subst c.
  destruct s as [|d s']; [exact H|]. destruct (Ascii.eqb d sp); exact H.
Qed.

Lemma prologue_notab text : contains tab (wrap_prologue text) = false.
Proof. unfold wrap_prologue. apply contains_drop_while, expandtabs_out_notab. Qed.

Lemma prologue_head text : nohead is_lblank (wrap_prologue text).
Proof. apply nohead_drop_while. Qed.

(* ---------------------------------------------------------------- the theorem *)
Theorem wrap_words_preserved text width offset indent out :
  wrap text width offset indent = Ok out -> pywords out = pywords text.
Proof.
  intro H. rewrite <- (wrap_prologue_words text).
  destruct (is_empty (wrap_prologue text)) eqn:Ep.
  - rewrite (wrap_blank text width offset indent Ep) in H. inversion H.
    destruct (wrap_prologue text); [reflexivity|discriminate].
  - destruct (wrap_words_via_slice text width offset indent out Ep H) as (first & text2 & Eh & Ew).
    rewrite Ew. set (text0 := wrap_prologue text) in *.
    rewrite <- (weq_pywords _ _ (repl_nlsp_weq text0)).
    assert (Htab : contains tab (repl_nlsp text0) = false) by apply repl_nlsp_notab, prologue_notab.
    assert (Hhd : nohead is_lblank (repl_nlsp text0)) by apply repl_nlsp_head, prologue_head.
    unfold wrap_head in Eh.
    destruct (width - offset <? String.length (first0_of (repl_nlsp text0))).
    + destruct (tw_wrap (width - offset) "" "" (first0_of (repl_nlsp text0))) as [[[|l0 ls]|]|] eqn:Et; inversion Eh as [[E1 E2]].
      eapply over_slice_words; eauto.
      destruct (contains nl (repl_nlsp text0)); [|now left].
      destruct (is_list_item _); [now left | now right].
    + inversion Eh. apply fit_slice_words.
Qed.
