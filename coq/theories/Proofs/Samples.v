(* Proofs/Samples.v — lemmas for C14. *)
From Coq Require Import Lia.
From GV Require Import Base.Str Gen.Kw Gen.SamplesGen Model.Case Model.Samples.

(* ---------- pins: the literals Model/Samples.v was written against (T0) ---------- *)
Example pin_segment_res :
  SEGMENT_RES = ["^\s+# Create a client"; "^\s+# Initialize request argument\(s\)"; "^\s+# Make the request"; "^\s+# Handle the response"].
Proof. reflexivity. Qed.
Example pin_segment_chain :
  SEGMENT_CHAIN =
  [("line.startswith('# [START')", "self._full_snippet.start = i + 1; self._short_snippet.start = self._full_snippet.start");
   ("line.startswith('# [END')", "self._full_snippet.end = i - 1; self._short_snippet.end = self._full_snippet.end");
   ("CLIENT_INIT_RE.match(line)", "self._client_init.start = i");
   ("REQUEST_INIT_RE.match(line)", "self._client_init.end = i - 1; self._request_init.start = i");
   ("REQUEST_EXEC_RE.match(line)", "self._request_init.end = i - 1; self._request_exec.start = i");
   ("RESPONSE_HANDLING_RE.match(line)", "self._request_exec.end = i - 1; self._response_handling.start = i")].
Proof. reflexivity. Qed.
Example pin_full_snippet :
  FULL_SNIPPET_SRC = ["start_idx = self._full_snippet.start - 1"; "end_idx = self._full_snippet.end";
                      "return ''.join(self.sample_lines[start_idx:end_idx])"].
Proof. reflexivity. Qed.
Example pin_segment_post :
  SEGMENT_POST_SRC = ["if self._request_exec.start and (not self._request_exec.end): self._request_exec.end = self._full_snippet.end";
                      "if not self._response_handling.start: self._response_handling.end = 0"].
Proof. reflexivity. Qed.
Example pin_request_object :
  GRO_REQUIRED_SRC = "[field for field in message.required_fields if not field.oneof or field.proto3_optional]" /\
  GRO_BRANCH_TESTS = ["field.is_primitive"; "field.enum"; "field.type in _enclosing or field.type == message"] /\
  GRO_RECURSIVE_KWARGS = ["_enclosing=_enclosing + (message,)"; "field_name_prefix=field_name"].
Proof. repeat split; reflexivity. Qed.
Example pin_index :
  INDEX_STORE_SRC = ["if getattr(snippet.metadata.client_method, 'async'): method['async'] = snippet else: method['sync'] = snippet"] /\
  INDEX_GET_SRC = "return method['sync' if sync else 'async']".
Proof. split; reflexivity. Qed.
Example pin_region_tag :
  REGION_TAG_SRC = "f'{api_short_name}_{api_version}_generated_{service_name}_{rpc_name}_{sync_or_async}'" /\
  REGION_TAG_INTERNAL_SRC = "region_tag += '_internal'".
Proof. split; reflexivity. Qed.
Example pin_sync_or_async :
  SYNC_OR_ASYNC_SRC = ["if transport in (api.TRANSPORT_GRPC, api.TRANSPORT_REST): return 'sync' else: return 'async'"] /\
  SUPPORTS_GRPC_SRC = ["return api.TRANSPORT_GRPC in service.clients.keys()"] /\
  TRANSPORTS = ["grpc"; "grpc-async"; "rest"].
Proof. repeat split; reflexivity. Qed.
Example pin_method_default :
  METHOD_DEFAULT_SRC =
  ["if m.lro: return cls.LongRunningRequestPromise"; "if m.paged_result_field: return cls.RequestPagedAll";
   "if m.client_streaming: return cls.RequestStreamingBidi if m.server_streaming else cls.RequestStreamingClient";
   "if m.server_streaming: return cls.RequestStreamingServer"; "return cls.Request"].
Proof. reflexivity. Qed.

(* ---------- general ---------- *)
Lemma mem_In k l : mem_str k l = true <-> In k l.
Proof.
  unfold mem_str. rewrite existsb_exists. split.
  - intros (y & Hy & E). apply String.eqb_eq in E. now subst.
  - intro H. exists k. split; [assumption | apply String.eqb_refl].
Qed.

Lemma filter_flat_map {A B} (p : B -> bool) (f : A -> list B) l :
  filter p (flat_map f l) = flat_map (fun x => filter p (f x)) l.
Proof. induction l as [|a l IH]; simpl; [reflexivity|]. now rewrite filter_app, IH. Qed.

Lemma flat_map_nil {A B} (g : A -> list B) l : (forall y, In y l -> g y = []) -> flat_map g l = [].
Proof.
  induction l as [|a l IH]; intro H; simpl; [reflexivity|].
  rewrite (H a (or_introl eq_refl)). simpl. apply IH. intros y Hy. apply H. now right.
Qed.

Lemma flat_map_single {A B} (key : A -> string) (g : A -> list B) l x :
  NoDup (map key l) -> In x l -> (forall y, In y l -> key y <> key x -> g y = []) -> flat_map g l = g x.
Proof.
  induction l as [|a l IH]; intros ND Hin Hz; [contradiction|].
  simpl in *. inversion ND as [|? ? Hn ND']. subst. destruct Hin as [->|Hin].
  - rewrite (flat_map_nil g l); [apply app_nil_r|].
    intros y Hy. apply Hz; [now right|]. intro E. apply Hn. rewrite <- E. now apply in_map.
  - rewrite (Hz a (or_introl eq_refl)).
    + simpl. apply IH; auto.
    + intro E. apply Hn. rewrite E. now apply in_map.
Qed.

Lemma filter_nil {A} (p : A -> bool) l : (forall y, In y l -> p y = false) -> filter p l = [].
Proof.
  induction l as [|a l IH]; intro H; simpl; [reflexivity|].
  rewrite (H a (or_introl eq_refl)). apply IH. intros y Hy. apply H. now right.
Qed.

Lemma filter_key_single {A} (key : A -> string) l x :
  NoDup (map key l) -> In x l -> filter (fun y => String.eqb (key y) (key x)) l = [x].
Proof.
  induction l as [|a l IH]; intros ND Hin; [contradiction|].
  simpl in *. inversion ND as [|? ? Hn ND']. subst. destruct Hin as [->|Hin].
  - rewrite String.eqb_refl. f_equal. apply filter_nil. intros y Hy.
    destruct (String.eqb (key y) (key x)) eqn:E; [|reflexivity].
    apply String.eqb_eq in E. exfalso. apply Hn. rewrite <- E. now apply in_map.
  - destruct (String.eqb (key a) (key x)) eqn:E.
    + apply String.eqb_eq in E. exfalso. apply Hn. rewrite E. now apply in_map.
    + now apply IH.
Qed.

(* ================================================================ A. tags *)
Lemma sync_or_async_cases k : sync_or_async k = "sync" \/ sync_or_async k = "async".
Proof. unfold sync_or_async. destruct (String.eqb k "grpc" || String.eqb k "rest"); auto. Qed.

Lemma region_tag_parts version s r k : region_tag version s r k = sjoin "_" (tag_parts version s r k).
Proof.
  unfold region_tag, tag_parts. destruct (rp_internal r); simpl.
  - reflexivity.
  - now rewrite sapp_nil_r.
Qed.

Lemma spec_kinds_cases tr :
  (mem_str "grpc" tr = true /\ spec_kinds tr = ["grpc"; "grpc-async"]) \/
  (mem_str "grpc" tr = false /\ mem_str "rest" tr = true /\ spec_kinds tr = ["rest"]) \/
  (mem_str "grpc" tr = false /\ mem_str "rest" tr = false /\ spec_kinds tr = []).
Proof.
  unfold spec_kinds, client_kinds. destruct (mem_str "grpc" tr), (mem_str "rest" tr); simpl; auto.
Qed.

Theorem tag_format version tr svcs sp :
  In sp (generate_sample_specs version tr svcs) ->
  exists s r k, In s svcs /\ In r (sv_rpcs s) /\ In k (spec_kinds tr) /\
                sp_service sp = sv_name s /\ sp_rpc sp = rp_name r /\ sp_transport sp = k /\
                sp_tag sp = sjoin "_" (tag_parts version s r k).
Proof.
  unfold generate_sample_specs, svc_specs. intro H.
  apply in_flat_map in H as (s & Hs & H). apply in_flat_map in H as (k & Hk & H). apply in_map_iff in H as (r & E & Hr).
  exists s, r, k. subst sp. simpl. repeat split; auto. apply region_tag_parts.
Qed.

Definition names_distinct (svcs : list svc) : Prop :=
  NoDup (map sv_name svcs) /\ forall s, In s svcs -> NoDup (map rp_name (sv_rpcs s)).
Definition specs_of (version : string) (tr : list string) (svcs : list svc) (sname rname : string) : list spec :=
  filter (fun sp => String.eqb (sp_service sp) sname && String.eqb (sp_rpc sp) rname) (generate_sample_specs version tr svcs).

Lemma specs_of_char version tr svcs s r :
  names_distinct svcs -> In s svcs -> In r (sv_rpcs s) ->
  specs_of version tr svcs (sv_name s) (rp_name r) = map (fun k => mk_spec version s k r) (spec_kinds tr).
Proof.
  intros [ND1 ND2] Hs Hr. unfold specs_of, generate_sample_specs. rewrite filter_flat_map.
  rewrite (flat_map_single sv_name _ svcs s ND1 Hs).
  - unfold svc_specs. rewrite filter_flat_map.
    induction (spec_kinds tr) as [|k ks IH]; [reflexivity|]. simpl. rewrite IH. f_equal.
    assert (F : filter (fun sp => String.eqb (sp_service sp) (sv_name s) && String.eqb (sp_rpc sp) (rp_name r))
                       (map (mk_spec version s k) (sv_rpcs s))
                = map (mk_spec version s k) (filter (fun y => String.eqb (rp_name y) (rp_name r)) (sv_rpcs s))).
    { clear. induction (sv_rpcs s) as [|a l IHl]; [reflexivity|]. simpl. rewrite String.eqb_refl. simpl.
      destruct (String.eqb (rp_name a) (rp_name r)); simpl; now rewrite IHl. }
    rewrite F. rewrite (filter_key_single rp_name (sv_rpcs s) r (ND2 s Hs) Hr). reflexivity.
  - intros y Hy Hne. unfold svc_specs. rewrite filter_flat_map.
    induction (spec_kinds tr) as [|k ks IH]; [reflexivity|]. simpl. rewrite IH, app_nil_r.
    clear IH. induction (sv_rpcs y) as [|a l IHl]; [reflexivity|]. simpl.
    destruct (String.eqb (sv_name y) (sv_name s)) eqn:E; [apply String.eqb_eq in E; contradiction|]. simpl. exact IHl.
Qed.

(* one synchronous and, with gRPC, one asyncio sample per rpc; REST only gets a sample when gRPC is not generated *)
Theorem one_sync_one_async version tr svcs s r :
  names_distinct svcs -> In s svcs -> In r (sv_rpcs s) ->
  let l := specs_of version tr svcs (sv_name s) (rp_name r) in
  (mem_str "grpc" tr = true -> l = [mk_spec version s "grpc" r; mk_spec version s "grpc-async" r] /\
                               map (fun sp => sync_or_async (sp_transport sp)) l = ["sync"; "async"]) /\
  (mem_str "grpc" tr = false -> mem_str "rest" tr = true -> l = [mk_spec version s "rest" r] /\
                               map (fun sp => sync_or_async (sp_transport sp)) l = ["sync"]) /\
  (mem_str "grpc" tr = false -> mem_str "rest" tr = false -> l = []).
Proof.
  intros ND Hs Hr l. unfold l. rewrite (specs_of_char version tr svcs s r ND Hs Hr).
  destruct (spec_kinds_cases tr) as [[G K]|[[G [R K]]|[G [R K]]]]; rewrite K; simpl; repeat split; intros; try congruence; reflexivity.
Qed.

(* the sync client's docstring gets the rpc's synchronous sample and the asyncio client's the asyncio sample — for every rpc,
   internal ones (whose tags end in _internal) included: the slot depends on the transport, never on the tag *)
Lemma filter_andb {A} (p q : A -> bool) l : filter (fun x => p x && q x) l = filter q (filter p l).
Proof.
  induction l as [|a l IH]; [reflexivity|]. simpl. destruct (p a); simpl; [destruct (q a); now rewrite IH | exact IH].
Qed.

Theorem index_slot_spec version tr svcs s r :
  names_distinct svcs -> In s svcs -> In r (sv_rpcs s) ->
  let added := generate_sample_specs version tr svcs in
  (mem_str "grpc" tr = true ->
     index_get added (sv_name s) (rp_name r) true = Some (mk_spec version s "grpc" r) /\
     index_get added (sv_name s) (rp_name r) false = Some (mk_spec version s "grpc-async" r)) /\
  (mem_str "grpc" tr = false -> mem_str "rest" tr = true ->
     index_get added (sv_name s) (rp_name r) true = Some (mk_spec version s "rest" r) /\
     index_get added (sv_name s) (rp_name r) false = None).
Proof.
  intros ND Hs Hr added.
  destruct (one_sync_one_async version tr svcs s r ND Hs Hr) as (G & R & _).
  unfold index_get. split.
  - intro Hg. destruct (G Hg) as [E _]. unfold specs_of in E. fold added in E.
    rewrite !filter_andb. cbv beta. rewrite filter_andb in E. cbv beta in E. rewrite E. split; reflexivity.
  - intros Hg Hrest. destruct (R Hg Hrest) as [E _]. unfold specs_of in E. fold added in E.
    rewrite !filter_andb. cbv beta. rewrite filter_andb in E. cbv beta in E. rewrite E. split; reflexivity.
Qed.

(* a string without underscore in front of an underscore is determined *)
Lemma us_split_inj a : forall a' x x',
  no_us a = true -> no_us a' = true -> a ++ "_" ++ x = a' ++ "_" ++ x' -> a = a' /\ x = x'.
Proof.
  unfold no_us. induction a as [|c a IH]; intros a' x x' Ha Ha' E.
  - destruct a' as [|c' a']; simpl in *.
    + inversion E. auto.
    + inversion E. subst c'. simpl in Ha'. discriminate.
  - destruct a' as [|c' a']; simpl in *.
    + inversion E. subst c. simpl in Ha. discriminate.
    + inversion E. subst c'.
      destruct (Ascii.eqb c "_"%char) eqn:Ec; simpl in Ha, Ha'; [discriminate|].
      destruct (IH a' x x') as [E1 E2]; auto. subst. auto.
Qed.

Lemma kind_tail_inj k k' (i i' : bool) :
  sync_or_async k ++ (if i then "_internal" else "") = sync_or_async k' ++ (if i' then "_internal" else "") ->
  sync_or_async k = sync_or_async k' /\ i = i'.
Proof.
  destruct (sync_or_async_cases k) as [-> | ->], (sync_or_async_cases k') as [-> | ->], i, i'; simpl; intro E;
    try discriminate; auto.
Qed.

Lemma no_us_generated : no_us "generated" = true. Proof. reflexivity. Qed.

Theorem tag_injective version svcs s r k s' r' k' :
  tag_unambiguous version svcs = true -> In s svcs -> In r (sv_rpcs s) -> In s' svcs -> In r' (sv_rpcs s') ->
  region_tag version s r k = region_tag version s' r' k' ->
  shortname (sv_host s) = shortname (sv_host s') /\ sv_name s = sv_name s' /\ rp_name r = rp_name r' /\
  sync_or_async k = sync_or_async k' /\ rp_internal r = rp_internal r'.
Proof.
  unfold tag_unambiguous. intros U Hs Hr Hs' Hr' E.
  apply andb_true_iff in U as [Uv U].
  pose proof (proj1 (forallb_forall _ _) U s Hs) as A. pose proof (proj1 (forallb_forall _ _) U s' Hs') as A'.
  apply andb_true_iff in A as [A A3]. apply andb_true_iff in A as [A1 A2].
  apply andb_true_iff in A' as [A' A3']. apply andb_true_iff in A' as [A1' A2'].
  pose proof (proj1 (forallb_forall _ _) A3 r Hr) as B. pose proof (proj1 (forallb_forall _ _) A3' r' Hr') as B'.
  unfold region_tag in E.
  change ("_generated_" ++ ?x) with ("_" ++ "generated" ++ "_" ++ x) in E.
  apply us_split_inj in E as [E1 E]; auto.
  apply us_split_inj in E as [_ E]; auto.
  apply us_split_inj in E as [_ E]; try apply no_us_generated.
  apply us_split_inj in E as [E2 E]; auto.
  apply us_split_inj in E as [E3 E]; auto.
  apply kind_tail_inj in E as [E4 E5]. auto.
Qed.

(* outside the hypothesis: two different (service, rpc) pairs of one API with the same tag (DESIGN section 9 no. 16) *)
Definition collide_svcs : list svc :=
  [mkSvc "Library" "library.example.com" [mkRpc "Get_Book" false]; mkSvc "Library_Get" "library.example.com" [mkRpc "Book" false]].
Theorem tag_collision_refuted :
  exists version svcs s r s' r' k,
    In s svcs /\ In r (sv_rpcs s) /\ In s' svcs /\ In r' (sv_rpcs s') /\ names_distinct svcs /\
    (sv_name s, rp_name r) <> (sv_name s', rp_name r') /\ region_tag version s r k = region_tag version s' r' k.
Proof.
  exists "v1", collide_svcs, (mkSvc "Library" "library.example.com" [mkRpc "Get_Book" false]), (mkRpc "Get_Book" false),
         (mkSvc "Library_Get" "library.example.com" [mkRpc "Book" false]), (mkRpc "Book" false), "grpc".
  repeat split; try (simpl; auto; fail).
  - simpl. constructor; [intros [H|[]]; discriminate|]. constructor; [intros []|constructor].
  - intros s [<-|[<-|[]]]; simpl; (constructor; [intros []|constructor]).
  - intro H. discriminate.
Qed.

(* ================================================================ B. segments *)
Local Open Scope list_scope.
Definition all_other (ls : list string) : Prop := forall l, In l ls -> classify l = KOther.
Definition no_tags (ls : list string) : Prop := forall l, In l ls -> classify l <> KStart /\ classify l <> KEnd.

Lemma seg_loop_app l1 : forall i l2 a, seg_loop i (l1 ++ l2) a = seg_loop (i + length l1) l2 (seg_loop i l1 a).
Proof.
  induction l1 as [|x l1 IH]; intros i l2 a; simpl.
  - now rewrite Nat.add_0_r.
  - rewrite IH. f_equal. lia.
Qed.

Lemma seg_loop_cons i l t a : seg_loop i (l :: t) a = seg_loop (S i) t (seg_step (classify l) i a).
Proof. reflexivity. Qed.

Lemma seg_loop_other ls : forall i a, all_other ls -> seg_loop i ls a = a.
Proof.
  induction ls as [|x ls IH]; intros i a H; simpl; [reflexivity|].
  rewrite (H x (or_introl eq_refl)). simpl. apply IH. intros l Hl. apply H. now right.
Qed.

Lemma seg_loop_full_pres ls : forall i a, no_tags ls ->
  full_s (seg_loop i ls a) = full_s a /\ full_e (seg_loop i ls a) = full_e a.
Proof.
  induction ls as [|x ls IH]; intros i a H; simpl; [auto|].
  destruct (H x (or_introl eq_refl)) as [H1 H2].
  destruct (IH (S i) (seg_step (classify x) i a)) as [E1 E2]; [intros l Hl; apply H; now right|].
  rewrite E1, E2. destruct (classify x); simpl; auto; contradiction.
Qed.

Lemma all_other_no_tags ls : all_other ls -> no_tags ls.
Proof. intros H l Hl. rewrite (H l Hl). split; discriminate. Qed.

Lemma slice_between (pre mid post : list string) (tS tE : string) :
  slice_lines (length pre + 2) (length pre + 1 + length mid) (pre ++ tS :: mid ++ tE :: post) = mid.
Proof.
  unfold slice_lines. replace (length pre + 2) with (S (length pre + 1)) by lia.
  replace (length pre + 1 + length mid - (length pre + 1)) with (length mid) by lia.
  replace (pre ++ tS :: mid ++ tE :: post) with ((pre ++ [tS]) ++ mid ++ tE :: post) by (now rewrite <- app_assoc).
  rewrite skipn_app. replace (length pre + 1) with (length (pre ++ [tS])) by (rewrite app_length; simpl; lia).
  rewrite skipn_all, Nat.sub_diag. simpl. rewrite firstn_app, firstn_all, Nat.sub_diag. simpl. apply app_nil_r.
Qed.

Lemma seg_finish_full a : full_s (seg_finish a) = full_s a /\ full_e (seg_finish a) = full_e a.
Proof. split; reflexivity. Qed.

(* FULL (and SHORT) = the lines strictly between the tags, whatever the lines in between are *)
Theorem full_snippet_between_tags pre mid post tS tE :
  no_tags pre -> no_tags mid -> no_tags post -> classify tS = KStart -> classify tE = KEnd ->
  let lines := pre ++ tS :: mid ++ tE :: post in
  full_s (parse_segments lines) = length pre + 2 /\ full_e (parse_segments lines) = length pre + 1 + length mid /\
  full_snippet_lines lines = mid.
Proof.
  intros Hp Hm Ho HS HE lines.
  assert (F : full_s (parse_segments lines) = length pre + 2 /\ full_e (parse_segments lines) = length pre + 1 + length mid).
  { unfold parse_segments. rewrite (proj1 (seg_finish_full _)), (proj2 (seg_finish_full _)).
    unfold lines. generalize (segs0 (length (pre ++ tS :: mid ++ tE :: post))). intro a0.
    rewrite seg_loop_app, seg_loop_cons, HS, seg_loop_app, seg_loop_cons, HE.
    rewrite (proj1 (seg_loop_full_pres post _ _ Ho)), (proj2 (seg_loop_full_pres post _ _ Ho)).
    cbn [seg_step full_s full_e].
    rewrite (proj1 (seg_loop_full_pres mid _ _ Hm)). cbn [seg_step full_s full_e]. split; lia. }
  destruct F as [F1 F2]. repeat split; auto.
  unfold full_snippet_lines. rewrite F1, F2. apply slice_between.
Qed.

(* a sample with the four phase markers in order: the phases are contiguous, ordered and inside FULL;
   RESPONSE_HANDLING runs to the last line of the text *)
Theorem segments_spec pre a b c d e post tS tC tR tX tH tE :
  all_other pre -> all_other a -> all_other b -> all_other c -> all_other d -> all_other e -> all_other post ->
  classify tS = KStart -> classify tC = KClient -> classify tR = KReqInit -> classify tX = KReqExec ->
  classify tH = KResp -> classify tE = KEnd ->
  let lines := pre ++ tS :: a ++ tC :: b ++ tR :: c ++ tX :: d ++ tH :: e ++ tE :: post in
  let g := parse_segments lines in
  full_snippet_lines lines = a ++ tC :: b ++ tR :: c ++ tX :: d ++ tH :: e /\
  ci_s g = length pre + 2 + length a /\
  ci_e g + 1 = ri_s g /\ ri_e g + 1 = re_s g /\ re_e g + 1 = rh_s g /\ rh_e g = length lines /\
  full_s g <= ci_s g /\ ci_s g <= ci_e g /\ ri_s g <= ri_e g /\ re_s g <= re_e g /\ rh_s g <= full_e g /\ full_e g < rh_e g.
Proof.
  intros Hp Ha Hb Hc Hd He Ho HS HC HR HX HH HE lines g.
  assert (Kc : classify tC <> KStart /\ classify tC <> KEnd) by (rewrite HC; split; discriminate).
  assert (Kr : classify tR <> KStart /\ classify tR <> KEnd) by (rewrite HR; split; discriminate).
  assert (Kx : classify tX <> KStart /\ classify tX <> KEnd) by (rewrite HX; split; discriminate).
  assert (Kh : classify tH <> KStart /\ classify tH <> KEnd) by (rewrite HH; split; discriminate).
  assert (NT : no_tags (a ++ tC :: b ++ tR :: c ++ tX :: d ++ tH :: e)).
  { intros l Hl. repeat (apply in_app_or in Hl as [Hl|Hl]; [now apply all_other_no_tags in Hl|]; destruct Hl as [<-|Hl]; [assumption|]).
    now apply all_other_no_tags in Hl. }
  destruct (full_snippet_between_tags pre (a ++ tC :: b ++ tR :: c ++ tX :: d ++ tH :: e) post tS tE
              (all_other_no_tags _ Hp) NT (all_other_no_tags _ Ho) HS HE) as (F1 & F2 & F3).
  assert (L : lines = pre ++ tS :: (a ++ tC :: b ++ tR :: c ++ tX :: d ++ tH :: e) ++ tE :: post).
  { unfold lines. repeat (rewrite <- app_assoc; simpl). reflexivity. }
  split; [rewrite L; exact F3|].
  clear F1 F2 F3 L NT Kc Kr Kx Kh.
  assert (LEN : length lines = length pre + 1 + length a + 1 + length b + 1 + length c + 1 + length d + 1 + length e + 1 + length post).
  { unfold lines. repeat (rewrite app_length; cbn [length]). lia. }
  unfold g, parse_segments. rewrite LEN. unfold lines.
  repeat (rewrite seg_loop_app; rewrite seg_loop_cons).
  rewrite HS, HC, HR, HX, HH, HE.
  repeat (rewrite seg_loop_other; [|assumption]).
  cbn [seg_step segs0 full_s full_e ci_s ci_e ri_s ri_e re_s re_e rh_s rh_e].
  unfold seg_finish. cbn [full_s full_e ci_s ci_e ri_s ri_e re_s re_e rh_s rh_e].
  match goal with |- context [Nat.eqb ?x 0] => idtac end.
  repeat match goal with
         | |- context [Nat.eqb ?x 0] => let E := fresh "E" in destruct (Nat.eqb x 0) eqn:E;
                                        [apply Nat.eqb_eq in E | apply Nat.eqb_neq in E]
         end; cbn [negb andb]; repeat split; lia.
Qed.

(* segments_spec for a sample WITHOUT a response marker (void rpcs): REQUEST_EXECUTION runs from its marker to the last
   line of the snippet, the three phases are contiguous and ordered, and there is no RESPONSE_HANDLING range
   (before /repo 9d7a09d REQUEST_EXECUTION had no end and RESPONSE_HANDLING an end without a start: DESIGN section 9 no. 20) *)
Theorem segments_spec_without_response_marker pre a b c d post tS tC tR tX tE :
  all_other pre -> all_other a -> all_other b -> all_other c -> all_other d -> all_other post ->
  classify tS = KStart -> classify tC = KClient -> classify tR = KReqInit -> classify tX = KReqExec -> classify tE = KEnd ->
  let lines := pre ++ tS :: a ++ tC :: b ++ tR :: c ++ tX :: d ++ tE :: post in
  let g := parse_segments lines in
  full_snippet_lines lines = a ++ tC :: b ++ tR :: c ++ tX :: d /\
  ci_s g = length pre + 2 + length a /\ ci_e g + 1 = ri_s g /\ ri_e g + 1 = re_s g /\ re_e g = full_e g /\
  full_s g <= ci_s g /\ ci_s g <= ci_e g /\ ri_s g <= ri_e g /\ re_s g <= re_e g /\ rh_s g = 0 /\ rh_e g = 0.
Proof.
  intros Hp Ha Hb Hc Hd Ho HS HC HR HX HE lines g.
  assert (Kc : classify tC <> KStart /\ classify tC <> KEnd) by (rewrite HC; split; discriminate).
  assert (Kr : classify tR <> KStart /\ classify tR <> KEnd) by (rewrite HR; split; discriminate).
  assert (Kx : classify tX <> KStart /\ classify tX <> KEnd) by (rewrite HX; split; discriminate).
  assert (NT : no_tags (a ++ tC :: b ++ tR :: c ++ tX :: d)).
  { intros l Hl. repeat (apply in_app_or in Hl as [Hl|Hl]; [now apply all_other_no_tags in Hl|]; destruct Hl as [<-|Hl]; [assumption|]).
    now apply all_other_no_tags in Hl. }
  destruct (full_snippet_between_tags pre (a ++ tC :: b ++ tR :: c ++ tX :: d) post tS tE
              (all_other_no_tags _ Hp) NT (all_other_no_tags _ Ho) HS HE) as (F1 & F2 & F3).
  assert (L : lines = pre ++ tS :: (a ++ tC :: b ++ tR :: c ++ tX :: d) ++ tE :: post).
  { unfold lines. repeat (rewrite <- app_assoc; simpl). reflexivity. }
  split; [rewrite L; exact F3|].
  clear F1 F2 F3 L NT Kc Kr Kx.
  unfold g, parse_segments, lines.
  repeat (rewrite seg_loop_app; rewrite seg_loop_cons).
  rewrite HS, HC, HR, HX, HE.
  repeat (rewrite seg_loop_other; [|assumption]).
  cbn [seg_step segs0 full_s full_e ci_s ci_e ri_s ri_e re_s re_e rh_s rh_e].
  unfold seg_finish. cbn [full_s full_e ci_s ci_e ri_s ri_e re_s re_e rh_s rh_e].
  repeat match goal with
         | |- context [Nat.eqb ?x 0] => let E := fresh "E" in destruct (Nat.eqb x 0) eqn:E;
                                        [apply Nat.eqb_eq in E | apply Nat.eqb_neq in E]
         end; cbn [negb andb]; repeat split; try lia.
Qed.

(* ================================================================ C. docstring embedding *)
Lemma dedent_indent_line x : dedent_line (if is_empty x then x else (ind12 ++ x)%string) = x.
Proof.
  destruct x as [|c x]; [reflexivity|].
  cbn [is_empty]. unfold dedent_line. now rewrite strip_prefix_app.
Qed.

Theorem docstring_embeds_full_snippet ls : dedent_lines (indent_lines ls) = ls.
Proof.
  destruct ls as [|l t]; [reflexivity|]. unfold indent_lines, dedent_lines. rewrite map_cons.
  assert (H1 : dedent_line (ind12 ++ l)%string = l) by (unfold dedent_line; now rewrite strip_prefix_app).
  assert (H2 : map dedent_line (map (fun x => if is_empty x then x else (ind12 ++ x)%string) t) = t).
  { rewrite map_map. induction t as [|x t IH]; [reflexivity|]. cbn [map]. now rewrite dedent_indent_line, IH. }
  now rewrite H1, H2.
Qed.

(* ================================================================ D. generate_request_object *)
Definition step (k : nat) (sc : schema) (m prefix : string) (encl : list string) (acc : option (list (string * value))) (f : field) :=
  match acc with
  | None => None
  | Some l =>
      let fname := qual prefix (f_name f) in
      match f_type f with
      | TPrim p => Some (app l [(fname, prim_value f p)])
      | TEnum vs => match last_opt vs with
                    | Some v => Some (app l [(fname, if f_repeated f then VList [VEnum v] else VEnum v)])
                    | None => None
                    end
      | TMsg m' => if mem_str m' (m :: encl) then Some l
                   else match gro k sc m' fname (m :: encl) with Some l' => Some (app l l') | None => None end
      end
  end.

Lemma gro_unfold k sc m prefix encl :
  gro (S k) sc m prefix encl =
  match assoc m sc with None => None | Some fs => fold_left (step k sc m prefix encl) (selected fs) (Some []) end.
Proof. reflexivity. Qed.

(* what one selected field contributes *)
Definition contrib (k : nat) (sc : schema) (m prefix : string) (encl : list string) (f : field) : option (list (string * value)) :=
  step k sc m prefix encl (Some []) f.

Lemma step_contrib k sc m prefix encl l f :
  step k sc m prefix encl (Some l) f = option_map (app l) (contrib k sc m prefix encl f).
Proof.
  unfold contrib, step. destruct (f_type f) as [p|vs|m']; simpl.
  - reflexivity.
  - destruct (last_opt vs); reflexivity.
  - destruct (String.eqb m' m || mem_str m' encl); [simpl; now rewrite app_nil_r|].
    destruct (gro k sc m' (qual prefix (f_name f)) (m :: encl)); reflexivity.
Qed.

Lemma fold_none k sc m prefix encl fs : fold_left (step k sc m prefix encl) fs None = None.
Proof. induction fs; simpl; auto. Qed.

Lemma fold_step_some k sc m prefix encl fs : forall l0 l,
  fold_left (step k sc m prefix encl) fs (Some l0) = Some l ->
  incl l0 l /\ forall f, In f fs -> exists c, contrib k sc m prefix encl f = Some c /\ incl c l.
Proof.
  induction fs as [|f fs IH]; intros l0 l H; cbn [fold_left] in H.
  - inversion H. subst. split; [apply incl_refl | intros f []].
  - rewrite step_contrib in H. destruct (contrib k sc m prefix encl f) as [c|] eqn:C; simpl in H.
    + destruct (IH _ _ H) as [I1 I2]. split.
      * intros x Hx. apply I1. apply in_or_app. now left.
      * intros f' [<-|Hf'].
        -- exists c. split; [assumption|]. intros x Hx. apply I1. apply in_or_app. now right.
        -- now apply I2.
    + rewrite fold_none in H. discriminate.
Qed.

Lemma fold_step_total k sc m prefix encl fs : forall l0,
  (forall f, In f fs -> contrib k sc m prefix encl f <> None) -> fold_left (step k sc m prefix encl) fs (Some l0) <> None.
Proof.
  induction fs as [|f fs IH]; intros l0 H; cbn [fold_left]; [discriminate|].
  rewrite step_contrib. destruct (contrib k sc m prefix encl f) as [c|] eqn:C.
  - simpl. apply IH. intros f' Hf'. apply H. now right.
  - exfalso. apply (H f (or_introl eq_refl)). assumption.
Qed.

(* what protoc guarantees of the input: message references resolve and enums have a value *)
Definition closed (sc : schema) : Prop :=
  forall m fs f, assoc m sc = Some fs -> In f (selected fs) ->
    match f_type f with
    | TPrim _ => True
    | TEnum vs => vs <> []
    | TMsg m' => exists fs', assoc m' sc = Some fs'
    end.

Lemma last_opt_some {A} (l : list A) : l <> [] -> last_opt l <> None.
Proof.
  induction l as [|x l IH]; intro H; [contradiction|]. simpl. destruct l; [discriminate|]. apply IH. discriminate.
Qed.

(* the termination measure: how many messages of the schema are not yet enclosing *)
Definition outside (encl : list string) (names : list string) : nat :=
  length (filter (fun k => negb (mem_str k encl)) names).

Lemma outside_decreases x encl names :
  In x names -> mem_str x encl = false -> outside (x :: encl) names < outside encl names.
Proof.
  unfold outside. induction names as [|y names IH]; intros Hin Hx; [contradiction|].
  cbn [filter]. unfold mem_str at 1. cbn [existsb]. fold (mem_str y encl).
  destruct Hin as [->|Hin].
  - rewrite String.eqb_refl. cbn [orb negb]. rewrite Hx. cbn [negb length].
    assert (L : forall l, length (filter (fun k => negb (mem_str k (x :: encl))) l) <= length (filter (fun k => negb (mem_str k encl)) l)).
    { induction l as [|z l IHl]; [auto|]. cbn [filter]. unfold mem_str at 1. cbn [existsb]. fold (mem_str z encl).
      destruct (String.eqb z x); cbn [orb negb]; destruct (mem_str z encl); cbn [negb length]; lia. }
    specialize (L names). lia.
  - specialize (IH Hin Hx).
    destruct (String.eqb y x); cbn [orb negb]; destruct (mem_str y encl); cbn [negb length]; lia.
Qed.

Lemma assoc_in_keys {A} k (l : list (string * A)) v : assoc k l = Some v -> In k (map fst l).
Proof.
  induction l as [|[k' v'] l IH]; simpl; [discriminate|].
  destruct (String.eqb k k') eqn:E; [apply String.eqb_eq in E; subst; now left | intro H; right; now apply IH].
Qed.

(* since /repo 40893b0 the recursion ends for EVERY closed schema: a nested call is only made for a message that is not
   yet enclosing, so the nesting depth is bounded by the number of messages *)
Theorem request_object_terminates_general sc :
  closed sc ->
  forall fuel m fs prefix encl, assoc m sc = Some fs -> outside (m :: encl) (map fst sc) < fuel ->
  gro fuel sc m prefix encl <> None.
Proof.
  intros W fuel. induction fuel as [|k IH]; intros m fs prefix encl Hm Hr; [lia|].
  rewrite gro_unfold, Hm. apply fold_step_total. intros f Hf.
  pose proof (W m fs f Hm Hf) as Wf. unfold contrib, step. destruct (f_type f) as [p|vs|m'].
  - discriminate.
  - destruct (last_opt vs) eqn:L; [discriminate|]. exfalso. now apply (last_opt_some vs).
  - destruct (mem_str m' (m :: encl)) eqn:M; [discriminate|].
    destruct Wf as (fs' & Hm').
    destruct (gro k sc m' (qual prefix (f_name f)) (m :: encl)) eqn:G; [discriminate|].
    exfalso. apply (IH m' fs' (qual prefix (f_name f)) (m :: encl) Hm'); [|assumption].
    pose proof (outside_decreases m' (m :: encl) (map fst sc) (assoc_in_keys _ _ _ Hm') M). lia.
Qed.

Lemma outside_le encl names : outside encl names <= length names.
Proof. unfold outside. induction names as [|y names IH]; [auto|]. cbn [filter]. destruct (negb (mem_str y encl)); cbn [length]; lia. Qed.

Theorem request_object_terminates sc m fs prefix :
  closed sc -> assoc m sc = Some fs -> gro (S (length sc)) sc m prefix [] <> None.
Proof.
  intros W Hm. apply (request_object_terminates_general sc W _ m fs prefix [] Hm).
  pose proof (outside_le [m] (map fst sc)). rewrite map_length in H. lia.
Qed.

(* the former witness of DESIGN section 9 no. 10 (a REQUIRED field of the enclosing message's own type): it now stops there *)
Definition self_schema : schema := [("Node", [mkF "name" (TPrim PStr) false true None false; mkF "parent" (TMsg "Node") false true None false])].
Example self_schema_terminates :
  gro 2 self_schema "Node" "" [] = Some [("name", VStr "name_value")].
Proof. vm_compute. reflexivity. Qed.
Example self_schema_closed : closed self_schema.
Proof.
  intros m fs f Hm Hf. unfold self_schema in Hm. simpl in Hm.
  destruct (String.eqb m "Node"); [|discriminate]. inversion Hm. subst fs. simpl in Hf.
  destruct Hf as [<-|[<-|[]]]; simpl; [exact I | eexists; reflexivity].
Qed.

(* every selected field (first member of each real oneof, required fields outside real oneofs) is covered by the result:
   a primitive or enum field by an entry under its qualified name, a message field by the entries of the recursive call —
   unless its type is the message itself or an enclosing one, where the request stops *)
Theorem request_covers_required_and_oneofs k sc m fs prefix encl l :
  assoc m sc = Some fs -> gro (S k) sc m prefix encl = Some l ->
  forall f, In f (selected fs) ->
    match f_type f with
    | TPrim p => In (qual prefix (f_name f), prim_value f p) l
    | TEnum vs => exists v, last_opt vs = Some v /\ In (qual prefix (f_name f), if f_repeated f then VList [VEnum v] else VEnum v) l
    | TMsg m' => mem_str m' (m :: encl) = true \/
                 exists l', gro k sc m' (qual prefix (f_name f)) (m :: encl) = Some l' /\ incl l' l
    end.
Proof.
  intros Hm G f Hf. rewrite gro_unfold, Hm in G.
  destruct (fold_step_some _ _ _ _ _ _ _ _ G) as [_ C]. destruct (C f Hf) as (c & Cc & Ic).
  unfold contrib, step in Cc. destruct (f_type f) as [p|vs|m'].
  - inversion Cc. subst c. apply Ic. now left.
  - destruct (last_opt vs) as [v|]; [|discriminate]. exists v. split; [reflexivity|]. inversion Cc. subst c. apply Ic. now left.
  - destruct (mem_str m' (m :: encl)) eqn:M; [now left|]. right.
    destruct (gro k sc m' (qual prefix (f_name f)) (m :: encl)) as [l'|]; [|discriminate]. exists l'. split; [reflexivity|].
    inversion Cc. subst c. exact Ic.
Qed.

(* which fields are selected *)
Lemma first_of_groups_spec fs : forall seen f,
  In f (first_of_groups seen fs) -> In f fs /\ exists o, real_oneof f = Some o /\ ~ In o seen.
Proof.
  induction fs as [|g fs IH]; intros seen f H; simpl in H; [contradiction|].
  destruct (real_oneof g) as [o|] eqn:R.
  - destruct (mem_str o seen) eqn:M.
    + destruct (IH _ _ H) as [H1 H2]. split; [now right | assumption].
    + destruct H as [<-|H].
      * split; [now left|]. exists o. split; [assumption|]. intro X. apply mem_In in X. congruence.
      * destruct (IH _ _ H) as [H1 (o' & H2 & H3)]. split; [now right|]. exists o'. split; [assumption|].
        intro X. apply H3. now right.
  - destruct (IH _ _ H) as [H1 H2]. split; [now right | assumption].
Qed.

Lemma first_of_groups_covers fs : forall seen o f,
  In f fs -> real_oneof f = Some o -> ~ In o seen -> exists g, In g (first_of_groups seen fs) /\ real_oneof g = Some o.
Proof.
  induction fs as [|h fs IH]; intros seen o f Hin R Hs; [contradiction|]. simpl.
  destruct (real_oneof h) as [oh|] eqn:Rh.
  - destruct (mem_str oh seen) eqn:M.
    + destruct Hin as [->|Hin].
      * rewrite R in Rh. inversion Rh. subst oh. apply mem_In in M. contradiction.
      * apply (IH seen o f); auto.
    + destruct (String.eqb oh o) eqn:E.
      * apply String.eqb_eq in E. subst oh. exists h. split; [now left | assumption].
      * destruct Hin as [->|Hin]; [rewrite R in Rh; inversion Rh; subst; rewrite String.eqb_refl in E; discriminate|].
        destruct (IH (oh :: seen) o f Hin R) as (g & G1 & G2).
        -- intros [X|X]; [subst; rewrite String.eqb_refl in E; discriminate | contradiction].
        -- exists g. split; [now right | assumption].
  - destruct Hin as [->|Hin]; [congruence|]. apply (IH seen o f); auto.
Qed.

(* every real oneof of the message has its first member selected, and every required field outside a real oneof is
   selected — proto3 `optional` ones included since /repo 42d2b00 *)
Theorem selected_spec fs :
  (forall f, In f fs -> f_required f = true -> f_oneof f = None \/ f_p3opt f = true -> In f (selected fs)) /\
  (forall f o, In f fs -> real_oneof f = Some o -> exists g, In g (selected fs) /\ real_oneof g = Some o).
Proof.
  unfold selected. split.
  - intros f H1 H2 H3. apply in_or_app. right. apply filter_In. split; [assumption|]. unfold required_plain. rewrite H2.
    destruct H3 as [H3|H3]; rewrite H3; [reflexivity | apply orb_true_r].
  - intros f o H1 H2. destruct (first_of_groups_covers fs [] o f H1 H2) as (g & G1 & G2); [intros []|].
    exists g. split; [apply in_or_app; now left | assumption].
Qed.

(* ... but a required MESSAGE field is only "covered" by what the recursion finds in it: when its type has neither required
   fields nor oneofs, no entry mentions it and the sample leaves it unset *)
Definition unset_schema : schema :=
  [("CreateRequest", [mkF "parent" (TPrim PStr) false true None false; mkF "book" (TMsg "Book") false true None false]);
   ("Book", [mkF "title" (TPrim PStr) false false None false])].
Theorem required_message_field_populated_refuted :
  exists sc m fs f l, assoc m sc = Some fs /\ In f fs /\ f_required f = true /\ f_oneof f = None /\
                      gro 5 sc m "" [] = Some l /\ forall e, In e l -> starts_with (f_name f) (fst e) = false.
Proof.
  exists unset_schema, "CreateRequest",
         [mkF "parent" (TPrim PStr) false true None false; mkF "book" (TMsg "Book") false true None false],
         (mkF "book" (TMsg "Book") false true None false), [("parent", VStr "parent_value")].
  repeat split; try reflexivity.
  - right. now left.
  - intros e [<-|[]]. reflexivity.
Qed.

(* ================================================================ E / F. calling form, metadata vs surface *)
Theorem metadata_matches_surface svc_name internal transport m :
  meta_client svc_name internal transport = tmpl_class svc_name internal (meta_async transport) /\
  meta_method m = tmpl_method m /\ meta_params m = tmpl_params m /\ meta_has_result m = negb (md_void m).
Proof.
  repeat split. unfold meta_params, tmpl_params. destruct (md_cs m); reflexivity.
Qed.

(* a unary or client-streaming void rpc is the only shape whose sample has no response marker *)
Theorem response_marker_iff lro paged cs ss void :
  has_response_marker (method_default lro paged cs ss) void = false <-> lro = false /\ paged = false /\ ss = false /\ void = true.
Proof. destruct lro, paged, cs, ss, void; simpl; split; intro H; try discriminate; try tauto; destruct H as (?&?&?&?); discriminate. Qed.

(* the asyncio sample awaits the call for every form but LRO (the paged call too since /repo c4938a6) *)
Theorem call_awaited_spec lro paged cs ss :
  call_awaited true (method_default lro paged cs ss) = negb lro.
Proof. destruct lro, paged, cs, ss; reflexivity. Qed.

(* ================================================================ non-vacuity *)
Definition ex_svcs : list svc :=
  [mkSvc "Catalog" "library.example.com" [mkRpc "GetItem" false; mkRpc "ListItems" false];
   mkSvc "Archive" "archive-library.example.com" [mkRpc "GetArchive" true]].
Example ex_specs :
  tag_unambiguous "v1" ex_svcs = true /\ names_distinct ex_svcs /\
  map sp_tag (generate_sample_specs "v1" ["grpc"; "rest"] ex_svcs) =
  ["library_v1_generated_Catalog_GetItem_sync"; "library_v1_generated_Catalog_ListItems_sync";
   "library_v1_generated_Catalog_GetItem_async"; "library_v1_generated_Catalog_ListItems_async";
   "archive-library_v1_generated_Archive_GetArchive_sync_internal"; "archive-library_v1_generated_Archive_GetArchive_async_internal"] /\
  map sp_transport (generate_sample_specs "v1" ["rest"] ex_svcs) = ["rest"; "rest"; "rest"].
Proof.
  split; [reflexivity|]. split; [|split; reflexivity].
  split.
  - simpl. constructor; [intros [H|[]]; discriminate|]. constructor; [intros []|constructor].
  - intros s [<-|[<-|[]]]; simpl.
    + constructor; [intros [H|[]]; discriminate|]. constructor; [intros []|constructor].
    + constructor; [intros []|constructor].
Qed.

Example ex_index_internal :
  option_map sp_tag (index_get (generate_sample_specs "v1" ["grpc"; "rest"] ex_svcs) "Archive" "GetArchive" true)
    = Some "archive-library_v1_generated_Archive_GetArchive_sync_internal" /\
  option_map sp_tag (index_get (generate_sample_specs "v1" ["grpc"; "rest"] ex_svcs) "Archive" "GetArchive" false)
    = Some "archive-library_v1_generated_Archive_GetArchive_async_internal".
Proof. vm_compute. split; reflexivity. Qed.

Definition ex_lines : list string :=
  ["# Generated code. DO NOT EDIT!"; ""; "# [START library_v1_generated_Catalog_GetItem_sync]"; "from google.example import library_v1"; "";
   "def sample_get_item():"; "    # Create a client"; "    client = library_v1.CatalogClient()"; "";
   "    # Initialize request argument(s)"; "    request = library_v1.GetItemRequest("; "    )"; "";
   "    # Make the request"; "    response = client.get_item(request=request)"; "";
   "    # Handle the response"; "    print(response)"; ""; "# [END library_v1_generated_Catalog_GetItem_sync]"].
Example ex_segments :
  segs_list (parse_segments ex_lines) = [4; 19; 7; 9; 10; 13; 14; 16; 17; 20] /\
  length (full_snippet_lines ex_lines) = 16 /\
  dedent_lines (indent_lines (full_snippet_lines ex_lines)) = full_snippet_lines ex_lines.
Proof. vm_compute. repeat split. Qed.

Definition ex_schema : schema :=
  [("Req", [mkF "name" (TPrim PStr) false true None false;
            mkF "by_range" (TMsg "Range") false false (Some "span") false; mkF "by_text" (TPrim PStr) false false (Some "span") false;
            mkF "mode" (TEnum ["MODE_UNSPECIFIED"; "MODE_FAST"]) true true None false;
            mkF "nick" (TPrim PStr) false true (Some "_nick") true;
            mkF "self" (TMsg "Req") false true None false;
            mkF "spec" (TMsg "Spec") false true None false]);
   ("Range", [mkF "low" (TPrim PInt) false true None false; mkF "high" (TPrim PInt) false false None false]);
   ("Spec", [mkF "label" (TPrim PStr) false true None false; mkF "weights" (TPrim PInt) true true None false])].
Example ex_request :
  gro 3 ex_schema "Req" "" [] =
  Some [("by_range.low", VInt 338); ("name", VStr "name_value"); ("mode", VList [VEnum "MODE_FAST"]); ("nick", VStr "nick_value");
        ("spec.label", VStr "label_value"); ("spec.weights", VList [VInt 764; VInt 765])].
Proof. vm_compute. reflexivity. Qed.
Example ex_closed : closed ex_schema.
Proof.
  intros m fs f Hm Hf. unfold ex_schema in Hm. simpl in Hm.
  destruct (String.eqb m "Req") eqn:E1; [inversion Hm; subst fs; clear Hm|].
  - simpl in Hf. destruct Hf as [<-|[<-|[<-|[<-|[<-|[<-|[]]]]]]]; simpl; try exact I; try discriminate; eexists; reflexivity.
  - destruct (String.eqb m "Range") eqn:E2; [inversion Hm; subst fs; simpl in Hf; destruct Hf as [<-|[]]; exact I|].
    destruct (String.eqb m "Spec") eqn:E3; [|discriminate].
    inversion Hm; subst fs; simpl in Hf; destruct Hf as [<-|[<-|[]]]; exact I.
Qed.
