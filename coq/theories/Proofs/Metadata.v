(* Proofs/Metadata.v — lemmas for C15 *)
From Coq Require Import Permutation.
From GV Require Import Base.Str Model.Case Gen.C15Gen Model.Metadata.

Lemma mem_str_In k l : mem_str k l = true <-> In k l.
Proof.
  unfold mem_str. rewrite existsb_exists. split.
  - intros (y & Hy & E). apply String.eqb_eq in E. now subst.
  - intro H. exists k. split; [assumption | apply String.eqb_refl].
Qed.

(* ---------- sort_by is a stable permutation ---------- *)
Section SortFacts.
  Context {A : Type} (key : A -> string).

  Lemma insert_by_perm x l : Permutation (insert_by key x l) (x :: l).
  Proof.
    induction l as [|y l IH]; simpl; [reflexivity|].
    destruct (String.leb (key x) (key y)); [reflexivity|].
    rewrite IH. apply perm_swap.
  Qed.

  Lemma sort_by_perm l : Permutation (sort_by key l) l.
  Proof.
    induction l as [|x l IH]; simpl; [reflexivity|].
    rewrite insert_by_perm. now constructor.
  Qed.

  Lemma unique_by_acc_incl seen l x : In x (unique_by_acc key seen l) -> In x l.
  Proof.
    revert seen. induction l as [|y l IH]; intros seen H; simpl in *; [contradiction|].
    destruct (mem_str (key y) seen); [right; eauto|].
    destruct H as [H|H]; [now left | right; eauto].
  Qed.

  (* every key that occurs keeps a representative, unless it was already seen *)
  Lemma unique_by_acc_repr l : forall seen x,
    In x l -> mem_str (key x) seen = false ->
    exists y, In y (unique_by_acc key seen l) /\ key y = key x.
  Proof.
    induction l as [|z l IH]; intros seen x Hin Hns; [contradiction|].
    simpl. destruct (mem_str (key z) seen) eqn:Ez.
    - destruct Hin as [->|Hin]; [congruence|]. eauto.
    - destruct Hin as [->|Hin]; [exists x; split; [now left|reflexivity]|].
      destruct (String.eqb (key x) (key z)) eqn:Exz.
      + apply String.eqb_eq in Exz. exists z. split; [now left | now symmetry].
      + destruct (IH (key z :: seen) x Hin) as (y & Hy & Ky).
        * unfold mem_str in *. simpl. rewrite Exz. exact Hns.
        * exists y. split; [now right | exact Ky].
  Qed.

  (* the keys of the result are pairwise distinct *)
  Lemma unique_by_acc_nodup l : forall seen,
    NoDup (map key (unique_by_acc key seen l)) /\
    (forall y, In y (unique_by_acc key seen l) -> mem_str (key y) seen = false).
  Proof.
    induction l as [|z l IH]; intros seen; simpl; [split; [constructor | contradiction]|].
    destruct (mem_str (key z) seen) eqn:Ez; [apply IH|].
    destruct (IH (key z :: seen)) as [ND Hout]. split.
    - simpl. constructor; [|exact ND].
      intro Hin. apply in_map_iff in Hin as (y & Ky & Hy).
      apply Hout in Hy. unfold mem_str in Hy. simpl in Hy. rewrite <- Ky, String.eqb_refl in Hy. discriminate.
    - intros y [<-|Hy]; [exact Ez|].
      apply Hout in Hy. unfold mem_str in *. simpl in Hy. apply orb_false_iff in Hy. tauto.
  Qed.
End SortFacts.

(* ---------- gapic_metadata ---------- *)
Lemma flat_map_perm_pointwise {A B} (f g : A -> list B) l :
  (forall x, In x l -> Permutation (f x) (g x)) -> Permutation (flat_map f l) (flat_map g l).
Proof.
  induction l as [|x l IH]; intro H; simpl; [reflexivity|].
  apply Permutation_app; [apply H; now left | apply IH; intros; apply H; now right].
Qed.

Definition product_entries (transport : list string) (svcs : list svc) : list entry :=
  flat_map (fun s => flat_map (fun k => map (mk_entry s k) (s_rpcs s)) (kinds transport s)) svcs.

Lemma entries_perm transport svcs :
  Permutation (metadata_entries transport svcs) (product_entries transport svcs).
Proof.
  unfold metadata_entries, product_entries.
  transitivity (flat_map (svc_entries transport) svcs).
  - apply Permutation_flat_map, sort_by_perm.
  - apply flat_map_perm_pointwise. intros s _. unfold svc_entries.
    apply flat_map_perm_pointwise. intros k _. apply Permutation_map, sort_by_perm.
Qed.

Lemma mem_str_nIn k l : mem_str k l = false <-> ~ In k l.
Proof. rewrite <- mem_str_In. destruct (mem_str k l); intuition congruence. Qed.
Lemma kinds_spec transport s k c :
  In (k, c) (kinds transport s) <->
  (In "grpc" transport /\ (k = "grpc" /\ c = client_name s \/ k = "grpc-async" /\ c = async_client_name s))
  \/ (In "rest" transport /\ k = "rest" /\ c = client_name s).
Proof.
  unfold kinds. rewrite in_app_iff.
  destruct (mem_str "grpc" transport) eqn:Eg; [apply mem_str_In in Eg | apply mem_str_nIn in Eg];
  (destruct (mem_str "rest" transport) eqn:Er; [apply mem_str_In in Er | apply mem_str_nIn in Er]);
  simpl; split; intro H;
  repeat match goal with
         | H : _ \/ _ |- _ => destruct H
         | H : _ /\ _ |- _ => destruct H
         | H : (_, _) = (_, _) |- _ => inversion H; clear H
         | H : False |- _ => contradiction
         end; subst; try contradiction; auto 10.
Qed.

Definition ekey (e : entry) : string * string * string := (e_service e, e_kind e, e_rpc e).

Lemma kinds_keys_nodup transport s : NoDup (map fst (kinds transport s)).
Proof.
  unfold kinds. destruct (mem_str "grpc" transport), (mem_str "rest" transport); simpl;
    repeat constructor; simpl; intuition discriminate.
Qed.

Lemma NoDup_app_intro {A} (l1 l2 : list A) :
  NoDup l1 -> NoDup l2 -> (forall x, In x l1 -> ~ In x l2) -> NoDup (l1 ++ l2).
Proof.
  induction l1 as [|a l1 IH]; intros N1 N2 D; simpl; [assumption|].
  inversion N1 as [|? ? Hna N1']; subst. constructor.
  - rewrite in_app_iff. intros [H|H]; [contradiction | apply (D a); [now left | assumption]].
  - apply IH; [assumption | assumption | intros x Hx; apply D; now right].
Qed.

(* flat_map over a list whose elements carry pairwise distinct tags, each block internally duplicate-free and
   every element of a block carrying the tag of its generator *)
Lemma NoDup_flat_map_tagged {A B T} (f : A -> list B) (tagA : A -> T) (tagB : B -> T) l :
  NoDup (map tagA l) ->
  (forall x, In x l -> NoDup (f x)) ->
  (forall x b, In x l -> In b (f x) -> tagB b = tagA x) ->
  NoDup (flat_map f l).
Proof.
  induction l as [|a l IH]; intros ND Hf Ht; simpl; [constructor|].
  simpl in ND. inversion ND as [|? ? Hna ND']; subst.
  apply NoDup_app_intro.
  - apply Hf; now left.
  - apply IH; [assumption | intros; apply Hf; now right | intros x b Hx; apply Ht; now right].
  - intros b Hb Hb'. apply in_flat_map in Hb' as (y & Hy & Hby).
    apply Hna. apply in_map_iff. exists y. split; [|assumption].
    rewrite <- (Ht y b) by (auto; now right). apply Ht; [now left | assumption].
Qed.

Lemma NoDup_map_inj_on {A B} (f : A -> B) l :
  (forall x y, In x l -> In y l -> f x = f y -> x = y) -> NoDup l -> NoDup (map f l).
Proof.
  induction l as [|a l IH]; intros Hinj ND; simpl; [constructor|].
  inversion ND as [|? ? Hna ND']; subst. constructor.
  - intro H. apply in_map_iff in H as (y & E & Hy).
    assert (y = a) by (apply Hinj; [now right | now left | assumption]). subst. contradiction.
  - apply IH; [intros x y Hx Hy; apply Hinj; now right | assumption].
Qed.

Lemma NoDup_of_map {A B} (f : A -> B) l : NoDup (map f l) -> NoDup l.
Proof.
  induction l as [|a l IH]; intro H; [constructor|].
  simpl in H. inversion H as [|? ? Hna ND]; subst. constructor; [|auto].
  intro Hin. apply Hna. now apply in_map.
Qed.

Lemma product_keys_nodup transport svcs :
  NoDup (map s_name svcs) ->
  (forall s, In s svcs -> NoDup (map r_name (s_rpcs s))) ->
  NoDup (map ekey (product_entries transport svcs)).
Proof.
  intros NDs NDr. unfold product_entries. rewrite flat_map_concat_map, concat_map, map_map, <- flat_map_concat_map.
  apply (NoDup_flat_map_tagged _ s_name (fun k : string * string * string => fst (fst k))); [assumption| |].
  - intros s Hs. rewrite flat_map_concat_map, concat_map, map_map, <- flat_map_concat_map.
    apply (NoDup_flat_map_tagged _ (@fst string string) (fun k : string * string * string => snd (fst k))).
    + apply kinds_keys_nodup.
    + intros k _. rewrite map_map. unfold ekey, mk_entry. simpl.
      apply NoDup_map_inj_on; [|apply (NoDup_of_map r_name), NDr, Hs].
      intros x y Hx Hy E. inversion E as [E'].
      specialize (NDr s Hs). clear - NDr Hx Hy E'.
      induction (s_rpcs s) as [|a l IH]; [contradiction|].
      simpl in NDr. inversion NDr as [|? ? Hna ND]; subst.
      destruct Hx as [->|Hx], Hy as [->|Hy]; auto.
      * exfalso. apply Hna. rewrite E'. now apply in_map.
      * exfalso. apply Hna. rewrite <- E'. now apply in_map.
    + intros k b _ Hb. rewrite map_map in Hb. apply in_map_iff in Hb as (r & <- & _). reflexivity.
  - intros s b _ Hb. rewrite flat_map_concat_map, concat_map, map_map, <- flat_map_concat_map in Hb.
    apply in_flat_map in Hb as (k & _ & Hb). rewrite map_map in Hb. apply in_map_iff in Hb as (r & <- & _). reflexivity.
Qed.

(* entries_exact: the entries are exactly services x client kinds x rpcs, each (service, kind, rpc) once *)
Lemma entries_exact transport svcs :
  Permutation (metadata_entries transport svcs) (product_entries transport svcs) /\
  (NoDup (map s_name svcs) -> (forall s, In s svcs -> NoDup (map r_name (s_rpcs s))) ->
   NoDup (map ekey (metadata_entries transport svcs))).
Proof.
  split; [apply entries_perm|].
  intros NDs NDr. eapply Permutation_NoDup; [apply Permutation_map, Permutation_sym, entries_perm|].
  now apply product_keys_nodup.
Qed.

(* membership form: what the property's sentence says *)
Lemma entries_in transport svcs e :
  In e (metadata_entries transport svcs) <->
  exists s k r, In s svcs /\ In k (kinds transport s) /\ In r (s_rpcs s) /\ e = mk_entry s k r.
Proof.
  split.
  - intro H. apply (Permutation_in _ (entries_perm transport svcs)) in H.
    unfold product_entries in H. apply in_flat_map in H as (s & Hs & H).
    apply in_flat_map in H as (k & Hk & H). apply in_map_iff in H as (r & <- & Hr). eauto 8.
  - intros (s & k & r & Hs & Hk & Hr & ->).
    apply (Permutation_in _ (Permutation_sym (entries_perm transport svcs))).
    unfold product_entries. apply in_flat_map. exists s. split; [assumption|].
    apply in_flat_map. exists k. split; [assumption|]. now apply in_map.
Qed.

(* clients_exact: every service is listed once per client kind implied by the transports, with its client class — services
   that declare no rpc included *)
Lemma clients_in transport svcs s k c :
  In (s, k, c) (metadata_clients transport svcs) <-> exists sv, In sv svcs /\ s_name sv = s /\ In (k, c) (kinds transport sv).
Proof.
  unfold metadata_clients. rewrite in_flat_map. split.
  - intros (sv & Hsv & H). apply (Permutation_in _ (sort_by_perm s_name svcs)) in Hsv.
    apply in_map_iff in H as ([k' c'] & E & Hk). inversion E; subst. exists sv. auto.
  - intros (sv & Hsv & <- & Hk). exists sv. split; [apply (Permutation_in _ (Permutation_sym (sort_by_perm s_name svcs))), Hsv|].
    apply in_map_iff. exists (k, c). auto.
Qed.
Lemma clients_nodup transport svcs : NoDup (map s_name svcs) ->
  NoDup (map (fun e => (fst (fst e), snd (fst e))) (metadata_clients transport svcs)).
Proof.
  intro ND. unfold metadata_clients. rewrite flat_map_concat_map, concat_map, map_map, <- flat_map_concat_map.
  apply (NoDup_flat_map_tagged _ s_name (@fst string string)).
  - eapply Permutation_NoDup; [apply Permutation_map, Permutation_sym, sort_by_perm | exact ND].
  - intros sv _. rewrite map_map. cbn [fst snd].
    apply NoDup_map_inj_on; [|apply (NoDup_of_map (@fst string string)), kinds_keys_nodup].
    intros x y Hx Hy E. inversion E as [E']. pose proof (kinds_keys_nodup transport sv) as NK.
    clear - NK Hx Hy E'. induction (kinds transport sv) as [|a l IH]; [contradiction|].
    simpl in NK. inversion NK as [|? ? Hna ND]; subst.
    destruct Hx as [->|Hx], Hy as [->|Hy]; auto.
    + exfalso. apply Hna. rewrite E'. now apply in_map.
    + exfalso. apply Hna. rewrite <- E'. now apply in_map.
  - intros sv b _ Hb. rewrite map_map in Hb. apply in_map_iff in Hb as (k & <- & _). reflexivity.
Qed.
Lemma clients_exact transport svcs :
  (forall s k c, In (s, k, c) (metadata_clients transport svcs) <->
                 exists sv, In sv svcs /\ s_name sv = s /\ In (k, c) (kinds transport sv)) /\
  (NoDup (map s_name svcs) -> NoDup (map (fun e => (fst (fst e), snd (fst e))) (metadata_clients transport svcs))).
Proof. split; [intros; apply clients_in | apply clients_nodup]. Qed.
Example clients_empty_service :
  metadata_clients ["grpc"; "rest"] [mkS "Placeholder" []; mkS "Lib" [mkR "Get" false true []]] =
  [("Lib", "grpc", "LibClient"); ("Lib", "grpc-async", "LibAsyncClient"); ("Lib", "rest", "LibClient");
   ("Placeholder", "grpc", "PlaceholderClient"); ("Placeholder", "grpc-async", "PlaceholderAsyncClient");
   ("Placeholder", "rest", "PlaceholderClient")].
Proof. vm_compute. reflexivity. Qed.

(* ---------- legacy_flattened_fields ---------- *)
Definition nonreq (f : field) : bool := negb (f_required f).

Lemma filter_partition_perm {A} (p : A -> bool) l :
  Permutation (filter p l ++ filter (fun x => negb (p x)) l) l.
Proof.
  induction l as [|a l IH]; simpl; [reflexivity|].
  destruct (p a); simpl.
  - now constructor.
  - rewrite <- Permutation_middle. now constructor.
Qed.

Lemma filter_filter_same {A} (p : A -> bool) l : filter p (filter p l) = filter p l.
Proof.
  induction l as [|a l IH]; simpl; [reflexivity|].
  destruct (p a) eqn:E; simpl; [rewrite E; now f_equal | assumption].
Qed.

Lemma filter_filter_neg {A} (p : A -> bool) l : filter p (filter (fun x => negb (p x)) l) = [].
Proof.
  induction l as [|a l IH]; simpl; [reflexivity|].
  destruct (p a) eqn:E; simpl; [assumption | rewrite E; assumption].
Qed.

Lemma filter_neg_filter {A} (p : A -> bool) l : filter (fun x => negb (p x)) (filter p l) = [].
Proof.
  induction l as [|a l IH]; simpl; [reflexivity|].
  destruct (p a) eqn:E; simpl; [rewrite E; assumption | assumption].
Qed.

Lemma fixup_order_spec fs :
  Permutation (legacy_flattened fs) fs /\
  (exists req opt, legacy_flattened fs = (req ++ opt)%list /\
                   Forall (fun f => f_required f = true) req /\ Forall (fun f => f_required f = false) opt) /\
  filter f_required (legacy_flattened fs) = filter f_required fs /\
  filter nonreq (legacy_flattened fs) = filter nonreq fs.
Proof.
  unfold legacy_flattened, nonreq. repeat split.
  - apply filter_partition_perm.
  - exists (filter f_required fs), (filter (fun f => negb (f_required f)) fs). repeat split.
    + apply Forall_forall. intros f H. now apply filter_In in H.
    + apply Forall_forall. intros f H. apply filter_In in H as [_ H]. now apply negb_true_iff.
  - rewrite filter_app, filter_filter_same, filter_filter_neg. apply app_nil_r.
  - rewrite filter_app, filter_neg_filter, (filter_filter_same (fun f => negb (f_required f))). reflexivity.
Qed.

(* ---------- METHOD_TO_PARAMS ---------- *)
Definition all_rpcs (svcs : list svc) : list rpc := flat_map s_rpcs svcs.

Lemma listed_incl svcs r : In r (listed_rpcs svcs) -> In r (all_rpcs svcs).
Proof.
  unfold listed_rpcs, unique_by. intro H. apply unique_by_acc_incl in H.
  now apply (Permutation_in _ (sort_by_perm ci _)) in H.
Qed.

Lemma listed_repr svcs r : In r (all_rpcs svcs) -> exists r', In r' (listed_rpcs svcs) /\ r_name r' = r_name r.
Proof.
  intro H. unfold listed_rpcs, unique_by. apply unique_by_acc_repr; [|reflexivity].
  now apply (Permutation_in _ (Permutation_sym (sort_by_perm ci _))).
Qed.

(* every RPC name has an entry listing all request fields of an RPC of that name (required first, see fixup_order_spec) —
   names that differ only by letter case included (unique compares case-sensitively) *)
Lemma fixup_covers add_iam svcs :
  forall r, In r (all_rpcs svcs) ->
  exists r', In r' (all_rpcs svcs) /\ r_name r' = r_name r /\
             In (snake (r_name r), params_of r') (method_to_params add_iam svcs).
Proof.
  intros r Hr. destruct (listed_repr svcs r Hr) as (r' & Hl & En).
  pose proof (listed_incl _ _ Hl) as Hr'. exists r'. split; [assumption|]. split; [assumption|].
  unfold method_to_params. apply in_or_app. left. apply in_map_iff. exists r'. rewrite En. auto.
Qed.

(* one entry per RPC name, and only RPCs of the API are listed *)
Lemma fixup_listed_once svcs :
  NoDup (map r_name (listed_rpcs svcs)) /\ (forall r, In r (listed_rpcs svcs) -> In r (all_rpcs svcs)).
Proof.
  split; [apply (unique_by_acc_nodup r_name) | apply listed_incl].
Qed.

(* the former witness of the case-insensitive unique defect: GetBook / Getbook both have their entry *)
Definition witness_svcs : list svc :=
  [mkS "Lib" [mkR "GetBook" false true [mkF "name" true]; mkR "Getbook" false true [mkF "x" false]]].
Lemma fixup_case_example :
  method_to_params false witness_svcs = [("get_book", ["name"]); ("getbook", ["x"])].
Proof. vm_compute. reflexivity. Qed.

(* non-vacuity of the hypotheses above on a non-trivial API (keyword-named, internal, reserved-word field) *)
Definition example_svcs : list svc :=
  [mkS "Lib" [mkR "GetBook" false true [mkF "zeta" false; mkF "alpha" true; mkF "class" false; mkF "beta" true];
            mkR "Import" true true [mkF "name" true]; mkR "class" false false [mkF "class" false]];
   mkS "Aux" [mkR "Zed" false true []]].
Lemma example_ok :
  NoDup (map s_name example_svcs) /\ (forall s, In s example_svcs -> NoDup (map r_name (s_rpcs s))) /\
  map (fun e => (e_client e, e_method e)) (metadata_entries ["rest"] example_svcs)
    = [("AuxClient", "zed"); ("BaseLibClient", "get_book"); ("BaseLibClient", "_import_"); ("BaseLibClient", "class_")] /\
  method_to_params false example_svcs
    = [("class", ["class"]); ("get_book", ["alpha"; "beta"; "zeta"; "class_"]); ("import", ["name"]); ("zed", [])].
Proof.
  split; [|split; [|split]].
  - vm_compute. repeat constructor; simpl; intuition discriminate.
  - intros s [<-|[<-|[]]]; vm_compute; repeat constructor; simpl; intuition discriminate.
  - vm_compute. reflexivity.
  - vm_compute. reflexivity.
Qed.
