(* Proofs/Routing.v — lemmas for C06 (routing header) *)
From GV Require Import Base.Str Model.Routing.
Require Import Lia.

Local Open Scope string_scope.

(* ================================================================ characters *)
Ltac ascii_cases c := destruct c as [[|] [|] [|] [|] [|] [|] [|] [|]].

Lemma lit_char_facts c : lit_char c = true ->
  rx_plain c = true /\ Ascii.eqb c slash = false /\ Ascii.eqb c star = false /\ Ascii.eqb c lbrace = false /\
  Ascii.eqb c rbrace = false /\ Ascii.eqb c eqc = false /\ Ascii.eqb c dot = false.
Proof. ascii_cases c; vm_compute; intro H; try discriminate H; repeat split; reflexivity. Qed.

Lemma word_char_facts c : is_word c = true ->
  Ascii.eqb c slash = false /\ Ascii.eqb c star = false /\ Ascii.eqb c lbrace = false /\
  Ascii.eqb c rbrace = false /\ Ascii.eqb c eqc = false.
Proof. ascii_cases c; vm_compute; intro H; try discriminate H; repeat split; reflexivity. Qed.

Lemma sall_contains_false f x : (forall c, f c = true -> Ascii.eqb c x = false) ->
  forall l, sall f l = true -> contains x l = false.
Proof.
  intros Hf. induction l as [|a l IH]; simpl; intro H; [reflexivity|].
  apply andb_true_iff in H as [Ha Hl]. rewrite (Hf a Ha). simpl. auto.
Qed.

Lemma lit_no c l : sall lit_char l = true ->
  (c = slash \/ c = star \/ c = lbrace \/ c = rbrace \/ c = eqc \/ c = dot) -> contains c l = false.
Proof.
  intros H Hc. apply (sall_contains_false lit_char c); [|exact H].
  intros a Ha. destruct (lit_char_facts a Ha) as (_ & H1 & H2 & H3 & H4 & H5 & H6).
  destruct Hc as [->|[->|[->|[->|[->| ->]]]]]; assumption.
Qed.

Lemma word_no c l : sall is_word l = true ->
  (c = slash \/ c = star \/ c = lbrace \/ c = rbrace \/ c = eqc) -> contains c l = false.
Proof.
  intros H Hc. apply (sall_contains_false is_word c); [|exact H].
  intros a Ha. destruct (word_char_facts a Ha) as (H1 & H2 & H3 & H4 & H5).
  destruct Hc as [->|[->|[->|[->| ->]]]]; assumption.
Qed.

Lemma is_ident_word k : is_ident k = true -> sall is_word k = true.
Proof. destruct k as [|c k]; simpl; [discriminate|]. intro H. apply andb_true_iff in H as [_ H]. exact H. Qed.

(* ================================================================ split / join *)
Lemma split2_noc c x : contains c x = false ->
  forall s, split2 c (x ++ s) = (x ++ fst (split2 c s), snd (split2 c s)).
Proof.
  induction x as [|a x IH]; simpl; intros Hx s.
  - now destruct (split2 c s).
  - apply orb_false_iff in Hx as [Ha Hx]. rewrite (IH Hx s). simpl. now rewrite Ha.
Qed.

Lemma split2_tails c : forall l, Forall (fun x => contains c x = false) l -> split2 c (tails c l) = ("", l).
Proof.
  induction l as [|x l IH]; intro H; [reflexivity|].
  inversion H as [|? ? Hx Hl]; subst. simpl.
  rewrite (split2_noc c x Hx). rewrite (IH Hl). simpl. rewrite Ascii.eqb_refl. now rewrite sapp_nil_r.
Qed.

Lemma splitc_joinc c x l : contains c x = false -> Forall (fun y => contains c y = false) l ->
  splitc c (x ++ tails c l) = x :: l.
Proof.
  intros Hx Hl. unfold splitc. rewrite (split2_noc c x Hx). rewrite (split2_tails c l Hl). simpl.
  now rewrite sapp_nil_r.
Qed.

Lemma split2_join c : forall s, fst (split2 c s) ++ tails c (snd (split2 c s)) = s.
Proof.
  induction s as [|a s IH]; [reflexivity|]. simpl.
  destruct (split2 c s) as [h t] eqn:E. simpl in IH.
  destruct (Ascii.eqb a c) eqn:Ea; simpl.
  - apply Ascii.eqb_eq in Ea. subst a. now rewrite IH.
  - now rewrite IH.
Qed.

Lemma joinc_splitc c s : joinc c (splitc c s) = s.
Proof. unfold splitc. pose proof (split2_join c s) as H. destruct (split2 c s) as [h t]. exact H. Qed.

Lemma split2_noc_pieces c : forall s,
  contains c (fst (split2 c s)) = false /\ Forall (fun x => contains c x = false) (snd (split2 c s)).
Proof.
  induction s as [|a s [IH1 IH2]]; simpl; [split; [reflexivity|constructor]|].
  destruct (split2 c s) as [h t]. simpl in *.
  destruct (Ascii.eqb a c) eqn:Ea; simpl.
  - split; [reflexivity|]. constructor; assumption.
  - rewrite Ea. simpl. split; assumption.
Qed.

Lemma splitc_shape c s : exists x l, splitc c s = x :: l /\ s = x ++ tails c l /\
  contains c x = false /\ Forall (fun y => contains c y = false) l.
Proof.
  unfold splitc. pose proof (split2_join c s) as H. pose proof (split2_noc_pieces c s) as [H1 H2].
  destruct (split2 c s) as [h t]. simpl in *. exists h, t. repeat split; auto.
Qed.

Lemma tails_app c a b : tails c (a ++ b)%list = tails c a ++ tails c b.
Proof.
  induction a as [|x a IH]; simpl; [reflexivity|]. rewrite IH. now rewrite sapp_assoc.
Qed.

Lemma contains_tails c d l : Ascii.eqb c d = false -> Forall (fun x => contains d x = false) l ->
  contains d (tails c l) = false.
Proof.
  intros Hcd. induction l as [|x l IH]; intro H; [reflexivity|].
  inversion H; subst. simpl. rewrite Hcd. simpl. rewrite contains_app. rewrite H2. simpl. auto.
Qed.

Lemma slen_app a b : String.length (a ++ b) = String.length a + String.length b.
Proof. induction a as [|x a IH]; simpl; [reflexivity|]. now rewrite IH. Qed.

Lemma count_char_app c a b : count_char c (a ++ b) = count_char c a + count_char c b.
Proof. induction a as [|x a IH]; simpl; [reflexivity|]. rewrite IH. lia. Qed.

Lemma count_char_0 c s : contains c s = false -> count_char c s = 0.
Proof.
  induction s as [|a s IH]; simpl; [reflexivity|]. intro H. apply orb_false_iff in H as [Ha Hs].
  rewrite Ha. simpl. auto.
Qed.

(* ================================================================ the regex the code builds for a class template *)
Definition item (s : seg) : rx := match s with SLit l => RLit l | SStar => RSeg | SDstar => RAny end.
Fixpoint items_tail (l : list seg) : list rx :=
  match l with
  | [] => []
  | SDstar :: r => ROptAny :: items_tail r
  | s :: r => RSlash :: item s :: items_tail r
  end.
Definition items_first (l : list seg) : list rx :=
  match l with [] => [] | s :: r => item s :: items_tail r end.
Definition group_items (t : tmpl) : list rx := (ROpen (t_key t) :: items_first (t_sub t) ++ [RClose])%list.
Definition rx_of (t : tmpl) : list rx :=
  match t_pre t with
  | [] => (group_items t ++ items_tail (t_post t))%list
  | _ => (items_first (t_pre t) ++ RSlash :: group_items t ++ items_tail (t_post t))%list
  end.

(* ================================================================ semantics: regex matcher = segment matcher *)
Lemma push_nil st : push st "" = st.
Proof. destruct st; simpl; try reflexivity. now rewrite sapp_nil_r. Qed.
Lemma push_push st a b : push (push st a) b = push st (a ++ b).
Proof. destruct st; simpl; try reflexivity. now rewrite sapp_assoc. Qed.

Lemma lit_match_plain : forall l, sall lit_char l = true -> forall s,
  lit_match l s = match strip_prefix l s with Some r => Some (l, r) | None => None end.
Proof.
  induction l as [|a l IH]; intros Hl s; [reflexivity|].
  simpl in Hl. apply andb_true_iff in Hl as [Ha Hl].
  destruct (lit_char_facts a Ha) as (Hp & _ & _ & _ & _ & _ & Hd).
  destruct s as [|b s]; simpl; [reflexivity|].
  rewrite Hd, Hp. simpl.
  destruct (Ascii.eqb a b) eqn:E; [|reflexivity].
  apply Ascii.eqb_eq in E. subst b. rewrite (IH Hl s). now destruct (strip_prefix l s).
Qed.

Definition needs_slash (r : list rx) : Prop :=
  forall st c s, Ascii.eqb c slash = false -> Ascii.eqb c nl = false -> rmatch r st (String c s) = None.

Lemma ns_nil : needs_slash [].
Proof. intros st c s H1 H2. simpl. destruct s; [now rewrite H2|reflexivity]. Qed.
Lemma ns_slash r : needs_slash (RSlash :: r).
Proof. intros st c s H1 H2. simpl. now rewrite H1. Qed.
Lemma ns_optany r : needs_slash r -> needs_slash (ROptAny :: r).
Proof. intros H st c s H1 H2. simpl. rewrite H1. now apply H. Qed.
Lemma ns_close r : needs_slash r -> needs_slash (RClose :: r).
Proof. intros H st c s H1 H2. simpl. destruct st; try reflexivity. now apply H. Qed.
Lemma ns_tail l : forall rest, needs_slash rest -> needs_slash (items_tail l ++ rest)%list.
Proof.
  induction l as [|s l IH]; intros rest H; [exact H|].
  destruct s; simpl; try apply ns_slash. apply ns_optany. now apply IH.
Qed.

Definition tl_ok (T : string) : Prop := T = "" \/ exists T', T = String slash T'.
Lemma tl_ok_tails l : tl_ok (tails slash l).
Proof. destruct l; [now left|right; eexists; reflexivity]. Qed.

Lemma greedy_seg {R} (k : cst -> string -> option R) :
  (forall st c s, Ascii.eqb c slash = false -> Ascii.eqb c nl = false -> k st (String c s) = None) ->
  forall x st T, contains slash x = false -> contains nl x = false -> tl_ok T ->
  greedy not_slash k st (x ++ T) = k (push st x) T.
Proof.
  intros Hk. induction x as [|a x IH]; intros st T Hs Hn HT.
  - simpl. rewrite push_nil. destruct HT as [->|[T' ->]]; reflexivity.
  - simpl in Hs, Hn. apply orb_false_iff in Hs as [Has Hs]. apply orb_false_iff in Hn as [Han Hn].
    simpl. unfold not_slash at 1. rewrite Has. simpl.
    rewrite (IH (push st (s1 a)) T Hs Hn HT). rewrite push_push. simpl.
    destruct (k (push st (String a x)) T) eqn:E; [reflexivity|].
    now apply Hk.
Qed.

Lemma greedy_all {R} ok (k : cst -> string -> option R) r : forall x st,
  sall ok x = true -> k (push st x) "" = Some r -> greedy ok k st x = Some r.
Proof.
  induction x as [|a x IH]; intros st Hx Hk.
  - simpl. now rewrite push_nil in Hk.
  - simpl in Hx. apply andb_true_iff in Hx as [Ha Hx]. simpl. rewrite Ha.
    rewrite (IH (push st (s1 a)) Hx); [reflexivity|]. now rewrite push_push.
Qed.

Lemma nl_free_sall x : contains nl x = false -> sall not_nl x = true.
Proof.
  induction x as [|a x IH]; simpl; intro H; [reflexivity|].
  apply orb_false_iff in H as [Ha Hx]. unfold not_nl at 1. rewrite Ha. simpl. auto.
Qed.

Lemma prefix_split : forall l x r T, contains slash l = false -> tl_ok T ->
  l ++ r = x ++ T -> (exists y, x = l ++ y /\ r = y ++ T) \/ (exists a l1 l2, l = l1 ++ String a l2 /\ x = l1 /\ (T = "" \/ a = slash)).
Proof.
  induction l as [|a l IH]; intros x r T Hl HT E.
  - left. exists x. split; [reflexivity|exact E].
  - simpl in Hl. apply orb_false_iff in Hl as [Ha Hl].
    destruct x as [|b x].
    + right. exists a, "", l. repeat split.
      destruct HT as [->|[T' ->]]; [now left|]. right. simpl in E. now inversion E.
    + simpl in E. inversion E as [[Eab E']]. subst b.
      destruct (IH x r T Hl HT E') as [(y & -> & ->)|(a' & l1 & l2 & -> & -> & H)].
      * left. exists y. split; reflexivity.
      * right. exists a', (String a l1), l2. repeat split; auto.
Qed.

Lemma head_lit l rest st x T :
  sall lit_char l = true -> contains slash x = false -> contains nl x = false -> tl_ok T -> needs_slash rest ->
  rmatch (RLit l :: rest) st (x ++ T) = if String.eqb l x then rmatch rest (push st x) T else None.
Proof.
  intros Hl Hx Hn HT Hr. cbn [rmatch]. rewrite (lit_match_plain l Hl).
  assert (Hls : contains slash l = false) by (apply lit_no; auto).
  destruct (strip_prefix l (x ++ T)) as [r|] eqn:E.
  - apply strip_prefix_sound in E. symmetry in E.
    destruct (prefix_split l x r T Hls HT E) as [(y & -> & ->)|(a & l1 & l2 & -> & -> & H)].
    + destruct y as [|a y].
      * rewrite sapp_nil_r. rewrite String.eqb_refl. reflexivity.
      * assert (Hne : String.eqb l (l ++ String a y) = false).
        { apply String.eqb_neq. intro C. assert (L : String.length l = String.length (l ++ String a y)) by now rewrite <- C.
          rewrite slen_app in L. simpl in L. lia. }
        rewrite Hne. simpl.
        rewrite contains_app in Hx, Hn. apply orb_false_iff in Hx as [_ Hx]. apply orb_false_iff in Hn as [_ Hn].
        simpl in Hx, Hn. apply orb_false_iff in Hx as [Hx _]. apply orb_false_iff in Hn as [Hn _].
        now apply Hr.
    + (* the literal is longer than the segment: impossible, it would contain a slash or run past the end *)
      exfalso. destruct H as [->| ->].
      * rewrite sapp_nil_r in E. rewrite sapp_assoc in E.
        assert (L : String.length (l1 ++ String a l2 ++ r) = String.length l1) by now rewrite E.
        rewrite slen_app in L. simpl in L. lia.
      * rewrite contains_app in Hls. apply orb_false_iff in Hls as [_ Hls]. simpl in Hls.
        discriminate Hls.
  - destruct (String.eqb l x) eqn:Elx; [|reflexivity].
    apply String.eqb_eq in Elx. subst x. rewrite strip_prefix_app in E. discriminate.
Qed.

Lemma head_star rest st x T :
  contains slash x = false -> contains nl x = false -> tl_ok T -> needs_slash rest ->
  rmatch (RSeg :: rest) st (x ++ T) = if is_empty x then None else rmatch rest (push st x) T.
Proof.
  intros Hx Hn HT Hr. destruct x as [|a x].
  - simpl. destruct HT as [->|[T' ->]]; reflexivity.
  - simpl in Hx, Hn. apply orb_false_iff in Hx as [Ha Hx]. apply orb_false_iff in Hn as [Hna Hn].
    cbn [rmatch append is_empty]. unfold not_slash at 1. rewrite Ha. cbn [negb].
    rewrite (greedy_seg (rmatch rest) Hr x (push st (s1 a)) T Hx Hn HT). now rewrite push_push.
Qed.

(* one-to-one matching of star-free-of-double-star segments against the first value segments *)
Definition seg_matches (s : seg) (v : string) : bool :=
  match s with SLit l => String.eqb l v | SStar => negb (is_empty v) | SDstar => false end.
Fixpoint pmatch (segs : list seg) (vs : list string) : option (list string * list string) :=
  match segs with
  | [] => Some ([], vs)
  | s :: segs' =>
      match vs with
      | [] => None
      | v :: vs' => if seg_matches s v then
                      match pmatch segs' vs' with Some (m, r) => Some (v :: m, r) | None => None end
                    else None
      end
  end.

Definition seg_str (x : string) : Prop := contains slash x = false /\ contains nl x = false.

Lemma head_item s rest st x T :
  seg_ok s = true -> is_dstar s = false -> seg_str x -> tl_ok T -> needs_slash rest ->
  rmatch (item s :: rest) st (x ++ T) = if seg_matches s x then rmatch rest (push st x) T else None.
Proof.
  intros Hok Hd [Hx Hn] HT Hr. destruct s as [l| |]; simpl in Hd; try discriminate.
  - now apply head_lit.
  - simpl item. rewrite head_star; auto. simpl. now destruct (is_empty x).
Qed.

Lemma rmatch_slash r st s : rmatch (RSlash :: r) st (String slash s) = rmatch r (push st "/") s.
Proof. reflexivity. Qed.

Lemma tail_nodstar : forall segs, forallb seg_ok segs = true -> no_dstar segs = true ->
  forall rest st vs, needs_slash rest -> Forall seg_str vs ->
  rmatch (items_tail segs ++ rest)%list st (tails slash vs) =
  match pmatch segs vs with
  | Some (m, r) => rmatch rest (push st (tails slash m)) (tails slash r)
  | None => None
  end.
Proof.
  induction segs as [|s segs IH]; intros Hok Hnd rest st vs Hr Hvs.
  - simpl. now rewrite push_nil.
  - simpl in Hok, Hnd. apply andb_true_iff in Hok as [Hs Hok]. apply andb_true_iff in Hnd as [Hd Hnd].
    apply negb_true_iff in Hd.
    assert (E : (items_tail (s :: segs) ++ rest = RSlash :: item s :: (items_tail segs ++ rest))%list).
    { destruct s; simpl in Hd; try discriminate; reflexivity. }
    rewrite E. destruct vs as [|v vs]; [reflexivity|].
    inversion Hvs as [|? ? Hv Hvs']; subst.
    cbn [tails pmatch]. rewrite rmatch_slash.
    rewrite (head_item s _ _ v (tails slash vs) Hs Hd Hv (tl_ok_tails vs) (ns_tail segs rest Hr)).
    destruct (seg_matches s v); [|reflexivity].
    rewrite (IH Hok Hnd rest _ vs Hr Hvs').
    destruct (pmatch segs vs) as [[m r]|]; [|reflexivity].
    rewrite !push_push. reflexivity.
Qed.

Lemma first_nodstar s segs rest st x vs :
  forallb seg_ok (s :: segs) = true -> no_dstar (s :: segs) = true ->
  needs_slash rest -> seg_str x -> Forall seg_str vs ->
  rmatch (items_first (s :: segs) ++ rest)%list st (x ++ tails slash vs) =
  match pmatch (s :: segs) (x :: vs) with
  | Some (m, r) => rmatch rest (push st (joinc slash m)) (tails slash r)
  | None => None
  end.
Proof.
  intros Hok Hnd Hr Hx Hvs. simpl in Hok, Hnd.
  apply andb_true_iff in Hok as [Hs Hok]. apply andb_true_iff in Hnd as [Hd Hnd]. apply negb_true_iff in Hd.
  cbn [items_first app pmatch].
  rewrite (head_item s _ _ x (tails slash vs) Hs Hd Hx (tl_ok_tails vs) (ns_tail segs rest Hr)).
  destruct (seg_matches s x); [|reflexivity].
  rewrite (tail_nodstar segs Hok Hnd rest _ vs Hr Hvs).
  destruct (pmatch segs vs) as [[m r]|]; [|reflexivity].
  rewrite push_push. reflexivity.
Qed.

(* ---- the segment matcher on the same decomposition ---- *)
Lemma amatch_dstar_unfold c p' vs :
  amatch ((SDstar, c) :: p') vs =
  match amatch p' vs with
  | Some cap => Some cap
  | None => match vs with [] => None | v :: vs' => option_map (keep c v) (amatch ((SDstar, c) :: p') vs') end
  end.
Proof. destruct vs; reflexivity. Qed.

Lemma amatch_dstar_end c : forall vs, amatch [(SDstar, c)] vs = Some (if c then vs else []).
Proof.
  induction vs as [|v vs IH]; rewrite amatch_dstar_unfold.
  - simpl. now destruct c.
  - simpl amatch at 1. rewrite IH. simpl. now destruct c.
Qed.

Lemma amatch_nodstar c : forall segs, no_dstar segs = true -> forall fl vs,
  amatch (map (fun s => (s, c)) segs ++ fl)%list vs =
  match pmatch segs vs with
  | Some (m, r) => option_map (fun cap => ((if c then m else []) ++ cap)%list) (amatch fl r)
  | None => None
  end.
Proof.
  induction segs as [|s segs IH]; intros Hnd fl vs.
  - simpl. destruct (amatch fl vs); simpl; [|reflexivity]. now destruct c.
  - simpl in Hnd. apply andb_true_iff in Hnd as [Hd Hnd]. apply negb_true_iff in Hd.
    destruct s as [l| |]; simpl in Hd; try discriminate; cbn [map app amatch pmatch seg_matches];
      (destruct vs as [|v vs]; [reflexivity|]).
    + destruct (String.eqb l v); [|reflexivity]. rewrite (IH Hnd fl vs).
      destruct (pmatch segs vs) as [[m r]|]; [|reflexivity].
      destruct (amatch fl r); simpl; [|reflexivity]. now destruct c.
    + destruct (is_empty v); [reflexivity|]. cbn [negb]. rewrite (IH Hnd fl vs).
      destruct (pmatch segs vs) as [[m r]|]; [|reflexivity].
      destruct (amatch fl r); simpl; [|reflexivity]. now destruct c.
Qed.

Lemma pmatch_suffix : forall segs vs m r, pmatch segs vs = Some (m, r) -> vs = (m ++ r)%list.
Proof.
  induction segs as [|s segs IH]; intros vs m r H; simpl in H.
  - inversion H; subst. reflexivity.
  - destruct vs as [|v vs]; [discriminate|]. destruct (seg_matches s v); [|discriminate].
    destruct (pmatch segs vs) as [[m' r']|] eqn:E; [|discriminate]. inversion H; subst.
    simpl. f_equal. now apply IH.
Qed.

Lemma pmatch_rest_ok segs vs m r : pmatch segs vs = Some (m, r) -> Forall seg_str vs -> Forall seg_str r.
Proof.
  intros H Hv. apply pmatch_suffix in H. subst vs. apply Forall_app in Hv. tauto.
Qed.

Lemma dstar_last_cases : forall l, dstar_last l = true ->
  no_dstar l = true \/ exists l', l = (l' ++ [SDstar])%list /\ no_dstar l' = true.
Proof.
  induction l as [|s l IH]; intro H; [now left|].
  destruct l as [|s2 l].
  - destruct s; [left; reflexivity|left; reflexivity|right; exists []; split; reflexivity].
  - change (negb (is_dstar s) && dstar_last (s2 :: l) = true) in H.
    apply andb_true_iff in H as [Hs H]. destruct (IH H) as [Hn|(l' & E & Hn)].
    + left. simpl. simpl in Hn. now rewrite Hs, Hn.
    + right. exists (s :: l'). split; [now rewrite E|]. simpl. now rewrite Hs, Hn.
Qed.

Lemma items_tail_app : forall a b, items_tail (a ++ b) = (items_tail a ++ items_tail b)%list.
Proof.
  induction a as [|s a IH]; intro b; [reflexivity|].
  destruct s; simpl; now rewrite IH.
Qed.

Lemma seg_strs_nl vs : Forall seg_str vs -> contains nl (tails slash vs) = false.
Proof.
  intro H. apply contains_tails; [reflexivity|]. eapply Forall_impl; [|exact H]. intros a [_ Ha]. exact Ha.
Qed.

Lemma optany_end rest st vs r : Forall seg_str vs ->
  rmatch rest (push st (tails slash vs)) "" = Some r -> rmatch (ROptAny :: rest) st (tails slash vs) = Some r.
Proof.
  intros Hvs H. destruct vs as [|v vs].
  - simpl in *. now rewrite push_nil in H.
  - pose proof (seg_strs_nl _ Hvs) as Hn. cbn [tails] in *. cbn [rmatch]. unfold slash at 1. rewrite Ascii.eqb_refl.
    simpl in Hn. rewrite (greedy_all not_nl (rmatch rest) r); [reflexivity| |].
    + now apply nl_free_sall.
    + now rewrite push_push.
Qed.

Lemma any_end rest st v r : contains nl v = false ->
  rmatch rest (push st v) "" = Some r -> rmatch (RAny :: rest) st v = Some r.
Proof. intros Hn H. cbn [rmatch]. apply greedy_all; [now apply nl_free_sall|exact H]. Qed.

Lemma post_match post cap vs :
  forallb seg_ok post = true -> dstar_last post = true -> Forall seg_str vs ->
  rmatch (items_tail post) (CAfter cap) (tails slash vs) =
  match amatch (map (fun s => (s, false)) post) vs with Some _ => Some (Some cap) | None => None end.
Proof.
  intros Hok Hdl Hvs. destruct (dstar_last_cases post Hdl) as [Hnd|(post' & -> & Hnd)].
  - rewrite <- (app_nil_r (items_tail post)). rewrite (tail_nodstar post Hok Hnd [] _ vs ns_nil Hvs).
    rewrite <- (app_nil_r (map _ post)). rewrite (amatch_nodstar false post Hnd [] vs).
    destruct (pmatch post vs) as [[m r]|]; [|reflexivity].
    destruct r as [|y r]; [reflexivity|]. cbn. destruct (y ++ tails slash r); reflexivity.
  - rewrite forallb_app in Hok. apply andb_true_iff in Hok as [Hok _].
    rewrite items_tail_app. simpl items_tail at 2.
    rewrite (tail_nodstar post' Hok Hnd [ROptAny] _ vs (ns_optany _ ns_nil) Hvs).
    rewrite map_app. simpl map at 2. rewrite (amatch_nodstar false post' Hnd _ vs).
    destruct (pmatch post' vs) as [[m r]|] eqn:E; [|reflexivity].
    rewrite amatch_dstar_end. simpl option_map.
    apply optany_end; [eapply pmatch_rest_ok; eauto|]. reflexivity.
Qed.
