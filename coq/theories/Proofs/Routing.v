(* Proofs/Routing.v — lemmas for C06 (routing header) *)
From GV Require Import Base.Str Model.Routing.
Require Import Lia.

Local Open Scope string_scope.

(* ================================================================ characters *)
Ltac ascii_cases c := destruct c as [[|] [|] [|] [|] [|] [|] [|] [|]].

Lemma lit_char_facts c : lit_char c = true ->
  Ascii.eqb c slash = false /\ Ascii.eqb c star = false /\ Ascii.eqb c lbrace = false /\
  Ascii.eqb c rbrace = false /\ Ascii.eqb c eqc = false.
Proof. ascii_cases c; vm_compute; intro H; try discriminate H; repeat split; reflexivity. Qed.

Lemma word_char_facts c : is_word c = true ->
  Ascii.eqb c slash = false /\ Ascii.eqb c star = false /\ Ascii.eqb c lbrace = false /\
  Ascii.eqb c rbrace = false /\ Ascii.eqb c eqc = false.
Proof. ascii_cases c; vm_compute; intro H; try discriminate H; repeat split; reflexivity. Qed.

Lemma sall_contains_false f x : (forall c, f c = true -> Ascii.eqb c x = false) ->
  forall l, sall f l = true -> contains x l = false.
Proof.
  intros Hf. induction l as [|a l IH]; simpl; intro H; [reflexivity|].
  apply andb_true_iff in H as [Ha Hl]. rewrite (Hf a Ha). simpl. auto.
Qed.

Lemma lit_no c l : sall lit_char l = true ->
  (c = slash \/ c = star \/ c = lbrace \/ c = rbrace \/ c = eqc) -> contains c l = false.
Proof.
  intros H Hc. apply (sall_contains_false lit_char c); [|exact H].
  intros a Ha. destruct (lit_char_facts a Ha) as (H1 & H2 & H3 & H4 & H5).
  destruct Hc as [->|[->|[->|[->| ->]]]]; assumption.
Qed.

Lemma word_no c l : sall is_word l = true ->
  (c = slash \/ c = star \/ c = lbrace \/ c = rbrace \/ c = eqc) -> contains c l = false.
Proof.
  intros H Hc. apply (sall_contains_false is_word c); [|exact H].
  intros a Ha. destruct (word_char_facts a Ha) as (H1 & H2 & H3 & H4 & H5).
  destruct Hc as [->|[->|[->|[->| ->]]]]; assumption.
Qed.

Lemma is_ident_word k : is_ident k = true -> sall is_word k = true.
Proof. destruct k as [|c k]; simpl; [discriminate|]. intro H. apply andb_true_iff in H as [_ H]. exact H. Qed.

(* ================================================================ split / join *)
Lemma split2_noc c x : contains c x = false ->
  forall s, split2 c (x ++ s) = (x ++ fst (split2 c s), snd (split2 c s)).
Proof.
  induction x as [|a x IH]; simpl; intros Hx s.
  - now destruct (split2 c s).
  - apply orb_false_iff in Hx as [Ha Hx]. rewrite (IH Hx s). simpl. now rewrite Ha.
Qed.

Lemma split2_tails c : forall l, Forall (fun x => contains c x = false) l -> split2 c (tails c l) = ("", l).
Proof.
  induction l as [|x l IH]; intro H; [reflexivity|].
  inversion H as [|? ? Hx Hl]; subst. simpl.
  rewrite (split2_noc c x Hx). rewrite (IH Hl). simpl. rewrite Ascii.eqb_refl. now rewrite sapp_nil_r.
Qed.

Lemma splitc_joinc c x l : contains c x = false -> Forall (fun y => contains c y = false) l ->
  splitc c (x ++ tails c l) = x :: l.
Proof.
  intros Hx Hl. unfold splitc. rewrite (split2_noc c x Hx). rewrite (split2_tails c l Hl). simpl.
  now rewrite sapp_nil_r.
Qed.

Lemma split2_join c : forall s, fst (split2 c s) ++ tails c (snd (split2 c s)) = s.
Proof.
  induction s as [|a s IH]; [reflexivity|]. simpl.
  destruct (split2 c s) as [h t] eqn:E. simpl in IH.
  destruct (Ascii.eqb a c) eqn:Ea; simpl.
  - apply Ascii.eqb_eq in Ea. subst a. now rewrite IH.
  - now rewrite IH.
Qed.

Lemma joinc_splitc c s : joinc c (splitc c s) = s.
Proof. unfold splitc. pose proof (split2_join c s) as H. destruct (split2 c s) as [h t]. exact H. Qed.

Lemma split2_noc_pieces c : forall s,
  contains c (fst (split2 c s)) = false /\ Forall (fun x => contains c x = false) (snd (split2 c s)).
Proof.
  induction s as [|a s [IH1 IH2]]; simpl; [split; [reflexivity|constructor]|].
  destruct (split2 c s) as [h t]. simpl in *.
  destruct (Ascii.eqb a c) eqn:Ea; simpl.
  - split; [reflexivity|]. constructor; assumption.
  - rewrite Ea. simpl. split; assumption.
Qed.

Lemma splitc_shape c s : exists x l, splitc c s = x :: l /\ s = x ++ tails c l /\
  contains c x = false /\ Forall (fun y => contains c y = false) l.
Proof.
  unfold splitc. pose proof (split2_join c s) as H. pose proof (split2_noc_pieces c s) as [H1 H2].
  destruct (split2 c s) as [h t]. simpl in *. exists h, t. repeat split; auto.
Qed.

Lemma tails_app c a b : tails c (a ++ b)%list = tails c a ++ tails c b.
Proof.
  induction a as [|x a IH]; simpl; [reflexivity|]. rewrite IH. now rewrite sapp_assoc.
Qed.

Lemma contains_tails c d l : Ascii.eqb c d = false -> Forall (fun x => contains d x = false) l ->
  contains d (tails c l) = false.
Proof.
  intros Hcd. induction l as [|x l IH]; intro H; [reflexivity|].
  inversion H; subst. simpl. rewrite Hcd. simpl. rewrite contains_app. rewrite H2. simpl. auto.
Qed.

Lemma slen_app a b : String.length (a ++ b) = String.length a + String.length b.
Proof. induction a as [|x a IH]; simpl; [reflexivity|]. now rewrite IH. Qed.

Lemma count_char_app c a b : count_char c (a ++ b) = count_char c a + count_char c b.
Proof. induction a as [|x a IH]; simpl; [reflexivity|]. rewrite IH. lia. Qed.

Lemma count_char_0 c s : contains c s = false -> count_char c s = 0.
Proof.
  induction s as [|a s IH]; simpl; [reflexivity|]. intro H. apply orb_false_iff in H as [Ha Hs].
  rewrite Ha. simpl. auto.
Qed.

(* ================================================================ the regex the code builds for a class template *)
Definition item (s : seg) : rx := match s with SLit l => RLit l | SStar => RSeg | SDstar => RAny end.
Fixpoint items_tail (l : list seg) : list rx :=
  match l with
  | [] => []
  | SDstar :: r => ROptAny :: items_tail r
  | s :: r => RSlash :: item s :: items_tail r
  end.
Definition items_first (l : list seg) : list rx :=
  match l with [] => [] | s :: r => item s :: items_tail r end.
Definition group_items (t : tmpl) : list rx := (ROpen (t_key t) :: items_first (t_sub t) ++ [RClose])%list.
Definition rx_of (t : tmpl) : list rx :=
  match t_pre t with
  | [] => (group_items t ++ items_tail (t_post t))%list
  | _ => (items_first (t_pre t) ++ RSlash :: group_items t ++ items_tail (t_post t))%list
  end.

(* ================================================================ semantics: regex matcher = segment matcher *)
Lemma push_nil st : push st "" = st.
Proof. destruct st; simpl; try reflexivity. now rewrite sapp_nil_r. Qed.
Lemma push_push st a b : push (push st a) b = push st (a ++ b).
Proof. destruct st; simpl; try reflexivity. now rewrite sapp_assoc. Qed.

Lemma lit_match_plain : forall l, sall lit_char l = true -> forall s,
  lit_match l s = match strip_prefix l s with Some r => Some (l, r) | None => None end.
Proof. reflexivity. Qed.

Definition needs_slash (r : list rx) : Prop :=
  forall st c s, Ascii.eqb c slash = false -> Ascii.eqb c nl = false -> rmatch r st (String c s) = None.

Lemma ns_nil : needs_slash [].
Proof. intros st c s H1 H2. simpl. destruct s; [now rewrite H2|reflexivity]. Qed.
Lemma ns_slash r : needs_slash (RSlash :: r).
Proof. intros st c s H1 H2. simpl. now rewrite H1. Qed.
Lemma ns_optany r : needs_slash r -> needs_slash (ROptAny :: r).
Proof. intros H st c s H1 H2. simpl. rewrite H1. now apply H. Qed.
Lemma ns_close r : needs_slash r -> needs_slash (RClose :: r).
Proof. intros H st c s H1 H2. simpl. destruct st; try reflexivity. now apply H. Qed.
Lemma ns_tail l : forall rest, needs_slash rest -> needs_slash (items_tail l ++ rest)%list.
Proof.
  induction l as [|s l IH]; intros rest H; [exact H|].
  destruct s; simpl; try apply ns_slash. apply ns_optany. now apply IH.
Qed.

Definition tl_ok (T : string) : Prop := T = "" \/ exists T', T = String slash T'.
Lemma tl_ok_tails l : tl_ok (tails slash l).
Proof. destruct l; [now left|right; eexists; reflexivity]. Qed.

Lemma greedy_seg {R} (k : cst -> string -> option R) :
  (forall st c s, Ascii.eqb c slash = false -> Ascii.eqb c nl = false -> k st (String c s) = None) ->
  forall x st T, contains slash x = false -> contains nl x = false -> tl_ok T ->
  greedy not_slash k st (x ++ T) = k (push st x) T.
Proof.
  intros Hk. induction x as [|a x IH]; intros st T Hs Hn HT.
  - simpl. rewrite push_nil. destruct HT as [->|[T' ->]]; reflexivity.
  - simpl in Hs, Hn. apply orb_false_iff in Hs as [Has Hs]. apply orb_false_iff in Hn as [Han Hn].
    simpl. unfold not_slash at 1. rewrite Has. simpl.
    rewrite (IH (push st (s1 a)) T Hs Hn HT). rewrite push_push. simpl.
    destruct (k (push st (String a x)) T) eqn:E; [reflexivity|].
    now apply Hk.
Qed.

Lemma greedy_all {R} ok (k : cst -> string -> option R) r : forall x st,
  sall ok x = true -> k (push st x) "" = Some r -> greedy ok k st x = Some r.
Proof.
  induction x as [|a x IH]; intros st Hx Hk.
  - simpl. now rewrite push_nil in Hk.
  - simpl in Hx. apply andb_true_iff in Hx as [Ha Hx]. simpl. rewrite Ha.
    rewrite (IH (push st (s1 a)) Hx); [reflexivity|]. now rewrite push_push.
Qed.

Lemma nl_free_sall x : contains nl x = false -> sall not_nl x = true.
Proof.
  induction x as [|a x IH]; simpl; intro H; [reflexivity|].
  apply orb_false_iff in H as [Ha Hx]. unfold not_nl at 1. rewrite Ha. simpl. auto.
Qed.

Lemma prefix_split : forall l x r T, contains slash l = false -> tl_ok T ->
  l ++ r = x ++ T -> (exists y, x = l ++ y /\ r = y ++ T) \/ (exists a l1 l2, l = l1 ++ String a l2 /\ x = l1 /\ (T = "" \/ a = slash)).
Proof.
  induction l as [|a l IH]; intros x r T Hl HT E.
  - left. exists x. split; [reflexivity|exact E].
  - simpl in Hl. apply orb_false_iff in Hl as [Ha Hl].
    destruct x as [|b x].
    + right. exists a, "", l. repeat split.
      destruct HT as [->|[T' ->]]; [now left|]. right. simpl in E. now inversion E.
    + simpl in E. inversion E as [[Eab E']]. subst b.
      destruct (IH x r T Hl HT E') as [(y & -> & ->)|(a' & l1 & l2 & -> & -> & H)].
      * left. exists y. split; reflexivity.
      * right. exists a', (String a l1), l2. repeat split; auto.
Qed.

Lemma head_lit l rest st x T :
  sall lit_char l = true -> contains slash x = false -> contains nl x = false -> tl_ok T -> needs_slash rest ->
  rmatch (RLit l :: rest) st (x ++ T) = if String.eqb l x then rmatch rest (push st x) T else None.
Proof.
  intros Hl Hx Hn HT Hr. cbn [rmatch]. rewrite (lit_match_plain l Hl).
  assert (Hls : contains slash l = false) by (apply lit_no; auto).
  destruct (strip_prefix l (x ++ T)) as [r|] eqn:E.
  - apply strip_prefix_sound in E. symmetry in E.
    destruct (prefix_split l x r T Hls HT E) as [(y & -> & ->)|(a & l1 & l2 & -> & -> & H)].
    + destruct y as [|a y].
      * rewrite sapp_nil_r. rewrite String.eqb_refl. reflexivity.
      * assert (Hne : String.eqb l (l ++ String a y) = false).
        { apply String.eqb_neq. intro C. assert (L : String.length l = String.length (l ++ String a y)) by now rewrite <- C.
          rewrite slen_app in L. simpl in L. lia. }
        rewrite Hne. simpl.
        rewrite contains_app in Hx, Hn. apply orb_false_iff in Hx as [_ Hx]. apply orb_false_iff in Hn as [_ Hn].
        simpl in Hx, Hn. apply orb_false_iff in Hx as [Hx _]. apply orb_false_iff in Hn as [Hn _].
        now apply Hr.
    + (* the literal is longer than the segment: impossible, it would contain a slash or run past the end *)
      exfalso. destruct H as [->| ->].
      * rewrite sapp_nil_r in E. rewrite sapp_assoc in E.
        assert (L : String.length (l1 ++ String a l2 ++ r) = String.length l1) by now rewrite E.
        rewrite slen_app in L. simpl in L. lia.
      * rewrite contains_app in Hls. apply orb_false_iff in Hls as [_ Hls]. simpl in Hls.
        discriminate Hls.
  - destruct (String.eqb l x) eqn:Elx; [|reflexivity].
    apply String.eqb_eq in Elx. subst x. rewrite strip_prefix_app in E. discriminate.
Qed.

Lemma head_star rest st x T :
  contains slash x = false -> contains nl x = false -> tl_ok T -> needs_slash rest ->
  rmatch (RSeg :: rest) st (x ++ T) = if is_empty x then None else rmatch rest (push st x) T.
Proof.
  intros Hx Hn HT Hr. destruct x as [|a x].
  - simpl. destruct HT as [->|[T' ->]]; reflexivity.
  - simpl in Hx, Hn. apply orb_false_iff in Hx as [Ha Hx]. apply orb_false_iff in Hn as [Hna Hn].
    cbn [rmatch append is_empty]. unfold not_slash at 1. rewrite Ha. cbn [negb].
    rewrite (greedy_seg (rmatch rest) Hr x (push st (s1 a)) T Hx Hn HT). now rewrite push_push.
Qed.

(* one-to-one matching of star-free-of-double-star segments against the first value segments *)
Definition seg_matches (s : seg) (v : string) : bool :=
  match s with SLit l => String.eqb l v | SStar => negb (is_empty v) | SDstar => false end.
Fixpoint pmatch (segs : list seg) (vs : list string) : option (list string * list string) :=
  match segs with
  | [] => Some ([], vs)
  | s :: segs' =>
      match vs with
      | [] => None
      | v :: vs' => if seg_matches s v then
                      match pmatch segs' vs' with Some (m, r) => Some (v :: m, r) | None => None end
                    else None
      end
  end.

Definition seg_str (x : string) : Prop := contains slash x = false /\ contains nl x = false.

Lemma head_item s rest st x T :
  seg_ok s = true -> is_dstar s = false -> seg_str x -> tl_ok T -> needs_slash rest ->
  rmatch (item s :: rest) st (x ++ T) = if seg_matches s x then rmatch rest (push st x) T else None.
Proof.
  intros Hok Hd [Hx Hn] HT Hr. destruct s as [l| |]; simpl in Hd; try discriminate.
  - now apply head_lit.
  - simpl item. rewrite head_star; auto. simpl. now destruct (is_empty x).
Qed.

Lemma rmatch_slash r st s : rmatch (RSlash :: r) st (String slash s) = rmatch r (push st "/") s.
Proof. reflexivity. Qed.

Lemma tail_nodstar : forall segs, forallb seg_ok segs = true -> no_dstar segs = true ->
  forall rest st vs, needs_slash rest -> Forall seg_str vs ->
  rmatch (items_tail segs ++ rest)%list st (tails slash vs) =
  match pmatch segs vs with
  | Some (m, r) => rmatch rest (push st (tails slash m)) (tails slash r)
  | None => None
  end.
Proof.
  induction segs as [|s segs IH]; intros Hok Hnd rest st vs Hr Hvs.
  - simpl. now rewrite push_nil.
  - simpl in Hok, Hnd. apply andb_true_iff in Hok as [Hs Hok]. apply andb_true_iff in Hnd as [Hd Hnd].
    apply negb_true_iff in Hd.
    assert (E : (items_tail (s :: segs) ++ rest = RSlash :: item s :: (items_tail segs ++ rest))%list).
    { destruct s; simpl in Hd; try discriminate; reflexivity. }
    rewrite E. destruct vs as [|v vs]; [reflexivity|].
    inversion Hvs as [|? ? Hv Hvs']; subst.
    cbn [tails pmatch]. rewrite rmatch_slash.
    rewrite (head_item s _ _ v (tails slash vs) Hs Hd Hv (tl_ok_tails vs) (ns_tail segs rest Hr)).
    destruct (seg_matches s v); [|reflexivity].
    rewrite (IH Hok Hnd rest _ vs Hr Hvs').
    destruct (pmatch segs vs) as [[m r]|]; [|reflexivity].
    rewrite !push_push. reflexivity.
Qed.

Lemma first_nodstar s segs rest st x vs :
  forallb seg_ok (s :: segs) = true -> no_dstar (s :: segs) = true ->
  needs_slash rest -> seg_str x -> Forall seg_str vs ->
  rmatch (items_first (s :: segs) ++ rest)%list st (x ++ tails slash vs) =
  match pmatch (s :: segs) (x :: vs) with
  | Some (m, r) => rmatch rest (push st (joinc slash m)) (tails slash r)
  | None => None
  end.
Proof.
  intros Hok Hnd Hr Hx Hvs. simpl in Hok, Hnd.
  apply andb_true_iff in Hok as [Hs Hok]. apply andb_true_iff in Hnd as [Hd Hnd]. apply negb_true_iff in Hd.
  cbn [items_first app pmatch].
  rewrite (head_item s _ _ x (tails slash vs) Hs Hd Hx (tl_ok_tails vs) (ns_tail segs rest Hr)).
  destruct (seg_matches s x); [|reflexivity].
  rewrite (tail_nodstar segs Hok Hnd rest _ vs Hr Hvs).
  destruct (pmatch segs vs) as [[m r]|]; [|reflexivity].
  rewrite push_push. reflexivity.
Qed.

(* ---- the segment matcher on the same decomposition ---- *)
Lemma amatch_dstar_unfold c p' vs :
  amatch ((SDstar, c) :: p') vs =
  match amatch p' vs with
  | Some cap => Some cap
  | None => match vs with [] => None | v :: vs' => option_map (keep c v) (amatch ((SDstar, c) :: p') vs') end
  end.
Proof. destruct vs; reflexivity. Qed.

Lemma amatch_dstar_end c : forall vs, amatch [(SDstar, c)] vs = Some (if c then vs else []).
Proof.
  induction vs as [|v vs IH]; rewrite amatch_dstar_unfold.
  - simpl. now destruct c.
  - simpl amatch at 1. rewrite IH. simpl. now destruct c.
Qed.

Lemma amatch_nodstar c : forall segs, no_dstar segs = true -> forall fl vs,
  amatch (map (fun s => (s, c)) segs ++ fl)%list vs =
  match pmatch segs vs with
  | Some (m, r) => option_map (fun cap => ((if c then m else []) ++ cap)%list) (amatch fl r)
  | None => None
  end.
Proof.
  induction segs as [|s segs IH]; intros Hnd fl vs.
  - simpl. destruct (amatch fl vs); simpl; [|reflexivity]. now destruct c.
  - simpl in Hnd. apply andb_true_iff in Hnd as [Hd Hnd]. apply negb_true_iff in Hd.
    destruct s as [l| |]; simpl in Hd; try discriminate; cbn [map app amatch pmatch seg_matches];
      (destruct vs as [|v vs]; [reflexivity|]).
    + destruct (String.eqb l v); [|reflexivity]. rewrite (IH Hnd fl vs).
      destruct (pmatch segs vs) as [[m r]|]; [|reflexivity].
      destruct (amatch fl r); simpl; [|reflexivity]. now destruct c.
    + destruct (is_empty v); [reflexivity|]. cbn [negb]. rewrite (IH Hnd fl vs).
      destruct (pmatch segs vs) as [[m r]|]; [|reflexivity].
      destruct (amatch fl r); simpl; [|reflexivity]. now destruct c.
Qed.

Lemma pmatch_suffix : forall segs vs m r, pmatch segs vs = Some (m, r) -> vs = (m ++ r)%list.
Proof.
  induction segs as [|s segs IH]; intros vs m r H; simpl in H.
  - inversion H; subst. reflexivity.
  - destruct vs as [|v vs]; [discriminate|]. destruct (seg_matches s v); [|discriminate].
    destruct (pmatch segs vs) as [[m' r']|] eqn:E; [|discriminate]. inversion H; subst.
    simpl. f_equal. now apply IH.
Qed.

Lemma pmatch_rest_ok segs vs m r : pmatch segs vs = Some (m, r) -> Forall seg_str vs -> Forall seg_str r.
Proof.
  intros H Hv. apply pmatch_suffix in H. subst vs. apply Forall_app in Hv. tauto.
Qed.

Lemma dstar_last_cases : forall l, dstar_last l = true ->
  no_dstar l = true \/ exists l', l = (l' ++ [SDstar])%list /\ no_dstar l' = true.
Proof.
  induction l as [|s l IH]; intro H; [now left|].
  destruct l as [|s2 l].
  - destruct s; [left; reflexivity|left; reflexivity|right; exists []; split; reflexivity].
  - change (negb (is_dstar s) && dstar_last (s2 :: l) = true) in H.
    apply andb_true_iff in H as [Hs H]. destruct (IH H) as [Hn|(l' & E & Hn)].
    + left. simpl. simpl in Hn. now rewrite Hs, Hn.
    + right. exists (s :: l'). split; [now rewrite E|]. simpl. now rewrite Hs, Hn.
Qed.

Lemma items_tail_app : forall a b, items_tail (a ++ b) = (items_tail a ++ items_tail b)%list.
Proof.
  induction a as [|s a IH]; intro b; [reflexivity|].
  destruct s; simpl; now rewrite IH.
Qed.

Lemma seg_strs_nl vs : Forall seg_str vs -> contains nl (tails slash vs) = false.
Proof.
  intro H. apply contains_tails; [reflexivity|]. eapply Forall_impl; [|exact H]. intros a [_ Ha]. exact Ha.
Qed.

Lemma optany_end rest st vs r : Forall seg_str vs ->
  rmatch rest (push st (tails slash vs)) "" = Some r -> rmatch (ROptAny :: rest) st (tails slash vs) = Some r.
Proof.
  intros Hvs H. destruct vs as [|v vs].
  - simpl in *. now rewrite push_nil in H.
  - pose proof (seg_strs_nl _ Hvs) as Hn. cbn [tails] in *. cbn [rmatch]. unfold slash at 1. rewrite Ascii.eqb_refl.
    simpl in Hn. rewrite (greedy_all not_nl (rmatch rest) r); [reflexivity| |].
    + now apply nl_free_sall.
    + now rewrite push_push.
Qed.

Lemma any_end rest st v r : contains nl v = false ->
  rmatch rest (push st v) "" = Some r -> rmatch (RAny :: rest) st v = Some r.
Proof. intros Hn H. cbn [rmatch]. apply greedy_all; [now apply nl_free_sall|exact H]. Qed.

Lemma post_match post cap vs :
  forallb seg_ok post = true -> dstar_last post = true -> Forall seg_str vs ->
  rmatch (items_tail post) (CAfter cap) (tails slash vs) =
  match amatch (map (fun s => (s, false)) post) vs with Some _ => Some (Some cap) | None => None end.
Proof.
  intros Hok Hdl Hvs. destruct (dstar_last_cases post Hdl) as [Hnd|(post' & -> & Hnd)].
  - rewrite <- (app_nil_r (items_tail post)). rewrite (tail_nodstar post Hok Hnd [] _ vs ns_nil Hvs).
    rewrite <- (app_nil_r (map _ post)). rewrite (amatch_nodstar false post Hnd [] vs).
    destruct (pmatch post vs) as [[m r]|]; [|reflexivity].
    destruct r as [|y r]; [reflexivity|]. cbn. destruct (y ++ tails slash r); reflexivity.
  - rewrite forallb_app in Hok. apply andb_true_iff in Hok as [Hok _].
    rewrite items_tail_app. simpl items_tail at 2.
    rewrite (tail_nodstar post' Hok Hnd [ROptAny] _ vs (ns_optany _ ns_nil) Hvs).
    rewrite map_app. simpl map at 2. rewrite (amatch_nodstar false post' Hnd _ vs).
    destruct (pmatch post' vs) as [[m r]|] eqn:E; [|reflexivity].
    rewrite amatch_dstar_end. simpl option_map.
    apply optany_end; [eapply pmatch_rest_ok; eauto|]. reflexivity.
Qed.

Lemma amatch_post_nil post vs c : dstar_last post = true ->
  amatch (map (fun s => (s, false)) post) vs = Some c -> c = [].
Proof.
  intros Hdl H. destruct (dstar_last_cases post Hdl) as [Hnd|(post' & -> & Hnd)].
  - rewrite <- (app_nil_r (map _ post)) in H. rewrite (amatch_nodstar false post Hnd [] vs) in H.
    destruct (pmatch post vs) as [[m r]|]; [|discriminate].
    destruct r; simpl in H; [|discriminate]. now inversion H.
  - rewrite map_app in H. simpl map at 2 in H. rewrite (amatch_nodstar false post' Hnd _ vs) in H.
    destruct (pmatch post' vs) as [[m r]|]; [|discriminate].
    rewrite amatch_dstar_end in H. simpl in H. now inversion H.
Qed.

Lemma joinc_app c m r : m <> [] -> joinc c (m ++ r)%list = joinc c m ++ tails c r.
Proof.
  destruct m as [|x m]; [congruence|]. intros _. simpl. rewrite tails_app. now rewrite sapp_assoc.
Qed.

Lemma ns_post post : needs_slash (RClose :: items_tail post).
Proof. apply ns_close. rewrite <- (app_nil_r (items_tail post)). apply ns_tail. apply ns_nil. Qed.

Lemma sub_match sub post x vs :
  sub <> [] -> forallb seg_ok sub = true -> forallb seg_ok post = true ->
  (match post with [] => dstar_last sub | _ => no_dstar sub && dstar_last post end) = true ->
  seg_str x -> Forall seg_str vs ->
  rmatch (items_first sub ++ RClose :: items_tail post)%list (CIn "") (x ++ tails slash vs) =
  match amatch (map (fun s => (s, true)) sub ++ map (fun s => (s, false)) post)%list (x :: vs) with
  | Some cap => Some (Some (joinc slash cap))
  | None => None
  end.
Proof.
  intros Hne Hoks Hokp Hcls Hx Hvs.
  assert (Hcase : (no_dstar sub = true /\ dstar_last post = true) \/
                  (post = [] /\ exists sub', sub = (sub' ++ [SDstar])%list /\ no_dstar sub' = true)).
  { destruct post as [|p post].
    - destruct (dstar_last_cases sub Hcls) as [H|H]; [left; split; [exact H|reflexivity]|right; split; [reflexivity|exact H]].
    - apply andb_true_iff in Hcls. now left. }
  destruct Hcase as [[Hnd Hdl]|(-> & sub' & -> & Hnd)].
  - destruct sub as [|s segs]; [congruence|].
    rewrite (first_nodstar s segs _ _ x vs Hoks Hnd (ns_post post) Hx Hvs).
    rewrite (amatch_nodstar true (s :: segs) Hnd _ (x :: vs)).
    destruct (pmatch (s :: segs) (x :: vs)) as [[m r]|] eqn:E; [|reflexivity].
    cbn [rmatch push]. simpl append.
    rewrite (post_match post _ r Hokp Hdl (pmatch_rest_ok _ _ _ _ E (Forall_cons _ Hx Hvs))).
    destruct (amatch (map (fun s0 => (s0, false)) post) r) as [c|] eqn:Ea; [|reflexivity].
    apply amatch_post_nil in Ea; [|exact Hdl]. subst c. simpl. now rewrite app_nil_r.
  - rewrite forallb_app in Hoks. apply andb_true_iff in Hoks as [Hoks _].
    destruct sub' as [|s segs].
    + cbn [app map items_first items_tail item]. rewrite amatch_dstar_end.
      apply any_end.
      * rewrite contains_app. destruct Hx as [_ Hx]. rewrite Hx. simpl. now apply seg_strs_nl.
      * reflexivity.
    + assert (E1 : (items_first ((s :: segs) ++ [SDstar]) ++ RClose :: items_tail [] =
                    items_first (s :: segs) ++ [ROptAny; RClose])%list).
      { simpl. rewrite items_tail_app. simpl. now rewrite <- app_assoc. }
      rewrite E1.
      rewrite (first_nodstar s segs _ _ x vs Hoks Hnd (ns_optany _ (ns_close _ ns_nil)) Hx Hvs).
      rewrite app_nil_r. rewrite map_app. simpl map at 2.
      rewrite (amatch_nodstar true (s :: segs) Hnd _ (x :: vs)).
      destruct (pmatch (s :: segs) (x :: vs)) as [[m r]|] eqn:E; [|reflexivity].
      rewrite amatch_dstar_end. simpl option_map.
      assert (Hm : m <> []).
      { simpl in E. destruct (seg_matches s x); [|discriminate].
        destruct (pmatch segs vs) as [[m' r']|]; [|discriminate]. inversion E. discriminate. }
      cbv iota beta. rewrite (joinc_app slash m r Hm).
      apply optany_end; [eapply pmatch_rest_ok; [exact E|now constructor]|]. reflexivity.
Qed.

(* the pair the emitted guard lets through *)
Definition contrib_of (k : string) (m : option (option string)) : option (string * string) :=
  match m with
  | Some (Some cap) => if is_empty cap then None else Some (k, cap)
  | _ => None
  end.

Lemma seg_str_pieces x l : contains slash x = false -> Forall (fun y => contains slash y = false) l ->
  contains nl (x ++ tails slash l) = false -> seg_str x /\ Forall seg_str l.
Proof.
  intros Hx Hl Hn. rewrite contains_app in Hn. apply orb_false_iff in Hn as [Hnx Hnl].
  split; [split; assumption|].
  induction l as [|y l IH]; [constructor|].
  inversion Hl; subst. simpl in Hnl.
  rewrite contains_app in Hnl. apply orb_false_iff in Hnl as [Hny Hnl].
  constructor; [split; assumption|]. now apply IH.
Qed.

Lemma sem_equiv t v : aip_class t = true -> nl_free v = true ->
  contrib_of (t_key t) (rx_match (rx_of t) v) = aip_contribution t v.
Proof.
  intros Hc Hn. unfold aip_class in Hc.
  repeat (apply andb_true_iff in Hc as [Hc ?]).
  rename H into Hshape, H0 into Hpre_nd, H1 into Hshort, H2 into Hne, H3 into Hkey, H4 into Hokpost, H5 into Hoksub.
  rename Hc into Hokpre.
  assert (Hsub : t_sub t <> []) by (destruct (t_sub t); [discriminate|discriminate]).
  unfold nl_free in Hn. apply negb_true_iff in Hn.
  destruct (splitc_shape slash v) as (x & l & Hs & Hv & Hx & Hl).
  rewrite Hv in Hn. destruct (seg_str_pieces x l Hx Hl Hn) as [Hxs Hls].
  unfold aip_contribution, rx_match, rx_of, flat, group_items. rewrite Hs. rewrite Hv.
  destruct (t_pre t) as [|p ps] eqn:Epre.
  - cbn [map app]. cbn [rmatch]. rewrite <- app_assoc. cbn [app].
    rewrite (sub_match (t_sub t) (t_post t) x l Hsub Hoksub Hokpost Hshape Hxs Hls).
    destruct (amatch _ (x :: l)); reflexivity.
  - rewrite (first_nodstar p ps _ _ x l Hokpre Hpre_nd (ns_slash _) Hxs Hls).
    rewrite (amatch_nodstar false (p :: ps) Hpre_nd _ (x :: l)).
    destruct (pmatch (p :: ps) (x :: l)) as [[m r]|] eqn:E; [|reflexivity].
    cbn [push]. destruct r as [|y r].
    + (* nothing is left for the named segment: the regex wants a slash; the template can only go on with a lone double star *)
      cbn [tails rmatch contrib_of].
      destruct (t_sub t) as [|s sub'] eqn:Es; [congruence|].
      destruct s as [l0| |]; try reflexivity.
      destruct (t_post t) as [|q post'] eqn:Ep.
      * destruct sub' as [|s2 sub'']; [|discriminate Hshape].
        cbn [map app]. rewrite amatch_dstar_end. reflexivity.
      * simpl in Hshape. discriminate Hshape.
    + pose proof (pmatch_rest_ok _ _ _ _ E (Forall_cons _ Hxs Hls)) as Hr.
      inversion Hr as [|? ? Hy Hr']; subst.
      cbn [tails]. rewrite rmatch_slash. cbn [push app]. cbn [rmatch]. rewrite <- app_assoc. cbn [app].
      rewrite (sub_match (t_sub t) (t_post t) y r Hsub Hoksub Hokpost Hshape Hy Hr').
      destruct (amatch _ (y :: r)) as [c|]; [|reflexivity]. simpl. reflexivity.
Qed.

(* ================================================================ the code's translation of a class template *)
Definition single (s : seg) : list rx := [item s].

Lemma has_pair_no a b : forall l, contains a l = false -> has_pair a b l = false.
Proof.
  induction l as [|x l IH]; intro H; [reflexivity|].
  simpl in H. apply orb_false_iff in H as [Hx Hl].
  destruct l as [|y l]; [reflexivity|].
  change (has_pair a b (String x (String y l))) with ((Ascii.eqb x a && Ascii.eqb y b) || has_pair a b (String y l)).
  rewrite Hx. simpl. now apply IH.
Qed.

Lemma conv_plain rec s : seg_ok s = true -> convert_segment rec (pseg s) = Ok (single s).
Proof.
  destruct s as [l| |]; intro H; [|reflexivity|reflexivity].
  simpl in H. unfold convert_segment, pseg.
  rewrite (lit_no lbrace l H) by tauto.
  rewrite (has_pair_no star star l) by (apply lit_no; tauto).
  rewrite (lit_no star l H) by tauto. reflexivity.
Qed.

Lemma map_res_plain rec : forall l, forallb seg_ok l = true ->
  map_res (convert_segment rec) (map pseg l) = Ok (map single l).
Proof.
  induction l as [|s l IH]; intro H; [reflexivity|].
  simpl in H. apply andb_true_iff in H as [Hs Hl]. simpl. rewrite (conv_plain rec s Hs). now rewrite (IH Hl).
Qed.

Lemma map_res_app {A B} (f : A -> res B) : forall a b ra rb,
  map_res f a = Ok ra -> map_res f b = Ok rb -> map_res f (a ++ b)%list = Ok (ra ++ rb)%list.
Proof.
  induction a as [|x a IH]; intros b ra rb Ha Hb; simpl in *.
  - inversion Ha; subst. exact Hb.
  - destruct (f x) as [y|e]; [|discriminate]. destruct (map_res f a) as [ys|e] eqn:E; [|discriminate].
    inversion Ha; subst. now rewrite (IH b ys rb eq_refl Hb).
Qed.

Lemma merge_tail_plain : forall l, flat_map merge_piece (map single l) = items_tail l.
Proof.
  induction l as [|s l IH]; [reflexivity|]. simpl. rewrite IH. destruct s; reflexivity.
Qed.

Lemma pseg_no c s : seg_ok s = true -> (c = slash \/ c = lbrace \/ c = rbrace \/ c = eqc) -> contains c (pseg s) = false.
Proof.
  intros H Hc. destruct s as [l| |].
  - apply lit_no; [exact H|]. tauto.
  - destruct Hc as [->|[->|[->| ->]]]; reflexivity.
  - destruct Hc as [->|[->|[->| ->]]]; reflexivity.
Qed.

Lemma psegs_no c l : forallb seg_ok l = true -> (c = slash \/ c = lbrace \/ c = rbrace \/ c = eqc) ->
  Forall (fun y => contains c y = false) (map pseg l).
Proof.
  intros H Hc. induction l as [|s l IH]; [constructor|].
  simpl in H. apply andb_true_iff in H as [Hs Hl]. constructor; [now apply pseg_no|now apply IH].
Qed.

Lemma contains_joinc c d l : Ascii.eqb c d = false -> Forall (fun x => contains d x = false) l ->
  contains d (joinc c l) = false.
Proof.
  intros Hcd H. destruct l as [|x l]; [reflexivity|]. inversion H; subst. simpl.
  rewrite contains_app. rewrite H2. simpl. now apply contains_tails.
Qed.

Lemma break_at_none f : forall l, existsb f l = false -> break_at f l = (l, []).
Proof.
  induction l as [|x l IH]; intro H; [reflexivity|].
  simpl in H. apply orb_false_iff in H as [Hx Hl]. simpl. rewrite Hx. now rewrite (IH Hl).
Qed.

Lemma break_at_hit f : forall a x r, existsb f a = false -> f x = true -> break_at f (a ++ x :: r)%list = (a, x :: r).
Proof.
  induction a as [|y a IH]; intros x r Ha Hx; simpl.
  - now rewrite Hx.
  - simpl in Ha. apply orb_false_iff in Ha as [Hy Ha]. rewrite Hy. now rewrite (IH x r Ha Hx).
Qed.

Lemma no_brace_psegs l : forallb seg_ok l = true -> existsb has_brace (map pseg l) = false.
Proof.
  induction l as [|s l IH]; intro H; [reflexivity|].
  simpl in H. apply andb_true_iff in H as [Hs Hl]. simpl. unfold has_brace at 1.
  rewrite (pseg_no lbrace s Hs) by tauto. rewrite (pseg_no rbrace s Hs) by tauto. simpl. now apply IH.
Qed.

Lemma split_plain l : forallb seg_ok l = true -> split_into_segments (map pseg l) = Ok (map pseg l).
Proof.
  intro H. unfold split_into_segments. now rewrite (break_at_none has_brace _ (no_brace_psegs l H)).
Qed.

Lemma convert_S f t : convert (S f) t =
  if Nat.ltb 1 (count_char lbrace t) then Err EValue else
  match split_into_segments (splitc slash t) with
  | Err e => Err e
  | Ok segs => match map_res (convert_segment (convert f)) segs with
               | Err e => Err e
               | Ok rs => Ok (merge_rx rs)
               end
  end.
Proof. reflexivity. Qed.

Lemma convert_plain f s segs : forallb seg_ok (s :: segs) = true ->
  convert (S f) (joinc slash (map pseg (s :: segs))) = Ok (items_first (s :: segs)).
Proof.
  intro H. rewrite convert_S.
  assert (Hb : contains lbrace (joinc slash (map pseg (s :: segs))) = false).
  { apply contains_joinc; [reflexivity|]. apply psegs_no; [exact H|tauto]. }
  rewrite (count_char_0 _ _ Hb). cbn [Nat.ltb Nat.leb].
  assert (Hs : splitc slash (joinc slash (map pseg (s :: segs))) = map pseg (s :: segs)).
  { pose proof (psegs_no slash (s :: segs) H) as Hf. cbn [map joinc].
    cbn [map] in Hf. assert (Hf' := Hf (or_introl eq_refl)). inversion Hf'; subst. now apply splitc_joinc. }
  rewrite Hs. rewrite (split_plain _ H). rewrite (map_res_plain _ _ H).
  cbn [map merge_rx items_first]. rewrite merge_tail_plain. reflexivity.
Qed.

Lemma contains_mid c a b : contains c (a ++ String c b) = true.
Proof. rewrite contains_app. simpl. rewrite Ascii.eqb_refl. simpl. now rewrite orb_true_r. Qed.

Lemma drop_last_snoc c : forall x, drop_last (x ++ s1 c) = x.
Proof.
  induction x as [|a x IH]; [reflexivity|].
  simpl. rewrite IH. destruct x; reflexivity.
Qed.

Lemma strip_ends_braces x : strip_ends (String lbrace (x ++ s1 rbrace)) = x.
Proof. unfold strip_ends. simpl. apply drop_last_snoc. Qed.

Lemma contains_head c y : contains c (String c y) = true.
Proof. simpl. now rewrite Ascii.eqb_refl. Qed.
Lemma contains_last c a x : contains c (String a (x ++ s1 c)) = true.
Proof. change (String a (x ++ s1 c)) with (String a x ++ String c ""). apply contains_mid. Qed.

Lemma conv_named f t : aip_class t = true ->
  convert_segment (convert (S f)) (named_str t) = Ok (group_items t).
Proof.
  intro Hc. unfold aip_class in Hc. repeat (apply andb_true_iff in Hc as [Hc ?]).
  rename H into Hshape, H0 into Hpre_nd, H1 into Hshort, H2 into Hne, H3 into Hkey, H4 into Hokpost, H5 into Hoksub.
  pose proof (is_ident_word _ Hkey) as Hw.
  unfold named_str, group_items. destruct (t_short t).
  - destruct (t_sub t) as [|[| |] [|]]; try discriminate Hshort.
    change ("{" ++ t_key t ++ "}") with (String lbrace (t_key t ++ s1 rbrace)).
    unfold convert_segment. rewrite contains_head. rewrite contains_last. cbn [negb]. rewrite strip_ends_braces.
    rewrite (word_no eqc _ Hw) by tauto. reflexivity.
  - destruct (t_sub t) as [|s segs] eqn:Es; [discriminate Hne|].
    set (subs := joinc slash (map pseg (s :: segs))).
    assert (E : "{" ++ t_key t ++ "=" ++ subs ++ "}" = String lbrace ((t_key t ++ String eqc subs) ++ s1 rbrace)).
    { simpl. f_equal. rewrite sapp_assoc. reflexivity. }
    rewrite E. unfold convert_segment. rewrite contains_head. rewrite contains_last. cbn [negb]. rewrite strip_ends_braces.
    rewrite contains_mid. cbn [negb].
    assert (Hsub_eq : contains eqc subs = false).
    { apply contains_joinc; [reflexivity|]. apply psegs_no; [exact Hoksub|tauto]. }
    assert (Hsp : splitc eqc (t_key t ++ String eqc subs) = [t_key t; subs]).
    { replace (String eqc subs) with (tails eqc [subs]) by (simpl; now rewrite sapp_nil_r).
      apply splitc_joinc; [apply word_no; [exact Hw|tauto]|]. constructor; [exact Hsub_eq|constructor]. }
    rewrite Hsp. unfold subs. rewrite (convert_plain f s segs Hoksub). reflexivity.
Qed.

Lemma tails_flatten c : forall A L B, L <> [] -> tails c (A ++ joinc c L :: B)%list = tails c (A ++ L ++ B)%list.
Proof.
  induction A as [|a A IH]; intros L B HL.
  - destruct L as [|x L]; [congruence|]. simpl. rewrite tails_app. now rewrite !sapp_assoc.
  - simpl. now rewrite (IH L B HL).
Qed.

Lemma joinc_flatten c A L B : L <> [] -> joinc c (A ++ joinc c L :: B)%list = joinc c (A ++ L ++ B)%list.
Proof.
  intro HL. destruct A as [|a A].
  - destruct L as [|x L]; [congruence|]. simpl. rewrite tails_app. now rewrite !sapp_assoc.
  - simpl. now rewrite (tails_flatten c A L B HL).
Qed.

Lemma tails_snoc c y : forall l x, tails c (l ++ [x])%list ++ y = tails c (l ++ [(x ++ y)%string])%list.
Proof.
  induction l as [|a l IH]; intro x; simpl.
  - now rewrite !sapp_nil_r.
  - rewrite <- IH. now rewrite !sapp_assoc.
Qed.

Lemma splitc_joinc_list c l : l <> [] -> Forall (fun y => contains c y = false) l -> splitc c (joinc c l) = l.
Proof.
  destruct l as [|x l]; [congruence|]. intros _ H. inversion H; subst. now apply splitc_joinc.
Qed.

Lemma pseg_not_dotstar s : seg_ok s = true -> String.eqb (pseg s) ".*" = false.
Proof.
  destruct s as [l| |]; intro H; [|reflexivity|reflexivity].
  simpl. destruct (String.eqb l ".*") eqn:E; [|reflexivity].
  apply String.eqb_eq in E. subst l. discriminate H.
Qed.

Lemma merge_raw_tails : forall l, forallb (fun y => negb (String.eqb y ".*")) l = true ->
  sconcat (map merge_raw_piece l) = tails slash l.
Proof.
  induction l as [|y l IH]; intro H; [reflexivity|].
  simpl in H. apply andb_true_iff in H as [Hy Hl]. apply negb_true_iff in Hy.
  simpl. unfold merge_raw_piece at 1. rewrite Hy. rewrite (IH Hl). reflexivity.
Qed.

Lemma has_brace_l x y : has_brace (String lbrace x ++ y) = true.
Proof. reflexivity. Qed.
Lemma has_brace_r x : has_brace (x ++ s1 rbrace) = true.
Proof. unfold has_brace. change (x ++ s1 rbrace) with (x ++ String rbrace ""). rewrite (contains_mid rbrace). apply orb_true_r. Qed.

Lemma named_shape t : aip_class t = true ->
  (contains slash (named_str t) = false /\ has_brace (named_str t) = true) \/
  (exists X0 mids Y, named_str t = X0 ++ tails slash (map pseg mids ++ [Y])%list /\ forallb seg_ok mids = true /\
     contains slash X0 = false /\ has_brace X0 = true /\ contains slash Y = false /\ has_brace Y = true /\
     String.eqb Y ".*" = false).
Proof.
  intro Hc. unfold aip_class in Hc. repeat (apply andb_true_iff in Hc as [Hc ?]).
  rename H into Hshape, H0 into Hpre_nd, H1 into Hshort, H2 into Hne, H3 into Hkey, H4 into Hokpost, H5 into Hoksub.
  pose proof (is_ident_word _ Hkey) as Hw.
  assert (Hks : contains slash (t_key t) = false) by (apply word_no; [exact Hw|tauto]).
  unfold named_str. destruct (t_short t).
  - left. split; [|reflexivity].
    change ("{" ++ t_key t ++ "}") with (String lbrace (t_key t ++ "}")). simpl. rewrite contains_app. now rewrite Hks.
  - destruct (t_sub t) as [|s segs] eqn:Es; [discriminate Hne|].
    simpl in Hoksub. apply andb_true_iff in Hoksub as [Hs Hsegs].
    destruct segs as [|s2 segs'] eqn:Esegs.
    + left. split; [|reflexivity]. simpl. rewrite contains_app, Hks. simpl. rewrite contains_app.
      rewrite sapp_nil_r. rewrite (pseg_no slash s Hs) by tauto. reflexivity.
    + right. assert (Hnn : s2 :: segs' <> []) by discriminate.
      destruct (exists_last Hnn) as (mids & sn & Elast). rewrite Elast in *.
      rewrite forallb_app in Hsegs. apply andb_true_iff in Hsegs as [Hmids Hsn].
      simpl in Hsn. apply andb_true_iff in Hsn as [Hsn _].
      exists ("{" ++ t_key t ++ "=" ++ pseg s), mids, (pseg sn ++ "}").
      split; [|split; [exact Hmids|split; [|split; [reflexivity|split; [|split]]]]].
      * cbn [map joinc]. rewrite map_app. cbn [map].
        rewrite <- (tails_snoc slash "}" (map pseg mids) (pseg sn)).
        rewrite !sapp_assoc. reflexivity.
      * simpl. rewrite contains_app, Hks. simpl. now apply pseg_no; tauto.
      * rewrite contains_app. rewrite (pseg_no slash sn Hsn) by tauto. reflexivity.
      * apply (has_brace_r (pseg sn)).
      * destruct (String.eqb (pseg sn ++ "}") ".*") eqn:E; [|reflexivity].
        apply String.eqb_eq in E. assert (C : contains rbrace (pseg sn ++ "}") = contains rbrace ".*") by now rewrite E.
        change (pseg sn ++ "}") with (pseg sn ++ String rbrace "") in C. rewrite contains_mid in C. discriminate C.
Qed.

Lemma existsb_has_brace_false_noeq l : forallb seg_ok l = true ->
  forallb (fun y => negb (String.eqb y ".*")) (map pseg l) = true.
Proof.
  induction l as [|s l IH]; intro H; [reflexivity|].
  simpl in H. apply andb_true_iff in H as [Hs Hl]. simpl. rewrite (pseg_not_dotstar s Hs). simpl. now apply IH.
Qed.

Lemma split_named t : aip_class t = true ->
  split_into_segments (splitc slash (tmpl_print t)) = Ok (map pseg (t_pre t) ++ named_str t :: map pseg (t_post t))%list.
Proof.
  intro Hc. pose proof (named_shape t Hc) as Hsh.
  unfold aip_class in Hc. repeat (apply andb_true_iff in Hc as [Hc ?]).
  rename H into Hshape, H0 into Hpre_nd, H1 into Hshort, H2 into Hne, H3 into Hkey, H4 into Hokpost, H5 into Hoksub.
  rename Hc into Hokpre.
  set (P := map pseg (t_pre t)). set (Q := map pseg (t_post t)). set (N := named_str t) in *.
  assert (HP : Forall (fun y => contains slash y = false) P) by (apply psegs_no; [exact Hokpre|tauto]).
  assert (HQ : Forall (fun y => contains slash y = false) Q) by (apply psegs_no; [exact Hokpost|tauto]).
  assert (HPb : existsb has_brace P = false) by now apply no_brace_psegs.
  assert (HQb : existsb has_brace Q = false) by now apply no_brace_psegs.
  unfold tmpl_print. fold P Q N.
  destruct Hsh as [[Hns Hnb]|(X0 & mids & Y & EN & Hmids & HX0s & HX0b & HYs & HYb & HYne)].
  - rewrite splitc_joinc_list.
    + unfold split_into_segments. rewrite (break_at_hit has_brace P N Q HPb Hnb).
      now rewrite (break_at_none has_brace Q HQb).
    + destruct P; discriminate.
    + apply Forall_app. split; [exact HP|]. constructor; assumption.
  - set (M := map pseg mids) in *.
    assert (HM : Forall (fun y => contains slash y = false) M) by (apply psegs_no; [exact Hmids|tauto]).
    assert (HMb : existsb has_brace M = false) by now apply no_brace_psegs.
    assert (EN' : N = joinc slash (X0 :: M ++ [Y])) by exact EN.
    rewrite EN'. rewrite joinc_flatten by discriminate.
    rewrite splitc_joinc_list.
    + unfold split_into_segments. cbn [app].
      rewrite (break_at_hit has_brace P X0 _ HPb HX0b).
      rewrite <- app_assoc. cbn [app].
      rewrite (break_at_hit has_brace M Y Q HMb HYb). rewrite HQb.
      unfold merge_raw. rewrite merge_raw_tails; [reflexivity|].
      rewrite forallb_app. unfold M. rewrite (existsb_has_brace_false_noeq mids Hmids). simpl. now rewrite HYne.
    + destruct P; discriminate.
    + apply Forall_app. split; [exact HP|]. apply Forall_app. split; [|exact HQ].
      constructor; [exact HX0s|]. apply Forall_app. split; [exact HM|]. constructor; [exact HYs|constructor].
Qed.

Fixpoint csum (d : ascii) (l : list string) : nat :=
  match l with [] => 0 | x :: l' => count_char d x + csum d l' end.

Lemma count_tails c d : Ascii.eqb c d = false -> forall l, count_char d (tails c l) = csum d l.
Proof.
  intros Hcd. induction l as [|x l IH]; [reflexivity|]. simpl. rewrite Hcd. rewrite count_char_app. now rewrite IH.
Qed.
Lemma count_joinc c d l : Ascii.eqb c d = false -> count_char d (joinc c l) = csum d l.
Proof.
  intro Hcd. destruct l as [|x l]; [reflexivity|]. simpl. rewrite count_char_app. now rewrite (count_tails c d Hcd).
Qed.
Lemma csum_app d a b : csum d (a ++ b)%list = csum d a + csum d b.
Proof. induction a as [|x a IH]; simpl; [reflexivity|]. rewrite IH. lia. Qed.
Lemma csum_0 d l : Forall (fun y => contains d y = false) l -> csum d l = 0.
Proof.
  induction l as [|x l IH]; intro H; [reflexivity|]. inversion H; subst. simpl.
  rewrite (count_char_0 d x H2). now rewrite (IH H3).
Qed.

Lemma count_named t : aip_class t = true -> count_char lbrace (named_str t) = 1.
Proof.
  intro Hc. unfold aip_class in Hc. repeat (apply andb_true_iff in Hc as [Hc ?]).
  rename H into Hshape, H0 into Hpre_nd, H1 into Hshort, H2 into Hne, H3 into Hkey, H4 into Hokpost, H5 into Hoksub.
  pose proof (is_ident_word _ Hkey) as Hw.
  assert (Hk : count_char lbrace (t_key t) = 0) by (apply count_char_0; apply word_no; [exact Hw|tauto]).
  unfold named_str. destruct (t_short t).
  - rewrite !count_char_app. rewrite Hk. reflexivity.
  - rewrite !count_char_app. rewrite Hk.
    rewrite (count_joinc slash lbrace _ eq_refl). rewrite csum_0; [reflexivity|].
    apply psegs_no; [exact Hoksub|tauto].
Qed.

Lemma count_print t : aip_class t = true -> count_char lbrace (tmpl_print t) = 1.
Proof.
  intro Hc. pose proof (count_named t Hc) as Hn.
  unfold aip_class in Hc. repeat (apply andb_true_iff in Hc as [Hc ?]).
  unfold tmpl_print. rewrite (count_joinc slash lbrace _ eq_refl). rewrite csum_app. simpl. rewrite Hn.
  rewrite (csum_0 lbrace (map pseg (t_pre t))) by (apply psegs_no; [assumption|tauto]).
  rewrite (csum_0 lbrace (map pseg (t_post t))) by (apply psegs_no; [assumption|tauto]).
  reflexivity.
Qed.

Lemma is_any_group k r : is_any (ROpen k :: r) = false.
Proof. reflexivity. Qed.

Lemma convert_class t : aip_class t = true -> convert_to_regex (tmpl_print t) = Ok (rx_of t).
Proof.
  intro Hc. pose proof (count_print t Hc) as Hcount.
  unfold convert_to_regex.
  destruct (String.length (tmpl_print t)) as [|n] eqn:El.
  { destruct (tmpl_print t); [discriminate Hcount|discriminate El]. }
  rewrite convert_S. rewrite Hcount. cbn [Nat.ltb Nat.leb].
  rewrite (split_named t Hc).
  pose proof (conv_named n t Hc) as Hnamed.
  assert (Hc' := Hc). unfold aip_class in Hc'. repeat (apply andb_true_iff in Hc' as [Hc' ?]).
  rename H4 into Hokpost, H5 into Hoksub. rename Hc' into Hokpre.
  assert (Hmr : map_res (convert_segment (convert (S n))) (map pseg (t_pre t) ++ named_str t :: map pseg (t_post t))%list
                = Ok (map single (t_pre t) ++ group_items t :: map single (t_post t))%list).
  { apply map_res_app; [now apply map_res_plain|]. cbn [map_res]. rewrite Hnamed. now rewrite (map_res_plain _ _ Hokpost). }
  rewrite Hmr. f_equal. unfold rx_of.
  destruct (t_pre t) as [|p ps].
  - cbn [map app merge_rx]. now rewrite merge_tail_plain.
  - cbn [map app merge_rx items_first]. unfold single at 1. cbn [app]. f_equal.
    rewrite flat_map_app. rewrite merge_tail_plain. cbn [flat_map]. rewrite merge_tail_plain.
    unfold merge_piece, group_items. rewrite is_any_group. reflexivity.
Qed.

Lemma first_group_class t : first_group (rx_of t) = Some (t_key t).
Proof.
  unfold rx_of. destruct (t_pre t) as [|p ps]; [reflexivity|].
  assert (H : forall l rest, first_group (items_tail l ++ rest)%list = first_group rest).
  { induction l as [|s l IH]; intros rest; [reflexivity|]. destruct s; simpl; apply IH. }
  cbn [items_first app first_group]. destruct p; cbn [item]; rewrite H; reflexivity.
Qed.

Lemma print_nonempty t : is_empty (tmpl_print t) = false.
Proof.
  unfold tmpl_print. destruct (map pseg (t_pre t)) as [|x l].
  - simpl. unfold named_str. destruct (t_short t); reflexivity.
  - simpl. destruct x; [|reflexivity]. simpl. destruct l; reflexivity.
Qed.

(* ---- sample_request on a class template: fails exactly for the {key} shorthand ---- *)
Lemma cut_at_hit c : forall a b, contains c a = false -> cut_at c (a ++ String c b) = Some (a, b).
Proof.
  induction a as [|x a IH]; intros b H; simpl.
  - now rewrite Ascii.eqb_refl.
  - simpl in H. apply orb_false_iff in H as [Hx Ha]. rewrite Hx. now rewrite (IH b Ha).
Qed.

Definition lead (c : ascii) (P : list string) : string :=
  match P with [] => "" | x :: P' => x ++ tails c P' ++ s1 c end.

Lemma joinc_mid c P N Q : joinc c (P ++ N :: Q)%list = lead c P ++ N ++ tails c Q.
Proof.
  destruct P as [|x P]; [reflexivity|]. simpl. rewrite tails_app. simpl. now rewrite !sapp_assoc.
Qed.

Lemma lead_no c d P : Ascii.eqb c d = false -> Forall (fun x => contains d x = false) P -> contains d (lead c P) = false.
Proof.
  intros Hcd H. destruct P as [|x P]; [reflexivity|]. inversion H; subst. simpl.
  rewrite !contains_app. rewrite H2. rewrite (contains_tails c d P Hcd H3). simpl. now rewrite Hcd.
Qed.

Lemma named_has_rbrace t : contains rbrace (named_str t) = true.
Proof.
  unfold named_str. destruct (t_short t); rewrite !contains_app; simpl; rewrite ?orb_true_r; reflexivity.
Qed.

Lemma sample_ok_class t : sample_request_ok (tmpl_print t) = true.
Proof.
  unfold sample_request_ok, tmpl_print. rewrite joinc_mid. rewrite (contains_app rbrace).
  rewrite (contains_app rbrace (named_str t)). rewrite named_has_rbrace. simpl. rewrite !orb_true_r. reflexivity.
Qed.

(* ---- the main statement ---- *)
Lemma routing_contribution_correct_l : forall (t : tmpl) (field v : string),
  aip_class t = true -> nl_free v = true ->
  contribution {| p_field := field; p_template := tmpl_print t |} v = Ok (aip_contribution t v) /\
  emit_param {| p_field := field; p_template := tmpl_print t |} =
    Ok (BRegex ("^" ++ rx_print (rx_of t) ++ "$") (disambiguated field) (t_key t)).
Proof.
  intros t field v Hc Hn. split.
  - unfold contribution. cbn [p_template p_field]. rewrite print_nonempty. rewrite (convert_class t Hc).
    rewrite first_group_class. rewrite <- (sem_equiv t v Hc Hn). unfold contrib_of.
    destruct (rx_match (rx_of t) v) as [[cap|]|]; reflexivity.
  - unfold emit_param. cbn [p_template p_field]. rewrite print_nonempty. rewrite (convert_class t Hc).
    rewrite (sample_ok_class t). cbn [negb].
    unfold key_of. rewrite first_group_class. reflexivity.
Qed.

(* ---- outside the class / outside the value domain: the statement fails (witnesses) ---- *)
Definition t_dstar_only : tmpl := {| t_pre := []; t_key := "k"; t_short := false; t_sub := [SDstar]; t_post := [] |}.
Definition v_inner_nl : string := "a" ++ s1 nl ++ "b".
Definition v_final_nl : string := "a" ++ s1 nl.

Lemma newline_refuted_l :
  exists t v, aip_class t = true /\ nl_free v = false /\
    contribution {| p_field := "f"; p_template := tmpl_print t |} v <> Ok (aip_contribution t v).
Proof. exists t_dstar_only, v_inner_nl. vm_compute. repeat split; discriminate. Qed.

Lemma newline_final_refuted_l :
  contribution {| p_field := "f"; p_template := tmpl_print t_dstar_only |} v_final_nl = Ok (Some ("k", "a")) /\
  aip_contribution t_dstar_only v_final_nl = Some ("k", v_final_nl).
Proof. vm_compute. split; reflexivity. Qed.

(* literal text is escaped: a dot (or any other metacharacter) in a literal segment matches only itself *)
Definition t_dotted : tmpl := {| t_pre := [SLit "a.b"; SLit "c+(d)"]; t_key := "k"; t_short := false; t_sub := [SStar]; t_post := [] |}.
Lemma escaped_literal_ex :
  aip_class t_dotted = true /\ tmpl_print t_dotted = "a.b/c+(d)/{k=*}" /\
  regex_str "a.b/c+(d)/{k=*}" = Ok "^a\.b/c\+\(d\)/(?P<k>[^/]+)$" /\
  contribution {| p_field := "f"; p_template := tmpl_print t_dotted |} "aXb/c+(d)/v" = Ok None /\
  contribution {| p_field := "f"; p_template := tmpl_print t_dotted |} "a.b/c+(d)/v" = Ok (Some ("k", "v")).
Proof. vm_compute. repeat split; reflexivity. Qed.

Definition t_dstar_inside : tmpl := {| t_pre := []; t_key := "k"; t_short := false; t_sub := [SDstar; SLit "x"]; t_post := [] |}.
Lemma dstar_inside_refuted_l :
  exists t v, nl_free v = true /\ tmpl_print t = "{k=**/x}" /\
    contribution {| p_field := "f"; p_template := tmpl_print t |} v = Ok None /\
    aip_contribution t v = Some ("k", "x").
Proof. exists t_dstar_inside, "x". vm_compute. repeat split; reflexivity. Qed.

(* ================================================================ the dict: last wins, empty iff nothing matched *)
Lemma assoc_dict_set k k' v : forall d,
  assoc k (dict_set k' v d) = if String.eqb k k' then Some v else assoc k d.
Proof.
  induction d as [|[a b] d IH]; simpl.
  - reflexivity.
  - destruct (String.eqb k' a) eqn:E.
    + apply String.eqb_eq in E. subst a. simpl. now destruct (String.eqb k k').
    + simpl. destruct (String.eqb k a) eqn:E2.
      * destruct (String.eqb k k') eqn:E3; [|reflexivity].
        apply String.eqb_eq in E2, E3. subst. rewrite String.eqb_refl in E. discriminate.
      * exact IH.
Qed.

Lemma assoc_app {A} k (a b : list (string * A)) :
  assoc k (a ++ b)%list = match assoc k a with Some v => Some v | None => assoc k b end.
Proof.
  induction a as [|[x y] a IH]; simpl; [reflexivity|]. destruct (String.eqb k x); [reflexivity|exact IH].
Qed.

Lemma assoc_fold k : forall l d,
  assoc k (fold_left (fun d kv => dict_set (fst kv) (snd kv) d) l d) =
  match assoc k (rev l) with Some v => Some v | None => assoc k d end.
Proof.
  induction l as [|[a b] l IH]; intro d; simpl; [reflexivity|].
  rewrite IH. rewrite assoc_app. destruct (assoc k (rev l)); [reflexivity|].
  simpl. rewrite assoc_dict_set. now destruct (String.eqb k a).
Qed.

Lemma last_wins_l (l : list (string * string)) k : assoc k (dict_of l) = assoc k (rev l).
Proof. unfold dict_of. rewrite assoc_fold. now destruct (assoc k (rev l)). Qed.

Lemma dict_set_nonempty k v d : dict_set k v d <> [].
Proof. destruct d as [|[a b] d]; simpl; [discriminate|]. destruct (String.eqb k a); discriminate. Qed.

Lemma fold_nonempty : forall l d, d <> [] -> fold_left (fun d kv => dict_set (fst kv) (snd kv) d) l d <> [].
Proof. induction l as [|x l IH]; intros d H; simpl; [exact H|]. apply IH. apply dict_set_nonempty. Qed.

Lemma dict_of_nil l : dict_of l = [] <-> l = [].
Proof.
  split; intro H; [|subst; reflexivity].
  destruct l as [|x l]; [reflexivity|]. exfalso. unfold dict_of in H. simpl in H.
  revert H. apply fold_nonempty. discriminate.
Qed.

Lemma somes_nil {A} (l : list (option A)) : somes l = [] <-> Forall (fun c => c = None) l.
Proof.
  induction l as [|[a|] l IH]; simpl.
  - split; [constructor|reflexivity].
  - split; [discriminate|]. intro H. inversion H; discriminate.
  - split; intro H.
    + constructor; [reflexivity|now apply IH].
    + inversion H; subst. now apply IH.
Qed.

Definition contributions (ps : list param) (req : request) : res (list (option (string * string))) :=
  map_res (fun p => contribution p (req (disambiguated (p_field p)))) ps.

Lemma header_explicit m ps req cs bs :
  m_explicit m = Some ps -> m_client_streaming m = false -> emit_metadata m = Ok (EExplicit bs) ->
  contributions ps req = Ok cs ->
  header_of m req = Ok (match dict_of (somes cs) with [] => None | d => Some (to_routing_header d) end).
Proof.
  intros He Hs Hem Hc. unfold header_of. rewrite Hem, He, Hs. unfold contributions in Hc. rewrite Hc.
  destruct (dict_of (somes cs)); reflexivity.
Qed.

Lemma no_match_no_header_l m ps req cs bs :
  m_explicit m = Some ps -> m_client_streaming m = false -> emit_metadata m = Ok (EExplicit bs) ->
  contributions ps req = Ok cs ->
  (header_of m req = Ok None <-> Forall (fun c => c = None) cs).
Proof.
  intros He Hs Hem Hc. rewrite (header_explicit m ps req cs bs He Hs Hem Hc).
  rewrite <- somes_nil. rewrite <- dict_of_nil.
  destruct (dict_of (somes cs)) eqn:E; split; intro H; try reflexivity; try discriminate.
Qed.

Lemma last_wins_header m ps req cs bs :
  m_explicit m = Some ps -> m_client_streaming m = false -> emit_metadata m = Ok (EExplicit bs) ->
  contributions ps req = Ok cs ->
  forall k, exists d, (header_of m req = Ok (match d with [] => None | _ => Some (to_routing_header d) end)) /\
                      assoc k d = assoc k (rev (somes cs)).
Proof.
  intros He Hs Hem Hc k. exists (dict_of (somes cs)). split; [|apply last_wins_l].
  rewrite (header_explicit m ps req cs bs He Hs Hem Hc). now destruct (dict_of (somes cs)).
Qed.

(* ================================================================ implicit routing *)
Lemma scan_skip : forall a b, scan_aux (String.length a) (a ++ b) = scan_aux 0 b.
Proof. induction a as [|x a IH]; intro b; [reflexivity|]. simpl. apply IH. Qed.

Lemma scan_lit : forall t b, contains lbrace t = false -> scan_aux 0 (t ++ b) = scan_aux 0 b.
Proof.
  induction t as [|x t IH]; intros b H; [reflexivity|].
  simpl in H. apply orb_false_iff in H as [Hx Ht]. simpl. rewrite Hx. now apply IH.
Qed.

Lemma lazy_until_var c : (c = eqc \/ c = rbrace) -> forall f r, sall path_char f = true ->
  lazy_until (f ++ String c r) = Some (f, r).
Proof.
  intros Hc. induction f as [|a f IH]; intros r H.
  - simpl. destruct Hc as [-> | ->]; reflexivity.
  - simpl in H. apply andb_true_iff in H as [Ha Hf]. unfold path_char in Ha.
    apply andb_true_iff in Ha as [Ha Ha3]. apply andb_true_iff in Ha as [Ha1 Ha2].
    apply negb_true_iff in Ha1, Ha2, Ha3. simpl. rewrite Ha1, Ha2, Ha3. simpl. now rewrite (IH r Hf).
Qed.

Lemma pat_no_lbrace p : sall pat_char p = true -> contains lbrace p = false.
Proof.
  induction p as [|a p IH]; simpl; intro H; [reflexivity|].
  apply andb_true_iff in H as [Ha Hp]. unfold pat_char in Ha. apply andb_true_iff in Ha as [Ha _].
  apply negb_true_iff in Ha. rewrite Ha. simpl. auto.
Qed.

Lemma scan_uri : forall u, uri_ok u = true -> scan_vars (uri_print u) = uri_vars u.
Proof.
  unfold scan_vars, uri_print. induction u as [|p u IH]; intro H; [reflexivity|].
  simpl in H. apply andb_true_iff in H as [Hp Hu]. specialize (IH Hu).
  destruct p as [t|f [pat|]]; cbn [map sconcat upart_print uri_vars].
  - simpl in Hp. apply negb_true_iff in Hp. rewrite (scan_lit t _ Hp). exact IH.
  - simpl in Hp. apply andb_true_iff in Hp as [Hf Hpat].
    change (("{" ++ f ++ "=" ++ pat ++ "}") ++ sconcat (map upart_print u))
      with (String lbrace ((f ++ String eqc (pat ++ "}")) ++ sconcat (map upart_print u))).
    rewrite sapp_assoc. cbn [append]. rewrite sapp_assoc.
    cbn [scan_aux]. rewrite Ascii.eqb_refl.
    rewrite (lazy_until_var eqc (or_introl eq_refl) f _ Hf). f_equal.
    change (f ++ String eqc (pat ++ "}" ++ sconcat (map upart_print u)))
      with (f ++ (String eqc "" ++ (pat ++ "}" ++ sconcat (map upart_print u)))).
    rewrite <- sapp_assoc.
    replace (S (String.length f)) with (String.length (f ++ String eqc "")) by (rewrite slen_app; simpl; lia).
    rewrite scan_skip. rewrite (scan_lit pat _ (pat_no_lbrace pat Hpat)). simpl. exact IH.
  - simpl in Hp.
    change (("{" ++ f ++ "}") ++ sconcat (map upart_print u))
      with (String lbrace ((f ++ String rbrace "") ++ sconcat (map upart_print u))).
    rewrite sapp_assoc. cbn [append].
    cbn [scan_aux]. rewrite Ascii.eqb_refl.
    rewrite (lazy_until_var rbrace (or_intror eq_refl) f _ Hp). f_equal.
    change (f ++ String rbrace (sconcat (map upart_print u)))
      with (f ++ (String rbrace "" ++ sconcat (map upart_print u))).
    rewrite <- sapp_assoc.
    replace (S (String.length f)) with (String.length (f ++ String rbrace "")) by (rewrite slen_app; simpl; lia).
    rewrite scan_skip. exact IH.
Qed.

(* finite fact about the regenerated list: no reserved name contains a dot *)
Lemma reserved_no_dot : forallb (fun n => negb (contains dot n)) Gen.RoutingGen.RESERVED_NAMES = true.
Proof. vm_compute. reflexivity. Qed.

Lemma suffix_no_dot c : contains dot c = false -> contains dot (suffix_reserved c) = false.
Proof.
  intro H. unfold suffix_reserved. destruct (reserved c); [|exact H]. rewrite contains_app, H. reflexivity.
Qed.

(* the attribute path the emitted code reads: component by component, reserved ones suffixed *)
Lemma disambiguated_components raw :
  splitc dot (disambiguated raw) = map suffix_reserved (splitc dot raw).
Proof.
  unfold disambiguated. destruct (splitc_shape dot raw) as (x & l & Hs & _ & Hx & Hl). rewrite Hs.
  cbn [map joinc]. apply splitc_joinc; [now apply suffix_no_dot|]. clear Hs.
  induction Hl as [|y l Hy Hl IH]; [constructor|]. constructor; [now apply suffix_no_dot|exact IH].
Qed.

Lemma implicit_pairs_l (m : method) (u : list upart) :
  m_explicit m = None -> m_client_streaming m = false ->
  first_nonempty (potential_verbs (m_http m)) = Some (uri_print u) -> uri_ok u = true ->
  field_headers (m_http m) = uri_vars u /\
  (forall req, header_of m req =
     Ok (match uri_vars u with
         | [] => None
         | vars => Some (to_routing_header (map (fun raw => (raw, req (disambiguated raw))) vars))
         end)) /\
  (forall raw, splitc dot (disambiguated raw) = map suffix_reserved (splitc dot raw)).
Proof.
  intros He Hs Hp Hu.
  assert (Hfh : field_headers (m_http m) = uri_vars u).
  { unfold field_headers. rewrite Hp. now apply scan_uri. }
  split; [exact Hfh|]. split; [|exact disambiguated_components].
  intro req. unfold header_of, emit_metadata. rewrite He, Hfh, Hs. destruct (uri_vars u) as [|x l]; [reflexivity|].
  cbv iota beta. rewrite map_map. reflexivity.
Qed.

(* ================================================================ sync / asyncio / REST *)
Local Opaque routing_key.
Definition no_routing_key (user : md) : bool := forallb (fun kv => negb (String.eqb (fst kv) routing_key)) user.

Lemma observe_none user : no_routing_key user = true -> observe user = [].
Proof.
  unfold observe. induction user as [|[a b] user IH]; simpl; intro H; [reflexivity|].
  apply andb_true_iff in H as [Ha Hu]. apply negb_true_iff in Ha. rewrite Ha. now apply IH.
Qed.

Lemma observe_app a b : observe (a ++ b)%list = (observe a ++ observe b)%list.
Proof. unfold observe. now rewrite filter_app, map_app. Qed.

Lemma dict_set_other k v : String.eqb k routing_key = false -> forall d,
  no_routing_key d = true -> no_routing_key (dict_set k v d) = true.
Proof.
  intros Hk. induction d as [|[a b] d IH]; simpl; intro H.
  - now rewrite Hk.
  - apply andb_true_iff in H as [Ha Hd]. destruct (String.eqb k a) eqn:E; simpl.
    + rewrite Hk. simpl. exact Hd.
    + rewrite Ha. simpl. now apply IH.
Qed.

Lemma dict_fold_other : forall l d, no_routing_key l = true -> no_routing_key d = true ->
  no_routing_key (fold_left (fun d kv => dict_set (fst kv) (snd kv) d) l d) = true.
Proof.
  induction l as [|[a b] l IH]; intros d Hl Hd; simpl; [exact Hd|].
  simpl in Hl. apply andb_true_iff in Hl as [Ha Hl]. apply negb_true_iff in Ha.
  apply IH; [exact Hl|]. now apply dict_set_other.
Qed.

Lemma dict_set_fresh v : forall d, no_routing_key d = true ->
  observe (dict_set routing_key v d) = [v].
Proof.
  induction d as [|[a b] d IH]; simpl; intro H; [reflexivity|].
  apply andb_true_iff in H as [Ha Hd]. apply negb_true_iff in Ha.
  rewrite String.eqb_sym in Ha. rewrite Ha. rewrite String.eqb_sym in Ha.
  unfold observe. simpl. rewrite Ha. apply (IH Hd).
Qed.

Lemma fold_left_app_dict l x d :
  fold_left (fun d kv => dict_set (fst kv) (snd kv) d) (l ++ [x])%list d =
  dict_set (fst x) (snd x) (fold_left (fun d kv => dict_set (fst kv) (snd kv) d) l d).
Proof. now rewrite fold_left_app. Qed.

Lemma agree_l (m : method) (req : request) (user : md) (h : option string) :
  emit_sync m = emit_async m /\
  (header_of m req = Ok h -> no_routing_key user = true ->
   seen_grpc user h = match h with Some v => [v] | None => [] end /\
   seen_rest user h = seen_grpc user h).
Proof.
  split; [reflexivity|]. intros _ Hu. unfold seen_grpc, seen_rest, with_routing. destruct h as [v|].
  - rewrite observe_app, (observe_none user Hu). split; [reflexivity|].
    unfold dict_of. rewrite fold_left_app_dict. simpl fst. simpl snd.
    cbn [app observe filter map fst snd]. rewrite String.eqb_refl. cbn [map snd].
    apply dict_set_fresh. now apply dict_fold_other.
  - rewrite (observe_none user Hu). split; [reflexivity|].
    apply observe_none. unfold dict_of. now apply dict_fold_other.
Qed.

(* ================================================================ the whole explicit block against the AIP reading *)
Inductive sparam := SPlain (field : string) | STmpl (field : string) (t : tmpl).
Definition sp_field (sp : sparam) : string := match sp with SPlain f => f | STmpl f _ => f end.
Definition sparam_param (sp : sparam) : param :=
  match sp with SPlain f => Build_param f "" | STmpl f t => Build_param f (tmpl_print t) end.
Definition sparam_ok (sp : sparam) : bool :=
  match sp with
  | SPlain _ => true
  | STmpl _ t => aip_class t
  end.
Definition sparam_block (sp : sparam) : block :=
  match sp with
  | SPlain f => BPlain (disambiguated f) f
  | STmpl f t => BRegex ("^" ++ rx_print (rx_of t) ++ "$") (disambiguated f) (t_key t)
  end.
(* AIP-4222: without a template the whole non-empty field under its own name; with one, the named segment *)
Definition spec_contribution (sp : sparam) (v : string) : option (string * string) :=
  match sp with
  | SPlain f => if is_empty v then None else Some (f, v)
  | STmpl _ t => aip_contribution t v
  end.
Definition spec_header (sps : list sparam) (req : request) : option string :=
  match dict_of (somes (map (fun sp => spec_contribution sp (req (disambiguated (sp_field sp)))) sps)) with
  | [] => None
  | d => Some (to_routing_header d)
  end.

Lemma sparam_ok_class sp : sparam_ok sp = true -> match sp with SPlain _ => True | STmpl _ t => aip_class t = true end.
Proof. destruct sp as [f|f t]; simpl; [trivial|]. now intro H. Qed.

Lemma contributions_spec req : forall sps,
  forallb sparam_ok sps = true ->
  forallb (fun sp => nl_free (req (disambiguated (sp_field sp)))) sps = true ->
  contributions (map sparam_param sps) req =
  Ok (map (fun sp => spec_contribution sp (req (disambiguated (sp_field sp)))) sps).
Proof.
  unfold contributions. induction sps as [|sp sps IH]; intros Hok Hnl; [reflexivity|].
  simpl in Hok, Hnl. apply andb_true_iff in Hok as [Hsp Hok]. apply andb_true_iff in Hnl as [Hv Hnl].
  cbn [map map_res]. rewrite (IH Hok Hnl). apply sparam_ok_class in Hsp.
  destruct sp as [f|f t]; cbn [sparam_param sp_field p_field spec_contribution] in *.
  - reflexivity.
  - destruct (routing_contribution_correct_l t f _ Hsp Hv) as [Hcontr _]. now rewrite Hcontr.
Qed.

Lemma emit_spec : forall sps, forallb sparam_ok sps = true ->
  map_res emit_param (map sparam_param sps) = Ok (map sparam_block sps).
Proof.
  induction sps as [|sp sps IH]; intro Hok; [reflexivity|].
  simpl in Hok. apply andb_true_iff in Hok as [Hsp Hok]. cbn [map map_res]. rewrite (IH Hok).
  destruct sp as [f|f t]; cbn [sparam_param sparam_block].
  - reflexivity.
  - cbn [sparam_ok] in Hsp.
    destruct (routing_contribution_correct_l t f "" Hsp eq_refl) as [_ Hemit]. rewrite Hemit. reflexivity.
Qed.

Lemma explicit_header_spec_l m sps req :
  m_explicit m = Some (map sparam_param sps) -> m_client_streaming m = false ->
  forallb sparam_ok sps = true ->
  forallb (fun sp => nl_free (req (disambiguated (sp_field sp)))) sps = true ->
  emit_metadata m = Ok (EExplicit (map sparam_block sps)) /\
  header_of m req = Ok (spec_header sps req).
Proof.
  intros He Hs Hok Hnl.
  assert (Hem : emit_metadata m = Ok (EExplicit (map sparam_block sps))).
  { unfold emit_metadata. rewrite He, Hs. now rewrite (emit_spec sps Hok). }
  split; [exact Hem|].
  rewrite (header_explicit m _ req _ _ He Hs Hem (contributions_spec req sps Hok Hnl)). reflexivity.
Qed.

(* ================================================================ the class on template strings *)
Lemma cut_at_sound c : forall s a b, cut_at c s = Some (a, b) -> s = a ++ String c b.
Proof.
  induction s as [|x s IH]; intros a b H; simpl in H; [discriminate|].
  destruct (Ascii.eqb x c) eqn:E.
  - apply Ascii.eqb_eq in E. subst x. now inversion H.
  - destruct (cut_at c s) as [[a' b']|] eqn:E2; [|discriminate]. inversion H; subst.
    simpl. f_equal. now apply IH.
Qed.

Lemma pseg_seg_of_str x : pseg (seg_of_str x) = x.
Proof.
  unfold seg_of_str. destruct (String.eqb x "*") eqn:E1; [apply String.eqb_eq in E1; now subst|].
  destruct (String.eqb x "**") eqn:E2; [apply String.eqb_eq in E2; now subst|]. reflexivity.
Qed.

Lemma map_pseg_seg l : map pseg (map seg_of_str l) = l.
Proof. induction l as [|x l IH]; [reflexivity|]. simpl. now rewrite pseg_seg_of_str, IH. Qed.

Lemma srev_acc_app : forall s acc, srev_acc s acc = srev_acc s "" ++ acc.
Proof.
  induction s as [|a s IH]; intro acc; [reflexivity|]. simpl. rewrite (IH (String a acc)). rewrite (IH (String a "")).
  now rewrite sapp_assoc.
Qed.

Lemma last_is_snoc c s : last_is c s = true -> s = drop_last s ++ s1 c.
Proof.
  unfold last_is, srev. induction s as [|a s IH]; [discriminate|].
  simpl. rewrite srev_acc_app. destruct s as [|b s].
  - simpl. intro H. apply Ascii.eqb_eq in H. now subst.
  - intro H. change (String a (String b s) = String a (drop_last (String b s) ++ s1 c)). f_equal. apply IH.
    destruct (srev_acc (String b s) "") eqn:E; [|exact H].
    exfalso. simpl in E. rewrite srev_acc_app in E. destruct (srev_acc s ""); discriminate.
Qed.

Lemma lead_joinc c P : P <> [] -> lead c P = joinc c P ++ s1 c.
Proof. destruct P as [|x P]; [congruence|]. intros _. simpl. now rewrite sapp_assoc. Qed.

Lemma splitc_nonempty c s : splitc c s <> [].
Proof. unfold splitc. destruct (split2 c s). discriminate. Qed.

Lemma aip_parse_print s t : aip_parse s = Some t -> tmpl_print t = s.
Proof.
  unfold aip_parse. intro H.
  destruct (cut_at lbrace s) as [[head rest]|] eqn:E1; [|discriminate].
  destruct (cut_at rbrace rest) as [[body tail]|] eqn:E2; [|discriminate].
  apply cut_at_sound in E1, E2. subst s rest.
  set (pre := if is_empty head then Some []
              else if last_is slash head then Some (map seg_of_str (splitc slash (drop_last head))) else None) in H.
  set (post := match tail with
               | EmptyString => Some []
               | String a tl => if Ascii.eqb a slash then Some (map seg_of_str (splitc slash tl)) else None
               end) in H.
  destruct pre as [pre'|] eqn:Epre; [|discriminate]. destruct post as [post'|] eqn:Epost; [|discriminate].
  assert (Hhead : lead slash (map pseg pre') = head).
  { unfold pre in Epre. destruct head as [|h0 head'].
    - inversion Epre; subst. reflexivity.
    - simpl is_empty in Epre. cbv iota in Epre. destruct (last_is slash (String h0 head')) eqn:El; [|discriminate].
      inversion Epre; subst. rewrite map_pseg_seg. rewrite lead_joinc by apply splitc_nonempty.
      rewrite joinc_splitc. symmetry. now apply last_is_snoc. }
  assert (Htail : tails slash (map pseg post') = tail).
  { unfold post in Epost. destruct tail as [|a tl].
    - inversion Epost; subst. reflexivity.
    - destruct (Ascii.eqb a slash) eqn:Ea; [|discriminate]. apply Ascii.eqb_eq in Ea. subst a.
      inversion Epost; subst. rewrite map_pseg_seg.
      pose proof (joinc_splitc slash tl) as J. destruct (splitc slash tl) as [|x l] eqn:Es; [now apply splitc_nonempty in Es|].
      simpl in J. simpl. now rewrite J. }
  destruct (cut_at eqc body) as [[key subs]|] eqn:E3.
  - apply cut_at_sound in E3. inversion H; subst t. unfold tmpl_print. cbn [t_pre t_post]. rewrite joinc_mid.
    rewrite Hhead, Htail. unfold named_str. cbn [t_short t_key t_sub]. rewrite map_pseg_seg, joinc_splitc.
    rewrite E3. simpl. f_equal. rewrite !sapp_assoc. simpl. f_equal. f_equal. now rewrite sapp_assoc.
  - inversion H; subst t. unfold tmpl_print. cbn [t_pre t_post]. rewrite joinc_mid.
    rewrite Hhead, Htail. unfold named_str. cbn [t_short t_key]. simpl. f_equal. f_equal. now rewrite sapp_assoc.
Qed.

Lemma routing_contribution_correct_str : forall (s field v : string) (t : tmpl),
  aip_parse s = Some t -> aip_class t = true -> nl_free v = true ->
  contribution {| p_field := field; p_template := s |} v = Ok (aip_contribution t v).
Proof.
  intros s field v t Hp Hc Hn. apply aip_parse_print in Hp. subst s.
  now destruct (routing_contribution_correct_l t field v Hc Hn).
Qed.

Lemma routing_contribution_correct_str_l : forall (s field v : string),
  aip_class_str s = true -> nl_free v = true ->
  exists t, aip_parse s = Some t /\ tmpl_print t = s /\
            contribution {| p_field := field; p_template := s |} v = Ok (aip_contribution t v).
Proof.
  intros s field v Hc Hn. unfold aip_class_str in Hc. destruct (aip_parse s) as [t|] eqn:Hp; [|discriminate].
  exists t. split; [reflexivity|]. split; [now apply aip_parse_print|].
  now apply routing_contribution_correct_str.
Qed.

(* ================================================================ the Ads template tree: the former witnesses *)
Definition ads_http : http_rule :=
  {| h_get := ""; h_put := ""; h_post := "/v1/{name=shelves/*}:route"; h_delete := ""; h_patch := ""; h_custom_path := "" |}.
Definition ads_m : method :=
  {| m_explicit := Some [{| p_field := "table_name"; p_template := "{routing_id=projects/*}/**" |}];
     m_http := ads_http; m_client_streaming := false |}.
Definition ads_req : request := req_of [("table_name", "projects/p1/instances/i"); ("name", "shelves/s1")].
Lemma ads_witnesses_l :
  header_of_ads ads_m ads_req = Ok (Some "routing_id=projects/p1") /\
  header_of_ads {| m_explicit := Some []; m_http := ads_http; m_client_streaming := false |} ads_req = Ok None /\
  header_of_ads {| m_explicit := None; m_http := ads_http; m_client_streaming := false |} ads_req = Ok (Some "name=shelves/s1") /\
  emit_ads ads_m = emit_sync ads_m.
Proof. vm_compute. repeat split; reflexivity. Qed.

(* ================================================================ a parameter listed again wins again *)
(* the model keeps the rule's parameter list as it is written (no de-duplication): by last_wins_l the value under a key
   is the LAST contribution, so re-listing A after B hands the key back to A *)
Definition relisted_A : param := {| p_field := "table_name"; p_template := "{routing_id=projects/*}/**" |}.
Definition relisted_B : param := {| p_field := "table_name"; p_template := "{routing_id=projects/*/instances/*}/**" |}.
Definition relisted_m (ps : list param) : method := {| m_explicit := Some ps; m_http := ads_http; m_client_streaming := false |}.
Definition relisted_req : request := req_of [("table_name", "projects/p1/instances/i1/tables/t1")].
Lemma relisted_parameter_wins_l :
  header_of (relisted_m [relisted_A; relisted_B; relisted_A]) relisted_req = Ok (Some "routing_id=projects/p1") /\
  header_of (relisted_m [relisted_A; relisted_B]) relisted_req = Ok (Some "routing_id=projects/p1/instances/i1") /\
  emit_metadata (relisted_m [relisted_A; relisted_B; relisted_A]) <> emit_metadata (relisted_m [relisted_A; relisted_B]).
Proof. vm_compute. repeat split; try reflexivity. discriminate. Qed.

(* ================================================================ presence (proto3 optional routing fields)
   The model reads a request only through attribute values; a proto3 optional field that is PRESENT BUT EMPTY reads as
   the empty string, exactly as an unset one. The header therefore cannot depend on presence: assigning the empty string
   to an unset field changes nothing (an emitted guard that tested presence instead of non-emptiness would break the
   T2 comparison header-at-the-server = header_of on such requests). *)

Lemma map_res_ext : forall (A B : Type) (f g : A -> res B) (l : list A),
  (forall x, f x = g x) -> map_res f l = map_res g l.
Proof.
  intros A B f g l Hfg. induction l as [|x l IH]; [reflexivity|].
  cbn [map_res]. rewrite Hfg, IH. reflexivity.
Qed.

Lemma header_ext_l : forall (m : method) (r1 r2 : request),
  (forall p, r1 p = r2 p) -> header_of m r1 = header_of m r2.
Proof.
  intros m r1 r2 Hr. unfold header_of.
  destruct (emit_metadata m) as [[bs|pairs|]|e]; try reflexivity.
  - destruct (m_explicit m) as [ps|]; [|reflexivity].
    destruct (m_client_streaming m); [reflexivity|].
    rewrite (map_res_ext _ _ (fun p => contribution p (r1 (disambiguated (p_field p))))
                             (fun p => contribution p (r2 (disambiguated (p_field p)))) ps).
    + reflexivity.
    + intro p. rewrite Hr. reflexivity.
  - rewrite (map_ext (fun ra => (fst ra, r1 (snd ra))) (fun ra => (fst ra, r2 (snd ra)))).
    + reflexivity.
    + intro ra. rewrite Hr. reflexivity.
Qed.

Lemma req_of_present_empty : forall (l : list (string * string)) (a p : string),
  assoc a l = None -> req_of ((a, EmptyString) :: l) p = req_of l p.
Proof.
  intros l a p Ha. unfold req_of. cbn [assoc].
  destruct (String.eqb p a) eqn:E; [|reflexivity].
  apply String.eqb_eq in E. subst p. rewrite Ha. reflexivity.
Qed.

Lemma header_presence_l : forall (m : method) (l : list (string * string)) (a : string),
  assoc a l = None ->
  header_of m (req_of ((a, EmptyString) :: l)) = header_of m (req_of l).
Proof.
  intros m l a Ha. apply header_ext_l. intro p. apply req_of_present_empty. exact Ha.
Qed.

Definition presence_m : method :=
  {| m_explicit := Some [ {| p_field := "name"; p_template := "{routing_id=projects/*}/**" |};
                          {| p_field := "routing_id"; p_template := "" |} ];
     m_http := {| h_get := "/v1/{name=projects/*/things/*}"; h_put := ""; h_post := ""; h_delete := ""; h_patch := ""; h_custom_path := "" |};
     m_client_streaming := false |}.

Lemma presence_witness_l :
  header_of presence_m (req_of [("routing_id", ""); ("name", "projects/p1/things/t1")]) = Ok (Some "routing_id=projects/p1") /\
  header_of presence_m (req_of [("name", "projects/p1/things/t1")]) = Ok (Some "routing_id=projects/p1") /\
  header_of presence_m (req_of [("routing_id", "r 1"); ("name", "projects/p1/things/t1")]) = Ok (Some "routing_id=r+1").
Proof. vm_compute. repeat split; reflexivity. Qed.
