(* Proofs/FilesSym.v — C11: the substitution of _get_filename is a homomorphism.
   A template path is executed symbolically over atoms (literal characters and variables standing for the values
   of the naming / service / proto); the symbolic run is sound for every valuation whose values are non-empty
   '/'-separated sequences of words.  Finite facts about the regenerated template lists are then decided by
   vm_compute on the symbolic results and hold for all namings, services and protos. *)
From GV Require Import Base.Str Model.Case Gen.C11Gen Model.Files.

(* ------------------------------------------------------------------ replace: unfolding lemmas *)
Lemma strip_prefix_length p : forall s r, strip_prefix p s = Some r -> String.length s = String.length p + String.length r.
Proof.
  induction p as [|a p IH]; intros s r H; simpl in *.
  - now inversion H.
  - destruct s as [|b s]; [discriminate|]. destruct (Ascii.eqb a b); [|discriminate].
    simpl. f_equal. now apply IH.
Qed.

Lemma replace_fuel_enough p v : p <> "" -> forall n m s,
  String.length s < n -> String.length s < m -> replace_fuel n p v s = replace_fuel m p v s.
Proof.
  intros Hp. induction n as [|n IH]; intros m s Hn Hm; [lia|].
  destruct m as [|m]; [lia|]. simpl. destruct s as [|c s]; [reflexivity|].
  destruct (strip_prefix p (String c s)) as [r|] eqn:E.
  - f_equal. apply strip_prefix_length in E. destruct p as [|x p]; [congruence|]. simpl in *.
    apply IH; lia.
  - f_equal. simpl in *. apply IH; lia.
Qed.

Lemma is_empty_false p : p <> "" -> is_empty p = false.
Proof. destruct p; [congruence|reflexivity]. Qed.

Lemma replace_eq p v s n : p <> "" -> String.length s < n -> replace p v s = replace_fuel n p v s.
Proof.
  intros Hp Hn. unfold replace. rewrite (is_empty_false p Hp). apply replace_fuel_enough; [assumption|lia|assumption].
Qed.
Lemma replace_fuel_cons n p v c s :
  replace_fuel (S n) p v (String c s) =
  match strip_prefix p (String c s) with
  | Some r => v ++ replace_fuel n p v r
  | None => String c (replace_fuel n p v s)
  end.
Proof. reflexivity. Qed.

Lemma replace_nil p v : replace p v "" = "".
Proof. unfold replace. destruct (is_empty p); reflexivity. Qed.

Lemma replace_hit p v c s r : p <> "" ->
  strip_prefix p (String c s) = Some r -> replace p v (String c s) = v ++ replace p v r.
Proof.
  intros Hp E. rewrite (replace_eq p v (String c s) (S (String.length (String c s))) Hp) by lia.
  rewrite replace_fuel_cons, E. f_equal. symmetry. apply replace_eq; [assumption|].
  apply strip_prefix_length in E. destruct p as [|x p]; [congruence|]. simpl in *. lia.
Qed.

Lemma replace_miss p v c s : p <> "" ->
  strip_prefix p (String c s) = None -> replace p v (String c s) = String c (replace p v s).
Proof.
  intros Hp E. rewrite (replace_eq p v (String c s) (S (String.length (String c s))) Hp) by lia.
  rewrite replace_fuel_cons, E. f_equal. symmetry. apply replace_eq; [assumption|]. simpl. lia.
Qed.

Definition pct : ascii := "%"%char.

(* text without a percent sign is copied by the replacement of a marker *)
Lemma replace_skip_lit q v lit : contains pct lit = false ->
  forall r, replace (String pct q) v (lit ++ r) = lit ++ replace (String pct q) v r.
Proof.
  induction lit as [|c lit IH]; intros H r; [reflexivity|].
  cbn [contains] in H. apply orb_false_iff in H as [Hc Hl]. cbn [append].
  rewrite replace_miss; [|discriminate|].
  - now rewrite IH.
  - cbn [strip_prefix]. rewrite Ascii.eqb_sym, Hc. reflexivity.
Qed.

(* ------------------------------------------------------------------ values: '/'-separated words *)
(* wds prev s: every character is a word character or a slash; no slash first when prev, no two slashes in a row,
   no slash last; with prev = true: non-empty, so a non-empty sequence of words joined by single slashes *)
Fixpoint wds (prev : bool) (s : string) : bool :=
  match s with
  | EmptyString => negb prev
  | String c s' => if is_slash c then negb prev && wds true s' else word_char c && wds false s'
  end.
Definition pathok (s : string) : bool := wds true s.

Lemma word_char_not_slash c : word_char c = true -> is_slash c = false.
Proof.
  unfold word_char, is_slash, is_lower, is_digit, in_range. intro H.
  destruct (Ascii.eqb c "/") eqn:E; [|reflexivity]. apply Ascii.eqb_eq in E. subst. vm_compute in H. discriminate.
Qed.
Lemma word_char_not_pct c : word_char c = true -> Ascii.eqb c pct = false.
Proof.
  intro H. destruct (Ascii.eqb c pct) eqn:E; [|reflexivity]. apply Ascii.eqb_eq in E. subst. vm_compute in H. discriminate.
Qed.
Lemma word_char_not_dot c : word_char c = true -> is_dot c = false.
Proof.
  unfold is_dot. intro H. destruct (Ascii.eqb c ".") eqn:E; [|reflexivity]. apply Ascii.eqb_eq in E. subst. vm_compute in H. discriminate.
Qed.
Lemma slash_not_pct c : is_slash c = true -> Ascii.eqb c pct = false.
Proof. unfold is_slash. intro H. apply Ascii.eqb_eq in H. subst. reflexivity. Qed.

Lemma wds_word p w : sall word_char w = true -> w <> "" -> wds p w = true.
Proof.
  revert p. induction w as [|c w IH]; intros p H Hne; [congruence|].
  simpl in *. apply andb_true_iff in H as [Hc Hw].
  rewrite (word_char_not_slash c Hc), Hc. simpl.
  destruct w as [|d w]; [reflexivity|]. apply IH; [assumption|discriminate].
Qed.
Lemma is_wordb_pathok w : is_wordb w = true -> pathok w = true.
Proof.
  unfold is_wordb, pathok. intro H. apply andb_true_iff in H as [Hne Hw].
  apply wds_word; [assumption|]. destruct w; [discriminate|discriminate].
Qed.

Lemma wds_no_pct s : forall p, wds p s = true -> contains pct s = false.
Proof.
  induction s as [|c s IH]; intros p H; [reflexivity|]. cbn [wds contains] in *.
  destruct (is_slash c) eqn:Es.
  - apply andb_true_iff in H as [_ H]. rewrite (slash_not_pct c Es). cbn [orb]. eauto.
  - apply andb_true_iff in H as [Hc H]. rewrite (word_char_not_pct c Hc). cbn [orb]. eauto.
Qed.

Lemma wds_squeeze s : forall p b r, wds p s = true -> (p = false -> b = false) ->
  squeeze_aux b (s ++ r) = s ++ squeeze_aux false r.
Proof.
  induction s as [|c s IH]; intros p b r H Hpb; simpl in *.
  - apply negb_true_iff in H. now rewrite (Hpb H).
  - destruct (is_slash c) eqn:Es.
    + apply andb_true_iff in H as [Hp H]. apply negb_true_iff in Hp. rewrite (Hpb Hp).
      f_equal. apply (IH true); [assumption|discriminate].
    + apply andb_true_iff in H as [_ H]. f_equal. apply (IH false); auto.
Qed.

Lemma wds_lstrip s r : wds true s = true -> lstrip_slash (s ++ r) = s ++ r.
Proof.
  destruct s as [|c s]; simpl; [discriminate|]. unfold lstrip_slash. simpl.
  destruct (is_slash c); [discriminate | reflexivity].
Qed.

Lemma wds_norm s : forall p st r, wds p s = true -> (p = false -> st = NOther) ->
  norm_aux st (s ++ r) = norm_aux NOther r.
Proof.
  induction s as [|c s IH]; intros p st r H Hp; simpl in *.
  - apply negb_true_iff in H. now rewrite (Hp H).
  - unfold nstep. destruct (is_slash c) eqn:Es.
    + apply andb_true_iff in H as [Hpp H]. apply negb_true_iff in Hpp. rewrite (Hp Hpp).
      apply (IH true); [assumption|discriminate].
    + apply andb_true_iff in H as [Hc H]. rewrite (word_char_not_dot c Hc).
      apply (IH false); auto.
Qed.

(* a non-empty list of words joined by "/" *)
Lemma wds_join ws : ws <> [] -> Forall (fun w => is_wordb w = true) ws -> pathok (sjoin "/" ws) = true.
Proof.
  unfold pathok. induction ws as [|w ws IH]; intros Hne Hall; [congruence|].
  inversion Hall as [|? ? Hw Hws]; subst.
  apply andb_true_iff in Hw as [Hn Hc].
  destruct ws as [|w2 ws].
  - simpl. apply wds_word; [assumption|]. destruct w; [discriminate|discriminate].
  - change (sjoin "/" (w :: w2 :: ws)) with (w ++ "/" ++ sjoin "/" (w2 :: ws)).
    assert (IH' : wds true (sjoin "/" (w2 :: ws)) = true) by (apply IH; [discriminate|assumption]).
    clear IH Hall Hws. destruct w as [|c w]; [discriminate|]. clear Hn.
    (* walk through the word, then the slash *)
    assert (G : forall (u : string) p, sall word_char u = true -> u <> "" ->
                wds p (u ++ "/" ++ sjoin "/" (w2 :: ws)) = true).
    { induction u as [|d u IHu]; intros p Hu Hne'; [congruence|]. simpl in Hu. apply andb_true_iff in Hu as [Hd Hu].
      cbn [append wds]. rewrite (word_char_not_slash d Hd), Hd. simpl.
      destruct u as [|e u].
      - cbn [append wds]. change (is_slash "/") with true. simpl. exact IH'.
      - apply IHu; [assumption|discriminate]. }
    apply G; [assumption|discriminate].
Qed.

(* ------------------------------------------------------------------ atoms *)
Inductive var := VNs | VName | VVer | VSub | VSvc | VProto.
Inductive atom := Ch (c : ascii) | Var (v : var).
Definition valuation := var -> string.

Fixpoint conc (sg : valuation) (a : list atom) : string :=
  match a with
  | [] => ""
  | Ch c :: a' => String c (conc sg a')
  | Var v :: a' => sg v ++ conc sg a'
  end.
Fixpoint atoms_of (s : string) : list atom :=
  match s with EmptyString => [] | String c s' => Ch c :: atoms_of s' end.

Lemma conc_app sg a b : conc sg (a ++ b)%list = conc sg a ++ conc sg b.
Proof.
  induction a as [|x a IH]; [reflexivity|]. destruct x; simpl; rewrite IH; [reflexivity|]. now rewrite sapp_assoc.
Qed.
Lemma conc_atoms_of sg s : conc sg (atoms_of s) = s.
Proof. induction s as [|c s IH]; simpl; [reflexivity | now rewrite IH]. Qed.

Definition var_eqb (x y : var) : bool :=
  match x, y with
  | VNs, VNs | VName, VName | VVer, VVer | VSub, VSub | VSvc, VSvc | VProto, VProto => true
  | _, _ => false
  end.
Definition atom_eqb (x y : atom) : bool :=
  match x, y with Ch a, Ch b => Ascii.eqb a b | Var u, Var v => var_eqb u v | _, _ => false end.
Lemma var_eqb_eq x y : var_eqb x y = true -> x = y.
Proof. destruct x, y; simpl; congruence. Qed.
Lemma atom_eqb_eq x y : atom_eqb x y = true -> x = y.
Proof.
  destruct x, y; simpl; intro H; try discriminate.
  - apply Ascii.eqb_eq in H. now subst.
  - apply var_eqb_eq in H. now subst.
Qed.
Lemma atoms_eqb_eq a b : list_eqb atom_eqb a b = true -> a = b.
Proof.
  revert b. induction a as [|x a IH]; intros [|y b] H; simpl in H; try discriminate; [reflexivity|].
  apply andb_true_iff in H as [H1 H2]. apply atom_eqb_eq in H1. apply IH in H2. now subst.
Qed.

(* every variable occurring in the atoms has a '/'-separated-words value *)
Fixpoint good (sg : valuation) (a : list atom) : Prop :=
  match a with
  | [] => True
  | Ch _ :: a' => good sg a'
  | Var v :: a' => pathok (sg v) = true /\ good sg a'
  end.
Lemma good_app sg a b : good sg (a ++ b)%list <-> good sg a /\ good sg b.
Proof.
  induction a as [|x a IH]; simpl; [tauto|]. destruct x; [exact IH|]. rewrite IH. tauto.
Qed.

(* ------------------------------------------------------------------ symbolic str.replace *)
Inductive sres := SMatch (rest : list atom) | SNo | SAmb.
Fixpoint sym_strip (q : string) (a : list atom) : sres :=
  match q with
  | EmptyString => SMatch a
  | String x q' =>
      match a with
      | [] => SNo
      | Ch c :: a' => if Ascii.eqb x c then sym_strip q' a' else SNo
      | Var _ :: _ => SAmb
      end
  end.

Lemma sym_strip_match sg q : forall a rest, sym_strip q a = SMatch rest -> strip_prefix q (conc sg a) = Some (conc sg rest).
Proof.
  induction q as [|x q IH]; intros a rest H; simpl in H.
  - inversion H. reflexivity.
  - destruct a as [|[c|v] a]; try discriminate. destruct (Ascii.eqb x c) eqn:E; [|discriminate].
    simpl. rewrite E. now apply IH.
Qed.
Lemma sym_strip_no sg q : forall a, sym_strip q a = SNo -> strip_prefix q (conc sg a) = None.
Proof.
  induction q as [|x q IH]; intros a H; simpl in H; [discriminate|].
  destruct a as [|[c|v] a]; try discriminate; [reflexivity|].
  simpl. destruct (Ascii.eqb x c) eqn:E; [now apply IH | reflexivity].
Qed.

Lemma sym_strip_good sg : forall q0 l rest, good sg l -> sym_strip q0 l = SMatch rest -> good sg rest.
Proof.
  induction q0 as [|x q0 IHq]; intros l rest Hl Hs; cbn [sym_strip] in Hs.
  - inversion Hs. now subst.
  - destruct l as [|[c|y] l]; cbn iota beta in Hs; try discriminate.
    destruct (Ascii.eqb x c); [|discriminate]. apply (IHq l rest); [exact Hl | exact Hs].
Qed.

Fixpoint sym_replace (n : nat) (p : string) (v a : list atom) : option (list atom) :=
  match n with
  | O => None
  | S n' =>
      match a with
      | [] => Some []
      | Var x :: a' => option_map (cons (Var x)) (sym_replace n' p v a')
      | Ch c :: a' =>
          match sym_strip p a with
          | SMatch rest => option_map (app v) (sym_replace n' p v rest)
          | SNo => option_map (cons (Ch c)) (sym_replace n' p v a')
          | SAmb => None
          end
      end
  end.

(* markers start with a percent sign *)
Definition is_marker (p : string) : bool := match p with String c _ => Ascii.eqb c pct | EmptyString => false end.

(* values may not be needed to be good for the atoms that were consumed by a match, so goodness is asked of the input *)
Lemma sym_replace_sound sg p v : is_marker p = true -> forall n a a',
  good sg a -> sym_replace n p v a = Some a' -> replace p (conc sg v) (conc sg a) = conc sg a'.
Proof.
  intro Hm. destruct p as [|pc q]; [discriminate|]. cbn [is_marker] in Hm. apply Ascii.eqb_eq in Hm. subst pc.
  induction n as [|n IH]; intros a a' Hg H; [discriminate|].
  destruct a as [|[c|x] a]; cbn [sym_replace] in H.
  - inversion H. apply replace_nil.
  - destruct (sym_strip (String pct q) (Ch c :: a)) as [rest| |] eqn:E; [| |discriminate].
    + destruct (sym_replace n (String pct q) v rest) as [r|] eqn:Er; [|discriminate]. inversion H; subst a'.
      change (conc sg (Ch c :: a)) with (String c (conc sg a)).
      rewrite (replace_hit _ _ _ _ (conc sg rest)); [|discriminate|exact (sym_strip_match sg _ _ _ E)].
      rewrite conc_app. f_equal. apply IH; [|assumption].
      eapply sym_strip_good; [|exact E]. exact Hg.
    + destruct (sym_replace n (String pct q) v a) as [r|] eqn:Er; [|discriminate]. inversion H; subst a'.
      change (conc sg (Ch c :: a)) with (String c (conc sg a)).
      rewrite replace_miss; [|discriminate|exact (sym_strip_no sg _ _ E)].
      simpl. f_equal. apply IH; assumption.
  - destruct (sym_replace n (String pct q) v a) as [r|] eqn:Er; [|discriminate]. inversion H; subst a'.
    destruct Hg as [Hx Hg]. simpl.
    rewrite replace_skip_lit; [|exact (wds_no_pct _ _ Hx)]. f_equal. apply IH; assumption.
Qed.

Lemma sym_replace_good sg p v : forall n a a', good sg a -> good sg v -> sym_replace n p v a = Some a' -> good sg a'.
Proof.
  induction n as [|n IH]; intros a a' Ha Hv H; [discriminate|].
  destruct a as [|[c|x] a]; cbn [sym_replace] in H.
  - inversion H. exact I.
  - destruct (sym_strip p (Ch c :: a)) as [rest| |] eqn:E; [| |discriminate].
    + destruct (sym_replace n p v rest) as [r|] eqn:Er; [|discriminate]. inversion H; subst a'.
      apply good_app. split; [assumption|]. apply (IH rest r); [|exact Hv|exact Er]. eapply sym_strip_good; [|exact E]. exact Ha.
    + destruct (sym_replace n p v a) as [r|] eqn:Er; [|discriminate]. inversion H; subst a'. simpl. apply (IH a r); [exact Ha|exact Hv|exact Er].
  - destruct (sym_replace n p v a) as [r|] eqn:Er; [|discriminate]. inversion H; subst a'.
    destruct Ha as [Hx Ha]. simpl. split; [assumption|]. apply (IH a r); [exact Ha|exact Hv|exact Er].
Qed.

(* ------------------------------------------------------------------ symbolic lstrip("/") and squeeze *)
Fixpoint sym_lstrip (a : list atom) : list atom :=
  match a with
  | Ch c :: a' => if is_slash c then sym_lstrip a' else a
  | _ => a
  end.
Lemma sym_lstrip_sound sg a : good sg a -> lstrip_slash (conc sg a) = conc sg (sym_lstrip a).
Proof.
  induction a as [|[c|x] a IH]; intro Hg; [reflexivity| |].
  - simpl. unfold lstrip_slash. simpl. destruct (is_slash c); [apply IH, Hg | reflexivity].
  - destruct Hg as [Hx _]. simpl. now apply wds_lstrip.
Qed.
Lemma sym_lstrip_good sg a : good sg a -> good sg (sym_lstrip a).
Proof.
  induction a as [|[c|x] a IH]; intro Hg; simpl; auto. destruct (is_slash c); [apply IH, Hg | exact Hg].
Qed.

Fixpoint sym_squeeze (prev : bool) (a : list atom) : list atom :=
  match a with
  | [] => []
  | Ch c :: a' => if is_slash c then (if prev then sym_squeeze true a' else Ch c :: sym_squeeze true a')
                  else Ch c :: sym_squeeze false a'
  | Var x :: a' => Var x :: sym_squeeze false a'
  end.
Lemma sym_squeeze_sound sg : forall a b, good sg a -> squeeze_aux b (conc sg a) = conc sg (sym_squeeze b a).
Proof.
  induction a as [|[c|x] a IH]; intros b Hg; [reflexivity| |].
  - simpl. destruct (is_slash c); [destruct b; simpl; rewrite ?IH; auto | simpl; now rewrite IH].
  - destruct Hg as [Hx Hg]. simpl. rewrite (wds_squeeze _ true b); [|assumption|discriminate]. now rewrite IH.
Qed.
Lemma sym_squeeze_good sg : forall a b, good sg a -> good sg (sym_squeeze b a).
Proof.
  induction a as [|[c|x] a IH]; intros b Hg; simpl; auto.
  - destruct (is_slash c); [destruct b; simpl; auto | simpl; auto].
  - destruct Hg. split; auto.
Qed.

(* ------------------------------------------------------------------ symbolic _get_filename *)
Record flags := { fl_ns : bool; fl_ver : bool; fl_sub : bool; fl_old : bool; fl_svc : bool; fl_proto : bool }.
Definition opt_atoms (b : bool) (v : var) : list atom := if b then [Var v] else [].
Definition nv_atoms (f : flags) : list atom :=
  Var VName :: (if fl_ver f then [Ch (if fl_old f then "."%char else "_"%char); Var VVer] else []).
Definition obind {A B} (o : option A) (g : A -> option B) : option B := match o with Some a => g a | None => None end.

Definition sym_filename (f : flags) (tpl : string) : option (list atom) :=
  let n := 2 * String.length tpl + 10 in
  let a0 := atoms_of (drop_last 3 tpl) in
  obind (sym_replace n "%namespace" (opt_atoms (fl_ns f) VNs) a0) (fun a1 =>
  obind (sym_replace n "%name_%version" (nv_atoms f) (sym_lstrip a1)) (fun a2 =>
  obind (sym_replace n "%version" (opt_atoms (fl_ver f) VVer) a2) (fun a3 =>
  obind (sym_replace n "%name" [Var VName] a3) (fun a4 =>
  obind (sym_replace n "%sub" (opt_atoms (fl_sub f) VSub) a4) (fun a5 =>
  obind (if fl_svc f then sym_replace n "%service" [Var VSvc] a5 else Some a5) (fun a6 =>
  obind (if fl_proto f then sym_replace n "%proto" [Var VProto] a6 else Some a6) (fun a7 =>
  Some (sym_squeeze false a7)))))))).

(* the concrete context a valuation and flags stand for *)
Definition opt_val (b : bool) (s : string) : string := if b then s else "".
Definition ctx_of_val (sg : valuation) (f : flags) : fctx :=
  {| c_ns := opt_val (fl_ns f) (sg VNs); c_nv := conc sg (nv_atoms f); c_ver := opt_val (fl_ver f) (sg VVer);
     c_name := sg VName; c_sub := opt_val (fl_sub f) (sg VSub);
     c_service := if fl_svc f then Some (sg VSvc) else None; c_proto := if fl_proto f then Some (sg VProto) else None |}.

(* the values the flags make visible are '/'-separated words *)
Definition val_ok (sg : valuation) (f : flags) : Prop :=
  pathok (sg VName) = true /\ (fl_ns f = true -> pathok (sg VNs) = true) /\ (fl_ver f = true -> pathok (sg VVer) = true)
  /\ (fl_sub f = true -> pathok (sg VSub) = true) /\ (fl_svc f = true -> pathok (sg VSvc) = true)
  /\ (fl_proto f = true -> pathok (sg VProto) = true).

Lemma conc_opt_atoms sg b v : conc sg (opt_atoms b v) = opt_val b (sg v).
Proof. destruct b; simpl; [apply sapp_nil_r | reflexivity]. Qed.
Lemma good_opt_atoms sg b v : (b = true -> pathok (sg v) = true) -> good sg (opt_atoms b v).
Proof. destruct b; simpl; auto. Qed.
Lemma good_atoms_of sg s : good sg (atoms_of s).
Proof. induction s; simpl; auto. Qed.

(* THE homomorphism lemma: for every template on which the symbolic run succeeds and every valuation of words,
   the string-level _get_filename produces exactly the concretisation of the symbolic result *)
Lemma get_filename_sound sg f tpl r :
  val_ok sg f -> sym_filename f tpl = Some r ->
  get_filename tpl (ctx_of_val sg f) = conc sg r /\ good sg r.
Proof.
  intros (Hname & Hns & Hver & Hsub & Hsvc & Hproto) H.
  unfold sym_filename in H. set (n := 2 * String.length tpl + 10) in *.
  assert (Gnv : good sg (nv_atoms f)).
  { unfold nv_atoms. simpl. split; [assumption|]. destruct (fl_ver f); simpl; auto. }
  destruct (sym_replace n "%namespace" _ _) as [a1|] eqn:E1; [|discriminate]. cbn [obind] in H.
  destruct (sym_replace n "%name_%version" _ _) as [a2|] eqn:E2; [|discriminate]. cbn [obind] in H.
  destruct (sym_replace n "%version" _ _) as [a3|] eqn:E3; [|discriminate]. cbn [obind] in H.
  destruct (sym_replace n "%name" _ _) as [a4|] eqn:E4; [|discriminate]. cbn [obind] in H.
  destruct (sym_replace n "%sub" _ _) as [a5|] eqn:E5; [|discriminate]. cbn [obind] in H.
  assert (G0 : good sg (atoms_of (drop_last 3 tpl))) by apply good_atoms_of.
  assert (G1 : good sg a1) by (eapply sym_replace_good; [exact G0| |exact E1]; now apply good_opt_atoms).
  assert (G1' : good sg (sym_lstrip a1)) by now apply sym_lstrip_good.
  assert (G2 : good sg a2) by (eapply sym_replace_good; [exact G1'|exact Gnv|exact E2]).
  assert (G3 : good sg a3) by (eapply sym_replace_good; [exact G2| |exact E3]; now apply good_opt_atoms).
  assert (G4 : good sg a4) by (eapply sym_replace_good; [exact G3| |exact E4]; simpl; auto).
  assert (G5 : good sg a5) by (eapply sym_replace_good; [exact G4| |exact E5]; now apply good_opt_atoms).
  assert (S1 : lstrip_slash (replace "%namespace" (opt_val (fl_ns f) (sg VNs)) (drop_last 3 tpl)) = conc sg (sym_lstrip a1)).
  { rewrite <- conc_opt_atoms. rewrite <- (conc_atoms_of sg (drop_last 3 tpl)).
    rewrite (sym_replace_sound sg "%namespace" _ eq_refl n _ a1 G0 E1). apply sym_lstrip_sound, G1. }
  assert (S2 : replace "%name_%version" (conc sg (nv_atoms f)) (conc sg (sym_lstrip a1)) = conc sg a2)
    by exact (sym_replace_sound sg "%name_%version" _ eq_refl n _ a2 G1' E2).
  assert (S3 : replace "%version" (opt_val (fl_ver f) (sg VVer)) (conc sg a2) = conc sg a3).
  { rewrite <- conc_opt_atoms. exact (sym_replace_sound sg "%version" _ eq_refl n _ a3 G2 E3). }
  assert (S4 : replace "%name" (sg VName) (conc sg a3) = conc sg a4).
  { replace (sg VName) with (conc sg [Var VName]) by (simpl; apply sapp_nil_r).
    exact (sym_replace_sound sg "%name" _ eq_refl n _ a4 G3 E4). }
  assert (S5 : replace "%sub" (opt_val (fl_sub f) (sg VSub)) (conc sg a4) = conc sg a5).
  { rewrite <- conc_opt_atoms. exact (sym_replace_sound sg "%sub" _ eq_refl n _ a5 G4 E5). }
  assert (S6 : forall a a', good sg a -> sym_replace n "%service" [Var VSvc] a = Some a' ->
               replace "%service" (sg VSvc) (conc sg a) = conc sg a').
  { intros a a' Ga Ea. replace (sg VSvc) with (conc sg [Var VSvc]) by (simpl; apply sapp_nil_r).
    exact (sym_replace_sound sg "%service" _ eq_refl n _ a' Ga Ea). }
  assert (S7 : forall a a', good sg a -> sym_replace n "%proto" [Var VProto] a = Some a' ->
               replace "%proto" (sg VProto) (conc sg a) = conc sg a').
  { intros a a' Ga Ea. replace (sg VProto) with (conc sg [Var VProto]) by (simpl; apply sapp_nil_r).
    exact (sym_replace_sound sg "%proto" _ eq_refl n _ a' Ga Ea). }
  unfold get_filename. cbv zeta. unfold ctx_of_val. cbn [c_ns c_nv c_ver c_name c_sub c_service c_proto].
  rewrite S1, S2, S3, S4, S5. unfold squeeze.
  destruct (fl_svc f) eqn:Fs.
  - destruct (sym_replace n "%service" _ a5) as [a6|] eqn:E6; [|discriminate]. cbn [obind] in H.
    assert (G6 : good sg a6) by (eapply sym_replace_good; [exact G5| |exact E6]; simpl; auto).
    rewrite (S6 a5 a6 G5 E6).
    destruct (fl_proto f) eqn:Fp.
    + destruct (sym_replace n "%proto" _ a6) as [a7|] eqn:E7; [|discriminate]. cbn [obind] in H. inversion H; subst r.
      assert (G7 : good sg a7) by (eapply sym_replace_good; [exact G6| |exact E7]; simpl; auto).
      rewrite (S7 a6 a7 G6 E7).
      split; [apply sym_squeeze_sound, G7 | apply sym_squeeze_good, G7].
    + cbn [obind] in H. inversion H; subst r.
      split; [apply sym_squeeze_sound, G6 | apply sym_squeeze_good, G6].
  - cbn [obind] in H. destruct (fl_proto f) eqn:Fp.
    + destruct (sym_replace n "%proto" _ a5) as [a7|] eqn:E7; [|discriminate]. cbn [obind] in H. inversion H; subst r.
      assert (G7 : good sg a7) by (eapply sym_replace_good; [exact G5| |exact E7]; simpl; auto).
      rewrite (S7 a5 a7 G5 E7).
      split; [apply sym_squeeze_sound, G7 | apply sym_squeeze_good, G7].
    + cbn [obind] in H. inversion H; subst r.
      split; [apply sym_squeeze_sound, G5 | apply sym_squeeze_good, G5].
Qed.

(* ------------------------------------------------------------------ symbolic predicates on results *)
(* normalised: run the segment automaton over the atoms; a variable (non-empty words joined by slashes) leaves it in NOther *)
Fixpoint sym_norm (st : nstate) (a : list atom) : bool :=
  match a with
  | [] => match st with NOther => true | _ => false end
  | Ch c :: a' => match nstep st c with Some st' => sym_norm st' a' | None => false end
  | Var _ :: a' => sym_norm NOther a'
  end.
Lemma sym_norm_sound sg : forall a st, good sg a -> sym_norm st a = true -> norm_aux st (conc sg a) = true.
Proof.
  induction a as [|[c|x] a IH]; intros st Hg H; simpl in *; [assumption| |].
  - destruct (nstep st c); [auto|discriminate].
  - destruct Hg as [Hx Hg]. rewrite (wds_norm _ true st); [auto|assumption|discriminate].
Qed.

Fixpoint atoms_prefix (p a : list atom) : bool :=
  match p, a with
  | [], _ => true
  | x :: p', y :: a' => atom_eqb x y && atoms_prefix p' a'
  | _, [] => false
  end.
Lemma atoms_prefix_sound sg p : forall a, atoms_prefix p a = true -> exists rest, conc sg a = conc sg p ++ conc sg rest.
Proof.
  induction p as [|x p IH]; intros a H; [exists a; reflexivity|].
  destruct a as [|y a]; [discriminate|]. simpl in H. apply andb_true_iff in H as [E H].
  apply atom_eqb_eq in E. subst y. destruct (IH a H) as [rest Hr]. exists rest.
  destruct x; simpl; rewrite Hr; [reflexivity | now rewrite sapp_assoc].
Qed.

Definition all_flags : list flags :=
  flat_map (fun a => flat_map (fun b => flat_map (fun c => flat_map (fun d => flat_map (fun e => map (fun g =>
    {| fl_ns := a; fl_ver := b; fl_sub := c; fl_old := d; fl_svc := e; fl_proto := g |}) [true; false])
    [true; false]) [true; false]) [true; false]) [true; false]) [true; false].
Lemma all_flags_complete f : In f all_flags.
Proof. destruct f as [[] [] [] [] [] []]; vm_compute; tauto. Qed.
