From GV Require Import Base.Str Model.Mock.

Lemma contains_app_false c a b : contains c a = false -> contains c b = false -> contains c (a ++ b) = false.
Proof. intros. rewrite contains_app. now rewrite H, H0. Qed.

Lemma digit_no_slash n : n < 10 -> Ascii.eqb (digit n) "/"%char = false.
Proof. intro H. do 10 (destruct n as [|n]; [vm_compute; reflexivity|]). lia. Qed.

Lemma dec_aux_no_slash fuel : forall n acc, contains "/"%char acc = false -> contains "/"%char (dec_aux fuel n acc) = false.
Proof.
  induction fuel as [|f IH]; intros n acc H; cbn [dec_aux]; [exact H|].
  assert (Hd : contains "/"%char (String (digit (n mod 10)) acc) = false).
  { cbn [contains]. rewrite H. rewrite digit_no_slash; [reflexivity|]. apply Nat.mod_upper_bound. lia. }
  destruct (Nat.ltb n 10); [exact Hd | now apply IH].
Qed.

Lemma sample_name_ok n : seg_ok (sample_name n) = true.
Proof.
  unfold seg_ok, sample_name. simpl. unfold dec.
  rewrite (dec_aux_no_slash (S n) n ""); reflexivity.
Qed.

Lemma any_matches_here t v : matches t v = true ->
  (fix any (v : list string) : bool := matches t v || match v with x :: v' => seg_ok x && any v' | [] => false end) v = true.
Proof. intro H. destruct v; rewrite H; reflexivity. Qed.

(* the sample value of a template always matches that template, whatever the counter *)
Lemma sample_matches : forall t k, matches t (fst (instantiate k t)) = true.
Proof.
  induction t as [|s t IH]; intro k; simpl; [reflexivity|].
  destruct s as [l| |].
  - specialize (IH k). destruct (instantiate k t) as [r k']. simpl in *. now rewrite String.eqb_refl.
  - specialize (IH (S k)). destruct (instantiate (S k) t) as [r k']. cbn [fst matches] in *. rewrite sample_name_ok. exact IH.
  - specialize (IH (S k)). destruct (instantiate (S k) t) as [r k']. cbn [fst matches] in *.
    rewrite sample_name_ok. cbn [andb]. rewrite (any_matches_here t r IH). now rewrite orb_true_r.
Qed.

(* counters only grow, so the names used for different wildcards are pairwise different *)
Lemma instantiate_counter : forall t k, k <= snd (instantiate k t).
Proof.
  induction t as [|s t IH]; intro k; simpl; [lia|].
  destruct s; [specialize (IH k) | specialize (IH (S k)) | specialize (IH (S k))];
    destruct (instantiate _ t) as [r k']; simpl in *; lia.
Qed.

(* ---- typed path fields ---- *)
Lemma dec_aux_nonempty fuel : forall n acc, fuel <> 0 -> dec_aux fuel n acc <> "".
Proof.
  induction fuel as [|f IH]; intros n acc H; [congruence|]. cbn [dec_aux].
  destruct (Nat.ltb n 10); [discriminate|].
  destruct f as [|f']; [cbn [dec_aux]; discriminate|]. apply IH. discriminate.
Qed.

Lemma dec_seg_ok n : seg_ok (dec n) = true.
Proof.
  unfold seg_ok, dec. rewrite (dec_aux_no_slash (S n) n "") by reflexivity.
  destruct (dec_aux (S n) n "") eqn:E; [|reflexivity].
  exfalso. revert E. apply dec_aux_nonempty. discriminate.
Qed.

(* a non-string path field bound to the default single-segment template is rendered as one valid segment *)
Lemma typed_nonstring_matches v : (exists n, v = VI n) \/ (exists b, v = VB b) -> matches [SStar] (render v) = true.
Proof.
  intros [[n ->]|[b ->]]; cbn [render matches].
  - rewrite dec_seg_ok. reflexivity.
  - destruct b; reflexivity.
Qed.
