(* Proofs/Selective.v -- lemmas about Model/Selective.v (C16). *)
From GV Require Import Base.Str Gen.SelectiveKw Model.Selective.
From Coq Require Import Lia.
Open Scope list_scope.

(* ---------------------------------------------------------------- membership *)
Lemma mem_In a l : mem a l = true <-> In a l.
Proof.
  unfold mem, mem_str. rewrite existsb_exists. split.
  - intros [x [Hin He]]. apply String.eqb_eq in He. now subst.
  - intros H. exists a. split; [assumption | apply String.eqb_refl].
Qed.

Lemma mem_false a l : mem a l = false <-> ~ In a l.
Proof.
  rewrite <- mem_In. destruct (mem a l); split; intros H.
  - discriminate.
  - exfalso. now apply H.
  - intros H'. discriminate.
  - reflexivity.
Qed.

(* ---------------------------------------------------------------- the traversal *)
Section DfsFacts.
  Variable next : addr -> list addr.

  Lemma dfs_nil n seen : dfs next n [] seen = Some seen.
  Proof. destruct n; reflexivity. Qed.

  Lemma dfs_cons n a rest seen :
    dfs next n (a :: rest) seen =
    if mem a seen then dfs next n rest seen
    else match n with O => None | S n' => dfs next n' (next a ++ rest) (a :: seen) end.
  Proof. destruct n; reflexivity. Qed.

  Lemma reach_left a t x : In t (next a) -> reach next t x -> reach next a x.
  Proof.
    intros Hin Hr. induction Hr as [t | t b c Hr IH Hc].
    - eapply reach_step; [apply reach_refl | exact Hin].
    - eapply reach_step; [apply IH; exact Hin | exact Hc].
  Qed.

  (* whatever was seen or is still to do ends up in the result *)
  Lemma dfs_mono : forall n todo seen r,
    dfs next n todo seen = Some r -> incl seen r /\ incl todo r.
  Proof.
    induction n as [|n IHn]; induction todo as [|a rest IHt]; intros seen r H.
    - rewrite dfs_nil in H. inversion H; subst. split; [apply incl_refl | apply incl_nil_l].
    - rewrite dfs_cons in H. destruct (mem a seen) eqn:Em; [|discriminate].
      destruct (IHt _ _ H) as [Hs Ht]. split; [exact Hs|].
      intros x [Hx|Hx]; [subst x; apply Hs; now apply mem_In | now apply Ht].
    - rewrite dfs_nil in H. inversion H; subst. split; [apply incl_refl | apply incl_nil_l].
    - rewrite dfs_cons in H. destruct (mem a seen) eqn:Em.
      + destruct (IHt _ _ H) as [Hs Ht]. split; [exact Hs|].
        intros x [Hx|Hx]; [subst x; apply Hs; now apply mem_In | now apply Ht].
      + destruct (IHn _ _ _ H) as [Hs Ht]. split.
        * intros x Hx. apply Hs. now right.
        * intros x [Hx|Hx]; [subst x; apply Hs; now left | apply Ht; apply in_or_app; now right].
  Qed.

  (* if every successor of a seen address is seen or pending, the result is closed *)
  Lemma dfs_closed : forall n todo seen r,
    dfs next n todo seen = Some r ->
    (forall a b, In a seen -> In b (next a) -> In b seen \/ In b todo) ->
    forall a b, In a r -> In b (next a) -> In b r.
  Proof.
    induction n as [|n IHn]; induction todo as [|a0 rest IHt]; intros seen r H Hinv.
    - rewrite dfs_nil in H. inversion H; subst. intros a b Ha Hb.
      destruct (Hinv a b Ha Hb) as [Hx|[]]; exact Hx.
    - rewrite dfs_cons in H. destruct (mem a0 seen) eqn:Em; [|discriminate].
      apply (IHt _ _ H). intros a b Ha Hb.
      destruct (Hinv a b Ha Hb) as [Hx|[Hx|Hx]]; [now left | subst b; left; now apply mem_In | now right].
    - rewrite dfs_nil in H. inversion H; subst. intros a b Ha Hb.
      destruct (Hinv a b Ha Hb) as [Hx|[]]; exact Hx.
    - rewrite dfs_cons in H. destruct (mem a0 seen) eqn:Em.
      + apply (IHt _ _ H). intros a b Ha Hb.
        destruct (Hinv a b Ha Hb) as [Hx|[Hx|Hx]]; [now left | subst b; left; now apply mem_In | now right].
      + apply (IHn _ _ _ H). intros a b [Ha|Ha] Hb.
        * subst a. right. apply in_or_app. now left.
        * destruct (Hinv a b Ha Hb) as [Hx|[Hx|Hx]].
          -- left. now right.
          -- subst b. left. now left.
          -- right. apply in_or_app. now right.
  Qed.

  (* nothing else: every member of the result was seen before or is reachable from a pending address *)
  Lemma dfs_sound : forall n todo seen r,
    dfs next n todo seen = Some r ->
    forall x, In x r -> In x seen \/ exists t, In t todo /\ reach next t x.
  Proof.
    induction n as [|n IHn]; induction todo as [|a0 rest IHt]; intros seen r H x Hx.
    - rewrite dfs_nil in H. inversion H; subst. now left.
    - rewrite dfs_cons in H. destruct (mem a0 seen) eqn:Em; [|discriminate].
      destruct (IHt _ _ H x Hx) as [Hs|[t [Ht Hr]]]; [now left|]. right. exists t. split; [now right | exact Hr].
    - rewrite dfs_nil in H. inversion H; subst. now left.
    - rewrite dfs_cons in H. destruct (mem a0 seen) eqn:Em.
      + destruct (IHt _ _ H x Hx) as [Hs|[t [Ht Hr]]]; [now left|]. right. exists t. split; [now right | exact Hr].
      + destruct (IHn _ _ _ H x Hx) as [[Hs|Hs]|[t [Ht Hr]]].
        * subst x. right. exists a0. split; [now left | apply reach_refl].
        * now left.
        * right. apply in_app_or in Ht. destruct Ht as [Ht|Ht].
          -- exists a0. split; [now left | eapply reach_left; eauto].
          -- exists t. split; [now right | exact Hr].
  Qed.

  (* the bound suffices: with a finite universe closed under [next], n >= |U| - |seen| never runs out *)
  Lemma dfs_total : forall (U : list addr),
    (forall a, incl (next a) U) ->
    forall n todo seen,
      NoDup seen -> incl seen U -> incl todo U -> length U <= n + length seen ->
      exists r, dfs next n todo seen = Some r.
  Proof.
    intros U HU. induction n as [|n IHn]; induction todo as [|a0 rest IHt]; intros seen Hnd Hs Ht Hlen.
    - eexists. apply dfs_nil.
    - rewrite dfs_cons. destruct (mem a0 seen) eqn:Em.
      + apply IHt; try assumption. intros x Hx. apply Ht. now right.
      + exfalso. apply mem_false in Em.
        assert (Hnd' : NoDup (a0 :: seen)) by (constructor; assumption).
        assert (Hin' : incl (a0 :: seen) U).
        { intros x [Hx|Hx]; [subst x; apply Ht; now left | now apply Hs]. }
        pose proof (NoDup_incl_length Hnd' Hin') as Hl. simpl in Hl. lia.
    - eexists. apply dfs_nil.
    - rewrite dfs_cons. destruct (mem a0 seen) eqn:Em.
      + apply IHt; try assumption. intros x Hx. apply Ht. now right.
      + apply mem_false in Em. apply IHn.
        * constructor; assumption.
        * intros x [Hx|Hx]; [subst x; apply Ht; now left | now apply Hs].
        * intros x Hx. apply in_app_or in Hx. destruct Hx as [Hx|Hx]; [now apply (HU a0) | apply Ht; now right].
        * simpl. lia.
  Qed.
End DfsFacts.

(* the result stays duplicate-free and inside the universe *)
Section DfsInv.
  Variable next : addr -> list addr.
  Variable U : list addr.
  Hypothesis HU : forall a, incl (next a) U.

  Lemma dfs_nodup_incl : forall n todo seen r,
    NoDup seen -> incl seen U -> incl todo U -> dfs next n todo seen = Some r -> NoDup r /\ incl r U.
  Proof.
    induction n as [|n IHn]; induction todo as [|a0 rest IHt]; intros seen r Hnd Hs Ht H.
    - rewrite dfs_nil in H. inversion H; subst. split; assumption.
    - rewrite dfs_cons in H. destruct (mem a0 seen) eqn:Em; [|discriminate].
      apply (IHt seen r); try assumption. intros x Hx. apply Ht. now right.
    - rewrite dfs_nil in H. inversion H; subst. split; assumption.
    - rewrite dfs_cons in H. destruct (mem a0 seen) eqn:Em.
      + apply (IHt seen r); try assumption. intros x Hx. apply Ht. now right.
      + apply mem_false in Em. apply (IHn (next a0 ++ rest) (a0 :: seen) r); try assumption.
        * constructor; assumption.
        * intros x [Hx|Hx]; [subst x; apply Ht; now left | now apply Hs].
        * intros x Hx. apply in_app_or in Hx. destruct Hx as [Hx|Hx]; [now apply (HU a0) | apply Ht; now right].
  Qed.
End DfsInv.

Section MsgInd.
  Variable P : msg -> Prop.
  Hypothesis Hstep : forall a fs es ns, Forall P ns -> P (Msg a fs es ns).
  Fixpoint msg_ind' (m : msg) : P m :=
    match m with
    | Msg a fs es ns =>
        Hstep a fs es ns
          ((fix go (l : list msg) : Forall P l :=
              match l with
              | [] => Forall_nil P
              | x :: l' => Forall_cons x (msg_ind' x) (go l')
              end) ns)
    end.
End MsgInd.

Lemma flat_self m : In m (flat m).
Proof. destruct m as [a fs es ns]. simpl. apply in_or_app. right. now left. Qed.

Lemma flat_nested : forall t m n, In m (flat t) -> In n (m_nested m) -> In n (flat t).
Proof.
  induction t as [a fs es ns IH] using msg_ind'. intros m n Hm Hn. simpl in *.
  apply in_app_or in Hm. apply in_or_app. destruct Hm as [Hm|[Hm|[]]].
  - left. apply in_flat_map in Hm. destruct Hm as [c [Hc Hm]]. apply in_flat_map. exists c. split; [assumption|].
    rewrite Forall_forall in IH. eapply IH; eauto.
  - left. subst m. simpl in Hn. apply in_flat_map. exists n. split; [assumption | apply flat_self].
Qed.

Lemma table_nested g m n : In m (table g) -> In n (m_nested m) -> In n (table g).
Proof.
  unfold table, all_msgs. intros Hm Hn. apply in_flat_map in Hm. destruct Hm as [f [Hf Hm]].
  apply in_flat_map in Hm. destruct Hm as [t [Ht Hm]].
  apply in_flat_map. exists f. split; [assumption|]. apply in_flat_map. exists t. split; [assumption|].
  eapply flat_nested; eauto.
Qed.

Lemma flat_addr_rendered : forall t m, In m (flat t) -> In (m_addr m) (rendered_from t).
Proof.
  induction t as [a fs es ns IH] using msg_ind'. intros m Hm. simpl in *.
  apply in_app_or in Hm. destruct Hm as [Hm|[Hm|[]]].
  - right. apply in_or_app. right. apply in_flat_map in Hm. destruct Hm as [c [Hc Hm]].
    apply in_flat_map. exists c. split; [assumption|]. rewrite Forall_forall in IH. now apply IH.
  - subst m. now left.
Qed.


(* ---------------------------------------------------------------- the universe of a graph *)
Lemma succ_in_universe g rs a : incl (succ g a) (universe g rs).
Proof.
  unfold succ, universe. destruct (find_msg g a) as [m|] eqn:E; [|apply incl_nil_l].
  unfold find_msg in E. apply find_some in E. destruct E as [Hin _].
  intros x Hx. apply in_or_app. right. apply in_or_app. right. apply in_flat_map. exists m. split; assumption.
Qed.

Lemma tops_in_table g m : In m (tops g) -> In m (table g).
Proof.
  unfold tops, table, all_msgs. intros H. apply in_flat_map in H. destruct H as [f [Hf Hm]].
  apply filter_In in Hf. destruct Hf as [Hf _].
  apply in_flat_map. exists f. split; [assumption|]. apply in_flat_map. exists m. split; [assumption | apply flat_self].
Qed.

Lemma tops_in_universe g rs m : In m (tops g) -> In (m_addr m) (universe g rs).
Proof.
  intros H. unfold universe. apply in_or_app. right. apply in_or_app. left. apply in_map. now apply tops_in_table.
Qed.

(* ---------------------------------------------------------------- descendants *)
Lemma rendered_from_desc m : rendered_from m = m_addr m :: desc m.
Proof. destruct m; reflexivity. Qed.

Lemma has_desc_spec al : forall m, has_desc al m = true <-> exists d, In d (desc m) /\ In d al.
Proof.
  induction m as [a fs es ns IH] using msg_ind'. rewrite Forall_forall in IH.
  unfold desc. simpl. rewrite orb_true_iff. rewrite !existsb_exists. split.
  - intros [[e [He Hm]]|[n [Hn Hm]]].
    + exists e. split; [apply in_or_app; now left | now apply mem_In].
    + apply orb_true_iff in Hm. destruct Hm as [Hm|Hm].
      * exists (m_addr n). split; [|now apply mem_In]. apply in_or_app. right. apply in_flat_map. exists n.
        split; [assumption|]. rewrite rendered_from_desc. now left.
      * apply (IH n Hn) in Hm. destruct Hm as [d [Hd Hal]]. exists d. split; [|assumption].
        apply in_or_app. right. apply in_flat_map. exists n. split; [assumption|]. rewrite rendered_from_desc. now right.
  - intros [d [Hd Hal]]. apply in_app_or in Hd. destruct Hd as [Hd|Hd].
    + left. exists d. split; [assumption | now apply mem_In].
    + right. apply in_flat_map in Hd. destruct Hd as [n [Hn Hd]]. exists n. split; [assumption|].
      rewrite rendered_from_desc in Hd. apply orb_true_iff. destruct Hd as [Hd|Hd].
      * left. subst d. now apply mem_In.
      * right. apply (IH n Hn). exists d. split; assumption.
Qed.

(* ---------------------------------------------------------------- the closing loop *)
Definition edge (g : graph) (a b : addr) : Prop := In b (succ g a).
Definition closed (g : graph) (al : list addr) : Prop := forall a b, In a al -> edge g a b -> In b al.
(* the allow-list is closed under outermost enclosing messages *)
Definition enclosed (g : graph) (al : list addr) : Prop :=
  forall top d, In top (tops g) -> In d (desc top) -> In d al -> In (m_addr top) al.
(* one step of the extended relation: an edge of the address graph, or from a declaration to the
   top-level message of a target file that encloses it *)
Definition estep (g : graph) (a b : addr) : Prop :=
  edge g a b \/ exists top, In top (tops g) /\ m_addr top = b /\ In a (desc top).
Inductive ereach (g : graph) : addr -> addr -> Prop :=
| er_refl : forall a, ereach g a a
| er_step : forall a b c, ereach g a b -> estep g b c -> ereach g a c.

Lemma reach_ereach g a b : reach (succ g) a b -> ereach g a b.
Proof.
  intros H. induction H as [a | a b c H IH Hc]; [apply er_refl|].
  eapply er_step; [exact IH | now left].
Qed.

Lemma ereach_trans g a b c : ereach g a b -> ereach g b c -> ereach g a c.
Proof.
  intros H1 H2. induction H2 as [b | b c d H2 IH Hd]; [assumption|].
  eapply er_step; [apply IH; assumption | exact Hd].
Qed.

Definition missing (T : list msg) (al : list addr) : nat :=
  length (filter (fun m => negb (mem (m_addr m) al)) T).

Lemma missing_mono T al al' : incl al al' -> missing T al' <= missing T al.
Proof.
  intros Hi. unfold missing. induction T as [|m T IH]; simpl; [lia|].
  destruct (mem (m_addr m) al) eqn:E.
  - apply mem_In in E. apply Hi in E. apply mem_In in E. rewrite E. simpl. exact IH.
  - destruct (mem (m_addr m) al'); simpl; lia.
Qed.

Lemma missing_strict T al al' m :
  incl al al' -> In m T -> ~ In (m_addr m) al -> In (m_addr m) al' -> missing T al' < missing T al.
Proof.
  intros Hi Hm Hn Hy. unfold missing. induction T as [|x T IH]; [destruct Hm|]. simpl.
  pose proof (missing_mono T al al' Hi) as Hmono. unfold missing in Hmono.
  destruct Hm as [Hm|Hm].
  - subst x. apply mem_false in Hn. apply mem_In in Hy. rewrite Hn, Hy. simpl. lia.
  - specialize (IH Hm). destruct (mem (m_addr x) al) eqn:E.
    + apply mem_In in E. apply Hi in E. apply mem_In in E. rewrite E. simpl. exact IH.
    + destruct (mem (m_addr x) al'); simpl; lia.
Qed.

Section Closing.
  Variable g : graph.
  Variable U : list addr.
  Variable rs : list addr.
  Hypothesis HU : forall a, incl (succ g a) U.
  Hypothesis HT : forall m, In m (tops g) -> In (m_addr m) U.
  Let n := length U.

  Definition inv (al : list addr) : Prop := NoDup al /\ incl al U.
  Definition grounded (al : list addr) : Prop := forall x, In x al -> exists r, In r rs /\ ereach g r x.

  Lemma close_pass_cons m rest al :
    close_pass g n (m :: rest) al =
    if negb (mem (m_addr m) al) && has_desc al m then
      match dfs (succ g) n [m_addr m] al with
      | None => None
      | Some al1 => match close_pass g n rest al1 with
                    | None => None
                    | Some (al2, _) => Some (al2, true)
                    end
      end
    else close_pass g n rest al.
  Proof. reflexivity. Qed.

  (* what one traversal started inside the loop does *)
  Lemma loop_dfs m al al1 :
    In m (tops g) -> inv al -> dfs (succ g) n [m_addr m] al = Some al1 ->
    incl al al1 /\ In (m_addr m) al1 /\ inv al1 /\ (closed g al -> closed g al1) /\
    (has_desc al m = true -> grounded al -> grounded al1).
  Proof.
    intros Hm [Hnd Hin] H.
    destruct (dfs_mono _ _ _ _ _ H) as [Hs Ht].
    split; [exact Hs|]. split; [apply Ht; now left|]. split.
    { apply (dfs_nodup_incl (succ g) U HU n [m_addr m] al al1); try assumption.
      intros x [Hx|[]]. subst x. now apply HT. }
    split.
    - intros Hc a b Ha Hb. refine (dfs_closed _ _ _ _ _ H _ a b Ha Hb).
      intros a' b' Ha' Hb'. left. exact (Hc a' b' Ha' Hb').
    - intros Hd Hg x Hx. destruct (dfs_sound _ _ _ _ _ H x Hx) as [Hx'|[t [[Ht'|[]] Hr]]]; [now apply Hg|].
      subst t. apply has_desc_spec in Hd. destruct Hd as [d [Hd Hal]].
      destruct (Hg d Hal) as [r [Hr1 Hr2]]. exists r. split; [assumption|].
      eapply ereach_trans; [|apply reach_ereach; exact Hr].
      eapply er_step; [exact Hr2|]. right. exists m. repeat split; assumption.
  Qed.

  Lemma close_pass_total : forall ts al,
    incl ts (tops g) -> inv al -> exists al' b, close_pass g n ts al = Some (al', b).
  Proof.
    induction ts as [|m rest IH]; intros al Hts Hinv.
    - simpl. eauto.
    - rewrite close_pass_cons.
      assert (Hrest : incl rest (tops g)) by (intros x Hx; apply Hts; now right).
      destruct (negb (mem (m_addr m) al) && has_desc al m) eqn:Ec; [|now apply IH].
      destruct Hinv as [Hnd Hin].
      destruct (dfs_total (succ g) U HU n [m_addr m] al Hnd Hin) as [al1 H1].
      + intros x [Hx|[]]. subst x. apply HT. apply Hts. now left.
      + unfold n. lia.
      + rewrite H1. assert (Hm : In m (tops g)) by (apply Hts; now left).
        destruct (loop_dfs m al al1 Hm (conj Hnd Hin) H1) as [_ [_ [Hinv1 _]]].
        destruct (IH al1 Hrest Hinv1) as [al2 [b H2]]. rewrite H2. eauto.
  Qed.

  Lemma close_pass_props : forall ts al al' b,
    incl ts (tops g) -> inv al -> close_pass g n ts al = Some (al', b) ->
    incl al al' /\ inv al' /\ (closed g al -> closed g al') /\ (grounded al -> grounded al') /\
    (b = false -> al' = al /\ forall m, In m ts -> In (m_addr m) al \/ has_desc al m = false) /\
    (b = true -> exists m, In m ts /\ ~ In (m_addr m) al /\ In (m_addr m) al').
  Proof.
    induction ts as [|m rest IH]; intros al al' b Hts Hinv H.
    - simpl in H. inversion H; subst. split; [apply incl_refl|]. split; [assumption|].
      split; [auto|]. split; [auto|]. split; [intros _; split; [reflexivity | intros ? []] | discriminate].
    - rewrite close_pass_cons in H.
      assert (Hrest : incl rest (tops g)) by (intros x Hx; apply Hts; now right).
      assert (Hm : In m (tops g)) by (apply Hts; now left).
      destruct (negb (mem (m_addr m) al) && has_desc al m) eqn:Ec.
      + apply andb_true_iff in Ec. destruct Ec as [Ec1 Ec2].
        destruct (dfs (succ g) n [m_addr m] al) as [al1|] eqn:H1; [|discriminate].
        destruct (close_pass g n rest al1) as [[al2 b2]|] eqn:H2; [|discriminate].
        inversion H; subst al' b. clear H.
        destruct (loop_dfs m al al1 Hm Hinv H1) as [Hi1 [Hm1 [Hinv1 [Hc1 Hg1]]]].
        destruct (IH al1 al2 b2 Hrest Hinv1 H2) as [Hi2 [Hinv2 [Hc2 [Hg2 _]]]].
        split; [intros x Hx; apply Hi2; now apply Hi1|]. split; [assumption|].
        split; [intros Hc; apply Hc2; now apply Hc1|].
        split; [intros Hg; apply Hg2; now apply Hg1|].
        split; [discriminate|]. intros _. exists m. split; [now left|]. split.
        * apply mem_false. now destruct (mem (m_addr m) al).
        * now apply Hi2.
      + destruct (IH al al' b Hrest Hinv H) as [Hi [Hinv' [Hc [Hg [Hf Ht]]]]].
        split; [assumption|]. split; [assumption|]. split; [assumption|]. split; [assumption|]. split.
        * intros Hb. destruct (Hf Hb) as [He Hall]. split; [assumption|]. intros x [Hx|Hx]; [|now apply Hall].
          subst x. apply andb_false_iff in Ec. destruct Ec as [Ec|Ec]; [left | now right].
          apply mem_In. now destruct (mem (m_addr m) al).
        * intros Hb. destruct (Ht Hb) as [x [Hx Hrest']]. exists x. split; [now right | assumption].
  Qed.

  Lemma close_loop_total : forall k al,
    inv al -> missing (tops g) al < k -> exists r, close_loop g n k al = Some r.
  Proof.
    induction k as [|k IH]; intros al Hinv Hk; [lia|]. simpl.
    destruct (close_pass_total (tops g) al (incl_refl _) Hinv) as [al' [b H]]. rewrite H.
    destruct b; [|eauto].
    destruct (close_pass_props _ _ _ _ (incl_refl _) Hinv H) as [Hi [Hinv' [_ [_ [_ Ht]]]]].
    destruct (Ht eq_refl) as [m [Hm [Hn Hy]]].
    apply IH; [assumption|]. pose proof (missing_strict (tops g) al al' m Hi Hm Hn Hy). lia.
  Qed.

  Lemma close_loop_props : forall k al r,
    inv al -> close_loop g n k al = Some r ->
    incl al r /\ (closed g al -> closed g r) /\ (grounded al -> grounded r) /\ enclosed g r.
  Proof.
    induction k as [|k IH]; intros al r Hinv H; [discriminate|]. simpl in H.
    destruct (close_pass g n (tops g) al) as [[al' b]|] eqn:Hp; [|discriminate].
    destruct (close_pass_props _ _ _ _ (incl_refl _) Hinv Hp) as [Hi [Hinv' [Hc [Hg [Hf _]]]]].
    destruct b.
    - destruct (IH al' r Hinv' H) as [Hi2 [Hc2 [Hg2 He]]].
      split; [intros x Hx; apply Hi2; now apply Hi|]. split; [intros X; apply Hc2; now apply Hc|].
      split; [intros X; apply Hg2; now apply Hg | assumption].
    - inversion H; subst r. clear H. destruct (Hf eq_refl) as [He Hall]. subst al'.
      split; [apply incl_refl|]. split; [auto|]. split; [auto|].
      intros top d Htop Hd Hal. destruct (Hall top Htop) as [Hx|Hx]; [assumption|].
      exfalso. assert (Ht : has_desc al top = true) by (apply has_desc_spec; now exists d). congruence.
  Qed.
End Closing.

Lemma missing_le T al : missing T al <= length T.
Proof. unfold missing. induction T as [|m T IH]; simpl; [lia|]. destruct (negb (mem (m_addr m) al)); simpl; lia. Qed.

Theorem allowlist_total : forall g sel rs, roots g sel = Ok rs -> exists al, allowlist g sel = Ok al.
Proof.
  intros g sel rs H. unfold allowlist. rewrite H. cbv zeta.
  pose proof (succ_in_universe g rs) as HU.
  assert (Hrs : incl rs (universe g rs)) by (unfold universe; apply incl_appl; apply incl_refl).
  destruct (dfs_total (succ g) (universe g rs) HU (length (universe g rs)) rs [] (NoDup_nil _) (incl_nil_l _) Hrs) as [al0 H0];
    [simpl; lia|]. rewrite H0.
  destruct (dfs_nodup_incl (succ g) (universe g rs) HU _ _ _ _ (NoDup_nil _) (incl_nil_l _) Hrs H0) as [Hnd Hin].
  destruct (close_loop_total g (universe g rs) rs HU (tops_in_universe g rs) (S (length (tops g))) al0 (conj Hnd Hin)) as [r Hr].
  - pose proof (missing_le (tops g) al0). lia.
  - rewrite Hr. now exists r.
Qed.

(* the allow-list is the least set that contains the roots, is closed under the edges of the address
   graph and under outermost enclosing messages *)
Theorem allowlist_least_closed : forall g sel al,
  allowlist g sel = Ok al ->
  exists rs, roots g sel = Ok rs /\
    (forall r, In r rs -> In r al) /\
    closed g al /\ enclosed g al /\
    (forall x, In x al -> exists r, In r rs /\ ereach g r x).
Proof.
  intros g sel al H. unfold allowlist in H.
  destruct (roots g sel) as [rs|e] eqn:Er; [|discriminate]. exists rs. split; [reflexivity|]. cbv zeta in H.
  destruct (dfs (succ g) (length (universe g rs)) rs []) as [al0|] eqn:Ed; [|discriminate].
  destruct (close_loop g (length (universe g rs)) (S (length (tops g))) al0) as [r|] eqn:El; [|discriminate].
  inversion H; subst r. clear H.
  pose proof (succ_in_universe g rs) as HU.
  assert (Hrs : incl rs (universe g rs)) by (unfold universe; apply incl_appl; apply incl_refl).
  destruct (dfs_nodup_incl (succ g) (universe g rs) HU _ _ _ _ (NoDup_nil _) (incl_nil_l _) Hrs Ed) as [Hnd Hin].
  destruct (close_loop_props g (universe g rs) rs HU (tops_in_universe g rs) _ _ _ (conj Hnd Hin) El) as [Hi [Hc [Hg He]]].
  split; [intros r Hr; apply Hi; now apply (proj2 (dfs_mono _ _ _ _ _ Ed))|].
  split.
  { apply Hc. intros a b Ha Hb. refine (dfs_closed _ _ _ _ _ Ed _ a b Ha Hb). intros a' b' []. }
  split; [exact He|].
  apply Hg. intros x Hx. destruct (dfs_sound _ _ _ _ _ Ed x Hx) as [[]|[t [Ht Hr]]].
  exists t. split; [assumption | now apply reach_ereach].
Qed.

Corollary allowlist_least : forall g sel al rs (T : addr -> Prop),
  allowlist g sel = Ok al -> roots g sel = Ok rs ->
  (forall r, In r rs -> T r) -> (forall a b, T a -> estep g a b -> T b) ->
  forall x, In x al -> T x.
Proof.
  intros g sel al rs T H Hr Hroots Hclosed x Hx.
  destruct (allowlist_least_closed g sel al H) as [rs' [Hr' [_ [_ [_ Hsound]]]]].
  rewrite Hr in Hr'. inversion Hr'; subst rs'.
  destruct (Hsound x Hx) as [r [Hin Hreach]].
  clear Hx. induction Hreach as [r | r b c Hreach IH Hc]; [now apply Hroots|].
  apply (Hclosed b c); [apply IH; exact Hin | exact Hc].
Qed.

(* ---------------------------------------------------------------- the polling chain: fuel is irrelevant *)
Lemma expand_eq fuel avail all m :
  expand fuel avail all m =
  let lro := match me_lro m with Some (r, d) => [r; d] | None => [] end in
  let tail := [me_input m; me_output m] in
  match me_ext m, negb (String.eqb (me_opsvc m) "") with
  | Some (rq, op), true =>
      match find_svc all (me_opsvc m) with
      | None => Err EMissingService
      | Some s =>
          match polling_of s with
          | None => Err ENoPolling
          | Some p =>
              if negb (mem (s_name s) (map s_name avail)) then Err ERecursion
              else match fuel with
                   | O => Err ERecursion
                   | S fuel' =>
                       match expand fuel' (remove_svc (s_name s) avail) all p with
                       | Err e => Err e
                       | Ok l => Ok (me_addr m :: lro ++ s_addr s :: l ++ [rq; op] ++ tail)
                       end
                   end
          end
      end
  | _, _ => Ok (me_addr m :: lro ++ tail)
  end.
Proof. destruct fuel; reflexivity. Qed.

Lemma remove_svc_le n avail : length (remove_svc n avail) <= length avail.
Proof.
  induction avail as [|s l IH]; simpl; [lia|].
  destruct (negb (String.eqb (s_name s) n)); simpl; lia.
Qed.

Lemma remove_svc_shorter n avail :
  mem n (map s_name avail) = true -> length (remove_svc n avail) < length avail.
Proof.
  induction avail as [|s l IH]; intros H.
  - discriminate.
  - unfold mem, mem_str in H. simpl in H. simpl.
    destruct (String.eqb n (s_name s)) eqn:E.
    + apply String.eqb_eq in E. subst n. rewrite String.eqb_refl. simpl.
      pose proof (remove_svc_le (s_name s) l). lia.
    + simpl in H. destruct (negb (String.eqb (s_name s) n)); simpl.
      * apply IH in H. lia.
      * pose proof (remove_svc_le n l). lia.
Qed.

(* with at least as much fuel as services not yet on the chain, the fuel test never decides *)
Lemma expand_fuel : forall f1 f2 avail all m,
  length avail <= f1 -> length avail <= f2 -> expand f1 avail all m = expand f2 avail all m.
Proof.
  induction f1 as [|f1 IH]; intros f2 avail all m H1 H2;
    rewrite (expand_eq _ avail all m); rewrite (expand_eq f2 avail all m); cbv zeta;
    destruct (me_ext m) as [[rq op]|]; try reflexivity;
    destruct (negb (String.eqb (me_opsvc m) "")); try reflexivity;
    destruct (find_svc all (me_opsvc m)) as [s|]; try reflexivity;
    destruct (polling_of s) as [p|]; try reflexivity;
    destruct (mem (s_name s) (map s_name avail)) eqn:Em; try reflexivity; simpl.
  - apply remove_svc_shorter in Em. lia.
  - destruct f2 as [|f2]; [apply remove_svc_shorter in Em; lia|].
    apply remove_svc_shorter in Em.
    rewrite (IH f2 (remove_svc (s_name s) avail) all p); [reflexivity | lia | lia].
Qed.

(* ---------------------------------------------------------------- pruning *)
Lemma prune_file_cases al f :
  (prune_file al f = Some (pruned al f) /\
   (o_svcs (pruned al f) <> [] \/ o_msgs (pruned al f) <> [] \/ o_enums (pruned al f) <> []))
  \/ (prune_file al f = None /\ o_svcs (pruned al f) = [] /\ o_msgs (pruned al f) = [] /\ o_enums (pruned al f) = []).
Proof.
  unfold prune_file. cbv zeta.
  destruct (o_svcs (pruned al f)) as [|s ss].
  - destruct (o_msgs (pruned al f)) as [|m ms].
    + destruct (o_enums (pruned al f)) as [|e es].
      * right. repeat split; reflexivity.
      * left. split; [reflexivity|]. right. right. discriminate.
    + left. split; [reflexivity|]. right. left. discriminate.
  - left. split; [reflexivity|]. left. discriminate.
Qed.

Lemma filter_nil_none {A} (p : A -> bool) l : filter p l = [] -> forall x, In x l -> p x = false.
Proof.
  intros H x Hx. destruct (p x) eqn:E; [|reflexivity].
  assert (Hin : In x (filter p l)) by (apply filter_In; split; assumption).
  rewrite H in Hin. destruct Hin.
Qed.

Lemma filter_mem_iff {A} (key : A -> addr) al l x :
  In x (filter (fun y => mem (key y) al) l) <-> In x l /\ In (key x) al.
Proof. rewrite filter_In. rewrite mem_In. reflexivity. Qed.

(* what survives is exactly what is allow-listed, level by level, in the original order *)
Theorem prune_exact : forall al f,
  match prune_file al f with
  | Some o =>
      o_name o = fi_name f /\ o_target o = fi_target f /\
      (forall a, In a (o_msgs o) <-> In a (map m_addr (all_msgs f)) /\ In a al) /\
      (forall a, In a (o_enums o) <-> In a (all_enums f) /\ In a al) /\
      (forall m, In m (o_top o) <-> In m (fi_msgs f) /\ In (m_addr m) al) /\
      (forall a, In a (o_top_enums o) <-> In a (fi_enums f) /\ In a al) /\
      (forall s', In s' (o_svcs o) <-> exists s, In s (fi_svcs f) /\ In (s_addr s) al /\ s' = prune_svc al s) /\
      (forall s m, In m (map om (os_methods (prune_svc al s))) <-> In m (s_methods s) /\ In (me_addr m) al)
  | None =>
      (forall m, In m (all_msgs f) -> ~ In (m_addr m) al) /\
      (forall a, In a (all_enums f) -> ~ In a al) /\
      (forall s, In s (fi_svcs f) -> ~ In (s_addr s) al)
  end.
Proof.
  intros al f. destruct (prune_file_cases al f) as [[H _]|[H [Hs [Hm He]]]]; rewrite H.
  - unfold pruned; simpl.
    split; [reflexivity|]. split; [reflexivity|].
    split; [intros a; apply (filter_mem_iff (fun x : addr => x))|].
    split; [intros a; apply (filter_mem_iff (fun x : addr => x))|].
    split; [intros m; apply (filter_mem_iff m_addr)|].
    split; [intros a; apply (filter_mem_iff (fun x : addr => x))|].
    split.
    + intros s'. split.
      * intros Hin. apply in_map_iff in Hin. destruct Hin as [s [Hs' Hin]].
        apply (filter_mem_iff s_addr) in Hin. exists s. destruct Hin as [Hin1 Hin2].
        split; [assumption|]. split; [assumption | now symmetry].
      * intros [s [H1 [H2 H3]]]. subst s'. apply in_map. apply (filter_mem_iff s_addr). split; assumption.
    + intros s m. rewrite map_map. simpl. rewrite map_id. apply (filter_mem_iff me_addr).
  - unfold pruned in Hs, Hm, He; simpl in Hs, Hm, He. split; [|split].
    + intros m Hin Hal. apply (in_map m_addr) in Hin.
      pose proof (filter_nil_none _ _ Hm _ Hin) as Hf. apply mem_In in Hal. simpl in Hf. congruence.
    + intros a Hin Hal. pose proof (filter_nil_none _ _ He _ Hin) as Hf. apply mem_In in Hal. simpl in Hf. congruence.
    + intros s Hin Hal. apply map_eq_nil in Hs.
      pose proof (filter_nil_none _ _ Hs _ Hin) as Hf. apply mem_In in Hal. simpl in Hf. congruence.
Qed.

(* ---------------------------------------------------------------- dependencies *)
Theorem dependencies_untouched : forall g pkg l out f,
  build g pkg l = Built out -> In f g -> fi_target f = false -> In (full_ofile f) out.
Proof.
  intros g pkg l out f H Hin Ht. unfold build in H.
  assert (Hd : In (full_ofile f) (deps_of g)).
  { unfold deps_of. apply in_map. apply filter_In. split; [assumption | now rewrite Ht]. }
  destruct (validate (all_methods g) l); [|discriminate].
  destruct (setting_for pkg l) as [s|].
  - destruct (ls_methods s) as [|m0 ms].
    + inversion H; subst. now apply in_map.
    + destruct (ls_internal s).
      * inversion H; subst. apply in_or_app. now left.
      * destruct (allowlist g (m0 :: ms)); [|discriminate]. inversion H; subst. apply in_or_app. now left.
  - inversion H; subst. now apply in_map.
Qed.

(* ---------------------------------------------------------------- generate_omitted_as_internal *)
Lemma make_private_prefixed n : starts_with "_" (make_private n) = true.
Proof.
  unfold make_private. destruct (starts_with "_" n) eqn:E; [exact E|]. reflexivity.
Qed.

Lemma internal_method_name m : om_internal m = true -> starts_with "_" (client_method_name m) = true.
Proof. intros H. unfold client_method_name. rewrite H. apply make_private_prefixed. Qed.

Lemma public_method_name_kept m : om_internal m = false -> client_method_name m = public_method_name (om m).
Proof. intros H. unfold client_method_name. now rewrite H. Qed.

Lemma svc_internal_iff pub s :
  svc_internal (internal_svc pub s) = true <-> exists m, In m (s_methods s) /\ ~ In (me_addr m) pub.
Proof.
  unfold svc_internal, internal_svc; simpl. rewrite existsb_exists. split.
  - intros [x [Hin Hx]]. apply in_map_iff in Hin. destruct Hin as [m [Hm Hin]]. subst x. simpl in Hx.
    exists m. split; [assumption|]. apply mem_false. now destruct (mem (me_addr m) pub).
  - intros [m [Hin Hn]]. exists (mkOM m (negb (mem (me_addr m) pub))). split.
    + apply in_map_iff. now exists m.
    + simpl. apply mem_false in Hn. now rewrite Hn.
Qed.

Lemma client_name_internal pub s :
  client_name (internal_svc pub s) =
  if existsb (fun m => negb (mem (me_addr m) pub)) (s_methods s)
  then ("Base" ++ s_name s ++ "Client")%string else (s_name s ++ "Client")%string.
Proof.
  unfold client_name, svc_internal, internal_svc; simpl.
  assert (E : existsb om_internal (map (fun m => mkOM m (negb (mem (me_addr m) pub))) (s_methods s))
              = existsb (fun m => negb (mem (me_addr m) pub)) (s_methods s)).
  { induction (s_methods s) as [|m l IH]; simpl; [reflexivity | now rewrite IH]. }
  rewrite E. destruct (existsb _ (s_methods s)); reflexivity.
Qed.

(* with generate_omitted_as_internal every file keeps all of its messages, enums, services and
   methods; a method is internal exactly when it is a method of a target file that is not listed *)
Theorem internal_keeps_everything : forall g pkg l s out,
  build g pkg l = Built out -> setting_for pkg l = Some s -> ls_methods s <> [] -> ls_internal s = true ->
  forall f, In f g ->
    exists o, In o out /\ o_name o = fi_name f /\
      o_msgs o = map m_addr (all_msgs f) /\ o_enums o = all_enums f /\
      o_top o = fi_msgs f /\ o_top_enums o = fi_enums f /\
      rendered_file o = rendered_file (full_ofile f) /\
      map os_addr (o_svcs o) = map s_addr (fi_svcs f) /\
      map (fun x => map om (os_methods x)) (o_svcs o) = map s_methods (fi_svcs f) /\
      (forall x m, In x (o_svcs o) -> In m (os_methods x) ->
         om_internal m = fi_target f && negb (mem (me_addr (om m)) (ls_methods s))).
Proof.
  intros g pkg l s out H Hs Hne Hint f Hin. unfold build in H.
  destruct (validate (all_methods g) l); [|discriminate].
  rewrite Hs in H. destruct (ls_methods s) as [|m0 ms] eqn:Em; [congruence|]. rewrite Hint in H.
  inversion H; subst out. clear H.
  destruct (fi_target f) eqn:Et.
  - exists (internal_file (m0 :: ms) f). split.
    { apply in_or_app. right. apply in_map. apply filter_In. split; assumption. }
    unfold internal_file, full_ofile; simpl. repeat split.
    + rewrite map_map. reflexivity.
    + rewrite map_map. simpl. apply map_ext. intros x. rewrite map_map. simpl. apply map_id.
    + intros x m Hx Hm. apply in_map_iff in Hx. destruct Hx as [sv [Hx _]]. subst x. simpl in Hm.
      apply in_map_iff in Hm. destruct Hm as [m' [Hm _]]. subst m. reflexivity.
  - exists (full_ofile f). split.
    { apply in_or_app. left. unfold deps_of. apply in_map. apply filter_In. split; [assumption | now rewrite Et]. }
    unfold full_ofile; simpl. repeat split.
    + rewrite map_map. reflexivity.
    + rewrite map_map. simpl. apply map_ext. intros x. rewrite map_map. simpl. apply map_id.
    + intros x m Hx Hm. apply in_map_iff in Hx. destruct Hx as [sv [Hx _]]. subst x. simpl in Hm.
      apply in_map_iff in Hm. destruct Hm as [m' [Hm _]]. subst m. reflexivity.
Qed.

(* ---------------------------------------------------------------- settings validation *)
Definition method_ok (am : list string) (version m : string) : Prop := In m am /\ starts_with version m = true.
Definition valid_settings (am : list string) (l : list libsetting) : Prop :=
  NoDup (map ls_version l) /\ Forall (fun s => Forall (method_ok am (ls_version s)) (ls_methods s)) l.

Lemma method_errors_nil am v ms : method_errors am v ms = [] <-> Forall (method_ok am v) ms.
Proof.
  induction ms as [|m ms IH]; simpl.
  - split; intros; [constructor | reflexivity].
  - destruct (mem m am) eqn:Em; simpl.
    + destruct (starts_with v m) eqn:Es; simpl.
      * rewrite IH. split; intros H.
        -- constructor; [split; [now apply mem_In | assumption] | assumption].
        -- now inversion H.
      * split; intros H; [discriminate|]. inversion H as [|? ? [_ Hs] _]. congruence.
    + split; intros H; [discriminate|]. inversion H as [|? ? [Hi _] _]. apply mem_In in Hi. congruence.
Qed.

Lemma validate_aux_nil am : forall l seen,
  validate_aux am seen l = [] <->
  (NoDup (map ls_version l) /\ (forall s, In s l -> ~ In (ls_version s) seen)) /\
  Forall (fun s => Forall (method_ok am (ls_version s)) (ls_methods s)) l.
Proof.
  induction l as [|s l IH]; intros seen; simpl.
  - split; intros; [repeat split; try constructor; intros ? [] | reflexivity].
  - destruct (mem (ls_version s) seen) eqn:Em.
    + split; intros H; [discriminate|]. destruct H as [[_ Hs] _]. apply mem_In in Em.
      exfalso. apply (Hs s); [now left | exact Em].
    + apply mem_false in Em.
      destruct (method_errors am (ls_version s) (ls_methods s)) as [|b bs] eqn:Eb.
      * rewrite IH. apply method_errors_nil in Eb. split.
        -- intros [[Hnd Hseen] Hf]. repeat split.
           ++ constructor; [|assumption]. intros Hin. apply in_map_iff in Hin.
              destruct Hin as [s' [Hv Hin]]. apply (Hseen s' Hin). left. now symmetry.
           ++ intros s' [Hs'|Hs'] Hin; [subst s'; now apply Em | apply (Hseen s' Hs'); now right].
           ++ constructor; assumption.
        -- intros [[Hnd Hseen] Hf]. inversion Hnd as [|? ? Hn Hnd']; subst. inversion Hf as [|? ? _ Hf']; subst.
           repeat split; try assumption.
           intros s' Hs' [Hin|Hin].
           ++ apply Hn. apply in_map_iff. exists s'. split; [now symmetry | assumption].
           ++ apply (Hseen s'); [now right | assumption].
      * split; intros H; [discriminate|]. destruct H as [_ Hf]. inversion Hf as [|? ? Hm _]; subst.
        apply method_errors_nil in Hm. congruence.
Qed.

Lemma validate_nil am l : validate am l = [] <-> valid_settings am l.
Proof.
  unfold validate, valid_settings. rewrite validate_aux_nil. split.
  - intros [[H1 _] H2]. split; assumption.
  - intros [H1 H2]. repeat split; try assumption. intros s _ [].
Qed.

(* the generator rejects the configuration exactly when a version is repeated or some listed method
   is not a method of the target package or does not start with the version of its entry *)
Theorem validation_iff : forall g pkg l,
  (exists e, build g pkg l = Rejected e) <-> ~ valid_settings (all_methods g) l.
Proof.
  intros g pkg l. rewrite <- validate_nil. unfold build.
  destruct (validate (all_methods g) l) as [|e es] eqn:Ev.
  - split.
    + intros [e H]. destruct (setting_for pkg l) as [s|].
      * destruct (ls_methods s); [discriminate|]. destruct (ls_internal s); [discriminate|].
        destruct (allowlist g (s0 :: l0)); discriminate.
      * discriminate.
    + intros H. exfalso. now apply H.
  - split; [intros _ H; discriminate | intros _; eexists; reflexivity].
Qed.

(* ---------------------------------------------------------------- rendering and dangling references *)

(* a message of the table that is allow-listed brings everything declared inside it *)
Lemma rendered_in_allowlist g al : wf_table g -> closed g al ->
  forall m, In m (table g) -> In (m_addr m) al -> incl (rendered_from m) al.
Proof.
  intros Hwf Hcl. induction m as [a fs es ns IH] using msg_ind'. intros Hin Ha x Hx. simpl in *.
  assert (Hsucc : succ g a = msg_targets g (Msg a fs es ns)).
  { pose proof (Hwf _ Hin) as Hw. simpl in Hw. unfold succ. now rewrite Hw. }
  destruct Hx as [Hx|Hx]; [now subst x|]. apply in_app_or in Hx. destruct Hx as [Hx|Hx].
  - apply (Hcl a x Ha). unfold edge. rewrite Hsucc. unfold msg_targets; simpl.
    apply in_or_app. right. apply in_or_app. now left.
  - apply in_flat_map in Hx. destruct Hx as [n [Hn Hx]]. rewrite Forall_forall in IH.
    apply (IH n Hn); [eapply table_nested; eauto | | exact Hx].
    apply (Hcl a (m_addr n) Ha). unfold edge. rewrite Hsucc. unfold msg_targets; simpl.
    apply in_or_app. right. apply in_or_app. right. now apply in_map.
Qed.

Lemma type_refs_targets g m : incl (type_refs m) (msg_targets g m).
Proof.
  unfold type_refs, msg_targets. intros x Hx. apply in_or_app. left.
  apply in_flat_map in Hx. destruct Hx as [f [Hf Hx]]. apply in_flat_map. exists f. split; [assumption|].
  unfold field_targets. apply in_app_or in Hx. destruct Hx as [Hx|Hx]; apply in_or_app; [now left|].
  right. apply in_or_app. now left.
Qed.

Lemma prune_file_some_msg al f a :
  In a (map m_addr (all_msgs f)) -> In a al -> prune_file al f = Some (pruned al f).
Proof.
  intros H1 H2. destruct (prune_file_cases al f) as [[H _]|[_ [_ [Hm _]]]]; [exact H|].
  unfold pruned in Hm; simpl in Hm. pose proof (filter_nil_none _ _ Hm _ H1) as Hf. apply mem_In in H2.
  simpl in Hf. congruence.
Qed.

Lemma prune_file_some_enum al f a :
  In a (all_enums f) -> In a al -> prune_file al f = Some (pruned al f).
Proof.
  intros H1 H2. destruct (prune_file_cases al f) as [[H _]|[_ [_ [_ He]]]]; [exact H|].
  unfold pruned in He; simpl in He. pose proof (filter_nil_none _ _ He _ H1) as Hf. apply mem_In in H2.
  simpl in Hf. congruence.
Qed.


Lemma dangling_spec g out d t :
  In (d, t) (dangling g out) <->
  exists m, In m (rendered_nodes out) /\ m_addr m = d /\ In t (type_refs m) /\
            In t (target_types g) /\ ~ In t (rendered out).
Proof.
  unfold dangling. rewrite in_flat_map. split.
  - intros [m [Hm Hin]]. apply in_map_iff in Hin. destruct Hin as [t' [Heq Hin]]. inversion Heq; subst.
    apply filter_In in Hin. destruct Hin as [Hr Hb]. apply andb_true_iff in Hb. destruct Hb as [Hb1 Hb2].
    exists m. repeat split; try assumption; [now apply mem_In|].
    apply mem_false. now destruct (mem t (rendered out)).
  - intros [m [Hm [Hd [Hr [Ht Hn]]]]]. exists m. split; [assumption|]. apply in_map_iff. exists t. subst d.
    split; [reflexivity|]. apply filter_In. split; [assumption|]. apply andb_true_iff. split; [now apply mem_In|].
    apply mem_false in Hn. now rewrite Hn.
Qed.

(* ---------------------------------------------------------------- no dangling reference *)
Lemma enums_rendered : forall m e, In e (enums_of m) -> In e (rendered_from m).
Proof.
  induction m as [a fs es ns IH] using msg_ind'. intros e He. simpl in *. right.
  apply in_app_or in He. apply in_or_app. destruct He as [He|He]; [now left|]. right.
  apply in_flat_map in He. destruct He as [n [Hn He]]. apply in_flat_map. exists n. split; [assumption|].
  rewrite Forall_forall in IH. now apply IH.
Qed.

(* a type of a target file is a top-level enum, or is declared by (inside) a top-level message *)
Lemma target_type_cases g t : In t (target_types g) ->
  exists f, In f g /\ fi_target f = true /\
    (In t (fi_enums f) \/ exists top, In top (fi_msgs f) /\ In t (rendered_from top)).
Proof.
  unfold target_types. intros H. apply in_flat_map in H. destruct H as [f [Hf H]].
  apply filter_In in Hf. destruct Hf as [Hf Ht]. exists f. split; [assumption|]. split; [assumption|].
  apply in_app_or in H. destruct H as [H|H].
  - right. apply in_map_iff in H. destruct H as [x [Hx H]]. unfold all_msgs in H.
    apply in_flat_map in H. destruct H as [top [Htop H]]. exists top. split; [assumption|].
    subst t. now apply flat_addr_rendered.
  - unfold all_enums in H. apply in_app_or in H. destruct H as [H|H]; [now left|]. right.
    apply in_flat_map in H. destruct H as [top [Htop H]]. exists top. split; [assumption | now apply enums_rendered].
Qed.

Lemma in_rendered out o t : In o out -> o_target o = true -> In t (rendered_file o) -> In t (rendered out).
Proof.
  intros Ho Ht Hr. unfold rendered. apply in_flat_map. exists o. split; [|assumption].
  apply filter_In. split; assumption.
Qed.

(* an output that still has every top-level declaration of every target file has every target type *)
Definition covers (g : graph) (out : list ofile) : Prop :=
  forall f, In f g -> fi_target f = true ->
    exists o, In o out /\ o_target o = true /\ o_top o = fi_msgs f /\ o_top_enums o = fi_enums f.

Lemma covers_rendered g out t : covers g out -> In t (target_types g) -> In t (rendered out).
Proof.
  intros Hc Ht. destruct (target_type_cases g t Ht) as [f [Hf [Htg Hcase]]].
  destruct (Hc f Hf Htg) as [o [Ho [Hot [Htop Hen]]]]. apply (in_rendered out o t Ho Hot).
  unfold rendered_file. rewrite Htop, Hen. apply in_or_app. destruct Hcase as [He|[top [Htop' Hr]]]; [now left|].
  right. apply in_flat_map. exists top. split; assumption.
Qed.

Lemma covers_full g : covers g (map full_ofile g).
Proof.
  intros f Hf Ht. exists (full_ofile f). split; [now apply in_map|]. unfold full_ofile; simpl. auto.
Qed.

Lemma covers_internal g sel : covers g (deps_of g ++ map (internal_file sel) (filter fi_target g)).
Proof.
  intros f Hf Ht. exists (internal_file sel f). split.
  - apply in_or_app. right. apply in_map. apply filter_In. split; assumption.
  - unfold internal_file; simpl. auto.
Qed.

Lemma keep_some_in {A B} (F : A -> option B) l x o : In x l -> F x = Some o -> In o (keep_some (map F l)).
Proof.
  induction l as [|y l IH]; intros Hx Ho; [destruct Hx|]. simpl. destruct Hx as [Hx|Hx].
  - subst y. rewrite Ho. now left.
  - destruct (F y); [right|]; now apply IH.
Qed.

Lemma keep_some_inv {A B} (F : A -> option B) l o : In o (keep_some (map F l)) -> exists x, In x l /\ F x = Some o.
Proof.
  induction l as [|y l IH]; intros H; [destruct H|]. simpl in H. destruct (F y) as [b|] eqn:E.
  - destruct H as [H|H]; [subst b; exists y; split; [now left | assumption]|].
    destruct (IH H) as [x [Hx Hf]]. exists x. split; [now right | assumption].
  - destruct (IH H) as [x [Hx Hf]]. exists x. split; [now right | assumption].
Qed.

Lemma prune_file_some al f o : prune_file al f = Some o -> o = pruned al f.
Proof.
  intros H. destruct (prune_file_cases al f) as [[H' _]|[H' _]]; rewrite H' in H; [now inversion H | discriminate].
Qed.

(* the selective branch: with an allow-list closed under edges and under enclosing messages, every
   type of the target package that a kept declaration names is itself rendered *)
Lemma no_dangling_selective g al : wf_table g -> closed g al -> enclosed g al ->
  let out := deps_of g ++ keep_some (map (prune_file al) (filter fi_target g)) in
  forall m t, In m (rendered_nodes out) -> In t (type_refs m) -> In t (target_types g) -> In t (rendered out).
Proof.
  intros Hwf Hcl Hen out m t Hm Ht Htt.
  (* where m comes from *)
  unfold rendered_nodes in Hm. apply in_flat_map in Hm. destruct Hm as [o [Ho Hm]].
  apply filter_In in Ho. destruct Ho as [Ho Hot]. apply in_app_or in Ho. destruct Ho as [Ho|Ho].
  { unfold deps_of in Ho. apply in_map_iff in Ho. destruct Ho as [f [Hf Ho]]. apply filter_In in Ho.
    subst o. simpl in Hot. destruct Ho as [_ Ho]. rewrite Hot in Ho. discriminate. }
  apply keep_some_inv in Ho. destruct Ho as [f [Hf Ho]]. apply prune_file_some in Ho. subst o.
  apply filter_In in Hf. destruct Hf as [Hf Hft].
  apply in_flat_map in Hm. destruct Hm as [top [Htop Hm]]. unfold pruned in Htop; simpl in Htop.
  apply filter_mem_iff in Htop. destruct Htop as [Htop Htopal].
  assert (Htab : forall x, In x (flat top) -> In x (table g)).
  { intros x Hx. unfold table, all_msgs. apply in_flat_map. exists f. split; [assumption|].
    apply in_flat_map. exists top. split; assumption. }
  assert (Hmal : In (m_addr m) al).
  { apply (rendered_in_allowlist g al Hwf Hcl top); [apply Htab; apply flat_self | assumption |].
    now apply flat_addr_rendered. }
  assert (Htal : In t al).
  { apply (Hcl (m_addr m) t Hmal). unfold edge, succ. rewrite (Hwf m (Htab m Hm)). now apply type_refs_targets. }
  (* where t is declared *)
  destruct (target_type_cases g t Htt) as [f' [Hf' [Hft' Hcase]]].
  assert (Hin' : In f' (filter fi_target g)) by (apply filter_In; split; assumption).
  destruct Hcase as [He|[top' [Htop' Hr]]].
  - assert (Hp : prune_file al f' = Some (pruned al f')).
    { apply (prune_file_some_enum al f' t); [|exact Htal]. unfold all_enums. apply in_or_app. now left. }
    apply (in_rendered out (pruned al f') t).
    + apply in_or_app. right. eapply keep_some_in; eauto.
    + unfold pruned; simpl. exact Hft'.
    + unfold rendered_file, pruned; simpl. apply in_or_app. left. apply filter_mem_iff. split; assumption.
  - assert (Htop'al : In (m_addr top') al).
    { rewrite rendered_from_desc in Hr. destruct Hr as [Hr|Hr]; [now rewrite Hr|].
      apply (Hen top' t); [|assumption|assumption]. unfold tops. apply in_flat_map. exists f'. split; assumption. }
    assert (Hp : prune_file al f' = Some (pruned al f')).
    { apply (prune_file_some_msg al f' (m_addr top')); [|exact Htop'al]. apply in_map.
      unfold all_msgs. apply in_flat_map. exists top'. split; [assumption | apply flat_self]. }
    apply (in_rendered out (pruned al f') t).
    + apply in_or_app. right. eapply keep_some_in; eauto.
    + unfold pruned; simpl. exact Hft'.
    + unfold rendered_file, pruned; simpl. apply in_or_app. right. apply in_flat_map. exists top'. split; [|assumption].
      apply filter_mem_iff. split; assumption.
Qed.

(* C16, "closed set of types": whatever API.build returns, every type of the target package named by
   a field of a rendered message declaration is itself rendered.
   wf_table (unique addresses) is needed because the model follows a field's type by looking its
   ADDRESS up in the table, where the code follows an object reference: only with unique addresses
   are the two the same thing.  protoc guarantees it; the harness evaluates wf_tableb on every graph. *)
Theorem no_dangling : forall g pkg l out, wf_table g -> build g pkg l = Built out ->
  forall m t, In m (rendered_nodes out) -> In t (type_refs m) -> In t (target_types g) -> In t (rendered out).
Proof.
  intros g pkg l out Hwf H m t Hm Ht Htt. unfold build in H.
  destruct (validate (all_methods g) l); [|discriminate].
  destruct (setting_for pkg l) as [s|].
  - destruct (ls_methods s) as [|m0 ms].
    + inversion H; subst. apply (covers_rendered g); [apply covers_full | assumption].
    + destruct (ls_internal s).
      * inversion H; subst. apply (covers_rendered g); [apply covers_internal | assumption].
      * destruct (allowlist g (m0 :: ms)) as [al|e] eqn:Ea; [|discriminate]. inversion H; subst out. clear H.
        destruct (allowlist_least_closed g _ al Ea) as [rs [_ [_ [Hcl [Hen _]]]]].
        apply (no_dangling_selective g al Hwf Hcl Hen m t); assumption.
  - inversion H; subst. apply (covers_rendered g); [apply covers_full | assumption].
Qed.

Corollary no_dangling_list : forall g pkg l out, wf_table g -> build g pkg l = Built out -> dangling g out = [].
Proof.
  intros g pkg l out Hwf H. destruct (dangling g out) as [|[d t] rest] eqn:E; [reflexivity|]. exfalso.
  assert (Hin : In (d, t) (dangling g out)) by (rewrite E; now left).
  apply dangling_spec in Hin. destruct Hin as [m [Hm [_ [Ht [Htt Hn]]]]].
  apply Hn. eapply no_dangling; eauto.
Qed.

(* ---------------------------------------------------------------- decidable well-formedness *)
Lemma find_unique : forall (l : list msg), nodupb (map m_addr l) = true ->
  forall m, In m l -> find (fun x => String.eqb (m_addr x) (m_addr m)) l = Some m.
Proof.
  induction l as [|x l IH]; intros Hnd m Hin; [destruct Hin|].
  simpl in Hnd. apply andb_true_iff in Hnd. destruct Hnd as [Hx Hnd]. simpl.
  destruct Hin as [Hin|Hin].
  - subst m. now rewrite String.eqb_refl.
  - destruct (String.eqb (m_addr x) (m_addr m)) eqn:E.
    + apply String.eqb_eq in E. exfalso.
      assert (Hm : mem (m_addr x) (map m_addr l) = true) by (apply mem_In; rewrite E; now apply in_map).
      rewrite Hm in Hx. discriminate.
    + now apply IH.
Qed.

Lemma wf_tableb_sound g : wf_tableb g = true -> wf_table g.
Proof. intros H m Hin. unfold find_msg. now apply find_unique. Qed.

(* ---------------------------------------------------------------- witnesses and examples *)
Definition P (s : string) : string := ("google.example.library.v1." ++ s)%string.
Definition fld_m (a : addr) := mkField (Some a) None None.
Definition fld_e (a : addr) := mkField None (Some a) None.
Definition fld_s := mkField None None None.
Definition fld_r (t : string) := mkField None None (Some t).
Definition rpc (svc name inp out : string) : method :=
  mkMethod name (P (svc ++ "." ++ name)%string) inp out None "" None false.

(* DESIGN section 9 no. 4: GetThingRequest names Outer.Inner and Outer.Kind; only GetThing is listed *)
Definition wit_g : graph :=
  [mkFile "google/example/library/v1/library.proto" true []
     [Msg (P "Outer") [fld_m (P "Outer.Inner")] [P "Outer.Kind"] [Msg (P "Outer.Inner") [fld_s] [] []];
      Msg (P "Thing") [fld_s] [] [];
      Msg (P "GetThingRequest") [fld_s; fld_m (P "Outer.Inner"); fld_e (P "Outer.Kind")] [] [];
      Msg (P "PutOuterRequest") [fld_m (P "Outer")] [] []]
     [mkSvc "Library" (P "Library")
        [rpc "Library" "GetThing" (P "GetThingRequest") (P "Thing");
         rpc "Library" "PutOuter" (P "PutOuterRequest") (P "Outer")]]
     []].
Definition wit_pkg : string := "google.example.library.v1".
Definition wit_l : list libsetting := [mkLS wit_pkg [P "Library.GetThing"] false].
(* the former counterexample (DESIGN section 9 no. 4, fixed by 7cf64eb): Outer is not reachable from
   GetThing, but it encloses the allow-listed Outer.Inner and Outer.Kind, so the closing loop keeps it
   and both nested types are rendered inside it *)
Example ex_enclosing_kept :
  wf_table wit_g /\
  has_desc [P "Outer.Inner"] (Msg (P "Outer") [fld_m (P "Outer.Inner")] [P "Outer.Kind"] [Msg (P "Outer.Inner") [fld_s] [] []]) = true /\
  match allowlist0 wit_g [P "Library.GetThing"], allowlist wit_g [P "Library.GetThing"], build wit_g wit_pkg wit_l with
  | Ok al0, Ok al, Built out =>
      mem (P "Outer") al0 = false /\ mem (P "Outer.Inner") al0 = true /\
      mem (P "Outer") al = true /\ mem (P "PutOuterRequest") al = false /\
      mem (P "Outer.Inner") (rendered out) = true /\ mem (P "Outer.Kind") (rendered out) = true /\
      option_map (fun o => map m_addr (o_top o)) (find_ofile out "google/example/library/v1/library.proto")
        = Some [P "Outer"; P "Thing"; P "GetThingRequest"] /\
      existsb (fun m => String.eqb (m_addr m) (P "GetThingRequest") && mem (P "Outer.Inner") (type_refs m)) (rendered_nodes out) = true /\
      mem (P "Outer.Inner") (target_types wit_g) = true /\
      dangling wit_g out = []
  | _, _, _ => False
  end.
Proof.
  split; [apply wf_tableb_sound; vm_compute; reflexivity|].
  split; [vm_compute; reflexivity|].
  vm_compute. repeat split; reflexivity.
Qed.

(* a larger graph: a dependency file, nested and recursive types, a map entry, an LRO, resource
   references (type and child_type, message-level and file-level), an extended operation with its
   polling service, a service that becomes empty, a file that disappears *)
Definition ex_g : graph :=
  [mkFile "google/dep/common.proto" false [] [Msg "google.dep.Meta" [fld_s] [] []] [] [("dep.example.com/Meta", "google.dep.Meta")];
   mkFile "google/example/library/v1/resources.proto" true [P "TopKind"]
     [Msg (P "Shelf") [fld_s; fld_m (P "Shelf.Slot"); fld_m (P "Shelf.LabelsEntry"); fld_m "google.dep.Meta"] [P "Shelf.Tier"]
          [Msg (P "Shelf.Slot") [fld_m (P "Shelf"); fld_e (P "Shelf.Tier")] [] [];
           Msg (P "Shelf.LabelsEntry") [fld_s; fld_s] [] []];
      Msg (P "Book") [fld_s; fld_r "library.example.com/Shelf"; fld_e (P "TopKind")] [] [];
      Msg (P "Unused") [fld_m (P "Unused")] [] []]
     []
     [("library.example.com/Vault", ""); ("library.example.com/Shelf", P "Shelf"); ("library.example.com/Book", P "Book")];
   mkFile "google/example/library/v1/extra.proto" true [] [Msg (P "Orphan") [fld_s] [] []] [] [];
   mkFile "google/example/library/v1/library.proto" true []
     [Msg (P "GetBookRequest") [fld_r "library.example.com/Book"] [] [];
      Msg (P "ListShelvesRequest") [fld_r "library.example.com/Vault"; fld_s] [] [];
      Msg (P "ListShelvesResponse") [fld_m (P "Shelf"); fld_s] [] [];
      Msg (P "ImportRequest") [fld_s] [] [];
      Msg (P "ImportResponse") [fld_m (P "Book")] [] [];
      Msg (P "ImportMetadata") [fld_s] [] [];
      Msg (P "Operation") [fld_s; fld_s; fld_s; fld_s] [] [];
      Msg (P "GetOperationRequest") [fld_s] [] [];
      Msg (P "StartRequest") [fld_s] [] [];
      Msg "google.longrunning.Operation" [fld_s] [] []]
     [mkSvc "Library" (P "Library")
        [rpc "Library" "GetBook" (P "GetBookRequest") (P "Book");
         rpc "Library" "ListShelves" (P "ListShelvesRequest") (P "ListShelvesResponse");
         mkMethod "Import" (P "Library.Import") (P "ImportRequest") "google.longrunning.Operation"
                  (Some (P "ImportResponse", P "ImportMetadata")) "" None false;
         mkMethod "Start" (P "Library.Start") (P "StartRequest") (P "Operation") None "Ops"
                  (Some (P "GetOperationRequest", P "Operation")) false];
      mkSvc "Ops" (P "Ops")
        [mkMethod "Get" (P "Ops.Get") (P "GetOperationRequest") (P "Operation") None "" None true;
         rpc "Ops" "Other" (P "ImportRequest") (P "ImportMetadata")];
      mkSvc "Idle" (P "Idle") [rpc "Idle" "Nop" (P "ImportRequest") (P "ImportMetadata")]]
     []].
Definition ex_sel : list string := [P "Library.GetBook"; P "Library.Start"; P "Library.Import"].
Definition ex_l (internal : bool) : list libsetting := [mkLS wit_pkg ex_sel internal].

Example ex_wf : wf_table ex_g.
Proof. apply wf_tableb_sound. vm_compute. reflexivity. Qed.

Example ex_roots : roots ex_g ex_sel =
  Ok [P "Library"; P "Library.GetBook"; P "GetBookRequest"; P "Book";
      P "Library"; P "Library.Import"; P "ImportResponse"; P "ImportMetadata"; P "ImportRequest"; "google.longrunning.Operation";
      P "Library"; P "Library.Start"; P "Ops"; P "Ops.Get"; P "GetOperationRequest"; P "Operation";
      P "GetOperationRequest"; P "Operation"; P "StartRequest"; P "Operation"].
Proof. vm_compute. reflexivity. Qed.

Definition ex_al : list addr :=
  match allowlist ex_g ex_sel with Ok al => al | Err _ => [] end.

(* resource reference -> Book -> (reference) Shelf -> nested Slot (recursive), map entry, enum, dependency type *)
Example ex_allowlist :
  allowlist ex_g ex_sel = Ok ex_al /\
  set_eqb ex_al
    [P "Library"; P "Library.GetBook"; P "Library.Import"; P "Library.Start"; P "Ops"; P "Ops.Get";
     P "GetBookRequest"; P "Book"; P "Shelf"; P "Shelf.Slot"; P "Shelf.LabelsEntry"; P "Shelf.Tier"; P "TopKind";
     "google.dep.Meta"; P "ImportRequest"; P "ImportResponse"; P "ImportMetadata"; "google.longrunning.Operation";
     P "Operation"; P "GetOperationRequest"; P "StartRequest"] = true /\
  mem (P "Unused") ex_al = false /\ mem (P "ListShelvesRequest") ex_al = false /\ mem (P "Idle") ex_al = false.
Proof. vm_compute. repeat split; reflexivity. Qed.

(* both branches of prune_file occur: the extra file disappears, the resources file is cut down *)
Example ex_prune :
  prune_file ex_al (mkFile "google/example/library/v1/extra.proto" true [] [Msg (P "Orphan") [fld_s] [] []] [] []) = None /\
  (match build ex_g wit_pkg (ex_l false) with
   | Built out =>
       map o_name out = ["google/dep/common.proto"; "google/example/library/v1/resources.proto"; "google/example/library/v1/library.proto"]
       /\ option_map o_msgs (find_ofile out "google/example/library/v1/resources.proto")
          = Some [P "Shelf.Slot"; P "Shelf.LabelsEntry"; P "Shelf"; P "Book"]
       /\ option_map (fun o => map svc_view (o_svcs o)) (find_ofile out "google/example/library/v1/library.proto")
          = Some [(P "Library", ["GetBook"; "Import"; "Start"]); (P "Ops", ["Get"])]
       /\ dangling ex_g out = []
   | _ => False
   end).
Proof. vm_compute. repeat split; reflexivity. Qed.

Example ex_dependency :
  exists out f, build ex_g wit_pkg (ex_l false) = Built out /\ In f ex_g /\ fi_target f = false /\ fi_msgs f <> [].
Proof.
  eexists. exists (mkFile "google/dep/common.proto" false [] [Msg "google.dep.Meta" [fld_s] [] []] [] [("dep.example.com/Meta", "google.dep.Meta")]).
  split; [vm_compute; reflexivity|]. split; [now left|]. split; [reflexivity | discriminate].
Qed.

Example ex_internal :
  exists out s, build ex_g wit_pkg (ex_l true) = Built out /\ setting_for wit_pkg (ex_l true) = Some s /\
    ls_methods s <> [] /\ ls_internal s = true /\
    option_map (fun o => map (fun x => (client_name x, async_client_name x, map client_method_name (os_methods x))) (o_svcs o))
               (find_ofile out "google/example/library/v1/library.proto")
    = Some [("BaseLibraryClient", "BaseLibraryAsyncClient", ["GetBook"; "_ListShelves"; "Import_"; "Start"]);
            ("BaseOpsClient", "BaseOpsAsyncClient", ["_Get"; "_Other"]);
            ("BaseIdleClient", "BaseIdleAsyncClient", ["_Nop"])].
Proof.
  eexists. eexists. split; [vm_compute; reflexivity|]. split; [vm_compute; reflexivity|].
  split; [discriminate|]. split; [reflexivity|]. vm_compute. reflexivity.
Qed.

Example ex_validation :
  valid_settings (all_methods ex_g) (ex_l false) /\
  build ex_g wit_pkg [mkLS wit_pkg [P "Library.Nope"; P "Library.GetBook"] false]
    = Rejected [(wit_pkg, VSel [(P "Library.Nope", MNotFound)])] /\
  build ex_g wit_pkg [mkLS "google.example.library.v2" [P "Library.GetBook"] false]
    = Rejected [("google.example.library.v2", VSel [(P "Library.GetBook", MMismatch)])] /\
  build ex_g wit_pkg [mkLS wit_pkg [] false; mkLS wit_pkg [] true] = Rejected [(wit_pkg, VDup)].
Proof.
  split; [apply validate_nil; vm_compute; reflexivity|]. vm_compute. repeat split; reflexivity.
Qed.

(* the polling chain: one hop is fine; a polling method that itself names its own service as
   operation service makes Method.add_to_address_allowlist recurse without bound *)
Definition cyc_svcs : list service :=
  [mkSvc "Ops" (P "Ops") [mkMethod "Get" (P "Ops.Get") (P "GetOperationRequest") (P "Operation") None "Ops"
                                   (Some (P "GetOperationRequest", P "Operation")) true];
   mkSvc "Things" (P "Things") [mkMethod "Start" (P "Things.Start") (P "StartRequest") (P "Operation") None "Ops"
                                         (Some (P "GetOperationRequest", P "Operation")) false]].
Example ex_polling_cycle :
  (forall s m, In s cyc_svcs -> In m (s_methods s) -> me_name m = "Start" ->
     method_roots cyc_svcs s m = Err ERecursion) /\
  (forall fuel, 2 <= fuel -> forall m, expand fuel cyc_svcs cyc_svcs m = expand 2 cyc_svcs cyc_svcs m).
Proof.
  split.
  - intros s m [Hs|[Hs|[]]] Hm Hn; subst s; simpl in Hm; destruct Hm as [Hm|[]]; subst m; try discriminate.
    vm_compute. reflexivity.
  - intros fuel Hf m. apply expand_fuel; simpl; lia.
Qed.

(* ---------------------------------------------------------------- pins (T0): what Gen/SelectiveKw.v must say *)
(* the model's client_name / async_client_name / client_method_name / make_private / svc_internal /
   internal_svc / validate were written against these source fragments; a change makes this file fail *)
Example pin_naming :
  client_name_parts = ["Base"; ""; "Client"] /\
  async_client_name_parts = ["Base"; ""; "AsyncClient"] /\
  client_method_name_src = "name = self.name + '_' if self.name.lower() in keyword.kwlist else self.name; return make_private(name) if self.is_internal else name" /\
  make_private_src = "return object_name if object_name.startswith('_') else f'_{object_name}'" /\
  service_is_internal_src = "return any((m.is_internal for m in self.methods.values()))" /\
  method_with_internal_src = "if self.ident.proto in public_methods: return self; return dataclasses.replace(self, is_internal=True)" /\
  settings_error_strings = ["Duplicate version"; "Method does not exist."; "Mismatched version for method."; "selective_gapic_generation"] /\
  mem_str "import" kwlist = true /\ mem_str "get" kwlist = false.
Proof. repeat split; reflexivity. Qed.

From Coq Require Import Permutation.

(* ---------------------------------------------------------------- the resource table: when file order matters *)
Lemma assoc_last_some {A} k (l : list (string * A)) a : assoc_last k l = Some a -> In (k, a) l.
Proof.
  induction l as [|[k' v] l' IH]; intros H.
  - discriminate.
  - cbn [assoc_last] in H. destruct (assoc_last k l') as [x|] eqn:El.
    + right. apply IH. exact H.
    + destruct (String.eqb k k') eqn:Ek; [|discriminate].
      apply String.eqb_eq in Ek. subst k'. injection H as H. subst v. now left.
Qed.

Lemma assoc_last_none {A} k (l : list (string * A)) : assoc_last k l = None -> forall a, ~ In (k, a) l.
Proof.
  induction l as [|[k' v] l' IH]; intros H a Hin.
  - exact Hin.
  - cbn [assoc_last] in H. destruct (assoc_last k l') as [x|] eqn:El; [discriminate|].
    destruct (String.eqb k k') eqn:Ek; [discriminate|].
    destruct Hin as [Heq|Hin].
    + injection Heq as Hk _. subst k'. rewrite String.eqb_refl in Ek. discriminate.
    + exact (IH eq_refl a Hin).
Qed.

Lemma lookup_layers_some tabs t a : lookup_layers tabs t = Some a -> exists tb, In tb tabs /\ In (t, a) tb.
Proof.
  induction tabs as [|tb r IH]; intros H; [discriminate|].
  cbn [lookup_layers] in H. destruct (assoc_last t tb) as [x|] eqn:Ef.
  - injection H as H. subst x. exists tb. split; [now left | now apply assoc_last_some].
  - destruct (IH H) as [tb' [Hin Hd]]. exists tb'. split; [now right | exact Hd].
Qed.

Lemma lookup_layers_none tabs t : lookup_layers tabs t = None -> forall tb a, In tb tabs -> ~ In (t, a) tb.
Proof.
  induction tabs as [|tb0 r IH]; intros H tb a Hin; [destruct Hin|].
  cbn [lookup_layers] in H. destruct (assoc_last t tb0) as [x|] eqn:Ef; [discriminate|].
  destruct Hin as [Heq|Hin]; [subst tb0; now apply assoc_last_none | now apply IH].
Qed.

Lemma lookup_layers_app_some xs ys t a : lookup_layers xs t = Some a -> lookup_layers (xs ++ ys) t = Some a.
Proof.
  induction xs as [|tb r IH]; intros H; [discriminate|].
  cbn [lookup_layers app] in *. destruct (assoc_last t tb); [exact H | now apply IH].
Qed.

Lemma real_res_incl f p : In p (real_res f) -> In p (fi_res f).
Proof. unfold real_res. intro H. now apply filter_In in H as [H _]. Qed.

Lemma res_lookup_some g t a : res_lookup g t = Some a -> exists f, In f g /\ In (t, a) (fi_res f).
Proof.
  unfold res_lookup. intro H. destruct (lookup_layers_some _ _ _ H) as [tb [Hin Hd]].
  apply in_app_or in Hin as [Hin|Hin]; apply in_map_iff in Hin as [f [<- Hf]]; exists f; split; auto.
  now apply real_res_incl.
Qed.

Lemma res_lookup_none g t : res_lookup g t = None -> forall f a, In f g -> ~ In (t, a) (fi_res f).
Proof.
  unfold res_lookup. intros H f a Hin.
  apply (lookup_layers_none _ _ H (fi_res f) a). apply in_or_app. right. now apply in_map.
Qed.

(* a type carried by a message resolves to that message whatever file-level definitions exist and wherever they stand *)
Lemma res_lookup_prefers_message g t a f :
  In f g -> In (t, a) (fi_res f) -> a <> "" ->
  (forall f' a', In f' g -> In (t, a') (fi_res f') -> a' <> "" -> a' = a) ->
  res_lookup g t = Some a.
Proof.
  intros Hf Hd Hne Hag. unfold res_lookup. apply lookup_layers_app_some.
  destruct (lookup_layers (map real_res g) t) as [x|] eqn:E.
  - destruct (lookup_layers_some _ _ _ E) as [tb [Hin Hx]]. apply in_map_iff in Hin as [f' [<- Hf']].
    unfold real_res in Hx. apply filter_In in Hx as [Hx Hnz]. cbn [snd] in Hnz.
    f_equal. apply (Hag f' x Hf' Hx). intro Ex. subst x. discriminate Hnz.
  - exfalso. apply (lookup_layers_none _ _ E (real_res f) a); [now apply in_map|].
    unfold real_res. apply filter_In. split; [exact Hd|]. cbn [snd]. destruct a; [now elim Hne | reflexivity].
Qed.

(* every declaration of the type [t] in the files of [g] names the same address (in particular: t is declared at most once) *)
Definition res_agree (g : graph) (t : string) : Prop :=
  forall f1 f2 a1 a2, In f1 g -> In f2 g -> In (t, a1) (fi_res f1) -> In (t, a2) (fi_res f2) -> a1 = a2.

Lemma res_lookup_order_free g g' t : Permutation g g' -> res_agree g t -> res_lookup g t = res_lookup g' t.
Proof.
  intros Hp Hag.
  destruct (res_lookup g t) as [a|] eqn:E1; destruct (res_lookup g' t) as [a'|] eqn:E2.
  - destruct (res_lookup_some _ _ _ E1) as [f1 [Hi1 Hd1]].
    destruct (res_lookup_some _ _ _ E2) as [f2 [Hi2 Hd2]].
    apply (Permutation_in _ (Permutation_sym Hp)) in Hi2.
    now rewrite (Hag f1 f2 a a' Hi1 Hi2 Hd1 Hd2).
  - destruct (res_lookup_some _ _ _ E1) as [f1 [Hi1 Hd1]].
    apply (Permutation_in _ Hp) in Hi1.
    exfalso. exact (res_lookup_none _ _ E2 f1 a Hi1 Hd1).
  - destruct (res_lookup_some _ _ _ E2) as [f2 [Hi2 Hd2]].
    apply (Permutation_in _ (Permutation_sym Hp)) in Hi2.
    exfalso. exact (res_lookup_none _ _ E1 f2 a' Hi2 Hd2).
  - reflexivity.
Qed.

(* the API of c16_util.resource_twice_api: resources.proto declares the type by the message Shelf,
   library.proto declares it again at file level (address-less synthetic message) and its rpc DeleteShelf
   reaches the resource only through the reference on DeleteShelfRequest.name *)
Definition rt_type : string := "example.googleapis.com/Shelf".
Definition rt_res : file :=
  mkFile "google/example/library/v1/resources.proto" true [P "Finish"]
    [Msg (P "Theme") [fld_s; mkField None (Some (P "Finish")) None] [] [];
     Msg (P "Shelf") [fld_s; mkField (Some (P "Shelf.Row")) None None; mkField None (Some (P "Shelf.Kind")) None;
                      mkField (Some (P "Theme")) None None] [P "Shelf.Kind"] [Msg (P "Shelf.Row") [fld_s] [] []];
     Msg (P "Spare") [fld_s] [] []]
    [] [(rt_type, P "Shelf")].
Definition rt_lib : file :=
  mkFile "google/example/library/v1/library.proto" true []
    [Msg (P "DeleteShelfRequest") [mkField None None (Some rt_type)] [] [];
     Msg (P "DeleteShelfResponse") [] [] [];
     Msg (P "ListThingsRequest") [fld_s] [] []; Msg (P "ListThingsResponse") [fld_s] [] []]
    [mkSvc "Library" (P "Library")
       [mkMethod "DeleteShelf" (P "Library.DeleteShelf") (P "DeleteShelfRequest") (P "DeleteShelfResponse") None "" None false;
        mkMethod "ListThings" (P "Library.ListThings") (P "ListThingsRequest") (P "ListThingsResponse") None "" None false]]
    [(rt_type, "")].
Definition rt_sel : list string := [P "Library.DeleteShelf"].
Definition rt_kept (g : graph) (a : addr) : bool :=
  match allowlist g rt_sel with Ok al => mem a al | Err _ => false end.

(* a type declared by a message and again at file level: the declarations do not agree, yet (since the repair of
   finding selective.resource_declared_twice_file_level_first) the lookup finds the message in either order of the files *)
Lemma ex_res_lookup_order :
  Permutation [rt_res; rt_lib] [rt_lib; rt_res] /\ ~ res_agree [rt_res; rt_lib] rt_type /\
  res_lookup [rt_res; rt_lib] rt_type = Some (P "Shelf") /\ res_lookup [rt_lib; rt_res] rt_type = Some (P "Shelf").
Proof.
  split; [apply perm_swap|]. split; [|split; vm_compute; reflexivity].
  intros H. specialize (H rt_res rt_lib (P "Shelf") "" (or_introl eq_refl) (or_intror (or_introl eq_refl))
                          (or_introl eq_refl) (or_introl eq_refl)). discriminate H.
Qed.

(* the hypothesis of res_lookup_order_free holds of a graph with resources: a single declaration *)
Lemma ex_res_agree : res_agree [rt_res; mkFile "x.proto" true [] [] [] [("example.googleapis.com/Annex", "")]] rt_type /\
  res_lookup [rt_res; mkFile "x.proto" true [] [] [] [("example.googleapis.com/Annex", "")]] rt_type = Some (P "Shelf").
Proof.
  split; [|vm_compute; reflexivity].
  intros f1 f2 a1 a2 H1 H2 D1 D2.
  assert (Hone : forall f a, In f [rt_res; mkFile "x.proto" true [] [] [] [("example.googleapis.com/Annex", "")]] ->
                             In (rt_type, a) (fi_res f) -> a = P "Shelf").
  { intros f a [Hf|[Hf|[]]] Hd; subst f; cbn [fi_res] in Hd.
    - destruct Hd as [Hd|[]]. now injection Hd as Hd.
    - destruct Hd as [Hd|[]]. discriminate Hd. }
  now rewrite (Hone f1 a1 H1 D1), (Hone f2 a2 H2 D2).
Qed.

(* the former witness of finding selective.resource_declared_twice_file_level_first (file-level definition in the
   earlier file, message in the later one): in either order of the files the kept RPC keeps the resource message
   and everything only it leads to *)
Lemma resource_reference_keeps_message_witness :
  forall g, g = [rt_lib; rt_res] \/ g = [rt_res; rt_lib] ->
  rt_kept g (P "DeleteShelfRequest") = true /\ rt_kept g (P "Shelf") = true /\ rt_kept g (P "Shelf.Row") = true /\
  rt_kept g (P "Theme") = true /\ rt_kept g (P "Finish") = true /\ rt_kept g (P "Spare") = false.
Proof. intros g [-> | ->]; repeat split; vm_compute; reflexivity. Qed.

