(* Proofs/Flatten.v — lemmas for C05 (and the coercion lemmas C03 re-uses) *)
From GV Require Import Base.Str Gen.FlattenGen Model.Flatten.
Require Import Lia.
Local Open Scope list_scope.

(* ================================================================================================ *)
(* A. OrderedDict: first occurrence fixes the position, last occurrence the value                   *)
(* ================================================================================================ *)

Fixpoint dedup_first (seen l : list string) : list string :=
  match l with
  | [] => []
  | x :: l' => if mem_str x seen then dedup_first seen l' else x :: dedup_first (x :: seen) l'
  end.

Lemma mem_str_In x l : mem_str x l = true <-> In x l.
Proof.
  unfold mem_str. rewrite existsb_exists. split.
  - intros [y [Hy E]]. apply String.eqb_eq in E. now subst.
  - intro H. exists x. split; [assumption | apply String.eqb_refl].
Qed.

Lemma mem_str_false x l : mem_str x l = false <-> ~ In x l.
Proof.
  rewrite <- mem_str_In. destruct (mem_str x l); split; intro H; try reflexivity; try discriminate.
  - exfalso. now apply H.
Qed.

Lemma mem_str_app x a b : mem_str x (a ++ b) = mem_str x a || mem_str x b.
Proof. unfold mem_str. apply existsb_app. Qed.

Lemma dedup_first_ext s1 s2 l :
  (forall x, mem_str x s1 = mem_str x s2) -> dedup_first s1 l = dedup_first s2 l.
Proof.
  revert s1 s2. induction l as [|y l IH]; intros s1 s2 H; simpl; [reflexivity|].
  rewrite (H y). destruct (mem_str y s2); [now apply IH|].
  f_equal. apply IH. intro x. unfold mem_str in *. simpl. now rewrite H.
Qed.

Lemma od_put_keys {A} k (v : A) d :
  map fst (od_put k v d) = if mem_str k (map fst d) then map fst d else map fst d ++ [k].
Proof.
  induction d as [|[k' v'] d IH]; simpl; [reflexivity|].
  unfold mem_str in *. simpl.
  destruct (String.eqb k k') eqn:E; simpl.
  - apply String.eqb_eq in E. now subst.
  - rewrite IH. destruct (existsb (String.eqb k) (map fst d)); reflexivity.
Qed.

Lemma fold_put_keys {A} (l acc : list (string * A)) :
  map fst (fold_left (fun a kv => od_put (fst kv) (snd kv) a) l acc)
  = map fst acc ++ dedup_first (map fst acc) (map fst l).
Proof.
  revert acc. induction l as [|[k v] l IH]; intro acc; simpl.
  - now rewrite app_nil_r.
  - rewrite IH, od_put_keys.
    destruct (mem_str k (map fst acc)) eqn:E; [reflexivity|].
    rewrite <- app_assoc. simpl. f_equal. f_equal.
    apply dedup_first_ext. intro x. rewrite mem_str_app. unfold mem_str. simpl.
    now rewrite orb_false_r, orb_comm.
Qed.

Lemma odict_keys {A} (l : list (string * A)) : map fst (odict l) = dedup_first [] (map fst l).
Proof. unfold odict. now rewrite fold_put_keys. Qed.

Lemma od_put_in_keys {A} k (v : A) d x :
  In x (map fst (od_put k v d)) -> x = k \/ In x (map fst d).
Proof.
  rewrite od_put_keys. destruct (mem_str k (map fst d)); intro H; [now right|].
  apply in_app_or in H as [H|[H|[]]]; [now right | now left].
Qed.

Lemma od_put_nodup {A} k (v : A) d : NoDup (map fst d) -> NoDup (map fst (od_put k v d)).
Proof.
  intro H. rewrite od_put_keys. destruct (mem_str k (map fst d)) eqn:E; [assumption|].
  apply mem_str_false in E.
  induction (map fst d) as [|y ys IH]; simpl.
  - constructor; [intros []|constructor].
  - inversion H; subst. constructor.
    + intro Hin. apply in_app_or in Hin as [Hin|[Hin|[]]]; [contradiction|]. subst. apply E. now left.
    + apply IH; [assumption|]. intro Hin. apply E. now right.
Qed.

Lemma odict_nodup {A} (l : list (string * A)) : NoDup (map fst (odict l)).
Proof.
  unfold odict. assert (H : NoDup (map fst (@nil (string * A)))) by constructor.
  revert H. generalize (@nil (string * A)). induction l as [|[k v] l IH]; intros acc H; simpl; [assumption|].
  apply IH. now apply od_put_nodup.
Qed.

Lemma assoc_od_put {A} k k' (v : A) d :
  assoc k (od_put k' v d) = if String.eqb k k' then Some v else assoc k d.
Proof.
  induction d as [|[k2 v2] d IH]; simpl.
  - destruct (String.eqb k k'); reflexivity.
  - destruct (String.eqb k' k2) eqn:E2; simpl.
    + apply String.eqb_eq in E2. subst k2. destruct (String.eqb k k'); reflexivity.
    + rewrite IH. destruct (String.eqb k k') eqn:E1; [|reflexivity].
      apply String.eqb_eq in E1. subst k'. now rewrite E2.
Qed.

(* the value under a key is the one of its last occurrence *)
Lemma odict_value {A} (l : list (string * A)) k : assoc k (odict l) = assoc k (rev l).
Proof.
  unfold odict.
  assert (G : forall acc, assoc k (fold_left (fun a kv => od_put (fst kv) (snd kv) a) l acc)
                          = match assoc k (rev l) with Some v => Some v | None => assoc k acc end).
  { induction l as [|[k1 v1] l IH]; intro acc; simpl; [reflexivity|].
    rewrite IH. clear IH.
    assert (E : forall (a b : list (string * A)), assoc k (a ++ b) = match assoc k a with Some v => Some v | None => assoc k b end).
    { induction a as [|[ka va] a IHa]; intro b; simpl; [reflexivity|]. destruct (String.eqb k ka); [reflexivity|apply IHa]. }
    rewrite E. destruct (assoc k (rev l)); [reflexivity|]. simpl. rewrite assoc_od_put.
    destruct (String.eqb k k1); reflexivity. }
  rewrite G. destruct (assoc k (rev l)); reflexivity.
Qed.

(* seq_items is the textual-order traversal: the accepted items of the non-empty pieces, in order *)
Definition item_list (sch : schema) (input : message) (cross : bool) (p : string) : list (string * rfield) :=
  match sig_item sch input cross p with Some (Some kv) => [kv] | _ => [] end.

Lemma seq_items_spec sch input cross pieces items :
  seq_items sch input cross pieces = Some items ->
  items = flat_map (item_list sch input cross) (filter (fun p => negb (is_empty p)) pieces)
  /\ Forall (fun p => is_empty p = true \/ sig_item sch input cross p <> None) pieces.
Proof.
  revert items. induction pieces as [|p ps IH]; intros items H; simpl in *.
  - inversion H. split; [reflexivity|constructor].
  - destruct (is_empty p) eqn:Ep; simpl.
    + apply IH in H as [H1 H2]. split; [assumption|]. constructor; [now left|assumption].
    + unfold item_list at 1. destruct (sig_item sch input cross p) as [o|] eqn:Es; [|discriminate].
      destruct (seq_items sch input cross ps) as [l|] eqn:El; [|discriminate].
      destruct (IH l eq_refl) as [H1 H2]. inversion H; subst items. split.
      * destruct o; simpl; now rewrite <- H1.
      * constructor; [right; congruence|assumption].
Qed.

Lemma seq_items_error sch input cross pieces :
  seq_items sch input cross pieces = None <->
  exists p, In p pieces /\ is_empty p = false /\ sig_item sch input cross p = None.
Proof.
  induction pieces as [|p ps IH]; simpl.
  - split; [discriminate|intros [p [[] _]]].
  - destruct (is_empty p) eqn:Ep.
    + rewrite IH. split; intros [q [Hq H]]; exists q; (split; [|assumption]).
      * now right.
      * destruct Hq as [->|Hq]; [|assumption]. destruct H as [H _]. congruence.
    + destruct (sig_item sch input cross p) as [o|] eqn:Es.
      * destruct (seq_items sch input cross ps) as [l|] eqn:El.
        -- split; [discriminate|]. intros [q [[->|Hq] [H1 H2]]]; [congruence|].
           assert (X : @None (list (string * rfield)) = None) by reflexivity.
           destruct IH as [_ IH]. assert (Some l = None); [|discriminate]. apply IH. eauto.
        -- split; [|reflexivity]. intros _. destruct IH as [IH _]. destruct (IH eq_refl) as [q [Hq H]]. exists q. split; [now right|assumption].
      * split; [|reflexivity]. intros _. exists p. repeat split; auto.
Qed.

Lemma fields_mapping_spec sch input cross sigs m :
  fields_mapping sch input cross sigs = Some m ->
  exists items,
    items = flat_map (item_list sch input cross) (filter (fun p => negb (is_empty p)) (all_pieces sigs)) /\
    map fst m = dedup_first [] (map fst items) /\
    NoDup (map fst m) /\
    (forall k, assoc k m = assoc k (rev items)).
Proof.
  unfold fields_mapping. destruct (seq_items sch input cross (all_pieces sigs)) as [l|] eqn:E; [|discriminate].
  intro H. inversion H; subst m. exists l. apply seq_items_spec in E as [E _].
  split; [assumption|]. split; [apply odict_keys|]. split; [apply odict_nodup|]. apply odict_value.
Qed.

(* every flattened field the mapping returns is well formed (map implies repeated message, ...) *)
Lemma rfield_of_wf m f : rfield_wf (rfield_of m f) = true.
Proof.
  unfold rfield_wf, rfield_of, is_msg. simpl.
  destruct (f_repeated f), (f_type f), (f_map f), (f_struct_value f); reflexivity.
Qed.

Lemma get_field_wf sch : forall path m rf, get_field sch m path = Some rf -> rfield_wf rf = true.
Proof.
  induction path as [|first rest IH]; intros m rf H; simpl in H; [discriminate|].
  destruct (msg_field m (if reserved first && m_proto_plus m then (first ++ "_")%string else first)) as [cursor|]; [|discriminate].
  destruct rest as [|r rest'].
  - inversion H. apply rfield_of_wf.
  - destruct (f_repeated cursor); [discriminate|].
    destruct (f_type cursor) as [| |fqn]; try discriminate.
    destruct (assoc fqn sch) as [m'|]; [|discriminate]. eapply IH; eauto.
Qed.

Definition fm_wf (m : fm) : Prop := forall kf, In kf m -> rfield_wf (snd kf) = true.

Lemma od_put_In {A} k (v : A) d x : In x (od_put k v d) -> x = (k, v) \/ In x d.
Proof.
  induction d as [|[k' v'] d IH]; simpl; intro H.
  - destruct H as [H|[]]; now left.
  - destruct (String.eqb k k').
    + destruct H as [H|H]; [now left | right; now right].
    + destruct H as [H|H]; [right; now left|]. apply IH in H as [H|H]; [now left|right; now right].
Qed.

Lemma odict_In {A} (l : list (string * A)) x : In x (odict l) -> In x l.
Proof.
  unfold odict.
  assert (G : forall acc, In x (fold_left (fun a kv => od_put (fst kv) (snd kv) a) l acc) -> In x l \/ In x acc).
  { induction l as [|[k v] l IH]; intros acc H; simpl in *; [now right|].
    apply IH in H as [H|H]; [left; now right|]. apply od_put_In in H as [H|H]; [left; now left | now right]. }
  intro H. apply G in H as [H|[]]. assumption.
Qed.

Lemma fields_mapping_wf sch input cross sigs m :
  fields_mapping sch input cross sigs = Some m -> fm_wf m.
Proof.
  intro H. unfold fields_mapping in H.
  destruct (seq_items sch input cross (all_pieces sigs)) as [l|] eqn:E; [|discriminate].
  inversion H; subst m. apply seq_items_spec in E as [E _]. intros kf Hin. apply odict_In in Hin.
  rewrite E in Hin. apply in_flat_map in Hin as [p [_ Hp]].
  unfold item_list in Hp. destruct (sig_item sch input cross p) as [[kv|]|] eqn:Es; try contradiction.
  destruct Hp as [->|[]]. unfold sig_item in Es.
  destruct (get_field sch input (segments (pystrip p))) as [rf|] eqn:Eg; [|discriminate].
  destruct (attr_path sch input (segments (pystrip p))) as [ks|]; [|discriminate].
  destruct (cross && negb (r_primitive rf)); [discriminate|]. inversion Es. simpl. eapply get_field_wf; eauto.
Qed.

(* ================================================================================================ *)
(* B. the valuation contract: lookups after assign / extend / update                                *)
(* ================================================================================================ *)

Lemma assoc_del_same k (l : list (string * leaf)) : assoc k (del k l) = None.
Proof.
  induction l as [|[k' v] l IH]; simpl; [reflexivity|].
  destruct (String.eqb k k') eqn:E; simpl; [assumption|]. now rewrite E.
Qed.

Lemma assoc_del_other k k' (l : list (string * leaf)) : k <> k' -> assoc k (del k' l) = assoc k l.
Proof.
  intro N. induction l as [|[k2 v] l IH]; simpl; [reflexivity|].
  destruct (String.eqb k' k2) eqn:E; simpl.
  - apply String.eqb_eq in E. subst k2. destruct (String.eqb k k') eqn:E2; [apply String.eqb_eq in E2; contradiction|assumption].
  - destruct (String.eqb k k2); [reflexivity|assumption].
Qed.

Lemma lookup_store_same k v r t : lookup k (store k v r t) = v.
Proof.
  unfold lookup, store. simpl. destruct v; simpl; [now rewrite String.eqb_refl | apply assoc_del_same].
Qed.

Lemma lookup_store_other k k' v r t : k <> k' -> lookup k (store k' v r t) = lookup k r.
Proof.
  intro N. unfold lookup, store. simpl. destruct v; simpl.
  - destruct (String.eqb k k') eqn:E; [apply String.eqb_eq in E; contradiction|]. now apply assoc_del_other.
  - now apply assoc_del_other.
Qed.

Lemma viv_store p k v r t :
  vivified p (store k v r t) = vivified p r || (t && mem_str p (prefixes k)).
Proof.
  unfold vivified, store. simpl. destruct t; simpl.
  - rewrite mem_str_app. apply orb_comm.
  - now rewrite orb_false_r.
Qed.

(* what one application stores under its key when the key is still unset, and whether it touches the parents *)
Definition eff (a : app) (kw : kwargs) : option (option leaf * bool) :=
  match fires a kw with
  | None => None
  | Some v =>
      match ap_act a, v with
      | Assign, _ => Some (if vacuous (ap_presence a) v then None else Some v, true)
      | Extend, LL l => Some (if is_nil l then None else Some (LL l), true)
      | Update, LD d => Some (if is_nil (map_merge [] d) then None else Some (LD (map_merge [] d)), negb (is_nil d))
      | _, _ => None
      end
  end.
Definition stored (e : option (option leaf * bool)) : option leaf := match e with Some (s, _) => s | None => None end.
Definition touched (e : option (option leaf * bool)) : bool := match e with Some (_, t) => t | None => false end.

Lemma run_app_other kw r a k : ap_key a <> k -> lookup k (run_app kw r a) = lookup k r.
Proof.
  intro N. unfold run_app. destruct (fires a kw) as [v|]; [|reflexivity].
  destruct (ap_act a); [| destruct v; try reflexivity | destruct v; try reflexivity];
    unfold assign, extend, update; apply lookup_store_other; congruence.
Qed.

Lemma run_app_same kw r a :
  lookup (ap_key a) r = None -> lookup (ap_key a) (run_app kw r a) = stored (eff a kw).
Proof.
  intro H. unfold run_app, eff. destruct (fires a kw) as [v|]; [|assumption].
  destruct (ap_act a).
  - unfold assign. now rewrite lookup_store_same.
  - destruct v; try assumption. unfold extend. rewrite H. simpl. now rewrite lookup_store_same.
  - destruct v; try assumption. unfold update. rewrite H. simpl. now rewrite lookup_store_same.
Qed.

Lemma run_app_viv kw r a p :
  vivified p (run_app kw r a) = vivified p r || (touched (eff a kw) && mem_str p (prefixes (ap_key a))).
Proof.
  unfold run_app, eff. destruct (fires a kw) as [v|]; simpl; [|now rewrite orb_false_r].
  destruct (ap_act a).
  - unfold assign. now rewrite viv_store.
  - destruct v; simpl; try now rewrite orb_false_r. unfold extend. now rewrite viv_store.
  - destruct v; simpl; try now rewrite orb_false_r. unfold update. now rewrite viv_store.
Qed.

Lemma run_apps_notin l kw : forall r k,
  (forall a, In a l -> ap_key a <> k) -> lookup k (run_apps l kw r) = lookup k r.
Proof.
  unfold run_apps. induction l as [|a l IH]; intros r k H; simpl; [reflexivity|].
  rewrite IH; [|intros b Hb; apply H; now right]. apply run_app_other. apply H. now left.
Qed.

Lemma run_apps_in l kw : forall r a,
  NoDup (map ap_key l) -> In a l -> lookup (ap_key a) r = None ->
  lookup (ap_key a) (run_apps l kw r) = stored (eff a kw).
Proof.
  unfold run_apps. induction l as [|b l IH]; intros r a ND Hin Hr; simpl; [contradiction|].
  inversion ND as [|x xs Hnotin ND']; subst.
  destruct Hin as [->|Hin].
  - fold (run_apps l kw (run_app kw r a)). rewrite run_apps_notin.
    + now apply run_app_same.
    + intros c Hc E. apply Hnotin. rewrite <- E. now apply in_map.
  - apply IH; try assumption.
    rewrite run_app_other; [assumption|]. intro E. apply Hnotin. rewrite E. now apply in_map.
Qed.

Lemma run_apps_viv l kw p : forall r,
  vivified p (run_apps l kw r)
  = vivified p r || existsb (fun a => touched (eff a kw) && mem_str p (prefixes (ap_key a))) l.
Proof.
  unfold run_apps. induction l as [|a l IH]; intro r; simpl; [now rewrite orb_false_r|].
  rewrite IH, run_app_viv. now rewrite orb_assoc.
Qed.

Lemma lookup_empty k : lookup k empty_req = None.
Proof. reflexivity. Qed.

(* two lists of applications with distinct keys, the same keys, and the same effect under each key,
   produce the same valuation from the empty request *)
Definition same_effects (kw : kwargs) (l1 l2 : list app) : Prop :=
  forall a1, In a1 l1 -> exists a2, In a2 l2 /\ ap_key a2 = ap_key a1 /\
     stored (eff a2 kw) = stored (eff a1 kw) /\
     (forall p, touched (eff a2 kw) && mem_str p (prefixes (ap_key a2)) = touched (eff a1 kw) && mem_str p (prefixes (ap_key a1))).

Lemma existsb_iff {A} (f g : A -> bool) l1 l2 :
  (forall x, In x l1 -> f x = true -> exists y, In y l2 /\ g y = true) ->
  (forall y, In y l2 -> g y = true -> exists x, In x l1 /\ f x = true) ->
  existsb f l1 = existsb g l2.
Proof.
  intros H1 H2. destruct (existsb f l1) eqn:E1; destruct (existsb g l2) eqn:E2; try reflexivity.
  - apply existsb_exists in E1 as [x [Hx Fx]]. destruct (H1 x Hx Fx) as [y [Hy Gy]].
    assert (existsb g l2 = true) by (apply existsb_exists; eauto). congruence.
  - apply existsb_exists in E2 as [y [Hy Gy]]. destruct (H2 y Hy Gy) as [x [Hx Fx]].
    assert (existsb f l1 = true) by (apply existsb_exists; eauto). congruence.
Qed.

Lemma run_apps_equiv kw l1 l2 :
  NoDup (map ap_key l1) -> NoDup (map ap_key l2) ->
  same_effects kw l1 l2 -> same_effects kw l2 l1 ->
  req_equiv (run_apps l1 kw empty_req) (run_apps l2 kw empty_req).
Proof.
  intros N1 N2 S12 S21. split.
  - intro k.
    destruct (in_dec string_dec k (map ap_key l1)) as [Hin|Hnot].
    + apply in_map_iff in Hin as [a1 [<- Ha1]].
      destruct (S12 a1 Ha1) as [a2 [Ha2 [Ek [Es _]]]].
      rewrite (run_apps_in l1 kw empty_req a1 N1 Ha1 (lookup_empty _)).
      rewrite <- Ek. rewrite (run_apps_in l2 kw empty_req a2 N2 Ha2 (lookup_empty _)). now symmetry.
    + rewrite run_apps_notin; [|intros a Ha E; apply Hnot; rewrite <- E; now apply in_map].
      rewrite run_apps_notin; [reflexivity|].
      intros a2 Ha2 E. destruct (S21 a2 Ha2) as [a1 [Ha1 [Ek _]]].
      apply Hnot. rewrite <- E, <- Ek. now apply in_map.
  - intro p. rewrite !run_apps_viv. simpl. apply existsb_iff.
    + intros a1 Ha1 T. destruct (S12 a1 Ha1) as [a2 [Ha2 [_ [_ Et]]]]. exists a2. split; [assumption|]. now rewrite Et.
    + intros a2 Ha2 T. destruct (S21 a2 Ha2) as [a1 [Ha1 [_ [_ Et]]]]. exists a1. split; [assumption|]. now rewrite Et.
Qed.

Lemma req_equiv_refl r : req_equiv r r.
Proof. split; reflexivity. Qed.
Lemma req_equiv_sym a b : req_equiv a b -> req_equiv b a.
Proof. intros [H1 H2]. split; intro; symmetry; auto. Qed.
Lemma req_equiv_trans a b c : req_equiv a b -> req_equiv b c -> req_equiv a c.
Proof. intros [H1 H2] [H3 H4]. split; intro; [rewrite H1|rewrite H2]; auto. Qed.

(* no parameter of the list is passed: nothing runs *)
Lemma run_apps_idle l kw r :
  (forall a, In a l -> fires a kw = None) -> run_apps l kw r = r /\ apps_typed l kw = true.
Proof.
  unfold run_apps, apps_typed. revert r. induction l as [|a l IH]; intros r H; simpl; [split; reflexivity|].
  assert (Ha : fires a kw = None) by (apply H; now left).
  unfold run_app at 2. rewrite Ha. simpl.
  destruct (IH r) as [I1 I2]; [intros b Hb; apply H; now right|]. split; assumption.
Qed.

Lemma fires_nil a : fires a [] = None.
Proof. reflexivity. Qed.

(* ================================================================================================ *)
(* C. what each template emits, field by field                                                      *)
(* ================================================================================================ *)

(* the combinations of guard and statement the templates use for a field of a given kind *)
Definition combo_ok (a : app) : Prop :=
  match ap_act a with
  | Assign => ap_guard a = GNotNone
  | Extend => ap_kind a = KList
  | Update => ap_kind a = KMap
  end.

(* [a] applies the field [kf] *)
Definition app_for (kf : string * rfield) (a : app) : Prop :=
  ap_param a = r_name (snd kf) /\ ap_key a = fst kf /\ ap_kind a = kind_of (snd kf) /\
  ap_presence a = r_presence (snd kf) /\ combo_ok a.

Lemma mk_app_for g act kf :
  (match act with Assign => g = GNotNone | Extend => kind_of (snd kf) = KList | Update => kind_of (snd kf) = KMap end) ->
  app_for kf (mk_app g act kf).
Proof. intro H. unfold app_for, mk_app, combo_ok. simpl. repeat split; try reflexivity. destruct act; assumption. Qed.

Lemma kind_list rf : rfield_wf rf = true -> r_repeated rf = true -> r_map rf = false -> kind_of rf = KList.
Proof. intros _ R M. unfold kind_of. now rewrite M, R. Qed.
Lemma kind_map rf : r_map rf = true -> kind_of rf = KMap.
Proof. intro M. unfold kind_of. now rewrite M. Qed.
Lemma wf_struct rf : rfield_wf rf = true -> r_struct_value rf = true -> r_map rf = false.
Proof.
  unfold rfield_wf. intros W S. rewrite S in W. destruct (r_map rf); [|reflexivity].
  simpl in W. rewrite andb_false_r in W. simpl in W. rewrite andb_false_r in W. discriminate.
Qed.

(* --- keys of the emitted application lists --- *)
Lemma nodup_fst_inj {A} (m : list (string * A)) x y :
  NoDup (map fst m) -> In x m -> In y m -> fst x = fst y -> x = y.
Proof.
  induction m as [|z m IH]; intros ND Hx Hy E; [contradiction|].
  inversion ND as [|k ks Hn ND']; subst.
  destruct Hx as [->|Hx], Hy as [->|Hy]; try reflexivity.
  - exfalso. apply Hn. rewrite E. now apply in_map.
  - exfalso. apply Hn. rewrite <- E. now apply in_map.
  - now apply IH.
Qed.

Lemma nodup_filter {A} (p : string * A -> bool) m : NoDup (map fst m) -> NoDup (map fst (filter p m)).
Proof.
  induction m as [|x m IH]; intro ND; simpl; [constructor|].
  inversion ND as [|k ks Hn ND']; subst. destruct (p x); simpl; [|now apply IH].
  constructor; [|now apply IH]. intro H. apply Hn. apply in_map_iff in H as [y [E Hy]].
  apply filter_In in Hy as [Hy _]. rewrite <- E. now apply in_map.
Qed.

Lemma NoDup_app_intro {A} (l1 l2 : list A) :
  NoDup l1 -> NoDup l2 -> (forall x, In x l1 -> ~ In x l2) -> NoDup (l1 ++ l2).
Proof.
  induction l1 as [|a l1 IH]; intros N1 N2 D; simpl; [assumption|].
  inversion N1; subst. constructor.
  - intro H. apply in_app_or in H as [H|H]; [contradiction|]. apply (D a); [now left|assumption].
  - apply IH; try assumption. intros x Hx. apply D. now right.
Qed.

Lemma disjoint_filters {A} (p q : string * A -> bool) m :
  (forall x, In x m -> p x && q x = false) -> NoDup (map fst m) ->
  forall k, In k (map fst (filter p m)) -> ~ In k (map fst (filter q m)).
Proof.
  intros D ND k H1 H2.
  apply in_map_iff in H1 as [x [E1 Hx]]. apply in_map_iff in H2 as [y [E2 Hy]].
  apply filter_In in Hx as [Hx Px]. apply filter_In in Hy as [Hy Qy].
  assert (x = y) by (apply (nodup_fst_inj m); congruence). subst y.
  specialize (D x Hx). rewrite Px, Qy in D. discriminate.
Qed.

Lemma nodup_app_filters {A} (p q : string * A -> bool) m :
  (forall x, In x m -> p x && q x = false) -> NoDup (map fst m) ->
  NoDup (map fst (filter p m) ++ map fst (filter q m)).
Proof.
  intros D ND. apply NoDup_app_intro; try now apply nodup_filter. now apply disjoint_filters.
Qed.

(* ================================================================================================ *)
(* D. hypotheses of the theorems and the per-field effect lemma                                     *)
(* ================================================================================================ *)

(* the values passed have the kind of their field; dict values have distinct keys *)
Definition kw_wf (m : fm) (kw : kwargs) : Prop :=
  forall kf v, In kf m -> assoc (r_name (snd kf)) kw = Some v ->
    kind_ok (kind_of (snd kf)) v = true /\ (forall d, v = LD d -> NoDup (map fst d)).

(* no empty list / dict is passed for a field reached through a dotted path *)
Definition no_empty_dotted (m : fm) (kw : kwargs) : Prop :=
  forall kf v, In kf m -> assoc (r_name (snd kf)) kw = Some v -> dotted (fst kf) = true ->
    (kind_of (snd kf) = KList \/ kind_of (snd kf) = KMap) -> truthy v = true.

(* a cross-package mapping holds primitive fields only (Method._fields_mapping drops the others), hence no maps *)
Definition no_maps (m : fm) : Prop := forall kf, In kf m -> r_map (snd kf) = false.

Lemma map_put_fresh kk vv acc : ~ In kk (map fst acc) -> map_put kk vv acc = acc ++ [(kk, vv)].
Proof.
  induction acc as [|[k' v'] acc IH]; intro H; simpl; [reflexivity|].
  destruct (String.eqb kk k') eqn:E.
  - apply String.eqb_eq in E. subst. exfalso. apply H. now left.
  - rewrite IH; [reflexivity|]. intro Hin. apply H. now right.
Qed.

Lemma map_merge_fresh d : forall acc, NoDup (map fst (acc ++ d)) -> map_merge acc d = acc ++ d.
Proof.
  unfold map_merge. induction d as [|[k v] d IH]; intros acc ND; simpl; [now rewrite app_nil_r|].
  rewrite map_put_fresh.
  - rewrite IH; [now rewrite <- app_assoc|]. now rewrite <- app_assoc.
  - rewrite map_app in ND. simpl in ND. apply NoDup_remove_2 in ND. intro H. apply ND. apply in_or_app. now left.
Qed.

Lemma map_merge_nil d : NoDup (map fst d) -> map_merge [] d = d.
Proof. intro H. now apply (map_merge_fresh d []). Qed.

Lemma not_dotted_prefixes k : dotted k = false -> prefixes k = [].
Proof. unfold dotted. destruct (prefixes k); [reflexivity|discriminate]. Qed.

Lemma kind_ok_list v : kind_ok KList v = true -> exists l, v = LL l.
Proof. destruct v; simpl; try discriminate. eauto. Qed.
Lemma kind_ok_map v : kind_ok KMap v = true -> exists d, v = LD d.
Proof. destruct v; simpl; try discriminate. eauto. Qed.

(* an application emitted for a field acts, on a still-unset key, like the plain assignment of the value *)
Lemma eff_same m kw kf a :
  In kf m -> kw_wf m kw -> no_empty_dotted m kw -> app_for kf a ->
  let s := mk_app GNotNone Assign kf in
  stored (eff a kw) = stored (eff s kw) /\
  (forall p, touched (eff a kw) && mem_str p (prefixes (ap_key a)) = touched (eff s kw) && mem_str p (prefixes (ap_key s))).
Proof.
  intros Hin W E (Hp & Hk & Hkind & Hpres & Hc). simpl.
  unfold eff, fires. simpl. rewrite Hp, Hk.
  destruct (assoc (r_name (snd kf)) kw) as [v|] eqn:Ea; [|split; reflexivity].
  destruct (W kf v Hin Ea) as [Wk Wd]. specialize (E kf v Hin Ea).
  unfold combo_ok in Hc. destruct (ap_act a) eqn:Act.
  - rewrite Hc. simpl. rewrite Hpres. split; reflexivity.
  - rewrite Hkind in Hc. rewrite Hc in Wk. destruct (kind_ok_list v Wk) as [l ->].
    destruct (ap_guard a); simpl.
    + split; reflexivity.
    + destruct l as [|x l]; simpl.
      * split; [reflexivity|]. intro p.
        destruct (dotted (fst kf)) eqn:D.
        -- specialize (E eq_refl (or_introl Hc)). discriminate.
        -- now rewrite (not_dotted_prefixes _ D).
      * split; reflexivity.
  - rewrite Hkind in Hc. rewrite Hc in Wk. destruct (kind_ok_map v Wk) as [d ->].
    pose proof (map_merge_nil d (Wd d eq_refl)) as MM.
    assert (X : forall p, d = [] -> mem_str p (prefixes (fst kf)) = false).
    { intros p ->. destruct (dotted (fst kf)) eqn:D.
      - specialize (E eq_refl (or_intror Hc)). discriminate.
      - now rewrite (not_dotted_prefixes _ D). }
    destruct d as [|x d].
    + destruct (ap_guard a); simpl; (split; [reflexivity|]); intro p; rewrite (X p eq_refl); now rewrite ?andb_false_r.
    + destruct (ap_guard a); cbn [guard_ok truthy is_nil negb]; rewrite MM; split; reflexivity.
Qed.

(* an application list that covers the mapping: distinct keys, one application per field *)
Definition covers (m : fm) (l : list app) : Prop :=
  NoDup (map ap_key l) /\
  (forall a, In a l -> exists kf, In kf m /\ app_for kf a) /\
  (forall kf, In kf m -> exists a, In a l /\ ap_key a = fst kf).

Lemma covers_for m l kf a :
  NoDup (map fst m) -> covers m l -> In kf m -> In a l -> ap_key a = fst kf -> app_for kf a.
Proof.
  intros ND (_ & C & _) Hkf Ha E. destruct (C a Ha) as [kf' [Hkf' F]].
  assert (kf' = kf). { apply (nodup_fst_inj m); try assumption. destruct F as (_ & K & _). congruence. }
  now subst.
Qed.

Lemma covers_same_effects m kw l1 l2 :
  NoDup (map fst m) -> kw_wf m kw -> no_empty_dotted m kw -> covers m l1 -> covers m l2 -> same_effects kw l1 l2.
Proof.
  intros ND W E C1 C2 a1 Ha1.
  destruct C1 as (N1 & F1 & G1). destruct (F1 a1 Ha1) as [kf [Hkf A1]].
  destruct C2 as (N2 & F2 & G2). destruct (G2 kf Hkf) as [a2 [Ha2 K2]].
  assert (A2 : app_for kf a2) by (apply (covers_for m l2); try assumption; repeat split; assumption).
  exists a2. split; [assumption|].
  destruct (eff_same m kw kf a1 Hkf W E A1) as [S1 T1].
  destruct (eff_same m kw kf a2 Hkf W E A2) as [S2 T2].
  destruct A1 as (_ & K1 & _). split; [congruence|]. split; [congruence|].
  intro p. rewrite T1, T2. reflexivity.
Qed.

Lemma covers_equiv m kw l1 l2 :
  NoDup (map fst m) -> kw_wf m kw -> no_empty_dotted m kw -> covers m l1 -> covers m l2 ->
  req_equiv (run_apps l1 kw empty_req) (run_apps l2 kw empty_req).
Proof.
  intros ND W E C1 C2. apply run_apps_equiv.
  - apply C1. - apply C2.
  - now apply (covers_same_effects m). - now apply (covers_same_effects m).
Qed.

Lemma covers_typed m kw l : kw_wf m kw -> covers m l -> apps_typed l kw = true.
Proof.
  intros W (_ & F & _). unfold apps_typed. apply forallb_forall. intros a Ha.
  destruct (F a Ha) as [kf [Hkf (Hp & _ & Hkind & _)]].
  unfold fires. rewrite Hp. destruct (assoc (r_name (snd kf)) kw) as [v|] eqn:Ea; [|reflexivity].
  destruct (guard_ok (ap_guard a) v); [|reflexivity]. rewrite Hkind. now apply (W kf v Hkf Ea).
Qed.

(* --- the three emitted lists and the specification list cover the mapping --- *)
Lemma covers_spec m : NoDup (map fst m) -> covers m (spec_apps m).
Proof.
  intro ND. unfold spec_apps. split; [|split].
  - rewrite map_map. simpl. exact ND.
  - intros a Ha. apply in_map_iff in Ha as [kf [<- Hkf]]. exists kf. split; [assumption|]. now apply mk_app_for.
  - intros kf Hkf. exists (mk_app GNotNone Assign kf). split; [now apply in_map|reflexivity].
Qed.

Lemma covers_sync m cross pp :
  NoDup (map fst m) -> fm_wf m -> covers m (b_apps (emit_sync m cross pp)).
Proof.
  intros ND WF. unfold emit_sync. simpl.
  set (p := fun kf : string * rfield => negb (r_repeated (snd kf)) || negb cross).
  set (q := fun kf : string * rfield => r_repeated (snd kf) && cross).
  set (f1 := fun kf : string * rfield => mk_app GNotNone (if r_struct_value (snd kf) && r_repeated (snd kf) then Extend else Assign) kf).
  set (f2 := fun kf : string * rfield => mk_app GTruthy (if r_map (snd kf) then Update else Extend) kf).
  assert (K1 : map ap_key (map f1 (filter p m)) = map fst (filter p m)) by (rewrite map_map; reflexivity).
  assert (K2 : map ap_key (map f2 (filter q m)) = map fst (filter q m)) by (rewrite map_map; reflexivity).
  split; [|split].
  - rewrite map_app, K1, K2. apply nodup_app_filters; [|assumption].
    intros x _. unfold p, q. destruct (r_repeated (snd x)), cross; reflexivity.
  - intros a Ha. apply in_app_or in Ha as [Ha|Ha].
    + apply in_map_iff in Ha as [kf [<- Hkf]]. apply filter_In in Hkf as [Hkf _]. exists kf. split; [assumption|].
      unfold f1. apply mk_app_for.
      destruct (r_struct_value (snd kf) && r_repeated (snd kf)) eqn:E; [|reflexivity].
      apply andb_true_iff in E as [E1 E2]. apply kind_list; auto. apply wf_struct; auto.
    + apply in_map_iff in Ha as [kf [<- Hkf]]. apply filter_In in Hkf as [Hkf Q]. exists kf. split; [assumption|].
      unfold q in Q. apply andb_true_iff in Q as [R _]. unfold f2. apply mk_app_for.
      destruct (r_map (snd kf)) eqn:M; [now apply kind_map | apply kind_list; auto].
  - intros kf Hkf. destruct (p kf) eqn:P.
    + exists (f1 kf). split; [|reflexivity]. apply in_or_app. left. apply in_map. apply filter_In. now split.
    + assert (Q : q kf = true). { unfold p, q in *. destruct (r_repeated (snd kf)), cross; simpl in *; congruence. }
      exists (f2 kf). split; [|reflexivity]. apply in_or_app. right. apply in_map. apply filter_In. now split.
Qed.

Lemma keys_mk_app g a (l : fm) : map ap_key (map (mk_app g a) l) = map fst l.
Proof. rewrite map_map. apply map_ext. reflexivity. Qed.

Lemma wf_map_repeated m : fm_wf m -> forall kf, In kf m -> r_map (snd kf) = true -> r_repeated (snd kf) = true.
Proof.
  intros WF kf Hkf M. specialize (WF kf Hkf). unfold rfield_wf in WF. rewrite M in WF. simpl in WF.
  destruct (r_repeated (snd kf)); [reflexivity|discriminate].
Qed.

Lemma covers_async m cross pp :
  NoDup (map fst m) -> fm_wf m -> (cross = true -> no_maps m) -> covers m (b_apps (emit_async m cross pp)).
Proof.
  intros ND WF NM. unfold emit_async. simpl.
  set (p1 := fun kf : string * rfield => negb (r_repeated (snd kf))).
  set (p2 := fun kf : string * rfield => r_map (snd kf)).
  set (p3 := fun kf : string * rfield => r_repeated (snd kf) && negb (r_map (snd kf))).
  set (c2 := fun kf : string * rfield => r_repeated (snd kf)).
  pose proof (wf_map_repeated m WF) as MR.
  destruct cross.
  - (* cross-package: assigned, then extended *)
    specialize (NM eq_refl). split; [|split].
    + rewrite !map_app, !keys_mk_app. apply nodup_app_filters; [|assumption].
      intros x _. unfold p1, c2. destruct (r_repeated (snd x)); reflexivity.
    + intros a Ha. apply in_app_or in Ha as [Ha|Ha];
        apply in_map_iff in Ha as [kf [<- Hkf]]; apply filter_In in Hkf as [Hkf P]; exists kf; (split; [assumption|]); apply mk_app_for.
      * reflexivity.
      * unfold c2 in P. apply kind_list; auto.
    + intros kf Hkf. destruct (r_repeated (snd kf)) eqn:R.
      * exists (mk_app GTruthy Extend kf). split; [|reflexivity]. apply in_or_app. right.
        apply in_map. apply filter_In. split; [assumption|exact R].
      * exists (mk_app GNotNone Assign kf). split; [|reflexivity]. apply in_or_app. left.
        apply in_map. apply filter_In. split; [assumption|]. unfold p1. now rewrite R.
  - split; [|split].
    + rewrite !map_app, !keys_mk_app.
      apply NoDup_app_intro.
      * now apply nodup_filter.
      * apply nodup_app_filters; [|assumption]. intros x _. unfold p2, p3. destruct (r_map (snd x)), (r_repeated (snd x)); reflexivity.
      * intros k H1 H2. apply in_app_or in H2 as [H2|H2].
        -- revert H2. apply (disjoint_filters p1 p2 m); try assumption.
           intros x Hx. unfold p1, p2. destruct (r_map (snd x)) eqn:M; [|now rewrite andb_false_r].
           rewrite (MR x Hx M). reflexivity.
        -- revert H2. apply (disjoint_filters p1 p3 m); try assumption.
           intros x _. unfold p1, p3. destruct (r_repeated (snd x)); reflexivity.
    + intros a Ha. apply in_app_or in Ha as [Ha|Ha]; [|apply in_app_or in Ha as [Ha|Ha]];
        apply in_map_iff in Ha as [kf [<- Hkf]]; apply filter_In in Hkf as [Hkf P]; exists kf; (split; [assumption|]); apply mk_app_for.
      * reflexivity.
      * now apply kind_map.
      * unfold p3 in P. apply andb_true_iff in P as [R M]. apply negb_true_iff in M. apply kind_list; auto.
    + intros kf Hkf. destruct (r_repeated (snd kf)) eqn:R; [destruct (r_map (snd kf)) eqn:M|].
      * exists (mk_app GTruthy Update kf). split; [|reflexivity]. apply in_or_app. right. apply in_or_app. left.
        apply in_map. apply filter_In. split; [assumption|exact M].
      * exists (mk_app GTruthy Extend kf). split; [|reflexivity]. apply in_or_app. right. apply in_or_app. right.
        apply in_map. apply filter_In. split; [assumption|]. unfold p3. now rewrite R, M.
      * exists (mk_app GNotNone Assign kf). split; [|reflexivity]. apply in_or_app. left.
        apply in_map. apply filter_In. split; [assumption|]. unfold p1. now rewrite R.
Qed.

(* every mapping computed for a cross-package request has primitive fields only, hence no maps *)
Lemma fields_mapping_cross_no_maps sch input sigs m :
  fields_mapping sch input true sigs = Some m -> no_maps m /\ (forall kf, In kf m -> r_primitive (snd kf) = true).
Proof.
  intro H. pose proof (fields_mapping_wf _ _ _ _ _ H) as WF.
  assert (P : forall kf, In kf m -> r_primitive (snd kf) = true).
  { unfold fields_mapping in H.
    destruct (seq_items sch input true (all_pieces sigs)) as [l|] eqn:E; [|discriminate].
    inversion H; subst m. apply seq_items_spec in E as [E _]. intros kf Hin. apply odict_In in Hin.
    rewrite E in Hin. apply in_flat_map in Hin as [p [_ Hp]].
    unfold item_list in Hp. destruct (sig_item sch input true p) as [[kv|]|] eqn:Es; try contradiction.
    destruct Hp as [->|[]]. unfold sig_item in Es.
    destruct (get_field sch input (segments (pystrip p))) as [rf|]; [|discriminate].
    destruct (attr_path sch input (segments (pystrip p))) as [ks|]; [|discriminate].
    simpl in Es. destruct (r_primitive rf) eqn:Pr; simpl in Es; [|discriminate]. inversion Es. simpl. exact Pr. }
  split; [|exact P]. intros kf Hkf. specialize (WF kf Hkf). specialize (P kf Hkf).
  unfold rfield_wf in WF. rewrite P in WF. destruct (r_map (snd kf)); [|reflexivity].
  destruct (r_message (snd kf)); simpl in WF; [rewrite !andb_false_r in WF|rewrite andb_false_r in WF]; discriminate.
Qed.

(* ================================================================================================ *)
(* E. the theorems                                                                                  *)
(* ================================================================================================ *)

Definition apply_apps (l : list app) (kw : kwargs) (r : req) : outcome :=
  if apps_typed l kw then OSend (run_apps l kw r) else ORaiseType.
Definition finish_ (b : block) (kw : kwargs) (fresh : bool) (r : req) : outcome :=
  match b_place b with
  | PInFresh => if fresh then apply_apps (b_apps b) kw r else OSend r
  | PTop => apply_apps (b_apps b) kw r
  end.
Definition given (ra : rarg) : bool := match ra with RNone => false | _ => true end.
Definition has_flat (b : block) (kw : kwargs) : bool :=
  match b_guard b with Some ps => existsb (passed kw) ps | None => false end.

Lemma exec_eq b ra kw :
  exec b ra kw =
  if given ra && has_flat b kw then ORaiseValue else
  match b_coerce b, ra with
  | CSame, RMsg m => finish_ b kw false m
  | CSame, RNone => finish_ b kw true empty_req
  | CSame, RDict d => finish_ b kw true d
  | CCross, RDict d => finish_ b kw false d
  | CCross, RNone => finish_ b kw true empty_req
  | CCross, RMsg m => if msg_falsy (b_proto_plus b) m then finish_ b kw true empty_req else finish_ b kw false m
  end.
Proof. reflexivity. Qed.

Lemma guard_has v m cross pp kw : has_flat (emit v m cross pp) kw = existsb (passed kw) (names m).
Proof. destruct v; unfold has_flat; simpl; destruct m; reflexivity. Qed.

Lemma emit_params v m cross pp : b_params (emit v m cross pp) = names m.
Proof. destruct v; reflexivity. Qed.
Lemma emit_coerce v m cross pp : b_coerce (emit v m cross pp) = if cross then CCross else CSame.
Proof. destruct v; reflexivity. Qed.
Lemma sync_place m cross pp : b_place (emit_sync m cross pp) = PInFresh.
Proof. reflexivity. Qed.
Lemma async_place m cross pp : b_place (emit_async m cross pp) = if cross then PInFresh else PTop.
Proof. reflexivity. Qed.
Lemma emit_pp v m cross pp : b_proto_plus (emit v m cross pp) = pp.
Proof. destruct v; reflexivity. Qed.

(* 1. both templates offer the flattened fields, and nothing else, in the order of the mapping *)
Lemma params_in_declared_order sch input cross sigs m :
  fields_mapping sch input cross sigs = Some m ->
  (forall v pp, b_params (emit v m cross pp) = map (fun kf => r_name (snd kf)) m) /\
  (exists items,
     items = flat_map (item_list sch input cross) (filter (fun p => negb (is_empty p)) (all_pieces sigs)) /\
     map fst m = dedup_first [] (map fst items) /\
     (forall k, assoc k m = assoc k (rev items))) /\
  NoDup (map fst m).
Proof.
  intro H. split; [intros; apply emit_params|].
  destruct (fields_mapping_spec _ _ _ _ _ H) as [items (E & K & ND & V)].
  split; [exists items; auto | assumption].
Qed.

(* 2. a request together with any flattened argument, whatever its value: ValueError, and nothing is sent *)
Lemma mixed_raises_before_send v m cross pp ra kw :
  ra <> RNone -> (exists p, In p (names m) /\ passed kw p = true) ->
  exec (emit v m cross pp) ra kw = ORaiseValue.
Proof.
  intros Hra [p [Hp Pp]]. rewrite exec_eq, guard_has.
  assert (H : existsb (passed kw) (names m) = true) by (apply existsb_exists; eauto).
  rewrite H. destruct ra; [contradiction| |]; reflexivity.
Qed.

(* without flattened fields there is no check and nothing to mix *)
Lemma no_fields_no_guard v cross pp : b_guard (emit v [] cross pp) = None /\ b_params (emit v [] cross pp) = [].
Proof. destruct v; split; reflexivity. Qed.

Lemma names_in m a : (exists kf, In kf m /\ ap_param a = r_name (snd kf)) -> In (ap_param a) (names m).
Proof. intros [kf [H E]]. rewrite E. unfold names. apply in_map_iff. eauto. Qed.

Lemma covers_idle m l kw :
  covers m l -> existsb (passed kw) (names m) = false -> forall a, In a l -> fires a kw = None.
Proof.
  intros (_ & F & _) H a Ha. destruct (F a Ha) as [kf [Hkf (Hp & _)]].
  unfold fires. destruct (assoc (ap_param a) kw) eqn:E; [|reflexivity].
  exfalso. assert (X : existsb (passed kw) (names m) = true); [|congruence].
  apply existsb_exists. exists (ap_param a). split.
  - apply names_in. eauto.
  - unfold passed. now rewrite E.
Qed.

Lemma emit_covers v m cross pp :
  NoDup (map fst m) -> fm_wf m -> (v = Async -> cross = true -> no_maps m) -> covers m (b_apps (emit v m cross pp)).
Proof.
  intros ND WF C. destruct v; cbn [emit].
  - now apply (covers_sync m cross pp).
  - apply (covers_async m cross pp); auto.
Qed.

Local Opaque emit_sync emit_async.

(* the kwargs call: the request is built from the empty message by the emitted applications *)
Lemma exec_kwargs v m cross pp kw :
  exec (emit v m cross pp) RNone kw = apply_apps (b_apps (emit v m cross pp)) kw empty_req.
Proof.
  rewrite exec_eq, emit_coerce. simpl. unfold finish_.
  destruct v; simpl; [rewrite sync_place|rewrite async_place]; destruct cross; reflexivity.
Qed.

Lemma apply_idle m l kw r :
  covers m l -> existsb (passed kw) (names m) = false -> apply_apps l kw r = OSend r.
Proof.
  intros CL H. unfold apply_apps.
  destruct (run_apps_idle l kw r (covers_idle m l kw CL H)) as [E1 E2]. now rewrite E2, E1.
Qed.

(* a request (message or dict) and no flattened argument: the message is sent as it is, except that a
   cross-package proto-plus request whose set fields all hold false values is replaced by a new empty message *)
Lemma exec_given v m cross pp ra kw :
  NoDup (map fst m) -> fm_wf m -> (v = Async -> cross = true -> no_maps m) ->
  existsb (passed kw) (names m) = false ->
  match ra with
  | RNone => True
  | RDict d => exec (emit v m cross pp) ra kw = OSend d
  | RMsg r => exec (emit v m cross pp) ra kw = OSend (if cross && msg_falsy pp r then empty_req else r)
  end.
Proof.
  intros ND WF C H. pose proof (emit_covers v m cross pp ND WF C) as CV.
  destruct ra as [|d|r]; [exact I| |]; rewrite exec_eq, guard_has, H, andb_false_r, emit_coerce; unfold finish_.
  - destruct v; simpl in *; [rewrite sync_place|rewrite async_place]; destruct cross; try reflexivity;
      apply (apply_idle m); auto.
  - rewrite emit_pp. destruct v; simpl in *; [rewrite sync_place|rewrite async_place]; destruct cross; simpl;
      try reflexivity; try (apply (apply_idle m); auto);
      (destruct (msg_falsy pp r); [apply (apply_idle m); auto|reflexivity]).
Qed.

Lemma passed_nil l : existsb (passed []) l = false.
Proof. induction l; [reflexivity|assumption]. Qed.

(* 3. flattened_equiv *)
Lemma flattened_equiv v m cross pp kw :
  NoDup (map fst m) -> fm_wf m -> kw_wf m kw -> no_empty_dotted m kw ->
  (v = Async -> cross = true -> no_maps m) ->
  exists r1 r2,
    exec (emit v m cross pp) RNone kw = OSend r1 /\
    exec (emit v m cross pp) (RMsg (request_of m kw)) [] = OSend r2 /\
    req_equiv r1 (request_of m kw) /\
    (r2 = request_of m kw \/
     (cross = true /\ msg_falsy pp (request_of m kw) = true /\ r2 = empty_req)).
Proof.
  intros ND WF W E C.
  pose proof (covers_spec m ND) as CS.
  pose proof (emit_covers v m cross pp ND WF C) as CB.
  exists (run_apps (b_apps (emit v m cross pp)) kw empty_req).
  exists (if cross && msg_falsy pp (request_of m kw) then empty_req else request_of m kw).
  split; [|split; [|split]].
  - rewrite (exec_kwargs v m cross pp kw). unfold apply_apps. now rewrite (covers_typed m kw _ W CB).
  - apply (exec_given v m cross pp (RMsg (request_of m kw)) [] ND WF C (passed_nil _)).
  - apply (covers_equiv m kw _ (spec_apps m)); assumption.
  - destruct (cross && msg_falsy pp (request_of m kw)) eqn:F; [|now left]. right.
    apply andb_true_iff in F as [-> F]. auto.
Qed.

(* 4. sync and asyncio clients agree *)
Definition outcome_equiv (a b : outcome) : Prop :=
  match a, b with
  | OSend x, OSend y => req_equiv x y
  | ORaiseValue, ORaiseValue => True
  | ORaiseType, ORaiseType => True
  | _, _ => False
  end.

Lemma sync_async_agree m cross pp ra kw :
  NoDup (map fst m) -> fm_wf m -> kw_wf m kw -> no_empty_dotted m kw ->
  (cross = true -> no_maps m) ->
  outcome_equiv (exec (emit Sync m cross pp) ra kw) (exec (emit Async m cross pp) ra kw).
Proof.
  intros ND WF W E C.
  assert (CS : Sync = Async -> cross = true -> no_maps m) by discriminate.
  assert (CA : Async = Async -> cross = true -> no_maps m) by (intros _; exact C).
  destruct ra as [|d|r].
  - rewrite !exec_kwargs.
    pose proof (emit_covers Sync m cross pp ND WF CS) as B1.
    pose proof (emit_covers Async m cross pp ND WF CA) as B2.
    unfold apply_apps. rewrite (covers_typed m kw _ W B1), (covers_typed m kw _ W B2). simpl.
    apply (covers_equiv m kw); assumption.
  - destruct (existsb (passed kw) (names m)) eqn:H.
    + assert (X : exists p, In p (names m) /\ passed kw p = true) by (apply existsb_exists in H; exact H).
      rewrite (mixed_raises_before_send Sync m cross pp (RDict d) kw); [|discriminate|assumption].
      rewrite (mixed_raises_before_send Async m cross pp (RDict d) kw); [|discriminate|assumption]. exact I.
    + rewrite (exec_given Sync m cross pp (RDict d) kw ND WF CS H).
      rewrite (exec_given Async m cross pp (RDict d) kw ND WF CA H). simpl. apply req_equiv_refl.
  - destruct (existsb (passed kw) (names m)) eqn:H.
    + assert (X : exists p, In p (names m) /\ passed kw p = true) by (apply existsb_exists in H; exact H).
      rewrite (mixed_raises_before_send Sync m cross pp (RMsg r) kw); [|discriminate|assumption].
      rewrite (mixed_raises_before_send Async m cross pp (RMsg r) kw); [|discriminate|assumption]. exact I.
    + rewrite (exec_given Sync m cross pp (RMsg r) kw ND WF CS H).
      rewrite (exec_given Async m cross pp (RMsg r) kw ND WF CA H). simpl. apply req_equiv_refl.
Qed.

Local Transparent emit_sync emit_async.

(* ================================================================================================ *)
(* E2. every segment of a key is the attribute name of its own field (repaired in /repo by 318bb4b) *)
(* ================================================================================================ *)
Local Open Scope string_scope.

Lemma srev_acc_twice s : forall a b, srev_acc (srev_acc s a) b = srev_acc a (s ++ b).
Proof.
  induction s as [|c s IH]; intros a b; simpl; [reflexivity|]. rewrite IH. reflexivity.
Qed.

Lemma srev_involutive s : srev (srev s) = s.
Proof. unfold srev. rewrite srev_acc_twice. simpl. apply sapp_nil_r. Qed.

(* splitting text that has no separator before its first separator *)
Lemma split_on_acc_prefix c a : forall acc rest,
  contains c a = false ->
  split_on_acc c (a ++ String c rest) acc = srev (srev_acc a acc) :: split_on_acc c rest "".
Proof.
  induction a as [|x a IH]; intros acc rest H; simpl in *.
  - rewrite Ascii.eqb_refl. reflexivity.
  - apply orb_false_iff in H as [H1 H2]. rewrite H1. rewrite IH; [reflexivity|assumption].
Qed.

Lemma split_on_acc_last c a : forall acc,
  contains c a = false -> split_on_acc c a acc = [srev (srev_acc a acc)].
Proof.
  induction a as [|x a IH]; intros acc H; simpl in *; [reflexivity|].
  apply orb_false_iff in H as [H1 H2]. rewrite H1. now apply IH.
Qed.

Lemma split_prefix c a rest : contains c a = false -> split_on c (a ++ String c rest) = a :: split_on c rest.
Proof.
  intro H. unfold split_on. rewrite split_on_acc_prefix; [|assumption]. f_equal. fold (srev a). apply srev_involutive.
Qed.
Lemma split_last c a : contains c a = false -> split_on c a = [a].
Proof. intro H. unfold split_on. rewrite split_on_acc_last; [|assumption]. f_equal. apply srev_involutive. Qed.


Fixpoint ends_us (s : string) : bool :=
  match s with
  | EmptyString => false
  | String c EmptyString => Ascii.eqb c "_"%char
  | String _ s' => ends_us s'
  end.
Lemma ends_us_app s : ends_us (s ++ "_") = true.
Proof. induction s as [|c s IH]; [reflexivity|]. simpl. destruct (s ++ "_") eqn:E; [destruct s; discriminate|exact IH]. Qed.

(* two facts about the regenerated lists (re-checked on every build): every Python keyword is a reserved name,
   and no keyword ends with an underscore *)
Lemma kw_reserved : forallb (fun k => mem_str k RESERVED_NAMES) KWLIST = true.
Proof. vm_compute. reflexivity. Qed.
Lemma kw_no_us : forallb (fun k => negb (ends_us k)) KWLIST = true.
Proof. vm_compute. reflexivity. Qed.

Lemma wrapper_not_kw f : is_kw (wrapper_name true f) = false.
Proof.
  unfold wrapper_name, is_kw. rewrite andb_true_r. destruct (reserved (f_pb f)) eqn:R.
  - destruct (mem_str (f_pb f ++ "_") KWLIST) eqn:M; [|reflexivity].
    apply mem_str_In in M. pose proof kw_no_us as H. rewrite forallb_forall in H. specialize (H _ M).
    rewrite ends_us_app in H. discriminate.
  - destruct (mem_str (f_pb f) KWLIST) eqn:M; [|reflexivity].
    apply mem_str_In in M. pose proof kw_reserved as H. rewrite forallb_forall in H. specialize (H _ M).
    unfold reserved in R. congruence.
Qed.

Definition nodot (s : string) : bool := negb (contains "."%char s).
Definition msg_plain (m : message) : bool := forallb (fun f => nodot (f_pb f)) (m_fields m).
(* the messages a path may walk through: proto-plus types whose field names are plain identifiers *)
Definition all_proto_plus (sch : schema) : Prop :=
  forall fqn m, assoc fqn sch = Some m -> m_proto_plus m = true /\ msg_plain m = true.

Lemma dict_get_In m fs key : forall found f,
  dict_get m fs key found = Some f -> In f fs \/ found = Some f.
Proof.
  induction fs as [|x fs IH]; intros found f H; simpl in H; [now right|].
  apply IH in H as [H|H]; [left; now right|].
  destruct (String.eqb (wrapper_name (m_proto_plus m) x) key); [inversion H; left; now left|now right].
Qed.
Lemma msg_field_In m key f : msg_field m key = Some f -> In f (m_fields m).
Proof. intro H. apply dict_get_In in H as [H|H]; [assumption|discriminate]. Qed.

Lemma contains_app_us c s : contains c (s ++ "_") = contains c s || Ascii.eqb "_"%char c.
Proof. rewrite contains_app. simpl. now rewrite orb_false_r. Qed.

Lemma wrapper_nodot pp f : nodot (f_pb f) = true -> nodot (wrapper_name pp f) = true.
Proof.
  unfold wrapper_name, nodot. intro H. destruct (reserved (f_pb f) && pp); [|assumption].
  rewrite contains_app_us. apply negb_true_iff in H. rewrite H. reflexivity.
Qed.

Definition seg_ok (s : string) : Prop := is_kw s = false /\ nodot s = true.

Lemma attr_path_spec sch : all_proto_plus sch -> forall path m ks,
  m_proto_plus m = true -> msg_plain m = true -> attr_path sch m path = Some ks ->
  Forall seg_ok ks /\ ks <> [] /\
  (forall rf, get_field sch m path = Some rf -> exists pre, ks = (pre ++ [r_name rf])%list).
Proof.
  intro AP. induction path as [|first rest IH]; intros m ks PP PL H; simpl in H; [discriminate|].
  simpl. destruct (msg_field m (if reserved first && m_proto_plus m then first ++ "_" else first)) as [cursor|] eqn:Em; [|discriminate].
  assert (OK : seg_ok (wrapper_name (m_proto_plus m) cursor)).
  { split; [rewrite PP; apply wrapper_not_kw|]. apply wrapper_nodot.
    unfold msg_plain in PL. rewrite forallb_forall in PL. apply PL. eapply msg_field_In; eauto. }
  destruct rest as [|r rest'].
  - inversion H; subst ks. split; [repeat constructor; apply OK|]. split; [discriminate|].
    intros rf Hrf. inversion Hrf. exists []%list. reflexivity.
  - destruct (f_repeated cursor); [discriminate|].
    destruct (f_type cursor) as [| |fqn]; try discriminate.
    destruct (assoc fqn sch) as [m'|] eqn:Ea; [|discriminate].
    destruct (attr_path sch m' (r :: rest')) as [ks'|] eqn:Ep; [|discriminate].
    inversion H; subst ks. destruct (AP fqn m' Ea) as [PP' PL'].
    destruct (IH m' ks' PP' PL' Ep) as (F & NE & L).
    split; [constructor; [apply OK|exact F]|]. split; [discriminate|].
    intros rf Hrf. destruct (L rf Hrf) as [pre ->]. exists (wrapper_name (m_proto_plus m) cursor :: pre)%list. reflexivity.
Qed.

Lemma segments_sjoin ks : ks <> [] -> Forall (fun s => nodot s = true) ks -> segments (sjoin "." ks) = ks.
Proof.
  unfold segments. induction ks as [|a ks IH]; intros NE F; [contradiction|].
  inversion F as [|x xs Ha Hks]; subst.
  unfold nodot in Ha. apply negb_true_iff in Ha.
  destruct ks as [|b ks'].
  - simpl. now apply split_last.
  - change (sjoin "." (a :: b :: ks')) with (a ++ String "."%char (sjoin "." (b :: ks'))).
    rewrite split_prefix; [|assumption]. f_equal. apply IH; [discriminate|assumption].
Qed.

(* the positive statement that replaces C05_reserved_segment_refuted *)
Lemma reserved_segments_ok sch input cross sigs m :
  all_proto_plus sch -> m_proto_plus input = true -> msg_plain input = true ->
  fields_mapping sch input cross sigs = Some m ->
  (forall kf, In kf m -> exists ks pre,
      fst kf = sjoin "." ks /\ segments (fst kf) = ks /\ Forall (fun s => is_kw s = false) ks /\
      ks = (pre ++ [r_name (snd kf)])%list) /\
  (forall v pp, keys_ok (emit v m cross pp) = true).
Proof.
  intros AP PP PL H.
  assert (K : forall kf, In kf m -> exists ks pre,
      fst kf = sjoin "." ks /\ segments (fst kf) = ks /\ Forall (fun s => is_kw s = false) ks /\
      ks = (pre ++ [r_name (snd kf)])%list).
  { pose proof H as H0. unfold fields_mapping in H0.
    destruct (seq_items sch input cross (all_pieces sigs)) as [l|] eqn:E; [|discriminate].
    inversion H0; subst m. apply seq_items_spec in E as [E _]. intros kf Hin. apply odict_In in Hin.
    rewrite E in Hin. apply in_flat_map in Hin as [p [_ Hp]].
    unfold item_list in Hp. destruct (sig_item sch input cross p) as [[kv|]|] eqn:Es; try contradiction.
    destruct Hp as [->|[]]. unfold sig_item in Es.
    destruct (get_field sch input (segments (pystrip p))) as [rf|] eqn:Eg; [|discriminate].
    destruct (attr_path sch input (segments (pystrip p))) as [ks|] eqn:Ea; [|discriminate].
    destruct (cross && negb (r_primitive rf)); [discriminate|]. inversion Es; subst kf. simpl.
    destruct (attr_path_spec sch AP _ input ks PP PL Ea) as (F & NE & L).
    destruct (L rf Eg) as [pre Hpre]. exists ks, pre. split; [reflexivity|].
    assert (F1 : Forall (fun s => nodot s = true) ks) by (eapply Forall_impl; [|exact F]; intros a [_ Ha]; exact Ha).
    assert (F2 : Forall (fun s => is_kw s = false) ks) by (eapply Forall_impl; [|exact F]; intros a [Ha _]; exact Ha).
    split; [now apply segments_sjoin|]. split; assumption. }
  split; [exact K|]. intros v pp.
  destruct (fields_mapping_spec _ _ _ _ _ H) as [items (_ & _ & ND & _)].
  pose proof (fields_mapping_wf _ _ _ _ _ H) as WF.
  assert (C : v = Async -> cross = true -> no_maps m).
  { intros _ ->. apply (fields_mapping_cross_no_maps sch input sigs m H). }
  destruct (emit_covers v m cross pp ND WF C) as (_ & F & _).
  unfold keys_ok. apply forallb_forall. intros a Ha. destruct (F a Ha) as [kf [Hkf (_ & Hk & _)]].
  destruct (K kf Hkf) as (ks & pre & _ & Hs & Fk & _). rewrite Hk, Hs.
  apply forallb_forall. intros s0 Hs0. rewrite Forall_forall in Fk. now rewrite (Fk s0 Hs0).
Qed.

Local Open Scope list_scope.

(* ================================================================================================ *)
(* F. witnesses: the hypotheses hold of concrete mappings; the unrestricted statements are refuted  *)
(* ================================================================================================ *)
Local Open Scope string_scope.

Definition scalar (n : string) := mkField n TScalar false false false false.
Definition rscalar (n : string) := mkField n TScalar true false false false.
Definition msgf (n t : string) := mkField n (TMessage t) false false false true.

(* a same-package request with a reserved name, a dotted path, a repeated field, a map and repeated Value *)
Definition ex_inner : message := mkMsg true [scalar "title"; rscalar "tags"; scalar "class"].
Definition ex_req : message :=
  mkMsg true [scalar "name"; scalar "class"; msgf "book" ".p.Inner"; rscalar "names";
              mkField "labels" (TMessage ".p.Req.LabelsEntry") true true false false;
              mkField "values" (TMessage ".google.protobuf.Value") true false true false;
              msgf "other" ".p.Inner"; scalar "retry"].
Definition ex_sch : schema := [(".p.Inner", ex_inner); (".p.Req", ex_req)].
Definition ex_sigs : list string := ["name, class"; " book.title ,names,,"; "labels,values,book.class"; "name"].

Definition ex_m : fm :=
  match fields_mapping ex_sch ex_req false ex_sigs with Some m => m | None => [] end.

Definition nodupb_keys (m : fm) : bool := nodupb (map fst m).
Lemma nodupb_NoDup l : nodupb l = true -> NoDup l.
Proof.
  induction l as [|x l IH]; simpl; intro H; [constructor|].
  apply andb_true_iff in H as [H1 H2]. constructor; [|auto].
  apply negb_true_iff in H1. now apply mem_str_false.
Qed.

Definition ex_kw : kwargs :=
  [("name", LS "sn1"); ("class_", LS ""); ("title", LS "st"); ("names", LL ["=sa"; "=sb"]); ("labels", LD [("=sk", "=sv")]);
   ("values", LL ["mGgF2"])].

Lemma ex_mapping :
  fields_mapping ex_sch ex_req false ex_sigs = Some ex_m /\
  map fst ex_m = ["name"; "class_"; "book.title"; "names"; "labels"; "values"; "book.class_"] /\
  names ex_m = ["name"; "class_"; "title"; "names"; "labels"; "values"; "class_"] /\
  block_ok (emit Sync ex_m false true) = false.
Proof. vm_compute. repeat split. Qed.
(* the last line: book.class and class both want the parameter class_ : the duplicate-parameter defect *)

Definition ex_sigs2 : list string := ["name, class"; " book.title ,names,,"; "labels,values"; "name"].
Definition ex_m2 : fm := match fields_mapping ex_sch ex_req false ex_sigs2 with Some m => m | None => [] end.

Lemma ex_hypotheses :
  fields_mapping ex_sch ex_req false ex_sigs2 = Some ex_m2 /\
  NoDup (map fst ex_m2) /\ fm_wf ex_m2 /\ kw_wf ex_m2 ex_kw /\ no_empty_dotted ex_m2 ex_kw /\
  block_ok (emit Sync ex_m2 false true) = true /\
  block_ok (emit Async ex_m2 false true) = true /\
  (exists r, exec (emit Sync ex_m2 false true) RNone ex_kw = OSend r /\
             lookup "book.title" r = Some (LS "st") /\ lookup "class_" r = None /\ vivified "book" r = true /\
             lookup "values" r = Some (LL ["mGgF2"])) /\
  exec (emit Async ex_m2 false true) (RMsg empty_req) ex_kw = ORaiseValue.
Proof.
  split; [vm_compute; reflexivity|]. split; [apply nodupb_NoDup; vm_compute; reflexivity|].
  split; [apply (fields_mapping_wf ex_sch ex_req false ex_sigs2); vm_compute; reflexivity|].
  split.
  { intros kf v Hin Ha. vm_compute in Hin.
    repeat (destruct Hin as [<-|Hin]; [vm_compute in Ha; inversion Ha; subst; split; [reflexivity|intros d Hd; inversion Hd; subst; repeat constructor; simpl; intuition discriminate]|]).
    contradiction. }
  split.
  { intros kf v Hin Ha D K. vm_compute in Hin.
    repeat (destruct Hin as [<-|Hin]; [vm_compute in Ha; inversion Ha; subst; try reflexivity; vm_compute in D; try discriminate; destruct K as [K|K]; vm_compute in K; discriminate|]).
    contradiction. }
  split; [vm_compute; reflexivity|]. split; [vm_compute; reflexivity|].
  split; [eexists; split; [vm_compute; reflexivity|vm_compute; repeat split]|vm_compute; reflexivity].
Qed.

(* cross-package request (plain protobuf): a reserved (non-keyword) name, two repeated scalars, a dotted scalar, a message.
   This single mapping is the former witness of three defects repaired in /repo (353b7c7, 14fc9e4, d43e852):
   two repeated fields, a dotted path in the asyncio client, a reserved field name of a plain protobuf message. *)
Definition ex_sub : message := mkMsg false [scalar "text"].
Definition ex_common : message :=
  mkMsg false [scalar "name"; rscalar "tags"; rscalar "nums"; msgf "sub" ".c.Sub"; scalar "text"; scalar "type"].
Definition ex_csch : schema := [(".c.Sub", ex_sub); (".c.Common", ex_common)].
Definition ex_csigs : list string := ["name, tags"; "sub.text,nums"; "sub, type"].
Definition cm (sigs : list string) : fm := match fields_mapping ex_csch ex_common true sigs with Some m => m | None => [] end.
Definition ex_ckw : kwargs := [("tags", LL ["=sa"]); ("text", LS "sx"); ("nums", LL []); ("type", LS "")].

Lemma ex_cross_hypotheses :
  let m := cm ex_csigs in
  fields_mapping ex_csch ex_common true ex_csigs = Some m /\
  map fst m = ["name"; "tags"; "sub.text"; "nums"; "type"] /\ names m = ["name"; "tags"; "text"; "nums"; "type"] /\
  NoDup (map fst m) /\ fm_wf m /\ no_maps m /\
  block_ok (emit Sync m true false) = true /\ block_ok (emit Async m true false) = true /\
  exec (emit Sync m true false) RNone ex_ckw = OSend (mkReq [("tags", LL ["=sa"]); ("sub.text", LS "sx")] ["sub"]) /\
  exec (emit Async m true false) RNone ex_ckw = OSend (mkReq [("tags", LL ["=sa"]); ("sub.text", LS "sx")] ["sub"]) /\
  exec (emit Async m true false) RNone [] = OSend empty_req /\
  exec (emit Async m true false) (RDict empty_req) [("text", LS "")] = ORaiseValue.
Proof.
  simpl. split; [vm_compute; reflexivity|]. split; [vm_compute; reflexivity|]. split; [vm_compute; reflexivity|].
  split; [apply nodupb_NoDup; vm_compute; reflexivity|].
  split; [apply (fields_mapping_wf ex_csch ex_common true ex_csigs); vm_compute; reflexivity|].
  split; [apply (fields_mapping_cross_no_maps ex_csch ex_common ex_csigs); vm_compute; reflexivity|].
  repeat split; vm_compute; reflexivity.
Qed.

(* --- statements the faithful model violates: each is replayed on the implementation by the check (corpus/C05) --- *)

(* the former witness of the reserved-intermediate-segment defect (repaired in /repo by 318bb4b): the key takes the
   attribute name of every segment, the parameter is still the leaf *)
Lemma reserved_segment_example :
  let input := mkMsg true [msgf "class" ".p.Inner"; scalar "name"] in
  all_proto_plus ex_sch /\ m_proto_plus input = true /\ msg_plain input = true /\
  exists m, fields_mapping ex_sch input false ["class.title, name"; "class.class"] = Some m /\
            map fst m = ["class_.title"; "name"; "class_.class_"] /\ names m = ["title"; "name"; "class_"] /\
            block_ok (emit Sync m false true) = true /\ block_ok (emit Async m false true) = true /\
            (forall v, exec (emit v m false true) RNone [("title", LS "st")] = OSend (mkReq [("class_.title", LS "st")] ["class_"])).
Proof.
  simpl. split.
  { intros fqn m H. simpl in H.
    destruct (String.eqb fqn ".p.Inner"); [inversion H; split; reflexivity|].
    destruct (String.eqb fqn ".p.Req"); [inversion H; split; reflexivity|discriminate]. }
  split; [reflexivity|]. split; [reflexivity|].
  eexists. split; [vm_compute; reflexivity|]. split; [vm_compute; reflexivity|]. split; [vm_compute; reflexivity|].
  split; [vm_compute; reflexivity|]. split; [vm_compute; reflexivity|]. intros []; vm_compute; reflexivity.
Qed.

(* a flattened field called retry: duplicate argument *)
Lemma control_name_refuted :
  exists m, fields_mapping ex_sch ex_req false ["name,retry"] = Some m /\
            sig_ok (emit Sync m false true) = false /\ sig_ok (emit Async m false true) = false.
Proof. eexists. split; [vm_compute; reflexivity|]. vm_compute. split; reflexivity. Qed.

(* two paths with the same last segment: duplicate argument *)
Lemma duplicate_param_refuted :
  exists m, fields_mapping ex_sch ex_req false ["book.title,other.title"] = Some m /\
            NoDup (map fst m) /\ sig_ok (emit Sync m false true) = false.
Proof. eexists. split; [vm_compute; reflexivity|]. split; [apply nodupb_NoDup; vm_compute; reflexivity|vm_compute; reflexivity]. Qed.

(* a keyword-named field of a plain protobuf request keeps its name (only proto-plus renames): "class: Optional[str] = None" *)
Lemma keyword_param_pb2_refuted :
  let input := mkMsg false [scalar "name"; scalar "class"] in
  exists m, fields_mapping [] input true ["name,class"] = Some m /\ names m = ["name"; "class"] /\
            sig_ok (emit Sync m true false) = false /\ sig_ok (emit Async m true false) = false.
Proof. eexists. split; [vm_compute; reflexivity|]. vm_compute. repeat split. Qed.

(* an empty list for a dotted repeated field: the sync client materialises the parent message, the asyncio client does not *)
Lemma empty_container_dotted_refuted :
  exists m, fields_mapping ex_sch ex_req false ["name,book.tags"] = Some m /\
    let kw := [("tags", LL [])] in
    (exists r1 r2, exec (emit Sync m false true) RNone kw = OSend r1 /\ exec (emit Async m false true) RNone kw = OSend r2 /\
                   vivified "book" r1 = true /\ vivified "book" r2 = false /\ vivified "book" (request_of m kw) = true).
Proof. eexists. split; [vm_compute; reflexivity|]. simpl. eexists. eexists. split; [vm_compute; reflexivity|]. split; [vm_compute; reflexivity|]. vm_compute. repeat split. Qed.

(* a cross-package proto-plus request whose set fields all hold false values is replaced by a new message: a field
   with explicit presence set to its default is lost when the message is passed, kept when it is passed as keyword *)
Lemma falsy_request_refuted :
  let input := mkMsg true [mkField "level" TScalar false false false true] in
  exists m, fields_mapping [] input true ["level"] = Some m /\
    exec (emit Sync m true true) RNone [("level", LS "")] = OSend (mkReq [("level", LS "")] []) /\
    exec (emit Async m true true) RNone [("level", LS "")] = OSend (mkReq [("level", LS "")] []) /\
    request_of m [("level", LS "")] = mkReq [("level", LS "")] [] /\
    exec (emit Sync m true true) (RMsg (mkReq [("level", LS "")] [])) [] = OSend empty_req /\
    exec (emit Async m true true) (RMsg (mkReq [("level", LS "")] [])) [] = OSend empty_req.
Proof. eexists. split; [vm_compute; reflexivity|]. vm_compute. repeat split. Qed.

(* a falsy value is still a value: 0, the empty string, False passed together with a request raise; passed alone, a
   proto3-optional scalar set to its default and an empty sub-message reach the request (presence), in both clients *)
Lemma falsy_values_count :
  let input := mkMsg true [scalar "parent"; mkField "page_size" TScalar false false false true; msgf "filter" ".p.Inner"; scalar "flag"] in
  exists m, fields_mapping ex_sch input false ["parent,page_size,filter,flag"] = Some m /\
    (forall v p, In p ["parent"; "page_size"; "filter"; "flag"] ->
       exec (emit v m false true) (RMsg empty_req) [(p, if String.eqb p "filter" then LM "" else LS "")] = ORaiseValue /\
       exec (emit v m false true) (RDict empty_req) [(p, if String.eqb p "filter" then LM "" else LS "")] = ORaiseValue) /\
    (forall v, exec (emit v m false true) RNone [("page_size", LS ""); ("filter", LM ""); ("parent", LS ""); ("flag", LS "")]
               = OSend (mkReq [("filter", LM ""); ("page_size", LS "")] [])).
Proof.
  eexists. split; [vm_compute; reflexivity|]. split.
  - intros v p H. simpl in H. destruct v; repeat (destruct H as [<-|H]; [vm_compute; split; reflexivity|]); contradiction.
  - intros []; vm_compute; reflexivity.
Qed.
