(* Proofs/Flatten.v — lemmas for C05 (and the coercion lemmas C03 re-uses) *)
From GV Require Import Base.Str Gen.FlattenGen Model.Flatten.
Require Import Lia.
Local Open Scope list_scope.

(* ================================================================================================ *)
(* A. OrderedDict: first occurrence fixes the position, last occurrence the value                   *)
(* ================================================================================================ *)

Fixpoint dedup_first (seen l : list string) : list string :=
  match l with
  | [] => []
  | x :: l' => if mem_str x seen then dedup_first seen l' else x :: dedup_first (x :: seen) l'
  end.

Lemma mem_str_In x l : mem_str x l = true <-> In x l.
Proof.
  unfold mem_str. rewrite existsb_exists. split.
  - intros [y [Hy E]]. apply String.eqb_eq in E. now subst.
  - intro H. exists x. split; [assumption | apply String.eqb_refl].
Qed.

Lemma mem_str_false x l : mem_str x l = false <-> ~ In x l.
Proof.
  rewrite <- mem_str_In. destruct (mem_str x l); split; intro H; try reflexivity; try discriminate.
  - exfalso. now apply H.
Qed.

Lemma mem_str_app x a b : mem_str x (a ++ b) = mem_str x a || mem_str x b.
Proof. unfold mem_str. apply existsb_app. Qed.

Lemma dedup_first_ext s1 s2 l :
  (forall x, mem_str x s1 = mem_str x s2) -> dedup_first s1 l = dedup_first s2 l.
Proof.
  revert s1 s2. induction l as [|y l IH]; intros s1 s2 H; simpl; [reflexivity|].
  rewrite (H y). destruct (mem_str y s2); [now apply IH|].
  f_equal. apply IH. intro x. unfold mem_str in *. simpl. now rewrite H.
Qed.

Lemma od_put_keys {A} k (v : A) d :
  map fst (od_put k v d) = if mem_str k (map fst d) then map fst d else map fst d ++ [k].
Proof.
  induction d as [|[k' v'] d IH]; simpl; [reflexivity|].
  unfold mem_str in *. simpl.
  destruct (String.eqb k k') eqn:E; simpl.
  - apply String.eqb_eq in E. now subst.
  - rewrite IH. destruct (existsb (String.eqb k) (map fst d)); reflexivity.
Qed.

Lemma fold_put_keys {A} (l acc : list (string * A)) :
  map fst (fold_left (fun a kv => od_put (fst kv) (snd kv) a) l acc)
  = map fst acc ++ dedup_first (map fst acc) (map fst l).
Proof.
  revert acc. induction l as [|[k v] l IH]; intro acc; simpl.
  - now rewrite app_nil_r.
  - rewrite IH, od_put_keys.
    destruct (mem_str k (map fst acc)) eqn:E; [reflexivity|].
    rewrite <- app_assoc. simpl. f_equal. f_equal.
    apply dedup_first_ext. intro x. rewrite mem_str_app. unfold mem_str. simpl.
    now rewrite orb_false_r, orb_comm.
Qed.

Lemma odict_keys {A} (l : list (string * A)) : map fst (odict l) = dedup_first [] (map fst l).
Proof. unfold odict. now rewrite fold_put_keys. Qed.

Lemma od_put_in_keys {A} k (v : A) d x :
  In x (map fst (od_put k v d)) -> x = k \/ In x (map fst d).
Proof.
  rewrite od_put_keys. destruct (mem_str k (map fst d)); intro H; [now right|].
  apply in_app_or in H as [H|[H|[]]]; [now right | now left].
Qed.

Lemma od_put_nodup {A} k (v : A) d : NoDup (map fst d) -> NoDup (map fst (od_put k v d)).
Proof.
  intro H. rewrite od_put_keys. destruct (mem_str k (map fst d)) eqn:E; [assumption|].
  apply mem_str_false in E.
  induction (map fst d) as [|y ys IH]; simpl.
  - constructor; [intros []|constructor].
  - inversion H; subst. constructor.
    + intro Hin. apply in_app_or in Hin as [Hin|[Hin|[]]]; [contradiction|]. subst. apply E. now left.
    + apply IH; [assumption|]. intro Hin. apply E. now right.
Qed.

Lemma odict_nodup {A} (l : list (string * A)) : NoDup (map fst (odict l)).
Proof.
  unfold odict. assert (H : NoDup (map fst (@nil (string * A)))) by constructor.
  revert H. generalize (@nil (string * A)). induction l as [|[k v] l IH]; intros acc H; simpl; [assumption|].
  apply IH. now apply od_put_nodup.
Qed.

Lemma assoc_od_put {A} k k' (v : A) d :
  assoc k (od_put k' v d) = if String.eqb k k' then Some v else assoc k d.
Proof.
  induction d as [|[k2 v2] d IH]; simpl.
  - destruct (String.eqb k k'); reflexivity.
  - destruct (String.eqb k' k2) eqn:E2; simpl.
    + apply String.eqb_eq in E2. subst k2. destruct (String.eqb k k'); reflexivity.
    + rewrite IH. destruct (String.eqb k k') eqn:E1; [|reflexivity].
      apply String.eqb_eq in E1. subst k'. now rewrite E2.
Qed.

(* the value under a key is the one of its last occurrence *)
Lemma odict_value {A} (l : list (string * A)) k : assoc k (odict l) = assoc k (rev l).
Proof.
  unfold odict.
  assert (G : forall acc, assoc k (fold_left (fun a kv => od_put (fst kv) (snd kv) a) l acc)
                          = match assoc k (rev l) with Some v => Some v | None => assoc k acc end).
  { induction l as [|[k1 v1] l IH]; intro acc; simpl; [reflexivity|].
    rewrite IH. clear IH.
    assert (E : forall (a b : list (string * A)), assoc k (a ++ b) = match assoc k a with Some v => Some v | None => assoc k b end).
    { induction a as [|[ka va] a IHa]; intro b; simpl; [reflexivity|]. destruct (String.eqb k ka); [reflexivity|apply IHa]. }
    rewrite E. destruct (assoc k (rev l)); [reflexivity|]. simpl. rewrite assoc_od_put.
    destruct (String.eqb k k1); reflexivity. }
  rewrite G. destruct (assoc k (rev l)); reflexivity.
Qed.

(* seq_items is the textual-order traversal: the accepted items of the non-empty pieces, in order *)
Definition item_list (sch : schema) (input : message) (cross : bool) (p : string) : list (string * rfield) :=
  match sig_item sch input cross p with Some (Some kv) => [kv] | _ => [] end.

Lemma seq_items_spec sch input cross pieces items :
  seq_items sch input cross pieces = Some items ->
  items = flat_map (item_list sch input cross) (filter (fun p => negb (is_empty p)) pieces)
  /\ Forall (fun p => is_empty p = true \/ sig_item sch input cross p <> None) pieces.
Proof.
  revert items. induction pieces as [|p ps IH]; intros items H; simpl in *.
  - inversion H. split; [reflexivity|constructor].
  - destruct (is_empty p) eqn:Ep; simpl.
    + apply IH in H as [H1 H2]. split; [assumption|]. constructor; [now left|assumption].
    + unfold item_list at 1. destruct (sig_item sch input cross p) as [o|] eqn:Es; [|discriminate].
      destruct (seq_items sch input cross ps) as [l|] eqn:El; [|discriminate].
      destruct (IH l eq_refl) as [H1 H2]. inversion H; subst items. split.
      * destruct o; simpl; now rewrite <- H1.
      * constructor; [right; congruence|assumption].
Qed.

Lemma seq_items_error sch input cross pieces :
  seq_items sch input cross pieces = None <->
  exists p, In p pieces /\ is_empty p = false /\ sig_item sch input cross p = None.
Proof.
  induction pieces as [|p ps IH]; simpl.
  - split; [discriminate|intros [p [[] _]]].
  - destruct (is_empty p) eqn:Ep.
    + rewrite IH. split; intros [q [Hq H]]; exists q; (split; [|assumption]).
      * now right.
      * destruct Hq as [->|Hq]; [|assumption]. destruct H as [H _]. congruence.
    + destruct (sig_item sch input cross p) as [o|] eqn:Es.
      * destruct (seq_items sch input cross ps) as [l|] eqn:El.
        -- split; [discriminate|]. intros [q [[->|Hq] [H1 H2]]]; [congruence|].
           assert (X : @None (list (string * rfield)) = None) by reflexivity.
           destruct IH as [_ IH]. assert (Some l = None); [|discriminate]. apply IH. eauto.
        -- split; [|reflexivity]. intros _. destruct IH as [IH _]. destruct (IH eq_refl) as [q [Hq H]]. exists q. split; [now right|assumption].
      * split; [|reflexivity]. intros _. exists p. repeat split; auto.
Qed.

Lemma fields_mapping_spec sch input cross sigs m :
  fields_mapping sch input cross sigs = Some m ->
  exists items,
    items = flat_map (item_list sch input cross) (filter (fun p => negb (is_empty p)) (all_pieces sigs)) /\
    map fst m = dedup_first [] (map fst items) /\
    NoDup (map fst m) /\
    (forall k, assoc k m = assoc k (rev items)).
Proof.
  unfold fields_mapping. destruct (seq_items sch input cross (all_pieces sigs)) as [l|] eqn:E; [|discriminate].
  intro H. inversion H; subst m. exists l. apply seq_items_spec in E as [E _].
  split; [assumption|]. split; [apply odict_keys|]. split; [apply odict_nodup|]. apply odict_value.
Qed.

(* every flattened field the mapping returns is well formed (map implies repeated message, ...) *)
Lemma rfield_of_wf m f : rfield_wf (rfield_of m f) = true.
Proof.
  unfold rfield_wf, rfield_of, is_msg. simpl.
  destruct (f_repeated f), (f_type f), (f_map f), (f_struct_value f); reflexivity.
Qed.

Lemma get_field_wf sch : forall path m rf, get_field sch m path = Some rf -> rfield_wf rf = true.
Proof.
  induction path as [|first rest IH]; intros m rf H; simpl in H; [discriminate|].
  destruct (msg_field m (if reserved first then (first ++ "_")%string else first)) as [cursor|]; [|discriminate].
  destruct rest as [|r rest'].
  - inversion H. apply rfield_of_wf.
  - destruct (f_repeated cursor); [discriminate|].
    destruct (f_type cursor) as [| |fqn]; try discriminate.
    destruct (assoc fqn sch) as [m'|]; [|discriminate]. eapply IH; eauto.
Qed.

Definition fm_wf (m : fm) : Prop := forall kf, In kf m -> rfield_wf (snd kf) = true.

Lemma od_put_In {A} k (v : A) d x : In x (od_put k v d) -> x = (k, v) \/ In x d.
Proof.
  induction d as [|[k' v'] d IH]; simpl; intro H.
  - destruct H as [H|[]]; now left.
  - destruct (String.eqb k k').
    + destruct H as [H|H]; [now left | right; now right].
    + destruct H as [H|H]; [right; now left|]. apply IH in H as [H|H]; [now left|right; now right].
Qed.

Lemma odict_In {A} (l : list (string * A)) x : In x (odict l) -> In x l.
Proof.
  unfold odict.
  assert (G : forall acc, In x (fold_left (fun a kv => od_put (fst kv) (snd kv) a) l acc) -> In x l \/ In x acc).
  { induction l as [|[k v] l IH]; intros acc H; simpl in *; [now right|].
    apply IH in H as [H|H]; [left; now right|]. apply od_put_In in H as [H|H]; [left; now left | now right]. }
  intro H. apply G in H as [H|[]]. assumption.
Qed.

Lemma fields_mapping_wf sch input cross sigs m :
  fields_mapping sch input cross sigs = Some m -> fm_wf m.
Proof.
  intro H. unfold fields_mapping in H.
  destruct (seq_items sch input cross (all_pieces sigs)) as [l|] eqn:E; [|discriminate].
  inversion H; subst m. apply seq_items_spec in E as [E _]. intros kf Hin. apply odict_In in Hin.
  rewrite E in Hin. apply in_flat_map in Hin as [p [_ Hp]].
  unfold item_list in Hp. destruct (sig_item sch input cross p) as [[kv|]|] eqn:Es; try contradiction.
  destruct Hp as [->|[]]. unfold sig_item in Es.
  destruct (get_field sch input (segments (pystrip p))) as [rf|] eqn:Eg; [|discriminate].
  destruct (cross && negb (r_primitive rf)); [discriminate|]. inversion Es. simpl. eapply get_field_wf; eauto.
Qed.

(* ================================================================================================ *)
(* B. the valuation contract: lookups after assign / extend / update                                *)
(* ================================================================================================ *)

Lemma assoc_del_same k (l : list (string * leaf)) : assoc k (del k l) = None.
Proof.
  induction l as [|[k' v] l IH]; simpl; [reflexivity|].
  destruct (String.eqb k k') eqn:E; simpl; [assumption|]. now rewrite E.
Qed.

Lemma assoc_del_other k k' (l : list (string * leaf)) : k <> k' -> assoc k (del k' l) = assoc k l.
Proof.
  intro N. induction l as [|[k2 v] l IH]; simpl; [reflexivity|].
  destruct (String.eqb k' k2) eqn:E; simpl.
  - apply String.eqb_eq in E. subst k2. destruct (String.eqb k k') eqn:E2; [apply String.eqb_eq in E2; contradiction|assumption].
  - destruct (String.eqb k k2); [reflexivity|assumption].
Qed.

Lemma lookup_store_same k v r t : lookup k (store k v r t) = v.
Proof.
  unfold lookup, store. simpl. destruct v; simpl; [now rewrite String.eqb_refl | apply assoc_del_same].
Qed.

Lemma lookup_store_other k k' v r t : k <> k' -> lookup k (store k' v r t) = lookup k r.
Proof.
  intro N. unfold lookup, store. simpl. destruct v; simpl.
  - destruct (String.eqb k k') eqn:E; [apply String.eqb_eq in E; contradiction|]. now apply assoc_del_other.
  - now apply assoc_del_other.
Qed.

Lemma viv_store p k v r t :
  vivified p (store k v r t) = vivified p r || (t && mem_str p (prefixes k)).
Proof.
  unfold vivified, store. simpl. destruct t; simpl.
  - rewrite mem_str_app. apply orb_comm.
  - now rewrite orb_false_r.
Qed.

(* what one application stores under its key when the key is still unset, and whether it touches the parents *)
Definition eff (a : app) (kw : kwargs) : option (option leaf * bool) :=
  match fires a kw with
  | None => None
  | Some v =>
      match ap_act a, v with
      | Assign, _ => Some (if vacuous (ap_presence a) v then None else Some v, true)
      | Extend, LL l => Some (if is_nil l then None else Some (LL l), true)
      | Update, LD d => Some (if is_nil (map_merge [] d) then None else Some (LD (map_merge [] d)), negb (is_nil d))
      | _, _ => None
      end
  end.
Definition stored (e : option (option leaf * bool)) : option leaf := match e with Some (s, _) => s | None => None end.
Definition touched (e : option (option leaf * bool)) : bool := match e with Some (_, t) => t | None => false end.

Lemma run_app_other kw r a k : ap_key a <> k -> lookup k (run_app kw r a) = lookup k r.
Proof.
  intro N. unfold run_app. destruct (fires a kw) as [v|]; [|reflexivity].
  destruct (ap_act a); [| destruct v; try reflexivity | destruct v; try reflexivity];
    unfold assign, extend, update; apply lookup_store_other; congruence.
Qed.

Lemma run_app_same kw r a :
  lookup (ap_key a) r = None -> lookup (ap_key a) (run_app kw r a) = stored (eff a kw).
Proof.
  intro H. unfold run_app, eff. destruct (fires a kw) as [v|]; [|assumption].
  destruct (ap_act a).
  - unfold assign. now rewrite lookup_store_same.
  - destruct v; try assumption. unfold extend. rewrite H. simpl. now rewrite lookup_store_same.
  - destruct v; try assumption. unfold update. rewrite H. simpl. now rewrite lookup_store_same.
Qed.

Lemma run_app_viv kw r a p :
  vivified p (run_app kw r a) = vivified p r || (touched (eff a kw) && mem_str p (prefixes (ap_key a))).
Proof.
  unfold run_app, eff. destruct (fires a kw) as [v|]; simpl; [|now rewrite orb_false_r].
  destruct (ap_act a).
  - unfold assign. now rewrite viv_store.
  - destruct v; simpl; try now rewrite orb_false_r. unfold extend. now rewrite viv_store.
  - destruct v; simpl; try now rewrite orb_false_r. unfold update. now rewrite viv_store.
Qed.

Lemma run_apps_notin l kw : forall r k,
  (forall a, In a l -> ap_key a <> k) -> lookup k (run_apps l kw r) = lookup k r.
Proof.
  unfold run_apps. induction l as [|a l IH]; intros r k H; simpl; [reflexivity|].
  rewrite IH; [|intros b Hb; apply H; now right]. apply run_app_other. apply H. now left.
Qed.

Lemma run_apps_in l kw : forall r a,
  NoDup (map ap_key l) -> In a l -> lookup (ap_key a) r = None ->
  lookup (ap_key a) (run_apps l kw r) = stored (eff a kw).
Proof.
  unfold run_apps. induction l as [|b l IH]; intros r a ND Hin Hr; simpl; [contradiction|].
  inversion ND as [|x xs Hnotin ND']; subst.
  destruct Hin as [->|Hin].
  - fold (run_apps l kw (run_app kw r a)). rewrite run_apps_notin.
    + now apply run_app_same.
    + intros c Hc E. apply Hnotin. rewrite <- E. now apply in_map.
  - apply IH; try assumption.
    rewrite run_app_other; [assumption|]. intro E. apply Hnotin. rewrite E. now apply in_map.
Qed.

Lemma run_apps_viv l kw p : forall r,
  vivified p (run_apps l kw r)
  = vivified p r || existsb (fun a => touched (eff a kw) && mem_str p (prefixes (ap_key a))) l.
Proof.
  unfold run_apps. induction l as [|a l IH]; intro r; simpl; [now rewrite orb_false_r|].
  rewrite IH, run_app_viv. now rewrite orb_assoc.
Qed.

Lemma lookup_empty k : lookup k empty_req = None.
Proof. reflexivity. Qed.

(* two lists of applications with distinct keys, the same keys, and the same effect under each key,
   produce the same valuation from the empty request *)
Definition same_effects (kw : kwargs) (l1 l2 : list app) : Prop :=
  forall a1, In a1 l1 -> exists a2, In a2 l2 /\ ap_key a2 = ap_key a1 /\
     stored (eff a2 kw) = stored (eff a1 kw) /\
     (forall p, touched (eff a2 kw) && mem_str p (prefixes (ap_key a2)) = touched (eff a1 kw) && mem_str p (prefixes (ap_key a1))).

Lemma existsb_iff {A} (f g : A -> bool) l1 l2 :
  (forall x, In x l1 -> f x = true -> exists y, In y l2 /\ g y = true) ->
  (forall y, In y l2 -> g y = true -> exists x, In x l1 /\ f x = true) ->
  existsb f l1 = existsb g l2.
Proof.
  intros H1 H2. destruct (existsb f l1) eqn:E1; destruct (existsb g l2) eqn:E2; try reflexivity.
  - apply existsb_exists in E1 as [x [Hx Fx]]. destruct (H1 x Hx Fx) as [y [Hy Gy]].
    assert (existsb g l2 = true) by (apply existsb_exists; eauto). congruence.
  - apply existsb_exists in E2 as [y [Hy Gy]]. destruct (H2 y Hy Gy) as [x [Hx Fx]].
    assert (existsb f l1 = true) by (apply existsb_exists; eauto). congruence.
Qed.

Lemma run_apps_equiv kw l1 l2 :
  NoDup (map ap_key l1) -> NoDup (map ap_key l2) ->
  same_effects kw l1 l2 -> same_effects kw l2 l1 ->
  req_equiv (run_apps l1 kw empty_req) (run_apps l2 kw empty_req).
Proof.
  intros N1 N2 S12 S21. split.
  - intro k.
    destruct (in_dec string_dec k (map ap_key l1)) as [Hin|Hnot].
    + apply in_map_iff in Hin as [a1 [<- Ha1]].
      destruct (S12 a1 Ha1) as [a2 [Ha2 [Ek [Es _]]]].
      rewrite (run_apps_in l1 kw empty_req a1 N1 Ha1 (lookup_empty _)).
      rewrite <- Ek. rewrite (run_apps_in l2 kw empty_req a2 N2 Ha2 (lookup_empty _)). now symmetry.
    + rewrite run_apps_notin; [|intros a Ha E; apply Hnot; rewrite <- E; now apply in_map].
      rewrite run_apps_notin; [reflexivity|].
      intros a2 Ha2 E. destruct (S21 a2 Ha2) as [a1 [Ha1 [Ek _]]].
      apply Hnot. rewrite <- E, <- Ek. now apply in_map.
  - intro p. rewrite !run_apps_viv. simpl. apply existsb_iff.
    + intros a1 Ha1 T. destruct (S12 a1 Ha1) as [a2 [Ha2 [_ [_ Et]]]]. exists a2. split; [assumption|]. now rewrite Et.
    + intros a2 Ha2 T. destruct (S21 a2 Ha2) as [a1 [Ha1 [_ [_ Et]]]]. exists a1. split; [assumption|]. now rewrite Et.
Qed.

Lemma req_equiv_refl r : req_equiv r r.
Proof. split; reflexivity. Qed.
Lemma req_equiv_sym a b : req_equiv a b -> req_equiv b a.
Proof. intros [H1 H2]. split; intro; symmetry; auto. Qed.
Lemma req_equiv_trans a b c : req_equiv a b -> req_equiv b c -> req_equiv a c.
Proof. intros [H1 H2] [H3 H4]. split; intro; [rewrite H1|rewrite H2]; auto. Qed.

(* no parameter of the list is passed: nothing runs *)
Lemma run_apps_idle l kw r :
  (forall a, In a l -> fires a kw = None) -> run_apps l kw r = r /\ apps_typed l kw = true.
Proof.
  unfold run_apps, apps_typed. revert r. induction l as [|a l IH]; intros r H; simpl; [split; reflexivity|].
  assert (Ha : fires a kw = None) by (apply H; now left).
  unfold run_app at 2. rewrite Ha. simpl.
  destruct (IH r) as [I1 I2]; [intros b Hb; apply H; now right|]. split; assumption.
Qed.

Lemma fires_nil a : fires a [] = None.
Proof. reflexivity. Qed.

(* ================================================================================================ *)
(* C. what each template emits, field by field                                                      *)
(* ================================================================================================ *)

(* the combinations of guard and statement the templates use for a field of a given kind *)
Definition combo_ok (a : app) : Prop :=
  match ap_act a with
  | Assign => ap_guard a = GNotNone
  | Extend => ap_kind a = KList
  | Update => ap_kind a = KMap
  end.

(* [a] applies the field [kf] *)
Definition app_for (kf : string * rfield) (a : app) : Prop :=
  ap_param a = r_name (snd kf) /\ ap_key a = fst kf /\ ap_kind a = kind_of (snd kf) /\
  ap_presence a = r_presence (snd kf) /\ combo_ok a.

Lemma mk_app_for g act s kf :
  (match act with Assign => g = GNotNone | Extend => kind_of (snd kf) = KList | Update => kind_of (snd kf) = KMap end) ->
  app_for kf (mk_app g act s kf).
Proof. intro H. unfold app_for, mk_app, combo_ok. simpl. repeat split; try reflexivity. destruct act; assumption. Qed.

Lemma kind_list rf : rfield_wf rf = true -> r_repeated rf = true -> r_map rf = false -> kind_of rf = KList.
Proof. intros _ R M. unfold kind_of. now rewrite M, R. Qed.
Lemma kind_map rf : r_map rf = true -> kind_of rf = KMap.
Proof. intro M. unfold kind_of. now rewrite M. Qed.
Lemma wf_struct rf : rfield_wf rf = true -> r_struct_value rf = true -> r_map rf = false.
Proof.
  unfold rfield_wf. intros W S. rewrite S in W. destruct (r_map rf); [|reflexivity].
  simpl in W. rewrite andb_false_r in W. simpl in W. rewrite andb_false_r in W. discriminate.
Qed.

Lemma sync_cross_rep_for b l : forall a,
  In a (sync_cross_rep b l) -> exists kf, In kf l /\ ap_key a = fst kf /\
     (r_repeated (snd kf) = true -> rfield_wf (snd kf) = true -> app_for kf a).
Proof.
  revert b. induction l as [|kf l IH]; intros b a H; simpl in H; [contradiction|].
  destruct H as [<-|H].
  - exists kf. split; [now left|]. split; [reflexivity|]. intros R W. apply mk_app_for.
    destruct (r_map (snd kf)) eqn:M; [now apply kind_map | now apply kind_list].
  - destruct (IH false a H) as [kf' [H1 H2]]. exists kf'. split; [now right|assumption].
Qed.

Lemma sync_cross_rep_keys b l : map ap_key (sync_cross_rep b l) = map fst l.
Proof. revert b. induction l as [|kf l IH]; intro b; simpl; [reflexivity|]. now rewrite IH. Qed.

Lemma sync_cross_rep_has b l : forall kf, In kf l -> exists a, In a (sync_cross_rep b l) /\ ap_key a = fst kf.
Proof.
  revert b. induction l as [|x l IH]; intros b kf H; simpl in *; [contradiction|].
  destruct H as [->|H].
  - eexists. split; [now left|reflexivity].
  - destruct (IH false kf H) as [a [Ha E]]. exists a. split; [now right|assumption].
Qed.

(* --- keys of the emitted application lists --- *)
Lemma nodup_fst_inj {A} (m : list (string * A)) x y :
  NoDup (map fst m) -> In x m -> In y m -> fst x = fst y -> x = y.
Proof.
  induction m as [|z m IH]; intros ND Hx Hy E; [contradiction|].
  inversion ND as [|k ks Hn ND']; subst.
  destruct Hx as [->|Hx], Hy as [->|Hy]; try reflexivity.
  - exfalso. apply Hn. rewrite E. now apply in_map.
  - exfalso. apply Hn. rewrite <- E. now apply in_map.
  - now apply IH.
Qed.

Lemma nodup_filter {A} (p : string * A -> bool) m : NoDup (map fst m) -> NoDup (map fst (filter p m)).
Proof.
  induction m as [|x m IH]; intro ND; simpl; [constructor|].
  inversion ND as [|k ks Hn ND']; subst. destruct (p x); simpl; [|now apply IH].
  constructor; [|now apply IH]. intro H. apply Hn. apply in_map_iff in H as [y [E Hy]].
  apply filter_In in Hy as [Hy _]. rewrite <- E. now apply in_map.
Qed.

Lemma NoDup_app_intro {A} (l1 l2 : list A) :
  NoDup l1 -> NoDup l2 -> (forall x, In x l1 -> ~ In x l2) -> NoDup (l1 ++ l2).
Proof.
  induction l1 as [|a l1 IH]; intros N1 N2 D; simpl; [assumption|].
  inversion N1; subst. constructor.
  - intro H. apply in_app_or in H as [H|H]; [contradiction|]. apply (D a); [now left|assumption].
  - apply IH; try assumption. intros x Hx. apply D. now right.
Qed.

Lemma disjoint_filters {A} (p q : string * A -> bool) m :
  (forall x, p x && q x = false) -> NoDup (map fst m) ->
  forall k, In k (map fst (filter p m)) -> ~ In k (map fst (filter q m)).
Proof.
  intros D ND k H1 H2.
  apply in_map_iff in H1 as [x [E1 Hx]]. apply in_map_iff in H2 as [y [E2 Hy]].
  apply filter_In in Hx as [Hx Px]. apply filter_In in Hy as [Hy Qy].
  assert (x = y) by (apply (nodup_fst_inj m); congruence). subst y.
  specialize (D x). rewrite Px, Qy in D. discriminate.
Qed.

Lemma nodup_app_filters {A} (p q : string * A -> bool) m :
  (forall x, p x && q x = false) -> NoDup (map fst m) ->
  NoDup (map fst (filter p m) ++ map fst (filter q m)).
Proof.
  intros D ND. apply NoDup_app_intro; try now apply nodup_filter. now apply disjoint_filters.
Qed.
