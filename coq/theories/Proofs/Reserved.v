(* Proofs/Reserved.v — lemmas for C12 *)
From GV Require Import Base.Str Gen.Kw Model.Case Model.Reserved.

(* ---- finite facts about the regenerated lists (re-checked by vm_compute whenever Gen/Kw.v changes) ---- *)
Lemma kwlist_subset_reserved_b : forallb reserved KWLIST = true.
Proof. vm_compute. reflexivity. Qed.

Lemma kw_no_trailing_us_b : forallb (fun k => negb (ends_with "_" k)) (KWLIST ++ INVALID_MODULE_EXTRA ++ TRANSPORT_UNSAFE) = true.
Proof. vm_compute. reflexivity. Qed.

Lemma all_positions_ok_b : all_positions_ok = true.
Proof. vm_compute. reflexivity. Qed.

(* ---- general lemmas ---- *)
Lemma mem_str_In x l : mem_str x l = true <-> In x l.
Proof.
  unfold mem_str. rewrite existsb_exists. split.
  - intros (y & Hy & E). apply String.eqb_eq in E. now subst.
  - intro H. exists x. split; [assumption | apply String.eqb_refl].
Qed.

Lemma kw_reserved w : is_kw w = true -> reserved w = true.
Proof.
  unfold is_kw. intro H. apply mem_str_In in H.
  pose proof kwlist_subset_reserved_b as F. rewrite forallb_forall in F. now apply F.
Qed.

Lemma srev_acc_app s : forall acc, srev_acc s acc = srev_acc s "" ++ acc.
Proof.
  induction s as [|c s IH]; intro acc; simpl; [reflexivity|].
  rewrite IH. rewrite (IH (String c "")). rewrite sapp_assoc. reflexivity.
Qed.

Lemma srev_app a b : srev (a ++ b) = srev b ++ srev a.
Proof.
  unfold srev. revert b. induction a as [|c a IH]; intro b; simpl.
  - now rewrite sapp_nil_r.
  - rewrite srev_acc_app. rewrite IH. rewrite (srev_acc_app a (String c "")). now rewrite sapp_assoc.
Qed.

Lemma ends_with_us w : ends_with "_" (w ++ "_") = true.
Proof. unfold ends_with. rewrite srev_app. reflexivity. Qed.

(* nothing that ends with an underscore is a keyword / invalid module name / transport-unsafe name *)
Lemma trailing_us_not_listed w :
  mem_str (w ++ "_") (KWLIST ++ INVALID_MODULE_EXTRA ++ TRANSPORT_UNSAFE) = false.
Proof.
  destruct (mem_str (w ++ "_") _) eqn:E; [|reflexivity].
  apply mem_str_In in E. pose proof kw_no_trailing_us_b as F. rewrite forallb_forall in F.
  apply F in E. rewrite ends_with_us in E. discriminate.
Qed.

Lemma mem_str_app x a b : mem_str x (a ++ b) = mem_str x a || mem_str x b.
Proof. unfold mem_str. now rewrite existsb_app. Qed.

Lemma trailing_us_not_kw w : is_kw (w ++ "_") = false.
Proof.
  pose proof (trailing_us_not_listed w) as H. rewrite mem_str_app in H.
  apply orb_false_iff in H as [H _]. exact H.
Qed.

Lemma sall_app f a b : sall f (a ++ b) = sall f a && sall f b.
Proof. induction a as [|c a IH]; simpl; [reflexivity|]. rewrite IH. now rewrite andb_assoc. Qed.

Lemma is_ident_us w : is_ident w = true -> is_ident (w ++ "_") = true.
Proof.
  destruct w as [|c w]; simpl; [discriminate|]. intro H. apply andb_true_iff in H as [H1 H2].
  rewrite H1, sall_app, H2. reflexivity.
Qed.

(* the attribute of a field is always a legal, non-keyword Python name *)
Lemma field_attr_ok w : is_ident w = true -> python_ok (field_attr w) = true.
Proof.
  intro H. unfold python_ok, field_attr. destruct (reserved w) eqn:R.
  - rewrite is_ident_us by assumption. now rewrite trailing_us_not_kw.
  - rewrite H. destruct (is_kw w) eqn:K; [|reflexivity]. apply kw_reserved in K. congruence.
Qed.

Lemma field_attr_shape w : field_attr w = w \/ (reserved w = true /\ field_attr w = w ++ "_").
Proof. unfold field_attr. destruct (reserved w); auto. Qed.

(* every component of a dotted path *)
Lemma srev_cons c a : srev (String c a) = srev a ++ s1 c.
Proof. unfold srev. simpl. now rewrite srev_acc_app. Qed.

Lemma srev_involutive a : srev (srev a) = a.
Proof.
  induction a as [|c a IH]; [reflexivity|].
  rewrite srev_cons, srev_app, IH. reflexivity.
Qed.

Lemma split_on_acc_run c : forall a rest acc, contains c a = false ->
  split_on_acc c (a ++ rest) acc = split_on_acc c rest (srev_acc a acc).
Proof.
  induction a as [|x a IH]; intros rest acc H; simpl; [reflexivity|].
  simpl in H. apply orb_false_iff in H as [Hx Ha]. rewrite Hx. now apply IH.
Qed.

Lemma split_on_join c : forall l, l <> [] -> Forall (fun s => contains c s = false) l ->
  split_on c (sjoin (s1 c) l) = l.
Proof.
  unfold split_on. induction l as [|a l IH]; intros Hne Hall; [congruence|].
  inversion Hall as [|? ? Ha Hl]; subst.
  destruct l as [|b l].
  - simpl. rewrite <- (sapp_nil_r a) at 1. rewrite split_on_acc_run by assumption. simpl.
    change (srev_acc a "") with (srev a). now rewrite srev_involutive.
  - change (sjoin (s1 c) (a :: b :: l)) with (a ++ s1 c ++ sjoin (s1 c) (b :: l)).
    rewrite split_on_acc_run by assumption. unfold s1 at 1. simpl. rewrite Ascii.eqb_refl.
    change (srev_acc a "") with (srev a). rewrite srev_involutive. f_equal.
    apply IH; [discriminate | assumption].
Qed.

Lemma contains_dot_word s : sall is_word s = true -> contains "."%char s = false.
Proof.
  induction s as [|c s IH]; simpl; [reflexivity|]. intro H. apply andb_true_iff in H as [Hc Hs].
  rewrite (IH Hs). destruct (Ascii.eqb c "."%char) eqn:E; [|reflexivity].
  apply Ascii.eqb_eq in E. subst c. vm_compute in Hc. discriminate.
Qed.

Lemma is_ident_no_dot s : is_ident s = true -> contains "."%char s = false.
Proof.
  destruct s as [|c s]; simpl; [reflexivity|]. intro H. apply andb_true_iff in H as [Hc Hs].
  rewrite (contains_dot_word s Hs). destruct (Ascii.eqb c "."%char) eqn:E; [|reflexivity].
  apply Ascii.eqb_eq in E. subst c. vm_compute in Hc. discriminate.
Qed.

Lemma python_ok_ident s : python_ok s = true -> is_ident s = true.
Proof. unfold python_ok. intro H. now apply andb_true_iff in H as [H _]. Qed.

(* a dotted path whose components are identifiers is rendered as a chain of legal attribute names *)
Lemma fix_path_ok p : forallb is_ident (split_on "."%char p) = true -> chain_ok (fix_path p) = true.
Proof.
  intro H. unfold chain_ok, fix_path.
  assert (Hne : map field_attr (split_on "."%char p) <> []).
  { unfold split_on. destruct p; simpl; try discriminate.
    destruct (Ascii.eqb a "."%char); simpl; try discriminate.
    clear. generalize (String a ""). generalize p. induction p0; simpl; intros; try discriminate.
    destruct (Ascii.eqb a0 "."%char); simpl; [discriminate|apply IHp0]. }
  assert (Hok : forallb python_ok (map field_attr (split_on "."%char p)) = true).
  { rewrite forallb_forall in *. intros x Hx. apply in_map_iff in Hx as (w & <- & Hw). apply field_attr_ok. now apply H. }
  change "." with (s1 "."%char). rewrite split_on_join; [exact Hok | exact Hne |].
  rewrite Forall_forall. intros x Hx. rewrite forallb_forall in Hok. apply is_ident_no_dot, python_ok_ident. now apply Hok.
Qed.

Lemma body_attr_ok b : is_ident b = true -> python_ok (body_attr b) = true.
Proof.
  intro H. unfold python_ok, body_attr. destruct (reserved b) eqn:R; simpl.
  - destruct (ends_with "_" b) eqn:E; simpl.
    + rewrite H. destruct (is_kw b) eqn:K; [|reflexivity].
      exfalso. unfold is_kw in K. apply mem_str_In in K.
      pose proof kw_no_trailing_us_b as F. rewrite forallb_forall in F.
      assert (In b (KWLIST ++ INVALID_MODULE_EXTRA ++ TRANSPORT_UNSAFE)) as I by (apply in_or_app; now left).
      apply F in I. rewrite E in I. discriminate.
    + rewrite is_ident_us by assumption. now rewrite trailing_us_not_kw.
  - rewrite H. destruct (is_kw b) eqn:K; [|reflexivity]. apply kw_reserved in K. congruence.
Qed.

(* rpc names: a keyword-named method gets exactly one underscore and the lower-cased attribute is legal *)
Lemma lower_app a b : lower (a ++ b) = lower a ++ lower b.
Proof. unfold lower. induction a as [|c a IH]; simpl; [reflexivity|]. now rewrite IH. Qed.

Lemma method_attr_ok n : is_ident (lower n) = true -> python_ok (lower (client_method_name n)) = true.
Proof.
  intro H. unfold python_ok, client_method_name. destruct (is_kw (lower n)) eqn:K.
  - rewrite lower_app. change (lower "_") with "_". rewrite is_ident_us by assumption. now rewrite trailing_us_not_kw.
  - rewrite H, K. reflexivity.
Qed.

Lemma transport_attr_ok n : is_ident (lower n) = true ->
  python_ok (lower (transport_safe_name n)) = true /\
  mem_str (lower (transport_safe_name n)) (TRANSPORT_UNSAFE ++ KWLIST) = false.
Proof.
  intro H. unfold python_ok, transport_safe_name.
  destruct (mem_str (lower n) (TRANSPORT_UNSAFE ++ KWLIST)) eqn:K.
  - rewrite lower_app. change (lower "_") with "_". rewrite is_ident_us by assumption.
    rewrite trailing_us_not_kw. split; [reflexivity|].
    pose proof (trailing_us_not_listed (lower n)) as T.
    rewrite !mem_str_app in *. apply orb_false_iff in T as [T1 T2]. apply orb_false_iff in T2 as [T2 T3].
    now rewrite T1, T3.
  - rewrite H. split; [|exact K].
    rewrite mem_str_app in K. apply orb_false_iff in K as [_ K]. unfold is_kw. now rewrite K.
Qed.

(* ---- JSON names: the suffix never changes the lowerCamel name ---- *)
Lemma to_json_name_aux_us cap w : to_json_name_aux cap (w ++ "_") = to_json_name_aux cap w.
Proof.
  revert cap. induction w as [|c w IH]; intro cap; simpl; [reflexivity|].
  destruct (Ascii.eqb c "_"%char); [apply IH | now rewrite IH].
Qed.
Lemma json_name_invariant w : to_json_name (field_attr w) = to_json_name w.
Proof. unfold field_attr, to_json_name. destruct (reserved w); [apply to_json_name_aux_us | reflexivity]. Qed.

(* ---- proto file names: the loop terminates and its result is fresh ---- *)
Lemma count_ge_mono k vs : count_ge (S k) vs <= count_ge k vs.
Proof.
  unfold count_ge. induction vs as [|a vs IH]; cbn [filter length]; [lia|].
  destruct (Nat.leb_spec (S k) (String.length a)); destruct (Nat.leb_spec k (String.length a)); cbn [length]; lia.
Qed.

Lemma count_ge_drop x k visited :
  In x visited -> String.length x = k -> count_ge (S k) visited < count_ge k visited.
Proof.
  induction visited as [|v vs IH]; intros Hin Hlen; [contradiction|].
  pose proof (count_ge_mono k vs) as Hmono. unfold count_ge in *. cbn [filter length].
  destruct Hin as [->|Hin].
  - rewrite Hlen. destruct (Nat.leb_spec (S k) k); destruct (Nat.leb_spec k k); cbn [length]; lia.
  - specialize (IH Hin Hlen).
    destruct (Nat.leb_spec (S k) (String.length v)); destruct (Nat.leb_spec k (String.length v)); cbn [length]; lia.
Qed.

Lemma length_app_us n : String.length (n ++ "_") = S (String.length n).
Proof. induction n as [|c n IH]; simpl; [reflexivity|]. now rewrite IH. Qed.

Lemma bump_total visited : forall fuel n,
  count_ge (S (String.length n)) visited < fuel ->
  exists r, bump fuel n visited = Some r /\ mem_str r visited = false /\ ends_with "_" r = true.
Proof.
  induction fuel as [|f IH]; intros n H; [lia|].
  simpl. destruct (mem_str (n ++ "_") visited) eqn:E.
  - apply IH. apply mem_str_In in E.
    pose proof (count_ge_drop (n ++ "_") (S (String.length n)) visited E (length_app_us n)) as D.
    rewrite length_app_us. lia.
  - exists (n ++ "_"). repeat split; [exact E | apply ends_with_us].
Qed.



Lemma ends_us_iff s : ends_with "_" s = true <-> exists a, s = a ++ "_".
Proof.
  split.
  - unfold ends_with, starts_with. intro H.
    destruct (strip_prefix (srev "_") (srev s)) as [r|] eqn:E; [|discriminate].
    apply strip_prefix_sound in E. exists (srev r).
    rewrite <- (srev_involutive s), E, srev_app. reflexivity.
  - intros [a ->]. apply ends_with_us.
Qed.

Lemma ins_pass_keeps_us test : forall s p, exists a, ins_pass test p (s ++ "_") = a ++ "_".
Proof.
  induction s as [|c s IH]; intro p; simpl.
  - destruct (test p "_"%char ""); [exists "_" | exists ""]; reflexivity.
  - destruct (IH (Some c)) as [a Ha]. rewrite Ha.
    destruct (test p c (s ++ "_")); [exists (String "_"%char (String c a)) | exists (String c a)]; reflexivity.
Qed.

Lemma snake_keeps_us s : ends_with "_" s = true -> ends_with "_" (snake s) = true.
Proof.
  intro H. apply ends_us_iff in H as [a ->]. unfold snake.
  destruct (ins_pass_keeps_us t1 a None) as [a1 ->].
  destruct (ins_pass_keeps_us t2 a1 None) as [a2 ->].
  destruct (ins_pass_keeps_us t3 a2 None) as [a3 ->].
  destruct (ins_pass_keeps_us t4 a3 None) as [a4 ->].
  rewrite lower_app. apply ends_us_iff. exists (lower a4). reflexivity.
Qed.

Lemma trailing_us_valid_module r : ends_with "_" r = true -> invalid_module r = false.
Proof.
  intro He. destruct (invalid_module r) eqn:I; [|reflexivity]. exfalso.
  unfold invalid_module in I. apply mem_str_In in I.
  pose proof kw_no_trailing_us_b as F. rewrite forallb_forall in F.
  assert (In r (KWLIST ++ INVALID_MODULE_EXTRA ++ TRANSPORT_UNSAFE)) as J.
  { apply in_app_or in I as [I|I]; apply in_or_app; [now left | right; apply in_or_app; now left]. }
  apply F in J. rewrite He in J. discriminate.
Qed.

(* proto file names: the loop terminates, and neither the chosen name nor the snake-case module the types are written to is a
   keyword or a name the client classes use (metadata, retry, timeout, request, transport), nor taken already *)
Lemma sanitize_total name visited :
  exists r, sanitize_fname name visited = Some r /\ mem_str r visited = false /\
            invalid_module r = false /\ invalid_module (snake r) = false.
Proof.
  unfold sanitize_fname. set (n := dots_to_us name).
  destruct (module_invalid n || mem_str n visited) eqn:E.
  - destruct (bump_total visited (S (count_ge (S (String.length n)) visited)) n) as (r & Hr & Hv & He); [lia|].
    exists r. repeat split; try assumption.
    + now apply trailing_us_valid_module.
    + apply trailing_us_valid_module. now apply snake_keeps_us.
  - apply orb_false_iff in E as [E1 E2]. unfold module_invalid in E1. apply orb_false_iff in E1 as [E1 E1'].
    exists n. repeat split; assumption.
Qed.

(* ---- module aliases ---- *)
From Coq Require Import Lia.

Lemma slen_app (a b : string) : String.length (a ++ b) = String.length a + String.length b.
Proof. induction a as [|c a IH]; simpl; [reflexivity | now rewrite IH]. Qed.

Lemma sapp_inv_tail (s : string) : forall a b, a ++ s = b ++ s -> a = b.
Proof.
  induction a as [|c a IH]; intros [|d b] H; simpl in H.
  - reflexivity.
  - apply (f_equal String.length) in H. simpl in H. rewrite slen_app in H. lia.
  - apply (f_equal String.length) in H. simpl in H. rewrite slen_app in H. lia.
  - injection H as -> H. f_equal. now apply IH.
Qed.

(* an alias is produced exactly for colliding or reserved module names, and then it is the package initials, "_", the module *)
Lemma module_alias_shape p v m c :
  module_alias p v m c = if c || reserved m || imported_name m then pkg_initials p v ++ "_" ++ m else "".
Proof. reflexivity. Qed.

(* two colliding modules of the same base name get distinct aliases exactly when their packages' initials differ *)
Lemma module_alias_distinct_iff p1 p2 v m :
  module_alias p1 v m true = module_alias p2 v m true <-> pkg_initials p1 v = pkg_initials p2 v.
Proof.
  unfold module_alias. cbn [orb]. split; intro H.
  - now apply sapp_inv_tail in H.
  - now rewrite H.
Qed.

(* ... so the alias does NOT separate packages that share their initials *)
Lemma module_alias_same_initials_refuted :
  exists p1 p2 v m, p1 <> p2 /\ module_alias p1 v m true = module_alias p2 v m true.
Proof.
  exists ["google"; "example"; "kw"; "v1"; "alpha"], ["google"; "example"; "kw"; "v1"; "apple"], "v1", "common".
  split; [discriminate | vm_compute; reflexivity].
Qed.

(* a types module named like a module the emitted code imports is never imported under that bare name *)
Lemma imported_module_aliased p v m c : imported_name m = true -> module_alias p v m c = pkg_initials p v ++ "_" ++ m.
Proof. intros H. unfold module_alias. rewrite H, !orb_true_r. reflexivity. Qed.

Lemma alias_differs_from_module p v m : module_alias p v m true <> m.
Proof.
  unfold module_alias. cbn [orb]. intros H.
  assert (L : String.length (pkg_initials p v ++ "_" ++ m) = String.length m) by (rewrite H; reflexivity).
  rewrite !slen_app in L. cbn [String.length] in L. lia.
Qed.
