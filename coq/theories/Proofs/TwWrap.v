(* Proofs/TwWrap.v — C20: the textwrap model of Model/Wrap.v: whitespace munging and chunking keep the
   words; the chunk loop always terminates within its fuel, keeps the words, and respects the width
   except for a single unbreakable chunk. *)
From GV Require Import Base.Str Model.FixWs Model.Wrap Proofs.RxLemmas Proofs.Words.
Local Open Scope list_scope.
Local Open Scope nat_scope.

(* ---------------------------------------------------------------- character classes *)
Lemma twspace_pyspace c : is_twspace c = true -> is_pyspace c = true.
Proof.
  unfold is_twspace, is_pyspace. intro H. apply orb_true_iff in H as [H|H]; rewrite H; [reflexivity|].
  now rewrite orb_true_r.
Qed.

Lemma sepc_rep_sp n : 1 <= n -> sepc (rep n sp).
Proof.
  intro H. split; [destruct n; [lia|discriminate]|].
  clear H. induction n as [|n IH]; [reflexivity|]. simpl. exact IH.
Qed.

Lemma sall_ws_rep_sp n : sall ws (rep n sp) = true.
Proof. induction n as [|n IH]; [reflexivity|]. simpl. exact IH. Qed.

Lemma sepc_s1 c : ws c = true -> sepc (s1 c).
Proof. intro H. split; [discriminate|]. simpl. now rewrite H. Qed.

(* ---------------------------------------------------------------- _munge_whitespace keeps the words *)
Lemma weq_cons c a b : a ≃ b -> String c a ≃ String c b.
Proof. intro H. apply (weq_app (s1 c) (s1 c) a b (weq_refl _) H). Qed.

Lemma expandtabs_weq : forall s col, expandtabs col s ≃ s.
Proof.
  induction s as [|c s IH]; intro col; [apply weq_refl|]. cbn [expandtabs].
  destruct (Ascii.eqb c tab) eqn:Et.
  - apply Ascii.eqb_eq in Et. subst c.
    apply (weq_app _ (s1 tab) _ s); [|apply IH].
    apply weq_sep; [|now apply sepc_s1].
    apply sepc_rep_sp. pose proof (Nat.mod_upper_bound col 8). lia.
  - destruct (Ascii.eqb c nl || Ascii.eqb c (chr 13)); apply weq_cons, IH.
Qed.

Lemma smap_tw_weq s : smap (fun c => if is_twspace c then sp else c) s ≃ s.
Proof.
  induction s as [|c s IH]; [apply weq_refl|]. cbn [smap].
  apply (weq_app (s1 _) (s1 c) _ s); [|exact IH].
  destruct (is_twspace c) eqn:E; [|apply weq_refl].
  apply weq_sep; [now apply sepc_s1 | apply sepc_s1, twspace_pyspace, E].
Qed.

Lemma munge_weq s : munge s ≃ s.
Proof. unfold munge. eapply weq_trans; [apply smap_tw_weq | apply expandtabs_weq]. Qed.

(* ---------------------------------------------------------------- chunks *)
Lemma chunks_acc_concat : forall s cur b, sconcat (chunks_acc cur b s) = (cur ++ s)%string.
Proof.
  induction s as [|c s IH]; intros cur b; cbn [chunks_acc].
  - destruct cur; [reflexivity|]. cbn [is_empty sconcat]. now rewrite sapp_nil_r.
  - destruct (is_empty cur) eqn:Ec.
    + destruct cur; [|discriminate]. rewrite IH. reflexivity.
    + destruct (Bool.eqb (is_twspace c) b).
      * rewrite IH. unfold s1. now rewrite sapp_assoc.
      * cbn [sconcat]. rewrite IH. reflexivity.
Qed.

Lemma split_chunks_concat s : sconcat (split_chunks s) = s.
Proof. unfold split_chunks. now rewrite chunks_acc_concat. Qed.

(* a chunk is non-empty and homogeneous: all whitespace (k = true) or no whitespace (k = false) *)
Definition homog (k : bool) (c : string) : Prop :=
  c <> ""%string /\ sall (fun x => Bool.eqb (is_twspace x) k) c = true.
(* kinds alternate along the list *)
Fixpoint altk (k : bool) (l : list string) : Prop :=
  match l with [] => True | c :: l' => homog k c /\ altk (negb k) l' end.

Lemma chunks_acc_alt : forall s cur b, cur <> ""%string ->
  sall (fun x => Bool.eqb (is_twspace x) b) cur = true -> altk b (chunks_acc cur b s).
Proof.
  induction s as [|c s IH]; intros cur b Hne Hg; cbn [chunks_acc].
  - destruct cur; [congruence|]. cbn [is_empty]. simpl. repeat split; auto; discriminate.
  - destruct cur as [|x cur]; [congruence|]. cbn [is_empty].
    destruct (Bool.eqb (is_twspace c) b) eqn:E.
    + apply Bool.eqb_prop in E. rewrite E. apply IH; [discriminate|].
      rewrite sall_app, Hg. simpl. rewrite E. now rewrite Bool.eqb_reflx.
    + cbn [altk]. split; [split; [discriminate|exact Hg]|].
      assert (Ek : is_twspace c = negb b) by (destruct (is_twspace c), b; simpl in *; congruence).
      rewrite Ek. apply IH; [discriminate|]. simpl. rewrite Ek. now rewrite Bool.eqb_reflx.
Qed.

Lemma split_chunks_alt s : exists k, altk k (split_chunks s).
Proof.
  destruct s as [|c s]; [exists true; exact I|].
  exists (is_twspace c). unfold split_chunks. cbn [chunks_acc is_empty].
  apply chunks_acc_alt; [discriminate|]. simpl. now rewrite Bool.eqb_reflx.
Qed.

Lemma homog_true_sepc c : homog true c -> sepc c.
Proof.
  intros [Hne H]. split; [exact Hne|]. clear Hne. induction c as [|x c IH]; [reflexivity|].
  simpl in *. apply andb_true_iff in H as [Hx H]. apply Bool.eqb_prop in Hx.
  rewrite (twspace_pyspace x Hx). auto.
Qed.

Lemma altk_tail k c l : altk k (c :: l) -> altk (negb k) l.
Proof. now intros [_ H]. Qed.

(* ---------------------------------------------------------------- one iteration of the chunk loop *)
Definition lens (l : list string) : nat := String.length (sconcat l).

Lemma lens_cons c l : lens (c :: l) = String.length c + lens l.
Proof. unfold lens. cbn [sconcat]. apply length_app. Qed.

Lemma sconcat_app a b : sconcat (a ++ b) = (sconcat a ++ sconcat b)%string.
Proof. induction a as [|x a IH]; [reflexivity|]. cbn [app sconcat]. now rewrite IH, sapp_assoc. Qed.

Lemma lens_app a b : lens (a ++ b) = lens a + lens b.
Proof. unfold lens. rewrite sconcat_app. apply length_app. Qed.

Lemma take_fit_spec : forall l w n acc,
  exists p s, take_fit w n acc l = (acc ++ p, s) /\ l = p ++ s /\
              (p = [] \/ n + lens p <= w) /\
              match s with c :: _ => w < n + lens p + String.length c | [] => True end.
Proof.
  induction l as [|c l IH]; intros w n acc.
  - exists [], []. cbn [take_fit]. rewrite app_nil_r. auto.
  - cbn [take_fit]. destruct (n + String.length c <=? w) eqn:E.
    + apply Nat.leb_le in E.
      destruct (IH w (n + String.length c) (acc ++ [c])) as (p & s & H1 & H2 & H3 & H4).
      exists (c :: p), s. rewrite H1, <- app_assoc. split; [reflexivity|]. split; [now rewrite H2|].
      rewrite lens_cons. split.
      * right. destruct H3 as [-> | H3]; [unfold lens; simpl; lia | lia].
      * destruct s; [exact I|]. lia.
    + apply Nat.leb_gt in E. exists [], (c :: l). rewrite app_nil_r. repeat split; auto.
      unfold lens. simpl. lia.
Qed.

Lemma dlb_spec cur :
  (drop_last_blank cur = cur /\ (cur = [] \/ exists l x, cur = l ++ [x] /\ is_blank x = false)) \/
  (exists l b, cur = l ++ [b] /\ is_blank b = true /\ drop_last_blank cur = l).
Proof.
  unfold drop_last_blank. destruct (rev cur) as [|c r] eqn:E.
  - left. split; [reflexivity|]. left. apply (f_equal (@rev string)) in E. now rewrite rev_involutive in E.
  - assert (Hc : cur = rev r ++ [c]) by (apply (f_equal (@rev string)) in E; now rewrite rev_involutive in E).
    destruct (is_blank c) eqn:B.
    + right. exists (rev r), c. auto.
    + left. split; [reflexivity|]. right. exists (rev r), c. auto.
Qed.

(* what one iteration does: it passes over [d] (a blank chunk dropped at the start of a line that is not the
   first), puts [cur3] on the line, passes over [t] (a blank chunk dropped at the end) and leaves [chunks'] *)
Lemma wrap_step_spec W indent fl chunks line chunks' :
  wrap_step W indent fl chunks = (line, chunks') ->
  exists d cur3 t,
    chunks = d ++ cur3 ++ t ++ chunks' /\
    (d = [] \/ (fl = false /\ exists c, d = [c] /\ is_blank c = true)) /\
    ((t = [] /\ (cur3 = [] \/ exists l x, cur3 = l ++ [x] /\ is_blank x = false)) \/
     (exists b, t = [b] /\ is_blank b = true)) /\
    line = (if is_nil cur3 then None else Some (indent ++ sconcat cur3)%string) /\
    (chunks <> [] -> d ++ cur3 ++ t <> []) /\
    (lens cur3 <= W - String.length indent \/ exists c, cur3 = [c]).
Proof.
  unfold wrap_step. set (width := W - String.length indent).
  set (chunks1 := match chunks with c :: rest => if is_blank c && negb fl then rest else chunks | [] => [] end).
  assert (Hd : exists d, chunks = d ++ chunks1 /\ (d = [] \/ (fl = false /\ exists c, d = [c] /\ is_blank c = true))).
  { unfold chunks1. destruct chunks as [|c rest]; [exists []; auto|].
    destruct (is_blank c && negb fl) eqn:E; [|exists []; auto].
    apply andb_true_iff in E as [E1 E2]. exists [c]. split; [reflexivity|]. right. split; [now destruct fl|eauto]. }
  destruct Hd as (d & Hc & Hdd).
  destruct (take_fit_spec chunks1 width 0 []) as (p & chunks2 & Ht & Hs & Hfit & Hnext). rewrite Ht. cbn [app].
  (* the long-word branch *)
  set (r2 := match chunks2 with
             | c :: rest => if (width <? String.length c) && is_nil p then ([c], rest) else (p, chunks2)
             | [] => (p, []) end).
  assert (H2 : exists cur2 chunks3, r2 = (cur2, chunks3) /\ chunks1 = cur2 ++ chunks3 /\
               (lens cur2 <= width \/ exists c, cur2 = [c]) /\ (chunks1 <> [] -> cur2 <> [])).
  { unfold r2. destruct chunks2 as [|c rest].
    - exists p, []. repeat split; auto.
      + destruct Hfit as [-> | Hfit]; [left; unfold lens; simpl; lia | left; lia].
      + rewrite Hs, app_nil_r. auto.
    - destruct ((width <? String.length c) && is_nil p) eqn:E.
      + apply andb_true_iff in E as [_ E]. destruct p; [|discriminate]. exists [c], rest. repeat split; eauto. discriminate.
      + exists p, (c :: rest). repeat split; auto.
        * destruct Hfit as [-> | Hfit]; [left; unfold lens; simpl; lia | left; lia].
        * intros _ ->. cbn [is_nil] in E. rewrite andb_true_r in E. apply Nat.ltb_ge in E.
          unfold lens in Hnext. simpl in Hnext. lia. }
  destruct H2 as (cur2 & chunks3 & -> & Hc1 & Hw & Hne2).
  intro H. inversion H as [[Hl Hr]]. subst chunks'. clear H.
  destruct (dlb_spec cur2) as [[E Hlast] | (l & b & E1 & Hb & E)]; rewrite E.
  - exists d, cur2, []. cbn [app]. repeat split; auto.
    + now rewrite Hc, Hc1.
    + intros Hn Hx. apply app_eq_nil in Hx as [-> Hx]. rewrite app_nil_r in Hx. cbn [app] in Hc.
      apply Hne2; [congruence | exact Hx].
  - exists d, l, [b]. repeat split; auto.
    + rewrite Hc, Hc1, E1. now rewrite <- !app_assoc.
    + right. eauto.
    + intros _ Hx. apply app_eq_nil in Hx as [_ Hx]. apply app_eq_nil in Hx as [_ Hx]. discriminate.
    + destruct Hw as [Hw | (c & Hw)].
      * left. rewrite E1, lens_app in Hw. lia.
      * rewrite E1 in Hw. destruct l as [|y l]; [left; unfold lens; simpl; lia|].
        destruct l; discriminate.
Qed.

(* ---------------------------------------------------------------- the loop terminates within its fuel *)
Lemma wrap_step_decreases W indent fl chunks line chunks' :
  wrap_step W indent fl chunks = (line, chunks') -> chunks <> [] -> List.length chunks' < List.length chunks.
Proof.
  intros H Hne. apply wrap_step_spec in H as (d & cur3 & t & E & _ & _ & _ & Hp & _).
  specialize (Hp Hne). rewrite E. rewrite !app_assoc. rewrite app_length.
  destruct ((d ++ cur3) ++ t) eqn:X; [rewrite <- app_assoc in X; congruence|]. simpl. lia.
Qed.

Lemma wrap_chunks_fuel W ii si : forall fuel lines chunks,
  List.length chunks <= fuel -> wrap_chunks fuel W ii si lines chunks <> None.
Proof.
  induction fuel as [|fuel IH]; intros lines chunks Hl.
  - destruct chunks; [discriminate|simpl in Hl; lia].
  - destruct chunks as [|c rest]; [discriminate|].
    cbn [wrap_chunks].
    destruct (wrap_step W (if is_nil lines then ii else si) (is_nil lines) (c :: rest)) as [line chunks'] eqn:E.
    apply IH. apply wrap_step_decreases in E; [|discriminate]. simpl in *. lia.
Qed.

(* ---------------------------------------------------------------- the loop keeps the words *)
Lemma altk_nonempty : forall l k c, altk k l -> In c l -> c <> ""%string.
Proof.
  induction l as [|x l IH]; intros k c H Hin; [contradiction|].
  destruct H as [[Hx _] H]. destruct Hin as [<- | Hin]; [exact Hx | eapply IH; eauto].
Qed.

Lemma altk_suffix : forall pre k l, altk k (pre ++ l) -> exists k', altk k' l.
Proof.
  induction pre as [|x pre IH]; intros k l H; [eauto|]. destruct H as [_ H]. eapply IH; eauto.
Qed.

Lemma altk_adjacent : forall pre k x y post, altk k (pre ++ x :: y :: post) -> homog true x \/ homog true y.
Proof.
  induction pre as [|z pre IH]; intros k x y post H.
  - destruct H as [Hx [Hy _]]. destruct k; [now left | now right].
  - destruct H as [_ H]. eapply IH; eauto.
Qed.

Lemma blank_ws b : is_blank b = true -> sall ws b = true.
Proof. auto. Qed.

Lemma sepc_blank x : sepc x -> is_blank x = true.
Proof. now intros [_ H]. Qed.

Ltac seq := unfold nl1, s1; repeat (rewrite !sapp_assoc || rewrite !sapp_nil_r || (progress (cbn [append sconcat app]))); reflexivity.

Definition doc (lines chunks : list string) : string :=
  (sjoin nl1 lines ++ (if is_nil lines then "" else nl1) ++ sconcat chunks)%string.

Lemma sjoin_snoc sep lines l : lines <> [] -> sjoin sep (lines ++ [l]) = (sjoin sep lines ++ sep ++ l)%string.
Proof.
  induction lines as [|x lines IH]; intro H; [congruence|].
  destruct lines as [|y lines]; [reflexivity|].
  change (sjoin sep ((x :: y :: lines) ++ [l])) with (x ++ sep ++ sjoin sep ((y :: lines) ++ [l]))%string.
  rewrite IH by discriminate. change (sjoin sep (x :: y :: lines)) with (x ++ sep ++ sjoin sep (y :: lines))%string.
  now rewrite !sapp_assoc.
Qed.

(* the heart: after the chunks of a line, "the dropped blank chunk" and "a newline" are interchangeable *)
Lemma line_end_words k pre l x t rest P :
  altk k (pre ++ (l ++ [x]) ++ t ++ rest) ->
  ((t = [] /\ is_blank x = false) \/ (exists b, t = [b] /\ is_blank b = true)) ->
  pywords (P ++ sconcat (l ++ [x]) ++ sconcat t ++ sconcat rest)%string =
  pywords (P ++ sconcat (l ++ [x]) ++ nl1 ++ sconcat rest)%string.
Proof.
  intros Halt [[-> Hx] | (b & -> & Hb)].
  - destruct rest as [|y rest].
    + replace (P ++ sconcat (l ++ [x]) ++ sconcat [] ++ sconcat [])%string with (P ++ sconcat (l ++ [x]))%string by seq.
      replace (P ++ sconcat (l ++ [x]) ++ nl1 ++ sconcat [])%string with ((P ++ sconcat (l ++ [x])) ++ nl1)%string by seq.
      now rewrite (pywords_trail nl1).
    + assert (Hy : sepc y).
      { cbn [app] in Halt. rewrite <- app_assoc in Halt. cbn [app] in Halt.
        rewrite app_assoc in Halt. apply altk_adjacent in Halt as [Hh | Hh].
        - apply homog_true_sepc, sepc_blank in Hh. congruence.
        - now apply homog_true_sepc. }
      replace (P ++ sconcat (l ++ [x]) ++ sconcat [] ++ sconcat (y :: rest))%string
        with ((P ++ sconcat (l ++ [x])) ++ y ++ sconcat rest)%string by seq.
      replace (P ++ sconcat (l ++ [x]) ++ nl1 ++ sconcat (y :: rest))%string
        with ((P ++ sconcat (l ++ [x])) ++ (nl1 ++ y) ++ sconcat rest)%string by seq.
      apply pywords_app_weq. apply weq_sep; [exact Hy|]. apply sepc_app_r; [reflexivity | exact Hy].
  - assert (Hbs : sepc b).
    { split; [|now apply blank_ws]. eapply altk_nonempty; [exact Halt|].
      apply in_or_app. right. apply in_or_app. right. now left. }
    replace (P ++ sconcat (l ++ [x]) ++ sconcat [b] ++ sconcat rest)%string
      with ((P ++ sconcat (l ++ [x])) ++ b ++ sconcat rest)%string by seq.
    replace (P ++ sconcat (l ++ [x]) ++ nl1 ++ sconcat rest)%string
      with ((P ++ sconcat (l ++ [x])) ++ nl1 ++ sconcat rest)%string by seq.
    apply pywords_app_weq. apply weq_sep; [exact Hbs | exact sepc_nl1].
Qed.

Lemma is_nil_snoc {A} (l : list A) x : is_nil (l ++ [x]) = false.
Proof. destruct l; reflexivity. Qed.

Lemma step_words W indent lines k chunks line chunks' :
  altk k chunks -> sall ws indent = true ->
  wrap_step W indent (is_nil lines) chunks = (line, chunks') ->
  pywords (doc (match line with Some l => lines ++ [l] | None => lines end) chunks') = pywords (doc lines chunks).
Proof.
  intros Halt Hind H.
  apply wrap_step_spec in H as (d & cur3 & t & E & Hd & Ht & -> & _ & _).
  assert (HD : sall ws (sconcat d) = true).
  { destruct Hd as [-> | (_ & c & -> & Hc)]; [reflexivity|]. cbn [sconcat]. rewrite sapp_nil_r. now apply blank_ws. }
  assert (HT : sall ws (sconcat t) = true).
  { destruct Ht as [[-> _] | (b & -> & Hb)]; [reflexivity|]. cbn [sconcat]. rewrite sapp_nil_r. now apply blank_ws. }
  remember (sconcat chunks') as R eqn:ER.
  destruct cur3 as [|c0 cur3'] eqn:Ecur.
  - (* no line is produced *)
    cbn [is_nil]. unfold doc. rewrite <- ER.
    assert (Ech : sconcat chunks = (sconcat d ++ sconcat t ++ R)%string).
    { rewrite E, ER. cbn [app]. now rewrite !sconcat_app. }
    rewrite Ech.
    destruct lines as [|l0 lines'].
    + destruct Hd as [-> | (Hfl & _)]; [|discriminate].
      cbn [is_nil sjoin sconcat]. cbn [append].
      symmetry. now apply pywords_lead.
    + cbn [is_nil]. remember (sjoin nl1 (l0 :: lines')) as L.
      symmetry.
      transitivity (pywords (L ++ (nl1 ++ sconcat d ++ sconcat t) ++ R)%string); [f_equal; seq|].
      apply pywords_app_weq. apply weq_sep; [|exact sepc_nl1].
      apply sepc_app_l; [exact sepc_nl1|]. now rewrite sall_app, HD, HT.
  - (* a line is produced *)
    rewrite <- Ecur in *. assert (Hne : cur3 <> []) by (rewrite Ecur; discriminate).
    replace (is_nil cur3) with false by (rewrite Ecur; reflexivity).
    destruct (exists_last Hne) as (l & x & Ex).
    assert (Ht' : (t = [] /\ is_blank x = false) \/ (exists b, t = [b] /\ is_blank b = true)).
    { destruct Ht as [[-> [Hc | (l' & x' & Hc & Hx)]] | Hb]; [congruence | | now right].
      left. split; [reflexivity|]. rewrite Ex in Hc. apply app_inj_tail in Hc as [_ ->]. exact Hx. }
    clear Ecur Ht Hne. subst cur3. rewrite E in Halt.
    remember (sconcat (l ++ [x])) as A eqn:EA.
    assert (Ech : sconcat chunks = (sconcat d ++ A ++ sconcat t ++ R)%string).
    { rewrite E, ER, EA. now rewrite !sconcat_app. }
    unfold doc. rewrite <- ER, Ech. rewrite is_nil_snoc.
    destruct lines as [|l0 lines'].
    + destruct Hd as [-> | (Hfl & _)]; [|discriminate].
      cbn [is_nil sjoin app sconcat]. cbn [append].
      transitivity (pywords (indent ++ (A ++ nl1 ++ R))%string); [f_equal; seq|].
      rewrite (pywords_lead indent _ Hind).
      pose proof (line_end_words k [] l x t chunks' ""%string Halt Ht') as Hl.
      rewrite <- EA, <- ER in Hl. cbn [append] in Hl. now rewrite Hl.
    + cbn [is_nil]. rewrite sjoin_snoc by discriminate. remember (sjoin nl1 (l0 :: lines')) as L.
      pose proof (line_end_words k d l x t chunks' (L ++ nl1 ++ indent)%string Halt Ht') as Hl.
      rewrite <- EA, <- ER in Hl.
      transitivity (pywords ((L ++ nl1 ++ indent) ++ A ++ nl1 ++ R)%string); [f_equal; seq|].
      rewrite <- Hl.
      transitivity (pywords (L ++ (nl1 ++ indent) ++ (A ++ sconcat t ++ R))%string); [f_equal; seq|].
      transitivity (pywords (L ++ (nl1 ++ sconcat d) ++ (A ++ sconcat t ++ R))%string); [|f_equal; seq].
      apply pywords_app_weq. apply weq_sep; apply sepc_app_l; auto using sepc_nl1.
Qed.

Lemma wrap_chunks_words W ii si : sall ws ii = true -> sall ws si = true ->
  forall fuel lines chunks k out, altk k chunks ->
  wrap_chunks fuel W ii si lines chunks = Some out ->
  pywords (sjoin nl1 out) = pywords (doc lines chunks).
Proof.
  intros Hii Hsi. induction fuel as [|fuel IH]; intros lines chunks k out Halt H.
  - destruct chunks; [|discriminate]. inversion H; subst. unfold doc. cbn [sconcat]. rewrite sapp_nil_r.
    destruct out; [reflexivity|]. cbn [is_nil]. now rewrite (pywords_trail nl1).
  - destruct chunks as [|c rest].
    { inversion H; subst. unfold doc. cbn [sconcat]. rewrite sapp_nil_r.
      destruct out; [reflexivity|]. cbn [is_nil]. now rewrite (pywords_trail nl1). }
    cbn [wrap_chunks] in H.
    destruct (wrap_step W (if is_nil lines then ii else si) (is_nil lines) (c :: rest)) as [line chunks'] eqn:E.
    pose proof E as E2. apply wrap_step_spec in E2 as (d & cur3 & t & Ec & _).
    assert (Ha : exists k', altk k' chunks').
    { rewrite Ec in Halt. rewrite !app_assoc in Halt. eapply altk_suffix; eauto. }
    destruct Ha as (k' & Ha).
    rewrite (IH _ _ k' out Ha H).
    apply (step_words W (if is_nil lines then ii else si) lines k (c :: rest) line chunks' Halt); [destruct (is_nil lines); assumption | exact E].
Qed.

Theorem tw_wrap_words_preserved W ii si text out :
  sall ws ii = true -> sall ws si = true ->
  tw_wrap W ii si text = Some (Some out) -> pywords (sjoin nl1 out) = pywords text.
Proof.
  intros Hii Hsi H. unfold tw_wrap in H. destruct (W =? 0); [discriminate|]. inversion H as [H1]. clear H.
  destruct (split_chunks_alt (munge text)) as (k & Halt).
  rewrite (wrap_chunks_words W ii si Hii Hsi _ _ _ k out Halt H1).
  unfold doc. cbn [sjoin is_nil]. cbn [append]. rewrite split_chunks_concat.
  apply weq_pywords, munge_weq.
Qed.

Theorem tw_wrap_total W ii si text : tw_wrap W ii si text <> Some None.
Proof.
  unfold tw_wrap. destruct (W =? 0); [discriminate|]. intro H. inversion H as [H1].
  revert H1. apply wrap_chunks_fuel. lia.
Qed.

(* ---------------------------------------------------------------- the width bound *)
(* a line respects the width, or it is the indentation followed by one single chunk of the text *)
Definition line_ok (W : nat) (ii si : string) (all : list string) (line : string) : Prop :=
  String.length line <= W \/
  exists c, In c all /\ (line = (ii ++ c)%string \/ line = (si ++ c)%string).

Lemma wrap_chunks_width W ii si all : forall fuel lines chunks k out,
  altk k chunks -> incl chunks all ->
  wrap_chunks fuel W ii si lines chunks = Some out ->
  (forall l, In l lines -> line_ok W ii si all l) ->
  forall l, In l out -> line_ok W ii si all l.
Proof.
  induction fuel as [|fuel IH]; intros lines chunks k out Halt Hincl H Hlines.
  - destruct chunks; [|discriminate]. inversion H; subst. exact Hlines.
  - destruct chunks as [|c rest]; [inversion H; subst; exact Hlines|].
    cbn [wrap_chunks] in H.
    destruct (wrap_step W (if is_nil lines then ii else si) (is_nil lines) (c :: rest)) as [line chunks'] eqn:E.
    pose proof E as E2. apply wrap_step_spec in E2 as (d & cur3 & t & Ec & _ & _ & El & _ & Hw).
    assert (Ha : exists k', altk k' chunks').
    { rewrite Ec in Halt. rewrite !app_assoc in Halt. eapply altk_suffix; eauto. }
    destruct Ha as (k' & Ha).
    assert (Hin3 : forall x, In x cur3 -> In x (c :: rest)).
    { intros x Hx. rewrite Ec. apply in_or_app. right. apply in_or_app. now left. }
    apply (IH (match line with Some l => lines ++ [l] | None => lines end) chunks' k' out Ha); [| exact H |].
    + intros x Hx. apply Hincl. rewrite Ec. apply in_or_app. right. apply in_or_app. right. apply in_or_app. now right.
    + intros l Hl.
      destruct cur3 as [|c0 cur3'] eqn:Ecur; cbn [is_nil] in El; subst line; [now apply Hlines|].
      apply in_app_or in Hl as [Hl | [<- | []]]; [now apply Hlines|].
      set (indent := if is_nil lines then ii else si).
      destruct Hw as [Hw | (c1 & Hc1)].
      * left. rewrite length_app. fold (lens (c0 :: cur3')).
        assert (Hc0 : c0 <> ""%string) by (eapply altk_nonempty; [exact Halt | apply Hin3; now left]).
        rewrite lens_cons in *. assert (1 <= String.length c0) by (destruct c0; [congruence | simpl; lia]). unfold indent. lia.
      * inversion Hc1; subst. right. exists c1. split; [apply Hincl, Hin3; now left|].
        cbn [sconcat]. rewrite sapp_nil_r. unfold indent. destruct (is_nil lines); auto.
Qed.

Theorem tw_wrap_width_bound W ii si text out :
  tw_wrap W ii si text = Some (Some out) ->
  forall line, In line out -> line_ok W ii si (split_chunks (munge text)) line.
Proof.
  intros H. unfold tw_wrap in H. destruct (W =? 0); [discriminate|]. inversion H as [H1]. clear H.
  destruct (split_chunks_alt (munge text)) as (k & Halt).
  apply (wrap_chunks_width W ii si _ _ [] _ k out Halt (incl_refl _) H1). intros l [].
Qed.

(* the chunks of a text are its maximal runs of whitespace / of non-whitespace: a chunk that is not a
   separator contains no textwrap whitespace, i.e. it cannot be broken *)
Lemma altk_homog : forall l k c, altk k l -> In c l -> homog true c \/ homog false c.
Proof.
  induction l as [|x l IH]; intros k c H Hin; [contradiction|]. destruct H as [Hx H].
  destruct Hin as [<- | Hin]; [destruct k; auto | eapply IH; eauto].
Qed.

Lemma chunk_unbreakable text c : In c (split_chunks (munge text)) ->
  sepc c \/ (c <> ""%string /\ sall (fun x => negb (is_twspace x)) c = true).
Proof.
  intro Hin. destruct (split_chunks_alt (munge text)) as (k & Halt).
  destruct (altk_homog _ k c Halt Hin) as [H | [Hne H]]; [left; now apply homog_true_sepc|].
  right. split; [exact Hne|]. clear Hne Hin. induction c as [|x c IH]; [reflexivity|].
  simpl in *. apply andb_true_iff in H as [Hx H]. rewrite (IH H). apply Bool.eqb_prop in Hx. now rewrite Hx.
Qed.
