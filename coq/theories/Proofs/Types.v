(* Proofs/Types.v — lemmas for C02 *)
From GV Require Import Base.Str Gen.Kw Model.Reserved Proofs.Reserved Model.Types.
From Coq Require Import ZArith Lia.
Local Open Scope string_scope.

(* ------------------------------------------------------------------ induction over nested messages *)
Section MsgInd.
  Variable P : msgD -> Prop.
  Hypothesis Hm : forall n fs os ns es b, Forall P ns -> P (Msg n fs os ns es b).
  Fixpoint msgD_ind' (m : msgD) : P m :=
    match m with
    | Msg n fs os ns es b =>
        Hm n fs os ns es b
           ((fix go (l : list msgD) : Forall P l :=
               match l with
               | [] => Forall_nil P
               | x :: l' => Forall_cons x (msgD_ind' x) (go l')
               end) ns)
    end.
End MsgInd.

(* ------------------------------------------------------------------ small facts *)
Lemma nodup_str_NoDup l : nodup_str l = true <-> NoDup l.
Proof.
  induction l as [|x l IH]; simpl.
  - split; [constructor | reflexivity].
  - rewrite andb_true_iff, negb_true_iff, IH. split.
    + intros [Hx Hl]. constructor; [|assumption]. intro Hin. apply mem_str_In in Hin. congruence.
    + intro H. inversion H as [|? ? Hx Hl]; subst. split; [|assumption].
      destruct (mem_str x l) eqn:E; [|reflexivity]. apply mem_str_In in E. contradiction.
Qed.

Lemma sapp_inj_l (a b c : string) : a ++ b = a ++ c -> b = c.
Proof. induction a as [|x a IH]; simpl; intro H; [assumption|]. inversion H. auto. Qed.

Lemma string_eqb_sym (a b : string) : String.eqb a b = String.eqb b a.
Proof.
  destruct (String.eqb a b) eqn:E.
  - apply String.eqb_eq in E. subst. symmetry. apply String.eqb_refl.
  - destruct (String.eqb b a) eqn:E'; [|reflexivity]. apply String.eqb_eq in E'. subst. rewrite String.eqb_refl in E. discriminate.
Qed.

Lemma mem_str_false_notin x l : mem_str x l = false <-> ~ In x l.
Proof.
  split.
  - intros H Hin. apply mem_str_In in Hin. congruence.
  - intro H. destruct (mem_str x l) eqn:E; [|reflexivity]. apply mem_str_In in E. contradiction.
Qed.

Lemma option_eqb_string_eq (a : option string) (b : string) : option_eqb String.eqb a (Some b) = true -> a = Some b.
Proof. destruct a as [s|]; simpl; [|discriminate]. intro H. apply String.eqb_eq in H. now subst. Qed.

(* ------------------------------------------------------------------ the attribute; _get_fields on distinct attributes *)
Lemma emit_field_attr api names at_ os ns f : d_attr (emit_field api names at_ os ns f) = field_attr (f_name f).
Proof. unfold emit_field. destruct (entry_of at_ ns f) as [[k v]|]; reflexivity. Qed.

Lemma upsert_fresh d l : ~ In (d_attr d) (map d_attr l) -> upsert d l = (l ++ [d])%list.
Proof.
  induction l as [|x l IH]; simpl; intro H; [reflexivity|].
  destruct (String.eqb (d_attr x) (d_attr d)) eqn:E.
  - apply String.eqb_eq in E. exfalso. apply H. now left.
  - rewrite IH; [reflexivity|]. intro Hin. apply H. now right.
Qed.

Lemma fold_upsert_nodup l : forall acc, NoDup (map d_attr (acc ++ l)%list) ->
  fold_left (fun a d => upsert d a) l acc = (acc ++ l)%list.
Proof.
  induction l as [|d l IH]; intros acc H; simpl.
  - now rewrite app_nil_r.
  - rewrite upsert_fresh.
    + rewrite IH; [now rewrite <- app_assoc|]. now rewrite <- app_assoc.
    + rewrite map_app in H. simpl in H. apply NoDup_remove_2 in H. intro Hin. apply H. apply in_or_app. now left.
Qed.

Lemma dict_fields_nodup l : NoDup (map d_attr l) -> dict_fields l = l.
Proof. intro H. unfold dict_fields. now rewrite fold_upsert_nodup. Qed.

Lemma emit_fields_attrs api names at_ os ns fs :
  map d_attr (map (emit_field api names at_ os ns) fs) = map (fun f => field_attr (f_name f)) fs.
Proof. rewrite map_map. apply map_ext. intro f. apply emit_field_attr. Qed.

(* attr_name_spec: the attributes of the emitted class are, in order, the proto names with exactly one underscore appended
   iff the name is reserved *)
Lemma attr_name_spec api names pkg module parent n fs os ns es b :
  nodup_str (map (fun f => field_attr (f_name f)) fs) = true ->
  exists body decls, emit_msg api names pkg module parent (Msg n fs os ns es b) = DMsg n body decls
    /\ map d_attr decls = map (fun f => field_attr (f_name f)) fs
    /\ forall w, (reserved w = true -> field_attr w = w ++ "_") /\ (reserved w = false -> field_attr w = w).
Proof.
  intro H. simpl. eexists. eexists. split; [reflexivity|]. split.
  - rewrite dict_fields_nodup; [apply emit_fields_attrs|]. rewrite emit_fields_attrs. now apply nodup_str_NoDup.
  - intro w. unfold field_attr. split; intro R; now rewrite R.
Qed.

Lemma emitted_json_name api names at_ os ns f :
  to_json_name (d_attr (emit_field api names at_ os ns f)) = to_json_name (f_name f).
Proof. rewrite emit_field_attr. apply json_name_invariant. Qed.

(* ------------------------------------------------------------------ manifest *)
Lemma emit_msg_name api names pkg module parent m : decl_name (emit_msg api names pkg module parent m) = m_name m.
Proof. destruct m; reflexivity. Qed.

Lemma manifest_complete api f :
  map decl_name (emit_file api f) = h_manifest (emit_header api f).
Proof.
  unfold emit_file, emit_header. simpl. rewrite map_app, !map_map. f_equal.
  apply map_ext. intro m. apply emit_msg_name.
Qed.

(* ------------------------------------------------------------------ runtime: enums, sequences *)
Lemma code_of_ptype t : code_of_name (ptype_of t) = Some (type_code t).
Proof. destruct t as [s|k a]; [destruct s; reflexivity | destruct k; reflexivity]. Qed.

Lemma kind_of_kw_of k : kind_of_kw (kw_of k) = Some k.
Proof. destruct k; reflexivity. Qed.

Lemma rt_enum_ok e : enum_ok e = true -> rt_enum (e_name e) (e_values e) = Some (enum_view e).
Proof.
  unfold enum_ok, rt_enum, enum_view. destruct (sort_vals (e_values e)) as [|[x z] l] eqn:E; [discriminate|].
  destruct z; try discriminate. reflexivity.
Qed.

Lemma rt_seq_app f l1 l2 :
  rt_seq f (l1 ++ l2)%list =
  match rt_seq f l1, rt_seq f l2 with
  | Some (e1, m1), Some (e2, m2) => Some ((e1 ++ e2)%list, (m1 ++ m2)%list)
  | _, _ => None
  end.
Proof.
  induction l1 as [|x l1 IH]; simpl.
  - destruct (rt_seq f l2) as [[e m]|]; reflexivity.
  - rewrite IH. destruct (f x) as [[e m]|]; [|reflexivity].
    destruct (rt_seq f l1) as [[e1 m1]|]; [|reflexivity].
    destruct (rt_seq f l2) as [[e2 m2]|]; [|reflexivity].
    now rewrite !app_assoc.
Qed.

Lemma rt_seq_enums tab pkg ltypes globals full es :
  forallb enum_ok es = true ->
  rt_seq (rt_msg tab pkg ltypes globals full) (map emit_enum es) = Some (map enum_view es, []).
Proof.
  induction es as [|e es IH]; simpl; intro H; [reflexivity|].
  apply andb_true_iff in H as [He Hes]. rewrite (rt_enum_ok e He). rewrite (IH Hes). reflexivity.
Qed.

(* ------------------------------------------------------------------ runtime: fields *)
Definition entry_for (full : string) (at_ : addr) (ns : list msgD) (f : fieldD) : list rmsg :=
  match entry_of at_ ns f with
  | Some (k, v) => [RMsg (entry_name (field_attr (f_name f)))
                         [mkRF "key" 1 1 (type_code k) "" None false; mkRF "value" 2 1 (type_code v) (type_tname v) None false]
                         [] [] [] true]
  | None => []
  end.

Definition emitted_oneof (os : list string) (f : fieldD) : option string :=
  if f_opt f then None else match f_oneof f with Some i => nth_error os i | None => None end.

Definition rf_matches (full : string) (real : list string) (at_ : addr) (os : list string) (ns : list msgD)
                      (f : fieldD) (rf : rfield) : Prop :=
  match entry_of at_ ns f with
  | Some _ => rf = mkRF (field_attr (f_name f)) (f_number f) 3 11 (full ++ "." ++ entry_name (field_attr (f_name f))) None false
  | None => rf_name rf = field_attr (f_name f) /\ rf_number rf = f_number f
            /\ rf_label rf = (if f_repeated f then 3 else 1) /\ rf_type rf = type_code (f_type f)
            /\ rf_tname rf = type_tname (f_type f) /\ rf_p3 rf = f_opt f
            /\ (f_opt f = false -> rf_oneof rf = match emitted_oneof os f with Some n => index_of n real | None => None end)
  end.

Lemma resolve_of_ref_ok api names tab ltypes globals pkgs at_ ns locals f :
  field_ref_ok api names tab ltypes globals pkgs at_ ns locals f = true ->
  resolve tab pkgs ltypes locals globals
          (ref_of api names at_ (match entry_of at_ ns f with Some (_, v) => v | None => f_type f end))
  = Some (type_tname (match entry_of at_ ns f with Some (_, v) => v | None => f_type f end)).
Proof. unfold field_ref_ok. intro H. now apply option_eqb_string_eq in H. Qed.

Lemma emit_field_optional api names at_ os ns f :
  d_optional (emit_field api names at_ os ns f) = match entry_of at_ ns f with Some _ => false | None => f_opt f end.
Proof. unfold emit_field. destruct (entry_of at_ ns f) as [[k v]|]; reflexivity. Qed.

Lemma rt_field_emit api names tab ltypes globals pkgs full real at_ os ns locals k f :
  field_ref_ok api names tab ltypes globals pkgs at_ ns locals f = true ->
  rt_field tab pkgs ltypes globals full real locals k (emit_field api names at_ os ns f) =
  match entry_of at_ ns f with
  | Some _ => Some (mkRF (field_attr (f_name f)) (f_number f) 3 11 (full ++ "." ++ entry_name (field_attr (f_name f))) None false,
                    entry_for full at_ ns f)
  | None => Some (mkRF (field_attr (f_name f)) (f_number f) (if f_repeated f then 3 else 1) (type_code (f_type f))
                       (type_tname (f_type f))
                       (if f_opt f then Some (length real + k)
                        else match emitted_oneof os f with Some n => index_of n real | None => None end)
                       (f_opt f), [])
  end.
Proof.
  intro Hf. pose proof (resolve_of_ref_ok _ _ _ _ _ _ _ _ _ _ Hf) as Hr.
  unfold rt_field, emit_field, entry_for, emitted_oneof.
  destruct (entry_of at_ ns f) as [[kt vt]|] eqn:E; cbn [d_ref d_ptype d_kind d_attr d_number d_optional d_oneof].
  - rewrite Hr, !code_of_ptype. reflexivity.
  - rewrite Hr, code_of_ptype. destruct (f_repeated f); destruct (f_opt f); reflexivity.
Qed.

Lemma rt_fields_emit api names tab ltypes globals pkgs full real at_ os ns :
  forall fs locals k,
    fields_ref_ok api names tab ltypes globals pkgs at_ ns locals fs = true ->
    exists rfs, rt_fields tab pkgs ltypes globals full real locals k (map (emit_field api names at_ os ns) fs)
                = Some (rfs, flat_map (entry_for full at_ ns) fs)
                /\ Forall2 (rf_matches full real at_ os ns) fs rfs.
Proof.
  induction fs as [|f fs IH]; intros locals k H.
  - exists []. split; [reflexivity | constructor].
  - simpl in H. apply andb_true_iff in H as [Hf Hfs].
    cbn [map rt_fields flat_map]. rewrite (rt_field_emit _ _ _ _ _ _ _ _ _ _ _ _ k _ Hf).
    rewrite emit_field_attr, emit_field_optional.
    destruct (entry_of at_ ns f) as [[kt vt]|] eqn:E.
    + destruct (IH ((field_attr (f_name f), PVOther) :: locals) k Hfs) as (rfs & Hrt & Hall).
      rewrite Hrt. eexists. split; [reflexivity|]. constructor; [|exact Hall]. unfold rf_matches. rewrite E. reflexivity.
    + destruct (IH ((field_attr (f_name f), PVOther) :: locals) (if f_opt f then S k else k) Hfs) as (rfs & Hrt & Hall).
      assert (He : entry_for full at_ ns f = []) by (unfold entry_for; now rewrite E).
      rewrite Hrt, He. eexists. split; [reflexivity|]. constructor; [|exact Hall]. unfold rf_matches. rewrite E. cbn.
      repeat split; try reflexivity. intro Ho. rewrite Ho. reflexivity.
Qed.

(* ------------------------------------------------------------------ oneofs *)
Lemma index_of_In x l : In x l -> exists i, index_of x l = Some i.
Proof.
  induction l as [|y l IH]; simpl; [contradiction|]. intro H.
  destruct (String.eqb x y) eqn:E; [eauto|].
  destruct H as [H|H]; [subst; rewrite String.eqb_refl in E; discriminate|].
  destruct (IH H) as (i & Hi). rewrite Hi. eauto.
Qed.

Lemma index_of_nth x l l' : forall i, index_of x l = Some i -> nth_error (l ++ l')%list i = Some x.
Proof.
  induction l as [|y l IH]; simpl; intros i H; [discriminate|].
  destruct (String.eqb x y) eqn:E.
  - inversion H; subst. apply String.eqb_eq in E. now subst.
  - destruct (index_of x l) as [j|] eqn:Ej; [|discriminate]. inversion H; subst. simpl. now apply IH.
Qed.

Lemma real_oneofs_acc fs : forall acc n, In n acc -> In n (real_oneofs fs acc).
Proof.
  induction fs as [|d fs IH]; simpl; intros acc n H; [assumption|].
  destruct (d_oneof d) as [m|]; [|now apply IH]. apply IH.
  destruct (mem_str m acc); [assumption | apply in_or_app; now left].
Qed.

Lemma real_oneofs_complete fs : forall acc d n, In d fs -> d_oneof d = Some n -> In n (real_oneofs fs acc).
Proof.
  induction fs as [|x fs IH]; simpl; intros acc d n Hin Hn; [contradiction|].
  destruct Hin as [->|Hin].
  - rewrite Hn. apply real_oneofs_acc. destruct (mem_str n acc) eqn:E; [now apply mem_str_In | apply in_or_app; right; now left].
  - destruct (d_oneof x); eapply IH; eauto.
Qed.

(* ------------------------------------------------------------------ finding the entry of a map field *)
Lemma find_app {A} (p : A -> bool) l1 l2 : find p (l1 ++ l2)%list = match find p l1 with Some x => Some x | None => find p l2 end.
Proof. induction l1 as [|x l1 IH]; simpl; [reflexivity|]. destruct (p x); [reflexivity | apply IH]. Qed.

Lemma find_none_forall {A} (p : A -> bool) l : (forall x, In x l -> p x = false) -> find p l = None.
Proof.
  induction l as [|x l IH]; simpl; intro H; [reflexivity|]. rewrite (H x (or_introl eq_refl)). apply IH. intros y Hy. apply H. now right.
Qed.

Lemma map_attrs_cons at_ ns f fs :
  map_attrs at_ ns (f :: fs) = ((match entry_of at_ ns f with Some _ => [field_attr (f_name f)] | None => [] end) ++ map_attrs at_ ns fs)%list.
Proof. reflexivity. Qed.

Lemma map_attrs_In at_ ns fs f kv : In f fs -> entry_of at_ ns f = Some kv -> In (field_attr (f_name f)) (map_attrs at_ ns fs).
Proof.
  intros Hin E. unfold map_attrs. apply in_flat_map. exists f. split; [assumption|]. rewrite E. now left.
Qed.

Lemma find_entry_flat full at_ ns : forall fs f k v,
  NoDup (map entry_name (map_attrs at_ ns fs)) -> In f fs -> entry_of at_ ns f = Some (k, v) ->
  find (fun e => rm_map_entry e && String.eqb (full ++ "." ++ entry_name (field_attr (f_name f))) (full ++ "." ++ rm_name e))
       (flat_map (entry_for full at_ ns) fs)
  = Some (RMsg (entry_name (field_attr (f_name f)))
               [mkRF "key" 1 1 (type_code k) "" None false; mkRF "value" 2 1 (type_code v) (type_tname v) None false] [] [] [] true).
Proof.
  induction fs as [|g fs IH]; intros f k v Hnd Hin E; [contradiction|].
  rewrite map_attrs_cons in Hnd. cbn [flat_map].
  destruct Hin as [->|Hin].
  - unfold entry_for at 1. rewrite E. cbn. rewrite String.eqb_refl. reflexivity.
  - unfold entry_for at 1. destruct (entry_of at_ ns g) as [[kg vg]|] eqn:Eg.
    + cbn [app map] in Hnd. inversion Hnd as [|? ? Hnot Hnd']; subst.
      cbn [app find rm_map_entry rm_name andb].
      destruct (String.eqb (full ++ "." ++ entry_name (field_attr (f_name f))) (full ++ "." ++ entry_name (field_attr (f_name g)))) eqn:Eq.
      * apply String.eqb_eq in Eq. apply sapp_inj_l in Eq. apply (sapp_inj_l ".") in Eq.
        exfalso. apply Hnot. rewrite <- Eq. apply in_map. eapply map_attrs_In; eauto.
      * eapply IH; eauto.
    + cbn [app] in *. eapply IH; eauto.
Qed.

Lemma find_entry_none full at_ ns fs tn :
  ~ In tn (map (fun a => full ++ "." ++ entry_name a) (map_attrs at_ ns fs)) ->
  find (fun e => rm_map_entry e && String.eqb tn (full ++ "." ++ rm_name e)) (flat_map (entry_for full at_ ns) fs) = None.
Proof.
  intro H. apply find_none_forall. intros e He. apply in_flat_map in He as (g & Hg & He).
  unfold entry_for in He. destruct (entry_of at_ ns g) as [[k v]|] eqn:E; [|contradiction].
  destruct He as [<-|[]]. cbn. destruct (String.eqb tn _) eqn:Eq; [|reflexivity].
  apply String.eqb_eq in Eq. exfalso. apply H. rewrite Eq.
  apply (in_map (fun a => full ++ "." ++ entry_name a)). eapply map_attrs_In; eauto.
Qed.

(* ------------------------------------------------------------------ the view of one runtime field *)
Lemma field_view_agrees full at_ os ns fs rs real synth f rf :
  NoDup (map entry_name (map_attrs at_ ns fs)) ->
  existsb (entry_clash full at_ ns fs) fs = false ->
  Forall (fun r => rm_map_entry r = false) rs ->
  (forall n, emitted_oneof os f = Some n -> entry_of at_ ns f = None -> In n real) ->
  In f fs ->
  rf_matches full real at_ os ns f rf ->
  field_view_rt full (real ++ synth)%list (rs ++ flat_map (entry_for full at_ ns) fs)%list rf = field_view_in at_ os ns f.
Proof.
  intros Hnd Hclash Hrs Hreal Hin Hm. unfold rf_matches in Hm. unfold field_view_rt, field_view_in, find_entry.
  assert (Hrs' : forall tn, find (fun e => rm_map_entry e && String.eqb tn (full ++ "." ++ rm_name e)) rs = None).
  { intro tn. apply find_none_forall. intros x Hx. rewrite Forall_forall in Hrs. now rewrite (Hrs x Hx). }
  destruct (entry_of at_ ns f) as [[k v]|] eqn:E.
  - subst rf. cbn [rf_type rf_label rf_tname rf_name rf_number Nat.eqb andb]. rewrite find_app, Hrs'.
    rewrite (find_entry_flat full at_ ns fs f k v Hnd Hin E). reflexivity.
  - destruct Hm as (Hn & Hnum & Hl & Ht & Htn & Hp & Ho).
    assert (Hnone : (if Nat.eqb (rf_type rf) 11 && Nat.eqb (rf_label rf) 3
                     then find (fun e => rm_map_entry e && String.eqb (rf_tname rf) (full ++ "." ++ rm_name e))
                               (rs ++ flat_map (entry_for full at_ ns) fs)%list else None) = None).
    { destruct (Nat.eqb (rf_type rf) 11 && Nat.eqb (rf_label rf) 3) eqn:Ec; [|reflexivity].
      rewrite find_app, Hrs'. apply find_entry_none.
      apply andb_true_iff in Ec as [_ El]. rewrite Hl in El. destruct (f_repeated f) eqn:Rp; [|discriminate].
      rewrite Htn. apply mem_str_false_notin.
      destruct (mem_str (type_tname (f_type f)) (map (fun a => full ++ "." ++ entry_name a) (map_attrs at_ ns fs))) eqn:Em; [|reflexivity].
      exfalso. assert (Hex : existsb (entry_clash full at_ ns fs) fs = true).
      { apply existsb_exists. exists f. split; [assumption|]. unfold entry_clash. now rewrite E, Rp, Em. }
      congruence. }
    rewrite Hnone. rewrite Hn, Hnum, Ht, Htn, Hl, Hp. f_equal.
    + now destruct (f_repeated f).
    + destruct (f_opt f) eqn:Op; [reflexivity|]. rewrite (Ho eq_refl). unfold emitted_oneof in *. rewrite Op in *.
      destruct (match f_oneof f with Some i => nth_error os i | None => None end) as [n|] eqn:En; [|reflexivity].
      destruct (index_of_In n real (Hreal n eq_refl eq_refl)) as (i & Hi). rewrite Hi. now apply index_of_nth.
Qed.

Lemma fields_view_agree full at_ os ns fs rs real synth :
  NoDup (map entry_name (map_attrs at_ ns fs)) ->
  existsb (entry_clash full at_ ns fs) fs = false ->
  Forall (fun r => rm_map_entry r = false) rs ->
  (forall f n, In f fs -> emitted_oneof os f = Some n -> entry_of at_ ns f = None -> In n real) ->
  forall sub rfs, incl sub fs -> Forall2 (rf_matches full real at_ os ns) sub rfs ->
  map (field_view_rt full (real ++ synth)%list (rs ++ flat_map (entry_for full at_ ns) fs)%list) rfs
  = map (field_view_in at_ os ns) sub.
Proof.
  intros Hnd Hc Hrs Hreal sub rfs Hincl H. induction H as [|f rf sub rfs Hm H IH]; [reflexivity|].
  simpl. f_equal.
  - assert (Hin : In f fs) by (apply Hincl; now left).
    apply field_view_agrees; [exact Hnd | exact Hc | exact Hrs | intros n Ho Ee; eapply Hreal; eauto | exact Hin | exact Hm].
  - apply IH. intros x Hx. apply Hincl. now right.
Qed.

(* ------------------------------------------------------------------ scopes built from the emitted body = in_locals *)
Lemma map_non_entry_names api names pkg module parent ns :
  map decl_name (map_non_entry (emit_msg api names pkg module parent) ns)
  = map m_name (filter (fun x => negb (m_map_entry x)) ns).
Proof.
  induction ns as [|x ns IH]; simpl; [reflexivity|].
  destruct (m_map_entry x); simpl; [assumption|]. rewrite IH. f_equal. destruct x; reflexivity.
Qed.

Lemma body_locals_emit api names pkg module parent full n fs os ns es b :
  body_locals full (map emit_enum es ++ map_non_entry (emit_msg api names pkg module parent) ns)%list
  = in_locals full (Msg n fs os ns es b).
Proof.
  unfold body_locals, in_locals. f_equal. rewrite <- (map_map decl_name (fun s => (s, PVType (full ++ "." ++ s)))).
  f_equal. rewrite map_app, map_non_entry_names. cbn [m_enums m_nested]. f_equal.
  rewrite map_map. reflexivity.
Qed.

(* ------------------------------------------------------------------ decl_roundtrip *)
Definition roundtrip_at (api : apiD) (names : list string) (tab : modtab) (ltypes : typeset) (globals : scope)
                        (pkg : list string) (module : string) (m : msgD) : Prop :=
  forall prefix parent,
    wf_msg pkg module prefix parent m = true ->
    refs_ok api names tab ltypes globals pkg module prefix parent m = true ->
    exists r, rt_msg tab (dotted pkg) ltypes globals prefix (emit_msg api names pkg module parent m) = Some ([], [r])
              /\ view_rt prefix r = view_in pkg module parent m
              /\ rm_map_entry r = false.

Lemma nested_roundtrip api names tab ltypes globals pkg module full parent ns :
  Forall (roundtrip_at api names tab ltypes globals pkg module) ns ->
  all_non_entry (wf_msg pkg module full parent) ns = true ->
  all_non_entry (refs_ok api names tab ltypes globals pkg module full parent) ns = true ->
  exists rs, rt_seq (rt_msg tab (dotted pkg) ltypes globals full) (map_non_entry (emit_msg api names pkg module parent) ns) = Some ([], rs)
             /\ map_non_entry_r (view_rt full) rs = map_non_entry (view_in pkg module parent) ns
             /\ Forall (fun r => rm_map_entry r = false) rs.
Proof.
  induction 1 as [|x ns Hx Hns IH]; intros Hwf Hrefs.
  - exists []. repeat split; constructor.
  - cbn [all_non_entry] in Hwf, Hrefs. cbn [map_non_entry].
    change ((fix go (l : list msgD) : bool := match l with [] => true | x :: l' => (if m_map_entry x then true else wf_msg pkg module full parent x) && go l' end) ns)
      with (all_non_entry (wf_msg pkg module full parent) ns) in Hwf.
    change ((fix go (l : list msgD) : bool := match l with [] => true | x :: l' => (if m_map_entry x then true else refs_ok api names tab ltypes globals pkg module full parent x) && go l' end) ns)
      with (all_non_entry (refs_ok api names tab ltypes globals pkg module full parent) ns) in Hrefs.
    apply andb_true_iff in Hwf as [Hwx Hwns]. apply andb_true_iff in Hrefs as [Hrx Hrns].
    destruct (IH Hwns Hrns) as (rs & Hseq & Hview & Hall).
    change ((fix go (l : list msgD) : list decl := match l with [] => [] | x :: l' => if m_map_entry x then go l' else emit_msg api names pkg module parent x :: go l' end) ns)
      with (map_non_entry (emit_msg api names pkg module parent) ns).
    change ((fix go (l : list msgD) : list mview := match l with [] => [] | x :: l' => if m_map_entry x then go l' else view_in pkg module parent x :: go l' end) ns)
      with (map_non_entry (view_in pkg module parent) ns).
    destruct (m_map_entry x) eqn:Me.
    + exists rs. auto.
    + destruct (Hx full parent Hwx Hrx) as (r & Hr & Hv & Hme).
      exists (r :: rs). cbn [rt_seq].
      change ((fix go (l : list decl) : option (list renum * list rmsg) := match l with [] => Some ([], []) | x :: l' => match rt_msg tab (dotted pkg) ltypes globals full x, go l' with Some (es, ms), Some (es', ms') => Some ((es ++ es')%list, (ms ++ ms')%list) | _, _ => None end end) (map_non_entry (emit_msg api names pkg module parent) ns))
        with (rt_seq (rt_msg tab (dotted pkg) ltypes globals full) (map_non_entry (emit_msg api names pkg module parent) ns)).
      rewrite Hr, Hseq. split; [reflexivity|]. split.
      * cbn [map_non_entry_r]. rewrite Hme.
        change ((fix go (l : list rmsg) : list mview := match l with [] => [] | x :: l' => if rm_map_entry x then go l' else view_rt full x :: go l' end) rs)
          with (map_non_entry_r (view_rt full) rs).
        now rewrite Hv, Hview.
      * constructor; assumption.
Qed.

Lemma non_entry_r_skip_entries {B} (f : rmsg -> B) full at_ ns rs l :
  map_non_entry_r f (rs ++ flat_map (entry_for full at_ ns) l)%list = map_non_entry_r f rs.
Proof.
  induction rs as [|r rs IHr]; cbn.
  - induction l as [|g l IHl]; [reflexivity|]. cbn [flat_map]. unfold entry_for at 1.
    destruct (entry_of at_ ns g) as [[k v]|]; cbn; assumption.
  - destruct (rm_map_entry r); [apply IHr | f_equal; apply IHr].
Qed.

Theorem decl_roundtrip api names tab ltypes globals pkg module m :
  roundtrip_at api names tab ltypes globals pkg module m.
Proof.
  induction m as [n fs os ns es b IHns] using msgD_ind'. intros prefix parent Hwf Hrefs.
  cbn [wf_msg] in Hwf. cbn [refs_ok] in Hrefs.
  set (at_ := mkAddr pkg module parent n) in *. set (full := prefix ++ "." ++ n) in *.
  apply andb_true_iff in Hwf as [Hwf Hwns]. apply andb_true_iff in Hwf as [Hwf Henums].
  apply andb_true_iff in Hwf as [Hwf Hclash]. apply andb_true_iff in Hwf as [Hattrs Hentries].
  apply negb_true_iff in Hclash.
  apply andb_true_iff in Hrefs as [Hrf Hrns].
  apply nodup_str_NoDup in Hattrs. apply nodup_str_NoDup in Hentries.
  destruct (nested_roundtrip api names tab ltypes globals pkg module full (parent ++ [n])%list ns IHns Hwns Hrns)
    as (rs & Hseq & Hview & Hall).
  cbn [emit_msg]. fold at_.
  rewrite dict_fields_nodup by (now rewrite emit_fields_attrs).
  cbn [rt_msg]. fold full.
  rewrite rt_seq_app, (rt_seq_enums _ _ _ _ _ _ Henums), Hseq. cbn [app].
  rewrite (body_locals_emit api names pkg module (parent ++ [n])%list full n fs os ns es b).
  destruct (rt_fields_emit api names tab ltypes globals (dotted pkg) full
              (real_oneofs (map (emit_field api names at_ os ns) fs) []) at_ os ns fs
              (in_locals full (Msg n fs os ns es b)) 0 Hrf) as (rfs & Hrt & Hmatch).
  rewrite Hrt. rewrite app_nil_r.
  eexists. split; [reflexivity|]. split; [|reflexivity].
  cbn [view_rt view_in]. fold full. fold at_. f_equal.
  - eapply fields_view_agree with (sub := fs); eauto.
    + intros f nm Hin Ho Ee.
      eapply real_oneofs_complete with (d := emit_field api names at_ os ns f).
      * now apply in_map.
      * unfold emit_field. rewrite Ee. cbn. exact Ho.
    + apply incl_refl.
  - rewrite non_entry_r_skip_entries. exact Hview.
Qed.

(* ------------------------------------------------------------------ file level *)
Lemma rt_top_enums tab pkgs ltypes es : forall g rest,
  forallb enum_ok es = true ->
  rt_top tab pkgs ltypes g (map emit_enum es ++ rest)%list =
  match rt_top tab pkgs ltypes (enum_globals pkgs es g) rest with
  | Some (e, m) => Some ((map enum_view es ++ e)%list, m)
  | None => None
  end.
Proof.
  induction es as [|x es IH]; intros g rest H; cbn [map app enum_globals fold_left].
  - destruct (rt_top tab pkgs ltypes g rest) as [[e m]|]; reflexivity.
  - cbn [forallb] in H. apply andb_true_iff in H as [Hx Hes].
    cbn [rt_top rt_msg emit_enum decl_name]. rewrite (rt_enum_ok x Hx).
    rewrite (IH _ rest Hes). unfold enum_globals.
    destruct (rt_top tab pkgs ltypes _ rest) as [[e m]|]; reflexivity.
Qed.

Lemma rt_top_msgs api names tab ltypes pkg module : forall ms g,
  msgs_ok api names tab ltypes pkg module g ms = true ->
  exists rs, rt_top tab (dotted pkg) ltypes g (map (emit_msg api names pkg module []) ms) = Some ([], rs)
             /\ map (view_rt (dotted pkg)) rs = map (view_in pkg module []) ms.
Proof.
  induction ms as [|m ms IH]; intros g H.
  - exists []. split; reflexivity.
  - cbn [msgs_ok] in H. apply andb_true_iff in H as [H Hms]. apply andb_true_iff in H as [Hwf Hrefs].
    destruct (decl_roundtrip api names tab ltypes g pkg module m (dotted pkg) [] Hwf Hrefs) as (r & Hr & Hv & _).
    cbn [map rt_top]. rewrite Hr, emit_msg_name.
    destruct (IH _ Hms) as (rs & Hrs & Hvs). rewrite Hrs.
    exists (r :: rs). split; [reflexivity|]. cbn [map]. now rewrite Hv, Hvs.
Qed.

Theorem file_roundtrip api tab f :
  file_ok api tab f = true ->
  exists ms, runtime_file tab (emit_header api f) (emit_file api f) = Some (map enum_view (fd_enums f), ms)
             /\ map (view_rt (dotted (fd_pkg f))) ms = map (view_in (fd_pkg f) (fd_module f) []) (fd_msgs f).
Proof.
  unfold file_ok, runtime_file. destruct (h_proto_alias (emit_header api f)) as [p|] eqn:Ep; [|discriminate].
  intro H. apply andb_true_iff in H as [He Hm].
  change (h_package (emit_header api f)) with (dotted (fd_pkg f)).
  unfold emit_file at 2. rewrite (rt_top_enums _ _ _ _ _ _ He).
  destruct (rt_top_msgs _ _ _ _ _ _ _ _ Hm) as (rs & Hrs & Hv). rewrite Hrs.
  exists rs. split; [now rewrite app_nil_r | exact Hv].
Qed.

(* ------------------------------------------------------------------ Address.rel: what is proved about resolution *)
Lemma list_eqb_string_eq : forall a b : list string, list_eqb String.eqb a b = true -> a = b.
Proof.
  induction a as [|x a IH]; destruct b as [|y b]; simpl; intro H; try discriminate; [reflexivity|].
  apply andb_true_iff in H as [Hx Hl]. apply String.eqb_eq in Hx. subst. f_equal. now apply IH.
Qed.

Lemma rel_RQ_shape api names self at_ s :
  rel api names self at_ = RQ s -> s = dotted (a_parent self ++ [a_name self])%list /\ a_pkg self = a_pkg at_.
Proof.
  unfold rel. destruct (list_eqb String.eqb (a_pkg self) (a_pkg at_) && String.eqb (a_module self) (a_module at_)) eqn:E;
    [|discriminate].
  apply andb_true_iff in E as [Ep _]. apply list_eqb_string_eq in Ep.
  destruct (a_parent self) as [|p ptl].
  - intro H. inversion H. auto.
  - destruct (a_parent at_) as [|q qtl].
    + destruct (String.eqb p (a_name at_)); intro H; [discriminate | inversion H; auto].
    + intro H. inversion H. auto.
Qed.

(* since 2f90e4e: an unquoted same-file reference is only ever printed inside a TOP-LEVEL message, for a type nested in it *)
Lemma rel_RX_same_file api names self at_ c :
  rel api names self at_ = RX c ->
  list_eqb String.eqb (a_pkg self) (a_pkg at_) && String.eqb (a_module self) (a_module at_) = true ->
  a_parent at_ = [] /\ exists ptl, a_parent self = a_name at_ :: ptl /\ c = (ptl ++ [a_name self])%list.
Proof.
  unfold rel. intros H E. rewrite E in H.
  destruct (a_parent self) as [|p ptl]; [discriminate|].
  destruct (a_parent at_) as [|q qtl]; [|discriminate].
  destruct (String.eqb p (a_name at_)) eqn:Ep; [|discriminate].
  apply String.eqb_eq in Ep. subst p. inversion H. split; [reflexivity|]. eauto.
Qed.

(* every QUOTED reference (forward, recursive, sibling-nested, enclosing) is resolved by proto-plus to the type it was printed
   for, provided the type is declared by the module and its dotted path does not itself start with the package string *)
Lemma rel_quoted_resolves api names tab ltypes locals globals self at_ k s :
  rel api names self at_ = RQ s ->
  has_type (full_name self) k ltypes = true ->
  starts_with (dotted (a_pkg at_)) s = false ->
  resolve tab (dotted (a_pkg at_)) ltypes locals globals (Some (kw_of k, RQ s)) = Some (full_name self).
Proof.
  intros Hr Ht Hs. apply rel_RQ_shape in Hr as [-> Hp].
  unfold resolve. rewrite kind_of_kw_of. unfold resolve_rq, qualify. rewrite Hs.
  unfold full_name in *. rewrite <- Hp. now rewrite Ht.
Qed.

(* an unquoted reference denotes the right type as soon as its FIRST name is bound, where it is evaluated, to the object
   rel assumes: the class of the same name nested in the message being declared (same file), or the module of the type
   (other file).  Whether that binding exists is the part not proved in general: see rel_misfire_refuted and
   pb2_shadow_refuted for the two ways it fails on the code as it is, and file_ok, evaluated on every case by the harness. *)
Definition head_bound (api : apiD) (names : list string) (tab : modtab) (ltypes : typeset) (locals globals : scope)
                      (self at_ : addr) (k : tkind) : bool :=
  match rel api names self at_ with
  | RQ s => has_type (full_name self) k ltypes && negb (starts_with (dotted (a_pkg at_)) s)
  | RX [] => false
  | RX (h :: rest) =>
      if list_eqb String.eqb (a_pkg self) (a_pkg at_) && String.eqb (a_module self) (a_module at_) then
        match lookup2 h locals globals with
        | Some (PVType t) =>
            String.eqb t (dotted (a_pkg at_) ++ "." ++ a_name at_ ++ "." ++ h) && has_type (full_name self) k ltypes
        | _ => false
        end
      else
        match lookup2 h locals globals with
        | Some (PVMod key) =>
            String.eqb key (mod_key self)
            && match assoc key tab with
               | Some (p, paths) => String.eqb p (dotted (a_pkg self))
                                    && has_type (dotted (a_parent self ++ [a_name self])%list) k paths
               | None => false
               end
        | _ => false
        end
  end.

Lemma sjoin_cons2 sep x y l : sjoin sep (x :: y :: l) = x ++ sep ++ sjoin sep (y :: l).
Proof. reflexivity. Qed.

Lemma dotted_snoc_nonempty (l : list string) (x : string) : exists y l', (l ++ [x])%list = y :: l'.
Proof. destruct l as [|y l]; simpl; eauto. Qed.

Lemma resolve_quoted_direct tab ltypes locals globals (self at_ : addr) k par :
  a_parent self = par -> a_pkg self = a_pkg at_ ->
  has_type (full_name self) k ltypes && negb (starts_with (dotted (a_pkg at_)) (dotted (par ++ [a_name self])%list)) = true ->
  resolve tab (dotted (a_pkg at_)) ltypes locals globals (Some (kw_of k, RQ (dotted (par ++ [a_name self])%list)))
  = Some (full_name self).
Proof.
  intros <- Hp H. apply andb_true_iff in H as [Ht Hs]. apply negb_true_iff in Hs.
  unfold resolve. rewrite kind_of_kw_of. unfold resolve_rq, qualify. rewrite Hs.
  unfold full_name in *. rewrite <- Hp. now rewrite Ht.
Qed.

Theorem rel_resolves_partial api names tab ltypes locals globals self at_ k :
  head_bound api names tab ltypes locals globals self at_ k = true ->
  resolve tab (dotted (a_pkg at_)) ltypes locals globals (Some (kw_of k, rel api names self at_)) = Some (full_name self).
Proof.
  unfold head_bound, rel.
  destruct (list_eqb String.eqb (a_pkg self) (a_pkg at_) && String.eqb (a_module self) (a_module at_)) eqn:Es.
  - (* same file *)
    pose proof Es as Es'. apply andb_true_iff in Es' as [Ep _]. apply list_eqb_string_eq in Ep.
    destruct (a_parent self) as [|p ptl] eqn:Epar.
    + now apply resolve_quoted_direct.
    + destruct (a_parent at_) as [|q qtl] eqn:Eat; [|now apply resolve_quoted_direct].
      destruct (String.eqb p (a_name at_)) eqn:Epn; [|now apply resolve_quoted_direct].
      apply String.eqb_eq in Epn.
      destruct (ptl ++ [a_name self])%list as [|h rest] eqn:Ec; [discriminate|].
      destruct (lookup2 h locals globals) as [[key|t|]|] eqn:El; try discriminate.
      intro H. apply andb_true_iff in H as [Ht Hty]. apply String.eqb_eq in Ht.
      unfold resolve. rewrite kind_of_kw_of. unfold resolve_rx. rewrite El.
      assert (Hfull : full_name self = match rest with [] => t | _ :: _ => t ++ "." ++ dotted rest end).
      { unfold full_name. rewrite Epar, Ep, Ht, Epn. cbn [app]. rewrite Ec.
        unfold dotted. destruct rest as [|r rest']; cbn [sjoin]; rewrite ?sapp_assoc; reflexivity. }
      rewrite <- Hfull, Hty. reflexivity.
  - (* other file: module.Parent.Name *)
    unfold str_comps.
    set (h := if is_pp api (a_pkg self) then _ else _).
    destruct (lookup2 h locals globals) as [[key|t|]|] eqn:El; try discriminate.
    intro H. apply andb_true_iff in H as [Hk H]. apply String.eqb_eq in Hk.
    destruct (assoc key tab) as [[p paths]|] eqn:Ea; [|discriminate].
    apply andb_true_iff in H as [Hp Hty]. apply String.eqb_eq in Hp.
    unfold resolve. rewrite kind_of_kw_of. unfold resolve_rx. rewrite El, Ea.
    destruct (dotted_snoc_nonempty (a_parent self) (a_name self)) as (y & l' & Hy). rewrite Hy in *.
    rewrite Hty. unfold full_name. now rewrite Hp, Hy.
Qed.

(* ------------------------------------------------------------------ witnesses: the hypotheses that protoc does not give *)
Definition PK : list string := ["google"; "example"; "c02"; "v1"].
Definition api0 : apiD := mkApi "google.example.c02.v1" "v1" ["google"; "example"; "c02_v1"] [].
Definition mref (parent : list string) (n : string) : ftype := TRef KMsg (mkAddr PK "main" parent n).

(* (1) a proto3 enum whose first DECLARED value is zero but whose least number is negative: proto-plus sorts by number *)
Definition w_enum : enumD := mkEnum "Temp" [("TEMP_UNSPECIFIED", 0%Z); ("HOT", 1%Z); ("COLD", (-1)%Z)].
Definition w_enum_file : fileD :=
  mkFile PK "main" [w_enum] [Msg "Reading" [mkField "temp" 1 (TRef KEnum (mkAddr PK "main" [] "Temp")) false None false] [] [] [] false].
Lemma enum_negative_refuted :
  exists f e, In e (fd_enums f)
    /\ (match e_values e with (_, 0%Z) :: _ => True | _ => False end)      (* protoc: first declared value is zero *)
    /\ NoDup (map snd (e_values e)) /\ NoDup (map fst (e_values e))
    /\ enum_ok e = false
    /\ runtime_file [] (emit_header api0 f) (emit_file api0 f) = None.
Proof.
  exists w_enum_file, w_enum. split; [now left|]. split; [exact I|].
  split; [repeat constructor; simpl; intuition discriminate|].
  split; [repeat constructor; simpl; intuition discriminate|].
  split; vm_compute; reflexivity.
Qed.

(* (2) fixed by 2f90e4e (kept as a regression witness, also in corpus/C02): a nested message X.Foo whose field has type
   Foo.Bar, Foo a top-level message of the same file.  rel used to print the bare name Bar, evaluated in the body of X.Foo
   (NameError, or the wrong type when X.Foo has a Bar of its own); it now prints the quoted full path *)
Definition w_misfire (own_bar : bool) : fileD :=
  mkFile PK "main" []
    [Msg "Foo" [] [] [Msg "Bar" [mkField "v" 1 (TScalar S_INT32) false None false] [] [] [] false] [] false;
     Msg "X" [] []
         [Msg "Foo" [mkField "bar" 1 (mref ["Foo"] "Bar") false None false] []
              (if own_bar then [Msg "Bar" [mkField "w" 1 (TScalar S_STRING) false None false] [] [] [] false] else []) [] false]
         [] false].
Lemma rel_nested_like_toplevel_ok :
  rel api0 [] (mkAddr PK "main" ["Foo"] "Bar") (mkAddr PK "main" ["X"] "Foo") = RQ "Foo.Bar"
  /\ file_ok api0 [] (w_misfire false) = true /\ file_ok api0 [] (w_misfire true) = true.
Proof. repeat split; vm_compute; reflexivity. Qed.

(* (3) DESIGN section 9 no. 15: two non-proto-plus dependency packages with a file of the same base name are both imported
   under the plain name thing_pb2; the import that sorts last wins *)
Definition w_tab (second : string) : modtab :=
  [("foo.bar/thing", ("foo.bar", [("A", KMsg)])); ("fab.baz/thing", ("fab.baz", [(second, KMsg)]))].
Definition w_pb2 (second : string) : fileD :=
  mkFile PK "main" []
    [Msg "Holder" [mkField "a" 1 (TRef KMsg (mkAddr ["foo"; "bar"] "thing" [] "A")) false None false;
                   mkField "b" 2 (TRef KMsg (mkAddr ["fab"; "baz"] "thing" [] second)) false None false] [] [] [] false].
Lemma pb2_shadow_refuted :
  map imp_local (h_imports (emit_header api0 (w_pb2 "B"))) = ["thing_pb2"; "thing_pb2"]
  /\ map imp_line (h_imports (emit_header api0 (w_pb2 "B"))) = ["from fab.baz import thing_pb2"; "from foo.bar import thing_pb2"]
  /\ forallb (wf_msg PK "main" "google.example.c02.v1" []) (fd_msgs (w_pb2 "B")) = true
  /\ file_ok api0 (w_tab "B") (w_pb2 "B") = false
  /\ runtime_file (w_tab "B") (emit_header api0 (w_pb2 "B")) (emit_file api0 (w_pb2 "B")) = None       (* AttributeError *)
  /\ exists ms, runtime_file (w_tab "A") (emit_header api0 (w_pb2 "A")) (emit_file api0 (w_pb2 "A")) = Some ([], ms)
                /\ map (view_rt "google.example.c02.v1") ms <> map (view_in PK "main" []) (fd_msgs (w_pb2 "A")). (* wrong type *)
Proof.
  repeat split; try (vm_compute; reflexivity).
  eexists. split; [vm_compute; reflexivity|]. vm_compute. discriminate.
Qed.

(* ------------------------------------------------------------------ a non-trivial schema satisfying every hypothesis *)
Definition ex_tab : modtab :=
  [("google.example.c02.v1/res", ("google.example.c02.v1", [("Shape", KMsg); ("Shape.Kind", KEnum); ("Color", KEnum)]));
   ("google.protobuf/struct", ("google.protobuf", [("Struct", KMsg); ("Value", KMsg); ("NullValue", KEnum)]))].
Definition ex_file : fileD :=
  mkFile PK "main" [mkEnum "Mode" [("MODE_UNSPECIFIED", 0%Z); ("FAST", 7%Z); ("SLOW", 2%Z)]]
    [Msg "Alpha"
       [mkField "beta" 1 (mref ["Alpha"] "Beta") false None false;
        mkField "gamma" 2 (mref ["Alpha"; "Beta"] "Gamma") true None false;
        mkField "self_ref" 3 (mref [] "Alpha") false None false;
        mkField "later" 4 (mref [] "Later") false None false;
        mkField "class" 5 (TScalar S_STRING) false None false;
        mkField "shape" 6 (TRef KMsg (mkAddr PK "res" [] "Shape")) false None false;
        mkField "kind" 7 (TRef KEnum (mkAddr PK "res" ["Shape"] "Kind")) false None true;
        mkField "st" 8 (TRef KMsg (mkAddr ["google"; "protobuf"] "struct" [] "Struct")) false None false;
        mkField "o1" 9 (TScalar S_SINT64) false (Some 0) false;
        mkField "o2" 10 (mref ["Alpha"] "Beta") false (Some 0) false;
        mkField "opt" 11 (TScalar S_BYTES) false (Some 1) true;
        mkField "labels" 12 (mref ["Alpha"] "LabelsEntry") true None false;
        mkField "import" 13 (mref ["Alpha"] "ImportEntry") true None false;
        mkField "mode" 14 (TRef KEnum (mkAddr PK "main" [] "Mode")) true None false]
       ["pick"; "_opt"]
       [Msg "Beta" [mkField "g" 1 (mref ["Alpha"; "Beta"] "Gamma") false None false; mkField "up" 2 (mref [] "Alpha") false None false] []
            [Msg "Gamma" [mkField "x" 1 (TScalar S_FIXED32) false None false] [] [] [] false] [] false;
        Msg "LabelsEntry" [mkField "key" 1 (TScalar S_STRING) false None false; mkField "value" 2 (TScalar S_DOUBLE) false None false] [] [] [] true;
        Msg "ImportEntry" [mkField "key" 1 (TScalar S_BOOL) false None false; mkField "value" 2 (mref ["Alpha"] "Beta") false None false] [] [] [] true]
       [] false;
     Msg "Later" [mkField "alpha" 1 (mref [] "Alpha") false None false] [] [] [] false].
Example ex_file_ok : file_ok api0 ex_tab ex_file = true.
Proof. vm_compute. reflexivity. Qed.

(* ------------------------------------------------------------------ selective generation: closure of the printed references *)
Lemma addr_eqb_eq a b : addr_eqb a b = true -> a = b.
Proof.
  destruct a as [p m q n], b as [p' m' q' n']. unfold addr_eqb. cbn [a_pkg a_module a_parent a_name]. intro H.
  apply andb_prop in H. destruct H as [H Hn]. apply andb_prop in H. destruct H as [H Hq]. apply andb_prop in H. destruct H as [Hp Hm].
  apply list_eqb_string_eq in Hp. apply list_eqb_string_eq in Hq. apply String.eqb_eq in Hm. apply String.eqb_eq in Hn. subst. reflexivity.
Qed.
Lemma closure_refs_emitted kept decls :
  closed kept decls = true ->
  forall r, In r (printed_refs kept decls) -> emitted kept r = true.
Proof.
  intros Hc r Hr. unfold closed in Hc. rewrite forallb_forall in Hc.
  unfold printed_refs in Hr. apply in_flat_map in Hr. destruct Hr as [d [Hd Hr]].
  destruct (emitted kept (fst d)) eqn:He; [|destruct Hr].
  apply filter_In in Hr. destruct Hr as [Hr Hl].
  pose proof (Hc d Hd) as Cd. unfold closed_at in Cd. apply andb_prop in Cd. destruct Cd as [C1 C2].
  unfold emitted in He. rewrite He in C1. cbn [implb] in C1. rewrite C1 in C2. cbn [implb] in C2.
  apply andb_prop in C2. destruct C2 as [_ C3]. rewrite forallb_forall in C3. pose proof (C3 r Hr) as Kr.
  rewrite Hl in Kr. cbn [implb] in Kr.
  unfold local_ in Hl. apply existsb_exists in Hl. destruct Hl as [d' [Hd' E]]. apply addr_eqb_eq in E. subst r.
  pose proof (Hc d' Hd') as Cd'. unfold closed_at in Cd'. apply andb_prop in Cd'. destruct Cd' as [_ C2'].
  rewrite Kr in C2'. cbn [implb] in C2'. apply andb_prop in C2'. destruct C2' as [T _]. exact T.
Qed.
Example sx_closed : closed sx_kept_fix (file_cls sx_file) = true
  /\ printed_refs sx_kept_fix (file_cls sx_file) = [sx_a ["Third"] "Leaf"; sx_a ["Other"] "Inner"; sx_a ["Outer"] "Mid"]
  /\ emitted sx_kept_fix (sx_a [] "DropRequest") = false.
Proof. vm_compute. repeat split. Qed.
(* without the hypothesis the conclusion fails: after one sweep Outer is emitted and prints Other.Inner, which is not *)
Example sx_once_not_closed : closed sx_kept_once (file_cls sx_file) = false
  /\ In (sx_a ["Other"] "Inner") (printed_refs sx_kept_once (file_cls sx_file))
  /\ emitted sx_kept_once (sx_a ["Other"] "Inner") = false.
Proof. vm_compute. repeat split. left. reflexivity. Qed.
