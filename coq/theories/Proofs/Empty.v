(* Proofs/Empty.v — C11: lemmas about Model/Empty.v (utils.empty and the drop rule of Generator._get_file). *)
From GV Require Import Base.Str Gen.C11Gen Model.FixWs Model.Empty Proofs.FixWs.

(* ------------------------------------------------------------------ T0 pins *)
Lemma pins_empty :
  empty_src = "not any([i.lstrip() and (not i.lstrip().startswith('#')) for i in content.split('\n')])"
  /\ get_file_tests = ["utils.empty(cgr_file.content) and (not fn.endswith(('py.typed', '__init__.py')))"]
  /\ get_file_content_fns = ["formatter.fix_whitespace"]
  /\ get_file_consts = ["py.typed"; "__init__.py"].
Proof. repeat split. Qed.

(* ------------------------------------------------------------------ small string facts *)
Lemma srev_cons' c s : srev (String c s) = srev s ++ s1 c.
Proof.
  unfold srev. cbn [srev_acc].
  assert (G : forall t acc, srev_acc t acc = srev_acc t "" ++ acc).
  { induction t as [|a t IH]; intro acc; cbn [srev_acc]; [reflexivity|].
    rewrite IH, (IH (String a "")). rewrite sapp_assoc. reflexivity. }
  rewrite G. reflexivity.
Qed.

Lemma drop_ws_all W : sall ws W = true -> sdrop_while ws W = "".
Proof.
  induction W as [|c W IH]; cbn [sall sdrop_while]; [reflexivity|]. intro H.
  apply andb_true_iff in H as [Hc H]. rewrite Hc. now apply IH.
Qed.

Lemma drop_ws_app r W : sall ws W = true ->
  match sdrop_while ws r with
  | EmptyString => sdrop_while ws (r ++ W) = ""
  | String c t => sdrop_while ws (r ++ W) = String c (t ++ W)
  end.
Proof.
  intro HW. induction r as [|a r IH]; cbn [sdrop_while append].
  - now apply drop_ws_all.
  - destruct (ws a); [exact IH | reflexivity].
Qed.

(* a line and its right-stripped form are judged alike; a blank line is no statement *)
Lemma stmt_line_rstrip x : stmt_line (rstrip_ws x) = stmt_line x.
Proof.
  destruct (rstrip_decomp x) as (W & E & HW). unfold stmt_line, lstrip_by.
  pose proof (drop_ws_app (rstrip_ws x) W HW) as D. rewrite <- E in D.
  destruct (sdrop_while ws (rstrip_ws x)) as [|c t]; rewrite D; reflexivity.
Qed.

Lemma stmt_line_blank x : is_empty (rstrip_ws x) = true -> stmt_line x = false.
Proof.
  intro H. rewrite <- stmt_line_rstrip. destruct (rstrip_ws x); [reflexivity | discriminate].
Qed.

Lemma stmt_emit x : existsb stmt_line (emit x) = stmt_line x.
Proof.
  unfold emit. destruct (is_empty (rstrip_ws x)) eqn:B; cbn [existsb].
  - symmetry. now apply stmt_line_blank.
  - rewrite stmt_line_rstrip. apply orb_false_r.
Qed.

(* ------------------------------------------------------------------ split("\n") against the non-blank lines *)
Lemma split_nb s : forall acc,
  existsb stmt_line (split_on_acc nl s acc) = existsb stmt_line (nb_acc (srev acc) s).
Proof.
  induction s as [|c s IH]; intro acc; cbn [split_on_acc nb_acc].
  - cbn [existsb]. rewrite stmt_emit. apply orb_false_r.
  - destruct (Ascii.eqb c nl).
    + cbn [existsb]. rewrite existsb_app, stmt_emit, IH. reflexivity.
    + rewrite IH, srev_cons'. reflexivity.
Qed.

(* empty() only looks at the non-blank lines, each right-stripped *)
Lemma empty_nonblank c : empty c = negb (existsb stmt_line (nonblank_lines c)).
Proof. unfold empty, split_on, nonblank_lines. now rewrite split_nb. Qed.

(* the drop decision is the same on the raw render and on the whitespace-cleaned text *)
Lemma empty_fix_whitespace c : empty (fix_whitespace c) = empty c.
Proof. now rewrite !empty_nonblank, fixws_deletes_only_blanks. Qed.

(* ------------------------------------------------------------------ split("\n") against the one-pass scanner *)
Lemma drop_app_some' a : forall b x t, sdrop_while ws a = String x t -> sdrop_while ws (a ++ b) = String x (t ++ b).
Proof.
  induction a as [|c a IH]; intros b x t; cbn [sdrop_while append]; [discriminate|].
  destruct (ws c); [apply IH|]. intro E. injection E as -> ->. reflexivity.
Qed.
Lemma drop_app_none' a : forall b, sdrop_while ws a = "" -> sdrop_while ws (a ++ b) = sdrop_while ws b.
Proof.
  induction a as [|c a IH]; intro b; cbn [sdrop_while append]; [reflexivity|].
  destruct (ws c); [apply IH | discriminate].
Qed.

(* the scanner's state is what lstrip() leaves of the line read so far *)
Definition scan_from (line : string) (s : string) : bool :=
  match sdrop_while ws line with
  | EmptyString => has_code false s
  | String c _ => if Ascii.eqb c hash then has_code true s else true
  end.

Lemma stmt_line_scan line : stmt_line line = scan_from line "".
Proof.
  unfold stmt_line, scan_from, lstrip_by. destruct (sdrop_while ws line) as [|c t]; [reflexivity|].
  cbn [has_code]. now destruct (Ascii.eqb c hash).
Qed.

Lemma split_scan s : forall acc, existsb stmt_line (split_on_acc nl s acc) = scan_from (srev acc) s.
Proof.
  induction s as [|a s IH]; intro acc; cbn [split_on_acc].
  - cbn [existsb]. rewrite orb_false_r. apply stmt_line_scan.
  - destruct (Ascii.eqb a nl) eqn:Ea.
    + cbn [existsb]. rewrite IH. unfold scan_from at 2. change (srev "") with "". cbn [sdrop_while].
      rewrite stmt_line_scan. unfold scan_from.
      destruct (sdrop_while ws (srev acc)) as [|c t]; cbn [has_code]; rewrite ?Ea; [reflexivity|].
      destruct (Ascii.eqb c hash); cbn [has_code]; rewrite ?Ea; reflexivity.
    + rewrite IH, srev_cons'. unfold scan_from.
      destruct (sdrop_while ws (srev acc)) as [|c t] eqn:D.
      * rewrite (drop_app_none' _ _ D). cbn [sdrop_while s1 has_code]. rewrite Ea.
        destruct (ws a); reflexivity.
      * rewrite (drop_app_some' _ _ _ _ D). cbn [has_code]. rewrite Ea.
        destruct (Ascii.eqb c hash); reflexivity.
Qed.

(* empty() is the complement of the scanner: every character is a blank, a newline or part of a comment *)
Lemma empty_scan c : empty c = negb (has_code false c).
Proof. unfold empty, split_on. rewrite split_scan. reflexivity. Qed.

(* compositional over lines *)
Lemma has_code_app a : forall st b, has_code st (a ++ String nl b) = has_code st a || has_code false b.
Proof.
  induction a as [|c a IH]; intros st b; cbn [append has_code].
  - rewrite Ascii.eqb_refl. reflexivity.
  - destruct (Ascii.eqb c nl); [apply IH|]. destruct st; [apply IH|].
    destruct (ws c); [apply IH|]. destruct (Ascii.eqb c hash); [apply IH | reflexivity].
Qed.

Lemma empty_lines a b : empty (a ++ String nl b) = empty a && empty b.
Proof. rewrite !empty_scan, has_code_app. apply negb_orb. Qed.

(* ------------------------------------------------------------------ the drop rule of _get_file *)
Lemma srev_app a : forall b, srev (a ++ b) = srev b ++ srev a.
Proof.
  induction a as [|c a IH]; intro b; cbn [append].
  - change (srev "") with "". now rewrite sapp_nil_r.
  - rewrite !srev_cons', IH, sapp_assoc. reflexivity.
Qed.
Lemma starts_with_app p : forall r, starts_with p (p ++ r) = true.
Proof.
  unfold starts_with. induction p as [|c p IH]; intro r; cbn [strip_prefix append]; [reflexivity|].
  rewrite Ascii.eqb_refl. apply IH.
Qed.
Lemma ends_with_app p a : ends_with p (a ++ p) = true.
Proof. unfold ends_with. rewrite srev_app. apply starts_with_app. Qed.

Lemma kept_anyway_spec fn : kept_anyway fn = ends_with "py.typed" fn || ends_with "__init__.py" fn.
Proof. unfold kept_anyway. change get_file_consts with ["py.typed"; "__init__.py"]. cbn [existsb]. now rewrite orb_false_r. Qed.

(* a file is in the response exactly when the raw render has a statement or the file is a package marker *)
Lemma emitted_spec fn raw :
  emitted fn (fix_whitespace raw) = has_code false raw || ends_with "py.typed" fn || ends_with "__init__.py" fn.
Proof.
  unfold emitted. rewrite empty_fix_whitespace, empty_scan, negb_involutive, kept_anyway_spec. apply orb_assoc.
Qed.

Lemma markers_always_emitted dir raw :
  emitted (dir ++ "__init__.py") (fix_whitespace raw) = true /\ emitted (dir ++ "py.typed") (fix_whitespace raw) = true.
Proof.
  rewrite !emitted_spec, !ends_with_app. split; [apply orb_true_r | rewrite orb_true_r; reflexivity].
Qed.

Lemma comment_only_dropped fn raw :
  has_code false raw = false -> ends_with "py.typed" fn = false -> ends_with "__init__.py" fn = false ->
  emitted fn (fix_whitespace raw) = false.
Proof. intros H1 H2 H3. now rewrite emitted_spec, H1, H2, H3. Qed.

Lemma empty_examples :
  empty (sx [35;32;45;42;45;10; 10; 32;32;9;35;32;99;10]%N) = true      (* coding line, blank, indented comment *)
  /\ empty "" = true
  /\ empty (sx [35;32;99;10; 120;32;61;32;49;10]%N) = false             (* "# c" then "x = 1" *)
  /\ empty (sx [34;34;34;10; 35;10; 34;34;34;10]%N) = false             (* a docstring whose middle line starts with a hash *)
  /\ emitted "a/b/pagers.py" (fix_whitespace (sx [35;32;99;10;10;10]%N)) = false
  /\ emitted "a/b/__init__.py" (fix_whitespace (sx [35;32;99;10;10;10]%N)) = true
  /\ emitted "a/b/my__init__.py" "" = true.                           (* endswith, not a path-segment test *)
Proof. vm_compute. repeat split. Qed.
