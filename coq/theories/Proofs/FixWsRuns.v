(* Proofs/FixWsRuns.v — C20: a text seen as maximal whitespace runs separated by words, and what
   re.sub does with a regex that can only match "a whole run plus the beginning of the next word"
   (the second and third regex of fix_whitespace).  Used for idempotence. *)
From GV Require Import Base.Str Model.FixWs Proofs.RxLemmas Proofs.FixWs.

Definition nonws (c : ascii) : bool := negb (ws c).
Definition word (r : string) : string := stake_while nonws r.

Inductive allruns (Q : string -> string -> Prop) : string -> Prop :=
| ar_nil : allruns Q ""
| ar_chr c s : ws c = false -> allruns Q s -> allruns Q (String c s)
| ar_run W r : W <> "" -> sall ws W = true -> nohead ws r -> Q W r -> allruns Q r -> allruns Q (W ++ r).

Lemma allruns_total s : allruns (fun _ _ => True) s.
Proof.
  remember (String.length s) as n eqn:En. revert s En.
  induction n as [n IH] using lt_wf_ind. intros s En.
  destruct s as [|c s]; [constructor|].
  destruct (ws c) eqn:Ec.
  - rewrite (take_drop_while ws (String c s)).
    apply ar_run; auto.
    + simpl. rewrite Ec. discriminate.
    + apply sall_take_while.
    + apply nohead_drop_while.
    + eapply IH; [|reflexivity]. subst n. simpl. rewrite Ec.
      pose proof (take_drop_while ws s) as E. apply (f_equal String.length) in E. rewrite length_app in E. simpl. lia.
  - apply ar_chr; auto. eapply IH; [|reflexivity]. subst n. simpl. lia.
Qed.

Lemma allruns_weaken (Q Q' : string -> string -> Prop) s :
  (forall W r, Q W r -> Q' W r) -> allruns Q s -> allruns Q' s.
Proof. intros H A. induction A; constructor; auto. Qed.

Lemma allruns_and (Q Q' : string -> string -> Prop) s :
  allruns Q s -> allruns Q' s -> allruns (fun W r => Q W r /\ Q' W r) s.
Proof.
  intro A. induction A as [|c s Hc A IH|W r Hne HW Hr HQ A IH]; intro B.
  - constructor.
  - inversion B as [|c' s' Hc' B' E|W' r' Hne' HW' Hr' HQ' B' E]; subst.
    + constructor; auto.
    + destruct W' as [|d W']; [congruence|]. simpl in E. inversion E; subst. simpl in HW'.
      apply andb_true_iff in HW' as [Hd _]. congruence.
  - inversion B as [|c' s' Hc' B' E|W' r' Hne' HW' Hr' HQ' B' E]; subst.
    + destruct W; [congruence|discriminate].
    + destruct W as [|d W]; [congruence|]. simpl in E. inversion E; subst. simpl in HW.
      apply andb_true_iff in HW as [Hd _]. congruence.
    + destruct (run_unique ws W' r' W r HW' HW Hr' Hr E) as [-> ->]. constructor; auto.
Qed.

(* ---- words ---- *)
Lemma word_ws_head c s : ws c = true -> word (String c s) = "".
Proof. unfold word, nonws. simpl. now intros ->. Qed.

Lemma word_app w rest : sall nonws w = true -> word (w ++ rest) = w ++ word rest.
Proof.
  induction w as [|c w IH]; simpl; [reflexivity|]. intro H. apply andb_true_iff in H as [Hc H].
  unfold word. simpl. rewrite Hc. f_equal. now apply IH.
Qed.

Lemma starts_word w r r' rest : sall nonws w = true -> word r = word r' -> r = w ++ rest ->
  exists rest', r' = w ++ rest'.
Proof.
  intros Hw E ->. rewrite word_app in E by exact Hw.
  rewrite (take_drop_while nonws r'). fold (word r'). rewrite <- E. rewrite sapp_assoc. eauto.
Qed.

Lemma word_rstrip r : word (rstrip_ws r ++ nl1) = word r.
Proof.
  induction r as [|c r IH]; [reflexivity|]. simpl.
  destruct (ws c) eqn:Ec.
  - rewrite (word_ws_head c r Ec). destruct (is_empty (rstrip_ws r) && true); [reflexivity|].
    simpl. now apply word_ws_head.
  - rewrite andb_false_r. unfold word. simpl. unfold nonws at 1 3. rewrite Ec. simpl. f_equal. exact IH.
Qed.

(* the last run becomes a single newline under rstrip + newline *)
Lemma allruns_rstrip_nl (Q : string -> string -> Prop) s :
  (forall W r r', word r = word r' -> Q W r -> Q W r') ->
  Q nl1 "" -> allruns Q s -> allruns Q (rstrip_ws s ++ nl1).
Proof.
  intros Hword Hq A.
  assert (Hnl : allruns Q nl1).
  { rewrite <- (sapp_nil_r nl1). apply ar_run; auto; try discriminate; try exact I. constructor. }
  induction A as [|c s Hc A IH|W r Hne HW Hr HQ A IH].
  - exact Hnl.
  - simpl. rewrite Hc. rewrite andb_false_r. simpl. constructor; auto.
  - destruct r as [|c r].
    + rewrite sapp_nil_r. rewrite (rstrip_all_ws W HW). exact Hnl.
    + simpl in Hr.
      assert (E : rstrip_ws (W ++ String c r) = W ++ rstrip_ws (String c r)).
      { assert (Hn : is_empty (rstrip_ws (String c r)) = false).
        { simpl. rewrite Hr. rewrite andb_false_r. reflexivity. }
        clear - Hn. induction W as [|d W IHW]; [reflexivity|].
        simpl. simpl in IHW. rewrite IHW.
        destruct (W ++ (if is_empty (rstrip_ws r) && ws c then "" else String c (rstrip_ws r))) eqn:E2; [|reflexivity].
        apply app_nil_inv in E2 as [_ E2]. simpl in Hn. rewrite E2 in Hn. discriminate. }
      rewrite E. rewrite sapp_assoc. apply ar_run; auto.
      * simpl. rewrite Hr. rewrite andb_false_r. simpl. exact Hr.
      * eapply Hword; [|exact HQ]. symmetry. apply word_rstrip.
Qed.

(* ---- re.sub with a run-local matcher ---- *)
Section RunLocal.
  Variable m : matcher.
  Variable shape : string -> Prop.      (* the whitespace run is one the regex accepts *)
  Variable start : string -> Prop.      (* the following word begins as the regex demands *)
  Variable Out : string -> Prop.        (* the possible replacements of the run *)
  Definition C W r := shape W /\ start r.

  Hypothesis m_nows : forall c s, ws c = false -> m (String c s) = None.
  Hypothesis m_sound : forall W r repl rest, W <> "" -> sall ws W = true -> nohead ws r ->
    m (W ++ r) = Some (repl, rest) ->
    C W r /\ exists o x, Out o /\ sall nonws x = true /\ r = x ++ rest /\ repl = o ++ x.
  Hypothesis m_complete : forall W r, W <> "" -> sall ws W = true -> nohead ws r -> C W r -> m (W ++ r) <> None.
  Hypothesis shape_mono : forall c W, ws c = true -> shape W -> shape (String c W).
  Hypothesis start_word : forall r r', word r = word r' -> start r -> start r'.
  Hypothesis Out_ws : forall o, Out o -> o <> "" /\ sall ws o = true.

  Lemma copy_nonws x : sall nonws x = true -> forall rest, re_sub m (x ++ rest) = x ++ re_sub m rest.
  Proof.
    induction x as [|c x IH]; intros H rest; [reflexivity|]. simpl in H. apply andb_true_iff in H as [Hc H].
    simpl. rewrite re_sub_none; [now rewrite IH|]. apply m_nows. unfold nonws in Hc. now destruct (ws c).
  Qed.

  Lemma run_nomatch : forall W r, sall ws W = true -> nohead ws r -> ~ C W r ->
    re_sub m (W ++ r) = W ++ re_sub m r.
  Proof.
    induction W as [|c W IH]; intros r HW Hr HC; [reflexivity|].
    simpl in HW. apply andb_true_iff in HW as [Hc HW].
    assert (Hm : m (String c W ++ r) = None).
    { destruct (m (String c W ++ r)) as [[repl rest]|] eqn:E; [|reflexivity].
      apply m_sound in E as [HC' _]; auto; [contradiction|discriminate|]. simpl. now rewrite Hc, HW. }
    simpl. simpl in Hm. rewrite (re_sub_none _ _ _ Hm). f_equal.
    apply IH; auto. intros [Hs Hst]. apply HC. split; auto.
  Qed.

  Lemma run_match W r : W <> "" -> sall ws W = true -> nohead ws r -> C W r ->
    exists o, Out o /\ re_sub m (W ++ r) = o ++ re_sub m r.
  Proof.
    intros Hne HW Hr HC.
    destruct (m (W ++ r)) as [[repl rest]|] eqn:E; [|exfalso; eapply m_complete; eauto].
    destruct (m_sound _ _ _ _ Hne HW Hr E) as (_ & o & x & Ho & Hx & -> & ->).
    exists o. split; [exact Ho|].
    rewrite (re_sub_some _ _ _ _ (W ++ x) E).
    - rewrite copy_nonws by exact Hx. now rewrite sapp_assoc.
    - now rewrite sapp_assoc.
    - destruct W; [congruence|discriminate].
  Qed.

  Lemma C_dec W r : W <> "" -> sall ws W = true -> nohead ws r -> C W r \/ ~ C W r.
  Proof.
    intros Hne HW Hr. destruct (m (W ++ r)) as [[repl rest]|] eqn:E.
    - left. now apply m_sound in E.
    - right. intro HC. eapply m_complete; eauto.
  Qed.

  Lemma re_sub_ws_head c s : ws c = true -> exists d t, re_sub m (String c s) = String d t /\ ws d = true.
  Proof.
    intro Hc. pose proof (take_drop_while ws (String c s)) as E.
    set (W := stake_while ws (String c s)) in *. set (r := sdrop_while ws (String c s)) in *.
    assert (Hne : W <> "") by (unfold W; simpl; rewrite Hc; discriminate).
    assert (HW : sall ws W = true) by apply sall_take_while.
    assert (Hr : nohead ws r) by apply nohead_drop_while.
    rewrite E. destruct (C_dec W r Hne HW Hr) as [HC|HC].
    - destruct (run_match W r Hne HW Hr HC) as (o & Ho & ->). destruct (Out_ws o Ho) as [Hn Hw].
      destruct o as [|d o]; [congruence|]. simpl in Hw. apply andb_true_iff in Hw as [Hd _]. simpl. eauto.
    - rewrite run_nomatch by auto. destruct W as [|d W]; [congruence|]. simpl in HW.
      apply andb_true_iff in HW as [Hd _]. simpl. eauto.
  Qed.

  Lemma word_re_sub s : word (re_sub m s) = word s.
  Proof.
    induction s as [|c s IH]; [reflexivity|].
    destruct (ws c) eqn:Ec.
    - destruct (re_sub_ws_head c s Ec) as (d & t & -> & Hd). now rewrite !word_ws_head.
    - rewrite re_sub_none by now apply m_nows. unfold word. simpl. unfold nonws at 1 3. rewrite Ec. simpl.
      f_equal. exact IH.
  Qed.

  Lemma nohead_re_sub r : nohead ws r -> nohead ws (re_sub m r).
  Proof. destruct r as [|c r]; [auto|]. simpl. intro H. now rewrite re_sub_none by now apply m_nows. Qed.

  Lemma nomatch_stable W r : ~ C W r -> ~ C W (re_sub m r).
  Proof. intros H [Hs Hst]. apply H. split; [exact Hs|]. eapply start_word; [|exact Hst]. apply word_re_sub. Qed.

  (* a text none of whose runs matches is left alone *)
  Lemma re_sub_fixed s : allruns (fun W r => ~ C W r) s -> re_sub m s = s.
  Proof.
    intro A. induction A as [|c s Hc A IH|W r Hne HW Hr HQ A IH].
    - reflexivity.
    - rewrite re_sub_none by now apply m_nows. now rewrite IH.
    - rewrite run_nomatch by auto. now rewrite IH.
  Qed.

  (* how the run structure of the output follows from that of the input *)
  Lemma allruns_re_sub (Q Q' : string -> string -> Prop) s :
    allruns Q s ->
    (forall W r, W <> "" -> sall ws W = true -> nohead ws r -> Q W r -> ~ C W r -> Q' W (re_sub m r)) ->
    (forall W r o, Q W r -> C W r -> Out o -> Q' o (re_sub m r)) ->
    allruns Q' (re_sub m s).
  Proof.
    intros A H1 H2. induction A as [|c s Hc A IH|W r Hne HW Hr HQ A IH].
    - constructor.
    - rewrite re_sub_none by now apply m_nows. constructor; auto.
    - destruct (C_dec W r Hne HW Hr) as [HC|HC].
      + destruct (run_match W r Hne HW Hr HC) as (o & Ho & ->). destruct (Out_ws o Ho) as [Hn Hw].
        apply ar_run; auto. * now apply nohead_re_sub. * eapply H2; eauto.
      + rewrite run_nomatch by auto. apply ar_run; auto. now apply nohead_re_sub.
  Qed.
End RunLocal.
