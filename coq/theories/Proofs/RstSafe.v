(* Proofs/RstSafe.v — C20: whatever rst returns on the plain path can be placed inside r"""...""" (Model/Wrap.v: rst_tail). *)
From GV Require Import Base.Str Model.FixWs Model.Wrap Proofs.RxLemmas.
Local Open Scope nat_scope.

Definition is_triple (s : string) : bool :=
  match s with
  | String a (String b (String c _)) => Ascii.eqb a dq && Ascii.eqb b dq && Ascii.eqb c dq
  | _ => false
  end.

Lemma repl3_unfold s : repl3 s =
  if is_triple s then (esc3 ++ repl3 (sdrop 3 s))%string
  else match s with String a t => String a (repl3 t) | EmptyString => EmptyString end.
Proof.
  destruct s as [|a [|b [|c s']]]; try reflexivity.
Qed.

Fixpoint lead (s : string) : nat :=
  match s with String c s' => if Ascii.eqb c dq then S (lead s') else 0 | EmptyString => 0 end.

Lemma is_triple_lead s : is_triple s = true -> 3 <= lead s.
Proof.
  destruct s as [|a [|b [|c s']]]; try discriminate. cbn [is_triple]. intro H.
  apply andb_true_iff in H as [H Hc]. apply andb_true_iff in H as [Ha Hb].
  cbn [lead]. rewrite Ha, Hb, Hc. lia.
Qed.

Lemma not_triple_lead s : is_triple s = false -> lead s <= 2.
Proof.
  destruct s as [|a [|b [|c s']]]; cbn [is_triple lead]; intro H.
  - lia.
  - destruct (Ascii.eqb a dq); lia.
  - destruct (Ascii.eqb a dq); [|lia]. destruct (Ascii.eqb b dq); lia.
  - destruct (Ascii.eqb a dq); [|lia]. destruct (Ascii.eqb b dq); [|lia]. destruct (Ascii.eqb c dq); [discriminate|lia].
Qed.

Lemma scan_esc3 esc r x : dq_scan esc r (esc3 ++ x) = dq_scan false 0 x.
Proof. destruct esc; reflexivity. Qed.

Lemma length_sdrop3 s : is_triple s = true -> String.length (sdrop 3 s) < String.length s.
Proof. destruct s as [|a [|b [|c s']]]; try discriminate. intros _. simpl. lia. Qed.

(* the escaped text never ends the literal, from any state the scanner can be in at that point *)
Lemma scan_repl3 : forall s esc r, (esc = false -> 3 <= lead s \/ r + lead s < 3) ->
  dq_scan esc r (repl3 s) <> None.
Proof.
  intro s. remember (String.length s) as n eqn:En. revert s En.
  induction n as [n IH] using lt_wf_ind. intros s En esc r Hpre.
  rewrite repl3_unfold. destruct (is_triple s) eqn:Et.
  - rewrite scan_esc3. eapply IH; [|reflexivity|]; [subst n; now apply length_sdrop3 | intros _; lia].
  - destruct s as [|a t]; [discriminate|].
    assert (IHt : forall e r', (e = false -> 3 <= lead t \/ r' + lead t < 3) -> dq_scan e r' (repl3 t) <> None).
    { intros e r' Hp. eapply IH; [|reflexivity|exact Hp]. subst n. simpl. lia. }
    cbn [dq_scan]. destruct esc.
    + apply IHt. intros _. lia.
    + destruct (Ascii.eqb a bs) eqn:Ebs; [apply IHt; discriminate|].
      destruct (Ascii.eqb a dq) eqn:Edq.
      * pose proof (not_triple_lead _ Et) as L. cbn [lead] in L. rewrite Edq in L.
        destruct (Hpre eq_refl) as [H|H]; cbn [lead] in H; rewrite Edq in H; [lia|].
        replace (2 <=? r) with false by (symmetry; apply Nat.leb_gt; lia).
        apply IHt. intros _. right. lia.
      * apply IHt. intros _. lia.
Qed.

Lemma scan_app : forall a e r b,
  dq_scan e r (a ++ b) = match dq_scan e r a with Some (e', r') => dq_scan e' r' b | None => None end.
Proof.
  induction a as [|c a IH]; intros e r b; [reflexivity|]. cbn [append dq_scan].
  destruct e; [apply IH|]. destruct (Ascii.eqb c bs); [apply IH|].
  destruct (Ascii.eqb c dq); [|apply IH]. destruct (2 <=? r); [reflexivity | apply IH].
Qed.

Lemma scan_plain c e r : Ascii.eqb c bs = false -> Ascii.eqb c dq = false -> dq_scan e r (s1 c) = Some (false, 0).
Proof. intros H1 H2. cbn [s1 dq_scan]. destruct e; [reflexivity|]. now rewrite H1, H2. Qed.

Lemma scan_end : forall s e r st, dq_scan e r s = Some st -> s <> ""%string ->
  ends_with_c bs s = false -> ends_with_c dq s = false -> st = (false, 0).
Proof.
  induction s as [|c s IH]; intros e r st H Hne Hb Hq; [congruence|].
  destruct s as [|d s'].
  - cbn [ends_with_c] in Hb, Hq. pose proof (scan_plain c e r Hb Hq) as P. unfold s1 in P. rewrite P in H. now inversion H.
  - change (ends_with_c bs (String c (String d s'))) with (ends_with_c bs (String d s')) in Hb.
    change (ends_with_c dq (String c (String d s'))) with (ends_with_c dq (String d s')) in Hq.
    assert (K : forall e' r', dq_scan e' r' (String d s') = Some st -> st = (false, 0)).
    { intros e' r' H'. eapply IH; [exact H' | discriminate | exact Hb | exact Hq]. }
    remember (String d s') as t eqn:Et. cbn [dq_scan] in H. destruct e; [eapply K; eauto|].
    destruct (Ascii.eqb c bs); [eapply K; eauto|].
    destruct (Ascii.eqb c dq); [|eapply K; eauto].
    destruct (2 <=? r); [discriminate | eapply K; eauto].
Qed.

Lemma ends_with_c_snoc a : forall x c, ends_with_c a (x ++ s1 c) = Ascii.eqb c a.
Proof.
  induction x as [|y x IH]; intro c; [reflexivity|]. cbn [append].
  destruct (x ++ s1 c)%string eqn:E; [destruct x; discriminate|]. rewrite <- E. cbn [ends_with_c].
  rewrite E. rewrite <- E. apply IH.
Qed.

(* the end of rst: for EVERY answer, the result can be followed by the closing quotes *)
Theorem rst_tail_safe answer : docstring_safe (rst_tail answer).
Proof.
  unfold docstring_safe, rst_tail. set (a1 := repl3 answer).
  destruct (dq_scan false 0 a1) as [[e r]|] eqn:E1.
  2:{ exfalso. revert E1. apply scan_repl3. intros _. destruct (Nat.le_gt_cases 3 (lead answer)); [left; lia | right; lia]. }
  assert (Hpad : forall c, Ascii.eqb c bs = false -> Ascii.eqb c dq = false -> dq_scan false 0 (a1 ++ s1 c) = Some (false, 0)).
  { intros c H1 H2. rewrite scan_app, E1. now apply scan_plain. }
  destruct (ends_with_c bs a1) eqn:Eb.
  - change " "%string with (s1 sp). rewrite ends_with_c_snoc. cbn. now apply Hpad.
  - destruct (ends_with_c dq a1) eqn:Eq.
    + change "."%string with (s1 "."%char). now apply Hpad.
    + destruct a1 as [|c a1'] eqn:Ea; [now inversion E1|].
      rewrite E1. f_equal. eapply scan_end; eauto. discriminate.
Qed.

Theorem rst_tail_no_final_backslash_or_quote answer :
  ends_with_c bs (rst_tail answer) = false /\ ends_with_c dq (rst_tail answer) = false.
Proof.
  unfold rst_tail. set (a1 := repl3 answer).
  destruct (ends_with_c bs a1) eqn:Eb.
  - change " "%string with (s1 sp). rewrite ends_with_c_snoc. cbn. rewrite !ends_with_c_snoc. split; reflexivity.
  - destruct (ends_with_c dq a1) eqn:Eq.
    + change "."%string with (s1 "."%char). rewrite !ends_with_c_snoc. split; reflexivity.
    + split; assumption.
Qed.

(* rst on the plain path *)
Theorem rst_plain_docstring_safe text width indent nl_opt out :
  rst text width indent nl_opt = Ok out ->
  docstring_safe out /\ ends_with_c bs out = false /\ ends_with_c dq out = false.
Proof.
  unfold rst. destruct (needs_pandoc text); [discriminate|].
  destruct (wrap text (width - indent) (indent + 3) indent); try discriminate.
  intro H. inversion H. split; [apply rst_tail_safe | apply rst_tail_no_final_backslash_or_quote].
Qed.

(* "the output has no three consecutive quotes" is FALSE of the code: five quotes come out as an escaped triple followed by
   two quotes; the third-last quote is escaped, so the literal is not ended (rst_tail_safe), but the substring is there *)
Lemma rst_no_triple_quote_substring_refuted : exists answer pre post,
  rst_tail answer = (pre ++ String dq (String dq (String dq post)))%string.
Proof.
  exists (String dq (String dq (String dq (String dq (String dq (String "x" ""))))))%string.
  exists (String bs (String dq (String bs (String dq (String bs ""))))), "x"%string. reflexivity.
Qed.
