(* Proofs/CamelJson.v — the lowerCamel key of the REST transport's required-field table (utils.to_camel_case, Model/Http.camel_case)
   versus protobuf's JSON name (Model/Reserved.to_json_name), for every lower_snake name; used by C12 (and discharges the
   names_agree hypothesis of C04 for style-conformant field names). *)
From GV Require Import Base.Str Gen.Kw Model.Reserved Model.Case Model.HttpValues Model.Http Proofs.Reserved.
From Coq Require Import Lia Bool.
Open Scope string_scope.

(* ---- characters of lower_snake names ---- *)
Lemma word_char_not_upper c : word_char c = true -> is_upper c = false.
Proof.
  unfold word_char, is_lower, is_digit, is_upper, in_range. intro H.
  destruct (N.leb 65 (ord c)) eqn:A, (N.leb (ord c) 90) eqn:B; simpl; try reflexivity.
  apply N.leb_le in A, B.
  apply orb_true_iff in H as [H|H]; [apply orb_true_iff in H as [H|H]|].
  - exfalso. apply andb_true_iff in H as [H1 H2]. apply N.leb_le in H1, H2. lia.
  - exfalso. apply andb_true_iff in H as [H1 H2]. apply N.leb_le in H1, H2. lia.
  - exfalso. apply Ascii.eqb_eq in H. subst c. vm_compute in A, B. congruence.
Qed.

Lemma to_lower_word c : word_char c = true -> to_lower c = c.
Proof. intro H. unfold to_lower. now rewrite (word_char_not_upper c H). Qed.

Lemma lower_word s : sall word_char s = true -> lower s = s.
Proof.
  induction s as [|c s IH]; simpl; intro H; [reflexivity|].
  apply andb_true_iff in H as [Hc Hs]. unfold lower in *. simpl. rewrite (to_lower_word c Hc). now rewrite IH.
Qed.

Lemma word_not_dash c : word_char c = true -> Ascii.eqb c "-"%char = false.
Proof.
  intro H. destruct (Ascii.eqb c "-"%char) eqn:E; [|reflexivity].
  apply Ascii.eqb_eq in E. subst c. vm_compute in H. discriminate.
Qed.

(* ---- to_snake_case leaves lower_snake names alone ---- *)
Lemma next_not_upper (s : string) : sall word_char s = true -> next_is is_upper s = false.
Proof. destruct s as [|a s]; simpl; intro H; [reflexivity|]. apply andb_true_iff in H as [Ha _]. now apply word_char_not_upper. Qed.

Lemma ins_pass_id (test : option ascii -> ascii -> string -> bool) :
  (forall p c r, word_char c = true -> sall word_char r = true -> test p c r = false) ->
  forall s p, sall word_char s = true -> ins_pass test p s = s.
Proof.
  intros Ht s. induction s as [|c s IH]; intros p H; simpl; [reflexivity|].
  simpl in H. apply andb_true_iff in H as [Hc Hs]. rewrite (Ht p c s Hc Hs). now rewrite IH.
Qed.

Lemma t1_word p c r : word_char c = true -> sall word_char r = true -> t1 p c r = false.
Proof. intros Hc _. unfold t1. rewrite (word_char_not_upper c Hc). now rewrite andb_false_r. Qed.
Lemma t2_word p c r : word_char c = true -> sall word_char r = true -> t2 p c r = false.
Proof. intros Hc _. unfold t2. rewrite (word_char_not_upper c Hc). rewrite andb_false_r. reflexivity. Qed.
Lemma t3_word p c r : word_char c = true -> sall word_char r = true -> t3 p c r = false.
Proof.
  intros _ Hr. unfold t3. destruct r as [|a [|b r]]; try now rewrite andb_false_r.
  simpl in Hr. apply andb_true_iff in Hr as [Ha _]. rewrite (word_char_not_upper a Ha). simpl. now rewrite andb_false_r.
Qed.
Lemma t4_word p c r : word_char c = true -> sall word_char r = true -> t4 p c r = false.
Proof.
  intros _ Hr. unfold t4. destruct r as [|a r]; [now rewrite andb_false_r|].
  simpl in Hr. apply andb_true_iff in Hr as [Ha _]. rewrite (word_char_not_upper a Ha). simpl. now rewrite andb_false_r.
Qed.

Lemma snake_word s : sall word_char s = true -> snake s = s.
Proof.
  intro H. unfold snake.
  rewrite (ins_pass_id t1 t1_word s None H), (ins_pass_id t2 t2_word s None H),
          (ins_pass_id t3 t3_word s None H), (ins_pass_id t4 t4_word s None H).
  now apply lower_word.
Qed.

(* ---- the two renderings of a lower_snake name ---- *)
Definition sep (c : ascii) : bool := Ascii.eqb c "_"%char || Ascii.eqb c "-"%char.
Definition join_first (l : list string) : string :=
  match l with [] => "" | x :: rest => lower x ++ sconcat (map capitalize rest) end.

Lemma srev_cons a acc : srev (String a acc) = srev acc ++ String a "".
Proof. unfold srev. simpl. now rewrite srev_acc_app. Qed.

Lemma sall_srev f s : sall f (srev s) = sall f s.
Proof.
  induction s as [|c s IH]; [reflexivity|]. rewrite srev_cons, sall_app, IH. simpl.
  rewrite andb_true_r. apply andb_comm.
Qed.

Lemma capitalize_snoc x a : x <> "" -> to_lower a = a -> capitalize (x ++ String a "") = capitalize x ++ String a "".
Proof.
  destruct x as [|c x]; [congruence|]. intros _ Ha. simpl. f_equal.
  change (lower (x ++ String a "") = lower x ++ String a ""). rewrite lower_app. unfold lower at 2. simpl. now rewrite Ha.
Qed.

Lemma srev_nonempty a acc : srev (String a acc) <> "".
Proof. rewrite srev_cons. destruct (srev acc); discriminate. Qed.

Lemma json_aux_us cap s : to_json_name_aux cap (String "_"%char s) = to_json_name_aux true s.
Proof. reflexivity. Qed.
Lemma json_aux_char cap c s : Ascii.eqb c "_"%char = false ->
  to_json_name_aux cap (String c s) = String (if cap then to_upper c else c) (to_json_name_aux false s).
Proof. intro H. simpl. now rewrite H. Qed.

(* later words: each is capitalised, i.e. the character after an underscore is upper-cased *)
Lemma later_words s : sall word_char s = true -> forall acc, sall word_char acc = true ->
  sconcat (map capitalize (split_by_acc sep s acc)) =
  (if is_empty acc then to_json_name_aux true s else capitalize (srev acc) ++ to_json_name_aux false s).
Proof.
  induction s as [|a s IH]; intros Hs acc Hacc.
  - simpl. rewrite sapp_nil_r. destruct acc; reflexivity.
  - simpl in Hs. apply andb_true_iff in Hs as [Ha Hs]. simpl split_by_acc. unfold sep at 1.
    rewrite (word_not_dash a Ha), orb_false_r.
    destruct (Ascii.eqb a "_"%char) eqn:E.
    + apply Ascii.eqb_eq in E. subst a. simpl map. simpl sconcat.
      rewrite (IH Hs "" eq_refl). simpl is_empty. rewrite !json_aux_us.
      destruct acc; [reflexivity|reflexivity].
    + assert (Hacc' : sall word_char (String a acc) = true) by (simpl; now rewrite Ha, Hacc).
      rewrite (IH Hs (String a acc) Hacc').
      destruct acc as [|b acc].
      * change (is_empty (String a "")) with false. change (is_empty "") with true. cbv iota.
        rewrite (json_aux_char true a s E). unfold srev. simpl. reflexivity.
      * change (is_empty (String a (String b acc))) with false. change (is_empty (String b acc)) with false. cbv iota.
        rewrite (json_aux_char false a s E). rewrite (srev_cons a (String b acc)).
        rewrite capitalize_snoc; [|apply srev_nonempty|now apply to_lower_word].
        rewrite sapp_assoc. reflexivity.
Qed.

(* the first word is lower-cased, which changes nothing *)
Lemma first_word s : sall word_char s = true -> forall acc, sall word_char acc = true ->
  join_first (split_by_acc sep s acc) = srev acc ++ to_json_name_aux false s.
Proof.
  induction s as [|a s IH]; intros Hs acc Hacc.
  - simpl. rewrite !sapp_nil_r. apply lower_word. now rewrite sall_srev.
  - simpl in Hs. apply andb_true_iff in Hs as [Ha Hs]. simpl split_by_acc. unfold sep at 1.
    rewrite (word_not_dash a Ha), orb_false_r.
    destruct (Ascii.eqb a "_"%char) eqn:E.
    + apply Ascii.eqb_eq in E. subst a. unfold join_first.
      rewrite (later_words s Hs "" eq_refl). simpl is_empty. rewrite json_aux_us.
      f_equal. apply lower_word. now rewrite sall_srev.
    + assert (Hacc' : sall word_char (String a acc) = true) by (simpl; now rewrite Ha, Hacc).
      rewrite (IH Hs (String a acc) Hacc'). rewrite srev_cons, sapp_assoc.
      rewrite (json_aux_char false a s E). reflexivity.
Qed.

(* for every lower_snake name (the proto style), the lowerCamel key the REST transport uses for a required query
   field is protobuf's JSON name of the field *)
Theorem camel_case_is_json_name w : sall word_char w = true -> camel_case w = to_json_name w.
Proof.
  intro H. unfold camel_case. rewrite (snake_word w H).
  change (join_first (split_by_acc sep w "") = to_json_name w).
  rewrite (first_word w H "" eq_refl). reflexivity.
Qed.

(* the hypothesis is needed: a capital letter is lower-cased by one and kept by the other *)
Lemma camel_case_capital_refuted : exists w, camel_case w <> to_json_name w.
Proof. exists "None". vm_compute. discriminate. Qed.

(* the key under which a REQUIRED query field is re-added by the REST transport: the lowerCamel form of the (possibly
   suffixed) attribute name is the JSON name of the ORIGINAL proto field *)
Theorem required_key_is_original_json_name w :
  sall word_char w = true -> camel_case (field_attr w) = to_json_name w.
Proof.
  intro H. rewrite <- (json_name_invariant w). apply camel_case_is_json_name.
  destruct (field_attr_shape w) as [E|[_ E]]; rewrite E; [exact H|].
  rewrite sall_app, H. reflexivity.
Qed.
