(* Proofs/Stubs.v — lemmas for C03 *)
From GV Require Import Base.Str Gen.StubsGen Model.Flatten Model.Stubs Proofs.Flatten.
Local Open Scope list_scope.

(* ================================================================================================ *)
(* A. the path literal is unambiguous                                                               *)
(* ================================================================================================ *)
Definition no_slash (s : string) : Prop := contains "/"%char s = false.

Lemma path_unambiguous full name :
  no_slash full -> no_slash name -> parse_path (mk_path full name) = Some (full, name).
Proof.
  intros Hf Hn. unfold parse_path, mk_path.
  change ("/" ++ full ++ "/" ++ name)%string with ("" ++ String "/"%char (full ++ String "/"%char name))%string.
  rewrite split_prefix; [|reflexivity]. rewrite split_prefix; [|assumption]. rewrite split_last; [|assumption]. reflexivity.
Qed.

Lemma stub_path_spec s m :
  no_slash (full_service s) -> no_slash (me_name m) ->
  st_path (stub_of s m) = ("/" ++ s_package s ++ "." ++ s_name s ++ "/" ++ me_name m)%string /\
  parse_path (st_path (stub_of s m)) = Some (full_service s, me_name m).
Proof.
  intros Hf Hn. split.
  - unfold stub_of, mk_path, full_service. simpl. now rewrite !sapp_assoc.
  - now apply path_unambiguous.
Qed.

Lemma stub_path_injective s1 m1 s2 m2 :
  no_slash (full_service s1) -> no_slash (me_name m1) -> no_slash (full_service s2) -> no_slash (me_name m2) ->
  st_path (stub_of s1 m1) = st_path (stub_of s2 m2) -> full_service s1 = full_service s2 /\ me_name m1 = me_name m2.
Proof.
  intros H1 H2 H3 H4 E.
  pose proof (path_unambiguous _ _ H1 H2) as P1. pose proof (path_unambiguous _ _ H3 H4) as P2.
  simpl in E. rewrite E in P1. rewrite P1 in P2. inversion P2. auto.
Qed.

(* ================================================================================================ *)
(* B. arity                                                                                         *)
(* ================================================================================================ *)
Lemma stub_kind_bijective :
  (forall cs ss, flags_of_kind (kind_of_flags cs ss) = (cs, ss)) /\
  (forall k, kind_of_flags (fst (flags_of_kind k)) (snd (flags_of_kind k)) = k) /\
  (forall k1 k2, kind_attr k1 = kind_attr k2 -> k1 = k2) /\
  (forall s m, st_kind (stub_of s m) = kind_of_flags (me_cs m) (me_ss m)).
Proof.
  repeat split.
  - intros [] []; reflexivity.
  - intros []; reflexivity.
  - intros [] [] H; try reflexivity; vm_compute in H; discriminate.
Qed.

(* ================================================================================================ *)
(* C. the attribute self.<key> is the method's own stub when the property names are distinct         *)
(* ================================================================================================ *)
Lemma live_from_notin k l : forall found, (forall x, In x l -> st_key x <> k) -> live_from k l found = found.
Proof.
  induction l as [|x l IH]; intros found H; simpl; [reflexivity|].
  rewrite IH; [|intros y Hy; apply H; now right].
  destruct (String.eqb (st_key x) k) eqn:E; [|reflexivity].
  apply String.eqb_eq in E. exfalso. apply (H x); [now left|assumption].
Qed.

Lemma live_from_unique l : forall x found,
  NoDup (map st_key l) -> In x l -> live_from (st_key x) l found = Some x.
Proof.
  induction l as [|y l IH]; intros x found ND Hin; [contradiction|].
  simpl in ND. inversion ND as [|k ks Hn ND']; subst. simpl.
  destruct Hin as [->|Hin].
  - rewrite String.eqb_refl. apply live_from_notin.
    intros z Hz E. apply Hn. rewrite <- E. now apply in_map.
  - apply IH; assumption.
Qed.

Lemma key_in_wrapped s m : In m (s_methods s) -> mem_str (key_of m) (wrapped_keys s) = true.
Proof.
  intro H. apply mem_str_In. unfold wrapped_keys. apply in_or_app. left. now apply in_map.
Qed.

Definition snake_names_distinct (s : svc) : Prop := NoDup (map st_key (transport_props s)).

Lemma dispatch_own v s m :
  snake_names_distinct s -> In m (s_methods s) ->
  dispatch v s (mkCM (client_name m) Table (key_of m)) = Some (stub_of s m) /\
  live s (key_of m) = Some (stub_of s m).
Proof.
  intros ND Hin.
  assert (L : live s (key_of m) = Some (stub_of s m)).
  { unfold live. change (key_of m) with (st_key (stub_of s m)). apply live_from_unique; [exact ND|].
    unfold transport_props. apply in_or_app. left. now apply in_map. }
  split; [|exact L]. unfold dispatch. simpl. now rewrite (key_in_wrapped s m Hin).
Qed.

Lemma live_meth_from_notin n l : forall found, (forall x, In x l -> client_name x <> n) -> live_meth_from n l found = found.
Proof.
  induction l as [|x l IH]; intros found H; simpl; [reflexivity|].
  rewrite IH; [|intros y Hy; apply H; now right].
  destruct (String.eqb (client_name x) n) eqn:E; [|reflexivity].
  apply String.eqb_eq in E. exfalso. apply (H x); [now left|assumption].
Qed.

Lemma live_meth_own s m :
  NoDup (map client_name (s_methods s)) -> In m (s_methods s) -> live_meth s (client_name m) = Some m.
Proof.
  unfold live_meth. generalize (@None meth). induction (s_methods s) as [|y l IH]; intros found ND Hin; [contradiction|].
  simpl in ND. inversion ND as [|k ks Hn ND']; subst. simpl.
  destruct Hin as [->|Hin].
  - rewrite String.eqb_refl. apply live_meth_from_notin. intros z Hz E. apply Hn. rewrite <- E. now apply in_map.
  - apply IH; assumption.
Qed.

(* the full statement: the client method of an RPC reaches that RPC's path *)
Lemma keys_distinct v s m :
  snake_names_distinct s -> NoDup (map client_name (s_methods s)) -> In m (s_methods s) ->
  live_meth s (client_name m) = Some m /\
  exists st, dispatch v s (mkCM (client_name m) Table (key_of m)) = Some st /\
             st_path st = mk_path (full_service s) (me_name m) /\
             st_kind st = kind_of_flags (me_cs m) (me_ss m).
Proof.
  intros ND NC Hin. split; [now apply live_meth_own|].
  exists (stub_of s m). split; [apply (dispatch_own v s m ND Hin)|]. split; reflexivity.
Qed.

Definition mk (n : string) (cs ss : bool) := mkMeth n cs ss true true false false false.

(* without the hypothesis: GetBook and GetBOOK get the same property name; the later definition wins *)
Lemma keys_distinct_refuted :
  exists s m, In m (s_methods s) /\ ~ snake_names_distinct s /\
    (forall v, exists st, dispatch v s (mkCM (client_name m) Table (key_of m)) = Some st /\
                          st_path st <> st_path (stub_of s m) /\ st_kind st <> st_kind (stub_of s m)) /\
    live_meth s (client_name m) <> Some m.
Proof.
  exists (mkSvc "p.v1" "Library" [mk "GetBook" false false; mk "GetBOOK" false true] [] false), (mk "GetBook" false false).
  split; [now left|]. split.
  - unfold snake_names_distinct. vm_compute. intro H. inversion H as [|x l Hn _]; subst. apply Hn. now left.
  - split.
    + intro v. eexists. split; [destruct v; vm_compute; reflexivity|]. split; vm_compute; discriminate.
    + vm_compute. discriminate.
Qed.

(* ================================================================================================ *)
(* D. every table key a client method uses is in the table                                          *)
(* ================================================================================================ *)
Lemma snake_in_mixins s n : In n (s_mixins s) -> In (snake n) (wrapped_keys s).
Proof. intro H. unfold wrapped_keys. apply in_or_app. right. now apply in_map. Qed.

Lemma lookup_total v s : forall k, In k (client_lookup_keys v s) -> In k (wrapped_keys s).
Proof.
  intros k Hk. unfold client_lookup_keys in Hk. apply in_map_iff in Hk as [c [<- Hc]].
  apply filter_In in Hc as [Hc Hf]. unfold client_methods in Hc.
  apply in_app_or in Hc as [Hc|Hc]; [|apply in_app_or in Hc as [Hc|Hc]].
  - unfold method_cms in Hc. apply in_map_iff in Hc as [m [<- Hm]]. simpl.
    unfold wrapped_keys. apply in_or_app. left. now apply in_map.
  - unfold mixin_cms in Hc. apply in_map_iff in Hc as [n [<- Hn]]. simpl.
    unfold mixins_emitted in Hn. apply filter_In in Hn as [_ Hn]. apply andb_true_iff in Hn as [Hn _].
    apply snake_in_mixins. now apply mem_str_In.
  - unfold legacy_iam_cms in Hc. destruct (s_add_iam s); [|contradiction].
    apply in_map_iff in Hc as [kn [E Hkn]]. subst c. simpl in Hf. discriminate Hf.
Qed.

(* hence no client method of an RPC or of a mixin fails in the table lookup *)
Lemma table_dispatch_defined v s c :
  In c (client_methods v s) -> cm_form c = Table -> dispatch v s c = live s (cm_key c).
Proof.
  intros Hc F. unfold dispatch. rewrite F.
  assert (K : In (cm_key c) (wrapped_keys s)).
  { apply (lookup_total v). unfold client_lookup_keys. apply in_map. apply filter_In. split; [assumption|now rewrite F]. }
  apply mem_str_In in K. now rewrite K.
Qed.

(* regression witness of the repaired defect (DESIGN section 9 no. 3): add-iam-methods without the IAM mixin *)
Lemma legacy_iam_example :
  let s := mkSvc "p.v1" "Library" [mk "GetBook" false false] [] true in
  ~ In "set_iam_policy" (wrapped_keys s) /\
  (forall v, In (mkCM "set_iam_policy" Direct "set_iam_policy") (client_methods v s)) /\
  (forall v, exists st, dispatch v s (mkCM "set_iam_policy" Direct "set_iam_policy") = Some st /\
                        st_path st = "/google.iam.v1.IAMPolicy/SetIamPolicy") /\
  dispatch Async s (mkCM "set_iam_policy" Table "set_iam_policy") = None.
Proof.
  simpl. split; [vm_compute; intros [H|[]]; discriminate|].
  split; [intros []; vm_compute; auto|]. split; [|vm_compute; reflexivity].
  intros []; eexists; split; vm_compute; reflexivity.
Qed.

(* ================================================================================================ *)
(* E. the three spellings of a request                                                              *)
(* ================================================================================================ *)
Lemma coerce_equiv v m cross pp :
  NoDup (map fst m) -> fm_wf m -> (v = Async -> cross = true -> no_maps m) ->
  let b := emit v m cross pp in
  exec b RNone [] = OSend empty_req /\
  exec b (RDict empty_req) [] = OSend empty_req /\
  exec b (RMsg empty_req) [] = OSend empty_req /\
  (forall d, exec b (RDict d) [] = OSend d) /\
  (forall r, exec b (RMsg r) [] = OSend (if cross && msg_falsy pp r then empty_req else r)).
Proof.
  intros ND WF C b. subst b.
  assert (H0 : existsb (passed []) (names m) = false) by apply passed_nil.
  assert (Hd : forall d, exec (emit v m cross pp) (RDict d) [] = OSend d).
  { intro d. apply (exec_given v m cross pp (RDict d) [] ND WF C H0). }
  assert (Hm : forall r, exec (emit v m cross pp) (RMsg r) [] = OSend (if cross && msg_falsy pp r then empty_req else r)).
  { intro r. apply (exec_given v m cross pp (RMsg r) [] ND WF C H0). }
  split; [|split; [apply Hd|split; [|split; assumption]]].
  - rewrite (exec_kwargs v m cross pp []).
    apply (apply_idle m); [|assumption]. now apply emit_covers.
  - rewrite Hm. destruct (cross && msg_falsy pp empty_req); reflexivity.
Qed.

(* ================================================================================================ *)
(* F. what the caller gets                                                                          *)
(* ================================================================================================ *)
Lemma void_returns_none m :
  me_void m = true ->
  client_output m = ONone /\
  (forall v, c_assigned (call_of v m) = false /\ c_returns (call_of v m) = false) /\
  (forall replies, me_ss m = true \/ length replies = 1 -> client_result m replies = RetNone).
Proof.
  intro V. split; [unfold client_output; now rewrite V|]. split.
  - intro v. unfold call_of. simpl. now rewrite V.
  - intros replies H. unfold client_result, client_output. rewrite V.
    destruct (me_ss m); [reflexivity|]. destruct H as [H|H]; [discriminate|].
    destruct replies as [|r [|r2 rs]]; simpl in H; try discriminate. reflexivity.
Qed.

Lemma plain_returns_reply m :
  me_void m = false ->
  (forall v, c_assigned (call_of v m) = true /\ c_returns (call_of v m) = true) /\
  (me_ss m = true -> forall replies, client_result m replies = RetStream replies) /\
  (me_ss m = false -> me_lro m = false -> me_paged m = false -> forall r, client_result m [r] = RetOne r) /\
  (forall n, requests_on_wire m n = if me_cs m then n else 1) /\
  (forall v, c_arg (call_of v m) = if me_cs m then "requests" else "request") /\
  c_awaited (call_of Sync m) = false /\ c_awaited (call_of Async m) = negb (me_ss m).
Proof.
  intro V. repeat split.
  - unfold call_of. simpl. now rewrite V.
  - unfold call_of. simpl. now rewrite V.
  - intros S replies. unfold client_result. now rewrite S, V.
  - intros S L P r. unfold client_result, client_output. now rewrite S, V, L, P.
Qed.

(* ---- non-vacuity: a service that satisfies every hypothesis ---- *)
Definition ex_svc : svc :=
  mkSvc "google.example.library.v1" "Library"
        [mk "GetBook" false false; mk "Import" false true; mk "CreateChannel" true false; mk "Get2FACode" true true;
         mkMeth "DeleteBook" false false true false true false false]
        ["GetOperation"; "GetLocation"] false.

Lemma ex_svc_ok :
  snake_names_distinct ex_svc /\ NoDup (map client_name (s_methods ex_svc)) /\
  no_slash (full_service ex_svc) /\ Forall (fun m => no_slash (me_name m)) (s_methods ex_svc) /\
  map key_of (s_methods ex_svc) = ["get_book"; "import_"; "create_channel_"; "get_2fa_code"; "delete_book"] /\
  wrapped_keys ex_svc = ["get_book"; "import_"; "create_channel_"; "get_2fa_code"; "delete_book"; "get_operation"; "get_location"] /\
  map st_path (transport_props ex_svc) =
    ["/google.example.library.v1.Library/GetBook"; "/google.example.library.v1.Library/Import";
     "/google.example.library.v1.Library/CreateChannel"; "/google.example.library.v1.Library/Get2FACode";
     "/google.example.library.v1.Library/DeleteBook"; "/google.longrunning.Operations/GetOperation";
     "/google.cloud.location.Locations/GetLocation"].
Proof.
  split; [apply nodupb_NoDup; vm_compute; reflexivity|]. split; [apply nodupb_NoDup; vm_compute; reflexivity|].
  split; [vm_compute; reflexivity|]. split; [repeat constructor|]. repeat split; vm_compute; reflexivity.
Qed.


(* a server-streaming (or bidi) RPC whose response is google.protobuf.Empty is rendered like a void unary RPC: the call
   object is neither assigned nor returned, so the caller gets None instead of the stream and cannot consume the replies *)
Lemma stream_delivers_all_refuted :
  exists m replies, me_ss m = true /\ me_void m = true /\ replies <> [] /\
    client_result m replies <> RetStream replies /\ client_result m replies = RetNone /\
    (forall v, c_assigned (call_of v m) = false /\ c_returns (call_of v m) = false /\ c_awaited (call_of v m) = false).
Proof.
  exists (mkMeth "WatchVoid" false true true false true false false), ["a"; "b"].
  repeat split; try reflexivity; try discriminate. all: destruct v; reflexivity.
Qed.
