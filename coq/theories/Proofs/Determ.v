(* Proofs/Determ.v — permutation invariance of the sorting combinators *)
From GV Require Import Base.Str Model.Determ.
From Coq Require Import Permutation Sorted.

(* ---- sleb is a total order ---- *)
Lemma ord_inj x y : ord x = ord y -> x = y.
Proof. unfold ord. intro H. rewrite <- (ascii_N_embedding x), <- (ascii_N_embedding y). now rewrite H. Qed.

Lemma sleb_refl a : sleb a a = true.
Proof. induction a as [|x a IH]; simpl; [reflexivity|]. rewrite N.ltb_irrefl. exact IH. Qed.

Lemma sleb_total a : forall b, sleb a b = true \/ sleb b a = true.
Proof.
  induction a as [|x a IH]; intros [|y b]; simpl; auto.
  destruct (N.ltb_spec (ord x) (ord y)); auto.
  destruct (N.ltb_spec (ord y) (ord x)); auto.
Qed.

Lemma sleb_antisym a : forall b, sleb a b = true -> sleb b a = true -> a = b.
Proof.
  induction a as [|x a IH]; intros [|y b]; simpl; intros H1 H2; try reflexivity; try discriminate.
  destruct (N.ltb_spec (ord x) (ord y)) as [L1|L1].
  - destruct (N.ltb_spec (ord y) (ord x)); [lia|]. discriminate.
  - destruct (N.ltb_spec (ord y) (ord x)) as [L2|L2]; [discriminate|].
    assert (ord x = ord y) by lia. apply ord_inj in H. subst. f_equal. now apply IH.
Qed.

Lemma sleb_trans a : forall b c, sleb a b = true -> sleb b c = true -> sleb a c = true.
Proof.
  induction a as [|x a IH]; intros [|y b] [|z c]; simpl; intros H1 H2; try reflexivity; try discriminate.
  destruct (N.ltb_spec (ord x) (ord y)) as [L1|L1]; destruct (N.ltb_spec (ord y) (ord z)) as [L2|L2].
  - destruct (N.ltb_spec (ord x) (ord z)); [reflexivity|lia].
  - destruct (N.ltb_spec (ord z) (ord y)); [discriminate|].
    destruct (N.ltb_spec (ord x) (ord z)); [reflexivity|lia].
  - destruct (N.ltb_spec (ord y) (ord x)); [discriminate|].
    destruct (N.ltb_spec (ord x) (ord z)); [reflexivity|lia].
  - destruct (N.ltb_spec (ord y) (ord x)); [discriminate|].
    destruct (N.ltb_spec (ord z) (ord y)); [discriminate|].
    destruct (N.ltb_spec (ord x) (ord z)); [reflexivity|].
    destruct (N.ltb_spec (ord z) (ord x)); [lia|]. eapply IH; eauto.
Qed.

Section SortBy.
  Context {A : Type}.
  Variable key : A -> string.
  Definition kle (a b : A) : Prop := sleb (key a) (key b) = true.

  Lemma insert_right_perm x l : Permutation (x :: l) (insert_right key x l).
  Proof.
    induction l as [|y l IH]; simpl; [reflexivity|].
    destruct (sleb (key y) (key x)); [|reflexivity].
    etransitivity; [apply perm_swap|]. now constructor.
  Qed.

  Lemma fold_insert_perm l : forall acc, Permutation (l ++ acc) (fold_left (fun a x => insert_right key x a) l acc).
  Proof.
    induction l as [|x l IH]; intro acc; simpl; [reflexivity|].
    etransitivity; [|apply IH]. etransitivity; [apply Permutation_middle|].
    apply Permutation_app_head. apply insert_right_perm.
  Qed.

  Lemma sort_by_perm l : Permutation l (sort_by key l).
  Proof. unfold sort_by. rewrite <- (app_nil_r l) at 1. apply fold_insert_perm. Qed.

  Lemma insert_right_sorted x l : StronglySorted kle l -> StronglySorted kle (insert_right key x l).
  Proof.
    induction l as [|y l IH]; intro H; simpl.
    - constructor; constructor.
    - inversion H as [|? ? Hs Hall]; subst.
      destruct (sleb (key y) (key x)) eqn:E.
      + constructor; [now apply IH|].
        rewrite Forall_forall. intros z Hz.
        apply (Permutation_in _ (Permutation_sym (insert_right_perm x l))) in Hz. destruct Hz as [->|Hz]; [exact E|].
        rewrite Forall_forall in Hall. now apply Hall.
      + constructor; [exact H|].
        assert (Hxy : kle x y). { unfold kle. destruct (sleb_total (key x) (key y)); [assumption|congruence]. }
        constructor; [exact Hxy|].
        rewrite Forall_forall in *. intros z Hz. unfold kle in *. eapply sleb_trans; eauto.
  Qed.

  Lemma fold_insert_sorted l : forall acc, StronglySorted kle acc ->
    StronglySorted kle (fold_left (fun a x => insert_right key x a) l acc).
  Proof. induction l as [|x l IH]; intros acc H; simpl; [exact H|]. apply IH. now apply insert_right_sorted. Qed.

  Lemma sort_by_sorted l : StronglySorted kle (sort_by key l).
  Proof. apply fold_insert_sorted. constructor. Qed.

  (* two sorted arrangements of the same elements coincide when no two elements share a key *)
  Lemma sorted_perm_unique : forall l1 l2,
    StronglySorted kle l1 -> StronglySorted kle l2 -> Permutation l1 l2 -> NoDup (map key l1) -> l1 = l2.
  Proof.
    induction l1 as [|a l1 IH]; intros l2 S1 S2 P N.
    - apply Permutation_nil in P. now subst.
    - destruct l2 as [|b l2]; [apply Permutation_sym, Permutation_nil in P; discriminate|].
      inversion S1 as [|? ? S1' A1]; inversion S2 as [|? ? S2' A2]; subst.
      assert (Hab : a = b).
      { assert (Ia : In a (b :: l2)) by (eapply Permutation_in; [exact P | now left]).
        assert (Ib : In b (a :: l1)) by (eapply Permutation_in; [exact (Permutation_sym P) | now left]).
        destruct Ia as [->|Ia]; [reflexivity|]. destruct Ib as [->|Ib]; [reflexivity|].
        rewrite Forall_forall in A1, A2. pose proof (A1 _ Ib) as L1. pose proof (A2 _ Ia) as L2.
        assert (K : key a = key b) by (apply sleb_antisym; assumption).
        (* a at the head and b inside l1 share a key: contradicts NoDup *)
        exfalso. simpl in N. inversion N as [|? ? Nin _]; subst. apply Nin. rewrite K. now apply in_map. }
      subst b. f_equal. apply IH; try assumption.
      + now apply Permutation_cons_inv in P.
      + simpl in N. now inversion N.
  Qed.

  Theorem sort_by_perm_invariant l1 l2 :
    Permutation l1 l2 -> NoDup (map key l1) -> sort_by key l1 = sort_by key l2.
  Proof.
    intros P N. apply sorted_perm_unique; try apply sort_by_sorted.
    - etransitivity; [apply Permutation_sym, sort_by_perm|]. etransitivity; [exact P|]. apply sort_by_perm.
    - eapply Permutation_NoDup; [|exact N]. apply Permutation_map. apply sort_by_perm.
  Qed.
End SortBy.

(* sorted() of a set of strings: independent of the enumeration *)
Lemma nodup_same_elements_perm (l1 l2 : list string) :
  NoDup l1 -> NoDup l2 -> (forall x, In x l1 <-> In x l2) -> Permutation l1 l2.
Proof. intros N1 N2 H. apply NoDup_Permutation; assumption. Qed.

Theorem sorted_set_invariant (s1 s2 : list string) :
  NoDup s1 -> NoDup s2 -> (forall x, In x s1 <-> In x s2) -> sorted_strs s1 = sorted_strs s2.
Proof.
  intros N1 N2 H. unfold sorted_strs. apply sort_by_perm_invariant.
  - now apply nodup_same_elements_perm.
  - now rewrite map_id.
Qed.

(* sort_lines with dedupe: the result does not depend on how set(lines) is enumerated *)
Theorem sort_lines_enum_invariant f g text :
  is_set_enum f -> is_set_enum g -> sort_lines_with f true text = sort_lines_with g true text.
Proof.
  intros Hf Hg. unfold sort_lines_with. f_equal. f_equal. f_equal.
  set (ls := filter _ _).
  destruct (Hf ls) as [Nf If]. destruct (Hg ls) as [Ng Ig].
  apply sorted_set_invariant; try assumption. intro x. rewrite If, Ig. reflexivity.
Qed.

Lemma dedup_is_set_enum : is_set_enum dedup.
Proof.
  intro l. induction l as [|x l [N I]]; simpl.
  - split; [constructor | tauto].
  - split.
    + constructor.
      * rewrite filter_In. intros [_ H]. rewrite String.eqb_refl in H. discriminate.
      * now apply NoDup_filter.
    + intro y. simpl. rewrite filter_In, I. split.
      * intros [->|[H _]]; auto.
      * intros [->|H]; auto. destruct (String.eqb x y) eqn:E; [apply String.eqb_eq in E; auto | right; split; auto].
  Qed.

(* and depends only on the SET of non-blank lines of the text *)
Theorem sort_lines_set_invariant (l1 l2 : list string) :
  (forall x, In x l1 <-> In x l2) -> sorted_strs (dedup l1) = sorted_strs (dedup l2).
Proof.
  intro H. destruct (dedup_is_set_enum l1) as [N1 I1]. destruct (dedup_is_set_enum l2) as [N2 I2].
  apply sorted_set_invariant; try assumption. intro x. rewrite I1, I2. apply H.
Qed.

(* the precise condition under which a set leaks its iteration order: two elements with equal sort keys *)
Theorem sort_by_tie_refuted :
  exists (l1 l2 : list (string * string)),
    Permutation l1 l2 /\ jinja_sort fst l1 <> jinja_sort fst l2.
Proof.
  exists [("Book", "a.x/Book"); ("book", "b.x/Book")], [("book", "b.x/Book"); ("Book", "a.x/Book")].
  split; [apply perm_swap | vm_compute; discriminate].
Qed.

(* ---- pruning by an allow-set ---- *)
Lemma mem_str_In x l : mem_str x l = true <-> In x l.
Proof.
  unfold mem_str. rewrite existsb_exists. split.
  - intros [y [Hy He]]. apply String.eqb_eq in He. subst. exact Hy.
  - intros H. exists x. split; [exact H | apply String.eqb_refl].
Qed.

Lemma mem_str_same_elements x a1 a2 : (forall y, In y a1 <-> In y a2) -> mem_str x a1 = mem_str x a2.
Proof.
  intros H. destruct (mem_str x a1) eqn:E1; destruct (mem_str x a2) eqn:E2; try reflexivity.
  - apply mem_str_In in E1. apply H in E1. apply mem_str_In in E1. congruence.
  - apply mem_str_In in E2. apply H in E2. apply mem_str_In in E2. congruence.
Qed.

Theorem prune_decl_enum_invariant decl a1 a2 :
  (forall y, In y a1 <-> In y a2) -> prune_decl decl a1 = prune_decl decl a2.
Proof.
  intros H. unfold prune_decl. apply filter_ext. intros k. apply mem_str_same_elements. exact H.
Qed.

Theorem prune_decl_keeps_exactly decl allow k : In k (prune_decl decl allow) <-> In k decl /\ In k allow.
Proof. unfold prune_decl. rewrite filter_In, mem_str_In. tauto. Qed.

Theorem prune_decl_app d1 d2 allow : (prune_decl (d1 ++ d2) allow = prune_decl d1 allow ++ prune_decl d2 allow)%list.
Proof. unfold prune_decl. apply filter_app. Qed.

Theorem prune_decl_single k allow : prune_decl [k] allow = if mem_str k allow then [k] else [].
Proof. reflexivity. Qed.

Theorem prune_by_set_same_elements decl a1 a2 k :
  (forall y, In y a1 <-> In y a2) -> (In k (prune_by_set decl a1) <-> In k (prune_by_set decl a2)).
Proof. intros H. unfold prune_by_set. rewrite !filter_In, H. tauto. Qed.

Theorem prune_by_set_refuted :
  exists decl a1 a2, NoDup a1 /\ NoDup a2 /\ (forall y, In y a1 <-> In y a2) /\
                     prune_by_set decl a1 <> prune_by_set decl a2.
Proof.
  exists ["A"; "B"], ["A"; "B"], ["B"; "A"].
  repeat split.
  - repeat constructor; simpl; intuition discriminate.
  - repeat constructor; simpl; intuition discriminate.
  - simpl; tauto.
  - simpl; tauto.
  - vm_compute. discriminate.
Qed.
