(* Proofs/FixWsIdem.v — C20: fix_whitespace is idempotent (for every text). *)
From GV Require Import Base.Str Model.FixWs Proofs.RxLemmas Proofs.FixWs Proofs.FixWsRuns.

(* ================================================================ first regex *)
Definition hd_nl (s : string) : bool := match s with String c _ => Ascii.eqb c nl | EmptyString => false end.
(* no space is directly followed by a newline *)
Fixpoint nosnb (s : string) : bool :=
  match s with
  | EmptyString => true
  | String c s' => negb (is_space c && hd_nl s') && nosnb s'
  end.

Lemma sub1_eq c s : re_sub m1 (String c s) =
  if is_space c then
    match sdrop_while is_space s with
    | String x t => if Ascii.eqb x nl then String nl (re_sub m1 t) else String c (re_sub m1 s)
    | EmptyString => String c (re_sub m1 s)
    end
  else String c (re_sub m1 s).
Proof.
  pose proof (m1_spec c s) as E. destruct (is_space c) eqn:Ec.
  - destruct (sdrop_while is_space s) as [|x t] eqn:Ed.
    + now apply re_sub_none.
    + destruct (Ascii.eqb x nl) eqn:Ex; [|now apply re_sub_none].
      apply Ascii.eqb_eq in Ex. subst x.
      rewrite (re_sub_some m1 _ _ _ (String c (stake_while is_space s) ++ nl1) E); [reflexivity| |discriminate].
      simpl. f_equal. rewrite sapp_assoc. simpl. rewrite <- Ed. apply take_drop_while.
  - now apply re_sub_none.
Qed.

Lemma length_drop_while p s : String.length (sdrop_while p s) <= String.length s.
Proof. induction s as [|c s IH]; simpl; [lia|]. destruct (p c); simpl; lia. Qed.

Lemma sall_drop_while q p s : sall q s = true -> sall q (sdrop_while p s) = true.
Proof.
  induction s as [|c s IH]; simpl; [auto|]. intro H. apply andb_true_iff in H as [Hc H].
  destruct (p c); [auto|]. simpl. now rewrite Hc, H.
Qed.

Lemma hd_nl_sub1 s : hd_nl (re_sub m1 s) = hd_nl (sdrop_while is_space s).
Proof.
  destruct s as [|c s]; [reflexivity|]. rewrite sub1_eq. simpl. destruct (is_space c) eqn:Ec.
  - destruct (sdrop_while is_space s) as [|x t]; simpl.
    + unfold is_space in Ec. apply Ascii.eqb_eq in Ec. now subst c.
    + destruct (Ascii.eqb x nl) eqn:Ex; simpl; [reflexivity|].
      unfold is_space in Ec. apply Ascii.eqb_eq in Ec. now subst c.
  - reflexivity.
Qed.

Lemma nosnb_sub1 s : nosnb (re_sub m1 s) = true.
Proof.
  remember (String.length s) as n eqn:En. revert s En.
  induction n as [n IH] using lt_wf_ind. intros s En.
  destruct s as [|c s]; [reflexivity|]. rewrite sub1_eq.
  assert (IHs : nosnb (re_sub m1 s) = true) by (eapply IH; [|reflexivity]; subst n; simpl; lia).
  destruct (is_space c) eqn:Ec.
  - destruct (sdrop_while is_space s) as [|x t] eqn:Ed.
    + simpl. rewrite Ec, IHs, hd_nl_sub1, Ed. reflexivity.
    + destruct (Ascii.eqb x nl) eqn:Ex.
      * simpl. assert (Ht : nosnb (re_sub m1 t) = true).
        { eapply IH; [|reflexivity]. subst n. pose proof (length_drop_while is_space s) as L. rewrite Ed in L. simpl in *. lia. }
        rewrite Ht. reflexivity.
      * simpl. rewrite Ec, IHs, hd_nl_sub1, Ed. simpl. now rewrite Ex.
  - simpl. rewrite Ec, IHs. reflexivity.
Qed.

Lemma spnl_bad : forall s c, is_space c = true -> nosnb (String c s) = true ->
  hd_nl (sdrop_while is_space s) = false.
Proof.
  induction s as [|d s IH]; intros c Hc H; [reflexivity|].
  cbn [nosnb] in H. rewrite Hc in H. apply andb_true_iff in H as [H1 H2].
  cbn [sdrop_while]. destruct (is_space d) eqn:Ed.
  - eapply IH; eauto. cbn [nosnb]. rewrite Ed. exact H2.
  - simpl in *. now destruct (Ascii.eqb d nl).
Qed.

Lemma sub1_fixed s : nosnb s = true -> re_sub m1 s = s.
Proof.
  induction s as [|c s IH]; [reflexivity|]. intro H.
  assert (Hs : nosnb s = true) by (cbn [nosnb] in H; now apply andb_true_iff in H as [_ H]).
  rewrite sub1_eq, (IH Hs).
  destruct (is_space c) eqn:Ec; [|reflexivity].
  pose proof (spnl_bad s c Ec H) as B.
  destruct (sdrop_while is_space s) as [|x t]; [reflexivity|]. simpl in B. now rewrite B.
Qed.

Lemma sub1_nonws c s : ws c = false -> re_sub m1 (String c s) = String c (re_sub m1 s).
Proof.
  intro H. rewrite sub1_eq. destruct (is_space c) eqn:Ec; [|reflexivity].
  apply is_space_ws in Ec. congruence.
Qed.

Lemma drop_app_some p a b x t : sdrop_while p a = String x t -> sdrop_while p (a ++ b) = String x (t ++ b).
Proof.
  induction a as [|c a IH]; simpl; [discriminate|]. destruct (p c); [exact IH|].
  intro H. inversion H; subst. reflexivity.
Qed.

Lemma drop_app_none p a b : sdrop_while p a = "" -> sdrop_while p (a ++ b) = sdrop_while p b.
Proof. induction a as [|c a IH]; simpl; [reflexivity|]. destruct (p c); [exact IH|discriminate]. Qed.

Lemma nohead_ws_drop r : nohead ws r -> sdrop_while is_space r = r /\ hd_nl r = false.
Proof.
  destruct r as [|d r]; [auto|]. simpl. intro H. split.
  - destruct (is_space d) eqn:E; [|reflexivity]. apply is_space_ws in E. congruence.
  - destruct (Ascii.eqb d nl) eqn:E; [|reflexivity]. apply Ascii.eqb_eq in E. subst d. discriminate.
Qed.

Lemma sub1_split : forall W r, sall ws W = true -> nohead ws r ->
  re_sub m1 (W ++ r) = re_sub m1 W ++ re_sub m1 r.
Proof.
  intro W. remember (String.length W) as n eqn:En. revert W En.
  induction n as [n IH] using lt_wf_ind. intros W En r HW Hr.
  destruct W as [|c W]; [reflexivity|].
  simpl in HW. apply andb_true_iff in HW as [Hc HW].
  assert (IHW : re_sub m1 (W ++ r) = re_sub m1 W ++ re_sub m1 r).
  { eapply IH; [|reflexivity| |]; auto. subst n. simpl. lia. }
  cbn [append]. rewrite !sub1_eq.
  destruct (is_space c) eqn:Ec; [|now rewrite IHW].
  destruct (sdrop_while is_space W) as [|x t] eqn:Ed.
  - rewrite (drop_app_none _ _ _ Ed). destruct (nohead_ws_drop r Hr) as [-> Hh].
    destruct r as [|d r]; [now rewrite IHW|]. simpl in Hh. rewrite Hh. now rewrite IHW.
  - rewrite (drop_app_some _ _ r _ _ Ed).
    destruct (Ascii.eqb x nl); [|now rewrite IHW].
    cbn [append]. f_equal. eapply IH; [|reflexivity| |]; auto.
    + subst n. pose proof (length_drop_while is_space W) as L. rewrite Ed in L. simpl in *. lia.
    + pose proof (sall_drop_while ws is_space W HW) as S. rewrite Ed in S. simpl in S.
      now apply andb_true_iff in S as [_ S].
Qed.

Lemma sub1_ws W : sall ws W = true -> sall ws (re_sub m1 W) = true.
Proof.
  remember (String.length W) as n eqn:En. revert W En.
  induction n as [n IH] using lt_wf_ind. intros W En HW.
  destruct W as [|c W]; [reflexivity|].
  simpl in HW. apply andb_true_iff in HW as [Hc HW].
  assert (IHW : sall ws (re_sub m1 W) = true) by (eapply IH; [|reflexivity|]; auto; subst n; simpl; lia).
  rewrite sub1_eq.
  destruct (is_space c); [|simpl; now rewrite Hc, IHW].
  destruct (sdrop_while is_space W) as [|x t] eqn:Ed; [simpl; now rewrite Hc, IHW|].
  destruct (Ascii.eqb x nl); [|simpl; now rewrite Hc, IHW].
  simpl. eapply IH; [|reflexivity|].
  - subst n. pose proof (length_drop_while is_space W) as L. rewrite Ed in L. simpl in *. lia.
  - pose proof (sall_drop_while ws is_space W HW) as S. rewrite Ed in S. simpl in S.
    now apply andb_true_iff in S as [_ S].
Qed.

Lemma sub1_nonempty W : W <> "" -> re_sub m1 W <> "".
Proof.
  destruct W as [|c W]; [congruence|]. intros _. rewrite sub1_eq.
  destruct (is_space c); [|discriminate].
  destruct (sdrop_while is_space W) as [|x t]; [discriminate|]. destruct (Ascii.eqb x nl); discriminate.
Qed.

Definition clean1 (W r : string) : Prop := nosnb W = true.

Lemma allruns_sub1 s : allruns clean1 (re_sub m1 s).
Proof.
  pose proof (allruns_total s) as A.
  induction A as [|c s Hc A IH|W r Hne HW Hr _ A IH].
  - constructor.
  - rewrite sub1_nonws by exact Hc. constructor; auto.
  - rewrite sub1_split by auto. apply ar_run; auto.
    + now apply sub1_nonempty.
    + now apply sub1_ws.
    + destruct r as [|d r]; [exact I|]. simpl in Hr. rewrite sub1_nonws by exact Hr. exact Hr.
    + apply nosnb_sub1.
Qed.

Lemma sub1_fixed_runs s : allruns clean1 s -> re_sub m1 s = s.
Proof.
  intro A. induction A as [|c s Hc A IH|W r Hne HW Hr HQ A IH].
  - reflexivity.
  - rewrite sub1_nonws by exact Hc. now rewrite IH.
  - rewrite sub1_split by auto. rewrite IH. now rewrite (sub1_fixed W HQ).
Qed.

(* ================================================================ helpers for the run shapes *)
Fixpoint count_nl (s : string) : nat :=
  match s with EmptyString => 0 | String c s' => (if Ascii.eqb c nl then 1 else 0) + count_nl s' end.

Lemma count_nl_app a b : count_nl (a ++ b) = count_nl a + count_nl b.
Proof. induction a as [|c a IH]; simpl; [reflexivity|]. rewrite IH. lia. Qed.

Lemma count_nl_rep_sp n : count_nl (rep n sp) = 0.
Proof. induction n; simpl; auto. Qed.

Lemma last_char_eq : forall x y c d, x ++ s1 c = y ++ s1 d -> c = d.
Proof.
  induction x as [|a x IH]; intros [|b y] c d E; simpl in E.
  - now inversion E.
  - inversion E as [[E1 E2]]. symmetry in E2. apply app_nil_inv in E2 as [_ E2]. discriminate.
  - inversion E as [[E1 E2]]. apply app_nil_inv in E2 as [_ E2]. discriminate.
  - inversion E. eauto.
Qed.

Lemma rep_snoc n c : rep (S n) c = rep n c ++ s1 c.
Proof. induction n as [|n IH]; [reflexivity|]. cbn [rep append] in *. f_equal. exact IH. Qed.

Lemma nohead_nonws_app w rest : w <> "" -> sall nonws w = true -> nohead ws (w ++ rest).
Proof.
  destruct w as [|c w]; [congruence|]. simpl. intros _ H. apply andb_true_iff in H as [H _].
  unfold nonws in H. now destruct (ws c).
Qed.

Lemma hd_nl_rep_sp n : hd_nl (rep n sp) = false.
Proof. destruct n; reflexivity. Qed.

Lemma nosnb_rep_sp n : nosnb (rep n sp) = true.
Proof. induction n as [|n IH]; [reflexivity|]. simpl. rewrite hd_nl_rep_sp, IH. reflexivity. Qed.

Lemma c3_nonws c : is_c3 c = true -> ws c = false.
Proof. destruct c as [[] [] [] [] [] [] [] []]; intro H; try reflexivity; discriminate H. Qed.

(* ================================================================ second regex as a run-local matcher *)
Definition shape2 (W : string) : Prop :=
  exists c0 a1 a2 a3, W = String c0 (a1 ++ String nl (a2 ++ String nl (a3 ++ nl1))) /\
    ws c0 = true /\ sall ws a1 = true /\ sall ws a2 = true /\ sall ws a3 = true.
Definition start2 (r : string) : Prop := exists w rest, In w kw2 /\ r = w ++ rest.
Definition Out2 (o : string) : Prop := o = nl3.
Notation C2 := (C shape2 start2).

Lemma kw2_nonws w : In w kw2 -> sall nonws w = true /\ w <> "".
Proof. simpl. intros [<-|[<-|[<-|[<-|[<-|[]]]]]]; split; (reflexivity || discriminate). Qed.

Lemma m2_nows c s : ws c = false -> m2 (String c s) = None.
Proof. intro H. unfold m2. now apply plus_nohead. Qed.

Lemma shape2_ws W : shape2 W -> sall ws W = true.
Proof.
  intros (c0 & a1 & a2 & a3 & -> & H0 & H1 & H2 & H3). simpl. rewrite H0. rewrite sall_app, H1. simpl.
  rewrite sall_app, H2. simpl. rewrite sall_app, H3. reflexivity.
Qed.

Lemma m2_run_sound W r repl rest : W <> "" -> sall ws W = true -> nohead ws r ->
  m2 (W ++ r) = Some (repl, rest) ->
  C2 W r /\ exists o x, Out2 o /\ sall nonws x = true /\ r = x ++ rest /\ repl = o ++ x.
Proof.
  intros Hne HW Hr H.
  apply m2_sound in H as (c0 & a1 & a2 & a3 & w & E & H0 & H1 & H2 & H3 & Hin & ->).
  destruct (kw2_nonws w Hin) as [Hw Hwn].
  set (W' := String c0 (a1 ++ String nl (a2 ++ String nl (a3 ++ nl1)))).
  assert (S' : shape2 W') by (exists c0, a1, a2, a3; auto).
  assert (E' : W ++ r = W' ++ (w ++ rest)) by (rewrite E; unfold W', nl1, s1; napp; reflexivity).
  destruct (run_unique ws W r W' (w ++ rest) HW (shape2_ws _ S') Hr (nohead_nonws_app w rest Hwn Hw) E') as [-> ->].
  split; [split; [exact S' | exists w, rest; auto]|].
  exists nl3, w. repeat split; auto.
Qed.

Lemma m2_run_complete W r : W <> "" -> sall ws W = true -> nohead ws r -> C2 W r -> m2 (W ++ r) <> None.
Proof.
  intros _ _ _ [(c0 & a1 & a2 & a3 & -> & H0 & H1 & H2 & H3) (w & rest & Hin & ->)].
  assert (E : String c0 (a1 ++ String nl (a2 ++ String nl (a3 ++ nl1))) ++ w ++ rest
              = String c0 (a1 ++ String nl (a2 ++ String nl (a3 ++ String nl (w ++ rest)))))
    by (unfold nl1, s1; napp; reflexivity).
  rewrite E. now apply m2_complete.
Qed.

Lemma shape2_mono c W : ws c = true -> shape2 W -> shape2 (String c W).
Proof.
  intros Hc (c0 & a1 & a2 & a3 & -> & H0 & H1 & H2 & H3).
  exists c, (String c0 a1), a2, a3. repeat split; auto. simpl. now rewrite H0, H1.
Qed.

Lemma start2_word r r' : word r = word r' -> start2 r -> start2 r'.
Proof.
  intros E (w & rest & Hin & Hr). destruct (kw2_nonws w Hin) as [Hw _].
  destruct (starts_word w r r' rest Hw E Hr) as (rest' & ->). exists w, rest'. auto.
Qed.

Lemma Out2_ws o : Out2 o -> o <> "" /\ sall ws o = true.
Proof. intros ->. split; [discriminate | reflexivity]. Qed.

(* ================================================================ third regex as a run-local matcher *)
Definition shape3 (W : string) : Prop :=
  exists c0 a1 a2 j, W = String c0 (a1 ++ String nl (a2 ++ String nl (rep (4 * S j) sp))) /\
    ws c0 = true /\ sall ws a1 = true /\ sall ws a2 = true.
Definition start3 (r : string) : Prop := exists c rest, r = String c rest /\ is_c3 c = true.
Definition Out3 (o : string) : Prop := exists j, o = nl2 ++ rep (4 * S j) sp.
Notation C3 := (C shape3 start3).

Lemma m3_nows c s : ws c = false -> m3 (String c s) = None.
Proof. intro H. unfold m3. now apply plus_nohead. Qed.

Lemma rep_sp_ws n : sall ws (rep n sp) = true.
Proof. apply spaces_ws, rep_sp_space. Qed.

Lemma shape3_ws W : shape3 W -> sall ws W = true.
Proof.
  intros (c0 & a1 & a2 & j & -> & H0 & H1 & H2). simpl. rewrite H0. rewrite sall_app, H1. simpl.
  rewrite sall_app, H2. cbn [sall]. rewrite rep_sp_ws. reflexivity.
Qed.

Lemma m3_run_sound W r repl rest : W <> "" -> sall ws W = true -> nohead ws r ->
  m3 (W ++ r) = Some (repl, rest) ->
  C3 W r /\ exists o x, Out3 o /\ sall nonws x = true /\ r = x ++ rest /\ repl = o ++ x.
Proof.
  intros Hne HW Hr H.
  apply m3_sound in H as (c0 & a1 & a2 & j & c & E & H0 & H1 & H2 & Hc & ->).
  pose proof (c3_nonws c Hc) as Hcw.
  set (W' := String c0 (a1 ++ String nl (a2 ++ String nl (rep (4 * S j) sp)))).
  assert (S' : shape3 W') by (exists c0, a1, a2, j; auto).
  assert (E' : W ++ r = W' ++ String c rest) by (rewrite E; unfold W'; napp; reflexivity).
  destruct (run_unique ws W r W' (String c rest) HW (shape3_ws _ S') Hr Hcw E') as [-> ->].
  split; [split; [exact S' | exists c, rest; auto]|].
  exists (nl2 ++ rep (4 * S j) sp), (s1 c). repeat split.
  - now exists j.
  - simpl. unfold nonws. now rewrite Hcw.
Qed.

Lemma m3_run_complete W r : W <> "" -> sall ws W = true -> nohead ws r -> C3 W r -> m3 (W ++ r) <> None.
Proof.
  intros _ _ _ [(c0 & a1 & a2 & j & -> & H0 & H1 & H2) (c & rest & -> & Hc)].
  assert (E : String c0 (a1 ++ String nl (a2 ++ String nl (rep (4 * S j) sp))) ++ String c rest
              = String c0 (a1 ++ String nl (a2 ++ String nl (rep (4 * S j) sp ++ String c rest))))
    by (napp; reflexivity).
  rewrite E. now apply m3_complete.
Qed.

Lemma shape3_mono c W : ws c = true -> shape3 W -> shape3 (String c W).
Proof.
  intros Hc (c0 & a1 & a2 & j & -> & H0 & H1 & H2).
  exists c, (String c0 a1), a2, j. repeat split; auto. simpl. now rewrite H0, H1.
Qed.

Lemma start3_word r r' : word r = word r' -> start3 r -> start3 r'.
Proof.
  intros E (c & rest & Hr & Hc).
  assert (Hw : sall nonws (s1 c) = true) by (simpl; unfold nonws; now rewrite (c3_nonws c Hc)).
  destruct (starts_word (s1 c) r r' rest Hw E Hr) as (rest' & ->). exists c, rest'. auto.
Qed.

Lemma Out3_ws o : Out3 o -> o <> "" /\ sall ws o = true.
Proof. intros (j & ->). split; [discriminate|]. rewrite sall_app, rep_sp_ws. reflexivity. Qed.

(* ================================================================ runs that can never match *)
Lemma not_shape2_short W : String.length W <= 3 -> ~ shape2 W.
Proof.
  intros L (c0 & a1 & a2 & a3 & -> & _). simpl in L. rewrite !length_app in L. simpl in L.
  rewrite !length_app in L. simpl in L. rewrite !length_app in L. simpl in L. lia.
Qed.

Lemma not_shape2_spaces x j : ~ shape2 (x ++ rep (4 * S j) sp).
Proof.
  intros (c0 & a1 & a2 & a3 & E & _).
  replace (4 * S j) with (S (3 + 4 * j)) in E by lia. rewrite rep_snoc in E.
  assert (E2 : (x ++ rep (3 + 4 * j) sp) ++ s1 sp = (String c0 (a1 ++ String nl (a2 ++ String nl a3))) ++ s1 nl).
  { rewrite sapp_assoc, E. unfold nl1, s1. napp. reflexivity. }
  apply last_char_eq in E2. discriminate.
Qed.

Lemma not_shape3_endnl x : ~ shape3 (x ++ nl1).
Proof.
  intros (c0 & a1 & a2 & j & E & _).
  replace (4 * S j) with (S (3 + 4 * j)) in E by lia. rewrite rep_snoc in E.
  assert (E2 : x ++ s1 nl = (String c0 (a1 ++ String nl (a2 ++ String nl (rep (3 + 4 * j) sp)))) ++ s1 sp).
  { unfold nl1 in E. rewrite E. napp. reflexivity. }
  apply last_char_eq in E2. discriminate.
Qed.

Lemma not_shape3_out j : ~ shape3 (nl2 ++ rep (4 * S j) sp).
Proof.
  intros (c0 & a1 & a2 & j' & E & _).
  unfold nl2, nl1, s1 in E. cbn [append] in E. inversion E as [[E0 E1]]. clear E E0.
  apply (f_equal count_nl) in E1. cbn [count_nl] in E1.
  rewrite !count_nl_app in E1. cbn [count_nl] in E1. rewrite !count_nl_app in E1. cbn [count_nl] in E1.
  rewrite !count_nl_rep_sp in E1. rewrite Ascii.eqb_refl in E1. lia.
Qed.

(* ================================================================ the invariant of the output *)
Definition Inv (W r : string) : Prop := clean1 W r /\ ~ C2 W r /\ ~ C3 W r.

Lemma Inv_word W r r' : word r = word r' -> Inv W r -> Inv W r'.
Proof.
  intros E (H1 & H2 & H3). split; [exact H1|]. split.
  - intros [Hs Hst]. apply H2. split; auto. eapply start2_word; [symmetry; exact E | exact Hst].
  - intros [Hs Hst]. apply H3. split; auto. eapply start3_word; [symmetry; exact E | exact Hst].
Qed.

Lemma fixws_output_runs code : allruns Inv (fix_whitespace code).
Proof.
  unfold fix_whitespace.
  apply allruns_rstrip_nl; [exact Inv_word | |].
  { split; [reflexivity|]. split; intros [Hs _].
    - revert Hs. apply not_shape2_short. simpl. lia.
    - revert Hs. apply (not_shape3_endnl ""). }
  apply (allruns_re_sub m3 shape3 start3 Out3 m3_nows m3_run_sound m3_run_complete shape3_mono Out3_ws
           (fun W r => clean1 W r /\ ~ C2 W r)).
  - apply (allruns_re_sub m2 shape2 start2 Out2 m2_nows m2_run_sound m2_run_complete shape2_mono Out2_ws clean1).
    + apply allruns_sub1.
    + intros W r _ _ _ Hc Hn. split; [exact Hc|].
      now apply (nomatch_stable m2 shape2 start2 Out2 m2_nows m2_run_sound m2_run_complete shape2_mono start2_word Out2_ws).
    + intros W r o _ _ ->. split; [reflexivity|]. intros [Hs _]. revert Hs. apply not_shape2_short. simpl. lia.
  - intros W r _ _ _ [Hc H2] H3. split; [exact Hc|]. split.
    + intros [Hs Hst]. apply H2. split; auto. eapply start2_word; [|exact Hst].
      apply (word_re_sub m3 shape3 start3 Out3 m3_nows m3_run_sound m3_run_complete shape3_mono Out3_ws).
    + now apply (nomatch_stable m3 shape3 start3 Out3 m3_nows m3_run_sound m3_run_complete shape3_mono start3_word Out3_ws).
  - intros W r o _ _ (j & ->). split; [|split].
    + unfold clean1. unfold nl2, nl1, s1. cbn [append nosnb]. rewrite nosnb_rep_sp. reflexivity.
    + intros [Hs _]. revert Hs. apply not_shape2_spaces.
    + intros [Hs _]. revert Hs. apply not_shape3_out.
Qed.

Theorem fixws_idempotent code : fix_whitespace (fix_whitespace code) = fix_whitespace code.
Proof.
  pose proof (fixws_output_runs code) as A.
  set (out := fix_whitespace code) in *.
  assert (E1 : re_sub m1 out = out).
  { apply sub1_fixed_runs. eapply allruns_weaken; [|exact A]. now intros W r (H & _). }
  assert (E2 : re_sub m2 out = out).
  { apply (re_sub_fixed m2 shape2 start2 Out2 m2_nows m2_run_sound shape2_mono). eapply allruns_weaken; [|exact A]. now intros W r (_ & H & _). }
  assert (E3 : re_sub m3 out = out).
  { apply (re_sub_fixed m3 shape3 start3 Out3 m3_nows m3_run_sound shape3_mono). eapply allruns_weaken; [|exact A]. now intros W r (_ & _ & H). }
  unfold fix_whitespace at 1. rewrite E1, E2, E3.
  unfold out, fix_whitespace. rewrite rstrip_app_ws by reflexivity.
  rewrite (rstrip_of_tidy _ (rstrip_tidy _)). reflexivity.
Qed.
