(* Proofs/ResPath.v — lemmas for C19 *)
From GV Require Import Base.Str Model.ResPath.

Lemma lazy_group_spec f n :
  forall v acc r e,
    v <> "" -> contains nl v = false ->
    f r = Some e ->
    (forall a v2 pre, pre ++ String a v2 = v -> pre <> "" -> f (String a v2 ++ r) = None) ->
    lazy_group f n acc (v ++ r) = Some ((n, acc ++ v) :: e).
Proof.
  induction v as [|a v IH]; intros acc r e Hne Hnl Hf Hrej; [congruence|].
  simpl in Hnl. apply orb_false_iff in Hnl as [Ha Hnl].
  simpl. rewrite Ha.
  destruct v as [|b v'].
  - simpl. rewrite Hf. reflexivity.
  - assert (Hrej1 : f (String b v' ++ r) = None).
    { apply (Hrej b v' (s1 a)); [reflexivity | discriminate]. }
    rewrite Hrej1.
    rewrite (IH (acc ++ s1 a) r e); try assumption; try discriminate.
    + unfold s1. now rewrite sapp_assoc.
    + intros a2 v2 pre Hpre Hpne.
      apply (Hrej a2 v2 (String a pre)); [simpl; now rewrite Hpre | discriminate].
Qed.

Lemma contains_split c pre a v2 : contains c (pre ++ String a v2) = false -> Ascii.eqb c a = false.
Proof.
  induction pre as [|x pre IH]; simpl; intro H.
  - apply orb_false_iff in H as [H _]. now rewrite Ascii.eqb_sym.
  - apply orb_false_iff in H as [_ H]. auto.
Qed.

Lemma parse_build_toks : forall p vals, ok p vals -> match_toks p (build_toks p vals) = Some vals.
Proof.
  induction p as [|t p IH]; intros vals Hok.
  - simpl in *. subst. reflexivity.
  - destruct t as [c|n].
    + simpl in *. rewrite Ascii.eqb_refl. auto.
    + destruct vals as [|[n' v] vals']; [contradiction|].
      destruct Hok as (-> & Hne & Hnl & Hnext & Hok').
      cbn [build_toks match_toks].
      rewrite (lazy_group_spec (match_toks p) n v "" (build_toks p vals') vals'); auto.
      intros a v2 pre Hsplit Hpne.
      destruct p as [|[c|m] p']; try contradiction.
      * (* last variable: '$' rejects a non-empty, newline-free remainder *)
        simpl. rewrite <- Hsplit in Hnl.
        destruct v2; simpl.
        -- pose proof (contains_split nl pre a "" Hnl) as E. rewrite Ascii.eqb_sym in E. now rewrite E.
        -- reflexivity.
      * (* followed by the delimiter c, which the value avoids *)
        rewrite <- Hsplit in Hnext.
        pose proof (contains_split c pre a v2 Hnext) as E.
        cbn [match_toks build_toks append]. rewrite Ascii.eqb_sym in E. now rewrite E.
Qed.

(* what a successful lazy group tells us *)
Lemma lazy_group_inv f n : forall s acc e',
  lazy_group f n acc s = Some e' ->
  exists v r e, e' = (n, acc ++ v) :: e /\ s = v ++ r /\ v <> "" /\ contains nl v = false /\ f r = Some e.
Proof.
  induction s as [|a s IH]; intros acc e' H; simpl in H; [discriminate|].
  destruct (Ascii.eqb a nl) eqn:Ea; [discriminate|].
  destruct (f s) as [e|] eqn:Ef.
  - inversion H; subst. exists (s1 a), s, e. repeat split; try discriminate; auto.
    simpl. now rewrite Ea.
  - apply IH in H as (v & r & e & -> & -> & Hne & Hnl & Hf).
    exists (String a v), r, e. repeat split; auto; try discriminate.
    + unfold s1. now rewrite sapp_assoc.
    + simpl. now rewrite Ea.
Qed.

Definition nls : string := s1 nl.

Lemma at_end_inv s : at_end s = true -> s = "" \/ s = nls.
Proof.
  destruct s as [|a [|b s]]; simpl; intro H; auto; try discriminate.
  apply Ascii.eqb_eq in H. subst. now right.
Qed.

Lemma build_parse_toks : forall p s e,
  match_toks p s = Some e -> s = build_toks p e \/ s = build_toks p e ++ nls.
Proof.
  induction p as [|t p IH]; intros s e H.
  - simpl in H. destruct (at_end s) eqn:E; [|discriminate]. inversion H; subst. simpl.
    apply at_end_inv in E. exact E.
  - destruct t as [c|n]; simpl in H.
    + destruct s as [|a s]; [discriminate|]. destruct (Ascii.eqb a c) eqn:E; [|discriminate].
      apply Ascii.eqb_eq in E. subst a. apply IH in H as [-> | ->]; [left|right]; reflexivity.
    + apply lazy_group_inv in H as (v & r & e0 & -> & -> & _ & _ & Hf).
      apply IH in Hf as [-> | ->]; simpl; [left | right]; [reflexivity|]. now rewrite sapp_assoc.
Qed.

(* every captured value is non-empty and newline-free *)
Lemma parse_values_wf : forall p s e,
  match_toks p s = Some e -> Forall (fun kv => snd kv <> "" /\ contains nl (snd kv) = false) e.
Proof.
  induction p as [|t p IH]; intros s e H.
  - simpl in H. destruct (at_end s); inversion H. constructor.
  - destruct t as [c|n]; simpl in H.
    + destruct s as [|a s]; [discriminate|]. destruct (Ascii.eqb a c); [eauto|discriminate].
    + apply lazy_group_inv in H as (v & r & e0 & -> & -> & Hne & Hnl & Hf).
      constructor; [simpl; auto | eauto].
Qed.

Lemma parse_keys : forall p s e, match_toks p s = Some e -> map fst e = args p.
Proof.
  induction p as [|t p IH]; intros s e H.
  - simpl in H. destruct (at_end s); inversion H. reflexivity.
  - destruct t as [c|n]; simpl in H.
    + destruct s as [|a s]; [discriminate|]. destruct (Ascii.eqb a c); [eauto|discriminate].
    + apply lazy_group_inv in H as (v & r & e0 & -> & -> & _ & _ & Hf). simpl. f_equal. eauto.
Qed.

Lemma nonmatch_toks p s :
  (forall e, s <> build_toks p e /\ s <> build_toks p e ++ nls) -> match_toks p s = None.
Proof.
  intro H. destruct (match_toks p s) as [e|] eqn:E; [|reflexivity].
  apply build_parse_toks in E. destruct (H e) as [H1 H2]. destruct E; contradiction.
Qed.

(* okb reflects ok *)
Lemma okb_ok : forall p vals, okb p vals = true -> ok p vals.
Proof.
  induction p as [|t p IH]; intros vals H.
  - destruct vals; simpl in *; [reflexivity|discriminate].
  - destruct t as [c|n]; simpl in *; [auto|].
    destruct vals as [|[n' v] vals']; [discriminate|].
    repeat (apply andb_true_iff in H as [H ?]).
    apply String.eqb_eq in H. subst n'.
    repeat split; auto.
    + destruct v; [discriminate|discriminate].
    + now apply negb_true_iff.
    + destruct p as [|[c|m] p']; auto; [now apply negb_true_iff | discriminate].
Qed.

(* ---- statements at the level of pattern strings (what Properties/C19.v exports) ---- *)
Lemma parse_build_pattern pattern vals :
  pattern <> "*" -> ok (tokenize pattern) vals -> parse pattern (build pattern vals) = vals.
Proof.
  intros Hs Hok. unfold parse, build.
  destruct (String.eqb pattern "*") eqn:E; [apply String.eqb_eq in E; contradiction|].
  now rewrite parse_build_toks.
Qed.

Lemma build_parse_pattern pattern path e :
  match_toks (tokenize pattern) path = Some e ->
  (path = build pattern e \/ path = build pattern e ++ nls) /\
  map fst e = args (tokenize pattern) /\
  Forall (fun kv => snd kv <> "" /\ contains nl (snd kv) = false) e.
Proof.
  intro H. split; [|split].
  - now apply build_parse_toks.
  - eapply parse_keys; eauto.
  - eapply parse_values_wf; eauto.
Qed.

Lemma build_parse_exact pattern path e :
  contains nl path = false ->
  match_toks (tokenize pattern) path = Some e -> build pattern e = path.
Proof.
  intros Hnl H. apply build_parse_toks in H as [H|H]; [now symmetry|].
  exfalso. rewrite H in Hnl. unfold build in Hnl. rewrite contains_app in Hnl.
  apply orb_false_iff in Hnl as [_ Hnl]. vm_compute in Hnl. discriminate.
Qed.

Lemma nonmatch_pattern pattern path :
  (forall e, path <> build pattern e /\ path <> build pattern e ++ nls) -> parse pattern path = [].
Proof.
  intro H. unfold parse. destruct (String.eqb pattern "*"); [reflexivity|].
  unfold build in H. now rewrite nonmatch_toks.
Qed.

Lemma star_pattern path : parse "*" path = [] /\ build "*" [] = "*" /\ regex_str "*" = "^.*$".
Proof. repeat split. Qed.
