(* Proofs/DetermSites.v — the regenerated inventory is exactly the classified table *)
From GV Require Import Base.Str Gen.DetermSites Model.DetermSites.
Definition classified_keys : list string := map fst CLASSIFIED.
Lemma every_site_classified_b : forallb (fun s => mem_str s classified_keys) SITES = true.
Proof. vm_compute. reflexivity. Qed.
Lemma no_stale_entry_b : forallb (fun s => mem_str s SITES) classified_keys = true.
Proof. vm_compute. reflexivity. Qed.
Lemma same_count : length SITES = length classified_keys.
Proof. vm_compute. reflexivity. Qed.
