(* C02 — generated message and enum classes are wire-compatible with the input descriptors.
   Only statements, closed by [exact], each followed by Print Assumptions.
   emit_* model the generator (tied by T1 on every emitted types module), runtime_file / rt_msg model proto-plus and Python's
   class-body scoping as an executable contract (tied by T2 against Class.pb(Class()).DESCRIPTOR on every generated class). *)
From GV Require Import Base.Str Gen.Kw Model.Reserved Proofs.Reserved Model.Types Proofs.Types.
From Coq Require Import ZArith.

(* For every message m of a target file (at any nesting depth), under the hypotheses wf_msg (attributes and map-entry names
   distinct, every enum has zero as least number) and refs_ok (every printed reference resolves where it is printed):
   proto-plus builds a descriptor from the emitted declaration, and that descriptor has the same wire view as the input —
   per field: attribute, number, type, type name, repeated, real-oneof membership (by name), proto3 optional, map key and value
   types; recursively the same nested messages; the same enums with the same (name, number) values. *)
Theorem C02_decl_roundtrip : forall api names tab ltypes globals pkg module m prefix parent,
  wf_msg pkg module prefix parent m = true ->
  refs_ok api names tab ltypes globals pkg module prefix parent m = true ->
  exists r, rt_msg tab (dotted pkg) ltypes globals prefix (emit_msg api names pkg module parent m) = Some ([], [r])
            /\ view_rt prefix r = view_in pkg module parent m
            /\ rm_map_entry r = false.
Proof. exact decl_roundtrip. Qed.
Print Assumptions C02_decl_roundtrip.

(* the same for a whole types module, with the module-level scope (imports in emitted order, classes bound as they are
   created) built by the model itself; file_ok is decidable and is evaluated by the harness on every generated file *)
Theorem C02_file_roundtrip : forall api tab f,
  file_ok api tab f = true ->
  exists ms, runtime_file tab (emit_header api f) (emit_file api f) = Some (map enum_view (fd_enums f), ms)
             /\ map (view_rt (dotted (fd_pkg f))) ms = map (view_in (fd_pkg f) (fd_module f) []) (fd_msgs f).
Proof. exact file_roundtrip. Qed.
Print Assumptions C02_file_roundtrip.

(* the Python attribute is the proto field name, with exactly one underscore appended iff the name is reserved *)
Theorem C02_attr_name_spec : forall api names pkg module parent n fs os ns es b,
  nodup_str (map (fun f => field_attr (f_name f)) fs) = true ->
  exists body decls, emit_msg api names pkg module parent (Msg n fs os ns es b) = DMsg n body decls
    /\ map d_attr decls = map (fun f => field_attr (f_name f)) fs
    /\ forall w, (reserved w = true -> field_attr w = w ++ "_") /\ (reserved w = false -> field_attr w = w).
Proof. exact attr_name_spec. Qed.
Print Assumptions C02_attr_name_spec.

(* protobuf derives the JSON name from the descriptor's field name = the attribute; the suffix does not change it, so the
   JSON key is the lowerCamel form of the ORIGINAL proto name *)
Theorem C02_json_name_invariant : forall api names at_ os ns f,
  to_json_name (d_attr (emit_field api names at_ os ns f)) = to_json_name (f_name f).
Proof. exact emitted_json_name. Qed.
Print Assumptions C02_json_name_invariant.

(* the manifest names exactly the top-level classes of the module, in order (enums, then messages) *)
Theorem C02_manifest_complete : forall api f, map decl_name (emit_file api f) = h_manifest (emit_header api f).
Proof. exact manifest_complete. Qed.
Print Assumptions C02_manifest_complete.

(* Address.rel, partial: a reference denotes the type it was printed for as soon as its first name is bound, where it is
   evaluated, to what rel assumes (quoted references need nothing of the scope).  NOT proved: that the binding exists for
   every protoc-valid schema — it does not: C02_pb2_shadow_refuted. *)
Theorem C02_rel_resolves_partial : forall api names tab ltypes locals globals self at_ k,
  head_bound api names tab ltypes locals globals self at_ k = true ->
  resolve tab (dotted (a_pkg at_)) ltypes locals globals (Some (kw_of k, rel api names self at_)) = Some (full_name self).
Proof. exact rel_resolves_partial. Qed.
Print Assumptions C02_rel_resolves_partial.

(* since 2f90e4e an unquoted same-file reference is printed only inside a top-level message, for a type nested in it *)
Theorem C02_rel_unquoted_only_top_level : forall api names self at_ c,
  rel api names self at_ = RX c ->
  list_eqb String.eqb (a_pkg self) (a_pkg at_) && String.eqb (a_module self) (a_module at_) = true ->
  a_parent at_ = [] /\ exists ptl, a_parent self = a_name at_ :: ptl /\ c = (ptl ++ [a_name self])%list.
Proof. exact rel_RX_same_file. Qed.
Print Assumptions C02_rel_unquoted_only_top_level.

(* regression witness of the fixed finding C02-rel-nested-named-like-toplevel (also corpus/C02/rel-misfire*.json) *)
Theorem C02_rel_nested_like_toplevel_ok :
  rel api0 [] (mkAddr PK "main" ["Foo"] "Bar") (mkAddr PK "main" ["X"] "Foo") = RQ "Foo.Bar"
  /\ file_ok api0 [] (w_misfire false) = true /\ file_ok api0 [] (w_misfire true) = true.
Proof. exact rel_nested_like_toplevel_ok. Qed.
Print Assumptions C02_rel_nested_like_toplevel_ok.

(* refuted on the code as it is (the witness is a corpus entry replayed on the implementation; known finding) *)
Theorem C02_pb2_shadow_refuted :
  map imp_local (h_imports (emit_header api0 (w_pb2 "B"))) = ["thing_pb2"; "thing_pb2"]
  /\ map imp_line (h_imports (emit_header api0 (w_pb2 "B"))) = ["from fab.baz import thing_pb2"; "from foo.bar import thing_pb2"]
  /\ forallb (wf_msg PK "main" "google.example.c02.v1" []) (fd_msgs (w_pb2 "B")) = true
  /\ file_ok api0 (w_tab "B") (w_pb2 "B") = false
  /\ runtime_file (w_tab "B") (emit_header api0 (w_pb2 "B")) (emit_file api0 (w_pb2 "B")) = None
  /\ exists ms, runtime_file (w_tab "A") (emit_header api0 (w_pb2 "A")) (emit_file api0 (w_pb2 "A")) = Some ([], ms)
                /\ map (view_rt "google.example.c02.v1") ms <> map (view_in PK "main" []) (fd_msgs (w_pb2 "A")).
Proof. exact pb2_shadow_refuted. Qed.
Print Assumptions C02_pb2_shadow_refuted.

Theorem C02_enum_negative_refuted :
  exists f e, In e (fd_enums f)
    /\ (match e_values e with (_, 0%Z) :: _ => True | _ => False end)
    /\ NoDup (map snd (e_values e)) /\ NoDup (map fst (e_values e))
    /\ enum_ok e = false
    /\ runtime_file [] (emit_header api0 f) (emit_file api0 f) = None.
Proof. exact enum_negative_refuted. Qed.
Print Assumptions C02_enum_negative_refuted.

(* non-vacuity: a schema with nesting depth 3, recursion, forward and cross-file and dependency-package references, a
   reserved-word field and map, a real oneof, proto3 optional, two maps (message-valued), an unsorted enum — satisfies
   file_ok (hence wf_msg and refs_ok for each of its messages) *)
Example C02_hypotheses_hold : file_ok api0 ex_tab ex_file = true.
Proof. exact ex_file_ok. Qed.
Print Assumptions C02_hypotheses_hold.

(* selective generation (service yaml selective_gapic_generation, omitting mode): when the allow-list is closed under the
   package-local types of fields, under nested types of a kept top-level class and under the enclosing top-level class of a kept
   type (what the fixed point in API.build establishes), every package-local type reference printed inside an emitted class
   denotes a class that is emitted as well.  Proofs.Types.sx_once_not_closed: after a single sweep of the enclosing-message rule
   the hypothesis and the conclusion both fail on rpc -> Outer.Mid, Outer.inner : Other.Inner.  The allow-list itself is not
   modelled here (C16 models which types are kept); the direct oracle of the check judges the libraries /repo emits. *)
Theorem C02_selective_refs_emitted : forall kept decls,
  closed kept decls = true ->
  forall r, In r (printed_refs kept decls) -> emitted kept r = true.
Proof. exact closure_refs_emitted. Qed.
Print Assumptions C02_selective_refs_emitted.
