(* C08 — long-running methods return futures typed by google.longrunning.operation_info.
   Only statements, closed by [exact], each followed by Print Assumptions. *)
From Coq Require Import Permutation.
From GV Require Import Base.Str Model.Lro Proofs.Lro.

(* the three-way table of the property: raw Operation / rejected / future typed by the two resolved names *)
Theorem C08_lro_decision : forall files pkg m,
  m_output m = OPERATION_TYPE ->
  (m_opinfo m = None -> decide files pkg m = Raw) /\
  (forall oi, m_opinfo m = Some oi ->
     ((oi_response oi = "" \/ oi_metadata oi = "") -> decide files pkg m = Rejected ErrMissingType) /\
     (oi_response oi <> "" -> oi_metadata oi <> "" ->
        let rk := resolve_lro files pkg (oi_response oi) in
        let mk := resolve_lro files pkg (oi_metadata oi) in
        (known files rk = true -> known files mk = true -> decide files pkg m = Lro rk mk) /\
        (known files rk = false -> decide files pkg m = Rejected (ErrUnknownType rk)) /\
        (known files rk = true -> known files mk = false -> decide files pkg m = Rejected (ErrUnknownType mk)))).
Proof. exact lro_decision. Qed.
Print Assumptions C08_lro_decision.

Theorem C08_lro_accepted_sound : forall files pkg m r mt,
  decide files pkg m = Lro r mt ->
  exists oi, m_opinfo m = Some oi /\ oi_response oi <> "" /\ oi_metadata oi <> "" /\
             r = resolve_lro files pkg (oi_response oi) /\ mt = resolve_lro files pkg (oi_metadata oi) /\
             In r (universe files) /\ In mt (universe files).
Proof. exact lro_accepted_sound. Qed.
Print Assumptions C08_lro_accepted_sound.

Theorem C08_lro_rejected_sound : forall files pkg m e,
  decide files pkg m = Rejected e ->
  exists oi, m_opinfo m = Some oi /\
    match e with
    | ErrMissingType => oi_response oi = "" \/ oi_metadata oi = ""
    | ErrUnknownType k =>
        exists sel, (sel = oi_response oi \/ sel = oi_metadata oi) /\ k = resolve pkg sel /\
                    known files (resolve pkg sel) = false /\ known files (relative_key pkg sel) = false
    end.
Proof. exact lro_rejected_sound. Qed.
Print Assumptions C08_lro_rejected_sound.

(* every long-running rpc is decided on its own annotation: a shared response type does not share the metadata type *)
Theorem C08_lro_shared_response_distinct_metadata : forall files pkg m1 m2 oi1 oi2 r1 mt1 r2 mt2,
  m_opinfo m1 = Some oi1 -> m_opinfo m2 = Some oi2 ->
  oi_response oi1 = oi_response oi2 ->
  decide files pkg m1 = Lro r1 mt1 -> decide files pkg m2 = Lro r2 mt2 ->
  r1 = r2 /\
  mt1 = resolve_lro files pkg (oi_metadata oi1) /\ mt2 = resolve_lro files pkg (oi_metadata oi2) /\
  (resolve_lro files pkg (oi_metadata oi1) <> resolve_lro files pkg (oi_metadata oi2) -> mt1 <> mt2).
Proof. exact lro_shared_response_distinct_metadata. Qed.
Print Assumptions C08_lro_shared_response_distinct_metadata.

Example C08_shared_response_example :
  let files := [mkFile "a/b.proto" "a.b" [] ["a.b.Book"; "a.b.CreateMeta"; "a.b.UpdateMeta"]] in
  decide files "a.b" (mkMethod "Create" OPERATION_TYPE (Some (mkOp "Book" "CreateMeta"))) = Lro "a.b.Book" "a.b.CreateMeta" /\
  decide files "a.b" (mkMethod "Update" OPERATION_TYPE (Some (mkOp "Book" "UpdateMeta"))) = Lro "a.b.Book" "a.b.UpdateMeta".
Proof. exact ex_shared_response. Qed.
Print Assumptions C08_shared_response_example.

(* a name without a dot is relative to the method's package, anything else is taken as written *)
Theorem C08_lro_resolve_spec : forall pkg sel,
  (contains dot sel = false -> resolve pkg sel = pkg ++ "." ++ sel /\ starts_with (pkg ++ ".") (resolve pkg sel) = true) /\
  (contains dot sel = true -> resolve pkg sel = sel) /\
  contains dot (resolve pkg sel) = true /\
  resolve pkg (resolve pkg sel) = resolve pkg sel.
Proof. exact lro_resolve_spec. Qed.
Print Assumptions C08_lro_resolve_spec.

(* _resolve_lro_type: the name as written wins whenever it names a message (also when the package-relative reading
   names one too); otherwise the package-relative reading; with neither the as-written key is kept *)
Theorem C08_lro_resolve_fallback_spec : forall files pkg sel,
  (known files (resolve pkg sel) = true -> resolve_lro files pkg sel = resolve pkg sel) /\
  (known files (resolve pkg sel) = false -> known files (relative_key pkg sel) = true ->
     resolve_lro files pkg sel = relative_key pkg sel) /\
  (known files (resolve pkg sel) = false -> known files (relative_key pkg sel) = false ->
     resolve_lro files pkg sel = resolve pkg sel) /\
  (contains dot sel = false -> resolve_lro files pkg sel = relative_key pkg sel) /\
  (known files (resolve_lro files pkg sel) = known files (resolve pkg sel) || known files (relative_key pkg sel)).
Proof. exact lro_resolve_fallback_spec. Qed.
Print Assumptions C08_lro_resolve_fallback_spec.

Theorem C08_lro_as_written_wins : forall files pkg sel,
  contains dot sel = true -> known files sel = true -> known files (relative_key pkg sel) = true ->
  resolve_lro files pkg sel = sel.
Proof. exact lro_as_written_wins. Qed.
Print Assumptions C08_lro_as_written_wins.

(* a package-relative dotted name of an existing (nested) message is accepted *)
Theorem C08_nested_relative_name_accepted : forall files pkg m oi,
  ends_with OPERATION_SUFFIX (m_output m) = true -> m_opinfo m = Some oi ->
  oi_response oi <> "" -> oi_metadata oi <> "" ->
  known files (resolve pkg (oi_response oi)) = false -> known files (relative_key pkg (oi_response oi)) = true ->
  known files (resolve pkg (oi_metadata oi)) = false -> known files (relative_key pkg (oi_metadata oi)) = true ->
  decide files pkg m = Lro (relative_key pkg (oi_response oi)) (relative_key pkg (oi_metadata oi)).
Proof. exact nested_relative_name_accepted. Qed.
Print Assumptions C08_nested_relative_name_accepted.

(* resolution succeeds iff the message exists in ANY file of the request ... *)
Theorem C08_lro_lookup_total : forall files key,
  known files key = true <-> exists f, In f files /\ In key (f_messages f).
Proof. exact lro_lookup_total. Qed.
Print Assumptions C08_lro_lookup_total.

(* ... in whatever order the request lists the files ... *)
Theorem C08_decide_order_independent : forall files files' pkg m,
  Permutation files files' -> decide files pkg m = decide files' pkg m.
Proof. exact decide_order_independent. Qed.
Print Assumptions C08_decide_order_independent.

(* ... whatever the service's file imports *)
Theorem C08_lro_lookup_ignores_imports : forall files key (service_file f : file),
  In service_file files -> In f files -> In key (f_messages f) ->
  known files key = true /\
  (forall deps', known (map (fun g => mkFile (f_name g) (f_package g) deps' (f_messages g)) files) key = true).
Proof. exact lro_lookup_ignores_imports. Qed.
Print Assumptions C08_lro_lookup_ignores_imports.

Theorem C08_missing_type_rejected : forall files pkg m oi async,
  ends_with OPERATION_SUFFIX (m_output m) = true -> m_opinfo m = Some oi ->
  (oi_response oi = "" \/ oi_metadata oi = "") ->
  decide files pkg m = Rejected ErrMissingType /\ client_output async (decide files pkg m) = None.
Proof. exact missing_type_rejected. Qed.
Print Assumptions C08_missing_type_rejected.

(* for every history not_done^k . done(response | error): k GetOperation calls, result and metadata are instances
   of the annotated types, which are messages of the request *)
Theorem C08_future_types : forall files pkg m r mt async,
  decide files pkg m = Lro r mt ->
  forall (nd : list operation) (fin : operation),
  Forall not_done nd -> o_done fin = true ->
  match (nd ++ [fin])%list with
  | [] => False
  | initial :: replies =>
      let ob := run_future (emit_wrap async r mt) initial replies in
      ob_get_operation_calls ob = length nd /\
      (forall url payload, o_result fin = Response (mkAny url payload) -> type_name url = Some r ->
         ob_result ob = Returned (Instance r payload)) /\
      (forall code msg, o_result fin = Failed code msg ->
         ob_result ob = Raised (if async then EApiError msg else EStatus code msg)) /\
      (forall url payload, o_metadata fin = Some (mkAny url payload) -> type_name url = Some mt ->
         ob_metadata ob = Returned (Instance mt payload)) /\
      (o_metadata fin = None -> ob_metadata ob = Returned PyNone) /\
      In r (universe files) /\ In mt (universe files)
  end.
Proof. exact future_types. Qed.
Print Assumptions C08_future_types.

Theorem C08_future_other_type_refused : forall async r mt (nd : list operation) (fin : operation) url payload other,
  Forall not_done nd -> o_done fin = true ->
  o_result fin = Response (mkAny url payload) -> type_name url = Some other -> other <> r ->
  match (nd ++ [fin])%list with
  | [] => False
  | initial :: replies => ob_result (run_future (emit_wrap async r mt) initial replies) = Raised (ETypeError r)
  end.
Proof. exact future_other_type_refused. Qed.
Print Assumptions C08_future_other_type_refused.

(* a server that never finishes is reported as such *)
Theorem C08_poll_exhausted : forall (nd : list operation) (initial : operation) (calls : nat),
  not_done initial -> Forall not_done nd ->
  exists last, poll initial nd calls = (last, calls + length nd, false).
Proof. exact poll_exhausted. Qed.
Print Assumptions C08_poll_exhausted.

(* the transports offer operations_client iff some method of the service, public or internal, is an LRO *)
Theorem C08_ops_client_iff_some_lro : forall ms,
  has_operations_client ms = true <-> exists m r mt, In m ms /\ sm_decision m = Lro r mt.
Proof. exact ops_client_iff_some_lro. Qed.
Print Assumptions C08_ops_client_iff_some_lro.

Theorem C08_ops_client_ignores_visibility : forall ms f,
  has_operations_client (map (fun m => mkSM (f m) (sm_decision m)) ms) = has_operations_client ms.
Proof. exact ops_client_ignores_visibility. Qed.
Print Assumptions C08_ops_client_ignores_visibility.

Theorem C08_future_has_operations_client : forall ms m async w,
  In m ms -> client_output async (sm_decision m) = Some (ReturnsFuture w) -> has_operations_client ms = true.
Proof. exact future_has_operations_client. Qed.
Print Assumptions C08_future_has_operations_client.

Example C08_internal_lro_example :
  has_operations_client [mkSM false Plain; mkSM true (Lro "a.R" "a.M")] = true /\
  has_operations_client [mkSM false Plain; mkSM true Raw] = false /\
  client_output true (Lro "a.R" "a.M") = Some (ReturnsFuture (emit_wrap true "a.R" "a.M")).
Proof. exact ex_internal_lro. Qed.
Print Assumptions C08_internal_lro_example.

(* http_options of the REST operations client: every binding (primary and additional) of every Operations rule of the
   service YAML is printed under its selector, in order, one entry per rule, keys distinct *)
Theorem C08_ops_http_options_complete : forall rules sel pb,
  (exists bs, In (sel, bs) (ops_http_options rules) /\ In pb bs) <->
  (exists r b, In r rules /\ hr_selector r = sel /\ starts_with OPERATIONS_PREFIX sel = true /\
               In (Some b) (hr_bindings r) /\ pb = print_binding b).
Proof. exact ops_http_options_complete. Qed.
Print Assumptions C08_ops_http_options_complete.

Theorem C08_ops_http_options_order : forall rules,
  map fst (ops_http_options rules) = map hr_selector (filter is_operations_rule rules) /\
  (forall r, In r rules -> is_operations_rule r = true ->
     In (hr_selector r, map print_binding (usable (hr_bindings r))) (ops_http_options rules)).
Proof. exact ops_http_options_order. Qed.
Print Assumptions C08_ops_http_options_order.

Theorem C08_ops_http_options_keys_distinct : forall rules,
  NoDup (map hr_selector rules) -> NoDup (map fst (ops_http_options rules)).
Proof. exact ops_http_options_keys_distinct. Qed.
Print Assumptions C08_ops_http_options_keys_distinct.

(* path_prefix of the operations transport (rest.py and rest_asyncio.py): the last segment of the package *)
Theorem C08_ops_path_prefix_spec : forall p v,
  contains dot v = false ->
  ops_path_prefix (p ++ "." ++ v) = v /\ ops_path_prefix v = v /\
  forall name, default_poll_path (p ++ "." ++ v) name = "/" ++ v ++ "/" ++ name.
Proof. exact ops_path_prefix_spec. Qed.
Print Assumptions C08_ops_path_prefix_spec.

Example C08_path_prefix_example :
  ops_path_prefix "acme.jobs.v2" = "v2" /\ ops_path_prefix "google.cloud.batchy.v1beta1" = "v1beta1" /\ ops_path_prefix "simple" = "simple" /\
  default_poll_path "acme.jobs.v2" "projects/p/operations/op-1" = "/v2/projects/p/operations/op-1".
Proof. exact ex_path_prefix. Qed.
Print Assumptions C08_path_prefix_example.

Example C08_ops_http_options_example :
  let get := mkHR "google.longrunning.Operations.GetOperation"
               [Some (mkB "get" "/v1/{name=projects/*/operations/*}" ""); Some (mkB "get" "/v1/{name=organizations/*/operations/*}" "");
                None; Some (mkB "get" "/v1/{name=folders/*/operations/*}" "")] in
  let cancel := mkHR "google.longrunning.Operations.CancelOperation" [Some (mkB "post" "/v1/{name=projects/*/operations/*}:cancel" "*")] in
  let other := mkHR "google.cloud.location.Locations.GetLocation" [Some (mkB "get" "/v1/{name=projects/*/locations/*}" "")] in
  ops_http_options [get; other; cancel] =
    [("google.longrunning.Operations.GetOperation",
      [mkPB "get" "/v1/{name=projects/*/operations/*}" None; mkPB "get" "/v1/{name=organizations/*/operations/*}" None;
       mkPB "get" "/v1/{name=folders/*/operations/*}" None]);
     ("google.longrunning.Operations.CancelOperation", [mkPB "post" "/v1/{name=projects/*/operations/*}:cancel" (Some "*")])]
  /\ NoDup (map hr_selector [get; other; cancel]).
Proof. exact ex_ops_http_options. Qed.
Print Assumptions C08_ops_http_options_example.

(* the former finding, now accepted, and the precedence when both readings name a message *)
Example C08_nested_relative_example :
  let f1 := [mkFile "a/b.proto" "a.b" [] ["a.b.Outer"; "a.b.Outer.Inner"]] in
  let f2 := (mkFile "outer.proto" "Outer" [] ["Outer.Inner"] :: f1)%list in
  let m := mkMethod "Start" OPERATION_TYPE (Some (mkOp "Outer.Inner" "Outer.Inner")) in
  decide f1 "a.b" m = Lro "a.b.Outer.Inner" "a.b.Outer.Inner" /\
  decide f2 "a.b" m = Lro "Outer.Inner" "Outer.Inner" /\
  known f1 (resolve "a.b" "Outer.Inner") = false /\ known f1 (relative_key "a.b" "Outer.Inner") = true /\
  decide f1 "a.b" (mkMethod "Start" OPERATION_TYPE (Some (mkOp "Outer.Nope" "Outer.Inner"))) = Rejected (ErrUnknownType "Outer.Nope").
Proof. exact nested_relative_example. Qed.
Print Assumptions C08_nested_relative_example.

(* non-vacuity: every hypothesis above holds of a concrete request whose response type lives in a file that is
   listed after the service's file and imported by nobody, with a history of two not-done snapshots *)
Example C08_hypotheses_hold :
  decide ex_files "google.example.lro.v1" ex_method = Lro "google.example.lro.v1.OtherResp" "google.example.lro.v1.LocalMeta"
  /\ Forall not_done ex_nd /\ o_done ex_fin = true
  /\ type_name "type.googleapis.com/google.example.lro.v1.OtherResp" = Some "google.example.lro.v1.OtherResp"
  /\ run_future (emit_wrap false "google.example.lro.v1.OtherResp" "google.example.lro.v1.LocalMeta")
                (mkOperation false None NoResult) (tl ex_nd ++ [ex_fin])%list
     = mkObs (Returned (Instance "google.example.lro.v1.OtherResp" "r"))
             (Returned (Instance "google.example.lro.v1.LocalMeta" "m2")) 2
  /\ decide ex_files "google.example.lro.v1" (mkMethod "Start" OPERATION_TYPE None) = Raw
  /\ decide ex_files "google.example.lro.v1" (mkMethod "Start" OPERATION_TYPE (Some (mkOp "" "LocalMeta"))) = Rejected ErrMissingType
  /\ decide ex_files "google.example.lro.v1" (mkMethod "Start" OPERATION_TYPE (Some (mkOp "Nope" "LocalMeta")))
     = Rejected (ErrUnknownType "google.example.lro.v1.Nope").
Proof. exact ex_hypotheses. Qed.
Print Assumptions C08_hypotheses_hold.
