(* C01 — every generated library is importable Python with the requested clients.  PARTIAL: proved here are the
   transport/client gating facts over the regenerated template list; that each template renders to importable Python
   for every schema is only exercised by the harness (see DESIGN.md 6.1 and 10). *)
From GV Require Import Base.Str Gen.Templates Model.Render Proofs.Render Model.Files Proofs.Files Model.Imports Proofs.Imports.

(* for every supported option set: every intra-package import printed by an emitted service module targets an emitted
   module, and every transport class the registry offers has its module emitted *)
Theorem C01_transport_imports_closed : forall o,
  supported o = true -> imports_closed o = true /\ registry_backed o = true.
Proof. exact imports_closed_supported. Qed.
Print Assumptions C01_transport_imports_closed.

Theorem C01_registry_spec : forall o, o_rest_async o = false ->
  (forall k, In k (registry o) <-> ((k = "grpc" \/ k = "grpc_asyncio") /\ o_grpc o = true) \/ (k = "rest" /\ o_rest o = true))
  /\ default_transport o = (if o_grpc o then Some "grpc" else if o_rest o then Some "rest" else None).
Proof. exact registry_spec. Qed.
Print Assumptions C01_registry_spec.

Theorem C01_clients_spec : forall o, o_grpc o || o_rest o = true ->
  mem_str "client" (emitted_modules o) = true /\
  mem_str "async_client" (emitted_modules o) = (o_grpc o || o_rest_async o).
Proof. exact clients_spec. Qed.
Print Assumptions C01_clients_spec.

Theorem C01_async_rest_without_grpc_refuted : exists o, o_grpc o || o_rest o = true /\ imports_closed o = false.
Proof. exact async_rest_without_grpc_refuted. Qed.
Print Assumptions C01_async_rest_without_grpc_refuted.

(* ---- import statements computed from addresses (metadata.Address.python_import) ----
   A type belongs to the API being generated when its package is the API package or one of its sub-packages, by segments ... *)
Theorem C01_in_api_segmentwise : forall n a,
  in_api n a = true <-> api_pkg n = [] \/ exists rest, a_pkg a = (api_pkg n ++ rest)%list.
Proof. exact in_api_segmentwise. Qed.
Print Assumptions C01_in_api_segmentwise.

(* ... not when the dotted names merely share a textual prefix (foo.v1 / foo.v1beta1) *)
Theorem C01_in_api_textual_refuted : exists n a, in_api_textual n a = true /\ in_api n a = false.
Proof. exact in_api_textual_refuted. Qed.
Print Assumptions C01_in_api_textual_refuted.

(* an in-package import resolves to <namespace>/<name_version>/<sub-package>/types/<module>.py ... *)
Theorem C01_in_api_import_file : forall n a,
  in_api n a = true ->
  import_file n a =
    (sjoin "/" (mod_ns n ++ [vmod n]) ++ "/" ++
     (match subpackage n a with [] => "" | sub => sjoin "/" sub ++ "/" end) ++ "types/" ++ a_mod a ++ ".py")%string.
Proof. exact in_api_import_file. Qed.
Print Assumptions C01_in_api_import_file.

(* ... which is the file the generator emits for the types module of that proto file (the placement theorem of C11), for proto
   sub-packages of any depth: every import of a type of the API itself targets an emitted module *)
Theorem C01_in_api_import_targets_emitted_types_module : forall ra old n u a,
  wf_rapi ra old -> In u (ra_protos ra) ->
  root_of ra = sjoin "/" (mod_ns n ++ [vmod n]) ->
  a_pkg a = (api_pkg n ++ u_sub u)%list -> a_mod a = u_module u ->
  import_file n a = inst_name ra (mk_inst types_tpl (u_sub u) None (Some (u_module u))).
Proof. exact in_api_import_targets_emitted_types_module. Qed.
Print Assumptions C01_in_api_import_targets_emitted_types_module.

Theorem C01_dependency_import : forall n a,
  in_api n a = false -> existsb (list_eqb String.eqb (a_pkg a)) (ppdeps n) = false ->
  import_of n a = (a_pkg a, (a_mod a ++ "_pb2")%string).
Proof. exact dependency_import. Qed.
Print Assumptions C01_dependency_import.

Example C01_imports_nontrivial :
  let n := {| api_pkg := ["google"; "example"; "v1"]; mod_ns := ["google"]; vmod := "example_v1"; ppdeps := [["google"; "dep"; "v2"]] |} in
  import_file n {| a_pkg := ["google"; "example"; "v1"; "admin"; "deep"]; a_mod := "common" |} = "google/example_v1/admin/deep/types/common.py"
  /\ import_of n {| a_pkg := ["google"; "example"; "v1beta1"]; a_mod := "common" |} = (["google"; "example"; "v1beta1"], "common_pb2")
  /\ import_of n {| a_pkg := ["google"; "dep"; "v2"]; a_mod := "money" |} = (["google"; "dep_v2"; "types"], "money").
Proof. vm_compute. repeat split; reflexivity. Qed.
Print Assumptions C01_imports_nontrivial.

Example C01_nontrivial :
  emitted_modules {| o_grpc := false; o_rest := true; o_rest_async := false |}
  = ["__init__"; "client"; "pagers"; "transports/__init__"; "transports/base"; "transports/rest"; "transports/rest_base"]
  /\ supported {| o_grpc := true; o_rest := true; o_rest_async := false |} = true.
Proof. vm_compute. split; reflexivity. Qed.
Print Assumptions C01_nontrivial.
