(* C01 — every generated library is importable Python with the requested clients.  PARTIAL: proved here are the
   transport/client gating facts over the regenerated template list; that each template renders to importable Python
   for every schema is only exercised by the harness (see DESIGN.md 6.1 and 10). *)
From GV Require Import Base.Str Gen.Templates Model.Render Proofs.Render.

(* for every supported option set: every intra-package import printed by an emitted service module targets an emitted
   module, and every transport class the registry offers has its module emitted *)
Theorem C01_transport_imports_closed : forall o,
  supported o = true -> imports_closed o = true /\ registry_backed o = true.
Proof. exact imports_closed_supported. Qed.
Print Assumptions C01_transport_imports_closed.

Theorem C01_registry_spec : forall o, o_rest_async o = false ->
  (forall k, In k (registry o) <-> ((k = "grpc" \/ k = "grpc_asyncio") /\ o_grpc o = true) \/ (k = "rest" /\ o_rest o = true))
  /\ default_transport o = (if o_grpc o then Some "grpc" else if o_rest o then Some "rest" else None).
Proof. exact registry_spec. Qed.
Print Assumptions C01_registry_spec.

Theorem C01_clients_spec : forall o, o_grpc o || o_rest o = true ->
  mem_str "client" (emitted_modules o) = true /\
  mem_str "async_client" (emitted_modules o) = (o_grpc o || o_rest_async o).
Proof. exact clients_spec. Qed.
Print Assumptions C01_clients_spec.

Theorem C01_async_rest_without_grpc_refuted : exists o, o_grpc o || o_rest o = true /\ imports_closed o = false.
Proof. exact async_rest_without_grpc_refuted. Qed.
Print Assumptions C01_async_rest_without_grpc_refuted.

Example C01_nontrivial :
  emitted_modules {| o_grpc := false; o_rest := true; o_rest_async := false |}
  = ["__init__"; "client"; "pagers"; "transports/__init__"; "transports/base"; "transports/rest"; "transports/rest_base"]
  /\ supported {| o_grpc := true; o_rest := true; o_rest_async := false |} = true.
Proof. vm_compute. split; reflexivity. Qed.
Print Assumptions C01_nontrivial.
