(* C12 — reserved-word and colliding names are disambiguated without altering the wire.
   Statements only; lists RESERVED_NAMES / KWLIST / ... are regenerated from /repo on every run (Gen/Kw.v). *)
From GV Require Import Base.Str Gen.Kw Model.Case Model.HttpValues Model.Http Model.Reserved Proofs.CamelJson Proofs.Reserved.

(* every Python keyword of the interpreter that imports the emitted code is in the generator's reserved list *)
Theorem C12_kwlist_subset_reserved : forall w, In w KWLIST -> reserved w = true.
Proof. intros w H. apply kw_reserved. unfold is_kw. now apply mem_str_In. Qed.
Print Assumptions C12_kwlist_subset_reserved.

(* the finite cross product of the property (bound: WORDS = RESERVED_NAMES ++ KWLIST, nine rendered positions) *)
Theorem C12_all_positions_safe : forall w, In w WORDS -> forallb (fun b => b) (position_ok w) = true.
Proof. pose proof all_positions_ok_b as H. unfold all_positions_ok in H. rewrite forallb_forall in H. exact H. Qed.
Print Assumptions C12_all_positions_safe.

(* general: for EVERY identifier, reserved or not, the rendered attribute is a legal non-keyword name,
   differing from the proto name by exactly one trailing underscore iff the name is reserved *)
Theorem C12_field_attr_ok : forall w, is_ident w = true -> python_ok (field_attr w) = true.
Proof. exact field_attr_ok. Qed.
Print Assumptions C12_field_attr_ok.

Theorem C12_suffix_once : forall w, field_attr w = w \/ (reserved w = true /\ field_attr w = w ++ "_").
Proof. exact field_attr_shape. Qed.
Print Assumptions C12_suffix_once.

(* dotted paths (http path variables, implicit and explicit routing fields): every component is safe *)
Theorem C12_fix_path_ok : forall p, forallb is_ident (split_on "."%char p) = true -> chain_ok (fix_path p) = true.
Proof. exact fix_path_ok. Qed.
Print Assumptions C12_fix_path_ok.

Theorem C12_body_attr_ok : forall b, is_ident b = true -> python_ok (body_attr b) = true.
Proof. exact body_attr_ok. Qed.
Print Assumptions C12_body_attr_ok.

Theorem C12_method_attr_ok : forall n, is_ident (lower n) = true -> python_ok (lower (client_method_name n)) = true.
Proof. exact method_attr_ok. Qed.
Print Assumptions C12_method_attr_ok.

Theorem C12_transport_attr_ok : forall n, is_ident (lower n) = true ->
  python_ok (lower (transport_safe_name n)) = true /\
  mem_str (lower (transport_safe_name n)) (TRANSPORT_UNSAFE ++ KWLIST) = false.
Proof. exact transport_attr_ok. Qed.
Print Assumptions C12_transport_attr_ok.

(* the JSON (lowerCamel) name is blind to the suffix: the wire JSON key stays that of the proto name *)
Theorem C12_json_name_invariant : forall w, to_json_name (field_attr w) = to_json_name w.
Proof. exact json_name_invariant. Qed.
Print Assumptions C12_json_name_invariant.

(* proto file names: the disambiguation loop terminates (no fuel exhaustion) and returns a name that is not taken, and
   neither that name nor its snake-case form (the module the types are written to: Import.proto -> import_) is a keyword
   or a name the client classes use (metadata, retry, timeout, request, transport) *)
Theorem C12_fname_terminates_fresh : forall name visited,
  exists r, sanitize_fname name visited = Some r /\ mem_str r visited = false /\
            invalid_module r = false /\ invalid_module (snake r) = false.
Proof. exact sanitize_total. Qed.
Print Assumptions C12_fname_terminates_fresh.

(* module-name collisions: the alias of a colliding module is a function of its package's initials, so two colliding
   modules of one base name are told apart exactly when the initials of their packages differ ... *)
Theorem C12_module_alias_distinct_iff : forall p1 p2 v m,
  module_alias p1 v m true = module_alias p2 v m true <-> pkg_initials p1 v = pkg_initials p2 v.
Proof. exact module_alias_distinct_iff. Qed.
Print Assumptions C12_module_alias_distinct_iff.

(* ... and the property's claim for every pair of packages is false of the code: google.example.kw.v1.alpha and
   google.example.kw.v1.apple both yield geka_common (known finding C12-alias-same-initials; replayed on the generator
   by the harness, kind modcoll with sub-packages alpha/apple) *)
(* a types module named like a module the emitted service code imports (re, json, os, gapic_v1, ...) is imported under its alias,
   and an alias never equals the bare module name *)
Theorem C12_imported_module_aliased : forall p v m c,
  imported_name m = true -> module_alias p v m c = pkg_initials p v ++ "_" ++ m.
Proof. exact imported_module_aliased. Qed.
Print Assumptions C12_imported_module_aliased.

Theorem C12_alias_differs_from_module : forall p v m, module_alias p v m true <> m.
Proof. exact alias_differs_from_module. Qed.
Print Assumptions C12_alias_differs_from_module.

Theorem C12_module_alias_same_initials_refuted :
  exists p1 p2 v m, p1 <> p2 /\ module_alias p1 v m true = module_alias p2 v m true.
Proof. exact module_alias_same_initials_refuted. Qed.
Print Assumptions C12_module_alias_same_initials_refuted.

(* REQUIRED query fields over REST: the transport re-adds them under camel_case(attribute name).  For every lower_snake
   proto name (reserved or not) that key is the JSON name of the ORIGINAL field, so the wire name is not altered ... *)
Theorem C12_required_query_key_is_original : forall w,
  sall word_char w = true -> camel_case (field_attr w) = to_json_name w.
Proof. exact required_key_is_original_json_name. Qed.
Print Assumptions C12_required_query_key_is_original.

Theorem C12_camel_case_is_json_name : forall w, sall word_char w = true -> camel_case w = to_json_name w.
Proof. exact camel_case_is_json_name. Qed.
Print Assumptions C12_camel_case_is_json_name.

(* ... and the hypothesis is needed: a capital letter (the reserved words None / True / False) is lower-cased by one
   function and kept by the other (known finding C12-capitalised-required-query-field) *)
Theorem C12_camel_case_capital_refuted : exists w, camel_case w <> to_json_name w.
Proof. exact camel_case_capital_refuted. Qed.
Print Assumptions C12_camel_case_capital_refuted.

Example C12_examples :
  field_attr "class" = "class_" /\ fix_path "book.class.name" = "book.class_.name" /\ body_attr "import" = "import_"
  /\ sanitize_fname "import" ["import_"; "import__"] = Some "import___" /\ sanitize_fname "a.b" [] = Some "a_b"
  /\ sanitize_fname "retry" [] = Some "retry_" /\ lower (client_method_name "Import") = "import_"
  /\ module_alias ["foo"; "bar_baz"; "v1"] "v1" "thing" true = "fbb_thing"
  /\ is_ident "class" = true /\ is_ident (lower "Import") = true.
Proof. vm_compute. repeat split. Qed.
Print Assumptions C12_examples.
