(* C05 — flattened keyword arguments are equivalent to an explicit request object.
   Only statements, closed by [exact], each followed by Print Assumptions.
   Model: Model/Flatten.v (fields_mapping, the emitted block as an IR for the sync macro and the asyncio template,
   same-package and cross-package requests, and the Values contract for running it). *)
From GV Require Import Base.Str Gen.FlattenGen Model.Flatten Proofs.Flatten.

(* the keys of every mapping are pairwise distinct, in the order of first mention; the value is the last mention's;
   both templates offer exactly these parameters in this order *)
Theorem C05_params_in_declared_order : forall sch input cross sigs m,
  fields_mapping sch input cross sigs = Some m ->
  (forall v pp, b_params (emit v m cross pp) = map (fun kf => r_name (snd kf)) m) /\
  (exists items,
     items = flat_map (item_list sch input cross) (filter (fun p => negb (is_empty p)) (all_pieces sigs)) /\
     map fst m = dedup_first [] (map fst items) /\
     (forall k, assoc k m = assoc k (rev items))) /\
  NoDup (map fst m).
Proof. exact params_in_declared_order. Qed.
Print Assumptions C05_params_in_declared_order.

(* the mapping is an error exactly when some non-empty piece of some signature does not resolve *)
Theorem C05_mapping_error_iff : forall sch input cross pieces,
  seq_items sch input cross pieces = None <->
  exists p, In p pieces /\ is_empty p = false /\ sig_item sch input cross p = None.
Proof. exact seq_items_error. Qed.
Print Assumptions C05_mapping_error_iff.

Theorem C05_mapping_fields_wf : forall sch input cross sigs m,
  fields_mapping sch input cross sigs = Some m -> fm_wf m.
Proof. exact fields_mapping_wf. Qed.
Print Assumptions C05_mapping_fields_wf.

(* a cross-package mapping holds primitive fields only, hence no maps: the hypothesis of the two theorems below
   about the asyncio cross-package block holds of every mapping the generator computes *)
Theorem C05_cross_mapping_no_maps : forall sch input sigs m,
  fields_mapping sch input true sigs = Some m -> no_maps m /\ (forall kf, In kf m -> r_primitive (snd kf) = true).
Proof. exact fields_mapping_cross_no_maps. Qed.
Print Assumptions C05_cross_mapping_no_maps.

(* every segment of a flattened key is the attribute name of its own field, hence no Python keyword, and the parameter
   is still the leaf; so the emitted attribute paths parse (replaces C05_reserved_segment_refuted: /repo commit 318bb4b).
   For proto-plus messages whose field names are plain identifiers; a keyword-named field of a plain protobuf message
   on the path stays outside (C05_keyword_param_pb2_refuted). *)
Theorem C05_reserved_segments_ok : forall sch input cross sigs m,
  all_proto_plus sch -> m_proto_plus input = true -> msg_plain input = true ->
  fields_mapping sch input cross sigs = Some m ->
  (forall kf, In kf m -> exists ks pre,
      fst kf = sjoin "." ks /\ segments (fst kf) = ks /\ Forall (fun s => is_kw s = false) ks /\
      ks = (pre ++ [r_name (snd kf)])%list) /\
  (forall v pp, keys_ok (emit v m cross pp) = true).
Proof. exact reserved_segments_ok. Qed.
Print Assumptions C05_reserved_segments_ok.

Theorem C05_example_reserved_segment :
  let input := mkMsg true [msgf "class" ".p.Inner"; scalar "name"] in
  all_proto_plus ex_sch /\ m_proto_plus input = true /\ msg_plain input = true /\
  exists m, fields_mapping ex_sch input false ["class.title, name"; "class.class"] = Some m /\
            map fst m = ["class_.title"; "name"; "class_.class_"] /\ names m = ["title"; "name"; "class_"] /\
            block_ok (emit Sync m false true) = true /\ block_ok (emit Async m false true) = true /\
            (forall v, exec (emit v m false true) RNone [("title", LS "st")] = OSend (mkReq [("class_.title", LS "st")] ["class_"])).
Proof. exact reserved_segment_example. Qed.
Print Assumptions C05_example_reserved_segment.

(* a request (dict or message) together with any flattened argument, whatever its value (0, "", False, an empty message
   included: only None counts as absent): ValueError, nothing is sent; sync and asyncio, same-package and cross-package *)
Theorem C05_mixed_raises_before_send : forall v m cross pp ra kw,
  ra <> RNone -> (exists p, In p (names m) /\ passed kw p = true) ->
  exec (emit v m cross pp) ra kw = ORaiseValue.
Proof. exact mixed_raises_before_send. Qed.
Print Assumptions C05_mixed_raises_before_send.

Theorem C05_no_fields_no_guard : forall v cross pp,
  b_guard (emit v [] cross pp) = None /\ b_params (emit v [] cross pp) = [].
Proof. exact no_fields_no_guard. Qed.
Print Assumptions C05_no_fields_no_guard.

(* the kwargs call sends the message with those fields set; so does passing that message (one corner spelled out:
   a cross-package proto-plus request whose set fields all hold false values is replaced by a new empty message) *)
Theorem C05_flattened_equiv : forall v m cross pp kw,
  NoDup (map fst m) -> fm_wf m -> kw_wf m kw -> no_empty_dotted m kw ->
  (v = Async -> cross = true -> no_maps m) ->
  exists r1 r2,
    exec (emit v m cross pp) RNone kw = OSend r1 /\
    exec (emit v m cross pp) (RMsg (request_of m kw)) [] = OSend r2 /\
    req_equiv r1 (request_of m kw) /\
    (r2 = request_of m kw \/
     (cross = true /\ msg_falsy pp (request_of m kw) = true /\ r2 = empty_req)).
Proof. exact flattened_equiv. Qed.
Print Assumptions C05_flattened_equiv.

Theorem C05_sync_async_agree : forall m cross pp ra kw,
  NoDup (map fst m) -> fm_wf m -> kw_wf m kw -> no_empty_dotted m kw ->
  (cross = true -> no_maps m) ->
  outcome_equiv (exec (emit Sync m cross pp) ra kw) (exec (emit Async m cross pp) ra kw).
Proof. exact sync_async_agree. Qed.
Print Assumptions C05_sync_async_agree.

(* ---- the hypotheses hold of concrete, non-trivial mappings ---- *)
Theorem C05_example_same_package :
  fields_mapping ex_sch ex_req false ex_sigs2 = Some ex_m2 /\
  NoDup (map fst ex_m2) /\ fm_wf ex_m2 /\ kw_wf ex_m2 ex_kw /\ no_empty_dotted ex_m2 ex_kw /\
  block_ok (emit Sync ex_m2 false true) = true /\
  block_ok (emit Async ex_m2 false true) = true /\
  (exists r, exec (emit Sync ex_m2 false true) RNone ex_kw = OSend r /\
             lookup "book.title" r = Some (LS "st") /\ lookup "class_" r = None /\ vivified "book" r = true /\
             lookup "values" r = Some (LL ["mGgF2"])) /\
  exec (emit Async ex_m2 false true) (RMsg empty_req) ex_kw = ORaiseValue.
Proof. exact ex_hypotheses. Qed.
Print Assumptions C05_example_same_package.

(* the former witnesses of the three defects repaired in /repo (two repeated fields of a cross-package request,
   dotted path in the asyncio cross-package block, reserved field name of a plain protobuf request) in one mapping *)
Theorem C05_example_cross_package :
  let m := cm ex_csigs in
  fields_mapping ex_csch ex_common true ex_csigs = Some m /\
  map fst m = ["name"; "tags"; "sub.text"; "nums"; "type"] /\ names m = ["name"; "tags"; "text"; "nums"; "type"] /\
  NoDup (map fst m) /\ fm_wf m /\ no_maps m /\
  block_ok (emit Sync m true false) = true /\ block_ok (emit Async m true false) = true /\
  exec (emit Sync m true false) RNone ex_ckw = OSend (mkReq [("tags", LL ["=sa"]); ("sub.text", LS "sx")] ["sub"]) /\
  exec (emit Async m true false) RNone ex_ckw = OSend (mkReq [("tags", LL ["=sa"]); ("sub.text", LS "sx")] ["sub"]) /\
  exec (emit Async m true false) RNone [] = OSend empty_req /\
  exec (emit Async m true false) (RDict empty_req) [("text", LS "")] = ORaiseValue.
Proof. exact ex_cross_hypotheses. Qed.
Print Assumptions C05_example_cross_package.

Theorem C05_example_order :
  fields_mapping ex_sch ex_req false ex_sigs = Some ex_m /\
  map fst ex_m = ["name"; "class_"; "book.title"; "names"; "labels"; "values"; "book.class_"] /\
  names ex_m = ["name"; "class_"; "title"; "names"; "labels"; "values"; "class_"] /\
  block_ok (emit Sync ex_m false true) = false.
Proof. exact ex_mapping. Qed.
Print Assumptions C05_example_order.

(* falsy values are values: with a request they raise, alone they reach the request (presence), in both clients *)
Theorem C05_example_falsy_values_count :
  let input := mkMsg true [scalar "parent"; mkField "page_size" TScalar false false false true; msgf "filter" ".p.Inner"; scalar "flag"] in
  exists m, fields_mapping ex_sch input false ["parent,page_size,filter,flag"] = Some m /\
    (forall v p, In p ["parent"; "page_size"; "filter"; "flag"] ->
       exec (emit v m false true) (RMsg empty_req) [(p, if String.eqb p "filter" then LM "" else LS "")] = ORaiseValue /\
       exec (emit v m false true) (RDict empty_req) [(p, if String.eqb p "filter" then LM "" else LS "")] = ORaiseValue) /\
    (forall v, exec (emit v m false true) RNone [("page_size", LS ""); ("filter", LM ""); ("parent", LS ""); ("flag", LS "")]
               = OSend (mkReq [("filter", LM ""); ("page_size", LS "")] [])).
Proof. exact falsy_values_count. Qed.
Print Assumptions C05_example_falsy_values_count.

(* ---- statements the faithful model violates (each witness is replayed on the implementation: corpus/C05) ---- *)
Theorem C05_control_name_refuted :
  exists m, fields_mapping ex_sch ex_req false ["name,retry"] = Some m /\
            sig_ok (emit Sync m false true) = false /\ sig_ok (emit Async m false true) = false.
Proof. exact control_name_refuted. Qed.
Print Assumptions C05_control_name_refuted.

Theorem C05_duplicate_param_refuted :
  exists m, fields_mapping ex_sch ex_req false ["book.title,other.title"] = Some m /\
            NoDup (map fst m) /\ sig_ok (emit Sync m false true) = false.
Proof. exact duplicate_param_refuted. Qed.
Print Assumptions C05_duplicate_param_refuted.

Theorem C05_keyword_param_pb2_refuted :
  let input := mkMsg false [scalar "name"; scalar "class"] in
  exists m, fields_mapping [] input true ["name,class"] = Some m /\ names m = ["name"; "class"] /\
            sig_ok (emit Sync m true false) = false /\ sig_ok (emit Async m true false) = false.
Proof. exact keyword_param_pb2_refuted. Qed.
Print Assumptions C05_keyword_param_pb2_refuted.

Theorem C05_sync_async_agree_empty_container_dotted_refuted :
  exists m, fields_mapping ex_sch ex_req false ["name,book.tags"] = Some m /\
    let kw := [("tags", LL [])] in
    (exists r1 r2, exec (emit Sync m false true) RNone kw = OSend r1 /\ exec (emit Async m false true) RNone kw = OSend r2 /\
                   vivified "book" r1 = true /\ vivified "book" r2 = false /\ vivified "book" (request_of m kw) = true).
Proof. exact empty_container_dotted_refuted. Qed.
Print Assumptions C05_sync_async_agree_empty_container_dotted_refuted.

Theorem C05_flattened_equiv_falsy_request_refuted :
  let input := mkMsg true [mkField "level" TScalar false false false true] in
  exists m, fields_mapping [] input true ["level"] = Some m /\
    exec (emit Sync m true true) RNone [("level", LS "")] = OSend (mkReq [("level", LS "")] []) /\
    exec (emit Async m true true) RNone [("level", LS "")] = OSend (mkReq [("level", LS "")] []) /\
    request_of m [("level", LS "")] = mkReq [("level", LS "")] [] /\
    exec (emit Sync m true true) (RMsg (mkReq [("level", LS "")] [])) [] = OSend empty_req /\
    exec (emit Async m true true) (RMsg (mkReq [("level", LS "")] [])) [] = OSend empty_req.
Proof. exact falsy_request_refuted. Qed.
Print Assumptions C05_flattened_equiv_falsy_request_refuted.
