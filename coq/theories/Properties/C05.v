(* C05 — flattened keyword arguments are equivalent to an explicit request object.
   Only statements, closed by [exact], each followed by Print Assumptions.
   Model: Model/Flatten.v (fields_mapping, the emitted block as an IR for the sync macro and the asyncio template,
   same-package and cross-package requests, and the Values contract for running it). *)
From GV Require Import Base.Str Gen.FlattenGen Model.Flatten Proofs.Flatten.

(* the keys of every mapping are pairwise distinct, in the order of first mention; the value is the last mention's;
   both templates offer exactly these parameters in this order *)
Theorem C05_params_in_declared_order : forall sch input cross sigs m,
  fields_mapping sch input cross sigs = Some m ->
  (forall v pp inf, b_params (emit v m cross pp inf) = map (fun kf => r_name (snd kf)) m) /\
  (exists items,
     items = flat_map (item_list sch input cross) (filter (fun p => negb (is_empty p)) (all_pieces sigs)) /\
     map fst m = dedup_first [] (map fst items) /\
     (forall k, assoc k m = assoc k (rev items))) /\
  NoDup (map fst m).
Proof. exact params_in_declared_order. Qed.
Print Assumptions C05_params_in_declared_order.

(* the mapping is an error exactly when some non-empty piece of some signature does not resolve *)
Theorem C05_mapping_error_iff : forall sch input cross pieces,
  seq_items sch input cross pieces = None <->
  exists p, In p pieces /\ is_empty p = false /\ sig_item sch input cross p = None.
Proof. exact seq_items_error. Qed.
Print Assumptions C05_mapping_error_iff.

Theorem C05_mapping_fields_wf : forall sch input cross sigs m,
  fields_mapping sch input cross sigs = Some m -> fm_wf m.
Proof. exact fields_mapping_wf. Qed.
Print Assumptions C05_mapping_fields_wf.

(* a request (dict or message) together with any flattened argument: ValueError, nothing is sent;
   sync and asyncio, same-package and cross-package *)
Theorem C05_mixed_raises_before_send : forall v m cross pp inf ra kw,
  ra <> RNone -> (exists p, In p (names m) /\ passed kw p = true) ->
  exec (emit v m cross pp inf) ra kw = ORaiseValue.
Proof. exact mixed_raises_before_send. Qed.
Print Assumptions C05_mixed_raises_before_send.

Theorem C05_no_fields_no_guard : forall v cross pp inf,
  b_guard (emit v [] cross pp inf) = None /\ b_params (emit v [] cross pp inf) = [].
Proof. exact no_fields_no_guard. Qed.
Print Assumptions C05_no_fields_no_guard.

(* the kwargs call sends the message with those fields set; so does passing that message (one corner spelled out:
   a cross-package proto-plus request whose set fields all hold false values is replaced by a new empty message) *)
Theorem C05_flattened_equiv : forall v m cross pp inf kw,
  NoDup (map fst m) -> fm_wf m -> kw_wf m kw -> no_empty_dotted m kw ->
  (v = Async -> cross = true -> ctor_ok m inf) ->
  exists r1 r2,
    exec (emit v m cross pp inf) RNone kw = OSend r1 /\
    exec (emit v m cross pp inf) (RMsg (request_of m kw)) [] = OSend r2 /\
    req_equiv r1 (request_of m kw) /\
    (r2 = request_of m kw \/
     (cross = true /\ msg_falsy pp (request_of m kw) = true /\ r2 = empty_req)).
Proof. exact flattened_equiv. Qed.
Print Assumptions C05_flattened_equiv.

Theorem C05_sync_async_agree : forall m cross pp inf ra kw,
  NoDup (map fst m) -> fm_wf m -> kw_wf m kw -> no_empty_dotted m kw ->
  (cross = true -> ctor_ok m inf) ->
  outcome_equiv (exec (emit Sync m cross pp inf) ra kw) (exec (emit Async m cross pp inf) ra kw).
Proof. exact sync_async_agree. Qed.
Print Assumptions C05_sync_async_agree.

(* ---- the hypotheses hold of concrete, non-trivial mappings ---- *)
Theorem C05_example_same_package :
  fields_mapping ex_sch ex_req false ex_sigs2 = Some ex_m2 /\
  NoDup (map fst ex_m2) /\ fm_wf ex_m2 /\ kw_wf ex_m2 ex_kw /\ no_empty_dotted ex_m2 ex_kw /\
  block_ok (emit Sync ex_m2 false true (ctor_fields ex_req)) = true /\
  block_ok (emit Async ex_m2 false true (ctor_fields ex_req)) = true /\
  (exists r, exec (emit Sync ex_m2 false true (ctor_fields ex_req)) RNone ex_kw = OSend r /\
             lookup "book.title" r = Some (LS "st") /\ lookup "class_" r = None /\ vivified "book" r = true /\
             lookup "values" r = Some (LL ["mGgF2"])) /\
  exec (emit Async ex_m2 false true (ctor_fields ex_req)) (RMsg empty_req) ex_kw = ORaiseValue.
Proof. exact ex_hypotheses. Qed.
Print Assumptions C05_example_same_package.

Theorem C05_example_cross_package :
  let m := cm ["name, tags"; "sub"] in
  fields_mapping ex_csch ex_common true ["name, tags"; "sub"] = Some m /\
  map fst m = ["name"; "tags"] /\ NoDup (map fst m) /\ fm_wf m /\ ctor_ok m (ctor_fields ex_common) /\
  block_ok (emit Sync m true false (ctor_fields ex_common)) = true /\
  exec (emit Sync m true false (ctor_fields ex_common)) RNone [("tags", LL ["=sa"])] = OSend (mkReq [("tags", LL ["=sa"])] []) /\
  exec (emit Async m true false (ctor_fields ex_common)) RNone [("tags", LL ["=sa"])] = OSend (mkReq [("tags", LL ["=sa"])] []).
Proof. exact ex_cross_hypotheses. Qed.
Print Assumptions C05_example_cross_package.

Theorem C05_example_order :
  fields_mapping ex_sch ex_req false ex_sigs = Some ex_m /\
  map fst ex_m = ["name"; "class_"; "book.title"; "names"; "labels"; "values"; "book.class_"] /\
  names ex_m = ["name"; "class_"; "title"; "names"; "labels"; "values"; "class_"] /\
  block_ok (emit Sync ex_m false true (ctor_fields ex_req)) = false.
Proof. exact ex_mapping. Qed.
Print Assumptions C05_example_order.

(* ---- statements the faithful model violates (each witness is replayed on the implementation) ---- *)
Theorem C05_cross_two_repeated_refuted :
  exists m, fields_mapping ex_csch ex_common true ["name,tags,nums"] = Some m /\
            sig_ok (emit Sync m true false (ctor_fields ex_common)) = true /\
            keys_ok (emit Sync m true false (ctor_fields ex_common)) = true /\
            block_ok (emit Sync m true false (ctor_fields ex_common)) = false.
Proof. exact indent_refuted. Qed.
Print Assumptions C05_cross_two_repeated_refuted.

Theorem C05_sync_async_agree_cross_dotted_refuted :
  exists m, fields_mapping ex_csch (mkMsg false [scalar "name"; msgf "sub" ".c.Sub"]) true ["name,sub.text"] = Some m /\
    let inf := ["name"; "sub"] in
    exec (emit Sync m true false inf) RNone [] = OSend empty_req /\
    exec (emit Async m true false inf) RNone [] = ORaiseCtor /\
    exec (emit Async m true false inf) (RDict empty_req) [] = OSend empty_req.
Proof. exact async_cross_dotted_refuted. Qed.
Print Assumptions C05_sync_async_agree_cross_dotted_refuted.

Theorem C05_flattened_equiv_cross_dotted_wrong_field_refuted :
  exists m, fields_mapping ex_csch ex_common true ["sub.text"] = Some m /\
    let inf := ctor_fields ex_common in
    (exists r, exec (emit Sync m true false inf) RNone [("text", LS "sx")] = OSend r /\ lookup "sub.text" r = Some (LS "sx") /\ lookup "text" r = None) /\
    (exists r, exec (emit Async m true false inf) RNone [("text", LS "sx")] = OSend r /\ lookup "sub.text" r = None /\ lookup "text" r = Some (LS "sx")).
Proof. exact async_cross_dotted_wrong_field_refuted. Qed.
Print Assumptions C05_flattened_equiv_cross_dotted_wrong_field_refuted.

Theorem C05_reserved_segment_refuted :
  exists m, fields_mapping ex_sch (mkMsg true [msgf "class" ".p.Inner"]) false ["class.title"] = Some m /\
            map fst m = ["class.title"] /\ keys_ok (emit Sync m false true ["class_"]) = false /\ keys_ok (emit Async m false true ["class_"]) = false.
Proof. exact reserved_segment_refuted. Qed.
Print Assumptions C05_reserved_segment_refuted.

Theorem C05_control_name_refuted :
  exists m, fields_mapping ex_sch ex_req false ["name,retry"] = Some m /\
            sig_ok (emit Sync m false true (ctor_fields ex_req)) = false /\ sig_ok (emit Async m false true (ctor_fields ex_req)) = false.
Proof. exact control_name_refuted. Qed.
Print Assumptions C05_control_name_refuted.

Theorem C05_duplicate_param_refuted :
  exists m, fields_mapping ex_sch ex_req false ["book.title,other.title"] = Some m /\
            NoDup (map fst m) /\ sig_ok (emit Sync m false true (ctor_fields ex_req)) = false.
Proof. exact duplicate_param_refuted. Qed.
Print Assumptions C05_duplicate_param_refuted.

Theorem C05_sync_async_agree_empty_container_dotted_refuted :
  exists m, fields_mapping ex_sch ex_req false ["name,book.tags"] = Some m /\
    let inf := ctor_fields ex_req in
    let kw := [("tags", LL [])] in
    (exists r1 r2, exec (emit Sync m false true inf) RNone kw = OSend r1 /\ exec (emit Async m false true inf) RNone kw = OSend r2 /\
                   vivified "book" r1 = true /\ vivified "book" r2 = false /\ vivified "book" (request_of m kw) = true).
Proof. exact empty_container_dotted_refuted. Qed.
Print Assumptions C05_sync_async_agree_empty_container_dotted_refuted.

Theorem C05_reserved_in_pb2_request_refuted :
  let input := mkMsg false [scalar "name"; scalar "type"] in
  fields_mapping [] input true ["name"] <> None /\ fields_mapping [] input true ["name,type"] = None /\
  fields_mapping [] (mkMsg true [scalar "name"; scalar "type"]) false ["name,type"] <> None.
Proof. exact reserved_in_pb2_request_refuted. Qed.
Print Assumptions C05_reserved_in_pb2_request_refuted.

Theorem C05_flattened_equiv_falsy_request_refuted :
  let input := mkMsg true [mkField "level" TScalar false false false true] in
  exists m, fields_mapping [] input true ["level"] = Some m /\
    exec (emit Sync m true true ["level"]) RNone [("level", LS "")] = OSend (mkReq [("level", LS "")] []) /\
    request_of m [("level", LS "")] = mkReq [("level", LS "")] [] /\
    exec (emit Sync m true true ["level"]) (RMsg (mkReq [("level", LS "")] [])) [] = OSend empty_req /\
    exec (emit Async m true true ["level"]) (RMsg (mkReq [("level", LS "")] [])) [] = OSend empty_req.
Proof. exact falsy_request_refuted. Qed.
Print Assumptions C05_flattened_equiv_falsy_request_refuted.
