(* C06 — every call carries an x-goog-request-params header that follows AIP-4222.
   Only statements, closed by [exact], each followed by Print Assumptions; Examples instantiate the hypotheses. *)
From GV Require Import Base.Str Model.Routing Proofs.Routing.
From GV Require Gen.RoutingGen.

(* ---- T0 pins: the source constants the model was written against (regenerated from /repo on every run) ---- *)
Example C06_pin_field_headers :
  Gen.RoutingGen.FIELD_HEADERS_RE = "{(.*?)[=}]" /\
  Gen.RoutingGen.POTENTIAL_VERBS = ["http.get"; "http.put"; "http.post"; "http.delete"; "http.patch"; "http.custom.path"] /\
  Gen.RoutingGen.FIELD_HEADERS_RETURN = ["next(field_headers, ())"] /\
  Gen.RoutingGen.DISAMBIGUATED = "'.'.join((name + '_' if name in utils.RESERVED_NAMES else name for name in self.raw.split('.')))".
Proof. repeat split; reflexivity. Qed.
Print Assumptions C06_pin_field_headers.

Example C06_pin_regex_builder :
  Gen.RoutingGen.CONSTS_split_into_segments = ["/"; "{"; "}"] /\
  Gen.RoutingGen.CONSTS_convert_segment_to_regex =
    ["{"; "}"; "="; "="; "?P<"; ">"; "("; ")"; "}"; "{"; "=*"; "**"; ".*"; "*"; "[^/]+"] /\
  Gen.RoutingGen.CONSTS_merge_segments = [".*"; "(?:/.*)?"; "/"] /\
  Gen.RoutingGen.CONSTS_how_many_named_segments = ["{"] /\
  Gen.RoutingGen.CONSTS_to_regex = ["^"; "$"] /\
  Gen.RoutingGen.CONSTS_key = [""] /\
  Gen.RoutingGen.RETURNS_convert_segment_to_regex =
    ["re.escape(segment)"; "f'({group_name}{sub_regex})'"; "'.*'"; "'[^/]+'";
     "self._convert_segment_to_regex('{' + f'{segment}=*' + '}')"] /\
  Gen.RoutingGen.REGEX_LITERAL = ["'re.compile({!r})'.format(self.to_regex().pattern)"] /\
  Gen.RoutingGen.SAMPLE_REQUEST = ["sample = uri_sample.sample_from_path_template(self.field, self.path_template)";
                                   "return json.dumps(sample)"] /\
  Gen.RoutingGen.SAMPLE_FROM_PATH_TEMPLATE =
    ["'{' in path_template"; "i = path_template.index('{')"; "j = path_template.index('}')"; "seg = path_template[i:j + 1]";
     "seg = seg[seg.index('=') + 1:-1] if '=' in seg else '*'"; "path_template = path_template[:i] + seg + path_template[j + 1:]"].
Proof. repeat split; reflexivity. Qed.
Print Assumptions C06_pin_regex_builder.

(* finite, over the regenerated list: a reserved name never contains a dot (so suffixing works per component) *)
Theorem C06_reserved_no_dot :
  forallb (fun n => negb (contains dot n)) Gen.RoutingGen.RESERVED_NAMES = true.
Proof. exact reserved_no_dot. Qed.
Print Assumptions C06_reserved_no_dot.

(* ---- explicit routing ---- *)
(* For every path template of the AIP class (aip_class: literal segments of ANY text free of slash, star, braces
   and '=' -- regex metacharacters included, the generator escapes them; an identifier as key; a non-empty named sub-template that may span several segments;
   a double star at most as the very last segment of the whole template) and every newline-free field value,
   what the emitted block writes into header_params -- the generator's regex, Python's re.match, the guard on a
   non-empty capture -- is exactly what the independent segment matcher prescribes; None for non-matching, empty
   and empty-capture values included. The emitted block is the regex literal, the suffixed attribute, the key. *)
Theorem C06_routing_contribution_correct : forall (t : tmpl) (field v : string),
  aip_class t = true -> nl_free v = true ->
  contribution {| p_field := field; p_template := tmpl_print t |} v = Ok (aip_contribution t v) /\
  emit_param {| p_field := field; p_template := tmpl_print t |} =
    Ok (BRegex ("^" ++ rx_print (rx_of t) ++ "$") (disambiguated field) (t_key t)).
Proof. exact routing_contribution_correct_l. Qed.
Print Assumptions C06_routing_contribution_correct.

(* the same for template STRINGS: aip_class_str reads the text (one brace pair occupying whole segments, key or
   key=sub inside) and applies aip_class; whatever it accepts prints back to the very same string *)
Theorem C06_routing_contribution_correct_str : forall (s field v : string),
  aip_class_str s = true -> nl_free v = true ->
  exists t, aip_parse s = Some t /\ tmpl_print t = s /\
            contribution {| p_field := field; p_template := s |} v = Ok (aip_contribution t v).
Proof. exact routing_contribution_correct_str_l. Qed.
Print Assumptions C06_routing_contribution_correct_str.

Definition ex_tmpl : tmpl :=
  {| t_pre := [SLit "projects"; SStar]; t_key := "table_location"; t_short := false;
     t_sub := [SLit "instances"; SStar]; t_post := [SLit "tables"; SDstar] |}.
Example C06_ex_contribution :
  aip_class ex_tmpl = true /\
  aip_class_str "projects/*/{table_location=instances/*}/tables/**" = true /\
  aip_parse "projects/*/{table_location=instances/*}/tables/**" = Some ex_tmpl /\
  aip_class_str "{k=**/x}" = false /\ aip_class_str "a.b/{k}" = true /\ aip_class_str "{a}/{b}" = false /\
  tmpl_print ex_tmpl = "projects/*/{table_location=instances/*}/tables/**" /\
  regex_str (tmpl_print ex_tmpl) = Ok "^projects/[^/]+/(?P<table_location>instances/[^/]+)/tables(?:/.*)?$" /\
  nl_free "projects/p 1/instances/i-2/tables/t/x" = true /\
  contribution {| p_field := "class"; p_template := tmpl_print ex_tmpl |} "projects/p 1/instances/i-2/tables/t/x"
    = Ok (Some ("table_location", "instances/i-2")) /\
  contribution {| p_field := "class"; p_template := tmpl_print ex_tmpl |} "projects/p/instances//tables" = Ok None /\
  emit_param {| p_field := "class"; p_template := tmpl_print ex_tmpl |}
    = Ok (BRegex "^projects/[^/]+/(?P<table_location>instances/[^/]+)/tables(?:/.*)?$" "class_" "table_location").
Proof. vm_compute. repeat split; reflexivity. Qed.
Print Assumptions C06_ex_contribution.

(* the value domain is tight: with a newline the regex ('.' excludes it, '$' tolerates a final one) and AIP differ *)
Theorem C06_newline_refuted :
  exists t v, aip_class t = true /\ nl_free v = false /\
    contribution {| p_field := "f"; p_template := tmpl_print t |} v <> Ok (aip_contribution t v).
Proof. exact newline_refuted_l. Qed.
Print Assumptions C06_newline_refuted.

Theorem C06_newline_final_refuted :
  contribution {| p_field := "f"; p_template := tmpl_print t_dstar_only |} v_final_nl = Ok (Some ("k", "a")) /\
  aip_contribution t_dstar_only v_final_nl = Some ("k", v_final_nl).
Proof. exact newline_final_refuted_l. Qed.
Print Assumptions C06_newline_final_refuted.

(* literal text is matched literally (re.escape): the former witness 'a.b/{k=*}' on 'aXb/c' now sends nothing *)
Example C06_escaped_literal :
  aip_class t_dotted = true /\ tmpl_print t_dotted = "a.b/c+(d)/{k=*}" /\
  regex_str "a.b/c+(d)/{k=*}" = Ok "^a\.b/c\+\(d\)/(?P<k>[^/]+)$" /\
  contribution {| p_field := "f"; p_template := tmpl_print t_dotted |} "aXb/c+(d)/v" = Ok None /\
  contribution {| p_field := "f"; p_template := tmpl_print t_dotted |} "a.b/c+(d)/v" = Ok (Some ("k", "v")).
Proof. exact escaped_literal_ex. Qed.
Print Assumptions C06_escaped_literal.

(* the class is tight: a double star that is not last is not "zero or more segments" for the regex *)
Theorem C06_dstar_inside_refuted :
  exists t v, nl_free v = true /\ tmpl_print t = "{k=**/x}" /\
    contribution {| p_field := "f"; p_template := tmpl_print t |} v = Ok None /\
    aip_contribution t v = Some ("k", "x").
Proof. exact dstar_inside_refuted_l. Qed.
Print Assumptions C06_dstar_inside_refuted.

(* header_params is filled in order: under each key the LAST contributing parameter wins *)
Theorem C06_last_wins : forall (l : list (string * string)) (k : string),
  assoc k (dict_of l) = assoc k (rev l).
Proof. exact last_wins_l. Qed.
Print Assumptions C06_last_wins.

Theorem C06_last_wins_header : forall m ps req cs bs,
  m_explicit m = Some ps -> m_client_streaming m = false -> emit_metadata m = Ok (EExplicit bs) ->
  contributions ps req = Ok cs ->
  forall k, exists d, (header_of m req = Ok (match d with [] => None | _ => Some (to_routing_header d) end)) /\
                      assoc k d = assoc k (rev (somes cs)).
Proof. exact last_wins_header. Qed.
Print Assumptions C06_last_wins_header.

(* no header at all exactly when no parameter contributes *)
Theorem C06_no_match_no_header : forall m ps req cs bs,
  m_explicit m = Some ps -> m_client_streaming m = false -> emit_metadata m = Ok (EExplicit bs) ->
  contributions ps req = Ok cs ->
  (header_of m req = Ok None <-> Forall (fun c => c = None) cs).
Proof. exact no_match_no_header_l. Qed.
Print Assumptions C06_no_match_no_header.

(* the whole explicit block against the AIP reading of the annotation: parameters without a template or with a
   class template (sparam_ok), every value read newline-free; an annotation without parameters sends nothing *)
Theorem C06_explicit_header_spec : forall m sps req,
  m_explicit m = Some (map sparam_param sps) -> m_client_streaming m = false ->
  forallb sparam_ok sps = true ->
  forallb (fun sp => nl_free (req (disambiguated (sp_field sp)))) sps = true ->
  emit_metadata m = Ok (EExplicit (map sparam_block sps)) /\
  header_of m req = Ok (spec_header sps req).
Proof. exact explicit_header_spec_l. Qed.
Print Assumptions C06_explicit_header_spec.

Definition no_http : http_rule := {| h_get := ""; h_put := ""; h_post := ""; h_delete := ""; h_patch := ""; h_custom_path := "" |}.
Definition ex_sps : list sparam :=
  [SPlain "app_profile_id";
   STmpl "table_name" {| t_pre := []; t_key := "routing_id"; t_short := false; t_sub := [SLit "projects"; SStar]; t_post := [SDstar] |};
   STmpl "table_name" {| t_pre := [SLit "projects"; SStar]; t_key := "routing_id"; t_short := false; t_sub := [SLit "instances"; SStar]; t_post := [SDstar] |};
   STmpl "sub.class" {| t_pre := []; t_key := "k"; t_short := true; t_sub := [SStar]; t_post := [] |}].
Definition ex_method : method := {| m_explicit := Some (map sparam_param ex_sps); m_http := no_http; m_client_streaming := false |}.
Definition ex_req : request := fun path =>
  if String.eqb path "table_name" then "projects/p/instances/i/tables/t"
  else if String.eqb path "app_profile_id" then "a b" else if String.eqb path "sub.class_" then "x/y" else "".
Example C06_ex_explicit :
  forallb sparam_ok ex_sps = true /\
  emit_metadata ex_method = Ok (EExplicit (map sparam_block ex_sps)) /\
  forallb (fun sp => nl_free (ex_req (disambiguated (sp_field sp)))) ex_sps = true /\
  contributions (map sparam_param ex_sps) ex_req =
    Ok [Some ("app_profile_id", "a b"); Some ("routing_id", "projects/p"); Some ("routing_id", "instances/i"); None] /\
  header_of ex_method ex_req = Ok (Some "app_profile_id=a+b&routing_id=instances/i") /\
  header_of ex_method (fun _ => "") = Ok None.
Proof. vm_compute. repeat split; reflexivity. Qed.

(* the {key} shorthand, a very long template and an annotation without parameters (which also switches the
   implicit header off) are all generated *)
Definition only_get (u : string) : http_rule := {| h_get := u; h_put := ""; h_post := ""; h_delete := ""; h_patch := ""; h_custom_path := "" |}.
Example C06_formerly_failing :
  emit_param {| p_field := "name"; p_template := "{name}" |} = Ok (BRegex "^(?P<name>[^/]+)$" "name" "name") /\
  emit_metadata {| m_explicit := Some []; m_http := only_get "/v1/{name=**}"; m_client_streaming := false |} = Ok (EExplicit []) /\
  header_of {| m_explicit := Some []; m_http := only_get "/v1/{name=**}"; m_client_streaming := false |} (fun _ => "x") = Ok None /\
  header_of {| m_explicit := None; m_http := only_get "/v1/{name=**}"; m_client_streaming := false |} (fun _ => "x") = Ok (Some "name=x").
Proof. vm_compute. repeat split; reflexivity. Qed.
Print Assumptions C06_formerly_failing.
Print Assumptions C06_ex_explicit.

(* ---- implicit routing ---- *)
(* one pair per variable of the primary http path template, sent under the variable's own (dotted) name and read
   from the attribute path whose components are suffixed when reserved *)
Theorem C06_implicit_pairs_spec : forall (m : method) (u : list upart),
  m_explicit m = None -> m_client_streaming m = false ->
  first_nonempty (potential_verbs (m_http m)) = Some (uri_print u) -> uri_ok u = true ->
  field_headers (m_http m) = uri_vars u /\
  (forall req, header_of m req =
     Ok (match uri_vars u with
         | [] => None
         | vars => Some (to_routing_header (map (fun raw => (raw, req (disambiguated raw))) vars))
         end)) /\
  (forall raw, splitc dot (disambiguated raw) = map suffix_reserved (splitc dot raw)).
Proof. exact implicit_pairs_l. Qed.
Print Assumptions C06_implicit_pairs_spec.

Definition ex_uri : list upart :=
  [ULit "/v1/"; UVar "sub.class" (Some "shelves/*"); ULit "/books/"; UVar "type" None; ULit ":frob"].
Definition ex_imp : method :=
  {| m_explicit := None;
     m_http := {| h_get := ""; h_put := ""; h_post := uri_print ex_uri; h_delete := ""; h_patch := ""; h_custom_path := "" |};
     m_client_streaming := false |}.
Example C06_ex_implicit :
  uri_ok ex_uri = true /\ uri_print ex_uri = "/v1/{sub.class=shelves/*}/books/{type}:frob" /\
  first_nonempty (potential_verbs (m_http ex_imp)) = Some (uri_print ex_uri) /\
  emit_metadata ex_imp = Ok (EImplicit [("sub.class", "sub.class_"); ("type", "type_")]) /\
  header_of ex_imp (fun p => if String.eqb p "sub.class_" then "shelves/s 1" else if String.eqb p "type_" then "" else "?")
    = Ok (Some "sub.class=shelves/s+1&type=").
Proof. vm_compute. repeat split; reflexivity. Qed.
Print Assumptions C06_ex_implicit.

(* ---- sync, asyncio, REST ---- *)
(* one macro for client.py and async_client.py; the REST transport sends dict(metadata) as headers: unless the
   caller's own metadata already uses the routing key, all three paths show the server the same single value *)
Theorem C06_agree_sync_async : forall (m : method) (req : request) (user : md) (h : option string),
  emit_sync m = emit_async m /\
  (header_of m req = Ok h -> no_routing_key user = true ->
   seen_grpc user h = match h with Some v => [v] | None => [] end /\
   seen_rest user h = seen_grpc user h).
Proof. exact agree_l. Qed.
Print Assumptions C06_agree_sync_async.

Example C06_ex_agree :
  no_routing_key [("x-goog-api-client", "gl-python"); ("k", "v"); ("k", "w")] = true /\
  seen_rest [("x-goog-api-client", "gl-python"); ("k", "v"); ("k", "w")] (Some "name=a") = ["name=a"] /\
  seen_grpc [(routing_key, "mine")] (Some "name=a") = ["mine"; "name=a"] /\
  seen_rest [(routing_key, "mine")] (Some "name=a") = ["name=a"].
Proof. vm_compute. repeat split; reflexivity. Qed.
Print Assumptions C06_ex_agree.

(* ---- the alternative (Ads) templates expand the same macro (since eec5aba): on the former witnesses the Ads client
   sends what the standard client sends -- the explicit rule, nothing for an empty annotation, the implicit pair otherwise ---- *)
Example C06_ads_agrees_on_witnesses :
  header_of_ads ads_m ads_req = Ok (Some "routing_id=projects/p1") /\
  header_of_ads {| m_explicit := Some []; m_http := ads_http; m_client_streaming := false |} ads_req = Ok None /\
  header_of_ads {| m_explicit := None; m_http := ads_http; m_client_streaming := false |} ads_req = Ok (Some "name=shelves/s1") /\
  emit_ads ads_m = emit_sync ads_m.
Proof. exact ads_witnesses_l. Qed.
Print Assumptions C06_ads_agrees_on_witnesses.

(* last one wins also for a parameter that is written twice: [A; B; A] is not [A; B] (the emitted code has three
   blocks, and when A and B both match the key goes back to A) -- the rule's list must not be de-duplicated *)
Example C06_relisted_parameter_wins :
  header_of (relisted_m [relisted_A; relisted_B; relisted_A]) relisted_req = Ok (Some "routing_id=projects/p1") /\
  header_of (relisted_m [relisted_A; relisted_B]) relisted_req = Ok (Some "routing_id=projects/p1/instances/i1") /\
  emit_metadata (relisted_m [relisted_A; relisted_B; relisted_A]) <> emit_metadata (relisted_m [relisted_A; relisted_B]).
Proof. exact relisted_parameter_wins_l. Qed.
Print Assumptions C06_relisted_parameter_wins.

(* ---- presence: an empty field contributes nothing whether it is unset or present with the empty string (proto3
   optional). The header is a function of the attribute VALUES alone, and setting an unset attribute to the empty
   string leaves it unchanged, for every method (explicit, implicit, none) and every request ---- *)
Theorem C06_header_depends_on_values_only : forall (m : method) (r1 r2 : request),
  (forall p, r1 p = r2 p) -> header_of m r1 = header_of m r2.
Proof. exact header_ext_l. Qed.
Print Assumptions C06_header_depends_on_values_only.

Theorem C06_present_empty_is_unset : forall (m : method) (l : list (string * string)) (a : string),
  assoc a l = None ->
  header_of m (req_of ((a, EmptyString) :: l)) = header_of m (req_of l).
Proof. exact header_presence_l. Qed.
Print Assumptions C06_present_empty_is_unset.

(* the hypothesis holds of a concrete request, and the parameter listed last with an empty optional field does not
   override what the first one captured (the witness of corpus/C06/optional-routing-field.json) *)
Example C06_ex_present_empty :
  header_of presence_m (req_of [("routing_id", ""); ("name", "projects/p1/things/t1")]) = Ok (Some "routing_id=projects/p1") /\
  header_of presence_m (req_of [("name", "projects/p1/things/t1")]) = Ok (Some "routing_id=projects/p1") /\
  header_of presence_m (req_of [("routing_id", "r 1"); ("name", "projects/p1/things/t1")]) = Ok (Some "routing_id=r+1").
Proof. exact presence_witness_l. Qed.
Print Assumptions C06_ex_present_empty.
