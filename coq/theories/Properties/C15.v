(* C15 — gapic_metadata.json and the fix-up script describe the generated surface exactly.
   Only statements, closed by [exact], each followed by Print Assumptions. *)
From Coq Require Import Permutation.
From GV Require Import Base.Str Model.Case Gen.C15Gen Model.Metadata Proofs.Case Proofs.Metadata.

(* entries = services x client kinds x rpcs; each (service, kind, rpc) exactly once when names are distinct *)
Theorem C15_entries_exact : forall transport svcs,
  Permutation (metadata_entries transport svcs) (product_entries transport svcs) /\
  (NoDup (map s_name svcs) -> (forall s, In s svcs -> NoDup (map r_name (s_rpcs s))) ->
   NoDup (map ekey (metadata_entries transport svcs))).
Proof. exact entries_exact. Qed.
Print Assumptions C15_entries_exact.

Theorem C15_entries_in : forall transport svcs e,
  In e (metadata_entries transport svcs) <->
  exists s k r, In s svcs /\ In k (kinds transport s) /\ In r (s_rpcs s) /\ e = mk_entry s k r.
Proof. exact entries_in. Qed.
Print Assumptions C15_entries_in.

(* every service is listed once per client kind with its client class, whether or not it declares rpcs *)
Theorem C15_clients_exact : forall transport svcs,
  (forall s k c, In (s, k, c) (metadata_clients transport svcs) <->
                 exists sv, In sv svcs /\ s_name sv = s /\ In (k, c) (kinds transport sv)) /\
  (NoDup (map s_name svcs) -> NoDup (map (fun e => (fst (fst e), snd (fst e))) (metadata_clients transport svcs))).
Proof. exact clients_exact. Qed.
Print Assumptions C15_clients_exact.
Example C15_clients_empty_service :
  metadata_clients ["grpc"; "rest"] [mkS "Placeholder" []; mkS "Lib" [mkR "Get" false true []]] =
  [("Lib", "grpc", "LibClient"); ("Lib", "grpc-async", "LibAsyncClient"); ("Lib", "rest", "LibClient");
   ("Placeholder", "grpc", "PlaceholderClient"); ("Placeholder", "grpc-async", "PlaceholderAsyncClient");
   ("Placeholder", "rest", "PlaceholderClient")].
Proof. exact clients_empty_service. Qed.
Print Assumptions C15_clients_empty_service.

(* client kinds implied by the transports: grpc gives the sync and the async client, rest the sync client *)
Theorem C15_kinds_spec : forall transport s k c,
  In (k, c) (kinds transport s) <->
  (In "grpc" transport /\ (k = "grpc" /\ c = client_name s \/ k = "grpc-async" /\ c = async_client_name s))
  \/ (In "rest" transport /\ k = "rest" /\ c = client_name s).
Proof. exact kinds_spec. Qed.
Print Assumptions C15_kinds_spec.

(* required first, each group in declaration order, a permutation of all fields *)
Theorem C15_fixup_order_spec : forall fs,
  Permutation (legacy_flattened fs) fs /\
  (exists req opt, legacy_flattened fs = (req ++ opt)%list /\
                   Forall (fun f => f_required f = true) req /\ Forall (fun f => f_required f = false) opt) /\
  filter f_required (legacy_flattened fs) = filter f_required fs /\
  filter nonreq (legacy_flattened fs) = filter nonreq fs.
Proof. exact fixup_order_spec. Qed.
Print Assumptions C15_fixup_order_spec.

Theorem C15_fixup_covers : forall add_iam svcs r, In r (all_rpcs svcs) ->
  exists r', In r' (all_rpcs svcs) /\ r_name r' = r_name r /\
             In (snake (r_name r), params_of r') (method_to_params add_iam svcs).
Proof. exact fixup_covers. Qed.
Print Assumptions C15_fixup_covers.

Theorem C15_fixup_listed_once : forall svcs,
  NoDup (map r_name (listed_rpcs svcs)) /\ (forall r, In r (listed_rpcs svcs) -> In r (all_rpcs svcs)).
Proof. exact fixup_listed_once. Qed.
Print Assumptions C15_fixup_listed_once.

(* RPC names that differ only by letter case each have their entry (former witness of the case-insensitive unique defect) *)
Example C15_fixup_case_example :
  method_to_params false witness_svcs = [("get_book", ["name"]); ("getbook", ["x"])].
Proof. exact fixup_case_example. Qed.
Print Assumptions C15_fixup_case_example.

Example C15_example_ok :
  NoDup (map s_name example_svcs) /\ (forall s, In s example_svcs -> NoDup (map r_name (s_rpcs s))) /\
  map (fun e => (e_client e, e_method e)) (metadata_entries ["rest"] example_svcs)
    = [("AuxClient", "zed"); ("BaseLibClient", "get_book"); ("BaseLibClient", "_import_"); ("BaseLibClient", "class_")] /\
  method_to_params false example_svcs
    = [("class", ["class"]); ("get_book", ["alpha"; "beta"; "zeta"; "class_"]); ("import", ["name"]); ("zed", [])].
Proof. exact example_ok. Qed.
Print Assumptions C15_example_ok.

(* T0 pins of the literals of case.py the snake-case model was written against *)
Theorem C15_case_pins :
  CaseGen.snake_subs = [("(?<=[a-z])([A-Z])", "_\1"); ("(?<=[^_])([A-Z])(?=[a-z])", "_\1");
                ("(?<=[a-z])(\d)(?=[A-Z]{2})", "_\1"); ("(?<=[a-z])(\d)(?=[A-Z]$)", "_\1")]
  /\ CaseGen.valid_filename_subs = [("[^a-z0-9.$_-]+", "-")] /\ CaseGen.valid_module_consts = ["-"; "_"].
Proof. exact case_pins. Qed.
Print Assumptions C15_case_pins.
