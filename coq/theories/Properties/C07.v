(* C07 — paginated methods yield every item of every page exactly once, in order.
   Only statements, closed by [exact], each followed by Print Assumptions. *)
From GV Require Import Base.Str Model.Paging Proofs.Paging.
Open Scope list_scope.

(* ---- classification ---- *)

(* The property's own rule, for ALL shapes: a method is paged exactly when its request has a singular string
   page_token and a singular integer page_size (or a singular max_results that is an integer or a message called
   Int32Value/UInt32Value), and its response has a singular string next_page_token and a repeated field. *)
Theorem C07_paged_iff : forall req resp,
  uniq req -> uniq resp ->
  ((exists f, paged_result_field req resp = Some f) <-> spec_paged req resp).
Proof. exact paged_iff_spec. Qed.
Print Assumptions C07_paged_iff.

(* the item field is the first repeated field of the response, in declaration order *)
Theorem C07_first_repeated_field : forall req resp f,
  paged_result_field req resp = Some f ->
  exists before after, resp = before ++ f :: after /\ frep f = true /\ Forall (fun g => frep g = false) before.
Proof. exact paged_field_first_repeated. Qed.
Print Assumptions C07_first_repeated_field.

(* how a field is declared with respect to presence (plain, proto3 optional, member of a real oneof) plays no part:
   re-declaring every field plain leaves the decision and the item field unchanged.  So a method whose tokens or size
   field are `optional` (the Compute shape) or sit in a oneof is paginated exactly like the plain one. *)
Theorem C07_presence_irrelevant : forall req resp,
  paged_result_field (erase_presence req) (erase_presence resp) = option_map plain (paged_result_field req resp).
Proof. exact presence_irrelevant. Qed.
Print Assumptions C07_presence_irrelevant.

Example C07_optional_and_oneof_tokens_paged :
  option_map fname (paged_result_field req_optional_tokens resp_optional_token) = Some "books" /\
  option_map fname (paged_result_field req_oneof_token resp_std) = Some "books" /\
  option_map fname (paged_result_field req_conventional_plain [book; mkField "next_page_token" TStr false false (POneof "next")]) = Some "books".
Proof. exact optional_and_oneof_tokens_paged. Qed.
Print Assumptions C07_optional_and_oneof_tokens_paged.

(* the three shapes on which code and sentence used to differ (wrapper-typed page_size; mistyped max_results next
   to an integer page_size; repeated page_token) are decided as the sentence says *)
Example C07_former_gaps_closed :
  paged_result_field req_wrapper_page_size resp_std = None /\
  option_map fname (paged_result_field req_shadowed_page_size resp_std) = Some "books" /\
  paged_result_field req_repeated_token resp_std = None.
Proof. exact former_gaps_closed. Qed.
Print Assumptions C07_former_gaps_closed.

Example C07_paged_nontrivial :
  uniq req_conventional /\ uniq resp_two_repeated /\
  spec_paged req_conventional resp_two_repeated /\
  option_map fname (paged_result_field req_conventional resp_two_repeated) = Some "labels".
Proof. exact conventional_paged. Qed.
Print Assumptions C07_paged_nontrivial.

(* a client method (sync or asyncio) returns a pager exactly under the property's rule on its two shapes, and
   pagers.py holds one class per paged method (two when a gRPC transport is generated) *)
Theorem C07_wrap_iff_spec_paged : forall (is_async : bool) (m : rpc),
  uniq (r_req m) -> uniq (r_resp m) ->
  ((exists w, client_wrap is_async m = Some w) <-> spec_paged (r_req m) (r_resp m)).
Proof. exact wrap_iff_spec_paged. Qed.
Print Assumptions C07_wrap_iff_spec_paged.

Theorem C07_pagers_module_classes : forall (with_async : bool) (ms : list rpc),
  length (pagers_module with_async ms) =
  (if with_async then 2 else 1) * length (filter (fun m => is_paged (r_req m) (r_resp m)) ms).
Proof. exact pagers_module_classes. Qed.
Print Assumptions C07_pagers_module_classes.

(* ---- the pager loop: for all item/attribute/request/option types, all requests, all server histories ---- *)

(* Whenever iteration of the pager (sync or asyncio) completes on the history p0 :: script, the history splits
   at its first empty token into init ++ last :: rest, and: the pages visited are init ++ [last]; the items
   yielded are the concatenation of their item fields in server order; the calls seen by the server are the
   original call followed, for each page of init, by the same call with page_token replaced by that page's
   next_page_token (other fields and call options unchanged); nothing of rest is fetched; attribute lookup on
   the pager ends at the last page visited. *)
Theorem C07_pager_behaviour :
  forall (item attrs fields opts : Type) (is_async : bool) (c : call fields opts)
         (p0 : page item attrs) (script : list (page item attrs)) (o : outcome item attrs fields opts),
  iterate is_async c p0 script = Some o ->
  exists init last rest,
    splits_at_first_empty (p0 :: script) init last rest /\
    o_pages o = init ++ [last] /\
    o_items o = concat (map p_items (init ++ [last])) /\
    o_calls o = c :: map (fun p => mkCall (p_token p) (c_fields c) (c_opts c)) init /\
    o_final o = Some last.
Proof. exact pager_behaviour. Qed.
Print Assumptions C07_pager_behaviour.

(* the decomposition is unique, so the statement above determines the behaviour *)
Theorem C07_first_empty_unique :
  forall (item attrs : Type) (h i1 : list (page item attrs)) l1 r1 i2 l2 r2,
  splits_at_first_empty h i1 l1 r1 -> splits_at_first_empty h i2 l2 r2 -> i1 = i2 /\ l1 = l2 /\ r1 = r2.
Proof. exact split_unique. Qed.
Print Assumptions C07_first_empty_unique.

(* iteration completes iff some page of the history has an empty token *)
Theorem C07_pager_terminates :
  forall (item attrs fields opts : Type) (is_async : bool) (c : call fields opts)
         (p0 : page item attrs) (script : list (page item attrs)),
  Exists (fun p => p_token p = "") (p0 :: script) -> exists o, iterate is_async c p0 script = Some o.
Proof. exact pager_terminates. Qed.
Print Assumptions C07_pager_terminates.

Theorem C07_pager_undefined_iff :
  forall (item attrs fields opts : Type) (is_async : bool) (c : call fields opts)
         (p0 : page item attrs) (script : list (page item attrs)),
  iterate is_async c p0 script = None <-> Forall nonempty_token (p0 :: script).
Proof. exact pager_undefined_iff. Qed.
Print Assumptions C07_pager_undefined_iff.

Theorem C07_pager_items :
  forall (item attrs fields opts : Type) (is_async : bool) (c : call fields opts)
         (p0 : page item attrs) script (o : outcome item attrs fields opts) init last rest,
  iterate is_async c p0 script = Some o -> splits_at_first_empty (p0 :: script) init last rest ->
  o_items o = concat (map p_items (init ++ [last])).
Proof. exact pager_items. Qed.
Print Assumptions C07_pager_items.

Theorem C07_requests_threaded :
  forall (item attrs fields opts : Type) (is_async : bool) (c : call fields opts)
         (p0 : page item attrs) script (o : outcome item attrs fields opts) init last rest,
  iterate is_async c p0 script = Some o -> splits_at_first_empty (p0 :: script) init last rest ->
  o_calls o = c :: map (fun p => mkCall (p_token p) (c_fields c) (c_opts c)) init.
Proof. exact requests_threaded. Qed.
Print Assumptions C07_requests_threaded.

Theorem C07_stops_at_first_empty :
  forall (item attrs fields opts : Type) (is_async : bool) (c : call fields opts)
         (p0 : page item attrs) script (o : outcome item attrs fields opts) init last rest,
  iterate is_async c p0 script = Some o -> splits_at_first_empty (p0 :: script) init last rest ->
  o_pages o = init ++ [last] /\ length (o_calls o) = S (length init).
Proof. exact stops_at_first_empty. Qed.
Print Assumptions C07_stops_at_first_empty.

Theorem C07_attrs_of_last_page :
  forall (item attrs fields opts : Type) (is_async : bool) (c : call fields opts)
         (p0 : page item attrs) script (o : outcome item attrs fields opts) init last rest,
  iterate is_async c p0 script = Some o -> splits_at_first_empty (p0 :: script) init last rest ->
  o_final o = Some last.
Proof. exact attrs_of_last_page. Qed.
Print Assumptions C07_attrs_of_last_page.

(* leaving the loop early, while page number b is held: b follow-up calls were made (threaded as above), nothing
   else was fetched, and attribute lookup on the pager reaches page b — for the sync and the asyncio pager alike *)
Theorem C07_early_break_behaviour :
  forall (item attrs fields opts : Type) (is_async : bool) (c : call fields opts)
         (p0 : page item attrs) script (o : outcome item attrs fields opts) init last rest b,
  iterate is_async c p0 script = Some o -> splits_at_first_empty (p0 :: script) init last rest ->
  b <= length init ->
  exists o', stop_after b o = Some o' /\
    o_pages o' = firstn (S b) (init ++ [last]) /\
    o_calls o' = c :: map (fun p => mkCall (p_token p) (c_fields c) (c_opts c)) (firstn b init) /\
    o_final o' = nth_error (init ++ [last]) b /\
    o_items o' = concat (map p_items (firstn (S b) (init ++ [last]))).
Proof. exact early_break_behaviour. Qed.
Print Assumptions C07_early_break_behaviour.

Example C07_early_break_nontrivial :
  1 <= length [ex_p ["a"; "b"] "t1"; ex_p [] "t2"] /\
  option_map (fun o => (o_calls o, o_final o))
    (match iterate true (mkCall "" "parent=p" "timeout=3") (ex_p ["a"; "b"] "t1") ex_script with
     | Some o => stop_after 1 o | None => None end)
  = Some ([mkCall "" "parent=p" "timeout=3"; mkCall "t1" "parent=p" "timeout=3"], Some (ex_p [] "t2")).
Proof. exact early_break_example. Qed.
Print Assumptions C07_early_break_nontrivial.

(* every call of a listing carries the fields and options of the request the caller passed; the caller's request is
   not an output of iteration (the pager works on its own copy: the T1 pin on __init__), so after draining a pager a
   second listing with the same request starts from the caller's own page_token and fields *)
Theorem C07_calls_keep_original_request :
  forall (item attrs fields opts : Type) (is_async : bool) (c : call fields opts)
         (p0 : page item attrs) script (o : outcome item attrs fields opts),
  iterate is_async c p0 script = Some o ->
  hd_error (o_calls o) = Some c /\
  Forall (fun x => c_fields x = c_fields c /\ c_opts x = c_opts c) (o_calls o).
Proof. exact calls_keep_original_request. Qed.
Print Assumptions C07_calls_keep_original_request.

Theorem C07_caller_request_unchanged :
  forall (item attrs fields opts : Type) (is_async : bool) (r : call fields opts)
         (p0 : page item attrs) script (q0 : page item attrs) script2 (o2 : outcome item attrs fields opts),
  snd (list_and_drain is_async r p0 script) = r /\
  (fst (list_and_drain is_async (snd (list_and_drain is_async r p0 script)) q0 script2) = Some o2 ->
   hd_error (o_calls o2) = Some r /\ Forall (fun x => c_fields x = c_fields r /\ c_opts x = c_opts r) (o_calls o2)).
Proof. exact caller_request_unchanged. Qed.
Print Assumptions C07_caller_request_unchanged.

Theorem C07_sync_async_agree :
  forall (item attrs fields opts : Type) (c : call fields opts) (p0 : page item attrs) script,
  iterate true c p0 script = iterate false c p0 script.
Proof. exact sync_async_agree. Qed.
Print Assumptions C07_sync_async_agree.

(* non-vacuity: a history with an empty intermediate page and unvisited pages after the first empty token *)
Example C07_pager_nontrivial :
  splits_at_first_empty (ex_p ["a"; "b"] "t1" :: ex_script) [ex_p ["a"; "b"] "t1"; ex_p [] "t2"] (ex_p ["c"] "") [ex_p ["never"] "t9"; ex_p [] ""]
  /\ option_map o_items (iterate true (mkCall "" "parent=p" "timeout=3") (ex_p ["a"; "b"] "t1") ex_script) = Some ["a"; "b"; "c"]
  /\ option_map o_calls (iterate false (mkCall "" "parent=p" "timeout=3") (ex_p ["a"; "b"] "t1") ex_script)
     = Some [mkCall "" "parent=p" "timeout=3"; mkCall "t1" "parent=p" "timeout=3"; mkCall "t2" "parent=p" "timeout=3"].
Proof. exact pager_example. Qed.
Print Assumptions C07_pager_nontrivial.
