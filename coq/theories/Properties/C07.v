(* C07 — paginated methods yield every item of every page exactly once, in order.
   Only statements, closed by [exact], each followed by Print Assumptions. *)
From GV Require Import Base.Str Model.Paging Proofs.Paging.
Open Scope list_scope.

(* ---- classification ---- *)

(* The code's decision: paged exactly when page_token and next_page_token are of type string, the size field
   (max_results when present, otherwise page_size) is an integer or a message called Int32Value/UInt32Value,
   and the response has a repeated field.  This is the code's condition; where it differs from the sentence of
   the property is shown by the three _refuted statements below. *)
Theorem C07_paged_iff : forall req resp,
  uniq req -> uniq resp ->
  ((exists f, paged_result_field req resp = Some f) <-> code_paged req resp).
Proof. exact paged_iff_code. Qed.
Print Assumptions C07_paged_iff.

(* On shapes whose paging fields are singular, whose page_size is not a message and where no inadmissible
   max_results sits next to an integer page_size, the code decides exactly the property's sentence. *)
Theorem C07_paged_iff_spec_regular : forall req resp,
  uniq req -> uniq resp -> regular req resp ->
  ((exists f, paged_result_field req resp = Some f) <-> spec_paged req resp).
Proof. exact paged_iff_spec_regular. Qed.
Print Assumptions C07_paged_iff_spec_regular.

(* the item field is the first repeated field of the response, in declaration order *)
Theorem C07_first_repeated_field : forall req resp f,
  paged_result_field req resp = Some f ->
  exists before after, resp = before ++ f :: after /\ frep f = true /\ Forall (fun g => frep g = false) before.
Proof. exact paged_field_first_repeated. Qed.
Print Assumptions C07_first_repeated_field.

(* the sentence of the property does NOT hold of the code on all shapes: three witnesses *)
Theorem C07_paged_iff_spec_refuted_wrapper_page_size :
  exists req resp, uniq req /\ uniq resp /\ paged_result_field req resp <> None /\ ~ spec_paged req resp.
Proof. exact paged_iff_spec_refuted_wrapper_page_size. Qed.
Print Assumptions C07_paged_iff_spec_refuted_wrapper_page_size.

Theorem C07_paged_iff_spec_refuted_shadowed_page_size :
  exists req resp, uniq req /\ uniq resp /\ spec_paged req resp /\ paged_result_field req resp = None.
Proof. exact paged_iff_spec_refuted_shadowed_page_size. Qed.
Print Assumptions C07_paged_iff_spec_refuted_shadowed_page_size.

Theorem C07_paged_iff_spec_refuted_repeated_paging_field :
  exists req resp, uniq req /\ uniq resp /\ paged_result_field req resp <> None /\ ~ spec_paged req resp.
Proof. exact paged_iff_spec_refuted_repeated_paging_field. Qed.
Print Assumptions C07_paged_iff_spec_refuted_repeated_paging_field.

Example C07_regular_nontrivial :
  uniq req_conventional /\ uniq resp_two_repeated /\ regular req_conventional resp_two_repeated /\
  spec_paged req_conventional resp_two_repeated /\
  option_map fname (paged_result_field req_conventional resp_two_repeated) = Some "labels".
Proof. exact regular_conventional. Qed.
Print Assumptions C07_regular_nontrivial.

(* a client method (sync or asyncio) returns a pager exactly under the code's condition on its two shapes, and
   pagers.py holds one class per paged method (two when a gRPC transport is generated) *)
Theorem C07_wrap_iff_code_paged : forall (is_async : bool) (m : rpc),
  uniq (r_req m) -> uniq (r_resp m) ->
  ((exists w, client_wrap is_async m = Some w) <-> code_paged (r_req m) (r_resp m)).
Proof. exact wrap_iff_code_paged. Qed.
Print Assumptions C07_wrap_iff_code_paged.

Theorem C07_pagers_module_classes : forall (with_async : bool) (ms : list rpc),
  length (pagers_module with_async ms) =
  (if with_async then 2 else 1) * length (filter (fun m => is_paged (r_req m) (r_resp m)) ms).
Proof. exact pagers_module_classes. Qed.
Print Assumptions C07_pagers_module_classes.

(* ---- the pager loop: for all item/attribute/request/option types, all requests, all server histories ---- *)

(* Whenever iteration of the pager (sync or asyncio) completes on the history p0 :: script, the history splits
   at its first empty token into init ++ last :: rest, and: the pages visited are init ++ [last]; the items
   yielded are the concatenation of their item fields in server order; the calls seen by the server are the
   original call followed, for each page of init, by the same call with page_token replaced by that page's
   next_page_token (other fields and call options unchanged); nothing of rest is fetched; attribute lookup on
   the pager ends at the last page visited. *)
Theorem C07_pager_behaviour :
  forall (item attrs fields opts : Type) (is_async : bool) (c : call fields opts)
         (p0 : page item attrs) (script : list (page item attrs)) (o : outcome item attrs fields opts),
  iterate is_async c p0 script = Some o ->
  exists init last rest,
    splits_at_first_empty (p0 :: script) init last rest /\
    o_pages o = init ++ [last] /\
    o_items o = concat (map p_items (init ++ [last])) /\
    o_calls o = c :: map (fun p => mkCall (p_token p) (c_fields c) (c_opts c)) init /\
    o_final o = Some last.
Proof. exact pager_behaviour. Qed.
Print Assumptions C07_pager_behaviour.

(* the decomposition is unique, so the statement above determines the behaviour *)
Theorem C07_first_empty_unique :
  forall (item attrs : Type) (h i1 : list (page item attrs)) l1 r1 i2 l2 r2,
  splits_at_first_empty h i1 l1 r1 -> splits_at_first_empty h i2 l2 r2 -> i1 = i2 /\ l1 = l2 /\ r1 = r2.
Proof. exact split_unique. Qed.
Print Assumptions C07_first_empty_unique.

(* iteration completes iff some page of the history has an empty token *)
Theorem C07_pager_terminates :
  forall (item attrs fields opts : Type) (is_async : bool) (c : call fields opts)
         (p0 : page item attrs) (script : list (page item attrs)),
  Exists (fun p => p_token p = "") (p0 :: script) -> exists o, iterate is_async c p0 script = Some o.
Proof. exact pager_terminates. Qed.
Print Assumptions C07_pager_terminates.

Theorem C07_pager_undefined_iff :
  forall (item attrs fields opts : Type) (is_async : bool) (c : call fields opts)
         (p0 : page item attrs) (script : list (page item attrs)),
  iterate is_async c p0 script = None <-> Forall nonempty_token (p0 :: script).
Proof. exact pager_undefined_iff. Qed.
Print Assumptions C07_pager_undefined_iff.

Theorem C07_pager_items :
  forall (item attrs fields opts : Type) (is_async : bool) (c : call fields opts)
         (p0 : page item attrs) script (o : outcome item attrs fields opts) init last rest,
  iterate is_async c p0 script = Some o -> splits_at_first_empty (p0 :: script) init last rest ->
  o_items o = concat (map p_items (init ++ [last])).
Proof. exact pager_items. Qed.
Print Assumptions C07_pager_items.

Theorem C07_requests_threaded :
  forall (item attrs fields opts : Type) (is_async : bool) (c : call fields opts)
         (p0 : page item attrs) script (o : outcome item attrs fields opts) init last rest,
  iterate is_async c p0 script = Some o -> splits_at_first_empty (p0 :: script) init last rest ->
  o_calls o = c :: map (fun p => mkCall (p_token p) (c_fields c) (c_opts c)) init.
Proof. exact requests_threaded. Qed.
Print Assumptions C07_requests_threaded.

Theorem C07_stops_at_first_empty :
  forall (item attrs fields opts : Type) (is_async : bool) (c : call fields opts)
         (p0 : page item attrs) script (o : outcome item attrs fields opts) init last rest,
  iterate is_async c p0 script = Some o -> splits_at_first_empty (p0 :: script) init last rest ->
  o_pages o = init ++ [last] /\ length (o_calls o) = S (length init).
Proof. exact stops_at_first_empty. Qed.
Print Assumptions C07_stops_at_first_empty.

Theorem C07_attrs_of_last_page :
  forall (item attrs fields opts : Type) (is_async : bool) (c : call fields opts)
         (p0 : page item attrs) script (o : outcome item attrs fields opts) init last rest,
  iterate is_async c p0 script = Some o -> splits_at_first_empty (p0 :: script) init last rest ->
  o_final o = Some last.
Proof. exact attrs_of_last_page. Qed.
Print Assumptions C07_attrs_of_last_page.

Theorem C07_sync_async_agree :
  forall (item attrs fields opts : Type) (c : call fields opts) (p0 : page item attrs) script,
  iterate true c p0 script = iterate false c p0 script.
Proof. exact sync_async_agree. Qed.
Print Assumptions C07_sync_async_agree.

(* non-vacuity: a history with an empty intermediate page and unvisited pages after the first empty token *)
Example C07_pager_nontrivial :
  splits_at_first_empty (ex_p ["a"; "b"] "t1" :: ex_script) [ex_p ["a"; "b"] "t1"; ex_p [] "t2"] (ex_p ["c"] "") [ex_p ["never"] "t9"; ex_p [] ""]
  /\ option_map o_items (iterate true (mkCall "" "parent=p" "timeout=3") (ex_p ["a"; "b"] "t1") ex_script) = Some ["a"; "b"; "c"]
  /\ option_map o_calls (iterate false (mkCall "" "parent=p" "timeout=3") (ex_p ["a"; "b"] "t1") ex_script)
     = Some [mkCall "" "parent=p" "timeout=3"; mkCall "t1" "parent=p" "timeout=3"; mkCall "t2" "parent=p" "timeout=3"].
Proof. exact pager_example. Qed.
Print Assumptions C07_pager_nontrivial.
