(* C11 — the emitted file set is well-formed and placed by package-derived naming.
   Only statements, closed by [exact], each followed by Print Assumptions.
   Model: Model/Files.v (+ Model/Case.v); the template lists and literals come from Gen/C11Gen.v, regenerated from /repo. *)
From Coq Require Import Permutation.
From GV Require Import Base.Str Model.Case Gen.C11Gen Model.Files Proofs.Case Proofs.FilesSym Proofs.Files.

(* the homomorphism lemma for the substitution of _get_filename: for every template path on which the symbolic run succeeds and
   every valuation whose visible values are non-empty '/'-separated words, the ordered string replacements, the lstrip and the
   slash squeeze produce exactly the concretisation of the symbolic result *)
Theorem C11_get_filename_sound : forall sg f tpl r,
  val_ok sg f -> sym_filename f tpl = Some r ->
  get_filename tpl (ctx_of_val sg f) = conc sg r /\ good sg r.
Proof. exact get_filename_sound. Qed.
Print Assumptions C11_get_filename_sound.

(* relative and normalised: every candidate name, both template trees, every well-formed API, every option set *)
Theorem C11_names_relative_normalised : forall templates a o old names,
  templates = default_templates \/ templates = ads_templates -> wf_rapi a old ->
  candidates templates a o = Ok names -> Forall (fun n => normalised n = true) names.
Proof. exact names_relative_normalised. Qed.
Print Assumptions C11_names_relative_normalised.

(* unique: the names of the response are pairwise distinct (dict keys), for any templates, API and options;
   and so are the names of any response accepted by the T1 comparison *)
Theorem C11_names_unique : forall templates a o names, candidates templates a o = Ok names -> NoDup names.
Proof. exact names_unique. Qed.
Print Assumptions C11_names_unique.
Theorem C11_response_unique : forall cands actual, NoDup cands -> response_ok cands actual = true -> NoDup actual.
Proof. exact response_unique. Qed.
Print Assumptions C11_response_unique.

(* rooted: what a package template (below %namespace/%name_%version/, resp. %namespace/%name/) yields lies below
   <namespace>/<name>_<version>/ (just <name> when unversioned), resp. <namespace>/<name>/ ... *)
Theorem C11_python_sources_rooted : forall a o old l,
  wf_rapi a old -> instances default_templates a o = Ok l ->
  forall i, In i l -> forall base_s, pkg_base_str a (i_tpl i) = Some base_s ->
  exists rest, inst_name a i = base_s ++ "/" ++ rest.
Proof. exact python_sources_rooted. Qed.
Print Assumptions C11_python_sources_rooted.
(* ... and every per-proto template is such a package template, every per-service one is, or is documentation / a test *)
Theorem C11_iterated_templates_placed :
  forallb (fun t => negb (occurs "%proto" t) || root_tpl t) (client_templates default_templates) = true /\
  forallb (fun t => negb (occurs "%service" t) || root_tpl t || starts_with "docs/" t || starts_with "tests/" t)
          (client_templates default_templates) = true.
Proof. exact iterated_templates_placed. Qed.
Print Assumptions C11_iterated_templates_placed.

(* __init__ completeness: every directory at or below the package root (or the unversioned alias package) that holds an emitted
   file of a package template holds an emitted __init__.py — partial in one respect: proved for proto sub-packages at most one
   level deep (hypothesis shallow); depth 2 is covered by C11_nested_example, T1 and the oracle *)
Theorem C11_init_complete : forall a o old l,
  wf_rapi a old -> shallow a -> instances default_templates a o = Ok l ->
  forall i, In i l -> forall base_s, pkg_base_str a (i_tpl i) = Some base_s ->
  forall x y, inst_name a i = base_s ++ x ++ String slash y ->
  exists i', In i' l /\ inst_name a i' = base_s ++ x ++ "/__init__.py".
Proof. exact init_complete. Qed.
Print Assumptions C11_init_complete.

(* exactly one types module per target proto, for proto sub-packages of any depth *)
Theorem C11_one_types_module_per_target_proto : forall a o l,
  instances default_templates a o = Ok l ->
  (forall u, In u (ra_protos a) -> In (unit_inst types_tpl u) l) /\
  (forall i, In i l -> i_proto i <> None -> exists u, In u (ra_protos a) /\ i = unit_inst types_tpl u).
Proof. exact one_types_module_per_target_proto. Qed.
Print Assumptions C11_one_types_module_per_target_proto.
Theorem C11_types_module_name : forall a old sub m, wf_rapi a old -> Forall word sub -> word m ->
  inst_name a (mk_inst types_tpl sub None (Some m)) =
  root_of a ++ "/" ++ (match sub with [] => "" | _ => sjoin "/" sub ++ "/" end) ++ "types/" ++ m ++ ".py".
Proof. exact types_module_name. Qed.
Print Assumptions C11_types_module_name.

(* one service package per service, for proto sub-packages of any depth *)
Theorem C11_one_package_per_service : forall a o l,
  instances default_templates a o = Ok l ->
  (forall tpl u s, In tpl service_pkg_tpls -> In u (ra_protos a) -> In s (u_services u) -> In (svc_inst tpl u s) l) /\
  (forall i, In i l -> service_tpl (i_tpl i) = true -> occurs "%sub" (i_tpl i) = true ->
             exists u s, In u (ra_protos a) /\ In s (u_services u) /\ i = svc_inst (i_tpl i) u s).
Proof. exact one_package_per_service. Qed.
Print Assumptions C11_one_package_per_service.

(* nothing for dependency files: every proto that gets a module stems from a request file whose package is the target package
   or one of its sub-packages (segment-wise, not a textual prefix) *)
Theorem C11_nothing_for_dependency_files : forall files to_generate o a,
  build_rapi files to_generate o = Ok a ->
  forall u, In u (ra_protos a) ->
  exists f, In f (sanitize_all [] files) /\ u_module u = proto_module (pf_name f) /\
            (target_package files to_generate = "" \/ pf_package f = target_package files to_generate
             \/ exists rest, pf_package f = target_package files to_generate ++ "." ++ rest).
Proof. exact nothing_for_dependency_files. Qed.
Print Assumptions C11_nothing_for_dependency_files.
Example C11_dependency_example :
  exists names,
    generate default_templates [mkPF "a/b/v1beta1/dep.proto" "a.b.v1beta1" []; mkPF "a/b/v1/top.proto" "a.b.v1" ["Top"]]
             ["a/b/v1/top.proto"] "" false false = Ok (names, 1) /\
    mem_str "a/b_v1/types/top.py" names = true /\ mem_str "a/b_v1/types/dep.py" names = false /\
    existsb (fun n => occurs "dep" n) names = false.
Proof. exact dependency_example. Qed.
Print Assumptions C11_dependency_example.

(* sub-packages nested two levels deep: the types / services theorems hold for any depth; C11_init_complete carries the
   hypothesis "shallow" (depth <= 1): its symbolic argument treats the sub-package as one path segment.  The former witness of
   the subpackage[0] defect is checked as a concrete example, deeper nestings by T1 and the oracle *)
Example C11_nested_example :
  wf_rapi nested_api false /\
  exists names, candidates default_templates nested_api plain_opts = Ok names /\
    forallb (fun n => mem_str n names)
            ["a/b_v1/types/top.py"; "a/b_v1/sub/types/mid.py"; "a/b_v1/sub/deep/types/low.py"; "a/b_v1/__init__.py";
             "a/b_v1/sub/__init__.py"; "a/b_v1/sub/deep/__init__.py"; "a/b_v1/sub/deep/types/__init__.py";
             "a/b_v1/sub/deep/services/low_svc/transports/__init__.py"; "a/b_v1/sub/types/__init__.py"] = true /\
    mem_str "a/b_v1/sub/sub/__init__.py" names = false /\ mem_str "a/b_v1/types/low.py" names = false
    /\ forallb normalised names = true.
Proof. exact nested_example. Qed.
Print Assumptions C11_nested_example.

(* private templates are never rendered *)
Theorem C11_private_skipped : forall templates tpl,
  In tpl (client_templates templates) -> is_private tpl = false /\ is_sample_template tpl = false.
Proof. exact private_skipped. Qed.
Print Assumptions C11_private_skipped.

(* unknown options are ignored ... *)
Theorem C11_unknown_options_ignored : forall l1 raw l2,
  Forall (fun x => contains ","%char x = false) (l1 ++ raw :: l2) -> (l1 ++ l2)%list <> [] -> unknown_option raw = true ->
  options_build (sjoin "," (l1 ++ raw :: l2)) = options_build (sjoin "," (l1 ++ l2)).
Proof. exact unknown_options_ignored. Qed.
Print Assumptions C11_unknown_options_ignored.
Theorem C11_unknown_option_alone : forall raw,
  contains ","%char raw = false -> unknown_option raw = true -> options_build raw = options_build "".
Proof. exact unknown_option_alone. Qed.
Print Assumptions C11_unknown_option_alone.
(* ... whatever their value: an option is unknown as soon as its key (text before the first "=") is neither a flag of the
   generator nor prefixed python-gapic-; values containing "=" included (Mfile.proto=pkg=alias, foo=a=b) *)
Theorem C11_unknown_key_ignored : forall l1 raw l2,
  Forall (fun x => contains ","%char x = false) (l1 ++ raw :: l2) -> (l1 ++ l2)%list <> [] -> unknown_key raw = true ->
  options_build (sjoin "," (l1 ++ raw :: l2)) = options_build (sjoin "," (l1 ++ l2)).
Proof. exact unknown_key_ignored. Qed.
Print Assumptions C11_unknown_key_ignored.
Theorem C11_unknown_key_alone : forall raw,
  contains ","%char raw = false -> unknown_key raw = true -> options_build raw = options_build "".
Proof. exact unknown_key_alone. Qed.
Print Assumptions C11_unknown_key_alone.

(* non-vacuity of wf_rapi / shallow / unknown_option on non-trivial objects *)
Example C11_example_ok :
  wf_rapi example_api false /\ shallow example_api /\
  exists names, candidates default_templates example_api example_opts = Ok names /\
    In "google/cloud/big_query_v1beta1/sub/types/extra.py" names /\
    In "google/cloud/big_query_v1beta1/sub/services/aux_2b/transports/__init__.py" names /\
    In "google/cloud/big_query_v1beta1/services/iam/transports/rest.py" names /\
    In "google/cloud/big_query/__init__.py" names /\ List.length names = 85.
Proof. exact example_ok. Qed.
Print Assumptions C11_example_ok.
Example C11_unknown_option_examples :
  unknown_key "foo=bar" = true /\ unknown_key " Mgoogle/api/x.proto=pkg=alias " = true /\ unknown_key "foo=a=b" = true
  /\ unknown_key "" = true /\ unknown_key "=" = true /\ unknown_key "metadata" = false /\ unknown_key "transport=a=b" = false
  /\ unknown_key "python-gapic-name=x" = false
  /\ options_build "transport=rest,foo=a=b,metadata" = options_build "transport=rest,metadata"
  /\ on_ok (options_build "transport=a=b") (fun o => sl_eqb (o_transport o) ["a=b"]) = true.
Proof. exact unknown_option_examples. Qed.
Print Assumptions C11_unknown_option_examples.

(* T0 pins: the literals of the modelled functions as they are in /repo now *)
Theorem C11_pins_generator :
  get_filename_consts = [".j2"; "%namespace"; "%name_%version"; "%version"; "%name"; "%sub"; "/"; "service"; "%service";
                         "service"; "proto"; "%proto"; "proto"; "/+"; "/"]
  /\ render_template_consts = ["gapic_metadata.json.j2"; "%namespace/%name/"; "%service"; "%proto"; "%sub"; "%proto"; "%service";
                               "transport"; "async_client"; "grpc"; "rest_asyncio"; "rest_base"; "rest"]
  /\ desired_transport_consts = ["__init__"; "base"; "README"]
  /\ get_file_consts = ["py.typed"; "__init__.py"]
  /\ get_response_consts = ["/"; "_"; "__init__.py.j2"]
  /\ sample_template_name = "sample.py.j2".
Proof. exact pins_generator. Qed.
Print Assumptions C11_pins_generator.
Theorem C11_pins_naming_options :
  naming_build_consts = ["Naming"; "."; "."; ", "; "^((?P<namespace>[a-z0-9_.]+)\.)?(?P<name>[a-z0-9_]+)";
                         "\.(?P<version>v[0-9]+(p[0-9]+)?((alpha|beta)[0-9]*)?)"; "namespace"; "namespace"; ""; "name"; "namespace";
                         "."; "name"; "version"; ""; "All protos must have the same proto package up to and including the version.";
                         " "; "_"; " "; " "; "."; "."]
  /\ options_build_consts = ["Options"; ","; "true"; "="; "="; "DEFAULT"; "templates"; ".."; "templates"; "retry-config";
                             "service-yaml"; "type"; "samples"; "autogen-snippets"; "True"; "True"; "true"; "T"; "t"; "TRUE";
                             "old-naming"; "proto-plus-deps"; ""; "+"; "name"; ""; "namespace"; "warehouse-package-name"; "";
                             "lazy-import"; "add-iam-methods"; "metadata"; "transport"; "grpc"; "+"; "rest-numeric-enums";
                             "Unrecognized option: `python-gapic-"; "`."]
  /\ gapic_prefix = "python-gapic-"
  /\ invalid_module_extra = ["metadata"; "request"; "retry"; "timeout"; "transport"]
  /\ package_exprs = ["'.'.join(os.path.commonprefix([p.package.split('.') for p in req.proto_file if p.name in req.file_to_generate]))";
                      "'.'.join(os.path.commonprefix([p.split('.') for p in sorted(proto_packages)]))"]
  /\ sanitize_consts = ["."; "-"; "."; "_"; "-"; "_"; "_"]
  /\ sanitize_tests = ["'.' in name or '-' in name";
                       "name in invalid_module_names or to_snake_case(name) in invalid_module_names or full_path in visited_names";
                       "full_path in visited_names"]
  /\ file_to_generate_exprs = ["in_package(fd.package)"; "proto.file_to_generate"]
  /\ in_package_src = "not package or proto_package == package or proto_package.startswith(package + '.')"
  /\ subpackage_elts = ["p.meta.address.subpackage[level]"]
  /\ opt_split_first = true
  /\ forallb (fun k => negb (starts_with gapic_prefix k)) opt_flags = true
  /\ forallb (fun k => mem_str k consumed_keys) opt_flags = true
  /\ forallb (fun k => negb (ends_with "_" k)) invalid_module_names = true.
Proof. exact pins_naming_options. Qed.
Print Assumptions C11_pins_naming_options.
Theorem C11_case_pins :
  CaseGen.snake_subs = [("(?<=[a-z])([A-Z])", "_\1"); ("(?<=[^_])([A-Z])(?=[a-z])", "_\1");
                ("(?<=[a-z])(\d)(?=[A-Z]{2})", "_\1"); ("(?<=[a-z])(\d)(?=[A-Z]$)", "_\1")]
  /\ CaseGen.valid_filename_subs = [("[^a-z0-9.$_-]+", "-")] /\ CaseGen.valid_module_consts = ["-"; "_"].
Proof. exact case_pins. Qed.
Print Assumptions C11_case_pins.

(* ---- empty modules are not emitted: utils.empty and the drop rule of Generator._get_file (Model/Empty.v) ---- *)
From GV Require Import Model.FixWs Model.Empty Proofs.Empty.

(* T0 pins: the one expression of utils.empty, the drop test of _get_file and the function its content goes through *)
Theorem C11_pins_empty :
  empty_src = "not any([i.lstrip() and (not i.lstrip().startswith('#')) for i in content.split('\n')])"
  /\ get_file_tests = ["utils.empty(cgr_file.content) and (not fn.endswith(('py.typed', '__init__.py')))"]
  /\ get_file_content_fns = ["formatter.fix_whitespace"]
  /\ get_file_consts = ["py.typed"; "__init__.py"].
Proof. exact pins_empty. Qed.
Print Assumptions C11_pins_empty.

(* utils.empty (split on newlines, lstrip, startswith) is the complement of a one-pass scanner that reports the first
   character that is neither a blank, a newline nor part of a comment: "no Python statement", for every text *)
Theorem C11_empty_is_scanner : forall content, empty content = negb (has_code false content).
Proof. exact empty_scan. Qed.
Print Assumptions C11_empty_is_scanner.

Theorem C11_empty_by_lines : forall a b, empty (a ++ String nl b) = empty a && empty b.
Proof. exact empty_lines. Qed.
Print Assumptions C11_empty_by_lines.

(* the decision is taken on the whitespace-cleaned text; it is the decision the raw render would have got (uses C20's
   theorem that fix_whitespace only deletes blanks) *)
Theorem C11_empty_after_fix_whitespace : forall raw, empty (fix_whitespace raw) = empty raw.
Proof. exact empty_fix_whitespace. Qed.
Print Assumptions C11_empty_after_fix_whitespace.

(* the file set: a rendered template reaches the response exactly when its text has a statement or it is a package marker *)
Theorem C11_emitted_spec : forall fn raw,
  emitted fn (fix_whitespace raw) = has_code false raw || ends_with "py.typed" fn || ends_with "__init__.py" fn.
Proof. exact emitted_spec. Qed.
Print Assumptions C11_emitted_spec.

Theorem C11_markers_always_emitted : forall dir raw,
  emitted (dir ++ "__init__.py") (fix_whitespace raw) = true /\ emitted (dir ++ "py.typed") (fix_whitespace raw) = true.
Proof. exact markers_always_emitted. Qed.
Print Assumptions C11_markers_always_emitted.

Theorem C11_comment_only_dropped : forall fn raw,
  has_code false raw = false -> ends_with "py.typed" fn = false -> ends_with "__init__.py" fn = false ->
  emitted fn (fix_whitespace raw) = false.
Proof. exact comment_only_dropped. Qed.
Print Assumptions C11_comment_only_dropped.

Example C11_empty_examples :
  empty (sx [35;32;45;42;45;10; 10; 32;32;9;35;32;99;10]%N) = true
  /\ empty "" = true
  /\ empty (sx [35;32;99;10; 120;32;61;32;49;10]%N) = false
  /\ empty (sx [34;34;34;10; 35;10; 34;34;34;10]%N) = false
  /\ emitted "a/b/pagers.py" (fix_whitespace (sx [35;32;99;10;10;10]%N)) = false
  /\ emitted "a/b/__init__.py" (fix_whitespace (sx [35;32;99;10;10;10]%N)) = true
  /\ emitted "a/b/my__init__.py" "" = true.
Proof. exact empty_examples. Qed.
Print Assumptions C11_empty_examples.
