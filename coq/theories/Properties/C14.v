(* C14 — generated samples are valid, executable and consistent with their metadata.
   Only statements, closed by [exact], each followed by Print Assumptions. *)
From GV Require Import Base.Str Model.Case Model.Samples Proofs.Samples.
Local Open Scope list_scope.

(* every spec of generate_sample_specs belongs to one (service, rpc, client kind) and its region tag is
   <host shortname>_<version>_generated_<Service>_<Rpc>_<sync|async> (plus _internal for internal rpcs) *)
Theorem C14_tag_format : forall version tr svcs sp,
  In sp (generate_sample_specs version tr svcs) ->
  exists s r k, In s svcs /\ In r (sv_rpcs s) /\ In k (spec_kinds tr) /\
                sp_service sp = sv_name s /\ sp_rpc sp = rp_name r /\ sp_transport sp = k /\
                sp_tag sp = sjoin "_" (tag_parts version s r k).
Proof. exact tag_format. Qed.
Print Assumptions C14_tag_format.

(* for every rpc: with gRPC exactly one sync and one asyncio spec; with REST alone exactly one sync spec; REST gets no
   spec of its own when gRPC is generated *)
Theorem C14_one_sync_one_async : forall version tr svcs s r,
  names_distinct svcs -> In s svcs -> In r (sv_rpcs s) ->
  let l := specs_of version tr svcs (sv_name s) (rp_name r) in
  (mem_str "grpc" tr = true -> l = [mk_spec version s "grpc" r; mk_spec version s "grpc-async" r] /\
                               map (fun sp => sync_or_async (sp_transport sp)) l = ["sync"; "async"]) /\
  (mem_str "grpc" tr = false -> mem_str "rest" tr = true -> l = [mk_spec version s "rest" r] /\
                               map (fun sp => sync_or_async (sp_transport sp)) l = ["sync"]) /\
  (mem_str "grpc" tr = false -> mem_str "rest" tr = false -> l = []).
Proof. exact one_sync_one_async. Qed.
Print Assumptions C14_one_sync_one_async.

(* the snippet index hands the sync client's docstring the rpc's synchronous sample and the asyncio client's docstring the
   asyncio sample, for every rpc — internal ones, whose tags end in _internal, included *)
Theorem C14_index_slot_spec : forall version tr svcs s r,
  names_distinct svcs -> In s svcs -> In r (sv_rpcs s) ->
  let added := generate_sample_specs version tr svcs in
  (mem_str "grpc" tr = true ->
     index_get added (sv_name s) (rp_name r) true = Some (mk_spec version s "grpc" r) /\
     index_get added (sv_name s) (rp_name r) false = Some (mk_spec version s "grpc-async" r)) /\
  (mem_str "grpc" tr = false -> mem_str "rest" tr = true ->
     index_get added (sv_name s) (rp_name r) true = Some (mk_spec version s "rest" r) /\
     index_get added (sv_name s) (rp_name r) false = None).
Proof. exact index_slot_spec. Qed.
Print Assumptions C14_index_slot_spec.

Example C14_example_index_internal :
  option_map sp_tag (index_get (generate_sample_specs "v1" ["grpc"; "rest"] ex_svcs) "Archive" "GetArchive" true)
    = Some "archive-library_v1_generated_Archive_GetArchive_sync_internal" /\
  option_map sp_tag (index_get (generate_sample_specs "v1" ["grpc"; "rest"] ex_svcs) "Archive" "GetArchive" false)
    = Some "archive-library_v1_generated_Archive_GetArchive_async_internal".
Proof. exact ex_index_internal. Qed.
Print Assumptions C14_example_index_internal.

(* the tag determines host shortname, service, rpc, sync/async and internal-ness when no component contains an underscore *)
Theorem C14_tag_injective : forall version svcs s r k s' r' k',
  tag_unambiguous version svcs = true -> In s svcs -> In r (sv_rpcs s) -> In s' svcs -> In r' (sv_rpcs s') ->
  region_tag version s r k = region_tag version s' r' k' ->
  shortname (sv_host s) = shortname (sv_host s') /\ sv_name s = sv_name s' /\ rp_name r = rp_name r' /\
  sync_or_async k = sync_or_async k' /\ rp_internal r = rp_internal r'.
Proof. exact tag_injective. Qed.
Print Assumptions C14_tag_injective.

(* outside that hypothesis uniqueness fails: Library/Get_Book and Library_Get/Book carry the same tag *)
Theorem C14_tag_collision_refuted :
  exists version svcs s r s' r' k,
    In s svcs /\ In r (sv_rpcs s) /\ In s' svcs /\ In r' (sv_rpcs s') /\ names_distinct svcs /\
    (sv_name s, rp_name r) <> (sv_name s', rp_name r') /\ region_tag version s r k = region_tag version s' r' k.
Proof. exact tag_collision_refuted. Qed.
Print Assumptions C14_tag_collision_refuted.

(* FULL / SHORT are the lines strictly between the START and END tag lines, and full_snippet is exactly that text *)
Theorem C14_full_snippet_between_tags : forall pre mid post tS tE,
  no_tags pre -> no_tags mid -> no_tags post -> classify tS = KStart -> classify tE = KEnd ->
  let lines := pre ++ tS :: mid ++ tE :: post in
  full_s (parse_segments lines) = length pre + 2 /\ full_e (parse_segments lines) = length pre + 1 + length mid /\
  full_snippet_lines lines = mid.
Proof. exact full_snippet_between_tags. Qed.
Print Assumptions C14_full_snippet_between_tags.

(* with the four phase markers present in order: the phases are contiguous, ordered, start inside FULL *)
Theorem C14_segments_spec : forall pre a b c d e post tS tC tR tX tH tE,
  all_other pre -> all_other a -> all_other b -> all_other c -> all_other d -> all_other e -> all_other post ->
  classify tS = KStart -> classify tC = KClient -> classify tR = KReqInit -> classify tX = KReqExec ->
  classify tH = KResp -> classify tE = KEnd ->
  let lines := pre ++ tS :: a ++ tC :: b ++ tR :: c ++ tX :: d ++ tH :: e ++ tE :: post in
  let g := parse_segments lines in
  full_snippet_lines lines = a ++ tC :: b ++ tR :: c ++ tX :: d ++ tH :: e /\
  ci_s g = length pre + 2 + length a /\
  ci_e g + 1 = ri_s g /\ ri_e g + 1 = re_s g /\ re_e g + 1 = rh_s g /\ rh_e g = length lines /\
  full_s g <= ci_s g /\ ci_s g <= ci_e g /\ ri_s g <= ri_e g /\ re_s g <= re_e g /\ rh_s g <= full_e g /\ full_e g < rh_e g.
Proof. exact segments_spec. Qed.
Print Assumptions C14_segments_spec.

(* segments_spec for samples WITHOUT a response marker (void rpcs): REQUEST_EXECUTION ends with the snippet, the three
   phases are contiguous and ordered, RESPONSE_HANDLING has no range.  (Until /repo 9d7a09d REQUEST_EXECUTION stayed
   open — DESIGN section 9 no. 20; the witness stays in corpus/C14.) *)
Theorem C14_segments_spec_without_response_marker : forall pre a b c d post tS tC tR tX tE,
  all_other pre -> all_other a -> all_other b -> all_other c -> all_other d -> all_other post ->
  classify tS = KStart -> classify tC = KClient -> classify tR = KReqInit -> classify tX = KReqExec -> classify tE = KEnd ->
  let lines := pre ++ tS :: a ++ tC :: b ++ tR :: c ++ tX :: d ++ tE :: post in
  let g := parse_segments lines in
  full_snippet_lines lines = a ++ tC :: b ++ tR :: c ++ tX :: d /\
  ci_s g = length pre + 2 + length a /\ ci_e g + 1 = ri_s g /\ ri_e g + 1 = re_s g /\ re_e g = full_e g /\
  full_s g <= ci_s g /\ ci_s g <= ci_e g /\ ri_s g <= ri_e g /\ re_s g <= re_e g /\ rh_s g = 0 /\ rh_e g = 0.
Proof. exact segments_spec_without_response_marker. Qed.
Print Assumptions C14_segments_spec_without_response_marker.

Theorem C14_response_marker_iff : forall lro paged cs ss void,
  has_response_marker (method_default lro paged cs ss) void = false <-> lro = false /\ paged = false /\ ss = false /\ void = true.
Proof. exact response_marker_iff. Qed.
Print Assumptions C14_response_marker_iff.

(* removing the 12-space indentation of the embedded snippet gives back the snippet, line by line *)
Theorem C14_docstring_embeds_full_snippet : forall ls, dedent_lines (indent_lines ls) = ls.
Proof. exact docstring_embeds_full_snippet. Qed.
Print Assumptions C14_docstring_embeds_full_snippet.

(* generate_request_object: which fields are selected, and that the result covers every selected field *)
Theorem C14_selected_spec : forall fs,
  (forall f, In f fs -> f_required f = true -> f_oneof f = None \/ f_p3opt f = true -> In f (selected fs)) /\
  (forall f o, In f fs -> real_oneof f = Some o -> exists g, In g (selected fs) /\ real_oneof g = Some o).
Proof. exact selected_spec. Qed.
Print Assumptions C14_selected_spec.

Theorem C14_request_covers_required_and_oneofs : forall k sc m fs prefix encl l,
  assoc m sc = Some fs -> gro (S k) sc m prefix encl = Some l ->
  forall f, In f (selected fs) ->
    match f_type f with
    | TPrim p => In (qual prefix (f_name f), prim_value f p) l
    | TEnum vs => exists v, last_opt vs = Some v /\ In (qual prefix (f_name f), if f_repeated f then VList [VEnum v] else VEnum v) l
    | TMsg m' => mem_str m' (m :: encl) = true \/
                 exists l', gro k sc m' (qual prefix (f_name f)) (m :: encl) = Some l' /\ incl l' l
    end.
Proof. exact request_covers_required_and_oneofs. Qed.
Print Assumptions C14_request_covers_required_and_oneofs.

(* a required message field whose type has no required fields and no oneofs is mentioned by no entry (known finding) *)
Theorem C14_required_message_field_populated_refuted :
  exists sc m fs f l, assoc m sc = Some fs /\ In f fs /\ f_required f = true /\ f_oneof f = None /\
                      gro 5 sc m "" [] = Some l /\ forall e, In e l -> starts_with (f_name f) (fst e) = false.
Proof. exact required_message_field_populated_refuted. Qed.
Print Assumptions C14_required_message_field_populated_refuted.

(* the recursion ends for EVERY schema whose references resolve and whose enums have a value: as many nested calls as there
   are messages, plus one, always suffice.  (Until /repo 40893b0 a REQUIRED field of the enclosing message's own type
   recursed forever — DESIGN section 9 no. 10; the witness stays in corpus/C14.) *)
Theorem C14_request_object_terminates : forall sc m fs prefix,
  closed sc -> assoc m sc = Some fs -> gro (S (length sc)) sc m prefix [] <> None.
Proof. exact request_object_terminates. Qed.
Print Assumptions C14_request_object_terminates.

Theorem C14_request_object_terminates_general : forall sc,
  closed sc ->
  forall fuel m fs prefix encl, assoc m sc = Some fs -> outside (m :: encl) (map fst sc) < fuel ->
  gro fuel sc m prefix encl <> None.
Proof. exact request_object_terminates_general. Qed.
Print Assumptions C14_request_object_terminates_general.

Example C14_example_self_cycle :
  closed self_schema /\ gro 2 self_schema "Node" "" [] = Some [("name", VStr "name_value")].
Proof. exact (conj self_schema_closed self_schema_terminates). Qed.
Print Assumptions C14_example_self_cycle.

(* the metadata entry names the class, method and parameters the client templates define *)
Theorem C14_metadata_matches_surface : forall svc_name internal transport m,
  meta_client svc_name internal transport = tmpl_class svc_name internal (meta_async transport) /\
  meta_method m = tmpl_method m /\ meta_params m = tmpl_params m /\ meta_has_result m = negb (md_void m).
Proof. exact metadata_matches_surface. Qed.
Print Assumptions C14_metadata_matches_surface.

Theorem C14_call_awaited_spec : forall lro paged cs ss,
  call_awaited true (method_default lro paged cs ss) = negb lro.
Proof. exact call_awaited_spec. Qed.
Print Assumptions C14_call_awaited_spec.

(* non-vacuity *)
Example C14_example_specs :
  tag_unambiguous "v1" ex_svcs = true /\ names_distinct ex_svcs /\
  map sp_tag (generate_sample_specs "v1" ["grpc"; "rest"] ex_svcs) =
  ["library_v1_generated_Catalog_GetItem_sync"; "library_v1_generated_Catalog_ListItems_sync";
   "library_v1_generated_Catalog_GetItem_async"; "library_v1_generated_Catalog_ListItems_async";
   "archive-library_v1_generated_Archive_GetArchive_sync_internal"; "archive-library_v1_generated_Archive_GetArchive_async_internal"] /\
  map sp_transport (generate_sample_specs "v1" ["rest"] ex_svcs) = ["rest"; "rest"; "rest"].
Proof. exact ex_specs. Qed.
Print Assumptions C14_example_specs.

Example C14_example_segments :
  segs_list (parse_segments ex_lines) = [4; 19; 7; 9; 10; 13; 14; 16; 17; 20] /\
  length (full_snippet_lines ex_lines) = 16 /\
  dedent_lines (indent_lines (full_snippet_lines ex_lines)) = full_snippet_lines ex_lines.
Proof. exact ex_segments. Qed.
Print Assumptions C14_example_segments.

Example C14_example_request :
  gro 3 ex_schema "Req" "" [] =
  Some [("by_range.low", VInt 338); ("name", VStr "name_value"); ("mode", VList [VEnum "MODE_FAST"]); ("nick", VStr "nick_value");
        ("spec.label", VStr "label_value"); ("spec.weights", VList [VInt 764; VInt 765])].
Proof. exact ex_request. Qed.
Print Assumptions C14_example_request.

Example C14_example_closed : closed ex_schema.
Proof. exact ex_closed. Qed.
Print Assumptions C14_example_closed.
