(* C10 — generation is deterministic: the order-sensitive combinators applied to sets are permutation-invariant,
   and every set/sort site of the generator is accounted for.  PARTIAL: no theorem covers the generator as a whole. *)
From GV Require Import Base.Str Model.Determ Proofs.Determ Gen.DetermSites Model.DetermSites Proofs.DetermSites.
From Coq Require Import Permutation.

(* sorted(set): whatever order the set is enumerated in, the result is the same *)
Theorem C10_sorted_set_invariant : forall s1 s2 : list string,
  NoDup s1 -> NoDup s2 -> (forall x, In x s1 <-> In x s2) -> sorted_strs s1 = sorted_strs s2.
Proof. exact sorted_set_invariant. Qed.
Print Assumptions C10_sorted_set_invariant.

(* sort_lines(dedupe=True): independent of the enumeration of set(lines) *)
Theorem C10_sort_lines_enum_invariant : forall f g text,
  is_set_enum f -> is_set_enum g -> sort_lines_with f true text = sort_lines_with g true text.
Proof. exact sort_lines_enum_invariant. Qed.
Print Assumptions C10_sort_lines_enum_invariant.

Theorem C10_dedup_is_set_enum : is_set_enum dedup.
Proof. exact dedup_is_set_enum. Qed.
Print Assumptions C10_dedup_is_set_enum.

(* Jinja |sort(attribute=k) / dictsort / a stable sort by any key: permutation-invariant when keys are distinct *)
Theorem C10_sort_by_key_perm_invariant : forall (A : Type) (key : A -> string) (l1 l2 : list A),
  Permutation l1 l2 -> NoDup (map key l1) -> sort_by key l1 = sort_by key l2.
Proof. exact @sort_by_perm_invariant. Qed.
Print Assumptions C10_sort_by_key_perm_invariant.

(* ... and exactly that hypothesis is needed: with two keys equal up to case the input order shows *)
Theorem C10_sort_by_key_tie_refuted :
  exists (l1 l2 : list (string * string)), Permutation l1 l2 /\ jinja_sort fst l1 <> jinja_sort fst l2.
Proof. exact sort_by_tie_refuted. Qed.
Print Assumptions C10_sort_by_key_tie_refuted.

(* selective generation: a declaration-ordered dict filtered by MEMBERSHIP in the allow-set does not depend on how the set is enumerated;
   it keeps exactly the allowed keys, in declaration order (the two equations characterise the order) *)
Theorem C10_prune_decl_enum_invariant : forall decl a1 a2,
  (forall y, In y a1 <-> In y a2) -> prune_decl decl a1 = prune_decl decl a2.
Proof. exact prune_decl_enum_invariant. Qed.
Print Assumptions C10_prune_decl_enum_invariant.

Theorem C10_prune_decl_keeps_exactly : forall decl allow k, In k (prune_decl decl allow) <-> In k decl /\ In k allow.
Proof. exact prune_decl_keeps_exactly. Qed.
Print Assumptions C10_prune_decl_keeps_exactly.

Theorem C10_prune_decl_order : forall d1 d2 k allow,
  (prune_decl (d1 ++ d2) allow = prune_decl d1 allow ++ prune_decl d2 allow)%list
  /\ prune_decl [k] allow = if mem_str k allow then [k] else [].
Proof. intros d1 d2 k allow. split; [apply prune_decl_app | apply prune_decl_single]. Qed.
Print Assumptions C10_prune_decl_order.

(* ... whereas walking the SET keeps the same keys but in the set's enumeration order *)
Theorem C10_prune_by_set_refuted :
  exists decl a1 a2, NoDup a1 /\ NoDup a2 /\ (forall y, In y a1 <-> In y a2) /\
                     prune_by_set decl a1 <> prune_by_set decl a2.
Proof. exact prune_by_set_refuted. Qed.
Print Assumptions C10_prune_by_set_refuted.

(* T0: the site inventory regenerated from /repo is exactly the classified table *)
Theorem C10_every_site_classified : forall s, In s SITES -> In s (map fst CLASSIFIED).
Proof.
  intros s H. pose proof every_site_classified_b as F. rewrite forallb_forall in F.
  apply F in H. unfold mem_str in H. apply existsb_exists in H as (y & Hy & E). apply String.eqb_eq in E. now subst.
Qed.
Print Assumptions C10_every_site_classified.

Theorem C10_no_stale_classification : forall s, In s (map fst CLASSIFIED) -> In s SITES.
Proof.
  intros s H. pose proof no_stale_entry_b as F. rewrite forallb_forall in F.
  apply F in H. unfold mem_str in H. apply existsb_exists in H as (y & Hy & E). apply String.eqb_eq in E. now subst.
Qed.
Print Assumptions C10_no_stale_classification.

Example C10_nontrivial :
  sort_lines true (sx [10;98;10;32;32;10;97;10;98;10]%N) = sx [10;97;10;98;10]%N
  /\ jinja_sort fst [("b","1"); ("A","2"); ("a","3")] = [("A","2"); ("a","3"); ("b","1")]
  /\ NoDup (map (fun x : string * string => lower (fst x)) [("b","1"); ("A","2")]).
Proof. split; [vm_compute; reflexivity | split; [vm_compute; reflexivity | repeat constructor; simpl; intuition discriminate]]. Qed.
Print Assumptions C10_nontrivial.
