(* C19 — resource path helpers build and parse names as mutual inverses.
   Only statements, closed by [exact], each followed by Print Assumptions. *)
From GV Require Import Base.Str Model.ResPath Proofs.ResPath.

(* parse (build vals) = vals, for every pattern and all values in the stated domain *)
Theorem C19_parse_build : forall pattern vals,
  pattern <> "*" -> ok (tokenize pattern) vals -> parse pattern (build pattern vals) = vals.
Proof. exact parse_build_pattern. Qed.
Print Assumptions C19_parse_build.

(* whatever the regex accepts is a built path (possibly followed by one final newline, which
   Python's '$' tolerates), keyed by the pattern's variables, with non-empty newline-free values *)
Theorem C19_build_parse : forall pattern path e,
  match_toks (tokenize pattern) path = Some e ->
  (path = build pattern e \/ path = build pattern e ++ nls) /\
  map fst e = args (tokenize pattern) /\
  Forall (fun kv => snd kv <> "" /\ contains nl (snd kv) = false) e.
Proof. exact build_parse_pattern. Qed.
Print Assumptions C19_build_parse.

Theorem C19_build_parse_exact : forall pattern path e,
  contains nl path = false ->
  match_toks (tokenize pattern) path = Some e -> build pattern e = path.
Proof. exact build_parse_exact. Qed.
Print Assumptions C19_build_parse_exact.

(* a string that is not an instance of the pattern parses to the empty dict *)
Theorem C19_nonmatch_empty : forall pattern path,
  (forall e, path <> build pattern e /\ path <> build pattern e ++ nls) -> parse pattern path = [].
Proof. exact nonmatch_pattern. Qed.
Print Assumptions C19_nonmatch_empty.

Theorem C19_star : forall path, parse "*" path = [] /\ build "*" [] = "*" /\ regex_str "*" = "^.*$".
Proof. exact star_pattern. Qed.
Print Assumptions C19_star.

(* non-vacuity: a concrete pattern with a dot delimiter and a trailing double-star variable *)
Example C19_ok_nontrivial :
  ok (tokenize "shelves/{shelf}.{book}/x/{rest=**}") [("shelf","s-12"); ("book","b3"); ("rest","a/b")]
  /\ parse "shelves/{shelf}.{book}/x/{rest=**}" "shelves/s-12.b3/x/a/b" = [("shelf","s-12"); ("book","b3"); ("rest","a/b")]
  /\ regex_str "{x}.{y}" = "^(?P<x>.+?)\.(?P<y>.+?)$".
Proof. vm_compute. repeat split; discriminate. Qed.
Print Assumptions C19_ok_nontrivial.

(* ---- which resources a service sees (the helpers the client offers) ---- *)
From GV Require Import Model.Selective Model.ResVis Proofs.ResVis.

(* the visited-set search over message-typed fields never runs out of fuel ... *)
Theorem C19_visible_total : forall sch tbl roots, exists hs, visible sch tbl roots = Some hs.
Proof. exact visible_total. Qed.
Print Assumptions C19_visible_total.

(* ... and the client offers a helper for (type, pattern) exactly when some message reachable from a method's request or
   response (LRO response type) through message-typed fields either is that resource or references it and the table knows it *)
Theorem C19_visible_spec : forall sch tbl roots hs, visible sch tbl roots = Some hs ->
  forall h, In h hs <->
    exists t a m, In t roots /\ reach (vnext sch) t a /\ vfind sch a = Some m /\ In h (helpers_of tbl m).
Proof. exact visible_spec. Qed.
Print Assumptions C19_visible_spec.

Theorem C19_helpers_of_spec : forall tbl m t p, In (t, p) (helpers_of tbl m) <->
  vm_res m = Some (t, p) \/ (In t (vm_refs m) /\ assoc t tbl = Some p).
Proof. exact helpers_of_spec. Qed.
Print Assumptions C19_helpers_of_spec.

(* the visited set of the search must be keyed by the whole message address: keyed so, the keyed search is the model's ... *)
Theorem C19_visible_by_address : forall sch tbl roots, visible_by (fun a => a) sch tbl roots = visible sch tbl roots.
Proof. exact visible_by_address. Qed.
Print Assumptions C19_visible_by_address.

(* ... keyed by the short message name (Rack.Details and Tome.Details are both "Details") it loses a resource that
   C19_visible_spec says the service sees *)
Theorem C19_visible_by_short_name_refuted :
  exists sch tbl roots h,
    (exists t a m, In t roots /\ reach (vnext sch) t a /\ vfind sch a = Some m /\ In h (helpers_of tbl m)) /\
    (forall hs, visible_by short_name sch tbl roots = Some hs -> ~ In h hs).
Proof. exact visible_by_short_name_refuted. Qed.
Print Assumptions C19_visible_by_short_name_refuted.

Example C19_visible_example :
  let sch := [ mkV "GetReq" ["Wrapper"] ["x.com/Vault"] None;
               mkV "Wrapper" ["Book"; "Wrapper"] [] None;
               mkV "Book" [] [] (Some ("x.com/Book", "shelves/{shelf}/books/{book}"));
               mkV "Unrelated" [] [] (Some ("x.com/Other", "others/{other}")) ] in
  visible sch [("x.com/Vault", "vaults/{vault}")] ["GetReq"]
  = Some [("x.com/Book", "shelves/{shelf}/books/{book}"); ("x.com/Vault", "vaults/{vault}")]
  /\ helper_sig ("x.com/KeyRing", "keyRings/{key_ring=**}") = ("key_ring_path", "keyRings/{key_ring}").
Proof. exact visible_example. Qed.
Print Assumptions C19_visible_example.
