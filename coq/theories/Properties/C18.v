(* C18 — auto-populated request ids obey AIP-4235 at generation time and at call time.
   Only statements, closed by [exact], each followed by Print Assumptions. *)
From GV Require Import Base.Str Model.Uuid Proofs.Uuid.
Open Scope list_scope.

(* ---- generation time ---- *)

(* The property's sentence, unconditionally: a method-settings list is accepted exactly when selectors are pairwise
   distinct and every entry names an existing method and, if it lists auto-populated fields, a unary method whose
   request message is one of the API's own and has each listed name as a top-level field that is a singular string,
   not REQUIRED and annotated UUID4. *)
Theorem C18_validation_iff_spec : forall methods settings,
  methods_wf methods -> (enforce methods settings = Accepted <-> spec_valid methods settings).
Proof. exact validation_iff_spec. Qed.
Print Assumptions C18_validation_iff_spec.

(* the former witness of the repeated-string gap is rejected *)
Example C18_former_gap_closed :
  enforce rep_methods rep_settings = Rejected [("pkg.Lib.CreateBook", SFields [("request_ids", FNotString)])].
Proof. exact former_gap_closed. Qed.
Print Assumptions C18_former_gap_closed.

(* an entry with any single violation (unknown method; streaming method; a listed field that is missing, nested,
   not a string, REQUIRED or not UUID4) makes generation fail, wherever it stands in the list, and the error
   report has an entry for its selector *)
Theorem C18_each_single_violation_rejected : forall methods settings s,
  methods_wf methods -> In s settings -> violates methods s ->
  enforce methods settings = Crashed \/
  exists errs e, enforce methods settings = Rejected errs /\ assoc (s_selector s) errs = Some e.
Proof. exact each_single_violation_rejected. Qed.
Print Assumptions C18_each_single_violation_rejected.

(* under selective GAPIC generation (any allow-list, either mode) the validation sees a sub-table of the proto's
   methods, so a selector naming NO method of the proto is still rejected and reported *)
Theorem C18_unknown_selector_rejected_selective : forall allow internal methods settings s,
  methods_wf methods -> In s settings -> (forall m, In m methods -> m_selector m <> s_selector s) ->
  let table := visible_methods allow internal methods in
  enforce table settings = Crashed \/
  exists errs e, enforce table settings = Rejected errs /\ assoc (s_selector s) errs = Some e.
Proof. exact unknown_selector_rejected_selective. Qed.
Print Assumptions C18_unknown_selector_rejected_selective.

(* the unchanged code on an existing method omitted by the allow-list: "not found" when omitted methods are pruned,
   validated as usual when they are kept as internal; a misspelt selector is rejected in both modes *)
Example C18_selective_nontrivial :
  enforce (visible_methods ["pkg.Lib.GetBook"] false ex_methods) [mkSetting "pkg.Lib.CreateBook" ["request_id"]]
    = Rejected [("pkg.Lib.CreateBook", SMethodNotFound)] /\
  enforce (visible_methods ["pkg.Lib.GetBook"] true ex_methods) [mkSetting "pkg.Lib.CreateBook" ["request_id"]] = Accepted /\
  enforce (visible_methods ["pkg.Lib.GetBook"] true ex_methods) [mkSetting "pkg.Lib.CreateBooks" ["request_id"]]
    = Rejected [("pkg.Lib.CreateBooks", SMethodNotFound)].
Proof. exact pruned_method_not_found. Qed.
Print Assumptions C18_selective_nontrivial.

(* ---- package layout: the validation runs per sub-package view, against the methods of the whole API ---- *)

(* whatever the layout of services over proto sub-packages, an entry with a violation (unknown method, streaming, bad
   field) is rejected by EVERY view, so no view that gets evaluated lets it through; duplicates are covered by
   C18_duplicates_rejected, which holds for every table *)
Theorem C18_violation_rejected_in_every_layout : forall view ms settings s,
  methods_wf (full_table ms) -> In s settings -> violates (full_table ms) s ->
  enforce (view_table view ms) settings = Crashed \/
  exists errs e, enforce (view_table view ms) settings = Rejected errs /\ assoc (s_selector s) errs = Some e.
Proof. exact violation_rejected_in_every_layout. Qed.
Print Assumptions C18_violation_rejected_in_every_layout.

Theorem C18_violation_never_generated : forall ms settings s m0,
  methods_wf (full_table ms) -> In m0 ms -> In s settings -> violates (full_table ms) s ->
  generation_accepts ms settings = false.
Proof. exact violation_never_generated. Qed.
Print Assumptions C18_violation_never_generated.

(* settings that are valid for the API are accepted by every view in every layout ... *)
Theorem C18_valid_accepted_in_every_layout : forall view ms settings,
  methods_wf (full_table ms) -> spec_valid (full_table ms) settings ->
  enforce (view_table view ms) settings = Accepted.
Proof. exact valid_accepted_in_every_layout. Qed.
Print Assumptions C18_valid_accepted_in_every_layout.

(* ... so, with at least one service, generation succeeds exactly under the property's sentence, in every layout *)
Theorem C18_generation_accepts_iff_spec : forall ms settings m0,
  methods_wf (full_table ms) -> In m0 ms ->
  (generation_accepts ms settings = true <-> spec_valid (full_table ms) settings).
Proof. exact generation_accepts_iff_spec. Qed.
Print Assumptions C18_generation_accepts_iff_spec.

(* the former witness (a top-level method named while another service lives in sub-package admin) is accepted by both
   views although the admin view holds only its own method; violations are rejected by both *)
Example C18_layout_nontrivial :
  methods_wf (full_table layout_mixed) /\
  spec_valid (full_table layout_mixed) [mkSetting "pkg.Lib.CreateBook" ["request_id"]] /\
  view_outcomes layout_mixed [mkSetting "pkg.Lib.CreateBook" ["request_id"]] = [Accepted; Accepted] /\
  own_methods ["admin"] layout_mixed = [mkMethod "pkg.admin.Admin.CreateThing" false false (Some [f_name; f_opt_id])] /\
  view_outcomes layout_mixed [mkSetting "pkg.Lib.CreateBooks" ["request_id"]]
    = [Rejected [("pkg.Lib.CreateBooks", SMethodNotFound)]; Rejected [("pkg.Lib.CreateBooks", SMethodNotFound)]] /\
  view_outcomes layout_mixed [mkSetting "pkg.Lib.CreateBook" ["name"]]
    = [Rejected [("pkg.Lib.CreateBook", SFields [("name", FRequired); ("name", FNotUuid4)])];
       Rejected [("pkg.Lib.CreateBook", SFields [("name", FRequired); ("name", FNotUuid4)])]].
Proof. exact layout_example. Qed.
Print Assumptions C18_layout_nontrivial.

(* a selector that occurs twice is reported as a duplicate, whatever else the list contains *)
Theorem C18_duplicates_rejected : forall methods l1 s1 l2 s2 l3,
  s_selector s1 = s_selector s2 ->
  let settings := l1 ++ s1 :: l2 ++ s2 :: l3 in
  enforce methods settings = Crashed \/
  exists errs, enforce methods settings = Rejected errs /\ assoc (s_selector s1) errs = Some SDuplicate.
Proof. exact duplicates_rejected. Qed.
Print Assumptions C18_duplicates_rejected.

Example C18_validation_nontrivial :
  methods_wf ex_methods /\ enforce ex_methods ex_settings = Accepted /\
  client_blocks false (mkMethod "pkg.Lib.CreateBook" false false (Some ex_fields)) ex_settings
    = Some [mkBlock (GNotTruthy "request_id") "request_id"; mkBlock (GNotIn "opt_id") "opt_id"].
Proof. exact ex_accepted. Qed.
Print Assumptions C18_validation_nontrivial.

Example C18_violations_nontrivial :
  violates ex_methods (mkSetting "pkg.Lib.Missing" []) /\
  violates ex_methods (mkSetting "pkg.Lib.WatchBooks" ["request_id"]) /\
  violates ex_methods (mkSetting "pkg.Lib.CreateBook" ["name"]) /\
  violates ex_methods (mkSetting "pkg.Lib.CreateBook" ["count"]) /\
  violates ex_methods (mkSetting "pkg.Lib.CreateBook" ["note"]) /\
  violates ex_methods (mkSetting "pkg.Lib.CreateBook" ["book.request_id"]) /\
  enforce ex_methods [mkSetting "pkg.Lib.CreateBook" ["request_id"; "name"; "count"; "nested.id"]]
    = Rejected [("pkg.Lib.CreateBook", SFields [("name", FRequired); ("name", FNotUuid4); ("count", FNotString); ("nested.id", FNotFound)])] /\
  enforce ex_methods [mkSetting "pkg.Lib.CreateBook" ["name"]; mkSetting "pkg.Lib.GetBook" []; mkSetting "pkg.Lib.CreateBook" []]
    = Rejected [("pkg.Lib.CreateBook", SDuplicate)].
Proof. exact ex_violations. Qed.
Print Assumptions C18_violations_nontrivial.

(* ---- call time ---- *)

(* after acceptance every method of the API has well-defined population blocks (the template never fails) *)
Theorem C18_accepted_blocks_defined : forall (is_async : bool) methods settings m,
  methods_wf methods -> enforce methods settings = Accepted -> In m methods ->
  exists bs, client_blocks is_async m settings = Some bs.
Proof. exact accepted_blocks_defined. Qed.
Print Assumptions C18_accepted_blocks_defined.

(* For every listed singular field: if the caller left it unset (presence fields) or unset/empty (fields without
   presence) it leaves with a value drawn from the uuid stream, otherwise it leaves exactly as it came.
   The contract on uuid.uuid4 used here: the values it returns are non-empty strings. *)
Theorem C18_populate_iff_unset_or_empty : forall fs names bs us st st' us' n f,
  emit_fields fs names = Some bs -> exec fs bs us st = Some (st', us') ->
  Forall (fun u => u <> "") us ->
  In n names -> find_field n fs = Some f -> rf_repeated f = false ->
  (left_unset_or_empty f st = true -> exists u, In u us /\ assoc n st' = Some (VStr u)) /\
  (left_unset_or_empty f st = false -> assoc n st' = assoc n st).
Proof. exact populate_iff_unset_or_empty. Qed.
Print Assumptions C18_populate_iff_unset_or_empty.

(* a provided value, and every field that is not listed, is never altered *)
Theorem C18_never_alters_provided : forall fs names bs us st st' us' g,
  emit_fields fs names = Some bs -> exec fs bs us st = Some (st', us') ->
  (~ In g names \/ exists f, find_field g fs = Some f /\ left_unset_or_empty f st = false) ->
  assoc g st' = assoc g st.
Proof. exact never_alters_provided. Qed.
Print Assumptions C18_never_alters_provided.

(* the blocks always run to completion when the stream has one value per block, and use a prefix of it *)
Theorem C18_exec_defined : forall fs bs us st, length bs <= length us -> exists r, exec fs bs us st = Some r.
Proof. exact exec_defined. Qed.
Print Assumptions C18_exec_defined.

Theorem C18_exec_uses_prefix : forall fs bs us st st' us',
  exec fs bs us st = Some (st', us') -> exists used, us = used ++ us'.
Proof. exact exec_suffix. Qed.
Print Assumptions C18_exec_uses_prefix.

(* sync client (which also serves the REST transport) and asyncio client carry the same blocks: in the model one function
   emits both, so this holds by computation; that the two emitted files really carry the model's blocks is the T1 tie *)
Theorem C18_paths_agree : forall m settings, client_blocks true m settings = client_blocks false m settings.
Proof. exact paths_agree. Qed.
Print Assumptions C18_paths_agree.

(* after acceptance every listed field is a singular string, not REQUIRED, UUID4: the hypothesis [rf_repeated f = false]
   of C18_populate_iff_unset_or_empty is met by every accepted entry *)
Theorem C18_accepted_fields_singular : forall methods settings s m fs n f,
  methods_wf methods -> enforce methods settings = Accepted -> In s settings -> In m methods ->
  m_selector m = s_selector s -> m_input m = Some fs -> In n (s_fields s) -> find_field n fs = Some f ->
  rf_repeated f = false /\ rf_string f = true /\ rf_required f = false /\ rf_uuid4 f = true.
Proof. exact accepted_fields_singular. Qed.
Print Assumptions C18_accepted_fields_singular.

Example C18_population_hypotheses_nontrivial :
  Forall (fun u : string => u <> "") ["u1"; "u2"] /\
  find_field "request_id" ex_fields = Some f_req_id /\ rf_repeated f_req_id = false /\
  left_unset_or_empty f_req_id [("name", VStr "x")] = true /\
  left_unset_or_empty f_req_id [("request_id", VStr "mine")] = false /\
  left_unset_or_empty f_opt_id [("opt_id", VStr "")] = false.
Proof. exact ex_population_hyps. Qed.
Print Assumptions C18_population_hypotheses_nontrivial.

Example C18_population_nontrivial :
  let fs := ex_fields in
  let bs := [mkBlock (GNotTruthy "request_id") "request_id"; mkBlock (GNotIn "opt_id") "opt_id"] in
  emit_fields fs ["request_id"; "opt_id"] = Some bs /\
  exec fs bs ["u1"; "u2"] [("name", VStr "x")] = Some ([("name", VStr "x"); ("request_id", VStr "u1"); ("opt_id", VStr "u2")], []) /\
  exec fs bs ["u1"; "u2"] [("request_id", VStr ""); ("opt_id", VStr "")] = Some ([("request_id", VStr "u1"); ("opt_id", VStr "")], ["u2"]) /\
  exec fs bs ["u1"; "u2"] [("request_id", VStr "mine"); ("opt_id", VStr "too")] = Some ([("request_id", VStr "mine"); ("opt_id", VStr "too")], ["u1"; "u2"]).
Proof. exact ex_population. Qed.
Print Assumptions C18_population_nontrivial.
